#!/bin/bash
# builds the engine from /verif sources only (offline; x/tools v0.50.0 from the module cache, go1.26.8)
cd "$(dirname "$0")" || exit 2
export GOFLAGS=-mod=mod GOPROXY=off GOTOOLCHAIN=local
unset GOSUMDB
mkdir -p bin evidence replay
go1.26.8 build -o bin/gosmt.tmp.$$ ./cmd/gosmt && mv -f bin/gosmt.tmp.$$ bin/gosmt

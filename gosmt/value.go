package gosmt

import (
	"fmt"
	"go/types"

	"golang.org/x/tools/go/ssa"
)

// Value is a symbolic Go value. Dynamic types:
//
//	*Term     bool / integer scalar
//	Float     concrete float
//	*Agg      struct or array (by value)
//	Pointer   pointer (concrete object + path; array steps may be symbolic terms)
//	Slice     slice header
//	Str       string
//	Iface     interface value
//	*Closure  function value
//	MapRef    map (reference to a heap object holding *MapObj)
//	Tuple     multi-value result
//	Opaque    native handle
//	Poison    result of an unsupported operation
type Value interface{}

type Float struct{ F float64 }

// Agg is a struct or array value. Aggs stored in registers are immutable; Aggs in
// the heap may be mutated in place by the state that owns them (Epoch).
type Agg struct {
	Elems []Value
	Epoch int
}

// PathElem is one step of a pointer path: a field/element index (Idx, when Sym is nil)
// or a symbolic array index.
type PathElem struct {
	Idx int
	Sym *Term // 64-bit index term, or nil
}

// Obj is the identity of a heap object.
type Obj struct {
	ID   int
	Typ  types.Type // type of the stored value
	Name string
	RO   bool // read-only (string constants)
}

type Pointer struct {
	Obj  *Obj // nil = nil pointer
	Path []PathElem
}

func (p Pointer) IsNil() bool { return p.Obj == nil }

// Slice: Obj holds an *Agg (array of concrete capacity N). Off/Len/Cap are 64-bit terms.
// Base is the path to the array inside Obj (usually empty).
type Slice struct {
	Obj  *Obj // nil = nil slice
	Base []PathElem
	Off  *Term
	Len  *Term
	Cap  *Term
}

// Str is a string. Concrete strings carry S; symbolic ones reference an object like a slice.
type Str struct {
	Conc bool
	S    string
	Obj  *Obj
	Base []PathElem
	Off  *Term
	Len  *Term
}

type Iface struct {
	Typ types.Type // dynamic type; nil = nil interface
	Val Value
}

type Closure struct {
	Fn       *ssa.Function
	Bindings []Value
	// bound method value: receiver prepended on call
	Recv    Value
	HasRecv bool
	// builtin or intrinsic by name
	Builtin string
}

type MapRef struct {
	Obj *Obj // nil = nil map
}

// MapObj is the content of a map object. Keys are compared structurally.
type MapObj struct {
	Entries []MapEntry
	Epoch   int
}

type MapEntry struct {
	Key     Value
	Val     Value
	Present *Term // bool
}

// SparseArr is an array of symbolic length whose elements are a default value overlaid with
// a short list of stores (used for make() with a symbolic size when vp.SparseAlloc is on).
type SparseArr struct {
	Default Value
	Stores  []SparseStore
}

type SparseStore struct {
	Idx *Term
	Val Value
}

type Tuple []Value

type Opaque struct {
	Kind string
	V    interface{}
}

type Poison struct{ Why string }

func (p Poison) String() string { return "poison(" + p.Why + ")" }

// ErrVal is the dynamic value of error objects created by models of
// fmt.Errorf / errors.New with symbolic operands.
type ErrVal struct {
	Msg     string
	Wrapped Value // Iface or nil
}

func isPoison(v Value) (Poison, bool) {
	p, ok := v.(Poison)
	return p, ok
}

func describe(v Value) string {
	switch x := v.(type) {
	case nil:
		return "<nil>"
	case *Term:
		return x.String()
	case *Agg:
		return fmt.Sprintf("agg[%d]", len(x.Elems))
	case Pointer:
		if x.Obj == nil {
			return "nilptr"
		}
		return fmt.Sprintf("&obj%d%v", x.Obj.ID, x.Path)
	case Slice:
		if x.Obj == nil {
			return "nilslice"
		}
		return fmt.Sprintf("slice(obj%d off=%v len=%v)", x.Obj.ID, x.Off, x.Len)
	case Str:
		if x.Conc {
			return fmt.Sprintf("%q", x.S)
		}
		return fmt.Sprintf("symstr(obj%d len=%v)", x.Obj.ID, x.Len)
	case Iface:
		if x.Typ == nil {
			return "niliface"
		}
		return fmt.Sprintf("iface(%v:%s)", x.Typ, describe(x.Val))
	case *Closure:
		if x.Fn != nil {
			return "func " + x.Fn.String()
		}
		return "builtin " + x.Builtin
	case Tuple:
		s := "("
		for i, e := range x {
			if i > 0 {
				s += ", "
			}
			s += describe(e)
		}
		return s + ")"
	}
	if p, ok := v.(Poison); ok {
		return p.String()
	}
	return fmt.Sprintf("%T", v)
}

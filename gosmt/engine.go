package gosmt

import (
	"fmt"
	"os"
	"go/constant"
	"go/token"
	"go/types"
	"sort"
	"strings"
	"time"

	"golang.org/x/tools/go/ssa"
)

// Stats collected during one harness run.
type Stats struct {
	States  int
	Merges  int
	Steps   int
	Queries int
	Infeasible int
}

// Obligation is one solver-decided proof obligation.
type Obligation struct {
	Kind    string // assert | panic | unwind | alloc | cover | known | cut
	Label   string
	Pos     string
	Verdict string // holds | violated | inconclusive | reached | unreachable | known-finding | known-gone
	Detail  string
	Solver  string
	TimeMs  int64
	Model   map[string]interface{} `json:",omitempty"`
	KnownID string                 `json:",omitempty"`
}

// Options configure a harness run.
type Options struct {
	Unwind      int
	MaxSteps    int
	MaxDepth    int
	TimeoutMs   int
	AllocCap    int // capacity given to make() with a symbolic size
	Known       map[string]bool
	Tier        string
	Bounds      map[string]int
	Concrete    *Model // when set, inputs are taken from this model (conformance mode)
	Deadline    time.Time
	SecondCheck bool
	KnownSites  []KnownFinding
}

// Input describes one symbolic input created by the harness.
type Input struct {
	Name string
	Kind string // u8 u16 u32 u64 i64 int bool bytes
	W    int
	N    int // for bytes
	Term *Term
	Elts []*Term
}

type abortRun struct{ why string }

// Engine executes one harness symbolically.
type Engine struct {
	prog     *ssa.Program
	tt       *TermTable
	solver   *Solver
	solver2  *Solver
	opts     Options
	fnInfos  map[*ssa.Function]*fnInfo
	baseHeap map[int]*Box
	globals  map[*ssa.Global]*Obj
	strObjs  map[string]*Obj
	objCtr   int
	epochCtr int
	stats    Stats

	Obligations []*Obligation
	Inputs      []*Input
	inputByName map[string]*Input
	FuncsSeen   map[string]int
	Models      map[string]bool // stubs and models used
	Assumptions []string
	Cuts        map[string]int
	Covers      map[string]bool
	Observes    []Observe
	Nondet      []string
	Violations  []*Violation
	KnownSeen   map[string]string
	KnownCex    []*KnownCex
	pathEnds    []pathEnd
	inited      map[*ssa.Package]bool
	initState   *State
	harness     string
	curPos      string
	errType     types.Type
	noPanicAll  bool
	trace       bool
	hook        *hooks
	env         map[string]Value
	inInit      bool
	crcExactMode bool
	curIns      ssa.Instruction
	maxLoop     int
	hostDirs    map[string]bool
	hostFS      bool
	started     time.Time
	fixedNow    *int64
	hostPkg     *ssa.Package
	divDefs     map[[3]uint64][2]*Term
	defOf       map[*Term]*Term
	sparseAlloc bool
	civil       map[*Term]civil
	mctx        *mergeCtx
	mergeFailLog func(string)
}

type Observe struct {
	Label string
	T     *Term
	PC    []*Term
}

// Violation is a counterexample (not yet confirmed natively).
type Violation struct {
	Ob     *Obligation
	Inputs map[string]interface{}
}

func NewEngine(prog *ssa.Program, opts Options) (*Engine, error) {
	tt := NewTermTable()
	if opts.TimeoutMs == 0 {
		opts.TimeoutMs = 20000
	}
	if opts.Unwind == 0 {
		opts.Unwind = 16
	}
	if opts.MaxSteps == 0 {
		opts.MaxSteps = 30_000_000
	}
	if opts.MaxDepth == 0 {
		opts.MaxDepth = 80
	}
	if opts.AllocCap == 0 {
		opts.AllocCap = 64
	}
	s, err := NewSolver("z3-new", tt, opts.TimeoutMs)
	if err != nil {
		return nil, err
	}
	e := &Engine{prog: prog, tt: tt, solver: s, opts: opts,
		fnInfos: map[*ssa.Function]*fnInfo{}, baseHeap: map[int]*Box{}, globals: map[*ssa.Global]*Obj{},
		strObjs: map[string]*Obj{}, inputByName: map[string]*Input{}, FuncsSeen: map[string]int{},
		Models: map[string]bool{}, Cuts: map[string]int{}, Covers: map[string]bool{}, KnownSeen: map[string]string{},
		inited: map[*ssa.Package]bool{}}
	if os.Getenv("GOSMT_DEBUG") != "" {
		cnt := 0
		e.mergeFailLog = func(w string) {
			if cnt < 30 {
				fmt.Fprintf(os.Stderr, "merge failed at %s: %s\n", e.pos(e.curIns), firstN(w, 300))
			}
			cnt++
		}
	}
	e.errType = types.NewNamed(types.NewTypeName(token.NoPos, nil, "vpError", nil), types.NewStruct(nil, nil), nil)
	return e, nil
}

func (e *Engine) Close() {
	if e.solver != nil {
		e.solver.Close()
	}
	if e.solver2 != nil {
		e.solver2.Close()
	}
}

func (e *Engine) StatsCopy() Stats {
	s := e.stats
	s.Queries = e.solver.Queries
	return s
}

func (e *Engine) SolverTime() time.Duration { return e.solver.TimeSpent }

func (e *Engine) newState() *State {
	return &State{heap: map[int]*Box{}, epoch: e.newEpoch(), dirty: map[int]struct{}{}}
}

// box lookup with fallback to the base heap (globals, constants)
func (e *Engine) boxOf(st *State, o *Obj) *Box {
	if b := st.heap[o.ID]; b != nil {
		return b
	}
	if b := e.baseHeap[o.ID]; b != nil {
		return b
	}
	return nil
}

func (e *Engine) ownBoxOf(st *State, o *Obj) *Box {
	b := st.heap[o.ID]
	if b == nil {
		bb := e.baseHeap[o.ID]
		if bb == nil {
			return nil
		}
		b = bb
	}
	st.dirty[o.ID] = struct{}{}
	if b.Epoch != st.epoch {
		nb := &Box{V: b.V, Epoch: st.epoch}
		st.heap[o.ID] = nb
		return nb
	}
	return b
}

func (e *Engine) loadPtr(st *State, p Pointer) Value {
	if p.Obj == nil {
		return Poison{"nil dereference"}
	}
	b := e.boxOf(st, p.Obj)
	if b == nil {
		return Poison{"load from unknown object " + p.Obj.Name}
	}
	return freeze(e.loadAt(b.V, p.Path))
}

func (e *Engine) storePtr(st *State, p Pointer, v Value) {
	if p.Obj == nil {
		return
	}
	b := e.ownBoxOf(st, p.Obj)
	if b == nil {
		return
	}
	b.V = e.storeAt(b.V, p.Path, v, nil, st.epoch)
}

// ---- types -----------------------------------------------------------------

func intInfo(t types.Type) (w int, signed bool, ok bool) {
	b, isB := t.Underlying().(*types.Basic)
	if !isB {
		if _, isP := t.Underlying().(*types.Pointer); isP {
			return 0, false, false
		}
		return 0, false, false
	}
	switch b.Kind() {
	case types.Bool, types.UntypedBool:
		return 0, false, true
	case types.Int8:
		return 8, true, true
	case types.Int16:
		return 16, true, true
	case types.Int32, types.UntypedRune:
		return 32, true, true
	case types.Int, types.Int64, types.UntypedInt:
		return 64, true, true
	case types.Uint8:
		return 8, false, true
	case types.Uint16:
		return 16, false, true
	case types.Uint32:
		return 32, false, true
	case types.Uint, types.Uint64, types.Uintptr:
		return 64, false, true
	}
	return 0, false, false
}

func isFloat(t types.Type) bool {
	b, ok := t.Underlying().(*types.Basic)
	return ok && b.Info()&types.IsFloat != 0
}

func isString(t types.Type) bool {
	b, ok := t.Underlying().(*types.Basic)
	return ok && b.Info()&types.IsString != 0
}

const maxArray = 1 << 22

func (e *Engine) zero(t types.Type) Value {
	switch u := t.Underlying().(type) {
	case *types.Basic:
		if w, _, ok := intInfo(t); ok {
			return e.tt.Const(w, 0)
		}
		if isString(t) {
			return Str{Conc: true}
		}
		if isFloat(t) {
			return Float{0}
		}
		if u.Kind() == types.UnsafePointer {
			return Pointer{}
		}
		if u.Kind() == types.UntypedNil {
			return nil
		}
		return Poison{"zero of " + t.String()}
	case *types.Pointer:
		return Pointer{}
	case *types.Slice:
		return Slice{}
	case *types.Map:
		return MapRef{}
	case *types.Chan:
		return Opaque{Kind: "chan"}
	case *types.Signature:
		return (*Closure)(nil)
	case *types.Interface:
		return Iface{}
	case *types.Struct:
		a := &Agg{Elems: make([]Value, u.NumFields()), Epoch: -1}
		for i := range a.Elems {
			a.Elems[i] = e.zero(u.Field(i).Type())
		}
		return a
	case *types.Array:
		n := u.Len()
		if n > maxArray {
			return Poison{"array too large"}
		}
		a := &Agg{Elems: make([]Value, n), Epoch: -1}
		if n > 0 {
			z := e.zero(u.Elem())
			for i := range a.Elems {
				a.Elems[i] = z
			}
		}
		return a
	case *types.Tuple:
		tu := make(Tuple, u.Len())
		for i := range tu {
			tu[i] = e.zero(u.At(i).Type())
		}
		return tu
	}
	return Poison{"zero of " + t.String()}
}

func (e *Engine) constValue(c *ssa.Const) Value {
	t := c.Type()
	if c.Value == nil {
		return e.zero(t)
	}
	if w, _, ok := intInfo(t); ok {
		if w == 0 {
			return e.tt.Bool(constant.BoolVal(c.Value))
		}
		if v, ok := constant.Int64Val(constant.ToInt(c.Value)); ok {
			return e.tt.Const(w, uint64(v))
		}
		if v, ok := constant.Uint64Val(constant.ToInt(c.Value)); ok {
			return e.tt.Const(w, v)
		}
		return Poison{"big constant"}
	}
	if isString(t) {
		return Str{Conc: true, S: constant.StringVal(c.Value)}
	}
	if isFloat(t) {
		f, _ := constant.Float64Val(c.Value)
		return Float{f}
	}
	return Poison{"const of " + t.String()}
}

// ---- globals, package init ----------------------------------------------------

func (e *Engine) globalObj(g *ssa.Global) *Obj {
	if o, ok := e.globals[g]; ok {
		return o
	}
	e.objCtr++
	elem := g.Type().(*types.Pointer).Elem()
	o := &Obj{ID: e.objCtr, Typ: elem, Name: g.String()}
	e.globals[g] = o
	e.baseHeap[o.ID] = &Box{V: e.zero(elem), Epoch: -1}
	return o
}

// ---- events ----------------------------------------------------------------------

func (e *Engine) pos(ins ssa.Instruction) string {
	if ins == nil {
		return e.curPos
	}
	p := ins.Pos()
	fn := ins.Parent()
	if !p.IsValid() {
		// search backwards in block for a valid position
		if b := ins.Block(); b != nil {
			for _, i2 := range b.Instrs {
				if i2.Pos().IsValid() {
					p = i2.Pos()
				}
				if i2 == ins {
					break
				}
			}
		}
	}
	pp := e.prog.Fset.Position(p)
	f := pp.Filename
	if i := strings.Index(f, "/go-diskfs/"); i >= 0 {
		f = f[i+len("/go-diskfs/"):]
	}
	f = strings.TrimPrefix(f, "/repo/")
	return fmt.Sprintf("%s:%d (%s)", f, pp.Line, fn.String())
}

func (e *Engine) abort(why string) {
	panic(abortRun{why})
}

// checkSat decides pc ∧ extra. Retries on other solvers when unknown.
func (e *Engine) checkSat(pc []*Term, extra *Term, want []*Term) (Result, []uint64, string, string) {
	as := make([]*Term, 0, len(pc)+1)
	for _, c := range pc {
		if c == e.tt.False {
			return Unsat, nil, "", "const"
		}
		if c != e.tt.True {
			as = append(as, c)
		}
	}
	if extra != nil {
		if extra == e.tt.False {
			return Unsat, nil, "", "const"
		}
		if extra != e.tt.True {
			as = append(as, extra)
		}
	}
	if !e.opts.Deadline.IsZero() && time.Now().After(e.opts.Deadline) {
		e.abort("deadline exceeded")
	}
	if memCritical.Load() {
		e.abort("memory budget exceeded (process heap far above GOSMT_MEM_GB)")
	}
	as = e.withDefs(as)
	if e.solver.dead {
		e.solver.Close()
		s, err := NewSolver("z3-new", e.tt, e.opts.TimeoutMs)
		if err != nil {
			e.abort("cannot restart solver")
		}
		s.Queries, s.TimeSpent = e.solver.Queries, e.solver.TimeSpent
		e.solver = s
	}
	// primary: persistent z3 5.1.0 with a short timeout (cheap queries)
	quick := 3000
	if quick > e.opts.TimeoutMs {
		quick = e.opts.TimeoutMs
	}
	e.solver.SetTimeout(quick)
	r, vals, msg := e.solver.Check(as, want)
	name := "z3-5.1.0"
	if r == Unknown {
		// hard query: fresh non-incremental processes (z3's bit-blasting tactic), then other solvers
		t0 := time.Now()
		for _, k := range []string{"z3-new", "z3", "cvc5"} {
			to := e.opts.TimeoutMs
			if k != "z3-new" && to > 30000 {
				to = 30000
			}
			r2, v2, m2 := OneShot(k, e.tt, as, want, to)
			e.solver.Queries++
			if r2 != Unknown {
				e.solver.TimeSpent += time.Since(t0)
				return r2, v2, m2, map[string]string{"z3-new": "z3-5.1.0(one-shot)", "z3": "z3-4.8.12(one-shot)", "cvc5": "cvc5-1.0(one-shot)"}[k]
			}
			msg += "; " + k + " one-shot: " + m2
		}
		e.solver.TimeSpent += time.Since(t0)
	}
	return r, vals, msg, name
}

func (e *Engine) feasible(st *State, c *Term) bool {
	t0 := time.Now()
	r, _, _, _ := e.checkSat(st.pc, c, nil)
	if os.Getenv("GOSMT_PROGRESS") != "" && time.Since(t0) > 1*time.Second {
		cs := "nil"
		if c != nil {
			cs = c.String()
		}
		fmt.Fprintf(os.Stderr, "[%s] slow feasibility check -> %v (%dms) at %s cond=%s\n", e.harness, r, time.Since(t0).Milliseconds(), e.pos(e.curIns), firstN(cs, 300))
		for i := len(st.pc) - 1; i >= 0 && i >= len(st.pc)-3; i-- {
			fmt.Fprintf(os.Stderr, "      pc[%d]=%s\n", i, firstN(st.pc[i].String(), 1200))
		}
	}
	return r != Unsat // unknown = keep
}

// modelInputs asks the solver for the values of all inputs (and UF applications).
func (e *Engine) wantTerms() []*Term {
	var want []*Term
	for _, in := range e.Inputs {
		if in.Term != nil {
			want = append(want, in.Term)
		}
		want = append(want, in.Elts...)
	}
	for _, u := range e.tt.UFApps {
		want = append(want, u)
		want = append(want, u.Args...)
	}
	return want
}

func (e *Engine) decodeModel(vals []uint64) (map[string]interface{}, *Model) {
	out := map[string]interface{}{}
	m := &Model{Vars: map[string]uint64{}, UF: map[string]uint64{}}
	k := 0
	for _, in := range e.Inputs {
		if in.Term != nil {
			v := vals[k]
			k++
			m.Vars[in.Term.Name] = v
			switch in.Kind {
			case "bool":
				out[in.Name] = v != 0
			case "i64", "int":
				out[in.Name] = int64(v)
			default:
				out[in.Name] = v
			}
		}
		if in.Kind == "bytes" {
			bs := make([]int, len(in.Elts))
			for i := range in.Elts {
				bs[i] = int(vals[k])
				m.Vars[in.Elts[i].Name] = vals[k]
				k++
			}
			out[in.Name] = bs
		}
	}
	ufs := map[string]map[string]uint64{}
	for _, u := range e.tt.UFApps {
		v := vals[k]
		k++
		args := make([]uint64, len(u.Args))
		for i := range u.Args {
			args[i] = vals[k]
			k++
		}
		key := ufKey(u.Name, args)
		m.UF[key] = v
		if ufs[u.Name] == nil {
			ufs[u.Name] = map[string]uint64{}
		}
		ks := make([]string, len(args))
		for i, a := range args {
			ks[i] = fmt.Sprint(a)
		}
		ufs[u.Name][strings.Join(ks, ",")] = v
	}
	if len(ufs) > 0 {
		out["@uf"] = ufs
	}
	return out, m
}

// obligation: pc ∧ ¬cond must be unsat.
func (e *Engine) prove(st *State, kind, label string, cond *Term, ins ssa.Instruction, knownID string, known *Term) {
	ob := &Obligation{Kind: kind, Label: label, Pos: e.pos(ins)}
	e.Obligations = append(e.Obligations, ob)
	t0 := time.Now()
	neg := e.tt.BNot(cond)
	listed := knownID != "" && e.opts.Known[knownID]
	q := neg
	if listed {
		q = e.tt.BAnd(neg, e.tt.BNot(known))
	}
	r, vals, msg, sname := e.checkSat(st.pc, q, e.wantTerms())
	ob.Solver = sname
	ob.TimeMs = time.Since(t0).Milliseconds()
	if os.Getenv("GOSMT_PROGRESS") != "" {
		fmt.Fprintf(os.Stderr, "[%s] %s %s -> %v (%s, %dms) %s\n", e.harness, kind, label, r, sname, ob.TimeMs, msg)
	}
	switch r {
	case Unsat:
		ob.Verdict = "holds"
	case Sat:
		if id := e.knownSite(kind, ob.Pos); id != "" {
			ob.Verdict = "known-finding"
			ob.KnownID = id
			inputs, _ := e.decodeModel(vals)
			e.KnownSeen[id] = fmt.Sprintf("%s (%s) at %s, e.g. %v", label, kind, ob.Pos, compactInputs(inputs))
			e.noteKnown(id, kind, label, ob.Pos, inputs)
			if os.Getenv("GOSMT_DEBUG") != "" {
				fmt.Printf("DEBUG known-site %s at %s: cond=%s\n", label, ob.Pos, firstN(cond.String(), 3000))
			}
			break
		}
		ob.Verdict = "violated"
		if os.Getenv("GOSMT_DEBUG") != "" {
			fmt.Printf("DEBUG violated %s at %s\n", label, ob.Pos)
			for _, c := range st.pc {
				fmt.Printf("   pc: %s\n", c.String())
			}
			fmt.Printf("   neg: %s\n", q.String())
		}
		inputs, _ := e.decodeModel(vals)
		ob.Model = inputs
		e.Violations = append(e.Violations, &Violation{Ob: ob, Inputs: inputs})
	default:
		ob.Verdict = "inconclusive"
		ob.Detail = msg
	}
	if listed {
		ob.KnownID = knownID
		r2, vals2, _, _ := e.checkSat(st.pc, e.tt.BAnd(neg, known), e.wantTerms())
		if r2 == Sat {
			inputs, _ := e.decodeModel(vals2)
			e.KnownSeen[knownID] = fmt.Sprintf("%s at %s, e.g. %v", label, ob.Pos, compactInputs(inputs))
			e.noteKnown(knownID, kind, label, ob.Pos, inputs)
		} else if _, ok := e.KnownSeen[knownID]; !ok && r2 == Unsat {
			// remember that the finding was looked for
			if _, seen := e.KnownSeen["gone:"+knownID]; !seen {
				e.KnownSeen["gone:"+knownID] = label
			}
		}
	}
	if e.opts.SecondCheck && r == Unsat && sname != "const" {
		e.crossCheck(st.pc, q, ob)
	}
}

func compactInputs(in map[string]interface{}) string {
	keys := make([]string, 0, len(in))
	for k := range in {
		if k != "@uf" {
			keys = append(keys, k)
		}
	}
	sort.Strings(keys)
	var sb strings.Builder
	for i, k := range keys {
		if i > 0 {
			sb.WriteString(" ")
		}
		s := fmt.Sprint(in[k])
		if len(s) > 60 {
			s = s[:60] + "…"
		}
		sb.WriteString(k + "=" + s)
		if sb.Len() > 400 {
			sb.WriteString(" …")
			break
		}
	}
	return sb.String()
}

func (e *Engine) crossCheck(pc []*Term, q *Term, ob *Obligation) {
	if e.solver2 == nil || e.solver2.dead {
		if e.solver2 != nil {
			e.solver2.Close()
		}
		s2, err := NewSolver("z3", e.tt, 10000)
		if err != nil {
			return
		}
		e.solver2 = s2
	}
	as := append(append([]*Term(nil), pc...), q)
	r, _, _ := e.solver2.Check(as, nil)
	switch r {
	case Unsat:
		ob.Solver += "+z3-4.8.12"
	case Sat:
		ob.Verdict = "inconclusive"
		ob.Detail = "solver disagreement: z3-5.1.0 unsat, z3-4.8.12 sat"
	}
}

// KnownCex is a solver model attributed to a recorded finding; it is replayed natively (with no
// finding treated as known) before the KNOWN-FINDING line is printed.
type KnownCex struct {
	ID, Kind, Label, Pos string
	Inputs               map[string]interface{}
}

func (e *Engine) noteKnown(id, kind, label, pos string, inputs map[string]interface{}) {
	n := 0
	for _, k := range e.KnownCex {
		if k.ID == id {
			n++
		}
	}
	if n < 2 {
		e.KnownCex = append(e.KnownCex, &KnownCex{ID: id, Kind: kind, Label: label, Pos: pos, Inputs: inputs})
	}
}

// pathEnd: a panic of the code under test outside a NoPanic region ends the path silently. If the harness
// ends up without any reachable witness, these are examined: a harness that the code under test can only
// leave by panicking is reported (after native replay) as a violation.
type pathEnd struct {
	pc        []*Term
	extra     *Term
	kind, pos string
}

func (e *Engine) notePathEnd(pc []*Term, extra *Term, kind, pos string) {
	if len(e.pathEnds) < 6 {
		e.pathEnds = append(e.pathEnds, pathEnd{pc: pc[:len(pc):len(pc)], extra: extra, kind: kind, pos: pos})
	}
}

// vacuityViolations turns recorded path-end panics into violations when no witness is reachable.
func (e *Engine) vacuityViolations() {
	for _, ob := range e.Obligations {
		if ob.Kind == "cover" {
			return
		}
	}
	n := 0
	for _, pe := range e.pathEnds {
		if n >= 2 {
			break
		}
		r, vals, _, sname := e.checkSat(pe.pc, pe.extra, e.wantTerms())
		if r != Sat {
			continue
		}
		inputs, _ := e.decodeModel(vals)
		ob := &Obligation{Kind: "pathpanic", Label: pe.kind, Pos: pe.pos, Verdict: "violated", Solver: sname, Model: inputs,
			Detail: "no witness of the harness is reachable: the code under test leaves it only by panicking"}
		e.Obligations = append(e.Obligations, ob)
		e.Violations = append(e.Violations, &Violation{Ob: ob, Inputs: inputs})
		n++
	}
}

// knownWhere: does a KnownPanic declaration "site" or "site | kind" cover a panic of this kind at pos?
func knownWhere(where, pos, kind string) bool {
	if i := strings.Index(where, " | "); i >= 0 {
		return strings.Contains(pos, where[:i]) && strings.Contains(kind, where[i+3:])
	}
	return strings.Contains(pos, where)
}

// logKnownHit appends (id, where, kind) to the file named by GOSMT_KNOWNLOG (maintenance aid: which panic
// kinds a KnownPanic declaration actually absorbs).
func logKnownHit(id, where, kind string) {
	if fn := os.Getenv("GOSMT_KNOWNLOG"); fn != "" {
		if f, err := os.OpenFile(fn, os.O_APPEND|os.O_CREATE|os.O_WRONLY, 0o644); err == nil {
			fmt.Fprintf(f, "%s\t%s\t%s\n", id, where, kind)
			f.Close()
		}
	}
}

// knownSite: is a violated obligation of this kind at this position attributed to an open finding?
func (e *Engine) knownSite(kind, pos string) string {
	for _, kf := range e.opts.KnownSites {
		okKind := len(kf.Kinds) == 0
		for _, k := range kf.Kinds {
			if k == kind {
				okKind = true
			}
		}
		if !okKind {
			continue
		}
		for _, s := range kf.Sites {
			if strings.Contains(pos, s) {
				return kf.ID
			}
		}
	}
	return ""
}

// terminate records the end of a path because of a panic.
func (e *Engine) panicPath(st *State, kind string, ins ssa.Instruction) {
	pos := e.pos(ins)
	if !st.noPanic && !inHarnessSupport(ins) {
		e.notePathEnd(st.pc, nil, kind, pos)
	}
	if st.noPanic && !inHarnessSupport(ins) {
		// known panic sites
		for _, kp := range st.knownPan {
			if knownWhere(kp.where, pos, kind) && e.opts.Known[kp.id] {
				r, vals, _, _ := e.checkSat(st.pc, nil, e.wantTerms())
				if r == Sat {
					logKnownHit(kp.id, kp.where, kind)
					inputs, _ := e.decodeModel(vals)
					e.KnownSeen[kp.id] = fmt.Sprintf("panic (%s) at %s, e.g. %v", kind, pos, compactInputs(inputs))
					e.noteKnown(kp.id, "panic", kind, pos, inputs)
				}
				return
			}
		}
		e.prove(st, "panic", kind, e.tt.False, ins, "", nil)
	}
}

func (e *Engine) cutPath(st *State, what string, ins ssa.Instruction) {
	key := what
	if ins != nil {
		key = what + " @ " + e.pos(ins)
	}
	if _, seen := e.Cuts[key]; !seen {
		// is the path feasible at all?
		if !e.feasible(st, nil) {
			return
		}
	}
	e.Cuts[key]++
}

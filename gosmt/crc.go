package gosmt

import "hash/crc32"

// Exact symbolic CRC (reflected, table driven: state = tab[byte(state)^b] ^ (state>>8)).
// The update is GF(2)-linear in (state, data), so symbolic bytes cost a handful of
// xor/ite nodes each and runs of concrete bytes are folded into one 32x32 matrix
// application plus a constant, both computed with the real table.

type crcTab struct {
	name string
	tab  *[256]uint32
	zero map[int]*[32]uint32 // L -> columns of the "advance over L zero bytes" matrix
}

var crcIEEE = &crcTab{name: "ieee", tab: (*[256]uint32)(crc32.IEEETable), zero: map[int]*[32]uint32{}}
var crcCastagnoli = &crcTab{name: "castagnoli", tab: (*[256]uint32)(crc32.MakeTable(crc32.Castagnoli)), zero: map[int]*[32]uint32{}}

func (c *crcTab) raw(state uint32, data []byte) uint32 {
	for _, b := range data {
		state = c.tab[byte(state)^b] ^ (state >> 8)
	}
	return state
}

func (c *crcTab) zeroCols(n int) *[32]uint32 {
	if m, ok := c.zero[n]; ok {
		return m
	}
	var cols [32]uint32
	for i := 0; i < 32; i++ {
		s := uint32(1) << uint(i)
		for k := 0; k < n; k++ {
			s = c.tab[byte(s)] ^ (s >> 8)
		}
		cols[i] = s
	}
	c.zero[n] = &cols
	return &cols
}

// linear applies a GF(2) matrix given by its columns to a 32-bit term.
func (e *Engine) gf2Apply(cols *[32]uint32, h *Term) *Term {
	res := e.tt.Const(32, 0)
	zero := e.tt.Const(32, 0)
	for i := 0; i < 32; i++ {
		if cols[i] == 0 {
			continue
		}
		bit := e.tt.Eq(e.tt.Extract(h, i, i), e.tt.Const(1, 1))
		res = e.tt.Xor(res, e.tt.Ite(bit, e.tt.Const(32, uint64(cols[i])), zero))
	}
	return res
}

// crcStep: one symbolic data byte.
func (e *Engine) crcStep(c *crcTab, h *Term, b *Term) *Term {
	idx := e.tt.Xor(e.tt.Extract(h, 7, 0), b)
	t := e.tt.Const(32, 0)
	zero := e.tt.Const(32, 0)
	for i := 0; i < 8; i++ {
		bit := e.tt.Eq(e.tt.Extract(idx, i, i), e.tt.Const(1, 1))
		t = e.tt.Xor(t, e.tt.Ite(bit, e.tt.Const(32, uint64(c.tab[1<<uint(i)])), zero))
	}
	return e.tt.Xor(t, e.tt.LShr(h, e.tt.Const(32, 8)))
}

// crcRun advances state h over a run of concrete bytes.
func (e *Engine) crcRun(c *crcTab, h *Term, run []byte) *Term {
	if len(run) == 0 {
		return h
	}
	if h.IsConst() {
		return e.tt.Const(32, uint64(c.raw(uint32(h.Val), run)))
	}
	k := c.raw(0, run)
	return e.tt.Xor(e.gf2Apply(c.zeroCols(len(run)), h), e.tt.Const(32, uint64(k)))
}

// crcExact computes the raw (un-inverted) state after feeding bs[0:n] for every prefix
// length that ln may take and selects by ln.
func (e *Engine) crcExact(c *crcTab, h0 *Term, bs []*Term, ln *Term) *Term {
	if ln.IsConst() {
		n := int(ln.Val)
		if n > len(bs) {
			n = len(bs)
		}
		h := h0
		var run []byte
		for i := 0; i < n; i++ {
			if bs[i].IsConst() {
				run = append(run, byte(bs[i].Val))
				continue
			}
			h = e.crcRun(c, h, run)
			run = run[:0]
			h = e.crcStep(c, h, bs[i])
		}
		return e.crcRun(c, h, run)
	}
	// symbolic length: states after every prefix
	h := h0
	res := h0
	for i := 0; i < len(bs); i++ {
		if bs[i].IsConst() {
			h = e.crcRun(c, h, []byte{byte(bs[i].Val)})
		} else {
			h = e.crcStep(c, h, bs[i])
		}
		res = e.tt.Ite(e.tt.ULe(e.c64(i+1), ln), h, res)
	}
	return res
}

package gosmt

import (
	"strings"

	"golang.org/x/tools/go/ssa"
)

// hostRedirects: calls of the code under test into the host operating system that are served by the
// in-memory model internal/vp/vphost (ordinary Go code, executed symbolically like everything else)
// once the harness has called vp.HostFS(). Key: callee (ssa.Function.String()), value: vphost function.
var hostRedirects = map[string]string{
	"os.Stat": "Stat", "os.Lstat": "Lstat", "os.MkdirAll": "OsMkdirAll", "os.Mkdir": "Mkdir", "os.MkdirTemp": "MkdirTemp",
	"os.ReadDir": "ReadDir", "os.Readlink": "Readlink", "os.ReadFile": "ReadFile", "os.WriteFile": "OsWriteFile",
	"os.Remove": "Remove", "os.RemoveAll": "RemoveAll", "os.Rename": "Rename", "os.Symlink": "OsSymlink",
	"os.Chmod": "OsChmod", "os.Lchown": "OsLchown", "os.Chown": "OsLchown", "os.Chtimes": "OsChtimes",
	"os.Open": "Open", "os.Create": "Create", "os.OpenFile": "OpenFile",
	"path/filepath.WalkDir": "WalkDir", "path/filepath.Walk": "Walk",
	"(*os.File).Read": "FileRead", "(*os.File).ReadAt": "FileReadAt", "(*os.File).Write": "FileWrite",
	"(*os.File).WriteAt": "FileWriteAt", "(*os.File).WriteString": "FileWriteString", "(*os.File).Seek": "FileSeek",
	"(*os.File).Close": "FileClose", "(*os.File).Stat": "FileStat", "(*os.File).Name": "FileName",
	"(*os.File).Sync": "FileSync", "(*os.File).Truncate": "FileTruncate", "(*os.File).ReadDir": "FileReadDir",
	"(*os.File).Readdir": "FileReaddir", "(*os.File).WriteTo": "FileWriteTo", "(*os.File).ReadFrom": "FileReadFrom",
	"golang.org/x/sys/unix.Stat": "UnixStat", "golang.org/x/sys/unix.Lstat": "UnixLstat",
	"github.com/djherbis/times.Stat": "TimesStat", "github.com/djherbis/times.Lstat": "TimesLstat",
	"github.com/pkg/xattr.List": "XattrList", "github.com/pkg/xattr.LList": "XattrList",
	"github.com/pkg/xattr.Get": "XattrGet", "github.com/pkg/xattr.LGet": "XattrGet",
}

// hostFn finds function name of the vphost overlay package in the loaded program.
func (e *Engine) hostFn(name string) *ssa.Function {
	if e.hostPkg == nil {
		for _, pk := range e.prog.AllPackages() {
			if strings.HasSuffix(pk.Pkg.Path(), "internal/vp/vphost") {
				e.hostPkg = pk
			}
		}
		if e.hostPkg == nil {
			return nil
		}
	}
	return e.hostPkg.Func(name)
}

// hostRedirect serves fn from the host model if the model is on and covers it.
func (e *Engine) hostRedirect(st *State, fn *ssa.Function, name string, args []Value, ins ssa.Instruction) ([]*State, bool) {
	if !e.hostFS {
		return nil, false
	}
	tgt, ok := hostRedirects[name]
	if !ok {
		return nil, false
	}
	vfn := e.hostFn(tgt)
	if vfn == nil {
		return nil, false
	}
	e.Models["host filesystem: os.*, filepath.WalkDir, (*os.File).*, unix.Stat, xattr.* served by the in-memory model internal/vp/vphost"] = true
	return e.callBody(st, vfn, args, nil, ins), true
}

package gosmt

import (
	"fmt"
	"go/types"
	"hash/crc32"
	"os"
	"strconv"
	"strings"

	"golang.org/x/tools/go/ssa"
)

type intrinsic func(e *Engine, st *State, fn *ssa.Function, args []Value, ins ssa.Instruction) []*State

type hooks struct {
	allocLimit *Term
}

var intrinsics = map[string]intrinsic{}
var vpIntrinsics map[string]intrinsic

func init() {
	vpIntrinsics = map[string]intrinsic{
		"U8":    func(e *Engine, st *State, fn *ssa.Function, a []Value, ins ssa.Instruction) []*State { return e.vpInput(st, a, "u8", 8) },
		"U16":   func(e *Engine, st *State, fn *ssa.Function, a []Value, ins ssa.Instruction) []*State { return e.vpInput(st, a, "u16", 16) },
		"U32":   func(e *Engine, st *State, fn *ssa.Function, a []Value, ins ssa.Instruction) []*State { return e.vpInput(st, a, "u32", 32) },
		"U64":   func(e *Engine, st *State, fn *ssa.Function, a []Value, ins ssa.Instruction) []*State { return e.vpInput(st, a, "u64", 64) },
		"I64":   func(e *Engine, st *State, fn *ssa.Function, a []Value, ins ssa.Instruction) []*State { return e.vpInput(st, a, "i64", 64) },
		"I32":   func(e *Engine, st *State, fn *ssa.Function, a []Value, ins ssa.Instruction) []*State { return e.vpInput(st, a, "i32", 32) },
		"Int":   func(e *Engine, st *State, fn *ssa.Function, a []Value, ins ssa.Instruction) []*State { return e.vpInput(st, a, "int", 64) },
		"Bool":  func(e *Engine, st *State, fn *ssa.Function, a []Value, ins ssa.Instruction) []*State { return e.vpInput(st, a, "bool", 0) },
		"Bytes": vpBytes,
		"FillFunc": vpFillFunc,
		"Fill":  vpFill,
		"Assume": func(e *Engine, st *State, fn *ssa.Function, a []Value, ins ssa.Instruction) []*State {
			c, ok := a[0].(*Term)
			if !ok {
				e.cutPath(st, "assume on non-term", ins)
				return nil
			}
			if c == e.tt.False {
				return nil
			}
			st.assume(c)
			return e.ret(st, Tuple{})
		},
		"Assert":       vpAssert,
		"AssertUnless": vpAssertUnless,
		"Cover": func(e *Engine, st *State, fn *ssa.Function, a []Value, ins ssa.Instruction) []*State {
			label := e.mustStr(st, a[0])
			if !e.Covers[label] {
				t0 := len(e.Obligations)
				_ = t0
				r, vals, _, sname := e.checkSat(st.pc, nil, e.wantTerms())
				ob := &Obligation{Kind: "cover", Label: label, Pos: e.pos(ins), Solver: sname}
				if r == Sat {
					ob.Verdict = "reached"
					ob.Model, _ = e.decodeModel(vals)
					e.Covers[label] = true
					e.Obligations = append(e.Obligations, ob)
				}
			}
			return e.ret(st, Tuple{})
		},
		"Observe": func(e *Engine, st *State, fn *ssa.Function, a []Value, ins ssa.Instruction) []*State {
			label := e.mustStr(st, a[0])
			if t, ok := a[1].(*Term); ok {
				e.Observes = append(e.Observes, Observe{Label: label, T: t, PC: st.pc[:len(st.pc):len(st.pc)]})
			}
			return e.ret(st, Tuple{})
		},
		"NoPanic": func(e *Engine, st *State, fn *ssa.Function, a []Value, ins ssa.Instruction) []*State {
			st.noPanic = true
			return e.ret(st, Tuple{})
		},
		"AllowPanic": func(e *Engine, st *State, fn *ssa.Function, a []Value, ins ssa.Instruction) []*State {
			st.noPanic = false
			return e.ret(st, Tuple{})
		},
		"KnownPanic": func(e *Engine, st *State, fn *ssa.Function, a []Value, ins ssa.Instruction) []*State {
			st.knownPan = append(st.knownPan[:len(st.knownPan):len(st.knownPan)], knownPanic{id: e.mustStr(st, a[0]), where: e.mustStr(st, a[1])})
			return e.ret(st, Tuple{})
		},
		"Unwind": func(e *Engine, st *State, fn *ssa.Function, a []Value, ins ssa.Instruction) []*State {
			if t, ok := a[0].(*Term); ok && t.IsConst() {
				e.opts.Unwind = int(t.Val)
			}
			return e.ret(st, Tuple{})
		},
		"SparseAlloc": func(e *Engine, st *State, fn *ssa.Function, a []Value, ins ssa.Instruction) []*State {
			if t, ok := a[0].(*Term); ok {
				e.sparseAlloc = t == e.tt.True
			}
			return e.ret(st, Tuple{})
		},
		"Stop": func(e *Engine, st *State, fn *ssa.Function, a []Value, ins ssa.Instruction) []*State {
			// ends the path (after the assertions made so far); a reachability witness is recorded
			label := e.mustStr(st, a[0])
			if !e.Covers[label] {
				r, vals, _, sname := e.checkSat(st.pc, nil, e.wantTerms())
				if r == Sat {
					ob := &Obligation{Kind: "cover", Label: label, Pos: e.pos(ins), Solver: sname, Verdict: "reached"}
					ob.Model, _ = e.decodeModel(vals)
					e.Covers[label] = true
					e.Obligations = append(e.Obligations, ob)
				}
			}
			return nil
		},
		"MaxLoop": func(e *Engine, st *State, fn *ssa.Function, a []Value, ins ssa.Instruction) []*State {
			if t, ok := a[0].(*Term); ok && t.IsConst() {
				e.maxLoop = int(t.Val)
			}
			return e.ret(st, Tuple{})
		},
		"AllocCap": func(e *Engine, st *State, fn *ssa.Function, a []Value, ins ssa.Instruction) []*State {
			if t, ok := a[0].(*Term); ok && t.IsConst() {
				e.opts.AllocCap = int(t.Val)
			}
			return e.ret(st, Tuple{})
		},
		"AllocLimit": func(e *Engine, st *State, fn *ssa.Function, a []Value, ins ssa.Instruction) []*State {
			if t, ok := a[0].(*Term); ok {
				if e.hook == nil {
					e.hook = &hooks{}
				}
				e.hook.allocLimit = t
			}
			return e.ret(st, Tuple{})
		},
		"Bound": func(e *Engine, st *State, fn *ssa.Function, a []Value, ins ssa.Instruction) []*State {
			name := e.mustStr(st, a[0])
			q, t := a[1].(*Term), a[2].(*Term)
			v := q
			if e.opts.Tier == "thorough" {
				v = t
			}
			if e.opts.Bounds == nil {
				e.opts.Bounds = map[string]int{}
			}
			e.opts.Bounds[name] = int(v.Val)
			return e.ret(st, v)
		},
		"Thorough": func(e *Engine, st *State, fn *ssa.Function, a []Value, ins ssa.Instruction) []*State {
			return e.ret(st, e.tt.Bool(e.opts.Tier == "thorough"))
		},
		"IteU8":  vpIte,
		"IteU32": vpIte,
		"IteU64": vpIte,
		"IteI64": vpIte,
		"IteInt": vpIte,
		"UFByte": func(e *Engine, st *State, fn *ssa.Function, a []Value, ins ssa.Instruction) []*State {
			name := e.mustStr(st, a[0])
			off := a[1].(*Term)
			return e.ret(st, e.tt.UF("mem_"+name, 8, off))
		},
		"IsConst": func(e *Engine, st *State, fn *ssa.Function, a []Value, ins ssa.Instruction) []*State {
			t, ok := a[0].(*Term)
			return e.ret(st, e.tt.Bool(ok && t.IsConst()))
		},
		"Symbolic": func(e *Engine, st *State, fn *ssa.Function, a []Value, ins ssa.Instruction) []*State {
			return e.ret(st, e.tt.True)
		},
		"FixedNow": func(e *Engine, st *State, fn *ssa.Function, a []Value, ins ssa.Instruction) []*State {
			if t, ok := a[0].(*Term); ok && t.IsConst() {
				v := int64(t.Val)
				e.fixedNow = &v
			}
			return e.ret(st, Tuple{})
		},
		"HostFS": func(e *Engine, st *State, fn *ssa.Function, a []Value, ins ssa.Instruction) []*State {
			e.hostFS = true
			return e.ret(st, Tuple{})
		},
		"NondetSources": func(e *Engine, st *State, fn *ssa.Function, a []Value, ins ssa.Instruction) []*State {
			return e.ret(st, e.c64(len(st.nondetLog)))
		},
		"ExactCRC": func(e *Engine, st *State, fn *ssa.Function, a []Value, ins ssa.Instruction) []*State {
			if t, ok := a[0].(*Term); ok {
				e.crcExactMode = t == e.tt.True
			}
			return e.ret(st, Tuple{})
		},
		"Known": func(e *Engine, st *State, fn *ssa.Function, a []Value, ins ssa.Instruction) []*State {
			id := e.mustStr(st, a[0])
			return e.ret(st, e.tt.Bool(e.opts.Known[id]))
		},
	}

	base := map[string]intrinsic{
		"fmt.Errorf":  fmtErrorf,
		"fmt.Sprintf": fmtSprintf,
		"fmt.Sprint":  fmtSprint,
		"fmt.Sprintln": fmtSprint,
		"fmt.Printf":  nop, "fmt.Println": nop, "fmt.Print": nop, "fmt.Fprintf": nopN, "fmt.Fprintln": nopN,
		"errors.Is":     errorsIs,
		"errors.As":     errorsAs,
		"errors.Unwrap": errorsUnwrap,
		"errors.Join":   errorsJoin,
		"hash/crc32.ChecksumIEEE": func(e *Engine, st *State, fn *ssa.Function, a []Value, ins ssa.Instruction) []*State {
			return e.ret(st, e.crcModel(st, "ieee", e.tt.Const(32, 0), a[0].(Slice), func(seed uint32, b []byte) uint32 { return crc32.Update(seed, crc32.IEEETable, b) }))
		},
		"time.Now": func(e *Engine, st *State, fn *ssa.Function, a []Value, ins ssa.Instruction) []*State {
			st.nondetLog = append(st.nondetLog[:len(st.nondetLog):len(st.nondetLog)], "time.Now @ "+e.pos(ins))
			e.Nondet = append(e.Nondet, "time.Now @ "+e.pos(ins))
			// wall = 0 (no monotonic), ext = arbitrary seconds since year 1, loc = nil (UTC)
			sec := e.tt.FreshVar("time.Now", 64)
			if e.fixedNow != nil {
				// vp.FixedNow: the clock reading is pinned (an under-approximation chosen by the harness)
				sec = e.tt.Const(64, uint64(*e.fixedNow+62135596800))
				e.Models["time.Now pinned by vp.FixedNow (clock value not explored)"] = true
			}
			tm := &Agg{Elems: []Value{e.tt.Const(64, 0), sec, Pointer{}}, Epoch: -1}
			return e.ret(st, tm)
		},
		"os.Getenv": func(e *Engine, st *State, fn *ssa.Function, a []Value, ins ssa.Instruction) []*State {
			name := e.mustStr(st, a[0])
			if v, ok := e.env[name]; ok {
				return e.ret(st, v)
			}
			return e.ret(st, Str{Conc: true, S: ""})
		},
		"os.LookupEnv": func(e *Engine, st *State, fn *ssa.Function, a []Value, ins ssa.Instruction) []*State {
			name := e.mustStr(st, a[0])
			if v, ok := e.env[name]; ok {
				return e.ret(st, Tuple{v, e.tt.True})
			}
			return e.ret(st, Tuple{Str{Conc: true, S: ""}, e.tt.False})
		},
		"(*sync.Mutex).Lock": nop, "(*sync.Mutex).Unlock": nop, "(*sync.RWMutex).Lock": nop, "(*sync.RWMutex).Unlock": nop,
		"(*sync.RWMutex).RLock": nop, "(*sync.RWMutex).RUnlock": nop,
		"(*sync.Once).Do": func(e *Engine, st *State, fn *ssa.Function, a []Value, ins ssa.Instruction) []*State {
			// run the function every time the once is first seen on this path: we model "done" in the Once object
			p := a[0].(Pointer)
			done := e.loadPtr(st, Pointer{Obj: p.Obj, Path: appendPath(appendPath(p.Path, PathElem{Idx: 0}), PathElem{Idx: 0})})
			_ = done
			outs := e.invoke(st, a[1], nil, nil, ins)
			for _, o := range outs {
				o.ret = Tuple{}
			}
			return outs
		},
		"runtime.KeepAlive": nop,
		"runtime.SetFinalizer": nop,
	}
	for k, v := range base {
		intrinsics[k] = v
	}
	for _, n := range []string{"Debugf", "Debug", "Infof", "Info", "Warnf", "Warn", "Warningf", "Warning", "Errorf", "Error", "Printf", "Println", "Tracef", "Trace", "Debugln", "Infoln"} {
		intrinsics["github.com/sirupsen/logrus."+n] = nop
		intrinsics["(*github.com/sirupsen/logrus.Logger)."+n] = nop
		intrinsics["(*github.com/sirupsen/logrus.Entry)."+n] = nop
		intrinsics["log."+n] = nop
	}
}

func nop(e *Engine, st *State, fn *ssa.Function, a []Value, ins ssa.Instruction) []*State {
	return e.ret(st, e.zeroResults(fn))
}

func nopN(e *Engine, st *State, fn *ssa.Function, a []Value, ins ssa.Instruction) []*State {
	return e.ret(st, e.zeroResults(fn))
}

func (e *Engine) zeroResults(fn *ssa.Function) Value {
	res := fn.Signature.Results()
	switch res.Len() {
	case 0:
		return Tuple{}
	case 1:
		return e.zero(res.At(0).Type())
	}
	return e.zero(res)
}

func (e *Engine) mustStr(st *State, v Value) string {
	s, ok := v.(Str)
	if !ok {
		e.abort("harness API needs a constant string, got " + describe(v))
	}
	c, ok := e.strToConcrete(st, s)
	if !ok {
		e.abort("harness API needs a constant string")
	}
	return c
}

func (e *Engine) newInput(name, kind string, w int) *Input {
	if in, ok := e.inputByName[name]; ok {
		return in
	}
	in := &Input{Name: name, Kind: kind, W: w}
	if kind != "bytes" {
		if e.opts.Concrete != nil {
			in.Term = e.tt.Const(w, e.opts.Concrete.Vars[name])
		} else {
			in.Term = e.tt.Var(name, w)
		}
	}
	e.Inputs = append(e.Inputs, in)
	e.inputByName[name] = in
	return in
}

func (e *Engine) vpInput(st *State, a []Value, kind string, w int) []*State {
	name := e.mustStr(st, a[0])
	in := e.newInput(name, kind, w)
	return e.ret(st, in.Term)
}

func (e *Engine) byteInput(name string, i int) *Term {
	en := fmt.Sprintf("%s[%d]", name, i)
	if e.opts.Concrete != nil {
		return e.tt.Const(8, e.opts.Concrete.Vars[en])
	}
	return e.tt.Var(en, 8)
}

func vpBytes(e *Engine, st *State, fn *ssa.Function, a []Value, ins ssa.Instruction) []*State {
	name := e.mustStr(st, a[0])
	nT, ok := a[1].(*Term)
	if !ok || !nT.IsConst() {
		e.abort("vp.Bytes needs a constant length")
	}
	n := int(nT.Val)
	in := e.newInput(name, "bytes", 8)
	for len(in.Elts) < n {
		in.Elts = append(in.Elts, e.byteInput(name, len(in.Elts)))
	}
	in.N = len(in.Elts)
	o := e.newArray(st, types.Typ[types.Uint8], n, name)
	ag := e.ownBoxOf(st, o).V.(*Agg)
	for i := 0; i < n; i++ {
		ag.Elems[i] = in.Elts[i]
	}
	return e.ret(st, Slice{Obj: o, Off: e.c64(0), Len: e.c64(n), Cap: e.c64(n)})
}

// vp.Fill(p []byte, name string): fills p with fresh symbolic bytes name[0..].
func vpFill(e *Engine, st *State, fn *ssa.Function, a []Value, ins ssa.Instruction) []*State {
	p, ok := a[0].(Slice)
	name := e.mustStr(st, a[1])
	if !ok || p.Obj == nil {
		return e.ret(st, Tuple{})
	}
	n := e.sliceCapN(st, p)
	in := e.newInput(name, "bytes", 8)
	for len(in.Elts) < n {
		in.Elts = append(in.Elts, e.byteInput(name, len(in.Elts)))
	}
	in.N = len(in.Elts)
	for i := 0; i < n; i++ {
		it := e.c64(i)
		inr := e.tt.ULt(it, p.Len)
		if inr == e.tt.False {
			break
		}
		ptr := e.sliceElemPtr(p, it)
		b := e.ownBoxOf(st, ptr.Obj)
		var g *Term
		if inr != e.tt.True {
			g = inr
		}
		b.V = e.storeAt(b.V, ptr.Path, in.Elts[i], g, st.epoch)
	}
	return e.ret(st, Tuple{})
}

func vpIte(e *Engine, st *State, fn *ssa.Function, a []Value, ins ssa.Instruction) []*State {
	c, ok := a[0].(*Term)
	x, ok2 := a[1].(*Term)
	y, ok3 := a[2].(*Term)
	if !ok || !ok2 || !ok3 {
		return e.ret(st, Poison{"vp.Ite operands"})
	}
	return e.ret(st, e.tt.Ite(c, x, y))
}

func vpAssert(e *Engine, st *State, fn *ssa.Function, a []Value, ins ssa.Instruction) []*State {
	label := e.mustStr(st, a[1])
	c, ok := a[0].(*Term)
	if !ok {
		ob := &Obligation{Kind: "assert", Label: label, Pos: e.pos(ins), Verdict: "inconclusive", Detail: "condition not encodable: " + describe(a[0])}
		e.Obligations = append(e.Obligations, ob)
		return nil
	}
	e.prove(st, "assert", label, c, ins, "", nil)
	if c == e.tt.False {
		return nil
	}
	st.assume(c)
	return e.ret(st, Tuple{})
}

// AssertUnless(id, known, cond, label)
func vpAssertUnless(e *Engine, st *State, fn *ssa.Function, a []Value, ins ssa.Instruction) []*State {
	id := e.mustStr(st, a[0])
	label := e.mustStr(st, a[3])
	known, ok1 := a[1].(*Term)
	c, ok2 := a[2].(*Term)
	if !ok1 || !ok2 {
		ob := &Obligation{Kind: "assert", Label: label, Pos: e.pos(ins), Verdict: "inconclusive", Detail: "condition not encodable"}
		e.Obligations = append(e.Obligations, ob)
		return nil
	}
	e.prove(st, "assert", label, c, ins, id, known)
	if c == e.tt.False {
		return nil
	}
	st.assume(c)
	return e.ret(st, Tuple{})
}

// ---- fmt / errors ------------------------------------------------------------------------

// toNative converts a concrete Value into a Go value for formatting.
func (e *Engine) toNative(st *State, v Value, t types.Type) (interface{}, bool) {
	switch x := v.(type) {
	case *Term:
		if !x.IsConst() {
			return nil, false
		}
		if t == nil {
			return x.Val, true
		}
		w, signed, ok := intInfo(t)
		if !ok {
			return x.Val, true
		}
		if w == 0 {
			return x.Val != 0, true
		}
		if signed {
			sv := sext64(x.Val, w)
			switch w {
			case 8:
				return int8(sv), true
			case 16:
				return int16(sv), true
			case 32:
				return int32(sv), true
			}
			if b, ok := t.Underlying().(*types.Basic); ok && b.Kind() == types.Int {
				return int(sv), true
			}
			return sv, true
		}
		switch w {
		case 8:
			return uint8(x.Val), true
		case 16:
			return uint16(x.Val), true
		case 32:
			return uint32(x.Val), true
		}
		return x.Val, true
	case Float:
		return x.F, true
	case Str:
		s, ok := e.strToConcrete(st, x)
		return s, ok
	case Slice:
		if x.Obj == nil {
			return []byte(nil), true
		}
		if !x.Len.IsConst() {
			return nil, false
		}
		n := int(x.Len.Val)
		bs := make([]byte, n)
		for i := 0; i < n; i++ {
			t, ok := e.loadPtr(st, e.sliceElemPtr(x, e.c64(i))).(*Term)
			if !ok || !t.IsConst() {
				return nil, false
			}
			bs[i] = byte(t.Val)
		}
		return bs, true
	case Iface:
		if x.Typ == nil {
			return nil, true
		}
		if x.Typ == e.errType {
			return fmt.Errorf("%s", x.Val.(ErrVal).Msg), true
		}
		// error implemented by repo types: try Error() lazily? keep opaque
		if types.Implements(x.Typ, errorIface) {
			return fmt.Errorf("<%s>", x.Typ.String()), true
		}
		return e.toNative(st, x.Val, x.Typ)
	case Pointer:
		if x.Obj == nil {
			return nil, true
		}
		return fmt.Sprintf("&obj%d", x.Obj.ID), true
	case *Agg:
		return fmt.Sprintf("{agg %d}", len(x.Elems)), true
	}
	return fmt.Sprintf("<%T>", v), true
}

var errorIface = types.Universe.Lookup("error").Type().Underlying().(*types.Interface)

// variadic args arrive as a slice of interfaces
func (e *Engine) variadic(st *State, v Value) []Value {
	s, ok := v.(Slice)
	if !ok || s.Obj == nil || !s.Len.IsConst() {
		return nil
	}
	var out []Value
	for i := 0; i < int(s.Len.Val); i++ {
		out = append(out, e.loadPtr(st, e.sliceElemPtr(s, e.c64(i))))
	}
	return out
}

func (e *Engine) format(st *State, fmtS string, ops []Value) (string, Value) {
	var wrapped Value
	natives := make([]interface{}, len(ops))
	all := true
	for i, o := range ops {
		if ifc, ok := o.(Iface); ok && ifc.Typ != nil && types.Implements(ifc.Typ, errorIface) || (ok && ifc.Typ == e.errType) {
			wrapped = o
		}
		n, ok := e.toNative(st, o, nil)
		if !ok {
			all = false
			n = "<sym>"
		}
		natives[i] = n
	}
	if !strings.Contains(fmtS, "%w") {
		wrapped = nil
	}
	msg := fmtS
	if all {
		msg = fmt.Sprintf(strings.ReplaceAll(fmtS, "%w", "%v"), natives...)
	} else {
		msg = "sym:" + fmtS
	}
	return msg, wrapped
}

func fmtErrorf(e *Engine, st *State, fn *ssa.Function, a []Value, ins ssa.Instruction) []*State {
	f, ok := e.strToConcrete(st, a[0].(Str))
	if !ok {
		f = "<symbolic format>"
	}
	msg, wrapped := e.format(st, f, e.variadic(st, a[1]))
	return e.ret(st, e.mkErr(msg, wrapped))
}

func fmtSprintf(e *Engine, st *State, fn *ssa.Function, a []Value, ins ssa.Instruction) []*State {
	f, ok := e.strToConcrete(st, a[0].(Str))
	ops := e.variadic(st, a[1])
	if ok {
		natives := make([]interface{}, len(ops))
		all := true
		for i, o := range ops {
			n, ok := e.toNative(st, o, nil)
			if !ok {
				all = false
			}
			natives[i] = n
		}
		if all {
			return e.ret(st, Str{Conc: true, S: fmt.Sprintf(f, natives...)})
		}
		// common simple case: "%s" pieces with symbolic strings -> concatenate
		if v, ok := e.sprintfSymbolic(st, f, ops, ins); ok {
			return e.ret(st, v)
		}
	}
	e.Models["fmt.Sprintf with symbolic operands -> opaque"] = true
	return e.ret(st, Poison{"fmt.Sprintf with symbolic operands: " + f})
}

// sprintfSymbolic handles formats consisting only of literal text and %s/%v of strings.
func (e *Engine) sprintfSymbolic(st *State, f string, ops []Value, ins ssa.Instruction) (Value, bool) {
	var res Value = Str{Conc: true}
	k := 0
	i := 0
	lit := ""
	flush := func() {
		if lit != "" {
			res = e.strConcat(st, res.(Str), Str{Conc: true, S: lit}, ins)
			lit = ""
		}
	}
	for i < len(f) {
		if f[i] != '%' {
			lit += string(f[i])
			i++
			continue
		}
		if i+1 >= len(f) {
			return nil, false
		}
		switch f[i+1] {
		case '%':
			lit += "%"
		case 's', 'v':
			if k >= len(ops) {
				return nil, false
			}
			o := ops[k]
			k++
			if ifc, ok := o.(Iface); ok {
				o = ifc.Val
			}
			s, ok := o.(Str)
			if !ok {
				n, ok := e.toNative(st, o, nil)
				if !ok {
					return nil, false
				}
				s = Str{Conc: true, S: fmt.Sprint(n)}
			}
			flush()
			res = e.strConcat(st, res.(Str), s, ins)
		case 'd':
			if k >= len(ops) {
				return nil, false
			}
			o := ops[k]
			k++
			if ifc, ok := o.(Iface); ok {
				n, ok := e.toNative(st, ifc.Val, ifc.Typ)
				if !ok {
					return nil, false
				}
				lit += fmt.Sprintf("%d", n)
			} else {
				return nil, false
			}
		default:
			return nil, false
		}
		i += 2
	}
	flush()
	return res, true
}

func fmtSprint(e *Engine, st *State, fn *ssa.Function, a []Value, ins ssa.Instruction) []*State {
	ops := e.variadic(st, a[0])
	natives := make([]interface{}, len(ops))
	for i, o := range ops {
		n, ok := e.toNative(st, o, nil)
		if !ok {
			return e.ret(st, Poison{"fmt.Sprint symbolic"})
		}
		natives[i] = n
	}
	if strings.HasSuffix(fn.Name(), "ln") {
		return e.ret(st, Str{Conc: true, S: fmt.Sprintln(natives...)})
	}
	return e.ret(st, Str{Conc: true, S: fmt.Sprint(natives...)})
}

// unwrapChain returns the chain of errors starting at v.
func (e *Engine) errChain(st *State, v Value, ins ssa.Instruction) []Iface {
	var out []Iface
	cur, ok := v.(Iface)
	for ok && cur.Typ != nil && len(out) < 16 {
		out = append(out, cur)
		if cur.Typ == e.errType {
			w := cur.Val.(ErrVal).Wrapped
			if w == nil {
				break
			}
			cur, ok = w.(Iface)
			continue
		}
		// real type with Unwrap() error?
		sel := e.prog.MethodSets.MethodSet(cur.Typ).Lookup(nil, "Unwrap")
		if sel == nil {
			break
		}
		m := e.prog.MethodValue(sel)
		if m == nil {
			break
		}
		if m.Signature.Results().Len() != 1 {
			break
		}
		outs := e.callFunc(st, m, []Value{cur.Val}, nil, ins)
		if len(outs) != 1 {
			break
		}
		cur, ok = outs[0].ret.(Iface)
	}
	return out
}

func errorsIs(e *Engine, st *State, fn *ssa.Function, a []Value, ins ssa.Instruction) []*State {
	target, ok := a[1].(Iface)
	if !ok {
		return e.ret(st, Poison{"errors.Is target"})
	}
	res := e.tt.False
	for _, c := range e.errChain(st, a[0], ins) {
		eq, ok := e.valuesEqual(st, c, target)
		if ok {
			res = e.tt.BOr(res, eq)
		}
	}
	if target.Typ == nil {
		if x, ok := a[0].(Iface); ok && x.Typ == nil {
			res = e.tt.True
		}
	}
	return e.ret(st, res)
}

func errorsAs(e *Engine, st *State, fn *ssa.Function, a []Value, ins ssa.Instruction) []*State {
	tgt, ok := a[1].(Iface)
	if !ok || tgt.Typ == nil {
		return e.ret(st, e.tt.False)
	}
	pt, ok := tgt.Typ.Underlying().(*types.Pointer)
	if !ok {
		return e.ret(st, e.tt.False)
	}
	want := pt.Elem()
	for _, c := range e.errChain(st, a[0], ins) {
		match := false
		if types.IsInterface(want) {
			match = c.Typ != e.errType && types.Implements(c.Typ, want.Underlying().(*types.Interface))
		} else {
			match = c.Typ != e.errType && types.Identical(c.Typ, want)
		}
		if match {
			p := tgt.Val.(Pointer)
			if types.IsInterface(want) {
				e.storePtr(st, p, c)
			} else {
				e.storePtr(st, p, c.Val)
			}
			return e.ret(st, e.tt.True)
		}
	}
	return e.ret(st, e.tt.False)
}

func errorsUnwrap(e *Engine, st *State, fn *ssa.Function, a []Value, ins ssa.Instruction) []*State {
	ch := e.errChain(st, a[0], ins)
	if len(ch) >= 2 {
		return e.ret(st, ch[1])
	}
	return e.ret(st, Iface{})
}

func errorsJoin(e *Engine, st *State, fn *ssa.Function, a []Value, ins ssa.Instruction) []*State {
	ops := e.variadic(st, a[0])
	var first Value
	n := 0
	for _, o := range ops {
		if i, ok := o.(Iface); ok && i.Typ != nil {
			if first == nil {
				first = o
			}
			n++
		}
	}
	if n == 0 {
		return e.ret(st, Iface{})
	}
	return e.ret(st, e.mkErr("joined errors", first))
}

// ---- CRC model -----------------------------------------------------------------------------

// crcModel: concrete bytes -> real CRC; symbolic bytes -> congruent uninterpreted fold.
func (e *Engine) crcModel(st *State, name string, seed *Term, data Slice, real func(seed uint32, b []byte) uint32) Value {
	return e.crcModelX(st, name, seed, data, real, false)
}

// crcModelX: raw = the function is the bare table update without pre/post inversion.
func (e *Engine) crcModelX(st *State, name string, seed *Term, data Slice, real func(seed uint32, b []byte) uint32, raw bool) Value {
	if data.Obj == nil {
		if seed.IsConst() {
			return e.tt.Const(32, uint64(real(uint32(seed.Val), nil)))
		}
		return e.tt.UF("crc_"+name+"_fin", 32, seed, e.c64(0))
	}
	n := e.sliceCapN(st, data)
	bs := make([]*Term, n)
	allConst := seed.IsConst() && data.Len.IsConst()
	for i := 0; i < n; i++ {
		t, ok := e.loadPtr(st, e.sliceElemPtr(data, e.c64(i))).(*Term)
		if !ok {
			return Poison{"crc over non-bytes"}
		}
		if !t.IsConst() {
			allConst = false
		}
		bs[i] = t
	}
	if allConst {
		raw := make([]byte, n)
		for i := range raw {
			raw[i] = byte(bs[i].Val)
		}
		return e.tt.Const(32, uint64(real(uint32(seed.Val), raw)))
	}
	// exact GF(2)-linear evaluation unless there are very many symbolic bytes
	nsym := 0
	for _, b := range bs {
		if !b.IsConst() {
			nsym++
		}
	}
	var ctab *crcTab
	switch name {
	case "ieee":
		ctab = crcIEEE
	case "castagnoli", "castagnoli_raw":
		ctab = crcCastagnoli
	}
	if ctab != nil && e.crcExactMode && nsym <= e.crcExactLimit() && (data.Len.IsConst() || n <= 256) {
		e.Models["crc32("+name+") evaluated exactly (GF(2)-linear update with the real table)"] = true
		if raw {
			return e.crcExact(ctab, seed, bs, data.Len)
		}
		h := e.crcExact(ctab, e.tt.Not(seed), bs, data.Len)
		return e.tt.Not(h)
	}
	e.Models["crc32("+name+") as congruent uninterpreted function over symbolic bytes"] = true
	h := seed
	for i := 0; i < n; i += 8 {
		var chunk *Term
		for j := 0; j < 8; j++ {
			var b *Term
			if i+j < n {
				b = bs[i+j]
				if !data.Len.IsConst() {
					b = e.tt.Ite(e.tt.ULt(e.c64(i+j), data.Len), b, e.tt.Const(8, 0))
				}
			} else {
				b = e.tt.Const(8, 0)
			}
			if chunk == nil {
				chunk = b
			} else {
				chunk = e.tt.Concat(chunk, b)
			}
		}
		h = e.tt.UF("crc_"+name+"_step", 32, h, chunk)
	}
	return e.tt.UF("crc_"+name+"_fin", 32, h, data.Len)
}

var _ = strconv.Itoa
var _ = os.Getenv

func (e *Engine) crcExactLimit() int { return 1200 }

type reflVal struct{ v Iface }

func init() {
	intrinsics["reflect.ValueOf"] = func(e *Engine, st *State, fn *ssa.Function, a []Value, ins ssa.Instruction) []*State {
		ifc, _ := a[0].(Iface)
		e.Models["reflect.ValueOf/Len/Swapper on slices"] = true
		return e.ret(st, Opaque{Kind: "reflect.Value", V: &reflVal{ifc}})
	}
	intrinsics["(reflect.Value).Len"] = func(e *Engine, st *State, fn *ssa.Function, a []Value, ins ssa.Instruction) []*State {
		op, _ := a[0].(Opaque)
		rv, _ := op.V.(*reflVal)
		if rv == nil {
			return e.ret(st, Poison{"reflect.Value.Len"})
		}
		switch x := rv.v.Val.(type) {
		case Slice:
			if x.Obj == nil {
				return e.ret(st, e.c64(0))
			}
			return e.ret(st, x.Len)
		case Str:
			return e.ret(st, e.strLen(x))
		case *Agg:
			return e.ret(st, e.c64(len(x.Elems)))
		}
		return e.ret(st, Poison{"reflect.Value.Len of " + describe(rv.v.Val)})
	}
	intrinsics["internal/reflectlite.ValueOf"] = intrinsics["reflect.ValueOf"]
	intrinsics["(internal/reflectlite.Value).Len"] = intrinsics["(reflect.Value).Len"]
	defer func() { intrinsics["internal/reflectlite.Swapper"] = intrinsics["reflect.Swapper"] }()
	intrinsics["reflect.Swapper"] = func(e *Engine, st *State, fn *ssa.Function, a []Value, ins ssa.Instruction) []*State {
		ifc, _ := a[0].(Iface)
		s, ok := ifc.Val.(Slice)
		if !ok {
			return e.ret(st, Poison{"reflect.Swapper of " + describe(ifc.Val)})
		}
		return e.ret(st, &Closure{Builtin: "reflect.swapper", Bindings: []Value{s}})
	}
}

func init() {
	intrinsics["(*strings.Builder).copyCheck"] = nop
	intrinsics["internal/bytealg.MakeNoZero"] = func(e *Engine, st *State, fn *ssa.Function, a []Value, ins ssa.Instruction) []*State {
		n, ok := a[0].(*Term)
		if !ok {
			return e.ret(st, Poison{"MakeNoZero"})
		}
		v, ok := e.makeSliceVal(st, types.Typ[types.Uint8], n, n, ins)
		if !ok {
			return nil
		}
		return e.ret(st, v)
	}
	intrinsics["internal/abi.NoEscape"] = func(e *Engine, st *State, fn *ssa.Function, a []Value, ins ssa.Instruction) []*State {
		return e.ret(st, a[0])
	}
	intrinsics["internal/abi.Escape"] = intrinsics["internal/abi.NoEscape"]
}

// vp.FillFunc(p, fn): p[i] = fn(i) for every i < len(p), without a data-dependent loop
// (len(p) may be symbolic; the physical capacity is concrete).
func vpFillFunc(e *Engine, st *State, fn *ssa.Function, a []Value, ins ssa.Instruction) []*State {
	p, ok := a[0].(Slice)
	if !ok || p.Obj == nil {
		return e.ret(st, Tuple{})
	}
	n := e.sliceCapN(st, p)
	cur := st
	for k := 0; k < n; k++ {
		it := e.c64(k)
		inr := e.tt.ULt(it, p.Len)
		if inr == e.tt.False {
			break
		}
		outs := e.invoke(cur, a[1], []Value{it}, nil, ins)
		if len(outs) != 1 {
			e.cutPath(cur, "vp.FillFunc callback forked or ended the path", ins)
			return nil
		}
		cur = outs[0]
		v := cur.ret
		cur.status = stRunning
		ptr := e.sliceElemPtr(p, it)
		b := e.ownBoxOf(cur, ptr.Obj)
		var g *Term
		if inr != e.tt.True {
			g = inr
		}
		b.V = e.storeAt(b.V, ptr.Path, v, g, cur.epoch)
	}
	return e.ret(cur, Tuple{})
}

// strings.ToUpper / ToLower on symbolic ASCII strings (concrete strings are executed from SSA).
func init() {
	mk := func(upper bool) intrinsic {
		return func(e *Engine, st *State, fn *ssa.Function, a []Value, ins ssa.Instruction) []*State {
			s, ok := a[0].(Str)
			if !ok {
				return e.ret(st, Poison{"strings case conversion"})
			}
			if c, ok := e.strToConcrete(st, s); ok {
				if upper {
					return e.ret(st, Str{Conc: true, S: strings.ToUpper(c)})
				}
				return e.ret(st, Str{Conc: true, S: strings.ToLower(c)})
			}
			n := e.strCap(st, s)
			arr := &Agg{Elems: make([]Value, n), Epoch: -1}
			ln := e.strLen(s)
			for i := 0; i < n; i++ {
				b := e.strByteUnchecked(st, s, e.c64(i))
				if b.Hi >= 0x80 {
					// restrict to ASCII (recorded as a cut of the non-ASCII inputs)
					inr := e.tt.ULt(e.c64(i), ln)
					ascii := e.tt.ULt(b, e.tt.Const(8, 0x80))
					if e.feasible(st, e.tt.BAnd(inr, e.tt.BNot(ascii))) {
						e.Cuts["non-ASCII bytes in symbolic string passed to strings.ToUpper/ToLower not explored"]++
					}
					st.assume(e.tt.Implies(inr, ascii))
				}
				var lo, hi uint64 = 'a', 'z'
				if !upper {
					lo, hi = 'A', 'Z'
				}
				in := e.tt.BAnd(e.tt.ULe(e.tt.Const(8, lo), b), e.tt.ULe(b, e.tt.Const(8, hi)))
				var conv *Term
				if upper {
					conv = e.tt.Sub(b, e.tt.Const(8, 32))
				} else {
					conv = e.tt.Add(b, e.tt.Const(8, 32))
				}
				arr.Elems[i] = e.tt.Ite(in, conv, b)
			}
			e.Models["strings.ToUpper/ToLower on symbolic strings: ASCII model"] = true
			o := e.newObj(st, nil, "strcase", arr)
			return e.ret(st, e.normStr(st, Str{Obj: o, Off: e.c64(0), Len: ln}))
		}
	}
	intrinsics["strings.ToUpper"] = mk(true)
	intrinsics["strings.ToLower"] = mk(false)
}

// unicode/utf16.Decode on symbolic code units: the result is over-approximated by arbitrary
// runes (length <= number of units). Concrete inputs are executed from the real SSA.
func init() {
	intrinsics["unicode/utf16.Decode"] = func(e *Engine, st *State, fn *ssa.Function, a []Value, ins ssa.Instruction) []*State {
		s, ok := a[0].(Slice)
		if !ok || s.Obj == nil {
			return e.callBody(st, fn, a, nil, ins)
		}
		n := e.sliceCapN(st, s)
		conc := s.Len.IsConst()
		for i := 0; i < n && conc; i++ {
			t, ok := e.loadPtr(st, e.sliceElemPtr(s, e.c64(i))).(*Term)
			if !ok || !t.IsConst() {
				conc = false
			}
		}
		if conc {
			return e.callBody(st, fn, a, nil, ins)
		}
		// exact when no unit can be a surrogate: one rune per unit
		exact := true
		units := make([]*Term, n)
		for i := 0; i < n; i++ {
			t, ok := e.loadPtr(st, e.sliceElemPtr(s, e.c64(i))).(*Term)
			if !ok || t.Hi >= 0xD800 {
				exact = false
				break
			}
			units[i] = t
		}
		if exact {
			o := e.newArray(st, types.Typ[types.Int32], n, "utf16dec")
			ag := e.ownBoxOf(st, o).V.(*Agg)
			for i := 0; i < n; i++ {
				ag.Elems[i] = e.tt.ZExt(units[i], 32)
			}
			return e.ret(st, Slice{Obj: o, Off: e.c64(0), Len: s.Len, Cap: e.c64(n)})
		}
		e.Models["unicode/utf16.Decode on symbolic units: result over-approximated by arbitrary runes"] = true
		o := e.newArray(st, types.Typ[types.Int32], n, "utf16dec")
		ag := e.ownBoxOf(st, o).V.(*Agg)
		for i := 0; i < n; i++ {
			ag.Elems[i] = e.tt.FreshVar("rune", 32)
		}
		ln := e.tt.FreshVar("runes", 64)
		st.assume(e.tt.ULe(ln, s.Len))
		return e.ret(st, Slice{Obj: o, Off: e.c64(0), Len: ln, Cap: e.c64(n)})
	}
}

// sync.Pool: Get = New() (or nil), Put = no-op.
func init() {
	intrinsics["(*sync.Pool).Get"] = func(e *Engine, st *State, fn *ssa.Function, a []Value, ins ssa.Instruction) []*State {
		p, ok := a[0].(Pointer)
		if !ok || p.Obj == nil {
			return e.ret(st, Iface{})
		}
		stT, _ := fn.Signature.Recv().Type().(*types.Pointer).Elem().Underlying().(*types.Struct)
		idx := -1
		for i := 0; stT != nil && i < stT.NumFields(); i++ {
			if stT.Field(i).Name() == "New" {
				idx = i
			}
		}
		if idx < 0 {
			return e.ret(st, Iface{})
		}
		nf := e.loadPtr(st, Pointer{Obj: p.Obj, Path: appendPath(p.Path, PathElem{Idx: idx})})
		if c, ok := nf.(*Closure); !ok || c == nil {
			return e.ret(st, Iface{})
		}
		return e.invoke(st, nf, nil, nil, ins)
	}
	intrinsics["(*sync.Pool).Put"] = nop
	intrinsics["(*sync.WaitGroup).Add"] = nop
	intrinsics["(*sync.WaitGroup).Done"] = nop
	intrinsics["(*sync.WaitGroup).Wait"] = nop
}

// internal/bytealg: assembly routines modelled directly.
func init() {
	type seq struct {
		n   int
		ln  *Term
		at  func(i int) *Term
	}
	getSeq := func(e *Engine, st *State, v Value) (seq, bool) {
		switch x := v.(type) {
		case Slice:
			if x.Obj == nil {
				return seq{0, e.c64(0), nil}, true
			}
			n := e.sliceCapN(st, x)
			return seq{n, x.Len, func(i int) *Term {
				t, ok := e.loadPtr(st, e.sliceElemPtr(x, e.c64(i))).(*Term)
				if !ok {
					return e.tt.Const(8, 0)
				}
				return t
			}}, true
		case Str:
			n := e.strCap(st, x)
			return seq{n, e.strLen(x), func(i int) *Term { return e.strByteUnchecked(st, x, e.c64(i)) }}, true
		}
		return seq{}, false
	}
	indexByte := func(e *Engine, st *State, fn *ssa.Function, a []Value, ins ssa.Instruction) []*State {
		s, ok := getSeq(e, st, a[0])
		c, ok2 := a[1].(*Term)
		if !ok || !ok2 {
			return e.ret(st, Poison{"bytealg.IndexByte operands"})
		}
		res := e.tt.Const(64, ^uint64(0))
		for i := s.n - 1; i >= 0; i-- {
			hit := e.tt.BAnd(e.tt.ULt(e.c64(i), s.ln), e.tt.Eq(s.at(i), c))
			res = e.tt.Ite(hit, e.c64(i), res)
		}
		return e.ret(st, res)
	}
	intrinsics["internal/bytealg.IndexByteString"] = indexByte
	intrinsics["internal/bytealg.IndexByte"] = indexByte
	count := func(e *Engine, st *State, fn *ssa.Function, a []Value, ins ssa.Instruction) []*State {
		s, ok := getSeq(e, st, a[0])
		c, ok2 := a[1].(*Term)
		if !ok || !ok2 {
			return e.ret(st, Poison{"bytealg.Count operands"})
		}
		res := e.c64(0)
		for i := 0; i < s.n; i++ {
			hit := e.tt.BAnd(e.tt.ULt(e.c64(i), s.ln), e.tt.Eq(s.at(i), c))
			res = e.tt.Add(res, e.tt.Ite(hit, e.c64(1), e.c64(0)))
		}
		return e.ret(st, res)
	}
	intrinsics["internal/bytealg.Count"] = count
	intrinsics["internal/bytealg.CountString"] = count
	toStr := func(e *Engine, st *State, v Value) (Str, bool) {
		switch x := v.(type) {
		case Str:
			return x, true
		case Slice:
			s, ok := e.bytesToStr(st, x).(Str)
			return s, ok
		}
		return Str{}, false
	}
	intrinsics["internal/bytealg.Equal"] = func(e *Engine, st *State, fn *ssa.Function, a []Value, ins ssa.Instruction) []*State {
		x, ok1 := toStr(e, st, a[0])
		y, ok2 := toStr(e, st, a[1])
		if !ok1 || !ok2 {
			return e.ret(st, Poison{"bytealg.Equal operands"})
		}
		return e.ret(st, e.strEq(st, x, y))
	}
	cmp := func(e *Engine, st *State, fn *ssa.Function, a []Value, ins ssa.Instruction) []*State {
		x, ok1 := toStr(e, st, a[0])
		y, ok2 := toStr(e, st, a[1])
		if !ok1 || !ok2 {
			return e.ret(st, Poison{"bytealg.Compare operands"})
		}
		lt, gt := e.strLess(st, x, y), e.strLess(st, y, x)
		return e.ret(st, e.tt.Ite(lt, e.tt.Const(64, ^uint64(0)), e.tt.Ite(gt, e.c64(1), e.c64(0))))
	}
	intrinsics["internal/bytealg.Compare"] = cmp
	intrinsics["internal/bytealg.CompareString"] = cmp
	index := func(e *Engine, st *State, fn *ssa.Function, a []Value, ins ssa.Instruction) []*State {
		x, ok1 := toStr(e, st, a[0])
		y, ok2 := toStr(e, st, a[1])
		if ok1 && ok2 {
			cx, c1 := e.strToConcrete(st, x)
			cy, c2 := e.strToConcrete(st, y)
			if c1 && c2 {
				return e.ret(st, e.tt.Const(64, uint64(int64(strings.Index(cx, cy)))))
			}
			// symbolic haystack, concrete needle: first position where all needle bytes match
			if c2 && len(cy) > 0 {
				n := e.strCap(st, x)
				ln := e.strLen(x)
				res := e.tt.Const(64, ^uint64(0))
				for i := n - len(cy); i >= 0; i-- {
					hit := e.tt.ULe(e.c64(i+len(cy)), ln)
					for k := 0; k < len(cy); k++ {
						hit = e.tt.BAnd(hit, e.tt.Eq(e.strByteUnchecked(st, x, e.c64(i+k)), e.tt.Const(8, uint64(cy[k]))))
					}
					res = e.tt.Ite(hit, e.c64(i), res)
				}
				return e.ret(st, res)
			}
		}
		return e.ret(st, Poison{"bytealg.Index with symbolic needle"})
	}
	intrinsics["internal/bytealg.Index"] = index
	intrinsics["internal/bytealg.IndexString"] = index
}

// randomness: arbitrary values, logged as nondeterminism sources.
func init() {
	intrinsics["github.com/google/uuid.NewRandom"] = func(e *Engine, st *State, fn *ssa.Function, a []Value, ins ssa.Instruction) []*State {
		st.nondetLog = append(st.nondetLog[:len(st.nondetLog):len(st.nondetLog)], "uuid.NewRandom @ "+e.pos(ins))
		e.Nondet = append(e.Nondet, "uuid.NewRandom @ "+e.pos(ins))
		ag := &Agg{Elems: make([]Value, 16), Epoch: -1}
		for i := range ag.Elems {
			ag.Elems[i] = e.tt.FreshVar("uuid.rand", 8)
		}
		return e.ret(st, Tuple{ag, Iface{}})
	}
	intrinsics["crypto/rand.Read"] = func(e *Engine, st *State, fn *ssa.Function, a []Value, ins ssa.Instruction) []*State {
		st.nondetLog = append(st.nondetLog[:len(st.nondetLog):len(st.nondetLog)], "crypto/rand.Read @ "+e.pos(ins))
		e.Nondet = append(e.Nondet, "crypto/rand.Read @ "+e.pos(ins))
		p, ok := a[0].(Slice)
		if ok && p.Obj != nil {
			n := e.sliceCapN(st, p)
			for i := 0; i < n; i++ {
				e.storePtr(st, e.sliceElemPtr(p, e.c64(i)), e.tt.FreshVar("rand", 8))
			}
			return e.ret(st, Tuple{p.Len, Iface{}})
		}
		return e.ret(st, Tuple{e.c64(0), Iface{}})
	}
}

// regexp: the "trim trailing spaces" idiom (` +$` replaced by "") on symbolic strings is modelled
// directly; everything else runs the real regexp engine from SSA.
func init() {
	intrinsics["(*regexp.Regexp).ReplaceAllString"] = func(e *Engine, st *State, fn *ssa.Function, a []Value, ins ssa.Instruction) []*State {
		src, ok1 := a[1].(Str)
		repl, ok2 := a[2].(Str)
		re, ok3 := a[0].(Pointer)
		if !ok1 || !ok2 || !ok3 || re.Obj == nil {
			return e.callBody(st, fn, a, nil, ins)
		}
		if _, conc := e.strToConcrete(st, src); conc {
			return e.callBody(st, fn, a, nil, ins)
		}
		// field 0 of regexp.Regexp is expr string
		exprV := e.loadPtr(st, Pointer{Obj: re.Obj, Path: appendPath(re.Path, PathElem{Idx: 0})})
		ex, ok := exprV.(Str)
		pat, okc := "", false
		if ok {
			pat, okc = e.strToConcrete(st, ex)
		}
		rp, okr := e.strToConcrete(st, repl)
		if !okc || !okr || rp != "" || (pat != " +$" && pat != " *$") {
			return e.callBody(st, fn, a, nil, ins)
		}
		e.Models["regexp ` +$` -> \"\" on symbolic strings: trailing-space trim model"] = true
		n := e.strCap(st, src)
		ln := e.strLen(src)
		// new length = 1 + index of the last non-space byte below ln (0 if none)
		nl := e.c64(0)
		for i := 0; i < n; i++ {
			b := e.strByteUnchecked(st, src, e.c64(i))
			keep := e.tt.BAnd(e.tt.ULt(e.c64(i), ln), e.tt.BNot(e.tt.Eq(b, e.tt.Const(8, ' '))))
			nl = e.tt.Ite(keep, e.c64(i+1), nl)
		}
		so := e.strObj(st, src)
		return e.ret(st, Str{Obj: so.Obj, Base: so.Base, Off: so.Off, Len: nl})
	}
}

func init() {
	intrinsics["os.Setenv"] = func(e *Engine, st *State, fn *ssa.Function, a []Value, ins ssa.Instruction) []*State {
		k := e.mustStr(st, a[0])
		if e.env == nil {
			e.env = map[string]Value{}
		}
		e.env[k] = a[1]
		return e.ret(st, Iface{})
	}
	intrinsics["os.Unsetenv"] = func(e *Engine, st *State, fn *ssa.Function, a []Value, ins ssa.Instruction) []*State {
		k := e.mustStr(st, a[0])
		delete(e.env, k)
		return e.ret(st, Iface{})
	}
}

// ext4's own table-driven checksums: CRC32c(base, b) is the bare reflected Castagnoli update
// (no inversion), CRC16 a plain table-driven CRC.
func init() {
	cast := crc32.MakeTable(crc32.Castagnoli)
	intrinsics["github.com/diskfs/go-diskfs/filesystem/ext4/crc.CRC32c"] = func(e *Engine, st *State, fn *ssa.Function, a []Value, ins ssa.Instruction) []*State {
		seed, ok1 := a[0].(*Term)
		data, ok2 := a[1].(Slice)
		if !ok1 || !ok2 {
			return e.callBody(st, fn, a, nil, ins)
		}
		return e.ret(st, e.crcModelX(st, "castagnoli_raw", seed, data, func(s uint32, b []byte) uint32 { return ^crc32.Update(^s, cast, b) }, true))
	}
	intrinsics["github.com/diskfs/go-diskfs/filesystem/ext4/crc.CRC16"] = func(e *Engine, st *State, fn *ssa.Function, a []Value, ins ssa.Instruction) []*State {
		seed, ok1 := a[0].(*Term)
		data, ok2 := a[1].(Slice)
		if !ok1 || !ok2 || data.Obj == nil {
			return e.callBody(st, fn, a, nil, ins)
		}
		n := e.sliceCapN(st, data)
		bs := make([]*Term, n)
		conc := seed.IsConst() && data.Len.IsConst()
		for i := 0; i < n; i++ {
			t, ok := e.loadPtr(st, e.sliceElemPtr(data, e.c64(i))).(*Term)
			if !ok {
				return e.callBody(st, fn, a, nil, ins)
			}
			bs[i] = t
			if !t.IsConst() {
				conc = false
			}
		}
		if conc {
			return e.callBody(st, fn, a, nil, ins)
		}
		e.Models["ext4 crc.CRC16 as congruent uninterpreted function over symbolic bytes"] = true
		h := seed
		for i := 0; i < n; i += 8 {
			var chunk *Term
			for j := 0; j < 8; j++ {
				b := e.tt.Const(8, 0)
				if i+j < n {
					b = bs[i+j]
					if !data.Len.IsConst() {
						b = e.tt.Ite(e.tt.ULt(e.c64(i+j), data.Len), b, e.tt.Const(8, 0))
					}
				}
				if chunk == nil {
					chunk = b
				} else {
					chunk = e.tt.Concat(chunk, b)
				}
			}
			h = e.tt.UF("crc16_step", 16, h, chunk)
		}
		return e.ret(st, e.tt.UF("crc16_fin", 16, h, data.Len))
	}
}

// Minimal model of the host directory operations a harness may need to get through
// iso9660/squashfs Create: os.MkdirAll/MkdirTemp register a directory, os.Stat of a registered
// path reports a directory; everything else about the host filesystem stays unsupported.
func init() {
	intrinsics["os.MkdirAll"] = func(e *Engine, st *State, fn *ssa.Function, a []Value, ins ssa.Instruction) []*State {
		if s, ok := a[0].(Str); ok {
			if p, ok := e.strToConcrete(st, s); ok {
				if e.hostDirs == nil {
					e.hostDirs = map[string]bool{}
				}
				e.hostDirs[p] = true
			}
		}
		return e.ret(st, Iface{})
	}
	intrinsics["os.Stat"] = func(e *Engine, st *State, fn *ssa.Function, a []Value, ins ssa.Instruction) []*State {
		s, ok := a[0].(Str)
		if !ok {
			return e.callBody(st, fn, a, nil, ins)
		}
		p, ok := e.strToConcrete(st, s)
		if !ok || !e.hostDirs[p] {
			return e.callBody(st, fn, a, nil, ins)
		}
		var osPkg *ssa.Package
		for _, pk := range e.prog.AllPackages() {
			if pk.Pkg.Path() == "os" {
				osPkg = pk
			}
		}
		if osPkg == nil || osPkg.Type("fileStat") == nil {
			return e.callBody(st, fn, a, nil, ins)
		}
		ft := osPkg.Type("fileStat").Type()
		stT := ft.Underlying().(*types.Struct)
		v := e.zero(ft).(*Agg)
		nv := &Agg{Elems: append([]Value(nil), v.Elems...), Epoch: -1}
		for i := 0; i < stT.NumFields(); i++ {
			switch stT.Field(i).Name() {
			case "mode":
				nv.Elems[i] = e.tt.Const(32, uint64(os.ModeDir|0o755))
			case "name":
				nv.Elems[i] = Str{Conc: true, S: p}
			}
		}
		o := e.newObj(st, ft, "fileStat", thaw(nv, st.epoch))
		e.Models["os.Stat of a directory registered with os.MkdirAll: reports an existing directory"] = true
		return e.ret(st, Tuple{Iface{Typ: types.NewPointer(ft), Val: Pointer{Obj: o}}, Iface{}})
	}
}

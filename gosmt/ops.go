package gosmt

import (
	"go/token"
	"go/types"
	"math"
	"unicode/utf8"

	"golang.org/x/tools/go/ssa"
)

// ---- strings ----------------------------------------------------------------------

func (e *Engine) strLen(s Str) *Term {
	if s.Conc {
		return e.c64(len(s.S))
	}
	return s.Len
}

// symStr converts a concrete string into the symbolic (object) form.
func (e *Engine) strObj(st *State, s Str) Str {
	if !s.Conc {
		return s
	}
	o, ok := e.strObjs[s.S]
	if !ok {
		a := &Agg{Elems: make([]Value, len(s.S)), Epoch: -1}
		for i := 0; i < len(s.S); i++ {
			a.Elems[i] = e.tt.Const(8, uint64(s.S[i]))
		}
		e.objCtr++
		o = &Obj{ID: e.objCtr, Name: "str", RO: true}
		e.baseHeap[o.ID] = &Box{V: a, Epoch: -1}
		e.strObjs[s.S] = o
	}
	return Str{Obj: o, Off: e.c64(0), Len: e.c64(len(s.S))}
}

func (e *Engine) strByteUnchecked(st *State, s Str, idx *Term) *Term {
	if s.Conc {
		if idx.IsConst() {
			if int(idx.Val) < len(s.S) {
				return e.tt.Const(8, uint64(s.S[idx.Val]))
			}
			return e.tt.Const(8, 0)
		}
		s = e.strObj(st, s)
	}
	b := e.boxOf(st, s.Obj)
	if b == nil {
		return e.tt.Const(8, 0)
	}
	arr := e.loadAt(b.V, s.Base)
	ag, ok := arr.(*Agg)
	if !ok || len(ag.Elems) == 0 {
		return e.tt.Const(8, 0)
	}
	i := e.tt.Add(s.Off, idx)
	if i.IsConst() && int(i.Val) >= len(ag.Elems) {
		return e.tt.Const(8, 0)
	}
	v := e.loadAt(ag, []PathElem{{Sym: i}})
	if t, ok := v.(*Term); ok {
		return t
	}
	return e.tt.Const(8, 0)
}

func (e *Engine) strByte(st *State, s Str, idx *Term) *Term {
	return e.strByteUnchecked(st, s, idx)
}

func (e *Engine) strSlice(s Str, lo, hi *Term) Str {
	if s.Conc && lo.IsConst() && hi.IsConst() {
		return Str{Conc: true, S: s.S[lo.Val:hi.Val]}
	}
	if s.Conc {
		s = e.strObj(nil, s)
	}
	return Str{Obj: s.Obj, Base: s.Base, Off: e.tt.Add(s.Off, lo), Len: e.tt.Sub(hi, lo)}
}

// strCap is the concrete maximal length of s.
func (e *Engine) strCap(st *State, s Str) int {
	if s.Conc {
		return len(s.S)
	}
	if s.Len.IsConst() {
		return int(s.Len.Val)
	}
	b := e.boxOf(st, s.Obj)
	n := 0
	if b != nil {
		if ag, ok := e.loadAt(b.V, s.Base).(*Agg); ok {
			n = len(ag.Elems)
		}
	}
	if s.Off.IsConst() {
		n -= int(s.Off.Val)
	}
	if s.Len.Hi < uint64(n) {
		n = int(s.Len.Hi)
	}
	if n < 0 {
		n = 0
	}
	return n
}

// strToConcrete returns the Go string if s is fully concrete.
func (e *Engine) strToConcrete(st *State, s Str) (string, bool) {
	if s.Conc {
		return s.S, true
	}
	if !s.Len.IsConst() || !s.Off.IsConst() {
		return "", false
	}
	n := int(s.Len.Val)
	bs := make([]byte, n)
	for i := 0; i < n; i++ {
		t := e.strByteUnchecked(st, s, e.c64(i))
		if !t.IsConst() {
			return "", false
		}
		bs[i] = byte(t.Val)
	}
	return string(bs), true
}

// normStr turns a symbolic string with all-constant content into a concrete one.
func (e *Engine) normStr(st *State, s Str) Str {
	if c, ok := e.strToConcrete(st, s); ok {
		return Str{Conc: true, S: c}
	}
	return s
}

func (e *Engine) strEq(st *State, a, b Str) *Term {
	if a.Conc && b.Conc {
		return e.tt.Bool(a.S == b.S)
	}
	la, lb := e.strLen(a), e.strLen(b)
	c := e.tt.Eq(la, lb)
	if c == e.tt.False {
		return c
	}
	n := e.strCap(st, a)
	if m := e.strCap(st, b); m < n {
		n = m
	}
	conds := []*Term{c}
	for i := 0; i < n; i++ {
		it := e.c64(i)
		in := e.tt.ULt(it, la)
		if in == e.tt.False {
			break
		}
		eq := e.tt.Eq(e.strByteUnchecked(st, a, it), e.strByteUnchecked(st, b, it))
		conds = append(conds, e.tt.Implies(in, eq))
	}
	return e.tt.BAnd(conds...)
}

// strLess: lexicographic a < b (bounded).
func (e *Engine) strLess(st *State, a, b Str) *Term {
	if a.Conc && b.Conc {
		return e.tt.Bool(a.S < b.S)
	}
	la, lb := e.strLen(a), e.strLen(b)
	n := e.strCap(st, a)
	if m := e.strCap(st, b); m < n {
		n = m
	}
	// result = exists first differing position i < min(la,lb) with a[i]<b[i], or prefix and la<lb
	res := e.tt.ULt(la, lb) // if all common bytes equal
	for i := n - 1; i >= 0; i-- {
		it := e.c64(i)
		in := e.tt.BAnd(e.tt.ULt(it, la), e.tt.ULt(it, lb))
		ab, bb := e.strByteUnchecked(st, a, it), e.strByteUnchecked(st, b, it)
		res = e.tt.Ite(in, e.tt.Ite(e.tt.Eq(ab, bb), res, e.tt.ULt(ab, bb)), res)
	}
	return res
}

func (e *Engine) strConcat(st *State, a, b Str, ins ssa.Instruction) Value {
	if a.Conc && b.Conc {
		return Str{Conc: true, S: a.S + b.S}
	}
	if a.Conc && a.S == "" {
		return b
	}
	if b.Conc && b.S == "" {
		return a
	}
	na, nb := e.strCap(st, a), e.strCap(st, b)
	la, lb := e.strLen(a), e.strLen(b)
	n := na + nb
	arr := &Agg{Elems: make([]Value, n), Epoch: -1}
	for i := 0; i < n; i++ {
		it := e.c64(i)
		var v *Term
		inA := e.tt.ULt(it, la)
		if inA == e.tt.True {
			v = e.strByteUnchecked(st, a, it)
		} else {
			bi := e.tt.Sub(it, la)
			bv := e.strByteUnchecked(st, b, bi)
			if inA == e.tt.False {
				v = bv
			} else {
				v = e.tt.Ite(inA, e.strByteUnchecked(st, a, it), bv)
			}
		}
		arr.Elems[i] = v
	}
	o := e.newObj(st, nil, "strcat", arr)
	return e.normStr(st, Str{Obj: o, Off: e.c64(0), Len: e.tt.Add(la, lb)})
}

// bytesToStr copies a slice into a fresh immutable string.
func (e *Engine) bytesToStr(st *State, s Slice) Value {
	if s.Obj == nil {
		return Str{Conc: true}
	}
	n := e.sliceCapN(st, s)
	arr := &Agg{Elems: make([]Value, n), Epoch: -1}
	allConst := s.Len.IsConst()
	for i := 0; i < n; i++ {
		v := e.loadPtr(st, e.sliceElemPtr(s, e.c64(i)))
		t, ok := v.(*Term)
		if !ok {
			t = e.tt.Const(8, 0)
		}
		if !t.IsConst() {
			allConst = false
		}
		arr.Elems[i] = t
	}
	if allConst {
		bs := make([]byte, n)
		for i := range bs {
			bs[i] = byte(arr.Elems[i].(*Term).Val)
		}
		return Str{Conc: true, S: string(bs)}
	}
	o := e.newObj(st, nil, "bytes2str", arr)
	return Str{Obj: o, Off: e.c64(0), Len: s.Len}
}

// sliceCapN: concrete number of elements that may be addressed through s (by length).
func (e *Engine) sliceCapN(st *State, s Slice) int {
	if s.Obj == nil {
		return 0
	}
	if s.Len.IsConst() {
		return int(s.Len.Val)
	}
	b := e.boxOf(st, s.Obj)
	n := 0
	if b != nil {
		if ag, ok := e.loadAt(b.V, s.Base).(*Agg); ok {
			n = len(ag.Elems)
		}
	}
	if s.Off.IsConst() {
		n -= int(s.Off.Val)
	} else if s.Off.Lo > 0 {
		n -= int(s.Off.Lo)
	}
	if s.Len.Hi < uint64(n) {
		n = int(s.Len.Hi)
	}
	if n < 0 {
		n = 0
	}
	return n
}

func (e *Engine) strToBytes(st *State, s Str, elem types.Type) Value {
	n := e.strCap(st, s)
	o := e.newArray(st, elem, n, "str2bytes")
	b := e.ownBoxOf(st, o)
	ag := b.V.(*Agg)
	for i := 0; i < n; i++ {
		ag.Elems[i] = e.strByteUnchecked(st, s, e.c64(i))
	}
	ln := e.strLen(s)
	return Slice{Obj: o, Off: e.c64(0), Len: ln, Cap: e.c64(n)}
}

// ---- equality -----------------------------------------------------------------------

// valuesEqual builds the condition a == b for comparable values.
func (e *Engine) valuesEqual(st *State, a, b Value) (*Term, bool) {
	switch x := a.(type) {
	case *Term:
		y, ok := b.(*Term)
		if !ok || x.W != y.W {
			return nil, false
		}
		return e.tt.Eq(x, y), true
	case Float:
		y, ok := b.(Float)
		if !ok {
			return nil, false
		}
		return e.tt.Bool(x.F == y.F), true
	case SymF:
		y, ok := b.(SymF)
		if !ok {
			return nil, false
		}
		return e.symFloatEq(x, y)
	case Str:
		y, ok := b.(Str)
		if !ok {
			return nil, false
		}
		return e.strEq(st, x, y), true
	case Pointer:
		y, ok := b.(Pointer)
		if !ok {
			return nil, false
		}
		if x.Obj != y.Obj || len(x.Path) != len(y.Path) {
			return e.tt.False, true
		}
		c := e.tt.True
		for i := range x.Path {
			c = e.tt.BAnd(c, e.tt.Eq(e.pathTerm(x.Path[i]), e.pathTerm(y.Path[i])))
		}
		return c, true
	case Iface:
		y, ok := b.(Iface)
		if !ok {
			return nil, false
		}
		if x.Typ == nil || y.Typ == nil {
			return e.tt.Bool(x.Typ == nil && y.Typ == nil), true
		}
		if x.Typ == e.errType || y.Typ == e.errType {
			// error objects are distinct allocations unless identical values
			if x.Typ == y.Typ {
				ea, _ := x.Val.(ErrVal)
				eb, _ := y.Val.(ErrVal)
				return e.tt.Bool(ea.Msg == eb.Msg && ea.Wrapped == nil && eb.Wrapped == nil && false), true
			}
			return e.tt.False, true
		}
		if !types.Identical(x.Typ, y.Typ) {
			return e.tt.False, true
		}
		return e.valuesEqual(st, x.Val, y.Val)
	case *Agg:
		y, ok := b.(*Agg)
		if !ok || len(x.Elems) != len(y.Elems) {
			return nil, false
		}
		c := e.tt.True
		for i := range x.Elems {
			ci, ok := e.valuesEqual(st, x.Elems[i], y.Elems[i])
			if !ok {
				return nil, false
			}
			c = e.tt.BAnd(c, ci)
		}
		return c, true
	case Slice:
		// only comparison with nil is legal
		y, ok := b.(Slice)
		if ok && (x.Obj == nil || y.Obj == nil) {
			return e.tt.Bool(x.Obj == nil && y.Obj == nil), true
		}
	case MapRef:
		y, ok := b.(MapRef)
		if ok {
			return e.tt.Bool(x.Obj == y.Obj), true
		}
	case *Closure:
		y, ok := b.(*Closure)
		if ok && (x == nil || y == nil) {
			return e.tt.Bool(x == nil && y == nil), true
		}
	case Opaque:
		y, ok := b.(Opaque)
		if ok {
			return e.tt.Bool(ptrEq(x.V, y.V)), true
		}
	case nil:
		if b == nil {
			return e.tt.True, true
		}
	}
	return nil, false
}

// ---- binary operators -----------------------------------------------------------------

func (e *Engine) binop(st *State, op token.Token, x, y Value, xt, yt types.Type, ins ssa.Instruction) (Value, bool) {
	if p, ok := isPoison(x); ok {
		return p, true
	}
	if p, ok := isPoison(y); ok {
		return p, true
	}
	switch op {
	case token.EQL, token.NEQ:
		c, ok := e.valuesEqual(st, x, y)
		if !ok {
			return Poison{"unsupported comparison of " + describe(x) + " and " + describe(y)}, true
		}
		if op == token.NEQ {
			c = e.tt.BNot(c)
		}
		return c, true
	}
	switch a := x.(type) {
	case *Term:
		b, ok := y.(*Term)
		if !ok {
			return Poison{"binop operand"}, true
		}
		w, signed, _ := intInfo(xt)
		if a.W == 0 { // booleans
			switch op {
			case token.AND, token.LAND:
				return e.tt.BAnd(a, b), true
			case token.OR, token.LOR:
				return e.tt.BOr(a, b), true
			case token.XOR:
				return e.tt.BNot(e.tt.Eq(a, b)), true
			}
			return Poison{"bool binop " + op.String()}, true
		}
		_ = w
		switch op {
		case token.ADD:
			return e.tt.Add(a, b), true
		case token.SUB:
			return e.tt.Sub(a, b), true
		case token.MUL:
			return e.tt.Mul(a, b), true
		case token.QUO, token.REM:
			nz := e.tt.BNot(e.tt.Eq(b, e.tt.Const(b.W, 0)))
			if !e.boundsCheck(st, nz, "integer divide by zero", ins) {
				return nil, false
			}
			if q, r, ok := e.divElim(a, b, signed); ok {
				if op == token.QUO {
					return q, true
				}
				return r, true
			}
			if op == token.QUO {
				if signed {
					return e.tt.SDiv(a, b), true
				}
				return e.tt.UDiv(a, b), true
			}
			if signed {
				return e.tt.SRem(a, b), true
			}
			return e.tt.URem(a, b), true
		case token.AND:
			return e.tt.And(a, b), true
		case token.OR:
			return e.tt.Or(a, b), true
		case token.XOR:
			return e.tt.Xor(a, b), true
		case token.AND_NOT:
			return e.tt.And(a, e.tt.Not(b)), true
		case token.SHL, token.SHR:
			_, ysigned, _ := intInfo(yt)
			if ysigned {
				neg := e.tt.SLt(b, e.tt.Const(b.W, 0))
				if !e.boundsCheck(st, e.tt.BNot(neg), "negative shift amount", ins) {
					return nil, false
				}
			}
			// bring the count to the width of a, saturating
			var cnt *Term
			if b.W > a.W {
				big := e.tt.ULe(e.tt.Const(b.W, uint64(a.W)), b)
				cnt = e.tt.Ite(big, e.tt.Const(a.W, uint64(a.W)), e.tt.Extract(b, a.W-1, 0))
			} else {
				cnt = e.tt.ZExt(b, a.W)
			}
			if a.W < 8 {
				return Poison{"narrow shift"}, true
			}
			if op == token.SHL {
				return e.tt.Shl(a, cnt), true
			}
			if signed {
				return e.tt.AShr(a, cnt), true
			}
			return e.tt.LShr(a, cnt), true
		case token.LSS:
			if signed {
				return e.tt.SLt(a, b), true
			}
			return e.tt.ULt(a, b), true
		case token.LEQ:
			if signed {
				return e.tt.SLe(a, b), true
			}
			return e.tt.ULe(a, b), true
		case token.GTR:
			if signed {
				return e.tt.SLt(b, a), true
			}
			return e.tt.ULt(b, a), true
		case token.GEQ:
			if signed {
				return e.tt.SLe(b, a), true
			}
			return e.tt.ULe(b, a), true
		}
	case Float:
		b, ok := y.(Float)
		if !ok {
			return Poison{"float binop operand"}, true
		}
		switch op {
		case token.ADD:
			return Float{a.F + b.F}, true
		case token.SUB:
			return Float{a.F - b.F}, true
		case token.MUL:
			return Float{a.F * b.F}, true
		case token.QUO:
			return Float{a.F / b.F}, true
		case token.LSS:
			return e.tt.Bool(a.F < b.F), true
		case token.LEQ:
			return e.tt.Bool(a.F <= b.F), true
		case token.GTR:
			return e.tt.Bool(a.F > b.F), true
		case token.GEQ:
			return e.tt.Bool(a.F >= b.F), true
		}
	case Str:
		b, ok := y.(Str)
		if !ok {
			return Poison{"string binop operand"}, true
		}
		switch op {
		case token.ADD:
			return e.strConcat(st, a, b, ins), true
		case token.LSS:
			return e.strLess(st, a, b), true
		case token.GTR:
			return e.strLess(st, b, a), true
		case token.LEQ:
			return e.tt.BNot(e.strLess(st, b, a)), true
		case token.GEQ:
			return e.tt.BNot(e.strLess(st, a, b)), true
		}
	}
	return Poison{"binop " + op.String() + " on " + describe(x)}, true
}

// ---- conversions -----------------------------------------------------------------------

func (e *Engine) convert(st *State, f *Frame, ins *ssa.Convert) bool {
	x := e.reg(st, f, ins.X)
	from, to := ins.X.Type(), ins.Type()
	if p, ok := isPoison(x); ok {
		e.setReg(f, ins, p)
		return true
	}
	fw, fsigned, fint := intInfo(from)
	tw, tsigned, tint := intInfo(to)
	_ = tsigned
	switch {
	case fint && tint && fw > 0 && tw > 0:
		e.setReg(f, ins, e.tt.Resize(x.(*Term), tw, fsigned))
	case fint && isFloat(to):
		t := x.(*Term)
		if !t.IsConst() {
			e.setReg(f, ins, SymF{"int", e.tt.Resize(t, 64, fsigned)})
			return true
		}
		if fsigned {
			e.setReg(f, ins, Float{float64(sext64(t.Val, t.W))})
		} else {
			e.setReg(f, ins, Float{float64(t.Val)})
		}
	case isFloat(from) && tint:
		if sf, ok := x.(SymF); ok {
			v, ok := e.symFloatToInt(st, sf, tw, ins)
			if !ok {
				return false
			}
			e.setReg(f, ins, v)
			return true
		}
		if _, ok := x.(Float); !ok {
			e.setReg(f, ins, Poison{"float to int of " + describe(x)})
			return true
		}
		fl := x.(Float).F
		if tsigned {
			e.setReg(f, ins, e.tt.Const(tw, uint64(int64(fl))))
		} else {
			e.setReg(f, ins, e.tt.Const(tw, uint64(fl)))
		}
	case isFloat(from) && isFloat(to):
		if _, ok := x.(Float); !ok {
			e.setReg(f, ins, x)
			return true
		}
		fl := x.(Float).F
		if to.Underlying().(*types.Basic).Kind() == types.Float32 {
			fl = float64(float32(fl))
		}
		e.setReg(f, ins, Float{fl})
	case isString(to) && fint: // string(rune)
		t := x.(*Term)
		if !t.IsConst() {
			// ASCII assumption for symbolic runes below 0x80
			if t.Hi < 0x80 {
				arr := &Agg{Elems: []Value{e.tt.Resize(t, 8, false)}, Epoch: -1}
				o := e.newObj(st, nil, "rune2str", arr)
				e.setReg(f, ins, Str{Obj: o, Off: e.c64(0), Len: e.c64(1)})
				return true
			}
			e.setReg(f, ins, Poison{"string(symbolic rune)"})
			return true
		}
		e.setReg(f, ins, Str{Conc: true, S: string(rune(sext64(t.Val, t.W)))})
	case isString(to): // []byte / []rune -> string
		s, ok := x.(Slice)
		if !ok {
			e.setReg(f, ins, Poison{"convert to string from " + describe(x)})
			return true
		}
		elem := from.Underlying().(*types.Slice).Elem()
		if ew, _, _ := intInfo(elem); ew == 8 {
			e.setReg(f, ins, e.bytesToStr(st, s))
			return true
		}
		// []rune
		n := e.sliceCapN(st, s)
		rs := make([]rune, n)
		concrete := s.Len.IsConst()
		ts := make([]*Term, n)
		for i := 0; i < n; i++ {
			t, ok := e.loadPtr(st, e.sliceElemPtr(s, e.c64(i))).(*Term)
			if !ok {
				e.setReg(f, ins, Poison{"string([]rune) of non-terms"})
				return true
			}
			ts[i] = t
			if !t.IsConst() {
				concrete = false
			} else {
				rs[i] = rune(sext64(t.Val, 32))
			}
		}
		if !concrete {
			// symbolic runes: exact for ASCII (one byte per rune)
			arr := &Agg{Elems: make([]Value, n), Epoch: -1}
			for i := 0; i < n; i++ {
				if ts[i].Hi >= 0x80 {
					e.setReg(f, ins, Poison{"string([]rune) with symbolic non-ASCII runes"})
					return true
				}
				arr.Elems[i] = e.tt.Extract(ts[i], 7, 0)
			}
			o := e.newObj(st, nil, "runes2str", arr)
			e.setReg(f, ins, e.normStr(st, Str{Obj: o, Off: e.c64(0), Len: s.Len}))
			return true
		}
		e.setReg(f, ins, Str{Conc: true, S: string(rs)})
	case isString(from): // string -> []byte / []rune
		s := x.(Str)
		elem := to.Underlying().(*types.Slice).Elem()
		if ew, _, _ := intInfo(elem); ew == 8 {
			e.setReg(f, ins, e.strToBytes(st, s, elem))
			return true
		}
		cs, ok := e.strToConcrete(st, s)
		if !ok {
			// ASCII assumption: one rune per byte
			e.Models["[]rune(symbolic string) assumes ASCII"] = true
			n := e.strCap(st, s)
			o := e.newArray(st, elem, n, "str2runes")
			ag := e.ownBoxOf(st, o).V.(*Agg)
			for i := 0; i < n; i++ {
				bt := e.strByteUnchecked(st, s, e.c64(i))
				st.assume(e.tt.BOr(e.tt.BNot(e.tt.ULt(e.c64(i), e.strLen(s))), e.tt.ULt(bt, e.tt.Const(8, 0x80))))
				ag.Elems[i] = e.tt.ZExt(bt, 32)
			}
			e.setReg(f, ins, Slice{Obj: o, Off: e.c64(0), Len: e.strLen(s), Cap: e.c64(n)})
			return true
		}
		rs := []rune(cs)
		o := e.newArray(st, elem, len(rs), "str2runes")
		ag := e.ownBoxOf(st, o).V.(*Agg)
		for i, r := range rs {
			ag.Elems[i] = e.tt.Const(32, uint64(uint32(r)))
		}
		e.setReg(f, ins, Slice{Obj: o, Off: e.c64(0), Len: e.c64(len(rs)), Cap: e.c64(len(rs))})
	default:
		// pointer <-> unsafe.Pointer and similar
		if _, ok := x.(Pointer); ok {
			e.setReg(f, ins, x)
			return true
		}
		e.setReg(f, ins, Poison{"convert " + from.String() + " to " + to.String()})
	}
	return true
}

// ---- builtins ------------------------------------------------------------------------

func (e *Engine) callBuiltin(st *State, name string, args []Value, cc *ssa.CallCommon, ins ssa.Instruction) []*State {
	for _, a := range args {
		if p, ok := isPoison(a); ok && name != "print" && name != "println" {
			return e.ret(st, p)
		}
	}
	switch name {
	case "len":
		switch x := args[0].(type) {
		case Slice:
			if x.Obj == nil {
				return e.ret(st, e.c64(0))
			}
			return e.ret(st, x.Len)
		case Str:
			return e.ret(st, e.strLen(x))
		case *Agg:
			return e.ret(st, e.c64(len(x.Elems)))
		case Pointer:
			if cc != nil {
				if pt, ok := cc.Args[0].Type().Underlying().(*types.Pointer); ok {
					if at, ok := pt.Elem().Underlying().(*types.Array); ok {
						return e.ret(st, e.c64(int(at.Len())))
					}
				}
			}
		case MapRef:
			if x.Obj == nil {
				return e.ret(st, e.c64(0))
			}
			mo := e.mapObj(st, x)
			n := e.c64(0)
			for _, en := range mo.Entries {
				n = e.tt.Add(n, e.tt.Ite(en.Present, e.c64(1), e.c64(0)))
			}
			return e.ret(st, n)
		}
	case "cap":
		switch x := args[0].(type) {
		case Slice:
			if x.Obj == nil {
				return e.ret(st, e.c64(0))
			}
			return e.ret(st, x.Cap)
		case *Agg:
			return e.ret(st, e.c64(len(x.Elems)))
		}
	case "append":
		return e.builtinAppend(st, args, cc, ins)
	case "copy":
		return e.builtinCopy(st, args, ins)
	case "delete":
		m, ok := args[0].(MapRef)
		if !ok || m.Obj == nil {
			return e.ret(st, Tuple{})
		}
		b := e.ownBoxOf(st, m.Obj)
		mo := b.V.(*MapObj)
		nm := &MapObj{Entries: append([]MapEntry(nil), mo.Entries...), Epoch: st.epoch}
		for i := range nm.Entries {
			eq := e.keyEq(st, nm.Entries[i].Key, args[1])
			if eq == nil {
				e.cutPath(st, "map key comparison unsupported", ins)
				return nil
			}
			nm.Entries[i].Present = e.tt.BAnd(nm.Entries[i].Present, e.tt.BNot(eq))
		}
		b.V = nm
		return e.ret(st, Tuple{})
	case "min", "max":
		if len(args) >= 1 {
			if a, ok := args[0].(*Term); ok {
				_, signed, _ := intInfo(cc.Args[0].Type())
				res := a
				for _, o := range args[1:] {
					b := o.(*Term)
					var lt *Term
					if signed {
						lt = e.tt.SLt(b, res)
					} else {
						lt = e.tt.ULt(b, res)
					}
					if name == "max" {
						lt = e.tt.BNot(e.tt.BOr(lt, e.tt.Eq(b, res)))
					}
					res = e.tt.Ite(lt, b, res)
				}
				return e.ret(st, res)
			}
		}
	case "print", "println":
		return e.ret(st, Tuple{})
	case "clear":
		switch x := args[0].(type) {
		case Slice:
			if x.Obj == nil {
				return e.ret(st, Tuple{})
			}
			var elemT types.Type
			if cc != nil {
				if sl, ok := cc.Args[0].Type().Underlying().(*types.Slice); ok {
					elemT = sl.Elem()
				}
			}
			if elemT == nil {
				return e.ret(st, Poison{"clear of untyped slice"})
			}
			z := e.zero(elemT)
			cn := e.sliceCapN(st, x)
			for i := 0; i < cn; i++ {
				it := e.c64(i)
				in := e.tt.ULt(it, x.Len)
				if in == e.tt.False {
					break
				}
				p := e.sliceElemPtr(x, it)
				if in == e.tt.True {
					e.storePtr(st, p, z)
				} else {
					b := e.ownBoxOf(st, p.Obj)
					b.V = e.storeAt(b.V, p.Path, z, in, st.epoch)
				}
			}
			return e.ret(st, Tuple{})
		case MapRef:
			if x.Obj == nil {
				return e.ret(st, Tuple{})
			}
			b := e.ownBoxOf(st, x.Obj)
			b.V = &MapObj{Epoch: st.epoch}
			return e.ret(st, Tuple{})
		}
		return e.ret(st, Poison{"clear"})
	case "recover":
		return e.ret(st, Iface{})
	case "SliceData":
		if sl, ok := args[0].(Slice); ok {
			if sl.Obj == nil {
				return e.ret(st, Pointer{})
			}
			return e.ret(st, e.sliceElemPtr(sl, e.c64(0)))
		}
	case "StringData":
		if s0, ok := args[0].(Str); ok {
			so := e.strObj(st, s0)
			return e.ret(st, e.sliceElemPtr(Slice{Obj: so.Obj, Base: so.Base, Off: so.Off, Len: so.Len, Cap: so.Len}, e.c64(0)))
		}
	case "String", "Slice":
		p, ok := args[0].(Pointer)
		n, ok2 := args[1].(*Term)
		if ok && ok2 {
			n = e.tt.Resize(n, 64, true)
			if p.Obj == nil {
				if name == "String" {
					return e.ret(st, Str{Conc: true})
				}
				return e.ret(st, Slice{})
			}
			if len(p.Path) == 0 {
				return e.ret(st, Poison{"unsafe." + name + " of non-element pointer"})
			}
			last := p.Path[len(p.Path)-1]
			sl := Slice{Obj: p.Obj, Base: p.Path[:len(p.Path)-1], Off: e.pathTerm(last), Len: n, Cap: n}
			if name == "String" {
				return e.ret(st, e.bytesToStr(st, sl))
			}
			return e.ret(st, sl)
		}
	case "ssa:wrapnilchk":
		p, _ := args[0].(Pointer)
		if p.Obj == nil {
			e.panicPath(st, "value method called through nil pointer", ins)
			return nil
		}
		return e.ret(st, args[0])
	}
	return e.ret(st, Poison{"builtin " + name + " on " + describe(args[0])})
}

func (e *Engine) builtinCopy(st *State, args []Value, ins ssa.Instruction) []*State {
	dst, ok := args[0].(Slice)
	if !ok {
		return e.ret(st, Poison{"copy dst"})
	}
	var srcLen *Term
	var get func(i *Term) Value
	var srcCap int
	switch s := args[1].(type) {
	case Slice:
		if s.Obj == nil {
			return e.ret(st, e.c64(0))
		}
		srcLen = s.Len
		srcCap = e.sliceCapN(st, s)
		get = func(i *Term) Value { return e.loadPtr(st, e.sliceElemPtr(s, i)) }
	case Str:
		srcLen = e.strLen(s)
		srcCap = e.strCap(st, s)
		get = func(i *Term) Value { return e.strByteUnchecked(st, s, i) }
	default:
		return e.ret(st, Poison{"copy src"})
	}
	if dst.Obj == nil {
		return e.ret(st, e.c64(0))
	}
	n := e.tt.Ite(e.tt.ULt(srcLen, dst.Len), srcLen, dst.Len)
	cn := e.sliceCapN(st, dst)
	if srcCap < cn {
		cn = srcCap
	}
	// read all first (overlap-safe), then write
	vals := make([]Value, cn)
	for i := 0; i < cn; i++ {
		vals[i] = get(e.c64(i))
	}
	for i := 0; i < cn; i++ {
		it := e.c64(i)
		in := e.tt.ULt(it, n)
		if in == e.tt.False {
			break
		}
		p := e.sliceElemPtr(dst, it)
		if in == e.tt.True {
			e.storePtr(st, p, vals[i])
		} else {
			b := e.ownBoxOf(st, p.Obj)
			b.V = e.storeAt(b.V, p.Path, vals[i], in, st.epoch)
		}
	}
	return e.ret(st, n)
}

func (e *Engine) builtinAppend(st *State, args []Value, cc *ssa.CallCommon, ins ssa.Instruction) []*State {
	s, ok := args[0].(Slice)
	if !ok {
		return e.ret(st, Poison{"append to " + describe(args[0])})
	}
	var elemT types.Type
	if cc != nil {
		elemT = cc.Args[0].Type().Underlying().(*types.Slice).Elem()
	}
	// source
	var addLen *Term
	var addCap int
	var get func(i *Term) Value
	switch a := args[1].(type) {
	case Slice:
		if a.Obj == nil {
			return e.ret(st, s)
		}
		addLen = a.Len
		addCap = e.sliceCapN(st, a)
		get = func(i *Term) Value { return e.loadPtr(st, e.sliceElemPtr(a, i)) }
	case Str:
		addLen = e.strLen(a)
		addCap = e.strCap(st, a)
		get = func(i *Term) Value { return e.strByteUnchecked(st, a, i) }
	default:
		return e.ret(st, Poison{"append of " + describe(args[1])})
	}
	if addLen.IsConst() && addLen.Val == 0 {
		return e.ret(st, s)
	}
	oldLen := e.c64(0)
	oldCapN := 0
	if s.Obj != nil {
		oldLen = s.Len
		oldCapN = e.sliceCapN(st, s)
	}
	vals := make([]Value, addCap)
	for i := 0; i < addCap; i++ {
		vals[i] = get(e.c64(i))
	}
	newLen := e.tt.Add(oldLen, addLen)
	// in-place when everything is concrete and fits
	if s.Obj != nil && oldLen.IsConst() && addLen.IsConst() && s.Cap.IsConst() && newLen.Val <= s.Cap.Val {
		for i := 0; i < addCap; i++ {
			e.storePtr(st, e.sliceElemPtr(s, e.c64(int(oldLen.Val)+i)), vals[i])
		}
		return e.ret(st, Slice{Obj: s.Obj, Base: s.Base, Off: s.Off, Len: newLen, Cap: s.Cap})
	}
	// otherwise a fresh backing array (aliasing with the old array is not modelled)
	n := oldCapN + addCap
	capN := n
	if oldLen.IsConst() && addLen.IsConst() {
		// amortised growth like the runtime, so that repeated appends stay cheap
		if capN < 2*oldCapN {
			capN = 2 * oldCapN
		}
		if capN < 8 {
			capN = 8
		}
	}
	if elemT == nil {
		elemT = types.Typ[types.Uint8]
	}
	o := e.newArray(st, elemT, capN, "append")
	ag := e.ownBoxOf(st, o).V.(*Agg)
	for i := 0; i < n; i++ {
		it := e.c64(i)
		inOld := e.tt.ULt(it, oldLen)
		var v Value
		if inOld == e.tt.True {
			v = e.loadPtr(st, e.sliceElemPtr(s, it))
		} else {
			// index into added part
			var nv Value = e.zero(elemT)
			if oldLen.IsConst() {
				j := i - int(oldLen.Val)
				if j >= 0 && j < addCap {
					nv = vals[j]
				}
			} else {
				j := e.tt.Sub(it, oldLen)
				// ite chain over added values
				for k := addCap - 1; k >= 0; k-- {
					m, ok := e.mergeValues(e.tt.Eq(j, e.c64(k)), vals[k], nv)
					if !ok {
						return e.ret(st, Poison{"append merge"})
					}
					nv = m
				}
			}
			if inOld == e.tt.False || i >= oldCapN {
				v = nv
			} else {
				ov := e.loadPtr(st, e.sliceElemPtr(s, it))
				m, ok := e.mergeValues(inOld, ov, nv)
				if !ok {
					return e.ret(st, Poison{"append merge"})
				}
				v = m
			}
		}
		ag.Elems[i] = thaw(v, st.epoch)
	}
	capT := e.c64(capN)
	return e.ret(st, Slice{Obj: o, Off: e.c64(0), Len: newLen, Cap: capT})
}

// ---- error values ------------------------------------------------------------------------

func (e *Engine) errValMethod(st *State, ifc Iface, name string, args []Value, ins ssa.Instruction) []*State {
	ev, _ := ifc.Val.(ErrVal)
	switch name {
	case "Error":
		return e.ret(st, Str{Conc: true, S: ev.Msg})
	case "Unwrap":
		if ev.Wrapped == nil {
			return e.ret(st, Iface{})
		}
		return e.ret(st, ev.Wrapped)
	}
	e.cutPath(st, "method "+name+" on model error", ins)
	return nil
}

func (e *Engine) mkErr(msg string, wrapped Value) Value {
	return Iface{Typ: e.errType, Val: ErrVal{Msg: msg, Wrapped: wrapped}}
}

var _ = math.MaxInt
var _ = utf8.RuneError

// divElim replaces a / d and a % d for a constant divisor d that is not a power of two by
// fresh variables q, r with the (global, definitional) constraint a = q*d + r, r < d, q <= max/d.
// Division circuits by such constants are what stalls the bit-blasting solvers; the
// multiplication form is decided quickly. Exact: q and r are uniquely determined.
func (e *Engine) divElim(a, b *Term, signed bool) (*Term, *Term, bool) {
	if !b.IsConst() || a.IsConst() || a.W < 16 {
		return nil, nil, false
	}
	d := b.Val
	if d == 0 || d&(d-1) == 0 {
		return nil, nil, false
	}
	if signed {
		// only for provably non-negative dividends and positive divisors
		half := mask(a.W) >> 1
		if a.Hi > half || d > half {
			return nil, nil, false
		}
	}
	key := [3]uint64{uint64(a.ID), d, uint64(a.W)}
	if e.divDefs == nil {
		e.divDefs = map[[3]uint64][2]*Term{}
		e.defOf = map[*Term]*Term{}
	}
	if qr, ok := e.divDefs[key]; ok {
		return qr[0], qr[1], true
	}
	q := e.tt.FreshVar("div.q", a.W)
	r := e.tt.FreshVar("div.r", a.W)
	maxq := mask(a.W) / d
	if signed {
		maxq = (mask(a.W) >> 1) / d
	}
	c := e.tt.BAnd(
		e.tt.Eq(a, e.tt.Add(e.tt.Mul(q, b), r)),
		e.tt.ULt(r, b),
		e.tt.ULe(q, e.tt.Const(a.W, maxq)),
		// q*d cannot wrap (q <= max/d) but q*d + r can (a = 0 would admit q = max/d, r = 2^W - q*d):
		// q*d <= a excludes the wrapped solution, which makes q and r unique
		e.tt.ULe(e.tt.Mul(q, b), a),
	)
	e.defOf[q] = c
	e.defOf[r] = c
	e.divDefs[key] = [2]*Term{q, r}
	e.Models["division/remainder by a constant that is not a power of two: quotient and remainder variables defined by a = q*d + r (exact)"] = true
	return q, r, true
}

// withDefs adds the definitional constraints of every defined variable occurring in as.
func (e *Engine) withDefs(as []*Term) []*Term {
	if len(e.defOf) == 0 {
		return as
	}
	seen := map[int]bool{}
	added := map[*Term]bool{}
	var stack []*Term
	stack = append(stack, as...)
	out := as
	for len(stack) > 0 {
		t := stack[len(stack)-1]
		stack = stack[:len(stack)-1]
		if seen[t.ID] {
			continue
		}
		seen[t.ID] = true
		if t.Op == OpVar {
			if c, ok := e.defOf[t]; ok && !added[c] {
				added[c] = true
				out = append(out, c)
				stack = append(stack, c)
			}
			continue
		}
		stack = append(stack, t.Args...)
	}
	return out
}

package gosmt

import (
	"encoding/json"
	"fmt"
	"os"
	"os/exec"
	"path/filepath"
	"runtime/debug"
	"sort"
	"strings"
	"sync"
	"time"

	"golang.org/x/tools/go/packages"
	"golang.org/x/tools/go/ssa"
	"golang.org/x/tools/go/ssa/ssautil"
)

const repoMod = "github.com/diskfs/go-diskfs"

// Config for one check invocation.
type Config struct {
	Repo       string
	Verif      string
	Property   string
	Tier       string
	Seed       int64
	Only       string // run only harnesses whose id contains this
	Workers    int
	Trace      bool
	NoReplay   bool
	Verbose    bool
}

type HarnessResult struct {
	ID          string
	Pkg         string
	Func        string
	Obligations []*Obligation
	Inputs      int
	Stats       Stats
	SolverMs    int64
	WallMs      int64
	Funcs       map[string]int
	Models      []string
	Cuts        map[string]int
	Nondet      []string
	Aborted     string
	KnownSeen   map[string]string
	KnownCex    []*KnownCex
	Bounds      map[string]int
	Violations  []*Violation
	Confirmed   []string // replay files of confirmed violations
	Unconfirmed int
	Validated   int // native runs that agreed with the engine
	Divergent   []string
	witnesses   []map[string]interface{}
	observes    []obsCheck
}

type obsCheck struct {
	inputs map[string]interface{}
	want   map[string]uint64
}

type loaded struct {
	prog      *ssa.Program
	pkgs      []*packages.Package
	overlay   map[string][]byte
	ovFiles   map[string]string // virtual path -> real path
	quarantined []string
}

// buildOverlay maps harness and vp files into the repo tree.
func buildOverlay(cfg *Config) (map[string][]byte, map[string]string, error) {
	ov := map[string][]byte{}
	files := map[string]string{}
	add := func(virtual, real string) error {
		b, err := os.ReadFile(real)
		if err != nil {
			return err
		}
		ov[virtual] = b
		files[virtual] = real
		return nil
	}
	vpDir := filepath.Join(cfg.Verif, "vp")
	err := filepath.Walk(vpDir, func(p string, info os.FileInfo, err error) error {
		if err != nil || info.IsDir() || !strings.HasSuffix(p, ".go") {
			return nil
		}
		rel, _ := filepath.Rel(vpDir, p)
		return add(filepath.Join(cfg.Repo, "internal/vp", rel), p)
	})
	if err != nil {
		return nil, nil, err
	}
	for _, hroot := range []string{filepath.Join(cfg.Verif, "harness"), filepath.Join(cfg.Verif, ".cache", "gen")} {
		if _, serr := os.Stat(hroot); serr != nil {
			continue
		}
		err = filepath.Walk(hroot, func(p string, info os.FileInfo, err error) error {
			if err != nil || info.IsDir() || !strings.HasSuffix(p, ".go") {
				return nil
			}
			rel, _ := filepath.Rel(hroot, p)
			return add(filepath.Join(cfg.Repo, rel), p)
		})
		if err != nil {
			return nil, nil, err
		}
	}
	return ov, files, nil
}

func load(cfg *Config) (*loaded, error) {
	ov, files, err := buildOverlay(cfg)
	if err != nil {
		return nil, err
	}
	ld := &loaded{overlay: ov, ovFiles: files}
	for attempt := 0; attempt < 4; attempt++ {
		pcfg := &packages.Config{Mode: packages.LoadAllSyntax, Dir: cfg.Repo, Overlay: ld.overlay,
			Env: append(os.Environ(), "GOFLAGS=-mod=mod", "GOPROXY=off")}
		pkgs, err := packages.Load(pcfg, "./...")
		if err != nil {
			return nil, err
		}
		// find type errors located in overlay files
		bad := map[string]bool{}
		fatal := []string{}
		for _, p := range pkgs {
			for _, e := range p.Errors {
				pos := e.Pos
				hit := false
				for v := range ld.overlay {
					if strings.HasPrefix(pos, v+":") && strings.Contains(v, "zz_vp_") {
						bad[v] = true
						hit = true
					}
				}
				if !hit {
					fatal = append(fatal, e.Error())
				}
			}
		}
		if len(bad) == 0 {
			if len(fatal) > 0 {
				// errors outside harness files: packages that do not build (e.g. other OS) are fine as long
				// as the harness packages are intact; report but go on
				if cfg.Verbose {
					for _, f := range fatal {
						fmt.Fprintln(os.Stderr, "load warning:", f)
					}
				}
			}
			prog, _ := ssautil.AllPackages(pkgs, ssa.InstantiateGenerics)
			prog.Build()
			ld.prog = prog
			ld.pkgs = pkgs
			return ld, nil
		}
		for v := range bad {
			delete(ld.overlay, v)
			ld.quarantined = append(ld.quarantined, v)
			fmt.Printf("QUARANTINE harness file %s does not type-check against this tree\n", ld.ovFiles[v])
		}
	}
	return nil, fmt.Errorf("could not load packages after quarantining harness files")
}

type harnessRef struct {
	id  string
	fn  *ssa.Function
	pkg *ssa.Package
}

// aliases: harnesses of other properties that also decide obligations of this property
// (/verif/harness/aliases.json: {"C08": ["C01.fat_write_place_start1m", ...]}).
func findHarnesses(ld *loaded, prop, only string) []harnessRef {
	out := findOwn(ld, prop, only)
	if b, err := os.ReadFile("/verif/harness/aliases.json"); err == nil {
		var al map[string][]string
		if json.Unmarshal(b, &al) == nil {
			for _, id := range al[prop] {
				if only != "" && !strings.Contains(id, only) {
					continue
				}
				i := strings.Index(id, ".")
				if i < 0 {
					continue
				}
				for _, h := range findOwn(ld, id[:i], "") {
					if h.id == id {
						out = append(out, h)
					}
				}
			}
		}
	}
	return out
}

func findOwn(ld *loaded, prop, only string) []harnessRef {
	var out []harnessRef
	prefix := "VP_" + prop + "_"
	for _, p := range ld.prog.AllPackages() {
		if !strings.HasPrefix(p.Pkg.Path(), repoMod) {
			continue
		}
		for name, m := range p.Members {
			fn, ok := m.(*ssa.Function)
			if !ok || !strings.HasPrefix(name, prefix) {
				continue
			}
			id := prop + "." + strings.TrimPrefix(name, prefix)
			if only != "" && !strings.Contains(id, only) {
				continue
			}
			out = append(out, harnessRef{id: id, fn: fn, pkg: p})
		}
	}
	sort.Slice(out, func(i, j int) bool { return out[i].id < out[j].id })
	return out
}

// KnownFindings file format.
type KnownFinding struct {
	ID       string `json:"id"`
	Property string `json:"property"`
	Status   string `json:"status"` // open | fixed
	What     string `json:"what"`
	Commit   string `json:"commit,omitempty"`
	// optional: violated obligations of these kinds (alloc, panic, loop) whose position contains
	// one of the sites are attributed to this finding (for findings keyed by call site)
	Sites []string `json:"sites,omitempty"`
	Kinds []string `json:"kinds,omitempty"`
}

func loadKnown(cfg *Config) (map[string]bool, map[string]KnownFinding) {
	out := map[string]bool{}
	all := map[string]KnownFinding{}
	b, err := os.ReadFile(filepath.Join(cfg.Verif, "known_findings.json"))
	if err != nil {
		return out, all
	}
	var f struct {
		Findings []KnownFinding `json:"findings"`
	}
	if json.Unmarshal(b, &f) != nil {
		return out, all
	}
	for _, k := range f.Findings {
		all[k.ID] = k
		if k.Status == "open" {
			out[k.ID] = true
		}
	}
	return out, all
}

// runHarness executes one harness symbolically.
func runHarness(ld *loaded, h harnessRef, cfg *Config, known map[string]bool, deadline time.Time) (res *HarnessResult) {
	t0 := time.Now()
	res = &HarnessResult{ID: h.id, Pkg: h.pkg.Pkg.Path(), Func: h.fn.Name()}
	opts := Options{Tier: cfg.Tier, Known: known, Deadline: deadline, TimeoutMs: 60000}
	_, allKnown := loadKnown(cfg)
	for _, kf := range allKnown {
		if kf.Status == "open" && kf.Property == cfg.Property && len(kf.Sites) > 0 {
			opts.KnownSites = append(opts.KnownSites, kf)
		}
	}
	if cfg.Tier == "thorough" {
		opts.TimeoutMs = 120000
		opts.SecondCheck = true
		opts.MaxSteps = 300_000_000
	}
	e, err := NewEngine(ld.prog, opts)
	if err != nil {
		res.Aborted = err.Error()
		return res
	}
	e.trace = cfg.Trace
	e.harness = h.id
	defer e.Close()
	defer func() {
		if r := recover(); r != nil {
			if a, ok := r.(abortRun); ok {
				res.Aborted = a.why
			} else {
				res.Aborted = fmt.Sprintf("engine panic: %v\n%s", r, debug.Stack())
			}
		}
		retireEngine(e)
		res.Obligations = e.Obligations
		res.Inputs = len(e.Inputs)
		res.Stats = e.StatsCopy()
		res.SolverMs = e.SolverTime().Milliseconds()
		res.WallMs = time.Since(t0).Milliseconds()
		res.Funcs = e.FuncsSeen
		for m := range e.Models {
			res.Models = append(res.Models, m)
		}
		sort.Strings(res.Models)
		res.Cuts = e.Cuts
		res.Nondet = e.Nondet
		res.KnownSeen = e.KnownSeen
		res.KnownCex = e.KnownCex
		res.Bounds = e.opts.Bounds
		res.Violations = e.Violations
		// witnesses for native validation: models of cover points / reached assertions
		for _, ob := range e.Obligations {
			if ob.Kind == "cover" && ob.Model != nil {
				res.witnesses = append(res.witnesses, ob.Model)
			}
		}
		res.observes = e.observeChecks()
	}()
	e.runInit(h.pkg)
	e.started = time.Now()
	st := e.newState()
	outs := e.callFunc(st, h.fn, nil, nil, nil)
	_ = outs
	// reachability witness for the harness end (vacuity guard)
	n := 0
	for _, o := range outs {
		if n >= 2 {
			break
		}
		r, vals, _, sname := e.checkSat(o.pc, nil, e.wantTerms())
		if r == Sat {
			m, _ := e.decodeModel(vals)
			e.Obligations = append(e.Obligations, &Obligation{Kind: "cover", Label: "harness end reached", Verdict: "reached", Model: m, Solver: sname})
			n++
		}
	}
	e.vacuityViolations()
	return res
}

// observeChecks evaluates Observe terms under solver models of their paths.
func (e *Engine) observeChecks() []obsCheck {
	var out []obsCheck
	seen := map[string]int{}
	for _, ob := range e.Observes {
		if seen[ob.Label] >= 1 || len(out) >= 6 {
			continue
		}
		seen[ob.Label]++
		want := append(e.wantTerms(), ob.T)
		r, vals, _, _ := e.checkSat(ob.PC, nil, want)
		if r != Sat {
			continue
		}
		inputs, _ := e.decodeModel(vals[:len(vals)-1])
		out = append(out, obsCheck{inputs: inputs, want: map[string]uint64{ob.Label: vals[len(vals)-1]}})
	}
	return out
}

// ---- native replay ---------------------------------------------------------------

type nativeRunner struct {
	cfg   *Config
	ld    *loaded
	mu    sync.Mutex
	bins  map[string]string // pkg path -> test binary ("" = build failed)
	errs  map[string]string
	known map[string]bool
}

func (nr *nativeRunner) binFor(pkgPath string, harnesses []harnessRef) (string, string) {
	nr.mu.Lock()
	defer nr.mu.Unlock()
	if b, ok := nr.bins[pkgPath]; ok {
		return b, nr.errs[pkgPath]
	}
	rel := strings.TrimPrefix(strings.TrimPrefix(pkgPath, repoMod), "/")
	dir := filepath.Join(nr.cfg.Repo, rel)
	cache := filepath.Join(nr.cfg.Verif, ".cache", "native", nr.cfg.Property+"-"+fmt.Sprint(os.Getpid()))
	os.MkdirAll(cache, 0o755)
	// generated test file
	var pkgName string
	for _, p := range nr.ld.pkgs {
		if p.PkgPath == pkgPath {
			pkgName = p.Name
		}
	}
	var sb strings.Builder
	fmt.Fprintf(&sb, "package %s\n\nimport (\n\t\"os\"\n\t\"testing\"\n\n\t\"%s/internal/vp\"\n)\n\n", pkgName, repoMod)
	sb.WriteString("func TestVPReplay(t *testing.T) {\n\ths := map[string]func(){\n")
	for _, h := range harnesses {
		if h.pkg.Pkg.Path() == pkgPath {
			fmt.Fprintf(&sb, "\t\t%q: %s,\n", h.id, h.fn.Name())
		}
	}
	sb.WriteString("\t}\n\th := hs[os.Getenv(\"VP_HARNESS\")]\n\tif h == nil {\n\t\tt.Fatal(\"unknown harness\")\n\t}\n\tif !vp.Run(os.Getenv(\"VP_HARNESS\"), h) {\n\t\tt.Fail()\n\t}\n}\n")
	safe := strings.ReplaceAll(rel, "/", "_")
	if safe == "" {
		safe = "root"
	}
	gen := filepath.Join(cache, safe+"_replay_test.go")
	os.WriteFile(gen, []byte(sb.String()), 0o644)
	repl := map[string]string{filepath.Join(dir, "zz_vp_replay_test.go"): gen}
	for v, r := range nr.ld.ovFiles {
		if _, ok := nr.ld.overlay[v]; ok {
			repl[v] = r
		}
	}
	// delete the package's own tests (several need docker fixtures in TestMain)
	if ents, err := os.ReadDir(dir); err == nil {
		for _, en := range ents {
			if strings.HasSuffix(en.Name(), "_test.go") {
				repl[filepath.Join(dir, en.Name())] = ""
			}
		}
	}
	ovb, _ := json.Marshal(map[string]interface{}{"Replace": repl})
	ovf := filepath.Join(cache, safe+"_overlay.json")
	os.WriteFile(ovf, ovb, 0o644)
	bin := filepath.Join(cache, safe+".test")
	cmd := exec.Command("go", "test", "-c", "-vet=off", "-overlay", ovf, "-o", bin, "./"+rel)
	cmd.Dir = nr.cfg.Repo
	cmd.Env = append(os.Environ(), "GOFLAGS=-mod=mod", "GOPROXY=off")
	out, err := cmd.CombinedOutput()
	if err != nil {
		nr.bins[pkgPath] = ""
		nr.errs[pkgPath] = string(out)
		return "", string(out)
	}
	nr.bins[pkgPath] = bin
	return bin, ""
}

type nativeOutcome struct {
	Result string // ok | assume-false | assert-fail | panic | path-end-panic | timeout | oom | error
	Label  string
	Obs    map[string]uint64
	Known  []string
	Raw    string
}

func (nr *nativeRunner) run(bin string, harness string, replayFile string) nativeOutcome {
	sh := fmt.Sprintf("ulimit -v 6000000; exec %s -test.run '^TestVPReplay$' -test.count=1 -test.timeout 60s", bin)
	cmd := exec.Command("sh", "-c", sh)
	cmd.Env = append(os.Environ(), "VP_REPLAY="+replayFile, "VP_HARNESS="+harness, "TZ=UTC")
	cmd.Dir = filepath.Dir(bin)
	done := make(chan struct{})
	var out []byte
	go func() {
		out, _ = cmd.CombinedOutput()
		close(done)
	}()
	select {
	case <-done:
	case <-time.After(90 * time.Second):
		if cmd.Process != nil {
			cmd.Process.Kill()
		}
		<-done
	}
	o := nativeOutcome{Obs: map[string]uint64{}, Raw: string(out)}
	for _, l := range strings.Split(string(out), "\n") {
		l = strings.TrimSpace(l)
		switch {
		case strings.HasPrefix(l, "VP-RESULT "):
			f := strings.SplitN(strings.TrimPrefix(l, "VP-RESULT "), " ", 2)
			o.Result = f[0]
			if len(f) > 1 {
				o.Label = f[1]
			}
		case strings.HasPrefix(l, "VP-OBS "):
			f := strings.Fields(l)
			if len(f) == 3 {
				var v uint64
				fmt.Sscan(f[2], &v)
				o.Obs[f[1]] = v
			}
		case strings.HasPrefix(l, "VP-KNOWN "):
			o.Known = append(o.Known, strings.TrimPrefix(l, "VP-KNOWN "))
		}
	}
	if o.Result == "" {
		switch {
		case strings.Contains(o.Raw, "test timed out") || strings.Contains(o.Raw, "panic: test timed out"):
			o.Result = "timeout"
		case strings.Contains(o.Raw, "out of memory") || strings.Contains(o.Raw, "cannot allocate memory"):
			o.Result = "oom"
		case strings.Contains(o.Raw, "fatal error:") || strings.Contains(o.Raw, "panic:"):
			o.Result = "panic"
			o.Label = firstLine(o.Raw, "panic:", "fatal error:")
		default:
			o.Result = "error"
		}
	}
	return o
}

func firstLine(s string, keys ...string) string {
	for _, l := range strings.Split(s, "\n") {
		for _, k := range keys {
			if strings.Contains(l, k) {
				return strings.TrimSpace(l)
			}
		}
	}
	return ""
}

func writeReplay(path string, harness string, inputs map[string]interface{}, known map[string]bool, tier string, extra map[string]interface{}) error {
	m := map[string]interface{}{"harness": harness, "inputs": inputs, "known": known, "tier": tier}
	for k, v := range extra {
		m[k] = v
	}
	b, err := json.MarshalIndent(m, "", " ")
	if err != nil {
		return err
	}
	os.MkdirAll(filepath.Dir(path), 0o755)
	return os.WriteFile(path, b, 0o644)
}

// reproduces decides whether a native outcome confirms the violated obligation.
func reproduces(ob *Obligation, o nativeOutcome) bool {
	switch ob.Kind {
	case "assert":
		return o.Result == "assert-fail" && o.Label == ob.Label
	case "panic":
		return o.Result == "panic" || o.Result == "timeout" || o.Result == "oom"
	case "pathpanic":
		return o.Result == "path-end-panic" || o.Result == "panic"
	case "alloc":
		return o.Result == "oom" || o.Result == "panic" || o.Result == "timeout"
	case "loop":
		return o.Result == "timeout" || o.Result == "oom"
	}
	return false
}

package gosmt

import (
	"go/types"

	"golang.org/x/tools/go/ssa"
)

// Contract model of package time's civil calendar (used only when an operand is symbolic;
// concrete calls run the real stdlib SSA):
//   time.Date(y,mo,d,h,mi,s,ns,UTC)  = a Time whose second count is the uninterpreted
//                                       civil_sec(y,mo,d,h,mi,s) and whose accessors return the
//                                       components; components must already be normalised
//                                       (mo 1..12, d 1..31, h 0..23, mi 0..59, s 0..59), other
//                                       inputs are cut (normalisation is not modelled).
//   t.Year()/Month()/... on a Time that did not come from Date = uninterpreted functions of the
//                                       second count, constrained to their documented ranges.
// i.e. the calendar arithmetic of package time is trusted; the code around it is what is checked.

type civil struct {
	y, mo, d, h, mi, s *Term
	off             *Term // zone offset in seconds (constant 0 for UTC)
	loc             *Obj  // location object the components are expressed in (nil = UTC)
}

func (e *Engine) timeParts(v Value) (wall, ext *Term, loc Value, ok bool) {
	a, isAgg := v.(*Agg)
	if !isAgg || len(a.Elems) != 3 {
		return nil, nil, nil, false
	}
	w, ok1 := a.Elems[0].(*Term)
	x, ok2 := a.Elems[1].(*Term)
	return w, x, a.Elems[2], ok1 && ok2
}

func init() {
	intrinsics["time.Date"] = func(e *Engine, st *State, fn *ssa.Function, a []Value, ins ssa.Instruction) []*State {
		ts := make([]*Term, 7)
		conc := true
		for i := 0; i < 7; i++ {
			t, ok := a[i].(*Term)
			if !ok {
				return e.ret(st, Poison{"time.Date operand"})
			}
			ts[i] = t
			if !t.IsConst() {
				conc = false
			}
		}
		if conc {
			return e.callBody(st, fn, a, nil, ins)
		}
		loc, _ := a[7].(Pointer)
		var off *Term = e.c64(0)
		var locObj *Obj
		var locVal Value = Pointer{}
		if loc.Obj == nil || loc.Obj.Name != "time.utcLoc" {
			// a fixed zone (time.FixedZone): read zone[0].offset from the Location object
			o, ok := e.fixedZoneOffset(st, loc, fn)
			if !ok {
				e.cutPath(st, "time.Date with symbolic components in a location that is neither UTC nor a fixed zone", ins)
				return nil
			}
			off, locObj, locVal = o, loc.Obj, loc
		}
		e.Models["time.Date/Year/Month/Day/Hour/Minute/Second: civil calendar modelled by contract (see gosmt/timemodel.go)"] = true
		rng := func(t *Term, lo, hi int64) *Term {
			return e.tt.BAnd(e.tt.SLe(e.tt.Const(64, uint64(lo)), t), e.tt.SLe(t, e.tt.Const(64, uint64(hi))))
		}
		norm := e.tt.BAnd(rng(ts[1], 1, 12), rng(ts[2], 1, 31), rng(ts[3], 0, 23), rng(ts[4], 0, 59), rng(ts[5], 0, 59),
			rng(ts[6], 0, 999999999), rng(ts[0], 1, 9999))
		if norm != e.tt.True {
			if e.feasible(st, e.tt.BNot(norm)) {
				e.Cuts["time.Date with components outside their normal ranges not explored (normalisation not modelled)"]++
			}
			st.assume(norm)
		}
		sec := e.tt.Sub(e.tt.UF("civil_sec", 64, ts[0], ts[1], ts[2], ts[3], ts[4], ts[5]), off)
		if e.civil == nil {
			e.civil = map[*Term]civil{}
		}
		e.civil[sec] = civil{ts[0], ts[1], ts[2], ts[3], ts[4], ts[5], off, locObj}
		// wall: no monotonic clock, nanoseconds in the low 30 bits
		wall := e.tt.And(ts[6], e.tt.Const(64, 1<<30-1))
		return e.ret(st, &Agg{Elems: []Value{wall, sec, locVal}, Epoch: -1})
	}
	// the local time zone is modelled as UTC (native replays run with TZ=UTC): initLocal would read the
	// environment and the zone database
	intrinsics["time.initLocal"] = func(e *Engine, st *State, fn *ssa.Function, a []Value, ins ssa.Instruction) []*State {
		e.Models["time.Local modelled as UTC (native replays run with TZ=UTC)"] = true
		return e.ret(st, Tuple{})
	}
	acc := func(name string, pick func(c civil) *Term, lo, hi int64) {
		intrinsics["(time.Time)."+name] = func(e *Engine, st *State, fn *ssa.Function, a []Value, ins ssa.Instruction) []*State {
			_, ext, loc, ok := e.timeParts(a[0])
			if !ok {
				return e.ret(st, Poison{"time accessor on " + describe(a[0])})
			}
			if ext.IsConst() {
				return e.callBody(st, fn, a, nil, ins)
			}
			p, isP := loc.(Pointer)
			if !isP {
				e.cutPath(st, "calendar accessor on a time with an unknown location", ins)
				return nil
			}
			if p.Obj != nil && p.Obj.Name == "time.localLoc" {
				p = Pointer{} // time.Local is modelled as UTC (see time.initLocal)
			}
			e.Models["time.Date/Year/Month/Day/Hour/Minute/Second: civil calendar modelled by contract (see gosmt/timemodel.go)"] = true
			if c, ok := e.civil[ext]; ok {
				sameLoc := p.Obj == c.loc
				zeroOff := c.off.IsConst() && c.off.Val == 0
				if sameLoc || (zeroOff && (p.Obj == nil || c.loc == nil)) {
					return e.ret(st, pick(c))
				}
			}
			if p.Obj != nil {
				e.cutPath(st, "calendar accessor on a symbolic time in a non-UTC location it was not built in", ins)
				return nil
			}
			v := e.tt.UF("civil_"+name, 64, ext)
			st.assume(e.tt.BAnd(e.tt.SLe(e.tt.Const(64, uint64(lo)), v), e.tt.SLe(v, e.tt.Const(64, uint64(hi)))))
			return e.ret(st, v)
		}
	}
	acc("Year", func(c civil) *Term { return c.y }, -292277022399, 292277026596)
	acc("Month", func(c civil) *Term { return c.mo }, 1, 12)
	acc("Day", func(c civil) *Term { return c.d }, 1, 31)
	acc("Hour", func(c civil) *Term { return c.h }, 0, 23)
	acc("Minute", func(c civil) *Term { return c.mi }, 0, 59)
	acc("Second", func(c civil) *Term { return c.s }, 0, 59)
}

var _ = types.Typ

// fixedZoneOffset reads zone[0].offset of a *time.Location built by time.FixedZone.
func (e *Engine) fixedZoneOffset(st *State, loc Pointer, dateFn *ssa.Function) (*Term, bool) {
	if loc.Obj == nil {
		return nil, false
	}
	pt, ok := dateFn.Signature.Params().At(7).Type().(*types.Pointer)
	if !ok {
		return nil, false
	}
	ls, ok := pt.Elem().Underlying().(*types.Struct)
	if !ok {
		return nil, false
	}
	zi := -1
	for i := 0; i < ls.NumFields(); i++ {
		if ls.Field(i).Name() == "zone" {
			zi = i
		}
	}
	if zi < 0 {
		return nil, false
	}
	zs, ok := e.loadPtr(st, Pointer{Obj: loc.Obj, Path: appendPath(loc.Path, PathElem{Idx: zi})}).(Slice)
	if !ok || zs.Obj == nil || !zs.Len.IsConst() || zs.Len.Val != 1 {
		return nil, false
	}
	zt, ok := ls.Field(zi).Type().Underlying().(*types.Slice).Elem().Underlying().(*types.Struct)
	if !ok {
		return nil, false
	}
	oi := -1
	for i := 0; i < zt.NumFields(); i++ {
		if zt.Field(i).Name() == "offset" {
			oi = i
		}
	}
	if oi < 0 {
		return nil, false
	}
	ep := e.sliceElemPtr(zs, e.c64(0))
	off, ok := e.loadPtr(st, Pointer{Obj: ep.Obj, Path: appendPath(ep.Path, PathElem{Idx: oi})}).(*Term)
	if !ok {
		return nil, false
	}
	return e.tt.Resize(off, 64, true), true
}

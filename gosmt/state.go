package gosmt

import (
	"fmt"
	"go/types"

	"golang.org/x/tools/go/ssa"
)

type Box struct {
	V     Value
	Epoch int
}

type deferred struct {
	fn   Value
	args []Value
	call *ssa.CallCommon
}

type Frame struct {
	fn     *ssa.Function
	info   *fnInfo
	regs   []Value
	block  *ssa.BasicBlock
	ip     int
	prev   *ssa.BasicBlock
	defers []deferred
	visits map[int]int // block index -> times entered
	symIters map[int]int // block index -> times a symbolic loop-exit test was evaluated
	// where the result goes in the caller
	dest ssa.Value
	// panicking: set while running defers after a panic (unsupported beyond termination)
}

type status int

const (
	stRunning status = iota
	stAtStop
	stReturned
)

type State struct {
	frames []*Frame
	heap   map[int]*Box
	pc     []*Term
	epoch  int
	dirty  map[int]struct{}
	status status
	ret    Value // result of the function whose Return ended run()
	depth  int   // call depth for recursion limiting

	// per-path harness modes
	noPanic   bool
	knownPan  []knownPanic
	steps     int
	nondetLog []string
}

type knownPanic struct {
	id    string
	where string
}

func (st *State) top() *Frame { return st.frames[len(st.frames)-1] }

func (e *Engine) newEpoch() int {
	e.epochCtr++
	return e.epochCtr
}

// fork returns a copy of st that can evolve independently. st itself must get a new epoch too.
func (e *Engine) fork(st *State) *State {
	n := &State{
		frames:   make([]*Frame, len(st.frames)),
		heap:     make(map[int]*Box, len(st.heap)),
		pc:       st.pc[:len(st.pc):len(st.pc)],
		epoch:    e.newEpoch(),
		dirty:    make(map[int]struct{}, len(st.dirty)),
		status:   st.status,
		ret:      st.ret,
		depth:    st.depth,
		noPanic:  st.noPanic,
		knownPan: st.knownPan,
		steps:    st.steps,
		nondetLog: st.nondetLog[:len(st.nondetLog):len(st.nondetLog)],
	}
	for i, f := range st.frames {
		nf := *f
		nf.regs = append([]Value(nil), f.regs...)
		nf.defers = append([]deferred(nil), f.defers...)
		nf.visits = make(map[int]int, len(f.visits))
		for k, v := range f.visits {
			nf.visits[k] = v
		}
		nf.symIters = make(map[int]int, len(f.symIters))
		for k, v := range f.symIters {
			nf.symIters[k] = v
		}
		n.frames[i] = &nf
	}
	for k, v := range st.heap {
		n.heap[k] = v
	}
	for k := range st.dirty {
		n.dirty[k] = struct{}{}
	}
	e.stats.States++
	return n
}

// split forks st into two children for a branch; st must not be used afterwards.
func (e *Engine) split(st *State) (*State, *State) {
	a := e.fork(st)
	b := e.fork(st)
	return a, b
}

func (st *State) assume(c *Term) {
	st.pc = append(st.pc, c)
}

// ---- heap ------------------------------------------------------------------

func (e *Engine) newObj(st *State, typ types.Type, name string, init Value) *Obj {
	e.objCtr++
	o := &Obj{ID: e.objCtr, Typ: typ, Name: name}
	st.heap[o.ID] = &Box{V: init, Epoch: st.epoch}
	st.dirty[o.ID] = struct{}{}
	return o
}

func (st *State) box(o *Obj) *Box {
	return st.heap[o.ID]
}

// ownBox returns a box for o that st may mutate.
func (st *State) ownBox(o *Obj) *Box {
	b := st.heap[o.ID]
	if b == nil {
		return nil
	}
	st.dirty[o.ID] = struct{}{}
	if b.Epoch != st.epoch {
		nb := &Box{V: b.V, Epoch: st.epoch}
		st.heap[o.ID] = nb
		return nb
	}
	return b
}

// freeze deep-copies aggregates so that the result is immutable (Epoch -1).
func freeze(v Value) Value {
	switch x := v.(type) {
	case *Agg:
		n := &Agg{Elems: make([]Value, len(x.Elems)), Epoch: -1}
		for i, e := range x.Elems {
			n.Elems[i] = freeze(e)
		}
		return n
	case Tuple:
		n := make(Tuple, len(x))
		for i, e := range x {
			n[i] = freeze(e)
		}
		return n
	}
	return v
}

// thaw deep-copies aggregates giving them the given epoch (for storing into the heap).
func thaw(v Value, epoch int) Value {
	switch x := v.(type) {
	case *Agg:
		n := &Agg{Elems: make([]Value, len(x.Elems)), Epoch: epoch}
		for i, e := range x.Elems {
			n.Elems[i] = thaw(e, epoch)
		}
		return n
	}
	return v
}

// loadAt reads the value at path inside v.
func (e *Engine) loadAt(v Value, path []PathElem) Value {
	if len(path) == 0 {
		return v
	}
	if p, ok := isPoison(v); ok {
		return p
	}
	if sp, ok := v.(*SparseArr); ok {
		idx := e.pathTerm(path[0])
		res := e.loadAt(sp.Default, path[1:])
		for _, s0 := range sp.Stores {
			m, ok := e.mergeValues(e.tt.Eq(idx, s0.Idx), e.loadAt(s0.Val, path[1:]), res)
			if !ok {
				return Poison{"sparse array over non-mergeable elements"}
			}
			res = m
		}
		return res
	}
	a, ok := v.(*Agg)
	if !ok {
		return Poison{"load through non-aggregate " + describe(v)}
	}
	pe := path[0]
	if pe.Sym == nil {
		if pe.Idx < 0 || pe.Idx >= len(a.Elems) {
			return Poison{"load index out of range"}
		}
		return e.loadAt(a.Elems[pe.Idx], path[1:])
	}
	if pe.Sym.IsConst() {
		i := int(pe.Sym.Val)
		if i < 0 || i >= len(a.Elems) {
			return Poison{"load index out of range"}
		}
		return e.loadAt(a.Elems[i], path[1:])
	}
	n := len(a.Elems)
	if n == 0 {
		return Poison{"load from empty array"}
	}
	lo, hi := 0, n-1
	if pe.Sym.Lo > uint64(lo) && pe.Sym.Lo < uint64(n) {
		lo = int(pe.Sym.Lo)
	}
	if pe.Sym.Hi < uint64(hi) {
		hi = int(pe.Sym.Hi)
	}
	res := e.loadAt(a.Elems[hi], path[1:])
	for i := hi - 1; i >= lo; i-- {
		x := e.loadAt(a.Elems[i], path[1:])
		c := e.tt.Eq(pe.Sym, e.tt.Const(64, uint64(i)))
		m, ok := e.mergeValues(c, x, res)
		if !ok {
			return Poison{"symbolic index over non-mergeable elements"}
		}
		res = m
	}
	return res
}

// storeAt writes nv at path inside v (owned by epoch), guarded by guard (may be nil = true).
func (e *Engine) storeAt(v Value, path []PathElem, nv Value, guard *Term, epoch int) Value {
	if len(path) == 0 {
		nv = thaw(nv, epoch)
		if guard == nil || guard == e.tt.True {
			return nv
		}
		m, ok := e.mergeValues(guard, nv, v)
		if !ok {
			return Poison{"conditional store of non-mergeable values"}
		}
		return m
	}
	if _, ok := isPoison(v); ok {
		return v
	}
	if sp, ok := v.(*SparseArr); ok {
		idx := e.pathTerm(path[0])
		old := e.loadAt(sp, path[:1])
		nvv := e.storeAt(old, path[1:], nv, guard, epoch)
		n := &SparseArr{Default: sp.Default, Stores: append(sp.Stores[:len(sp.Stores):len(sp.Stores)], SparseStore{Idx: idx, Val: nvv})}
		return n
	}
	a, ok := v.(*Agg)
	if !ok {
		return Poison{"store through non-aggregate " + describe(v)}
	}
	if a.Epoch != epoch {
		a = &Agg{Elems: append([]Value(nil), a.Elems...), Epoch: epoch}
	}
	pe := path[0]
	if pe.Sym != nil && pe.Sym.IsConst() {
		pe = PathElem{Idx: int(pe.Sym.Val)}
	}
	if pe.Sym == nil {
		if pe.Idx < 0 || pe.Idx >= len(a.Elems) {
			return Poison{"store index out of range"}
		}
		a.Elems[pe.Idx] = e.storeAt(a.Elems[pe.Idx], path[1:], nv, guard, epoch)
		return a
	}
	n := len(a.Elems)
	lo, hi := 0, n-1
	if pe.Sym.Lo < uint64(n) {
		lo = int(pe.Sym.Lo)
	}
	if pe.Sym.Hi < uint64(hi) {
		hi = int(pe.Sym.Hi)
	}
	for i := lo; i <= hi; i++ {
		c := e.tt.Eq(pe.Sym, e.tt.Const(64, uint64(i)))
		if guard != nil {
			c = e.tt.BAnd(guard, c)
		}
		a.Elems[i] = e.storeAt(a.Elems[i], path[1:], nv, c, epoch)
	}
	return a
}

func (e *Engine) load(st *State, p Pointer) Value {
	b := st.box(p.Obj)
	if b == nil {
		return Poison{"load from unknown object " + p.Obj.Name}
	}
	return freeze(e.loadAt(b.V, p.Path))
}

func (e *Engine) store(st *State, p Pointer, v Value) {
	b := st.ownBox(p.Obj)
	if b == nil {
		return
	}
	b.V = e.storeAt(b.V, p.Path, v, nil, st.epoch)
}

// ---- value merging -----------------------------------------------------------

func samePath(a, b []PathElem) bool {
	if len(a) != len(b) {
		return false
	}
	for i := range a {
		if a[i].Sym != b[i].Sym || a[i].Idx != b[i].Idx {
			return false
		}
	}
	return true
}

func (e *Engine) pathTerm(pe PathElem) *Term {
	if pe.Sym != nil {
		return pe.Sym
	}
	return e.tt.Const(64, uint64(pe.Idx))
}

// mergePaths merges two paths of equal length; steps that differ become symbolic.
func (e *Engine) mergePaths(c *Term, a, b []PathElem) ([]PathElem, bool) {
	if len(a) != len(b) {
		return nil, false
	}
	if samePath(a, b) {
		return a, true
	}
	out := make([]PathElem, len(a))
	for i := range a {
		if a[i].Sym == b[i].Sym && a[i].Idx == b[i].Idx {
			out[i] = a[i]
			continue
		}
		// NOTE: only valid for array steps; struct field steps that differ cannot merge,
		// but we cannot tell here; callers only produce differing steps for arrays/slices.
		out[i] = PathElem{Sym: e.tt.Ite(c, e.pathTerm(a[i]), e.pathTerm(b[i]))}
	}
	return out, true
}

// mergeValues builds ite(c, a, b) structurally.
func (e *Engine) mergeValues(c *Term, a, b Value) (Value, bool) {
	if c == e.tt.True {
		return a, true
	}
	if c == e.tt.False {
		return b, true
	}
	switch x := a.(type) {
	case nil:
		if b == nil {
			return nil, true
		}
		return nil, false
	case *Term:
		y, ok := b.(*Term)
		if !ok || x.W != y.W {
			if _, p := isPoison(b); p {
				return b, true
			}
			return nil, false
		}
		return e.tt.Ite(c, x, y), true
	case Float:
		y, ok := b.(Float)
		return a, ok && x.F == y.F
	case *Agg:
		y, ok := b.(*Agg)
		if !ok || len(x.Elems) != len(y.Elems) {
			return nil, false
		}
		if x == y {
			return x, true
		}
		var n *Agg
		for i := range x.Elems {
			if ptrEq(x.Elems[i], y.Elems[i]) {
				continue
			}
			m, ok := e.mergeValues(c, x.Elems[i], y.Elems[i])
			if !ok {
				return nil, false
			}
			if n == nil {
				n = &Agg{Elems: append([]Value(nil), x.Elems...), Epoch: -1}
			}
			n.Elems[i] = m
		}
		if n == nil {
			return x, true
		}
		return n, true
	case Pointer:
		y, ok := b.(Pointer)
		if !ok {
			return nil, false
		}
		if x.Obj != y.Obj {
			if !samePath(x.Path, y.Path) || !e.unify(x.Obj, y.Obj) {
				return nil, false
			}
			return x, true
		}
		if x.Obj == nil {
			return x, true
		}
		if samePath(x.Path, y.Path) {
			return x, true
		}
		// only merge when the differing steps are array indices: require both to be
		// symbolic or both index into same-length paths; conservative: refuse if any
		// differing step is concrete on both sides and small struct-like. We cannot see
		// types here, so refuse unless at least one side is symbolic at each differing step.
		for i := range x.Path {
			if i >= len(y.Path) {
				return nil, false
			}
			if x.Path[i] != y.Path[i] && x.Path[i].Sym == nil && y.Path[i].Sym == nil {
				return nil, false
			}
		}
		p, ok := e.mergePaths(c, x.Path, y.Path)
		if !ok {
			return nil, false
		}
		return Pointer{Obj: x.Obj, Path: p}, true
	case Slice:
		y, ok := b.(Slice)
		if !ok || !samePath(x.Base, y.Base) {
			return nil, false
		}
		if x.Obj != y.Obj && !e.unify(x.Obj, y.Obj) {
			return nil, false
		}
		if x.Obj == nil {
			return x, true
		}
		return Slice{Obj: x.Obj, Base: x.Base, Off: e.tt.Ite(c, x.Off, y.Off), Len: e.tt.Ite(c, x.Len, y.Len), Cap: e.tt.Ite(c, x.Cap, y.Cap)}, true
	case Str:
		y, ok := b.(Str)
		if !ok {
			return nil, false
		}
		if x.Conc && y.Conc {
			if x.S == y.S {
				return x, true
			}
			return nil, false
		}
		if !x.Conc && !y.Conc && samePath(x.Base, y.Base) && (x.Obj == y.Obj || e.unify(x.Obj, y.Obj)) {
			return Str{Obj: x.Obj, Base: x.Base, Off: e.tt.Ite(c, x.Off, y.Off), Len: e.tt.Ite(c, x.Len, y.Len)}, true
		}
		return nil, false
	case Iface:
		y, ok := b.(Iface)
		if !ok {
			return nil, false
		}
		if x.Typ == nil && y.Typ == nil {
			return x, true
		}
		if x.Typ == nil || y.Typ == nil || !types.Identical(x.Typ, y.Typ) {
			return nil, false
		}
		m, ok := e.mergeValues(c, x.Val, y.Val)
		if !ok {
			return nil, false
		}
		return Iface{Typ: x.Typ, Val: m}, true
	case *Closure:
		y, ok := b.(*Closure)
		if !ok {
			return nil, false
		}
		if x == y {
			return x, true
		}
		if x == nil || y == nil {
			return nil, false
		}
		if x.Fn != y.Fn || x.Builtin != y.Builtin || x.HasRecv != y.HasRecv || len(x.Bindings) != len(y.Bindings) {
			return nil, false
		}
		n := &Closure{Fn: x.Fn, Builtin: x.Builtin, HasRecv: x.HasRecv, Bindings: make([]Value, len(x.Bindings))}
		for i := range x.Bindings {
			m, ok := e.mergeValues(c, x.Bindings[i], y.Bindings[i])
			if !ok {
				return nil, false
			}
			n.Bindings[i] = m
		}
		if x.HasRecv {
			m, ok := e.mergeValues(c, x.Recv, y.Recv)
			if !ok {
				return nil, false
			}
			n.Recv = m
		}
		return n, true
	case MapRef:
		y, ok := b.(MapRef)
		return a, ok && (x.Obj == y.Obj || e.unify(x.Obj, y.Obj))
	case Tuple:
		y, ok := b.(Tuple)
		if !ok || len(x) != len(y) {
			return nil, false
		}
		n := make(Tuple, len(x))
		for i := range x {
			m, ok := e.mergeValues(c, x[i], y[i])
			if !ok {
				return nil, false
			}
			n[i] = m
		}
		return n, true
	case Opaque:
		y, ok := b.(Opaque)
		return a, ok && x.Kind == y.Kind && ptrEq(x.V, y.V)
	case Poison:
		return x, true
	case *SparseArr:
		y, ok := b.(*SparseArr)
		if !ok {
			return nil, false
		}
		if x == y {
			return x, true
		}
		// same history prefix: merge the differing tails as guarded stores
		k := 0
		for k < len(x.Stores) && k < len(y.Stores) && x.Stores[k].Idx == y.Stores[k].Idx && ptrEq(x.Stores[k].Val, y.Stores[k].Val) {
			k++
		}
		n := &SparseArr{Default: x.Default, Stores: append([]SparseStore(nil), x.Stores[:k]...)}
		cur := Value(&SparseArr{Default: x.Default, Stores: n.Stores})
		_ = cur
		for _, s0 := range y.Stores[k:] {
			old := e.loadAt(&SparseArr{Default: n.Default, Stores: n.Stores}, []PathElem{{Sym: s0.Idx}})
			m, ok := e.mergeValues(c, old, s0.Val)
			if !ok {
				return nil, false
			}
			n.Stores = append(n.Stores, SparseStore{Idx: s0.Idx, Val: m})
		}
		for _, s0 := range x.Stores[k:] {
			old := e.loadAt(&SparseArr{Default: n.Default, Stores: n.Stores}, []PathElem{{Sym: s0.Idx}})
			m, ok := e.mergeValues(c, s0.Val, old)
			if !ok {
				return nil, false
			}
			n.Stores = append(n.Stores, SparseStore{Idx: s0.Idx, Val: m})
		}
		return n, true
	case *MapObj:
		y, ok := b.(*MapObj)
		if !ok || len(x.Entries) != len(y.Entries) {
			return nil, false
		}
		if x == y {
			return x, true
		}
		n := &MapObj{Entries: make([]MapEntry, len(x.Entries)), Epoch: -1}
		for i := range x.Entries {
			if !e.identical(x.Entries[i].Key, y.Entries[i].Key) {
				return nil, false
			}
			m, ok := e.mergeValues(c, x.Entries[i].Val, y.Entries[i].Val)
			if !ok {
				return nil, false
			}
			n.Entries[i] = MapEntry{Key: x.Entries[i].Key, Val: m, Present: e.tt.Ite(c, x.Entries[i].Present, y.Entries[i].Present)}
		}
		return n, true
	case ErrVal:
		y, ok := b.(ErrVal)
		if !ok || x.Msg != y.Msg {
			return nil, false
		}
		if x.Wrapped == nil && y.Wrapped == nil {
			return x, true
		}
		return nil, false
	}
	if _, p := isPoison(b); p {
		return b, true
	}
	return nil, false
}

// identical reports syntactic identity of two values (same terms, same objects).
func (e *Engine) identical(a, b Value) bool {
	switch x := a.(type) {
	case *Term:
		y, ok := b.(*Term)
		return ok && x == y
	case Str:
		y, ok := b.(Str)
		if !ok {
			return false
		}
		if x.Conc && y.Conc {
			return x.S == y.S
		}
		return !x.Conc && !y.Conc && x.Obj == y.Obj && x.Off == y.Off && x.Len == y.Len && samePath(x.Base, y.Base)
	case *Agg:
		y, ok := b.(*Agg)
		if !ok || len(x.Elems) != len(y.Elems) {
			return false
		}
		for i := range x.Elems {
			if !e.identical(x.Elems[i], y.Elems[i]) {
				return false
			}
		}
		return true
	case Pointer:
		y, ok := b.(Pointer)
		return ok && x.Obj == y.Obj && samePath(x.Path, y.Path)
	case Iface:
		y, ok := b.(Iface)
		if !ok {
			return false
		}
		if x.Typ == nil || y.Typ == nil {
			return x.Typ == nil && y.Typ == nil
		}
		return types.Identical(x.Typ, y.Typ) && e.identical(x.Val, y.Val)
	case Float:
		y, ok := b.(Float)
		return ok && x == y
	case nil:
		return b == nil
	}
	return false
}

// mergeStates merges states that arrived at the same program point. All states share
// the pc prefix of length base. Returns merged states (possibly several when
// aggregates are not compatible).
func (e *Engine) mergeStates(sts []*State, base int) []*State {
	if len(sts) <= 1 {
		return sts
	}
	var out []*State
	rest := sts
	for len(rest) > 0 {
		acc := rest[0]
		var remaining []*State
		for _, s := range rest[1:] {
			if m := e.merge2(acc, s, base); m != nil {
				acc = m
			} else {
				remaining = append(remaining, s)
			}
		}
		out = append(out, acc)
		rest = remaining
	}
	return out
}

func (e *Engine) guardOf(s *State, base int) *Term {
	return e.tt.BAnd(s.pc[base:]...)
}

// merge2 merges b into a (value = ite(guard(a), a, b)); returns nil if incompatible.
func (e *Engine) merge2(a, b *State, base int) *State {
	n, why := e.merge2x(a, b, base)
	if n == nil && e.mergeFailLog != nil {
		e.mergeFailLog(why)
	}
	return n
}

func (e *Engine) merge2x(a, b *State, base int) (*State, string) {
	why := "shape"
	if a.status != b.status || len(a.frames) != len(b.frames) || a.noPanic != b.noPanic {
		return nil, why
	}
	if len(a.nondetLog) != len(b.nondetLog) {
		return nil, why
	}
	for i := range a.frames {
		fa, fb := a.frames[i], b.frames[i]
		if fa.fn != fb.fn || fa.block != fb.block || fa.ip != fb.ip || len(fa.defers) != len(fb.defers) {
			return nil, why
		}
	}
	ga := e.guardOf(a, base)
	gb := e.guardOf(b, base)
	if ga == e.tt.False {
		return b, ""
	}
	if gb == e.tt.False {
		return a, ""
	}
	n := e.fork(a)
	e.stats.States-- // merging does not add a state
	mc := &mergeCtx{a: a, b: b, uni: map[*Obj]*Obj{}, rev: map[*Obj]*Obj{}}
	e.mctx = mc
	defer func() { e.mctx = nil }()
	// registers: only the top frame can differ (SSA registers of suspended frames are immutable)
	for i := range a.frames {
		fa, fb, fn := a.frames[i], b.frames[i], n.frames[i]
		if i != len(a.frames)-1 || a.status == stReturned {
			continue
		}
		for r := range fa.regs {
			va, vb := fa.regs[r], fb.regs[r]
			if va == nil || vb == nil {
				// register not defined on one side: it cannot be live here
				if va == nil {
					fn.regs[r] = vb
				}
				continue
			}
			if ta, ok := va.(*Term); ok {
				if tb, ok := vb.(*Term); ok && ta == tb {
					continue
				}
			}
			m, ok := e.mergeValues(ga, va, vb)
			if !ok {
				why = fmt.Sprintf("register %d of %s: %s vs %s", r, fa.fn.Name(), describe(va), describe(vb))
				if !fa.info.liveAt(fa.block, r) {
					fn.regs[r] = Poison{"dead register after merge"}
					continue
				}
				return nil, why
			}
			fn.regs[r] = m
		}
		for k, v := range fb.visits {
			if v > fn.visits[k] {
				fn.visits[k] = v
			}
		}
		for k, v := range fb.symIters {
			if v > fn.symIters[k] {
				fn.symIters[k] = v
			}
		}
		for d := range fa.defers {
			da, db := fa.defers[d], fb.defers[d]
			m, ok := e.mergeValues(ga, da.fn, db.fn)
			if !ok {
				return nil, why
			}
			nd := deferred{fn: m, call: da.call, args: make([]Value, len(da.args))}
			if len(da.args) != len(db.args) {
				return nil, why
			}
			for j := range da.args {
				mv, ok := e.mergeValues(ga, da.args[j], db.args[j])
				if !ok {
					return nil, why
				}
				nd.args[j] = mv
			}
			fn.defers[d] = nd
		}
	}
	// return values
	if a.status == stReturned {
		m, ok := e.mergeValues(ga, a.ret, b.ret)
		why = "return values: " + describe(a.ret) + " vs " + describe(b.ret)
		if !ok {
			return nil, why
		}
		n.ret = m
	}
	// heap: objects dirty on either side
	for id := range a.dirty {
		n.dirty[id] = struct{}{}
	}
	for id := range b.dirty {
		n.dirty[id] = struct{}{}
	}
	for id := range n.dirty {
		ba, bb := a.heap[id], b.heap[id]
		switch {
		case ba == nil && bb == nil:
		case ba == nil:
			n.heap[id] = bb
		case bb == nil:
			n.heap[id] = ba
		case ba == bb || ptrEq(ba.V, bb.V):
			n.heap[id] = ba
		default:
			m, ok := e.mergeValues(ga, ba.V, bb.V)
			why = fmt.Sprintf("heap object %d: %s vs %s", id, describe(ba.V), describe(bb.V))
			if !ok {
				return nil, why
			}
			n.heap[id] = &Box{V: m, Epoch: -1}
		}
	}
	// contents of unified objects (may unify further objects)
	for i := 0; i < len(mc.pending); i++ {
		x, y := mc.pending[i][0], mc.pending[i][1]
		ba, bb := a.heap[x.ID], b.heap[y.ID]
		m, ok := e.mergeValues(ga, ba.V, bb.V)
		why = fmt.Sprintf("unified objects %d/%d: %s vs %s", x.ID, y.ID, describe(ba.V), describe(bb.V))
		if !ok {
			return nil, why
		}
		n.heap[x.ID] = &Box{V: m, Epoch: -1}
		n.dirty[x.ID] = struct{}{}
	}
	dropped := map[int]bool{}
	for y := range mc.uni {
		dropped[y.ID] = true
		delete(n.heap, y.ID)
		delete(n.dirty, y.ID)
	}
	// objects that exist only in b are carried over, with references to unified objects renamed
	for id, bx := range b.heap {
		if dropped[id] {
			continue
		}
		if _, ok := a.heap[id]; !ok {
			if len(mc.uni) > 0 {
				n.heap[id] = &Box{V: e.rewriteRefs(bx.V, mc.uni), Epoch: -1}
			} else {
				n.heap[id] = bx
			}
		}
	}
	if len(mc.uni) > 0 {
		// merged values built from b's side may still mention b's objects
		for id := range n.dirty {
			if bx := n.heap[id]; bx != nil {
				r := e.rewriteRefs(bx.V, mc.uni)
				if !ptrEq(r, bx.V) {
					n.heap[id] = &Box{V: r, Epoch: -1}
				}
			}
		}
		if len(n.frames) > 0 {
			top := n.frames[len(n.frames)-1]
			for r := range top.regs {
				if top.regs[r] != nil {
					top.regs[r] = e.rewriteRefs(top.regs[r], mc.uni)
				}
			}
		}
		if n.ret != nil {
			n.ret = e.rewriteRefs(n.ret, mc.uni)
		}
	}
	// path condition
	n.pc = append(append([]*Term(nil), a.pc[:base]...), e.tt.BOr(ga, gb))
	if b.steps > n.steps {
		n.steps = b.steps
	}
	e.stats.Merges++
	return n, ""
}

// ptrEq reports reference identity for reference-like values, and false otherwise
// (never panics on uncomparable dynamic types).
func ptrEq(a, b Value) bool {
	switch x := a.(type) {
	case *Term:
		y, ok := b.(*Term)
		return ok && x == y
	case *Agg:
		y, ok := b.(*Agg)
		return ok && x == y
	case *Closure:
		y, ok := b.(*Closure)
		return ok && x == y
	case *MapObj:
		y, ok := b.(*MapObj)
		return ok && x == y
	case *SparseArr:
		y, ok := b.(*SparseArr)
		return ok && x == y
	case nil:
		return b == nil
	case string:
		y, ok := b.(string)
		return ok && x == y
	}
	return false
}

// mergeCtx is active while two states are merged: objects allocated in only one of the two
// arms since their common ancestor may be unified (B's object is renamed to A's), which lets
// states that return freshly allocated structures (parsers!) merge instead of forking.
type mergeCtx struct {
	a, b    *State
	uni     map[*Obj]*Obj // object of b -> object of a
	rev     map[*Obj]*Obj
	pending [][2]*Obj
}

// unify tries to identify y (object of state b) with x (object of state a).
func (e *Engine) unify(x, y *Obj) bool {
	mc := e.mctx
	if mc == nil || x == nil || y == nil {
		return false
	}
	if t, ok := mc.uni[y]; ok {
		return t == x
	}
	if _, ok := mc.rev[x]; ok {
		return false
	}
	// both must be local to their arm
	if _, inB := mc.b.heap[x.ID]; inB {
		return false
	}
	if _, inA := mc.a.heap[y.ID]; inA {
		return false
	}
	if e.baseHeap[x.ID] != nil || e.baseHeap[y.ID] != nil {
		return false
	}
	ba, bb := mc.a.heap[x.ID], mc.b.heap[y.ID]
	if ba == nil || bb == nil {
		return false
	}
	if (x.Typ == nil) != (y.Typ == nil) || (x.Typ != nil && !types.Identical(x.Typ, y.Typ)) {
		return false
	}
	mc.uni[y] = x
	mc.rev[x] = y
	mc.pending = append(mc.pending, [2]*Obj{x, y})
	return true
}

// rewriteRefs replaces references to unified objects of b inside v.
func (e *Engine) rewriteRefs(v Value, uni map[*Obj]*Obj) Value {
	if len(uni) == 0 {
		return v
	}
	switch x := v.(type) {
	case Pointer:
		if t, ok := uni[x.Obj]; ok {
			return Pointer{Obj: t, Path: x.Path}
		}
	case Slice:
		if t, ok := uni[x.Obj]; ok {
			x.Obj = t
			return x
		}
	case Str:
		if !x.Conc {
			if t, ok := uni[x.Obj]; ok {
				x.Obj = t
				return x
			}
		}
	case MapRef:
		if t, ok := uni[x.Obj]; ok {
			return MapRef{Obj: t}
		}
	case Iface:
		if x.Typ != nil {
			return Iface{Typ: x.Typ, Val: e.rewriteRefs(x.Val, uni)}
		}
	case *Agg:
		var n *Agg
		for i, el := range x.Elems {
			r := e.rewriteRefs(el, uni)
			if !ptrEq(r, el) {
				switch r.(type) {
				case *Term:
				default:
					if n == nil {
						n = &Agg{Elems: append([]Value(nil), x.Elems...), Epoch: -1}
					}
					n.Elems[i] = r
				}
			}
		}
		if n != nil {
			return n
		}
	case Tuple:
		n := make(Tuple, len(x))
		for i := range x {
			n[i] = e.rewriteRefs(x[i], uni)
		}
		return n
	case *MapObj:
		n := &MapObj{Entries: make([]MapEntry, len(x.Entries)), Epoch: -1}
		for i, en := range x.Entries {
			n.Entries[i] = MapEntry{Key: e.rewriteRefs(en.Key, uni), Val: e.rewriteRefs(en.Val, uni), Present: en.Present}
		}
		return n
	case *Closure:
		if x != nil && len(x.Bindings) > 0 {
			n := *x
			n.Bindings = make([]Value, len(x.Bindings))
			for i := range x.Bindings {
				n.Bindings[i] = e.rewriteRefs(x.Bindings[i], uni)
			}
			if x.HasRecv {
				n.Recv = e.rewriteRefs(x.Recv, uni)
			}
			return &n
		}
	}
	return v
}

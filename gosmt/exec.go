package gosmt

import (
	"time"
	"fmt"
	"go/token"
	"go/types"
	"strings"

	"golang.org/x/tools/go/ssa"
)

// reg reads the value of an SSA value in the top frame.
func (e *Engine) reg(st *State, f *Frame, v ssa.Value) Value {
	switch x := v.(type) {
	case *ssa.Const:
		return e.constValue(x)
	case *ssa.Global:
		return Pointer{Obj: e.globalObj(x)}
	case *ssa.Function:
		return &Closure{Fn: x}
	case *ssa.Builtin:
		return &Closure{Builtin: x.Name()}
	}
	if i, ok := f.info.regIndex[v]; ok {
		r := f.regs[i]
		if r == nil {
			// nil Value is a legal value for untyped nil only; treat missing as poison
			return Poison{"undefined register " + v.Name()}
		}
		return r
	}
	return Poison{"unknown value " + v.Name()}
}

func (e *Engine) setReg(f *Frame, v ssa.Value, val Value) {
	if val == nil {
		val = e.zero(v.Type())
	}
	f.regs[f.info.regIndex[v]] = val
}

func (e *Engine) pushFrame(st *State, fn *ssa.Function, args []Value, bindings []Value) *Frame {
	fi := e.info(fn)
	f := &Frame{fn: fn, info: fi, regs: make([]Value, fi.nregs), block: fn.Blocks[0], visits: map[int]int{0: 1}, symIters: map[int]int{}}
	for i := range fn.Params {
		if i < len(args) {
			f.regs[i] = args[i]
		}
	}
	for i := range fn.FreeVars {
		if i < len(bindings) {
			f.regs[len(fn.Params)+i] = bindings[i]
		}
	}
	st.frames = append(st.frames, f)
	st.depth++
	return f
}

// transfer moves the top frame along the edge from its current block to `to`,
// evaluating phis. Returns false if the unwinding bound was exceeded (path ended).
func (e *Engine) transfer(st *State, to *ssa.BasicBlock) bool {
	f := st.top()
	from := f.block
	f.visits[to.Index]++
	if st.noPanic && e.maxLoop > 0 && f.info.inLoop[to.Index] && !inHarnessSupport(to.Instrs[0]) &&
		(f.visits[to.Index] > concreteLoopLimit || (f.visits[to.Index] > 3000 && f.visits[to.Index]&0xff == 0 && time.Since(e.started) > 100*time.Second)) {
		// (a loop still turning after 100 s and thousands of iterations is treated like one beyond the
		// iteration limit: the verdict needs the native replay to hang as well)
		// a loop of the code under test that keeps going with concrete conditions
		e.prove(st, "loop", fmt.Sprintf("loop terminates (more than %d iterations)", concreteLoopLimit), e.tt.False, to.Instrs[0], "", nil)
		return false
	}
	// phis
	var idx = -1
	for i, p := range to.Preds {
		if p == from {
			idx = i
			break
		}
	}
	var vals []Value
	n := 0
	for _, ins := range to.Instrs {
		phi, ok := ins.(*ssa.Phi)
		if !ok {
			break
		}
		vals = append(vals, e.reg(st, f, phi.Edges[idx]))
		n++
	}
	for i := 0; i < n; i++ {
		e.setReg(f, to.Instrs[i].(*ssa.Phi), vals[i])
	}
	f.prev = from
	f.block = to
	f.ip = n
	return true
}

func (e *Engine) unwindFor(fn *ssa.Function) int {
	return e.opts.Unwind
}

// run executes st until the top frame (at depth `depth`) reaches stop or returns.
func (e *Engine) run(st *State, stop *ssa.BasicBlock, depth int) []*State {
	var results []*State
	for {
		f := st.top()
		if f.ip >= len(f.block.Instrs) {
			e.abort("fell off block end in " + f.fn.String())
		}
		ins := f.block.Instrs[f.ip]
		e.curIns = ins
		e.stats.Steps++
		if e.stats.Steps > e.opts.MaxSteps {
			e.abort(fmt.Sprintf("step budget (%d) exceeded", e.opts.MaxSteps))
		}
		if e.stats.Steps&0x3ff == 0 {
			publishSize(e)
			if memCritical.Load() || (memPressure.Load() && isBigConsumer(e)) {
				e.abort("memory budget exceeded (process heap above GOSMT_MEM_GB)")
			}
		}
		if e.stats.Steps&0xffff == 0 && !e.opts.Deadline.IsZero() && time.Now().After(e.opts.Deadline) {
			e.abort("deadline exceeded")
		}
		if e.trace {
			fmt.Printf("  [%d] %s: %v\n", len(st.frames), f.fn.Name(), ins)
		}
		switch ins := ins.(type) {
		case *ssa.Jump:
			to := f.block.Succs[0]
			if !e.transfer(st, to) {
				return results
			}
			if to == stop {
				st.status = stAtStop
				return append(results, st)
			}
			continue
		case *ssa.If:
			cv := e.reg(st, f, ins.Cond)
			c, ok := cv.(*Term)
			if !ok {
				e.cutPath(st, "branch on "+describe(cv), ins)
				return results
			}
			tb, fb := f.block.Succs[0], f.block.Succs[1]
			if c.IsConst() {
				to := tb
				if c == e.tt.False {
					to = fb
				}
				if !e.transfer(st, to) {
					return results
				}
				if to == stop {
					st.status = stAtStop
					return append(results, st)
				}
				continue
			}
			feasT, feasF := true, true
			if f.info.exitIf[f.block.Index] {
				f.symIters[f.block.Index]++
			}
			if e.maxLoop > 0 && st.noPanic && f.symIters[f.block.Index] > e.maxLoop && !inHarnessSupport(ins) {
				// declared loop bound exceeded: a violation if this iteration is feasible
				e.prove(st, "loop", fmt.Sprintf("loop bounded by %d iterations", e.maxLoop), e.tt.False, ins, "", nil)
				return results
			}
			if f.symIters[f.block.Index] > e.opts.Unwind {
				// unwinding assertion: is another iteration still possible?
				if e.feasible(st, nil) {
					e.Cuts["unwind bound hit @ "+e.pos(ins)]++
					e.Obligations = append(e.Obligations, &Obligation{Kind: "unwind", Label: "loop unwinding bound", Pos: e.pos(ins),
						Verdict: "inconclusive", Detail: fmt.Sprintf("bound %d", e.opts.Unwind)})
				}
				return results
			}
			if checkIter(f.symIters[f.block.Index]) || e.alwaysCheck(st) {
				feasT = e.feasible(st, c)
				if feasT {
					feasF = e.feasible(st, e.tt.BNot(c))
				}
			}
			if !feasT && !feasF {
				return results
			}
			if !feasT || !feasF {
				to := tb
				if feasT {
					st.assume(c)
				} else {
					st.assume(e.tt.BNot(c))
					to = fb
				}
				if !e.transfer(st, to) {
					return results
				}
				if to == stop {
					st.status = stAtStop
					return append(results, st)
				}
				continue
			}
			// both arms: find join
			var J *ssa.BasicBlock
			if j := f.info.ipdom[f.block.Index]; j >= 0 {
				J = f.fn.Blocks[j]
			}
			armStop := J
			if J == nil {
				armStop = stop
			}
			base := len(st.pc)
			a, b := e.split(st)
			a.assume(c)
			b.assume(e.tt.BNot(c))
			var arrived []*State
			for k, ch := range []*State{a, b} {
				to := tb
				if k == 1 {
					to = fb
				}
				if !e.transfer(ch, to) {
					continue
				}
				var outs []*State
				if to == armStop {
					ch.status = stAtStop
					outs = []*State{ch}
				} else {
					outs = e.run(ch, armStop, depth)
				}
				for _, o := range outs {
					if o.status == stAtStop && armStop != nil && (J != nil) && armStop != stop {
						arrived = append(arrived, o)
					} else {
						results = append(results, o)
					}
				}
			}
			if J == nil || armStop == stop {
				// everything already propagated to the outer level
				return results
			}
			merged := e.mergeStates(arrived, base)
			if len(merged) > 1 {
				// drop infeasible leftovers
				var keep []*State
				for _, m := range merged {
					if e.feasible(m, nil) {
						keep = append(keep, m)
					}
				}
				merged = keep
			}
			if len(merged) == 0 {
				return results
			}
			for _, m := range merged[1:] {
				m.status = stRunning
				results = append(results, e.run(m, stop, depth)...)
			}
			st = merged[0]
			st.status = stRunning
			continue
		case *ssa.Return:
			var rv Value
			switch len(ins.Results) {
			case 0:
				rv = Tuple{}
			case 1:
				rv = e.reg(st, f, ins.Results[0])
			default:
				tu := make(Tuple, len(ins.Results))
				for i, r := range ins.Results {
					tu[i] = e.reg(st, f, r)
				}
				rv = tu
			}
			st.frames = st.frames[:len(st.frames)-1]
			st.depth--
			st.status = stReturned
			st.ret = rv
			return append(results, st)
		case *ssa.Panic:
			v := e.reg(st, f, ins.X)
			e.panicPath(st, "explicit panic: "+e.panicText(st, v), ins)
			return results
		case *ssa.Call:
			outs := e.doCall(st, f, ins, &ins.Call)
			if len(outs) == 0 {
				return results
			}
			for _, o := range outs {
				of := o.top()
				e.setReg(of, ins, o.ret)
				o.ret = nil
				o.status = stRunning
				of.ip++
			}
			for _, o := range outs[1:] {
				results = append(results, e.run(o, stop, depth)...)
			}
			st = outs[0]
			continue
		case *ssa.Defer:
			fv, args := e.callTarget(st, f, &ins.Call)
			f.defers = append(f.defers, deferred{fn: fv, args: args, call: &ins.Call})
		case *ssa.RunDefers:
			if len(f.defers) > 0 {
				outs := e.runDefers(st, f, ins)
				if len(outs) == 0 {
					return results
				}
				for _, o := range outs {
					o.status = stRunning
					o.top().ip++
				}
				for _, o := range outs[1:] {
					results = append(results, e.run(o, stop, depth)...)
				}
				st = outs[0]
				continue
			}
		case *ssa.Go:
			e.cutPath(st, "unsupported: go statement", ins)
			return results
		case *ssa.Select, *ssa.Send:
			e.cutPath(st, "unsupported: channel operation", ins)
			return results
		default:
			if !e.step(st, f, ins) {
				return results
			}
		}
		f = st.top()
		f.ip++
	}
}

func (e *Engine) alwaysCheck(st *State) bool { return false }

func (e *Engine) panicText(st *State, v Value) string {
	if i, ok := v.(Iface); ok {
		if s, ok := i.Val.(Str); ok && s.Conc {
			return s.S
		}
		if i.Typ != nil {
			return i.Typ.String()
		}
	}
	return "?"
}

func (e *Engine) runDefers(st *State, f *Frame, ins ssa.Instruction) []*State {
	cur := []*State{st}
	for {
		var next []*State
		progressed := false
		for _, s := range cur {
			sf := s.top()
			if len(sf.defers) == 0 {
				next = append(next, s)
				continue
			}
			progressed = true
			d := sf.defers[len(sf.defers)-1]
			sf.defers = sf.defers[:len(sf.defers)-1]
			outs := e.invoke(s, d.fn, d.args, d.call, ins)
			next = append(next, outs...)
		}
		cur = next
		if !progressed {
			return cur
		}
	}
}

// callTarget evaluates the function value and arguments of a call.
func (e *Engine) callTarget(st *State, f *Frame, cc *ssa.CallCommon) (Value, []Value) {
	var args []Value
	var fv Value
	if cc.IsInvoke() {
		recv := e.reg(st, f, cc.Value)
		fv = boundIface{recv: recv, method: cc.Method}
	} else {
		fv = e.reg(st, f, cc.Value)
	}
	for _, a := range cc.Args {
		args = append(args, e.reg(st, f, a))
	}
	return fv, args
}

type boundIface struct {
	recv   Value
	method *types.Func
}

func (e *Engine) doCall(st *State, f *Frame, ins ssa.Instruction, cc *ssa.CallCommon) []*State {
	fv, args := e.callTarget(st, f, cc)
	return e.invoke(st, fv, args, cc, ins)
}

// invoke calls fv with args in st. Returned states have status stReturned, ret set and
// the frame stack as on entry.
func (e *Engine) invoke(st *State, fv Value, args []Value, cc *ssa.CallCommon, ins ssa.Instruction) []*State {
	switch x := fv.(type) {
	case boundIface:
		ifc, ok := x.recv.(Iface)
		if !ok && e.inInit {
			return e.ret(st, Poison{"init-time invoke on " + describe(x.recv)})
		}
		if !ok {
			if _, p := isPoison(x.recv); p {
				e.cutPath(st, "invoke on poison", ins)
				return nil
			}
			e.cutPath(st, "invoke on non-interface "+describe(x.recv), ins)
			return nil
		}
		if ifc.Typ == nil {
			e.panicPath(st, "nil interface method call", ins)
			return nil
		}
		if ifc.Typ == e.errType {
			return e.errValMethod(st, ifc, x.method.Name(), args, ins)
		}
		fn := e.prog.LookupMethod(ifc.Typ, x.method.Pkg(), x.method.Name())
		if fn == nil {
			e.cutPath(st, "no method "+x.method.Name()+" on "+ifc.Typ.String(), ins)
			return nil
		}
		return e.callFunc(st, fn, append([]Value{ifc.Val}, args...), nil, ins)
	case *Closure:
		if x == nil {
			e.panicPath(st, "call of nil func", ins)
			return nil
		}
		if x.Builtin == "reflect.swapper" {
			s := x.Bindings[0].(Slice)
			i, ok1 := args[0].(*Term)
			j, ok2 := args[1].(*Term)
			if !ok1 || !ok2 || s.Obj == nil {
				e.panicPath(st, "reflect.Swapper index", ins)
				return nil
			}
			if !e.boundsCheck(st, e.tt.BAnd(e.tt.ULt(i, s.Len), e.tt.ULt(j, s.Len)), "reflect: slice index out of range", ins) {
				return nil
			}
			pi, pj := e.sliceElemPtr(s, i), e.sliceElemPtr(s, j)
			vi, vj := e.loadPtr(st, pi), e.loadPtr(st, pj)
			e.storePtr(st, pi, vj)
			e.storePtr(st, pj, vi)
			return e.ret(st, Tuple{})
		}
		if x.Builtin != "" {
			return e.callBuiltin(st, x.Builtin, args, cc, ins)
		}
		if x.HasRecv {
			args = append([]Value{x.Recv}, args...)
		}
		return e.callFunc(st, x.Fn, args, x.Bindings, ins)
	case Poison:
		if e.inInit {
			return e.ret(st, x)
		}
		e.cutPath(st, "call of "+x.String(), ins)
		return nil
	}
	e.cutPath(st, "call of "+describe(fv), ins)
	return nil
}

func (e *Engine) ret(st *State, v Value) []*State {
	st.status = stReturned
	st.ret = v
	return []*State{st}
}

func (e *Engine) callFunc(st *State, fn *ssa.Function, args []Value, bindings []Value, ins ssa.Instruction) []*State {
	name := fn.String()
	if fn.Name() == "init" && fn.Pkg != nil && fn.Signature.Recv() == nil && fn.Synthetic != "" {
		if !e.initWanted(fn.Pkg) || len(fn.Blocks) == 0 || len(fn.Blocks[0].Instrs) == 0 {
			return e.ret(st, Tuple{})
		}
	}
	if outs, ok := e.hostRedirect(st, fn, name, args, ins); ok {
		return outs
	}
	if h, ok := intrinsics[name]; ok {
		e.Models[name] = true
		return h(e, st, fn, args, ins)
	}
	if fn.Origin() != nil {
		if h, ok := intrinsics[fn.Origin().String()]; ok {
			e.Models[fn.Origin().String()] = true
			return h(e, st, fn, args, ins)
		}
	}
	if fn.Pkg != nil && strings.HasSuffix(fn.Pkg.Pkg.Path(), "internal/vp") {
		if h, ok := vpIntrinsics[fn.Name()]; ok {
			return h(e, st, fn, args, ins)
		}
	}
	return e.callBody(st, fn, args, bindings, ins)
}

// callBody executes the SSA body of fn (no intrinsic lookup).
func (e *Engine) callBody(st *State, fn *ssa.Function, args []Value, bindings []Value, ins ssa.Instruction) []*State {
	name := fn.String()
	if len(fn.Blocks) == 0 {
		e.Cuts["external function "+name+" returns an unknown value"]++
		return e.ret(st, Poison{"external function " + name})
	}
	if st.depth > e.opts.MaxDepth {
		e.cutPath(st, "call depth bound at "+name, ins)
		return nil
	}
	e.noteFunc(fn)
	base := len(st.pc)
	depth := len(st.frames)
	savedDepth := st.depth
	e.pushFrame(st, fn, args, bindings)
	outs := e.run(st, nil, depth+1)
	if len(outs) == 0 && e.inInit {
		// keep initialising: the callee could not be executed completely
		st.frames = st.frames[:depth]
		st.depth = savedDepth
		return e.ret(st, Poison{"init-time call of " + name + " not executable"})
	}
	var rets []*State
	for _, o := range outs {
		if o.status == stReturned && len(o.frames) == depth {
			rets = append(rets, o)
		}
	}
	merged := e.mergeStates(rets, base)
	if len(merged) > 1 {
		var keep []*State
		for _, m := range merged {
			if e.feasible(m, nil) {
				keep = append(keep, m)
			}
		}
		merged = keep
	}
	return merged
}

func (e *Engine) noteFunc(fn *ssa.Function) {
	if fn.Pkg != nil && strings.HasPrefix(fn.Pkg.Pkg.Path(), "github.com/diskfs/go-diskfs") {
		if !strings.Contains(fn.Pkg.Pkg.Path(), "internal/vp") {
			e.FuncsSeen[fn.String()]++
		}
	} else if fn.Pkg == nil {
		// synthetic wrappers, closures, generic instances
		if p := fn.Parent(); p != nil && p.Pkg != nil && strings.HasPrefix(p.Pkg.Pkg.Path(), "github.com/diskfs/go-diskfs") {
			e.FuncsSeen[fn.String()]++
		}
	}
}

// ---- single-instruction semantics (non-control) -----------------------------------

// step executes ins; returns false when the path ended.
func (e *Engine) step(st *State, f *Frame, ins ssa.Instruction) bool {
	switch ins := ins.(type) {
	case *ssa.DebugRef:
		return true
	case *ssa.Alloc:
		elem := ins.Type().(*types.Pointer).Elem()
		o := e.newObj(st, elem, ins.Comment, e.zero(elem))
		e.setReg(f, ins, Pointer{Obj: o})
	case *ssa.Store:
		addr := e.reg(st, f, ins.Addr)
		p, ok := addr.(Pointer)
		if !ok {
			e.cutPath(st, "store to "+describe(addr), ins)
			return false
		}
		if p.Obj == nil {
			e.panicPath(st, "nil pointer dereference", ins)
			return false
		}
		e.storePtr(st, p, e.reg(st, f, ins.Val))
	case *ssa.UnOp:
		return e.unop(st, f, ins)
	case *ssa.BinOp:
		x, y := e.reg(st, f, ins.X), e.reg(st, f, ins.Y)
		v, ok := e.binop(st, ins.Op, x, y, ins.X.Type(), ins.Y.Type(), ins)
		if !ok {
			return false
		}
		e.setReg(f, ins, v)
	case *ssa.FieldAddr:
		x := e.reg(st, f, ins.X)
		p, ok := x.(Pointer)
		if !ok {
			e.cutPath(st, "fieldaddr of "+describe(x), ins)
			return false
		}
		if p.Obj == nil {
			e.panicPath(st, "nil pointer dereference", ins)
			return false
		}
		e.setReg(f, ins, Pointer{Obj: p.Obj, Path: appendPath(p.Path, PathElem{Idx: ins.Field})})
	case *ssa.Field:
		x := e.reg(st, f, ins.X)
		a, ok := x.(*Agg)
		if !ok {
			e.setReg(f, ins, Poison{"field of " + describe(x)})
			return true
		}
		e.setReg(f, ins, a.Elems[ins.Field])
	case *ssa.IndexAddr:
		return e.indexAddr(st, f, ins)
	case *ssa.Index:
		return e.index(st, f, ins)
	case *ssa.Slice:
		return e.sliceOp(st, f, ins)
	case *ssa.MakeSlice:
		return e.makeSlice(st, f, ins)
	case *ssa.MakeMap:
		o := e.newObj(st, ins.Type(), "map", &MapObj{Epoch: st.epoch})
		e.setReg(f, ins, MapRef{Obj: o})
	case *ssa.MakeChan:
		e.setReg(f, ins, Opaque{Kind: "chan"})
	case *ssa.MapUpdate:
		return e.mapUpdate(st, f, ins)
	case *ssa.Lookup:
		return e.lookup(st, f, ins)
	case *ssa.MakeInterface:
		e.setReg(f, ins, Iface{Typ: ins.X.Type(), Val: e.reg(st, f, ins.X)})
	case *ssa.MakeClosure:
		fn := ins.Fn.(*ssa.Function)
		b := make([]Value, len(ins.Bindings))
		for i, x := range ins.Bindings {
			b[i] = e.reg(st, f, x)
		}
		e.setReg(f, ins, &Closure{Fn: fn, Bindings: b})
	case *ssa.ChangeType:
		e.setReg(f, ins, e.reg(st, f, ins.X))
	case *ssa.ChangeInterface:
		e.setReg(f, ins, e.reg(st, f, ins.X))
	case *ssa.Convert:
		return e.convert(st, f, ins)
	case *ssa.MultiConvert:
		e.setReg(f, ins, Poison{"multiconvert"})
	case *ssa.SliceToArrayPointer:
		x := e.reg(st, f, ins.X)
		s, ok := x.(Slice)
		if !ok {
			e.setReg(f, ins, Poison{"slice2arrayptr"})
			return true
		}
		if s.Obj == nil {
			e.setReg(f, ins, Pointer{})
			return true
		}
		if !s.Off.IsConst() || s.Off.Val != 0 {
			e.setReg(f, ins, Poison{"slice2arrayptr with offset"})
			return true
		}
		e.setReg(f, ins, Pointer{Obj: s.Obj, Path: s.Base})
	case *ssa.TypeAssert:
		return e.typeAssert(st, f, ins)
	case *ssa.Extract:
		t := e.reg(st, f, ins.Tuple)
		tu, ok := t.(Tuple)
		if !ok || ins.Index >= len(tu) {
			e.setReg(f, ins, Poison{"extract from " + describe(t)})
			return true
		}
		e.setReg(f, ins, tu[ins.Index])
	case *ssa.Range:
		return e.rangeOp(st, f, ins)
	case *ssa.Next:
		return e.next(st, f, ins)
	case *ssa.Phi:
		// handled in transfer (entry block has none)
	default:
		e.cutPath(st, fmt.Sprintf("unsupported instruction %T", ins), ins)
		return false
	}
	return true
}

func appendPath(p []PathElem, pe PathElem) []PathElem {
	n := make([]PathElem, len(p)+1)
	copy(n, p)
	n[len(p)] = pe
	return n
}

// boundsCheck adds idx < n (unsigned) to the path, recording a panic obligation.
func (e *Engine) boundsCheck(st *State, ok *Term, kind string, ins ssa.Instruction) bool {
	if ok == e.tt.True {
		return true
	}
	if ok == e.tt.False {
		e.panicPath(st, kind, ins)
		return false
	}
	if st.noPanic && !inHarnessSupport(ins) {
		if !e.knownPanicSite(st, ok, kind, ins) {
			e.prove(st, "panic", kind, ok, ins, "", nil)
		}
	} else if !inHarnessSupport(ins) {
		e.notePathEnd(st.pc, e.tt.BNot(ok), kind, e.pos(ins))
	}
	st.assume(ok)
	return true
}

// knownPanicSite handles panics at sites recorded as known findings.
func (e *Engine) knownPanicSite(st *State, ok *Term, kind string, ins ssa.Instruction) bool {
	if len(st.knownPan) == 0 {
		return false
	}
	pos := e.pos(ins)
	for _, kp := range st.knownPan {
		if knownWhere(kp.where, pos, kind) && e.opts.Known[kp.id] {
			r, vals, _, _ := e.checkSat(st.pc, e.tt.BNot(ok), e.wantTerms())
			if r == Sat {
				logKnownHit(kp.id, kp.where, kind)
				inputs, _ := e.decodeModel(vals)
				e.KnownSeen[kp.id] = fmt.Sprintf("panic (%s) at %s, e.g. %v", kind, pos, compactInputs(inputs))
				e.noteKnown(kp.id, "panic", kind, pos, inputs)
			}
			return true
		}
	}
	return false
}

func (e *Engine) unop(st *State, f *Frame, ins *ssa.UnOp) bool {
	x := e.reg(st, f, ins.X)
	switch ins.Op {
	case token.MUL: // load
		p, ok := x.(Pointer)
		if !ok {
			if _, isP := isPoison(x); isP {
				e.setReg(f, ins, x)
				return true
			}
			e.cutPath(st, "load from "+describe(x), ins)
			return false
		}
		if p.Obj == nil {
			e.panicPath(st, "nil pointer dereference", ins)
			return false
		}
		e.setReg(f, ins, e.loadPtr(st, p))
	case token.NOT:
		if t, ok := x.(*Term); ok {
			e.setReg(f, ins, e.tt.BNot(t))
		} else {
			e.setReg(f, ins, Poison{"not of " + describe(x)})
		}
	case token.SUB:
		switch t := x.(type) {
		case *Term:
			e.setReg(f, ins, e.tt.Neg(t))
		case Float:
			e.setReg(f, ins, Float{-t.F})
		default:
			e.setReg(f, ins, Poison{"neg of " + describe(x)})
		}
	case token.XOR:
		if t, ok := x.(*Term); ok {
			e.setReg(f, ins, e.tt.Not(t))
		} else {
			e.setReg(f, ins, Poison{"xor of " + describe(x)})
		}
	case token.ARROW:
		e.cutPath(st, "unsupported: channel receive", ins)
		return false
	default:
		e.setReg(f, ins, Poison{"unop " + ins.Op.String()})
	}
	return true
}

func (e *Engine) sliceElemPtr(s Slice, idx *Term) Pointer {
	i := e.tt.Add(s.Off, idx)
	pe := PathElem{Sym: i}
	if i.IsConst() {
		pe = PathElem{Idx: int(i.Val)}
	}
	return Pointer{Obj: s.Obj, Path: appendPath(s.Base, pe)}
}

func (e *Engine) asIndex(v Value, t types.Type) (*Term, bool) {
	x, ok := v.(*Term)
	if !ok {
		return nil, false
	}
	_, signed, _ := intInfo(t)
	return e.tt.Resize(x, 64, signed), true
}

func (e *Engine) indexAddr(st *State, f *Frame, ins *ssa.IndexAddr) bool {
	x := e.reg(st, f, ins.X)
	idx, ok := e.asIndex(e.reg(st, f, ins.Index), ins.Index.Type())
	if !ok {
		e.setReg(f, ins, Poison{"index not a term"})
		return true
	}
	switch c := x.(type) {
	case Slice:
		if c.Obj == nil {
			e.panicPath(st, "index out of range (nil slice)", ins)
			return false
		}
		if !e.boundsCheck(st, e.tt.ULt(idx, c.Len), "index out of range", ins) {
			return false
		}
		if pi := e.tt.Add(c.Off, idx); pi.IsConst() && int(pi.Val) >= e.physLen(st, c) {
			// beyond the backing array: impossible for a well-formed slice (off+len <= capacity)
			e.stats.Infeasible++
			return false
		}
		e.setReg(f, ins, e.sliceElemPtr(c, idx))
	case Pointer: // pointer to array
		if c.Obj == nil {
			e.panicPath(st, "nil pointer dereference", ins)
			return false
		}
		n := ins.X.Type().Underlying().(*types.Pointer).Elem().Underlying().(*types.Array).Len()
		if !e.boundsCheck(st, e.tt.ULt(idx, e.tt.Const(64, uint64(n))), "index out of range", ins) {
			return false
		}
		pe := PathElem{Sym: idx}
		if idx.IsConst() {
			pe = PathElem{Idx: int(idx.Val)}
		}
		e.setReg(f, ins, Pointer{Obj: c.Obj, Path: appendPath(c.Path, pe)})
	default:
		if _, p := isPoison(x); p {
			e.setReg(f, ins, x)
			return true
		}
		e.cutPath(st, "indexaddr of "+describe(x), ins)
		return false
	}
	return true
}

func (e *Engine) index(st *State, f *Frame, ins *ssa.Index) bool {
	x := e.reg(st, f, ins.X)
	idx, ok := e.asIndex(e.reg(st, f, ins.Index), ins.Index.Type())
	if !ok {
		e.setReg(f, ins, Poison{"index not a term"})
		return true
	}
	switch c := x.(type) {
	case *Agg:
		if !e.boundsCheck(st, e.tt.ULt(idx, e.tt.Const(64, uint64(len(c.Elems)))), "index out of range", ins) {
			return false
		}
		e.setReg(f, ins, e.loadAt(c, []PathElem{{Sym: idx}}))
	case Str:
		ln := e.strLen(c)
		if !e.boundsCheck(st, e.tt.ULt(idx, ln), "index out of range", ins) {
			return false
		}
		e.setReg(f, ins, e.strByte(st, c, idx))
	default:
		e.setReg(f, ins, Poison{"index of " + describe(x)})
	}
	return true
}

func (e *Engine) c64(v int) *Term { return e.tt.Const(64, uint64(v)) }

func (e *Engine) sliceOp(st *State, f *Frame, ins *ssa.Slice) bool {
	x := e.reg(st, f, ins.X)
	get := func(v ssa.Value) *Term {
		if v == nil {
			return nil
		}
		t, _ := e.asIndex(e.reg(st, f, v), v.Type())
		return t
	}
	lo, hi, max := get(ins.Low), get(ins.High), get(ins.Max)
	if (ins.Low != nil && lo == nil) || (ins.High != nil && hi == nil) || (ins.Max != nil && max == nil) {
		e.setReg(f, ins, Poison{"slice bound not a term"})
		return true
	}
	if lo == nil {
		lo = e.c64(0)
	}
	switch c := x.(type) {
	case Slice:
		if c.Obj == nil {
			// nil slice: only [0:0] allowed
			okc := e.tt.Eq(lo, e.c64(0))
			if hi != nil {
				okc = e.tt.BAnd(okc, e.tt.Eq(hi, e.c64(0)))
			}
			if !e.boundsCheck(st, okc, "slice bounds out of range", ins) {
				return false
			}
			e.setReg(f, ins, Slice{})
			return true
		}
		if hi == nil {
			hi = c.Len
		}
		capT := c.Cap
		if max != nil {
			if !e.boundsCheck(st, e.tt.ULe(max, c.Cap), "slice bounds out of range (max > cap)", ins) {
				return false
			}
			capT = max
		}
		if !e.boundsCheck(st, e.tt.ULe(hi, capT), "slice bounds out of range (high > cap)", ins) {
			return false
		}
		if !e.boundsCheck(st, e.tt.ULe(lo, hi), "slice bounds out of range (low > high)", ins) {
			return false
		}
		e.setReg(f, ins, Slice{Obj: c.Obj, Base: c.Base, Off: e.tt.Add(c.Off, lo), Len: e.tt.Sub(hi, lo), Cap: e.tt.Sub(capT, lo)})
	case Str:
		ln := e.strLen(c)
		if hi == nil {
			hi = ln
		}
		if !e.boundsCheck(st, e.tt.ULe(hi, ln), "slice bounds out of range (string)", ins) {
			return false
		}
		if !e.boundsCheck(st, e.tt.ULe(lo, hi), "slice bounds out of range (string low > high)", ins) {
			return false
		}
		e.setReg(f, ins, e.strSlice(c, lo, hi))
	case Pointer: // pointer to array
		if c.Obj == nil {
			e.panicPath(st, "nil pointer dereference", ins)
			return false
		}
		n := ins.X.Type().Underlying().(*types.Pointer).Elem().Underlying().(*types.Array).Len()
		nT := e.c64(int(n))
		if hi == nil {
			hi = nT
		}
		capT := nT
		if max != nil {
			if !e.boundsCheck(st, e.tt.ULe(max, nT), "slice bounds out of range", ins) {
				return false
			}
			capT = max
		}
		if !e.boundsCheck(st, e.tt.ULe(hi, capT), "slice bounds out of range", ins) {
			return false
		}
		if !e.boundsCheck(st, e.tt.ULe(lo, hi), "slice bounds out of range", ins) {
			return false
		}
		e.setReg(f, ins, Slice{Obj: c.Obj, Base: c.Path, Off: lo, Len: e.tt.Sub(hi, lo), Cap: e.tt.Sub(capT, lo)})
	default:
		e.setReg(f, ins, Poison{"slice of " + describe(x)})
	}
	return true
}

// newArray allocates an array object with n elements of elem type.
func (e *Engine) newArray(st *State, elem types.Type, n int, name string) *Obj {
	a := &Agg{Elems: make([]Value, n), Epoch: st.epoch}
	if n > 0 {
		z := e.zero(elem)
		for i := range a.Elems {
			a.Elems[i] = z
		}
	}
	return e.newObj(st, types.NewArray(elem, int64(n)), name, a)
}

// makeSliceVal builds a slice of symbolic or concrete size. Returns false if the path ended.
func (e *Engine) makeSliceVal(st *State, elem types.Type, ln, cp *Term, ins ssa.Instruction) (Value, bool) {
	// negative or huge sizes panic in Go (len out of range)
	lim := uint64(1) << 47
	okc := e.tt.BAnd(e.tt.ULe(ln, cp), e.tt.ULt(cp, e.tt.Const(64, lim)))
	if !e.boundsCheck(st, okc, "makeslice: len out of range", ins) {
		return nil, false
	}
	if e.hook != nil && e.hook.allocLimit != nil {
		// obligation: allocation bounded
		sz := cp
		lt := e.hook.allocLimit
		e.prove(st, "alloc", "allocation within limit", e.tt.ULe(sz, lt), ins, "", nil)
		st.assume(e.tt.ULe(sz, lt))
	}
	if !cp.IsConst() && e.sparseAlloc {
		o := e.newObj(st, types.NewArray(elem, 0), "make(sparse)", &SparseArr{Default: e.zero(elem)})
		e.Models["make() with a symbolic size as a sparse array (default value + stores)"] = true
		return Slice{Obj: o, Off: e.c64(0), Len: ln, Cap: cp}, true
	}
	var capN int
	if cp.IsConst() {
		capN = int(cp.Val)
		if capN > maxArray {
			e.cutPath(st, fmt.Sprintf("make of %d elements exceeds engine capacity", capN), ins)
			return nil, false
		}
	} else {
		capN = e.opts.AllocCap
		if cp.Hi < uint64(capN) {
			capN = int(cp.Hi)
		}
		c := e.tt.ULe(cp, e.c64(capN))
		if c != e.tt.True {
			// paths with larger sizes are cut (recorded)
			if e.feasible(st, e.tt.BNot(c)) {
				e.Cuts[fmt.Sprintf("make size > %d not explored @ %s", capN, e.pos(ins))]++
			}
			st.assume(c)
		}
	}
	o := e.newArray(st, elem, capN, "make")
	return Slice{Obj: o, Off: e.c64(0), Len: ln, Cap: cp}, true
}

func (e *Engine) makeSlice(st *State, f *Frame, ins *ssa.MakeSlice) bool {
	ln, ok1 := e.asIndex(e.reg(st, f, ins.Len), ins.Len.Type())
	cp, ok2 := e.asIndex(e.reg(st, f, ins.Cap), ins.Cap.Type())
	if !ok1 || !ok2 {
		e.setReg(f, ins, Poison{"make with non-term size"})
		return true
	}
	elem := ins.Type().Underlying().(*types.Slice).Elem()
	v, ok := e.makeSliceVal(st, elem, ln, cp, ins)
	if !ok {
		return false
	}
	e.setReg(f, ins, v)
	return true
}

func (e *Engine) typeAssert(st *State, f *Frame, ins *ssa.TypeAssert) bool {
	x := e.reg(st, f, ins.X)
	ifc, ok := x.(Iface)
	if !ok {
		e.setReg(f, ins, Poison{"typeassert on " + describe(x)})
		return true
	}
	var match bool
	var res Value
	if ifc.Typ != nil && ifc.Typ != e.errType {
		if types.IsInterface(ins.AssertedType) {
			it := ins.AssertedType.Underlying().(*types.Interface)
			match = types.Implements(ifc.Typ, it)
			res = ifc
		} else {
			match = types.Identical(ifc.Typ, ins.AssertedType)
			res = ifc.Val
		}
	} else if ifc.Typ == e.errType {
		if types.IsInterface(ins.AssertedType) {
			it := ins.AssertedType.Underlying().(*types.Interface)
			// our error values implement error (and Unwrap)
			match = it.NumMethods() == 0 || (it.NumMethods() == 1 && it.Method(0).Name() == "Error")
			res = ifc
		}
	}
	if ins.CommaOk {
		if !match {
			res = e.zero(ins.AssertedType)
		}
		e.setReg(f, ins, Tuple{res, e.tt.Bool(match)})
		return true
	}
	if !match {
		e.panicPath(st, "interface conversion", ins)
		return false
	}
	e.setReg(f, ins, res)
	return true
}

// ---- maps -------------------------------------------------------------------------

func (e *Engine) mapObj(st *State, m MapRef) *MapObj {
	b := e.boxOf(st, m.Obj)
	if b == nil {
		return nil
	}
	mo, _ := b.V.(*MapObj)
	return mo
}

// keyEq returns the condition under which two map keys are equal.
func (e *Engine) keyEq(st *State, a, b Value) *Term {
	c, ok := e.valuesEqual(st, a, b)
	if !ok {
		return nil
	}
	return c
}

func (e *Engine) mapUpdate(st *State, f *Frame, ins *ssa.MapUpdate) bool {
	mv := e.reg(st, f, ins.Map)
	m, ok := mv.(MapRef)
	if !ok {
		e.cutPath(st, "mapupdate on "+describe(mv), ins)
		return false
	}
	if m.Obj == nil {
		e.panicPath(st, "assignment to entry in nil map", ins)
		return false
	}
	key := e.reg(st, f, ins.Key)
	val := e.reg(st, f, ins.Value)
	return e.mapSet(st, m, key, val, ins)
}

func (e *Engine) mapSet(st *State, m MapRef, key, val Value, ins ssa.Instruction) bool {
	b := e.ownBoxOf(st, m.Obj)
	mo := b.V.(*MapObj)
	if mo.Epoch != st.epoch {
		mo = &MapObj{Entries: append([]MapEntry(nil), mo.Entries...), Epoch: st.epoch}
		b.V = mo
	}
	// found := any existing entry equal
	notFound := e.tt.True
	for i := range mo.Entries {
		en := &mo.Entries[i]
		eq := e.keyEq(st, en.Key, key)
		if eq == nil {
			e.cutPath(st, "map key comparison unsupported", ins)
			return false
		}
		hit := e.tt.BAnd(en.Present, eq, notFound)
		if hit == e.tt.False {
			continue
		}
		nv, ok := e.mergeValues(hit, val, en.Val)
		if !ok {
			e.cutPath(st, "map value merge unsupported", ins)
			return false
		}
		en.Val = nv
		notFound = e.tt.BAnd(notFound, e.tt.BNot(e.tt.BAnd(en.Present, eq)))
		if notFound == e.tt.False {
			return true
		}
	}
	mo.Entries = append(mo.Entries, MapEntry{Key: key, Val: val, Present: notFound})
	return true
}

func (e *Engine) mapGet(st *State, m MapRef, key Value, elemT types.Type, ins ssa.Instruction) (Value, *Term, bool) {
	res := e.zero(elemT)
	found := e.tt.False
	if m.Obj == nil {
		return res, found, true
	}
	mo := e.mapObj(st, m)
	if mo == nil {
		return Poison{"bad map"}, found, true
	}
	for i := len(mo.Entries) - 1; i >= 0; i-- {
		en := mo.Entries[i]
		eq := e.keyEq(st, en.Key, key)
		if eq == nil {
			e.cutPath(st, "map key comparison unsupported", ins)
			return nil, nil, false
		}
		hit := e.tt.BAnd(en.Present, eq)
		if hit == e.tt.False {
			continue
		}
		nv, ok := e.mergeValues(hit, en.Val, res)
		if !ok {
			// fall back: if hit is constant true we can just take it
			if hit == e.tt.True {
				nv = en.Val
			} else {
				e.cutPath(st, "map lookup merge unsupported", ins)
				return nil, nil, false
			}
		}
		res = nv
		found = e.tt.BOr(found, hit)
	}
	return res, found, true
}

func (e *Engine) lookup(st *State, f *Frame, ins *ssa.Lookup) bool {
	x := e.reg(st, f, ins.X)
	switch c := x.(type) {
	case MapRef:
		key := e.reg(st, f, ins.Index)
		elemT := ins.X.Type().Underlying().(*types.Map).Elem()
		v, found, ok := e.mapGet(st, c, key, elemT, ins)
		if !ok {
			return false
		}
		if ins.CommaOk {
			e.setReg(f, ins, Tuple{v, found})
		} else {
			e.setReg(f, ins, v)
		}
	case Str:
		idx, ok := e.asIndex(e.reg(st, f, ins.Index), ins.Index.Type())
		if !ok {
			e.setReg(f, ins, Poison{"string index"})
			return true
		}
		if !e.boundsCheck(st, e.tt.ULt(idx, e.strLen(c)), "index out of range", ins) {
			return false
		}
		e.setReg(f, ins, e.strByte(st, c, idx))
	default:
		e.setReg(f, ins, Poison{"lookup in " + describe(x)})
	}
	return true
}

// ---- range ------------------------------------------------------------------------

type iterState struct {
	kind string // "map" | "str"
	keys []Value
	vals []Value
	s    Str
	pos  int
}

func (e *Engine) rangeOp(st *State, f *Frame, ins *ssa.Range) bool {
	x := e.reg(st, f, ins.X)
	switch c := x.(type) {
	case MapRef:
		it := &iterState{kind: "map"}
		if c.Obj != nil {
			mo := e.mapObj(st, c)
			n := 0
			for _, en := range mo.Entries {
				if en.Present == e.tt.False {
					continue
				}
				if en.Present != e.tt.True {
					// decide membership under the path condition
					if !e.feasible(st, en.Present) {
						continue
					}
					if e.feasible(st, e.tt.BNot(en.Present)) {
						e.cutPath(st, "range over map with symbolic membership", ins)
						return false
					}
				}
				it.keys = append(it.keys, en.Key)
				it.vals = append(it.vals, en.Val)
				n++
			}
			if n > 1 {
				st.nondetLog = append(st.nondetLog, "map iteration order @ "+e.pos(ins))
				e.Nondet = append(e.Nondet, "map iteration order @ "+e.pos(ins))
			}
		}
		o := e.newObj(st, nil, "iter", Opaque{Kind: "iter", V: it})
		e.setReg(f, ins, Pointer{Obj: o})
	case Str:
		if !c.Conc {
			// symbolic string: iterate bytes assuming ASCII
			e.Models["range over symbolic string (ASCII assumed)"] = true
		}
		it := &iterState{kind: "str", s: c}
		o := e.newObj(st, nil, "iter", Opaque{Kind: "iter", V: it})
		e.setReg(f, ins, Pointer{Obj: o})
	default:
		e.cutPath(st, "range over "+describe(x), ins)
		return false
	}
	return true
}

func (e *Engine) next(st *State, f *Frame, ins *ssa.Next) bool {
	p, ok := e.reg(st, f, ins.Iter).(Pointer)
	if !ok || p.Obj == nil {
		e.cutPath(st, "next on bad iterator", ins)
		return false
	}
	b := e.ownBoxOf(st, p.Obj)
	op, _ := b.V.(Opaque)
	it, _ := op.V.(*iterState)
	if it == nil {
		e.cutPath(st, "next on bad iterator", ins)
		return false
	}
	// iterator state is copied on write
	nit := *it
	tt := ins.Type().(*types.Tuple)
	if it.kind == "map" {
		if it.pos >= len(it.keys) {
			e.setReg(f, ins, Tuple{e.tt.False, e.zero(tt.At(1).Type()), e.zero(tt.At(2).Type())})
			return true
		}
		e.setReg(f, ins, Tuple{e.tt.True, it.keys[it.pos], it.vals[it.pos]})
		nit.pos++
		b.V = Opaque{Kind: "iter", V: &nit}
		return true
	}
	// string
	s := it.s
	if s.Conc {
		if it.pos >= len(s.S) {
			e.setReg(f, ins, Tuple{e.tt.False, e.c64(0), e.tt.Const(32, 0)})
			return true
		}
		var r rune
		var w int
		for i, rr := range s.S[it.pos:] {
			if i == 0 {
				r = rr
				w = len(string(rr))
				if rr == 0xFFFD && (len(s.S[it.pos:]) < 3 || s.S[it.pos:it.pos+3] != "�") {
					w = 1
				}
			}
			break
		}
		e.setReg(f, ins, Tuple{e.tt.True, e.c64(it.pos), e.tt.Const(32, uint64(uint32(r)))})
		nit.pos += w
		b.V = Opaque{Kind: "iter", V: &nit}
		return true
	}
	ln := e.strLen(s)
	pos := e.c64(it.pos)
	more := e.tt.ULt(pos, ln)
	if more == e.tt.False {
		e.setReg(f, ins, Tuple{e.tt.False, e.c64(0), e.tt.Const(32, 0)})
		return true
	}
	if !more.IsConst() {
		// ok flag is symbolic; value only meaningful when ok
		bt := e.strByteUnchecked(st, s, pos)
		e.setReg(f, ins, Tuple{more, pos, e.tt.ZExt(bt, 32)})
	} else {
		bt := e.strByte(st, s, pos)
		e.setReg(f, ins, Tuple{e.tt.True, pos, e.tt.ZExt(bt, 32)})
	}
	nit.pos++
	b.V = Opaque{Kind: "iter", V: &nit}
	return true
}

// physLen is the number of elements of the backing array of s.
func (e *Engine) physLen(st *State, s Slice) int {
	b := e.boxOf(st, s.Obj)
	if b == nil {
		return 0
	}
	arr := e.loadAt(b.V, s.Base)
	if ag, ok := arr.(*Agg); ok {
		return len(ag.Elems)
	}
	if _, ok := arr.(*SparseArr); ok {
		return 1 << 62
	}
	return 0
}

// inHarnessSupport reports whether ins belongs to the harness support packages (internal/vp...):
// their bounds checks are not obligations of the code under test.
func inHarnessSupport(ins ssa.Instruction) bool {
	if ins == nil || ins.Parent() == nil {
		return false
	}
	fn := ins.Parent()
	for fn.Parent() != nil {
		fn = fn.Parent()
	}
	return fn.Pkg != nil && strings.Contains(fn.Pkg.Pkg.Path(), "/internal/vp")
}

const concreteLoopLimit = 300000

// checkIter: feasibility of staying in a symbolic loop is checked on a sparse schedule
// (iterations 2,3,4,6,8,12,16,24,...): loops bounded by concrete data end by themselves and
// merging absorbs iterations that turn out infeasible.
func checkIter(n int) bool {
	if n < 2 {
		return false
	}
	if n <= 4 {
		return true
	}
	for p := 4; p <= n; p *= 2 {
		if n == p || n == p+p/2 {
			return true
		}
	}
	return false
}

package gosmt

import (
	"go/types"
	"math"

	"golang.org/x/tools/go/ssa"
)

// SymF is a symbolic float of a very restricted shape, enough for the "power of two" idioms
// of the repository: float64(x), math.Log2(float64(x)), math.Trunc(math.Log2(float64(x))) and
// math.Exp2(float64(x)) for an integer term x.
type SymF struct {
	Kind string // int | log2 | trunclog2 | exp2
	T    *Term  // 64-bit
}

func (e *Engine) bitlenMinus1(t *Term) *Term {
	res := e.c64(0)
	for k := 1; k < 64; k++ {
		bit := e.tt.Eq(e.tt.Extract(t, k, k), e.tt.Const(1, 1))
		res = e.tt.Ite(bit, e.c64(k), res)
	}
	return res
}

func floatArg(v Value) (float64, bool) {
	f, ok := v.(Float)
	return f.F, ok
}

func init() {
	un := func(name string, f func(float64) float64) {
		intrinsics["math."+name] = func(e *Engine, st *State, fn *ssa.Function, a []Value, ins ssa.Instruction) []*State {
			if x, ok := floatArg(a[0]); ok {
				return e.ret(st, Float{f(x)})
			}
			if s, ok := a[0].(SymF); ok {
				e.Models["math.Log2/Exp2/Trunc on float64(integer term): exact integer model (gosmt/floatmodel.go)"] = true
				switch {
				case name == "Log2" && s.Kind == "int":
					return e.ret(st, SymF{"log2", s.T})
				case name == "Exp2" && s.Kind == "int":
					return e.ret(st, SymF{"exp2", s.T})
				case (name == "Trunc" || name == "Floor") && s.Kind == "log2":
					return e.ret(st, SymF{"trunclog2", s.T})
				case (name == "Trunc" || name == "Floor" || name == "Ceil" || name == "Round") && s.Kind == "int":
					return e.ret(st, s)
				}
			}
			return e.ret(st, Poison{"math." + name + " on " + describe(a[0])})
		}
	}
	un("Log2", math.Log2)
	un("Exp2", math.Exp2)
	un("Trunc", math.Trunc)
	un("Floor", math.Floor)
	un("Ceil", math.Ceil)
	un("Round", math.Round)
	un("Abs", math.Abs)
	un("Sqrt", math.Sqrt)
	un("Log", math.Log)
	un("Log10", math.Log10)
	un("Exp", math.Exp)
	bin := func(name string, f func(a, b float64) float64) {
		intrinsics["math."+name] = func(e *Engine, st *State, fn *ssa.Function, a []Value, ins ssa.Instruction) []*State {
			x, ok1 := floatArg(a[0])
			y, ok2 := floatArg(a[1])
			if ok1 && ok2 {
				return e.ret(st, Float{f(x, y)})
			}
			return e.ret(st, Poison{"math." + name + " on symbolic floats"})
		}
	}
	bin("Pow", math.Pow)
	bin("Mod", math.Mod)
	bin("Max", math.Max)
	bin("Min", math.Min)
	intrinsics["math.Float64bits"] = func(e *Engine, st *State, fn *ssa.Function, a []Value, ins ssa.Instruction) []*State {
		if x, ok := floatArg(a[0]); ok {
			return e.ret(st, e.tt.Const(64, math.Float64bits(x)))
		}
		return e.ret(st, Poison{"math.Float64bits on symbolic float"})
	}
	intrinsics["math.Float64frombits"] = func(e *Engine, st *State, fn *ssa.Function, a []Value, ins ssa.Instruction) []*State {
		if t, ok := a[0].(*Term); ok && t.IsConst() {
			return e.ret(st, Float{math.Float64frombits(t.Val)})
		}
		return e.ret(st, Poison{"math.Float64frombits on symbolic bits"})
	}
	intrinsics["math.Float32bits"] = func(e *Engine, st *State, fn *ssa.Function, a []Value, ins ssa.Instruction) []*State {
		if x, ok := floatArg(a[0]); ok {
			return e.ret(st, e.tt.Const(32, uint64(math.Float32bits(float32(x)))))
		}
		return e.ret(st, Poison{"math.Float32bits on symbolic float"})
	}
	intrinsics["math.Float32frombits"] = func(e *Engine, st *State, fn *ssa.Function, a []Value, ins ssa.Instruction) []*State {
		if t, ok := a[0].(*Term); ok && t.IsConst() {
			return e.ret(st, Float{float64(math.Float32frombits(uint32(t.Val)))})
		}
		return e.ret(st, Poison{"math.Float32frombits on symbolic bits"})
	}
	intrinsics["math.IsNaN"] = func(e *Engine, st *State, fn *ssa.Function, a []Value, ins ssa.Instruction) []*State {
		if x, ok := floatArg(a[0]); ok {
			return e.ret(st, e.tt.Bool(math.IsNaN(x)))
		}
		return e.ret(st, e.tt.False)
	}
	intrinsics["math.IsInf"] = func(e *Engine, st *State, fn *ssa.Function, a []Value, ins ssa.Instruction) []*State {
		if x, ok := floatArg(a[0]); ok {
			s := 0
			if t, ok := a[1].(*Term); ok && t.IsConst() {
				s = int(sext64(t.Val, 64))
			}
			return e.ret(st, e.tt.Bool(math.IsInf(x, s)))
		}
		return e.ret(st, e.tt.False)
	}
}

// symFloatToInt converts a SymF to an integer of width tw. ok=false: path must be cut.
func (e *Engine) symFloatToInt(st *State, s SymF, tw int, ins ssa.Instruction) (Value, bool) {
	switch s.Kind {
	case "int":
		return e.tt.Resize(s.T, tw, false), true
	case "log2", "trunclog2":
		nz := e.tt.BNot(e.tt.Eq(s.T, e.c64(0)))
		if nz != e.tt.True {
			if e.feasible(st, e.tt.BNot(nz)) {
				e.Cuts["integer conversion of math.Log2(0) (-Inf) not modelled @ "+e.pos(ins)]++
			}
			st.assume(nz)
		}
		return e.tt.Resize(e.bitlenMinus1(s.T), tw, false), true
	case "exp2":
		lim := e.tt.ULt(s.T, e.c64(tw))
		if tw > 63 {
			lim = e.tt.ULt(s.T, e.c64(63))
		}
		if lim != e.tt.True {
			if e.feasible(st, e.tt.BNot(lim)) {
				e.Cuts["integer conversion of math.Exp2(x) that overflows the target type not modelled @ "+e.pos(ins)]++
			}
			st.assume(lim)
		}
		return e.tt.Resize(e.tt.Shl(e.c64(1), s.T), tw, false), true
	}
	return Poison{"float to int of " + s.Kind}, true
}

// symFloatEq: equality of two SymF values (power-of-two test idiom).
func (e *Engine) symFloatEq(a, b SymF) (*Term, bool) {
	if a.T == b.T {
		if a.Kind == b.Kind {
			return e.tt.True, true
		}
		if (a.Kind == "log2" && b.Kind == "trunclog2") || (a.Kind == "trunclog2" && b.Kind == "log2") {
			t := a.T
			pow2 := e.tt.BAnd(e.tt.BNot(e.tt.Eq(t, e.c64(0))), e.tt.Eq(e.tt.And(t, e.tt.Sub(t, e.c64(1))), e.c64(0)))
			return pow2, true
		}
	}
	if a.Kind == "int" && b.Kind == "int" {
		return e.tt.Eq(a.T, b.T), true
	}
	return nil, false
}

var _ = types.Typ

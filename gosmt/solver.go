package gosmt

import (
	"bufio"
	"fmt"
	"io"
	"os"
	"os/exec"
	"regexp"
	"strconv"
	"strings"
	"time"
)

// Result of a satisfiability query.
type Result int

const (
	Unsat Result = iota
	Sat
	Unknown
)

func (r Result) String() string { return [...]string{"unsat", "sat", "unknown"}[r] }

// Solver is a persistent SMT solver process fed through stdin.
type Solver struct {
	Name    string
	cmd     *exec.Cmd
	in      io.WriteCloser
	out     *bufio.Reader
	lines   chan string
	wch     chan string
	tt      *TermTable
	defined []bool // by term id
	ufDecl  map[string]bool
	seq     int
	dead    bool
	log     io.Writer

	Queries   int
	TimeSpent time.Duration
	timeoutMs int
	kind      string
}

// NewSolver starts a solver. kind is "z3", "z3-new" or "cvc5".
func NewSolver(kind string, tt *TermTable, timeoutMs int) (*Solver, error) {
	var cmd *exec.Cmd
	switch kind {
	case "z3":
		cmd = exec.Command("/usr/bin/z3", "-in")
	case "z3-new":
		cmd = exec.Command("z3-new", "-in")
	case "cvc5":
		cmd = exec.Command("cvc5", "--incremental", "--lang", "smt2", "--produce-models",
			"--tlimit-per="+strconv.Itoa(timeoutMs))
	default:
		return nil, fmt.Errorf("unknown solver %q", kind)
	}
	in, err := cmd.StdinPipe()
	if err != nil {
		return nil, err
	}
	outp, err := cmd.StdoutPipe()
	if err != nil {
		return nil, err
	}
	cmd.Stderr = nil
	if err := cmd.Start(); err != nil {
		return nil, err
	}
	s := &Solver{Name: kind, kind: kind, cmd: cmd, in: in, out: bufio.NewReaderSize(outp, 1<<20), tt: tt,
		ufDecl: map[string]bool{}, timeoutMs: timeoutMs}
	if f := os.Getenv("GOSMT_SMTLOG"); f != "" {
		lf, _ := os.OpenFile(f+"."+kind+"."+strconv.Itoa(os.Getpid())+"."+strconv.Itoa(int(time.Now().UnixNano()%100000)), os.O_CREATE|os.O_WRONLY|os.O_TRUNC, 0o644)
		s.log = lf
	}
	s.wch = make(chan string, 1<<14)
	go func() {
		for str := range s.wch {
			if _, err := io.WriteString(s.in, str); err != nil {
				// drain so that senders never block
				for range s.wch {
				}
				return
			}
		}
	}()
	s.lines = make(chan string, 4096)
	go func() {
		for {
			line, err := s.out.ReadString('\n')
			if err != nil {
				close(s.lines)
				return
			}
			s.lines <- strings.TrimRight(line, "\r\n")
		}
	}()
	if kind == "cvc5" {
		s.send("(set-logic ALL)\n")
	} else {
		s.send(fmt.Sprintf("(set-option :timeout %d)\n", timeoutMs))
	}
	return s, nil
}

func (s *Solver) SetTimeout(ms int) {
	s.timeoutMs = ms
	if s.kind != "cvc5" {
		s.send(fmt.Sprintf("(set-option :timeout %d)\n", ms))
	}
}

func (s *Solver) Close() {
	if s.cmd != nil && s.cmd.Process != nil {
		s.dead = true
		s.cmd.Process.Kill()
		s.in.Close()
		go s.cmd.Wait()
	}
}

func (s *Solver) send(str string) {
	if s.dead {
		return
	}
	if s.log != nil {
		io.WriteString(s.log, str)
	}
	select {
	case s.wch <- str:
	default:
		// writer hopelessly behind: treat the solver as dead
		s.dead = true
	}
}

// sync sends an echo marker and returns all lines printed before it.
func (s *Solver) sync() []string {
	s.seq++
	marker := "@@" + strconv.Itoa(s.seq)
	s.send("(echo \"" + marker + "\")\n")
	var lines []string
	// hard deadline: some solver phases ignore the soft timeout
	limit := time.Duration(s.timeoutMs)*time.Millisecond*2 + 10*time.Second
	timer := time.NewTimer(limit)
	defer timer.Stop()
	for {
		if s.dead {
			return append(lines, "(error \"solver died\")")
		}
		select {
		case line, ok := <-s.lines:
			if !ok {
				s.dead = true
				return append(lines, "(error \"solver died\")")
			}
			if strings.Trim(line, "\"") == marker {
				return lines
			}
			lines = append(lines, line)
		case <-timer.C:
			s.dead = true
			if s.cmd.Process != nil {
				s.cmd.Process.Kill()
			}
			return append(lines, "(error \"solver unresponsive: killed after hard timeout\")")
		}
	}
}

// define makes sure t and all its sub-terms are known to the solver (at level 0).
func (s *Solver) define(t *Term, sb *strings.Builder) {
	// iterative post-order
	type frame struct {
		t *Term
		i int
	}
	if s.isDefined(t) {
		return
	}
	stack := []frame{{t, 0}}
	for len(stack) > 0 {
		f := &stack[len(stack)-1]
		if f.i < len(f.t.Args) {
			a := f.t.Args[f.i]
			f.i++
			if !s.isDefined(a) {
				stack = append(stack, frame{a, 0})
			}
			continue
		}
		x := f.t
		stack = stack[:len(stack)-1]
		if s.isDefined(x) {
			continue
		}
		s.markDefined(x)
		switch x.Op {
		case OpConst:
		case OpVar:
			fmt.Fprintf(sb, "(declare-fun %s () %s)\n", smtName(x.Name), sortStr(x.W))
		case OpUF:
			if !s.ufDecl[x.Name] {
				s.ufDecl[x.Name] = true
				sig := s.tt.ufs[x.Name]
				sb.WriteString("(declare-fun " + smtName(x.Name) + " (")
				for _, aw := range sig.args {
					sb.WriteString(sortStr(aw) + " ")
				}
				sb.WriteString(") " + sortStr(sig.ret) + ")\n")
			}
			fmt.Fprintf(sb, "(define-fun %s () %s %s)\n", ref(x), sortStr(x.W), body(x))
		default:
			fmt.Fprintf(sb, "(define-fun %s () %s %s)\n", ref(x), sortStr(x.W), body(x))
		}
	}
}

func (s *Solver) isDefined(t *Term) bool {
	return t.ID < len(s.defined) && s.defined[t.ID]
}

func (s *Solver) markDefined(t *Term) {
	for t.ID >= len(s.defined) {
		s.defined = append(s.defined, make([]bool, 1024+len(s.defined))...)
	}
	s.defined[t.ID] = true
}

var valRe = regexp.MustCompile(`#x[0-9a-fA-F]+|#b[01]+|\btrue\b|\bfalse\b`)
var quotedRe = regexp.MustCompile(`\|[^|]*\|`)

// Check decides the conjunction of asserts. If wantModel is non-nil and the
// result is Sat, the values of those terms are returned in the same order.
func (s *Solver) Check(asserts []*Term, want []*Term) (Result, []uint64, string) {
	t0 := time.Now()
	defer func() { s.TimeSpent += time.Since(t0); s.Queries++ }()
	if s.dead {
		return Unknown, nil, "solver dead"
	}
	var sb strings.Builder
	for _, a := range asserts {
		s.define(a, &sb)
	}
	for _, a := range want {
		s.define(a, &sb)
	}
	sb.WriteString("(push 1)\n")
	for _, a := range asserts {
		sb.WriteString("(assert " + ref(a) + ")\n")
	}
	sb.WriteString("(check-sat)\n")
	s.send(sb.String())
	lines := s.sync()
	res := Unknown
	msg := ""
	for _, l := range lines {
		switch {
		case l == "sat":
			res = Sat
		case l == "unsat":
			res = Unsat
		case l == "unknown":
			res = Unknown
			msg = "unknown"
		case strings.Contains(l, "(error"):
			s.send("(pop 1)\n")
			s.sync()
			return Unknown, nil, "solver error: " + l
		}
	}
	var vals []uint64
	if res == Sat && len(want) > 0 {
		// ask in batches
		const batch = 400
		for i := 0; i < len(want); i += batch {
			j := i + batch
			if j > len(want) {
				j = len(want)
			}
			var q strings.Builder
			q.WriteString("(get-value (")
			for _, w := range want[i:j] {
				q.WriteString(ref(w) + " ")
			}
			q.WriteString("))\n")
			s.send(q.String())
			out := strings.Join(s.sync(), " ")
			if strings.Contains(out, "(error") {
				s.send("(pop 1)\n")
				s.sync()
				return Unknown, nil, "solver error in get-value: " + out
			}
			out = quotedRe.ReplaceAllString(out, " ")
			toks := valRe.FindAllString(out, -1)
			// constants among want are printed as (const const): handle by walking
			k := 0
			for _, w := range want[i:j] {
				if w.IsConst() {
					// printed twice: the term itself and its value
					k += 2
					vals = append(vals, w.Val)
					continue
				}
				if k >= len(toks) {
					s.send("(pop 1)\n")
					s.sync()
					return Unknown, nil, "get-value parse failure: " + out
				}
				vals = append(vals, parseVal(toks[k]))
				k++
			}
		}
	}
	s.send("(pop 1)\n")
	return res, vals, msg
}

func parseVal(tok string) uint64 {
	switch {
	case tok == "true":
		return 1
	case tok == "false":
		return 0
	case strings.HasPrefix(tok, "#x"):
		v, _ := strconv.ParseUint(tok[2:], 16, 64)
		return v
	case strings.HasPrefix(tok, "#b"):
		v, _ := strconv.ParseUint(tok[2:], 2, 64)
		return v
	}
	return 0
}

// OneShot decides asserts in a fresh solver process (non-incremental mode lets z3 use its
// bit-blasting tactic, which is far stronger on arithmetic-heavy queries than the incremental core).
func OneShot(kind string, tt *TermTable, asserts []*Term, want []*Term, timeoutMs int) (Result, []uint64, string) {
	var sb strings.Builder
	s := &Solver{tt: tt, ufDecl: map[string]bool{}}
	if kind == "cvc5" {
		sb.WriteString("(set-logic ALL)\n(set-option :produce-models true)\n")
	}
	for _, a := range asserts {
		s.define(a, &sb)
	}
	for _, a := range want {
		s.define(a, &sb)
	}
	for _, a := range asserts {
		sb.WriteString("(assert " + ref(a) + ")\n")
	}
	sb.WriteString("(check-sat)\n")
	if len(want) > 0 {
		sb.WriteString("(get-value (")
		for _, w := range want {
			sb.WriteString(ref(w) + " ")
		}
		sb.WriteString("))\n")
	}
	var cmd *exec.Cmd
	sec := strconv.Itoa((timeoutMs + 999) / 1000)
	switch kind {
	case "z3-new":
		cmd = exec.Command("z3-new", "-in", "-T:"+sec)
	case "z3":
		cmd = exec.Command("/usr/bin/z3", "-in", "-T:"+sec)
	case "cvc5":
		cmd = exec.Command("cvc5", "--lang", "smt2", "--tlimit="+strconv.Itoa(timeoutMs))
	default:
		return Unknown, nil, "unknown solver"
	}
	cmd.Stdin = strings.NewReader(sb.String())
	done := make(chan struct{})
	var out []byte
	go func() {
		out, _ = cmd.Output()
		close(done)
	}()
	select {
	case <-done:
	case <-time.After(time.Duration(timeoutMs)*time.Millisecond + 15*time.Second):
		if cmd.Process != nil {
			cmd.Process.Kill()
		}
		<-done
		return Unknown, nil, "one-shot solver killed after hard timeout"
	}
	text := string(out)
	lines := strings.Split(text, "\n")
	res := Unknown
	msg := ""
	rest := ""
	for i, l := range lines {
		l = strings.TrimSpace(l)
		if l == "sat" {
			res = Sat
			rest = strings.Join(lines[i+1:], " ")
			break
		}
		if l == "unsat" {
			return Unsat, nil, ""
		}
		if l == "unknown" || l == "timeout" {
			return Unknown, nil, "unknown"
		}
		if strings.Contains(l, "(error") {
			return Unknown, nil, "solver error: " + l
		}
	}
	if res != Sat {
		return Unknown, nil, "no verdict: " + firstN(text, 200)
	}
	var vals []uint64
	if len(want) > 0 {
		if strings.Contains(rest, "(error") {
			return Unknown, nil, "solver error in get-value"
		}
		rest = quotedRe.ReplaceAllString(rest, " ")
		toks := valRe.FindAllString(rest, -1)
		k := 0
		for _, w := range want {
			if w.IsConst() {
				k += 2
				vals = append(vals, w.Val)
				continue
			}
			if k >= len(toks) {
				return Unknown, nil, "get-value parse failure"
			}
			vals = append(vals, parseVal(toks[k]))
			k++
		}
	}
	return res, vals, msg
}

// Package gosmt is a bounded symbolic executor for Go SSA that emits SMT-LIB2.
package gosmt

import (
	"fmt"
	"math/bits"
	"strconv"
	"strings"
)

// Op is a term operator.
type Op uint8

const (
	OpConst Op = iota // bit-vector constant (Val) or bool constant (W==0, Val 0/1)
	OpVar             // named variable
	OpUF              // uninterpreted function application: Name(args)
	OpAdd
	OpSub
	OpMul
	OpUDiv
	OpURem
	OpSDiv
	OpSRem
	OpAnd
	OpOr
	OpXor
	OpNot // bitwise not
	OpNeg
	OpShl
	OpLShr
	OpAShr
	OpConcat
	OpExtract // Val = hi<<8|lo
	OpZExt    // to width W
	OpSExt
	OpIte
	OpEq
	OpULt
	OpULe
	OpSLt
	OpSLe
	OpBAnd // boolean and (n-ary)
	OpBOr
	OpBNot
)

var opNames = map[Op]string{
	OpAdd: "bvadd", OpSub: "bvsub", OpMul: "bvmul", OpUDiv: "bvudiv", OpURem: "bvurem",
	OpSDiv: "bvsdiv", OpSRem: "bvsrem", OpAnd: "bvand", OpOr: "bvor", OpXor: "bvxor",
	OpNot: "bvnot", OpNeg: "bvneg", OpShl: "bvshl", OpLShr: "bvlshr", OpAShr: "bvashr",
	OpConcat: "concat", OpIte: "ite", OpEq: "=", OpULt: "bvult", OpULe: "bvule",
	OpSLt: "bvslt", OpSLe: "bvsle", OpBAnd: "and", OpBOr: "or", OpBNot: "not",
}

// Term is a hash-consed SMT term. W is the bit width (0 for Bool).
type Term struct {
	Op   Op
	W    int
	Val  uint64
	Name string
	Args []*Term
	ID   int
	// unsigned range (valid for W in 1..64)
	Lo, Hi uint64
}

func (t *Term) IsConst() bool { return t.Op == OpConst }
func (t *Term) IsBool() bool  { return t.W == 0 }

// TermTable owns all terms of one engine.
type TermTable struct {
	tab    map[string]*Term
	all    []*Term
	True   *Term
	False  *Term
	ufs    map[string]ufSig
	nvars  int
	Vars   []*Term
	UFApps []*Term
}

type ufSig struct {
	args []int
	ret  int
}

func NewTermTable() *TermTable {
	tt := &TermTable{tab: map[string]*Term{}, ufs: map[string]ufSig{}}
	tt.True = tt.mk(OpConst, 0, 1, "", nil)
	tt.False = tt.mk(OpConst, 0, 0, "", nil)
	return tt
}

func mask(w int) uint64 {
	if w >= 64 {
		return ^uint64(0)
	}
	return (uint64(1) << uint(w)) - 1
}

func (tt *TermTable) mk(op Op, w int, val uint64, name string, args []*Term) *Term {
	var sb strings.Builder
	sb.Grow(24 + 8*len(args))
	sb.WriteByte(byte(op))
	sb.WriteByte(byte(w))
	sb.WriteString(strconv.FormatUint(val, 36))
	sb.WriteByte('|')
	sb.WriteString(name)
	for _, a := range args {
		sb.WriteByte(',')
		sb.WriteString(strconv.Itoa(a.ID))
	}
	k := sb.String()
	if t, ok := tt.tab[k]; ok {
		return t
	}
	t := &Term{Op: op, W: w, Val: val, Name: name, Args: args, ID: len(tt.all)}
	tt.setRange(t)
	tt.tab[k] = t
	tt.all = append(tt.all, t)
	if op == OpVar {
		tt.Vars = append(tt.Vars, t)
	}
	if op == OpUF {
		tt.UFApps = append(tt.UFApps, t)
	}
	return t
}

func (tt *TermTable) setRange(t *Term) {
	if t.W == 0 {
		return
	}
	m := mask(t.W)
	t.Lo, t.Hi = 0, m
	switch t.Op {
	case OpConst:
		t.Lo, t.Hi = t.Val, t.Val
	case OpZExt:
		t.Lo, t.Hi = t.Args[0].Lo, t.Args[0].Hi
	case OpAnd:
		h := t.Args[0].Hi
		if t.Args[1].Hi < h {
			h = t.Args[1].Hi
		}
		t.Hi = h
	case OpOr, OpXor:
		h := t.Args[0].Hi | t.Args[1].Hi
		// round up to all-ones
		n := bits.Len64(h)
		t.Hi = mask(n) & m
		if n == 0 {
			t.Hi = 0
		}
	case OpURem:
		if t.Args[1].Lo > 0 {
			t.Hi = t.Args[1].Hi - 1
			if t.Args[0].Hi < t.Hi {
				t.Hi = t.Args[0].Hi
			}
		}
	case OpUDiv:
		if t.Args[1].Lo > 0 {
			t.Hi = t.Args[0].Hi / t.Args[1].Lo
			t.Lo = t.Args[0].Lo / t.Args[1].Hi
		}
	case OpLShr:
		if t.Args[1].IsConst() && t.Args[1].Val < 64 {
			t.Hi = t.Args[0].Hi >> t.Args[1].Val
			t.Lo = t.Args[0].Lo >> t.Args[1].Val
		} else {
			t.Hi = t.Args[0].Hi
		}
	case OpShl:
		if t.Args[1].IsConst() && t.Args[1].Val < 64 {
			s := t.Args[1].Val
			if bits.Len64(t.Args[0].Hi)+int(s) <= t.W {
				t.Hi = t.Args[0].Hi << s
				t.Lo = t.Args[0].Lo << s
			}
		}
	case OpAdd:
		a, b := t.Args[0], t.Args[1]
		h, c := bits.Add64(a.Hi, b.Hi, 0)
		if c == 0 && h <= m {
			t.Hi = h
			t.Lo = a.Lo + b.Lo
		}
	case OpSub:
		a, b := t.Args[0], t.Args[1]
		if a.Lo >= b.Hi {
			t.Lo = a.Lo - b.Hi
			t.Hi = a.Hi - b.Lo
		}
	case OpMul:
		a, b := t.Args[0], t.Args[1]
		hh, h := bits.Mul64(a.Hi, b.Hi)
		if hh == 0 && h <= m {
			t.Hi = h
			t.Lo = a.Lo * b.Lo
		}
	case OpIte:
		a, b := t.Args[1], t.Args[2]
		t.Lo, t.Hi = a.Lo, a.Hi
		if b.Lo < t.Lo {
			t.Lo = b.Lo
		}
		if b.Hi > t.Hi {
			t.Hi = b.Hi
		}
	case OpExtract:
		hi, lo := int(t.Val>>8), int(t.Val&0xff)
		_ = hi
		if lo == 0 && t.Args[0].Hi <= m {
			t.Lo, t.Hi = t.Args[0].Lo, t.Args[0].Hi
		}
	case OpConcat:
		a, b := t.Args[0], t.Args[1]
		if a.Hi == 0 {
			t.Lo, t.Hi = b.Lo, b.Hi
		} else {
			t.Hi = a.Hi<<uint(b.W) | mask(b.W)
			t.Lo = a.Lo << uint(b.W)
		}
	}
}

// ---- constructors -----------------------------------------------------

func (tt *TermTable) Const(w int, v uint64) *Term {
	if w == 0 {
		if v != 0 {
			return tt.True
		}
		return tt.False
	}
	return tt.mk(OpConst, w, v&mask(w), "", nil)
}

func (tt *TermTable) Bool(b bool) *Term {
	if b {
		return tt.True
	}
	return tt.False
}

// Var creates (or returns) a named variable of width w (0 = Bool).
func (tt *TermTable) Var(name string, w int) *Term {
	return tt.mk(OpVar, w, 0, name, nil)
}

// FreshVar makes a new uniquely named variable.
func (tt *TermTable) FreshVar(prefix string, w int) *Term {
	tt.nvars++
	return tt.Var(fmt.Sprintf("%s!%d", prefix, tt.nvars), w)
}

// UF applies an uninterpreted function; signature is fixed on first use.
func (tt *TermTable) UF(name string, ret int, args ...*Term) *Term {
	if _, ok := tt.ufs[name]; !ok {
		s := ufSig{ret: ret}
		for _, a := range args {
			s.args = append(s.args, a.W)
		}
		tt.ufs[name] = s
	}
	return tt.mk(OpUF, ret, 0, name, append([]*Term(nil), args...))
}

func sext64(v uint64, w int) int64 {
	if w >= 64 {
		return int64(v)
	}
	s := uint(64 - w)
	return int64(v<<s) >> s
}

func (tt *TermTable) bin(op Op, a, b *Term) *Term {
	if a.W != b.W {
		panic(fmt.Sprintf("width mismatch %v: %d vs %d", opNames[op], a.W, b.W))
	}
	w := a.W
	if a.IsConst() && b.IsConst() {
		x, y := a.Val, b.Val
		switch op {
		case OpAdd:
			return tt.Const(w, x+y)
		case OpSub:
			return tt.Const(w, x-y)
		case OpMul:
			return tt.Const(w, x*y)
		case OpUDiv:
			if y == 0 {
				return tt.Const(w, mask(w))
			}
			return tt.Const(w, x/y)
		case OpURem:
			if y == 0 {
				return tt.Const(w, x)
			}
			return tt.Const(w, x%y)
		case OpSDiv:
			sx, sy := sext64(x, w), sext64(y, w)
			if sy == 0 {
				if sx < 0 {
					return tt.Const(w, 1)
				}
				return tt.Const(w, mask(w))
			}
			if sy == -1 {
				return tt.Const(w, uint64(-sx))
			}
			return tt.Const(w, uint64(sx/sy))
		case OpSRem:
			sx, sy := sext64(x, w), sext64(y, w)
			if sy == 0 {
				return tt.Const(w, x)
			}
			if sy == -1 {
				return tt.Const(w, 0)
			}
			return tt.Const(w, uint64(sx%sy))
		case OpAnd:
			return tt.Const(w, x&y)
		case OpOr:
			return tt.Const(w, x|y)
		case OpXor:
			return tt.Const(w, x^y)
		case OpShl:
			if y >= uint64(w) {
				return tt.Const(w, 0)
			}
			return tt.Const(w, x<<y)
		case OpLShr:
			if y >= uint64(w) {
				return tt.Const(w, 0)
			}
			return tt.Const(w, x>>y)
		case OpAShr:
			sx := sext64(x, w)
			if y >= uint64(w) {
				y = uint64(w - 1)
			}
			return tt.Const(w, uint64(sx>>y))
		}
	}
	// identities
	switch op {
	case OpAdd:
		if a.IsConst() && a.Val == 0 {
			return b
		}
		if b.IsConst() && b.Val == 0 {
			return a
		}
		if a.IsConst() { // canonical: const on the right
			a, b = b, a
		}
		// (x + c1) + c2
		if b.IsConst() && a.Op == OpAdd && a.Args[1].IsConst() {
			return tt.bin(OpAdd, a.Args[0], tt.Const(w, a.Args[1].Val+b.Val))
		}
	case OpSub:
		if b.IsConst() && b.Val == 0 {
			return a
		}
		if a == b {
			return tt.Const(w, 0)
		}
		if b.IsConst() && a.Op == OpAdd && a.Args[1].IsConst() && a.Args[1].Val >= b.Val {
			return tt.bin(OpAdd, a.Args[0], tt.Const(w, a.Args[1].Val-b.Val))
		}
		// (x + y) - y, (x + y) - x
		if a.Op == OpAdd {
			if a.Args[1] == b {
				return a.Args[0]
			}
			if a.Args[0] == b {
				return a.Args[1]
			}
		}
	case OpMul:
		if a.IsConst() {
			a, b = b, a
		}
		if b.IsConst() {
			if b.Val == 0 {
				return b
			}
			if b.Val == 1 {
				return a
			}
		}
	case OpUDiv:
		if b.IsConst() && b.Val == 1 {
			return a
		}
		if b.IsConst() && b.Val != 0 && b.Val&(b.Val-1) == 0 {
			return tt.bin(OpLShr, a, tt.Const(w, uint64(bits.TrailingZeros64(b.Val))))
		}
	case OpURem:
		if b.IsConst() && b.Val == 1 {
			return tt.Const(w, 0)
		}
		if b.IsConst() && b.Val != 0 && b.Val&(b.Val-1) == 0 {
			return tt.bin(OpAnd, a, tt.Const(w, b.Val-1))
		}
		if b.Lo > 0 && a.Hi < b.Lo {
			return a
		}
	case OpSDiv:
		if b.IsConst() && b.Val == 1 {
			return a
		}
		// non-negative dividend and positive constant divisor => unsigned
		if a.Hi <= mask(w)>>1 && b.Lo > 0 && b.Hi <= mask(w)>>1 {
			return tt.bin(OpUDiv, a, b)
		}
	case OpSRem:
		if a.Hi <= mask(w)>>1 && b.Lo > 0 && b.Hi <= mask(w)>>1 {
			return tt.bin(OpURem, a, b)
		}
	case OpAnd:
		if a.IsConst() {
			a, b = b, a
		}
		if b.IsConst() {
			if b.Val == 0 {
				return b
			}
			if b.Val == mask(w) {
				return a
			}
			// mask covers the whole range of a
			if b.Val&(b.Val+1) == 0 && a.Hi <= b.Val {
				return a
			}
			// every possible one-bit of a lies below the lowest set bit of the mask
			if a.Hi < b.Val&-b.Val {
				return tt.Const(w, 0)
			}
		}
		if a == b {
			return a
		}
	case OpOr:
		if a.IsConst() {
			a, b = b, a
		}
		if b.IsConst() {
			if b.Val == 0 {
				return a
			}
			if b.Val == mask(w) {
				return b
			}
		}
		if a == b {
			return a
		}
		if r := tt.orLanes(a, b); r != nil {
			return r
		}
	case OpXor:
		if a.IsConst() {
			a, b = b, a
		}
		if b.IsConst() && b.Val == 0 {
			return a
		}
		if a == b {
			return tt.Const(w, 0)
		}
	case OpShl, OpLShr, OpAShr:
		if b.IsConst() && b.Val == 0 {
			return a
		}
		if b.IsConst() && b.Val >= uint64(w) && op != OpAShr {
			return tt.Const(w, 0)
		}
		if a.IsConst() && a.Val == 0 {
			return a
		}
		if op == OpLShr && b.IsConst() && bits.Len64(a.Hi) <= int(b.Val) {
			return tt.Const(w, 0)
		}
		// lshr(zext(x), c) etc. left to the solver
	}
	return tt.mk(op, w, 0, "", []*Term{a, b})
}

func (tt *TermTable) Add(a, b *Term) *Term  { return tt.bin(OpAdd, a, b) }
func (tt *TermTable) Sub(a, b *Term) *Term  { return tt.bin(OpSub, a, b) }
func (tt *TermTable) Mul(a, b *Term) *Term  { return tt.bin(OpMul, a, b) }
func (tt *TermTable) UDiv(a, b *Term) *Term { return tt.bin(OpUDiv, a, b) }
func (tt *TermTable) URem(a, b *Term) *Term { return tt.bin(OpURem, a, b) }
func (tt *TermTable) SDiv(a, b *Term) *Term { return tt.bin(OpSDiv, a, b) }
func (tt *TermTable) SRem(a, b *Term) *Term { return tt.bin(OpSRem, a, b) }
func (tt *TermTable) And(a, b *Term) *Term  { return tt.bin(OpAnd, a, b) }
func (tt *TermTable) Or(a, b *Term) *Term   { return tt.bin(OpOr, a, b) }
func (tt *TermTable) Xor(a, b *Term) *Term  { return tt.bin(OpXor, a, b) }
func (tt *TermTable) Shl(a, b *Term) *Term  { return tt.bin(OpShl, a, b) }
func (tt *TermTable) LShr(a, b *Term) *Term { return tt.bin(OpLShr, a, b) }
func (tt *TermTable) AShr(a, b *Term) *Term { return tt.bin(OpAShr, a, b) }

func (tt *TermTable) Not(a *Term) *Term {
	if a.IsConst() {
		return tt.Const(a.W, ^a.Val)
	}
	if a.Op == OpNot {
		return a.Args[0]
	}
	return tt.mk(OpNot, a.W, 0, "", []*Term{a})
}

func (tt *TermTable) Neg(a *Term) *Term {
	if a.IsConst() {
		return tt.Const(a.W, -a.Val)
	}
	return tt.mk(OpNeg, a.W, 0, "", []*Term{a})
}

func (tt *TermTable) Concat(a, b *Term) *Term {
	w := a.W + b.W
	if w > 64 {
		panic("concat wider than 64 bits")
	}
	if a.IsConst() && b.IsConst() {
		return tt.Const(w, a.Val<<uint(b.W)|b.Val)
	}
	if a.IsConst() && a.Val == 0 {
		return tt.ZExt(b, w)
	}
	return tt.mk(OpConcat, w, 0, "", []*Term{a, b})
}

// Extract bits hi..lo (inclusive).
func (tt *TermTable) Extract(a *Term, hi, lo int) *Term {
	w := hi - lo + 1
	if lo == 0 && w == a.W {
		return a
	}
	if a.IsConst() {
		return tt.Const(w, a.Val>>uint(lo))
	}
	switch a.Op {
	case OpZExt:
		in := a.Args[0]
		if hi < in.W {
			return tt.Extract(in, hi, lo)
		}
		if lo >= in.W {
			return tt.Const(w, 0)
		}
		if lo == 0 {
			return tt.ZExt(in, w)
		}
	case OpSExt:
		in := a.Args[0]
		if hi < in.W {
			return tt.Extract(in, hi, lo)
		}
	case OpConcat:
		hiT, loT := a.Args[0], a.Args[1]
		if hi < loT.W {
			return tt.Extract(loT, hi, lo)
		}
		if lo >= loT.W {
			return tt.Extract(hiT, hi-loT.W, lo-loT.W)
		}
	case OpExtract:
		l0 := int(a.Val & 0xff)
		return tt.Extract(a.Args[0], hi+l0, lo+l0)
	case OpOr, OpAnd, OpXor:
		// push extraction through bitwise ops when one side becomes constant/simple
		x := tt.Extract(a.Args[0], hi, lo)
		y := tt.Extract(a.Args[1], hi, lo)
		if x.IsConst() || y.IsConst() || lo == 0 {
			return tt.bin(a.Op, x, y)
		}
	case OpShl:
		// extract(shl(x, c), hi, lo) with lo >= c  => extract(x, hi-c, lo-c)
		if a.Args[1].IsConst() {
			c := int(a.Args[1].Val)
			if lo >= c {
				return tt.Extract(a.Args[0], hi-c, lo-c)
			}
			if hi < c {
				return tt.Const(w, 0)
			}
		}
	case OpLShr:
		if a.Args[1].IsConst() {
			c := int(a.Args[1].Val)
			if hi+c < a.W {
				return tt.Extract(a.Args[0], hi+c, lo+c)
			}
		}
	case OpIte:
		if a.Args[1].IsConst() && a.Args[2].IsConst() {
			return tt.Ite(a.Args[0], tt.Extract(a.Args[1], hi, lo), tt.Extract(a.Args[2], hi, lo))
		}
	case OpAdd, OpSub, OpMul:
		if lo == 0 {
			// low bits of arithmetic depend only on low bits of operands
			x := tt.Extract(a.Args[0], hi, 0)
			y := tt.Extract(a.Args[1], hi, 0)
			return tt.bin(a.Op, x, y)
		}
	}
	return tt.mk(OpExtract, w, uint64(hi)<<8|uint64(lo), "", []*Term{a})
}

func (tt *TermTable) ZExt(a *Term, w int) *Term {
	if w == a.W {
		return a
	}
	if w < a.W {
		return tt.Extract(a, w-1, 0)
	}
	if a.IsConst() {
		return tt.Const(w, a.Val)
	}
	if a.Op == OpZExt {
		return tt.ZExt(a.Args[0], w)
	}
	return tt.mk(OpZExt, w, 0, "", []*Term{a})
}

func (tt *TermTable) SExt(a *Term, w int) *Term {
	if w == a.W {
		return a
	}
	if w < a.W {
		return tt.Extract(a, w-1, 0)
	}
	if a.IsConst() {
		return tt.Const(w, uint64(sext64(a.Val, a.W)))
	}
	if a.Hi <= mask(a.W)>>1 { // sign bit known clear
		return tt.ZExt(a, w)
	}
	return tt.mk(OpSExt, w, 0, "", []*Term{a})
}

func (tt *TermTable) Ite(c, a, b *Term) *Term {
	if c == tt.True {
		return a
	}
	if c == tt.False {
		return b
	}
	if a == b {
		return a
	}
	if a.W == 0 {
		if a == tt.True && b == tt.False {
			return c
		}
		if a == tt.False && b == tt.True {
			return tt.BNot(c)
		}
		if a == tt.True {
			return tt.BOr(c, b)
		}
		if a == tt.False {
			return tt.BAnd(tt.BNot(c), b)
		}
		if b == tt.True {
			return tt.BOr(tt.BNot(c), a)
		}
		if b == tt.False {
			return tt.BAnd(c, a)
		}
	}
	if c.Op == OpBNot {
		return tt.Ite(c.Args[0], b, a)
	}
	// ite(c, x, ite(c, y, z)) => ite(c, x, z)
	if b.Op == OpIte && b.Args[0] == c {
		return tt.Ite(c, a, b.Args[2])
	}
	if a.Op == OpIte && a.Args[0] == c {
		return tt.Ite(c, a.Args[1], b)
	}
	return tt.mk(OpIte, a.W, 0, "", []*Term{c, a, b})
}

func (tt *TermTable) Eq(a, b *Term) *Term {
	if a == b {
		return tt.True
	}
	if a.W != b.W {
		panic(fmt.Sprintf("eq width mismatch %d vs %d", a.W, b.W))
	}
	if a.IsConst() && b.IsConst() {
		return tt.Bool(a.Val == b.Val)
	}
	if a.W == 0 {
		if a.IsConst() {
			a, b = b, a
		}
		if b == tt.True {
			return a
		}
		if b == tt.False {
			return tt.BNot(a)
		}
	} else {
		if a.Hi < b.Lo || b.Hi < a.Lo {
			return tt.False
		}
		if a.IsConst() {
			a, b = b, a
		}
		if b.IsConst() {
			// eq(ite(c,k1,k2), k)
			if a.Op == OpIte && (a.Args[1].IsConst() || a.Args[2].IsConst()) {
				return tt.Ite(a.Args[0], tt.Eq(a.Args[1], b), tt.Eq(a.Args[2], b))
			}
			if a.Op == OpZExt {
				in := a.Args[0]
				if b.Val > mask(in.W) {
					return tt.False
				}
				return tt.Eq(in, tt.Const(in.W, b.Val))
			}
		}
		if a.ID > b.ID && !b.IsConst() {
			a, b = b, a
		}
	}
	return tt.mk(OpEq, 0, 0, "", []*Term{a, b})
}

func (tt *TermTable) cmp(op Op, a, b *Term) *Term {
	if a.W != b.W {
		panic(fmt.Sprintf("cmp width mismatch %d vs %d", a.W, b.W))
	}
	w := a.W
	if a.IsConst() && b.IsConst() {
		switch op {
		case OpULt:
			return tt.Bool(a.Val < b.Val)
		case OpULe:
			return tt.Bool(a.Val <= b.Val)
		case OpSLt:
			return tt.Bool(sext64(a.Val, w) < sext64(b.Val, w))
		case OpSLe:
			return tt.Bool(sext64(a.Val, w) <= sext64(b.Val, w))
		}
	}
	if a == b {
		return tt.Bool(op == OpULe || op == OpSLe)
	}
	half := mask(w) >> 1
	switch op {
	case OpULt:
		if a.Hi < b.Lo {
			return tt.True
		}
		if a.Lo >= b.Hi {
			return tt.False
		}
	case OpULe:
		if a.Hi <= b.Lo {
			return tt.True
		}
		if a.Lo > b.Hi {
			return tt.False
		}
	case OpSLt, OpSLe:
		if a.Hi <= half && b.Hi <= half {
			if op == OpSLt {
				return tt.cmp(OpULt, a, b)
			}
			return tt.cmp(OpULe, a, b)
		}
	}
	// compare two zero-extensions of the same source width
	if (op == OpULt || op == OpULe) && a.Op == OpZExt && b.IsConst() && b.Val <= mask(a.Args[0].W) {
		return tt.cmp(op, a.Args[0], tt.Const(a.Args[0].W, b.Val))
	}
	return tt.mk(op, 0, 0, "", []*Term{a, b})
}

func (tt *TermTable) ULt(a, b *Term) *Term { return tt.cmp(OpULt, a, b) }
func (tt *TermTable) ULe(a, b *Term) *Term { return tt.cmp(OpULe, a, b) }
func (tt *TermTable) SLt(a, b *Term) *Term { return tt.cmp(OpSLt, a, b) }
func (tt *TermTable) SLe(a, b *Term) *Term { return tt.cmp(OpSLe, a, b) }

func (tt *TermTable) BNot(a *Term) *Term {
	if a == tt.True {
		return tt.False
	}
	if a == tt.False {
		return tt.True
	}
	if a.Op == OpBNot {
		return a.Args[0]
	}
	return tt.mk(OpBNot, 0, 0, "", []*Term{a})
}

func (tt *TermTable) nary(op Op, xs []*Term) *Term {
	unit, zero := tt.True, tt.False
	if op == OpBOr {
		unit, zero = tt.False, tt.True
	}
	var out []*Term
	seen := map[int]bool{}
	var add func(x *Term) bool
	add = func(x *Term) bool {
		if x == unit {
			return true
		}
		if x == zero {
			return false
		}
		if x.Op == op {
			for _, y := range x.Args {
				if !add(y) {
					return false
				}
			}
			return true
		}
		if seen[x.ID] {
			return true
		}
		seen[x.ID] = true
		out = append(out, x)
		return true
	}
	for _, x := range xs {
		if !add(x) {
			return zero
		}
	}
	// x and not x
	for _, x := range out {
		if x.Op == OpBNot && seen[x.Args[0].ID] {
			return zero
		}
	}
	if len(out) == 0 {
		return unit
	}
	if len(out) == 1 {
		return out[0]
	}
	return tt.mk(op, 0, 0, "", out)
}

func (tt *TermTable) BAnd(xs ...*Term) *Term { return tt.nary(OpBAnd, xs) }
func (tt *TermTable) BOr(xs ...*Term) *Term  { return tt.nary(OpBOr, xs) }
func (tt *TermTable) Implies(a, b *Term) *Term {
	return tt.BOr(tt.BNot(a), b)
}

// Resize converts a to width w with zero or sign extension / truncation.
func (tt *TermTable) Resize(a *Term, w int, signed bool) *Term {
	if w == a.W {
		return a
	}
	if w < a.W {
		return tt.Extract(a, w-1, 0)
	}
	if signed {
		return tt.SExt(a, w)
	}
	return tt.ZExt(a, w)
}

// ---- evaluation under a model ------------------------------------------

// Model maps variable names to values and UF applications (by key) to values.
type Model struct {
	Vars map[string]uint64
	UF   map[string]uint64 // key: name(arg,arg,...)
}

func ufKey(name string, args []uint64) string {
	var sb strings.Builder
	sb.WriteString(name)
	sb.WriteByte('(')
	for i, a := range args {
		if i > 0 {
			sb.WriteByte(',')
		}
		sb.WriteString(strconv.FormatUint(a, 10))
	}
	sb.WriteByte(')')
	return sb.String()
}

// Eval evaluates t under m (unknown vars/UF applications default to 0).
func (tt *TermTable) Eval(t *Term, m *Model, memo map[int]uint64) uint64 {
	if v, ok := memo[t.ID]; ok {
		return v
	}
	var r uint64
	ev := func(i int) uint64 { return tt.Eval(t.Args[i], m, memo) }
	w := t.W
	switch t.Op {
	case OpConst:
		r = t.Val
	case OpVar:
		r = m.Vars[t.Name]
	case OpUF:
		as := make([]uint64, len(t.Args))
		for i := range t.Args {
			as[i] = ev(i)
		}
		r = m.UF[ufKey(t.Name, as)]
	case OpIte:
		if ev(0) != 0 {
			r = ev(1)
		} else {
			r = ev(2)
		}
	case OpBAnd:
		r = 1
		for i := range t.Args {
			if ev(i) == 0 {
				r = 0
				break
			}
		}
	case OpBOr:
		r = 0
		for i := range t.Args {
			if ev(i) != 0 {
				r = 1
				break
			}
		}
	case OpBNot:
		r = 1 - ev(0)
	case OpEq:
		if ev(0) == ev(1) {
			r = 1
		}
	case OpULt, OpULe, OpSLt, OpSLe:
		c := tt.cmp(t.Op, tt.Const(t.Args[0].W, ev(0)), tt.Const(t.Args[0].W, ev(1)))
		if c == tt.True {
			r = 1
		}
	case OpNot:
		r = ^ev(0)
	case OpNeg:
		r = -ev(0)
	case OpConcat:
		r = ev(0)<<uint(t.Args[1].W) | ev(1)
	case OpExtract:
		r = ev(0) >> (t.Val & 0xff)
	case OpZExt:
		r = ev(0)
	case OpSExt:
		r = uint64(sext64(ev(0), t.Args[0].W))
	default:
		c := tt.bin(t.Op, tt.Const(w, ev(0)), tt.Const(w, ev(1)))
		r = c.Val
	}
	if w > 0 {
		r &= mask(w)
	}
	memo[t.ID] = r
	return r
}

// ---- SMT-LIB printing -----------------------------------------------------

func sortStr(w int) string {
	if w == 0 {
		return "Bool"
	}
	return "(_ BitVec " + strconv.Itoa(w) + ")"
}

func smtName(s string) string {
	return "|" + strings.ReplaceAll(s, "|", "_") + "|"
}

func constStr(t *Term) string {
	if t.W == 0 {
		if t.Val != 0 {
			return "true"
		}
		return "false"
	}
	if t.W%4 == 0 {
		return fmt.Sprintf("#x%0*x", t.W/4, t.Val)
	}
	return fmt.Sprintf("#b%0*b", t.W, t.Val)
}

// ref returns the SMT reference to a term (a leaf literal or its defined name).
func ref(t *Term) string {
	switch t.Op {
	case OpConst:
		return constStr(t)
	case OpVar:
		return smtName(t.Name)
	}
	return "t" + strconv.Itoa(t.ID)
}

// body prints the defining expression of a non-leaf term in terms of refs.
func body(t *Term) string {
	var sb strings.Builder
	switch t.Op {
	case OpUF:
		if len(t.Args) == 0 {
			return smtName(t.Name)
		}
		sb.WriteString("(" + smtName(t.Name))
	case OpExtract:
		fmt.Fprintf(&sb, "((_ extract %d %d)", t.Val>>8, t.Val&0xff)
	case OpZExt:
		fmt.Fprintf(&sb, "((_ zero_extend %d)", t.W-t.Args[0].W)
	case OpSExt:
		fmt.Fprintf(&sb, "((_ sign_extend %d)", t.W-t.Args[0].W)
	default:
		sb.WriteString("(" + opNames[t.Op])
	}
	for _, a := range t.Args {
		sb.WriteByte(' ')
		sb.WriteString(ref(a))
	}
	sb.WriteByte(')')
	return sb.String()
}

// String renders a term as a (possibly large) s-expression; for diagnostics only.
func (t *Term) String() string {
	return t.str(0)
}

func (t *Term) str(d int) string {
	if t.Op == OpConst {
		if t.W == 0 {
			return constStr(t)
		}
		return strconv.FormatUint(t.Val, 10)
	}
	if t.Op == OpVar {
		return t.Name
	}
	if d > 6 {
		return "…"
	}
	var sb strings.Builder
	switch t.Op {
	case OpUF:
		sb.WriteString("(" + t.Name)
	case OpExtract:
		fmt.Fprintf(&sb, "(extract[%d:%d]", t.Val>>8, t.Val&0xff)
	case OpZExt:
		fmt.Fprintf(&sb, "(zext%d", t.W)
	case OpSExt:
		fmt.Fprintf(&sb, "(sext%d", t.W)
	default:
		sb.WriteString("(" + opNames[t.Op])
	}
	for _, a := range t.Args {
		sb.WriteByte(' ')
		sb.WriteString(a.str(d + 1))
	}
	sb.WriteByte(')')
	return sb.String()
}

// ---- byte-lane canonicalisation -------------------------------------------------------
// Values assembled with shifts and ors from pieces of other values (binary.LittleEndian
// get/put and friends) are recognised and rebuilt as concatenations; in particular the
// reassembly of all pieces of x in place yields x itself.

type lane struct {
	off, w int
	src    *Term
	lo     int
}

// lanesOf decomposes t into non-overlapping lanes (zero elsewhere). ok=false if t is opaque
// (then it is a single lane covering everything, which the caller may still use).
func (tt *TermTable) lanesOf(t *Term, depth int) ([]lane, bool) {
	if depth > 12 {
		return nil, false
	}
	switch t.Op {
	case OpConst:
		if t.Val == 0 {
			return nil, true
		}
		return nil, false
	case OpZExt:
		in := t.Args[0]
		ls, ok := tt.lanesOf(in, depth+1)
		if !ok {
			return []lane{{0, in.W, in, 0}}, true
		}
		return ls, true
	case OpExtract:
		lo := int(t.Val & 0xff)
		return []lane{{0, t.W, t.Args[0], lo}}, true
	case OpShl:
		if !t.Args[1].IsConst() {
			return nil, false
		}
		c := int(t.Args[1].Val)
		ls, ok := tt.lanesOf(t.Args[0], depth+1)
		if !ok {
			ls = []lane{{0, t.W, t.Args[0], 0}}
		}
		var out []lane
		for _, l := range ls {
			no := l.off + c
			if no >= t.W {
				continue
			}
			w := l.w
			if no+w > t.W {
				w = t.W - no
			}
			out = append(out, lane{no, w, l.src, l.lo})
		}
		return out, true
	case OpConcat:
		hi, lo := t.Args[0], t.Args[1]
		lls, ok := tt.lanesOf(lo, depth+1)
		if !ok {
			lls = []lane{{0, lo.W, lo, 0}}
		}
		hls, ok := tt.lanesOf(hi, depth+1)
		if !ok {
			hls = []lane{{0, hi.W, hi, 0}}
		}
		out := append([]lane(nil), lls...)
		for _, l := range hls {
			out = append(out, lane{l.off + lo.W, l.w, l.src, l.lo})
		}
		return out, true
	case OpOr:
		a, ok1 := tt.lanesOf(t.Args[0], depth+1)
		b, ok2 := tt.lanesOf(t.Args[1], depth+1)
		if !ok1 || !ok2 {
			return nil, false
		}
		m, ok := mergeLanes(a, b)
		return m, ok
	}
	return nil, false
}

func mergeLanes(a, b []lane) ([]lane, bool) {
	out := append(append([]lane(nil), a...), b...)
	// insertion sort by offset
	for i := 1; i < len(out); i++ {
		for j := i; j > 0 && out[j].off < out[j-1].off; j-- {
			out[j], out[j-1] = out[j-1], out[j]
		}
	}
	for i := 1; i < len(out); i++ {
		if out[i-1].off+out[i-1].w > out[i].off {
			return nil, false // overlap
		}
	}
	return out, true
}

func (tt *TermTable) fromLanes(w int, ls []lane) *Term {
	// fuse adjacent lanes of the same source
	var f []lane
	for _, l := range ls {
		if n := len(f); n > 0 {
			p := &f[n-1]
			if p.src == l.src && p.off+p.w == l.off && p.lo+p.w == l.lo {
				p.w += l.w
				continue
			}
		}
		f = append(f, l)
	}
	if len(f) == 1 && f[0].off == 0 && f[0].lo == 0 && f[0].w == w && f[0].src.W == w {
		return f[0].src
	}
	// build from the least significant piece upwards
	var res *Term
	pos := 0
	add := func(p *Term) {
		if res == nil {
			res = p
		} else {
			res = tt.mkConcat(p, res)
		}
	}
	for _, l := range f {
		if l.off > pos {
			add(tt.Const(l.off-pos, 0))
		}
		add(tt.Extract(l.src, l.lo+l.w-1, l.lo))
		pos = l.off + l.w
	}
	if pos < w {
		add(tt.Const(w-pos, 0))
	}
	if res == nil {
		return tt.Const(w, 0)
	}
	return res
}

// mkConcat builds a concat node without the zero-extension rewrite (keeps lane form stable).
func (tt *TermTable) mkConcat(hi, lo *Term) *Term {
	if hi.IsConst() && lo.IsConst() {
		return tt.Const(hi.W+lo.W, hi.Val<<uint(lo.W)|lo.Val)
	}
	if hi.IsConst() && hi.Val == 0 {
		return tt.ZExt(lo, hi.W+lo.W)
	}
	return tt.mk(OpConcat, hi.W+lo.W, 0, "", []*Term{hi, lo})
}

// orLanes tries to express a|b through lanes.
func (tt *TermTable) orLanes(a, b *Term) *Term {
	interesting := func(t *Term) bool {
		return t.Op == OpShl || t.Op == OpConcat || (t.Op == OpZExt && (t.Args[0].Op == OpExtract || t.Args[0].Op == OpConcat)) ||
			(t.Op == OpOr)
	}
	if !interesting(a) && !interesting(b) {
		return nil
	}
	la, ok := tt.lanesOf(a, 0)
	if !ok {
		return nil
	}
	lb, ok := tt.lanesOf(b, 0)
	if !ok {
		return nil
	}
	m, ok := mergeLanes(la, lb)
	if !ok {
		return nil
	}
	return tt.fromLanes(a.W, m)
}

package gosmt

import (
	"golang.org/x/tools/go/ssa"
)

// fnInfo caches per-function analysis: register numbering and post-dominators.
type fnInfo struct {
	fn       *ssa.Function
	regIndex map[ssa.Value]int
	nregs    int
	defBlock []*ssa.BasicBlock // by register; nil for params/freevars
	ipdom    []int             // by block index; -1 = virtual exit
	inLoop   []bool
	exitIf   []bool // block ends in an If that can leave a loop containing it
}

func (e *Engine) info(fn *ssa.Function) *fnInfo {
	if fi, ok := e.fnInfos[fn]; ok {
		return fi
	}
	fi := &fnInfo{fn: fn, regIndex: map[ssa.Value]int{}}
	add := func(v ssa.Value, b *ssa.BasicBlock) {
		fi.regIndex[v] = fi.nregs
		fi.defBlock = append(fi.defBlock, b)
		fi.nregs++
	}
	for _, p := range fn.Params {
		add(p, nil)
	}
	for _, fv := range fn.FreeVars {
		add(fv, nil)
	}
	for _, b := range fn.Blocks {
		for _, ins := range b.Instrs {
			if v, ok := ins.(ssa.Value); ok {
				add(v, b)
			}
		}
	}
	fi.computeIpdom()
	fi.computeLoops()
	e.fnInfos[fn] = fi
	return fi
}

func (fi *fnInfo) liveAt(b *ssa.BasicBlock, r int) bool {
	db := fi.defBlock[r]
	if db == nil {
		return true
	}
	return db.Dominates(b)
}

// computeIpdom computes immediate post-dominators with a virtual exit node (-1 => index n).
func (fi *fnInfo) computeIpdom() {
	blocks := fi.fn.Blocks
	n := len(blocks)
	exit := n
	// reverse graph: preds in reverse graph = succs in CFG; exit's "succs" = blocks without successors
	succs := make([][]int, n+1) // CFG successors incl. virtual exit
	for _, b := range blocks {
		if len(b.Succs) == 0 {
			if _, isPanic := b.Instrs[len(b.Instrs)-1].(*ssa.Panic); !isPanic {
				succs[b.Index] = []int{exit}
			}
		}
		for _, s := range b.Succs {
			succs[b.Index] = append(succs[b.Index], s.Index)
		}
	}
	// reverse post-order on the reverse CFG starting at exit
	rpreds := make([][]int, n+1) // reverse-graph successors = CFG predecessors
	for i := 0; i <= n; i++ {
		for _, s := range succs[i] {
			rpreds[s] = append(rpreds[s], i)
		}
	}
	visited := make([]bool, n+1)
	var order []int
	var dfs func(int)
	dfs = func(u int) {
		visited[u] = true
		for _, v := range rpreds[u] {
			if !visited[v] {
				dfs(v)
			}
		}
		order = append(order, u)
	}
	dfs(exit)
	// blocks that cannot reach exit (infinite loops): connect them to exit virtually
	for i := 0; i < n; i++ {
		if !visited[i] && len(blocks[i].Succs) > 0 {
			// treat as if it had an edge to exit
			succs[i] = append(succs[i], exit)
			rpreds[exit] = append(rpreds[exit], i)
		}
	}
	if len(order) != n+1 {
		visited = make([]bool, n+1)
		order = order[:0]
		dfs(exit)
	}
	rpoNum := make([]int, n+1)
	for i := range rpoNum {
		rpoNum[i] = -1
	}
	// reverse postorder
	for i, j := 0, len(order)-1; i < j; i, j = i+1, j-1 {
		order[i], order[j] = order[j], order[i]
	}
	for i, u := range order {
		rpoNum[u] = i
	}
	idom := make([]int, n+1)
	for i := range idom {
		idom[i] = -2
	}
	idom[exit] = exit
	intersect := func(a, b int) int {
		for a != b {
			for rpoNum[a] > rpoNum[b] {
				a = idom[a]
			}
			for rpoNum[b] > rpoNum[a] {
				b = idom[b]
			}
		}
		return a
	}
	changed := true
	for changed {
		changed = false
		for _, u := range order {
			if u == exit {
				continue
			}
			newI := -2
			for _, s := range succs[u] { // predecessors in reverse graph
				if idom[s] == -2 {
					continue
				}
				if newI == -2 {
					newI = s
				} else {
					newI = intersect(s, newI)
				}
			}
			if newI != -2 && idom[u] != newI {
				idom[u] = newI
				changed = true
			}
		}
	}
	fi.ipdom = make([]int, n)
	for i := 0; i < n; i++ {
		if idom[i] == exit || idom[i] == -2 {
			fi.ipdom[i] = -1
		} else {
			fi.ipdom[i] = idom[i]
		}
	}
}

// computeLoops marks blocks whose terminating If is a loop exit test.
func (fi *fnInfo) computeLoops() {
	blocks := fi.fn.Blocks
	n := len(blocks)
	fi.exitIf = make([]bool, n)
	fi.inLoop = make([]bool, n)
	for _, tail := range blocks {
		for _, head := range tail.Succs {
			if !head.Dominates(tail) {
				continue
			}
			// natural loop of back edge tail->head
			body := map[int]bool{head.Index: true}
			stack := []*ssa.BasicBlock{}
			if !body[tail.Index] {
				body[tail.Index] = true
				stack = append(stack, tail)
			}
			for len(stack) > 0 {
				b := stack[len(stack)-1]
				stack = stack[:len(stack)-1]
				for _, p := range b.Preds {
					if !body[p.Index] {
						body[p.Index] = true
						stack = append(stack, p)
					}
				}
			}
			for bi := range body {
				fi.inLoop[bi] = true
				b := blocks[bi]
				if len(b.Succs) == 2 {
					for _, s := range b.Succs {
						if !body[s.Index] {
							fi.exitIf[bi] = true
						}
					}
				}
			}
		}
	}
}

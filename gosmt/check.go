package gosmt

import (
	"runtime/debug"
	"runtime"
	"sync/atomic"
	"encoding/json"
	"fmt"
	"os"
	"path/filepath"
	"sort"
	"strings"
	"sync"
	"time"

	"golang.org/x/tools/go/ssa"
)

// stdlib packages whose init functions are executed (concretely) by the engine
var initAllow = map[string]bool{
	"errors": true, "io": true, "io/fs": true, "unicode": true, "unicode/utf8": true, "unicode/utf16": true,
	"strings": true, "bytes": true, "strconv": true, "encoding/binary": true, "hash/crc32": true,
	"math": true, "math/bits": true, "sort": true, "path": true, "path/filepath": true, "encoding/hex": true,
	"bufio": true, "slices": true, "maps": true, "cmp": true, "hash": true, "hash/crc64": true, "time": true,
	"os": true, "syscall": true, "regexp": true, "regexp/syntax": true, "internal/oserror": true, "internal/bytealg": false,
}

func (e *Engine) initWanted(p *ssa.Package) bool {
	path := p.Pkg.Path()
	if strings.HasPrefix(path, repoMod) {
		return true
	}
	if strings.HasPrefix(path, "github.com/google/uuid") {
		return true
	}
	if strings.HasPrefix(path, "github.com/") || strings.HasPrefix(path, "golang.org/") {
		return false
	}
	return initAllow[path]
}

// runInit executes package initialisers concretely into the base heap.
func (e *Engine) runInit(p *ssa.Package) {
	st := e.newState()
	e.inInit = true
	defer func() { e.inInit = false }()
	saved := e.opts
	e.opts.Unwind = 1 << 30
	e.opts.MaxSteps = 400_000_000
	fn := p.Func("init")
	if fn != nil {
		func() {
			defer func() {
				if r := recover(); r != nil {
					if a, ok := r.(abortRun); ok {
						e.Cuts["package init aborted: "+a.why]++
						return
					}
					panic(r)
				}
			}()
			e.callFunc(st, fn, nil, nil, nil)
		}()
	}
	e.opts = saved
	e.stats = Stats{}
	// whatever the init state wrote becomes the base heap
	for id, b := range st.heap {
		e.baseHeap[id] = &Box{V: freezeBox(b.V), Epoch: -1}
	}
	// init-time events are not part of the harness run
	e.Obligations = nil
	e.FuncsSeen = map[string]int{}
	initCuts := e.Cuts
	e.Cuts = map[string]int{}
	for k := range initCuts {
		if strings.HasPrefix(k, "package init aborted") {
			e.Cuts[k] = 1
		}
	}
	e.Nondet = nil
}

func freezeBox(v Value) Value {
	switch x := v.(type) {
	case *MapObj:
		return &MapObj{Entries: x.Entries, Epoch: -1}
	}
	return freeze(v)
}

// ---- evidence -----------------------------------------------------------------------

type evidence struct {
	PropertyID  string                 `json:"property_id"`
	Tier        string                 `json:"tier"`
	Seed        int64                  `json:"seed"`
	Level       string                 `json:"level"`
	Coverage    map[string]interface{} `json:"coverage"`
	Assumptions []string               `json:"assumptions"`
	WallS       float64                `json:"wall_s"`
	Violations  int                    `json:"violations"`
}

// Check runs all harnesses of a property and writes the evidence file. Returns the exit code.
func Check(cfg *Config) int {
	t0 := time.Now()
	ld, err := load(cfg)
	if err != nil {
		fmt.Println("ERROR loading /repo:", err)
		writeFailureEvidence(cfg, t0, "load error: "+err.Error())
		return 0
	}
	hs := findHarnesses(ld, cfg.Property, cfg.Only)
	allHs := findHarnesses(ld, cfg.Property, "")
	known, knownAll := loadKnown(cfg)
	if len(hs) == 0 {
		fmt.Printf("NOT-APPLICABLE property=%s no harness applies to this tree (quarantined: %v)\n", cfg.Property, ld.quarantined)
		writeFailureEvidence(cfg, t0, "no harness applicable to this tree")
		return 0
	}
	loadMs := time.Since(t0).Milliseconds()
	budget := 25 * time.Minute
	if cfg.Tier == "thorough" {
		budget = 120 * time.Minute
	}
	deadline := t0.Add(budget)
	workers := cfg.Workers
	if workers <= 0 {
		workers = 12
	}
	results := make([]*HarnessResult, len(hs))
	var wg sync.WaitGroup
	sem := make(chan struct{}, workers)
	stopWatch := startMemWatch()
	defer stopWatch()
	for i, h := range hs {
		wg.Add(1)
		go func(i int, h harnessRef) {
			defer wg.Done()
			sem <- struct{}{}
			defer func() { <-sem }()
			results[i] = runHarness(ld, h, cfg, known, deadline)
			r := results[i]
			if cfg.Verbose {
				fmt.Printf("  harness %s: %d obligations, %d states, %d steps, %d queries, %.1fs%s\n", r.ID, len(r.Obligations), r.Stats.States, r.Stats.Steps, r.Stats.Queries, float64(r.WallMs)/1000, abortedStr(r))
				for _, ob := range r.Obligations {
					if ob.Kind != "cover" || cfg.Trace {
						fmt.Printf("    %-8s %-12s %s | %s | %s %dms %s\n", ob.Kind, ob.Verdict, ob.Label, ob.Pos, ob.Solver, ob.TimeMs, ob.Detail)
						if ob.Model != nil && ob.Kind != "cover" {
							fmt.Printf("             model: %s\n", compactInputs(ob.Model))
						}
					}
				}
				for c, n := range r.Cuts {
					fmt.Printf("    cut x%d: %s\n", n, c)
				}
			}
		}(i, h)
	}
	wg.Wait()

	// native confirmation of counterexamples and validation of witnesses
	nr := &nativeRunner{cfg: cfg, ld: ld, bins: map[string]string{}, errs: map[string]string{}, known: known}
	defer os.RemoveAll(filepath.Join(cfg.Verif, ".cache", "native", cfg.Property+"-"+fmt.Sprint(os.Getpid())))
	replayDir := filepath.Join(cfg.Verif, "replay", cfg.Property)
	var violationLines []string
	knownConfirmed := map[string]bool{}
	knownTried := map[string]int{}
	knownUnconf := map[string]string{}
	if !cfg.NoReplay {
		var nwg sync.WaitGroup
		var mu sync.Mutex
		for _, r := range results {
			if len(r.Violations) == 0 && len(r.witnesses) == 0 && len(r.observes) == 0 && len(r.KnownCex) == 0 {
				continue
			}
			nwg.Add(1)
			go func(r *HarnessResult) {
				defer nwg.Done()
				sem <- struct{}{}
				defer func() { <-sem }()
				bin, berr := nr.binFor(r.Pkg, allHs)
				if bin == "" {
					r.Divergent = append(r.Divergent, "native build failed: "+firstN(berr, 400))
					for _, v := range r.Violations {
						v.Ob.Verdict = "inconclusive"
						v.Ob.Detail = "counterexample found but native replay could not be built"
					}
					return
				}
				tmp := filepath.Join(cfg.Verif, ".cache", "native", cfg.Property+"-"+fmt.Sprint(os.Getpid()))
				seenLabel := map[string]int{}
				for i, v := range r.Violations {
					key := v.Ob.Kind + "|" + v.Ob.Label + "|" + v.Ob.Pos
					seenLabel[key]++
					if seenLabel[key] > 2 {
						v.Ob.Detail = "further counterexample at the same site (not replayed)"
						continue
					}
					rf := filepath.Join(tmp, fmt.Sprintf("%s.cex%d.json", r.ID, i))
					extra := map[string]interface{}{"property": cfg.Property, "label": v.Ob.Label, "kind": v.Ob.Kind, "pos": v.Ob.Pos, "solver": v.Ob.Solver}
					writeReplay(rf, r.ID, v.Inputs, known, cfg.Tier, extra)
					o := nr.run(bin, r.ID, rf)
					if reproduces(v.Ob, o) {
						final := filepath.Join(replayDir, fmt.Sprintf("%s.%d.json", r.ID, i))
						extra["native_result"] = o.Result + " " + o.Label
						writeReplay(final, r.ID, v.Inputs, known, cfg.Tier, extra)
						v.Ob.Detail = "confirmed natively: " + o.Result + " " + o.Label
						mu.Lock()
						r.Confirmed = append(r.Confirmed, final)
						violationLines = append(violationLines, fmt.Sprintf("VIOLATION property=%s replay=%s", cfg.Property, final))
						mu.Unlock()
					} else {
						v.Ob.Verdict = "inconclusive"
						v.Ob.Detail = "unconfirmed counterexample (native run: " + o.Result + " " + o.Label + ")"
						r.Unconfirmed++
					}
				}
				// models attributed to recorded findings: replayed with no finding treated as known; the
				// KNOWN-FINDING line is printed only for findings that still fail natively
				for i, kc := range r.KnownCex {
					mu.Lock()
					done := knownConfirmed[kc.ID] || knownTried[kc.ID] >= 3
					knownTried[kc.ID]++
					mu.Unlock()
					if done {
						continue
					}
					rf := filepath.Join(tmp, fmt.Sprintf("%s.known%d.json", r.ID, i))
					writeReplay(rf, r.ID, kc.Inputs, map[string]bool{}, cfg.Tier, nil)
					o := nr.run(bin, r.ID, rf)
					mu.Lock()
					if reproduces(&Obligation{Kind: kc.Kind, Label: kc.Label}, o) {
						knownConfirmed[kc.ID] = true
					} else {
						knownUnconf[kc.ID] = fmt.Sprintf("%s: %s %s at %s: native run: %s %s", r.ID, kc.Kind, kc.Label, kc.Pos, o.Result, firstN(o.Label, 200))
					}
					mu.Unlock()
				}
				for i, w := range r.witnesses {
					if i >= 8 {
						break
					}
					rf := filepath.Join(tmp, fmt.Sprintf("%s.wit%d.json", r.ID, i))
					writeReplay(rf, r.ID, w, known, cfg.Tier, nil)
					o := nr.run(bin, r.ID, rf)
					switch o.Result {
					case "ok", "path-end-panic":
						r.Validated++
					case "assume-false":
						if len(o.Known) > 0 {
							// the run ended in a recorded known finding
							r.Validated++
							break
						}
						r.Divergent = append(r.Divergent, fmt.Sprintf("witness %d: native run rejects the assumptions the solver model satisfies", i))
					default:
						// a witness of a reachable point may legitimately lie on a path that later violates
						// something already reported; only flag if nothing was reported
						if len(r.Violations) == 0 {
							r.Divergent = append(r.Divergent, fmt.Sprintf("witness %d: native %s %s", i, o.Result, o.Label))
							if (o.Result == "assert-fail" || o.Result == "panic") && len(r.Confirmed) == 0 {
								// the real code fails an assertion of the harness on inputs the solver produced, although the
								// engine's own encoding did not predict it: the concrete failing run is reported (the encoder
								// divergence is reported as well)
								final := filepath.Join(replayDir, fmt.Sprintf("%s.w%d.json", r.ID, i))
								extra := map[string]interface{}{"property": cfg.Property, "label": o.Label, "kind": "assert", "pos": "native validation of a reachability witness",
									"native_result": o.Result + " " + o.Label, "note": "found by native replay of a solver-generated witness; the symbolic encoding did not predict this failure"}
								writeReplay(final, r.ID, w, known, cfg.Tier, extra)
								mu.Lock()
								r.Confirmed = append(r.Confirmed, final)
								violationLines = append(violationLines, fmt.Sprintf("VIOLATION property=%s replay=%s", cfg.Property, final))
								mu.Unlock()
							}
						}
					}
				}
				for i, oc := range r.observes {
					rf := filepath.Join(tmp, fmt.Sprintf("%s.obs%d.json", r.ID, i))
					writeReplay(rf, r.ID, oc.inputs, known, cfg.Tier, nil)
					o := nr.run(bin, r.ID, rf)
					for k, want := range oc.want {
						got, ok := o.Obs[k]
						if !ok {
							continue
						}
						if got == want {
							r.Validated++
						} else {
							r.Divergent = append(r.Divergent, fmt.Sprintf("observe %s: engine %d native %d", k, want, got))
						}
					}
				}
			}(r)
		}
		nwg.Wait()
	}

	// summarise
	ev := evidence{PropertyID: cfg.Property, Tier: cfg.Tier, Seed: cfg.Seed, Level: "model_checking"}
	cov := map[string]interface{}{}
	var states, steps, queries, obligations, discharged, inconclusive, validated, unconfirmed int
	var solverMs int64
	funcs := map[string]bool{}
	models := map[string]bool{}
	cuts := map[string]int{}
	var samples []interface{}
	var incon []interface{}
	var harnessSumm []interface{}
	bounds := map[string]interface{}{}
	knownSeen := map[string]string{}
	var nondet []string
	for _, r := range results {
		states += r.Stats.States + 1
		steps += r.Stats.Steps
		queries += r.Stats.Queries
		solverMs += r.SolverMs
		validated += r.Validated
		unconfirmed += r.Unconfirmed
		for f := range r.Funcs {
			funcs[f] = true
		}
		for _, m := range r.Models {
			models[m] = true
		}
		for c, n := range r.Cuts {
			cuts[r.ID+": "+c] += n
		}
		for k, v := range r.Bounds {
			bounds[r.ID+"."+k] = v
		}
		for k, v := range r.KnownSeen {
			knownSeen[k] = v
		}
		nondet = append(nondet, r.Nondet...)
		nh, nd, ni, nc := 0, 0, 0, 0
		for _, ob := range r.Obligations {
			switch ob.Kind {
			case "cover":
				nc++
				if len(samples) < 12 && ob.Model != nil {
					samples = append(samples, map[string]interface{}{"harness": r.ID, "kind": "reachability witness", "label": ob.Label, "inputs": trimModel(ob.Model)})
				}
				continue
			}
			nh++
			obligations++
			switch ob.Verdict {
			case "holds":
				nd++
				discharged++
			case "violated":
			case "known-finding":
				nd++
				discharged++
			default:
				ni++
				inconclusive++
				if len(incon) < 40 {
					incon = append(incon, map[string]interface{}{"harness": r.ID, "kind": ob.Kind, "label": ob.Label, "pos": ob.Pos, "why": ob.Detail})
				}
			}
		}
		if r.Aborted != "" {
			inconclusive++
			incon = append(incon, map[string]interface{}{"harness": r.ID, "kind": "aborted", "why": firstN(r.Aborted, 600)})
		}
		for _, d := range r.Divergent {
			inconclusive++
			incon = append(incon, map[string]interface{}{"harness": r.ID, "kind": "encoder-divergence", "why": d})
		}
		vacuous := nc == 0 && r.Aborted == ""
		if vacuous {
			inconclusive++
			incon = append(incon, map[string]interface{}{"harness": r.ID, "kind": "vacuous", "why": "no path of the harness is satisfiable"})
		}
		harnessSumm = append(harnessSumm, map[string]interface{}{"id": r.ID, "obligations": nh, "discharged": nd, "inconclusive": ni,
			"states": r.Stats.States + 1, "ssa_instructions": r.Stats.Steps, "queries": r.Stats.Queries, "solver_ms": r.SolverMs, "wall_ms": r.WallMs,
			"inputs": r.Inputs, "reach_witnesses": nc, "native_validated": r.Validated, "confirmed_violations": len(r.Confirmed)})
		// obligation samples
		k := 0
		for _, ob := range r.Obligations {
			if ob.Kind == "cover" || k >= 3 {
				continue
			}
			k++
			if len(samples) < 40 {
				samples = append(samples, map[string]interface{}{"harness": r.ID, "kind": ob.Kind, "label": ob.Label, "pos": ob.Pos, "verdict": ob.Verdict, "solver": ob.Solver, "ms": ob.TimeMs})
			}
		}
	}
	if !cfg.NoReplay {
		for id := range knownSeen {
			if strings.HasPrefix(id, "gone:") || knownConfirmed[id] {
				continue
			}
			inconclusive++
			why := knownUnconf[id]
			if why == "" {
				why = "no model available for native replay"
			}
			incon = append(incon, map[string]interface{}{"kind": "known-finding-unconfirmed", "id": id, "why": "solver model attributed to this recorded finding did not reproduce natively: " + why})
		}
	}
	if len(samples) == 0 {
		samples = append(samples, "no obligation was generated")
	}
	if states == 0 {
		states = 1
	}
	if steps == 0 {
		steps = 1
	}
	cov["states"] = states
	cov["transitions"] = steps
	cov["traces_validated_against_impl"] = validated
	cov["samples"] = samples
	cov["obligations"] = obligations
	cov["discharged"] = discharged
	cov["inconclusive"] = inconclusive
	cov["inconclusive_detail"] = incon
	cov["harnesses"] = harnessSumm
	cov["functions_encoded"] = sortedKeys(funcs)
	cov["stubs_and_models"] = sortedKeys(models)
	cov["cuts"] = cuts
	cov["bounds"] = bounds
	cov["queries"] = queries
	cov["solver_time_s"] = float64(solverMs) / 1000
	cov["load_time_s"] = float64(loadMs) / 1000
	cov["unconfirmed_counterexamples"] = unconfirmed
	cov["known_findings_seen"] = knownSeen
	cov["nondeterminism_sources_seen"] = uniq(nondet)
	cov["quarantined_harness_files"] = ld.quarantined
	cov["exhaustive"] = false
	cov["rule"] = "each obligation is an SMT query (path condition ∧ ¬assertion) generated from the SSA of the current /repo tree; verdict unsat = holds for all inputs within the bounds listed under 'bounds'"
	ev.Coverage = cov
	ev.Assumptions = []string{
		"bounded: loops unrolled up to the unwinding bound, buffers of the capacities named in the harnesses; nothing outside is claimed",
		"Go semantics as implemented by the gosmt encoder (validated per run by native replay of witnesses)",
		"solver soundness: z3 4.8.12 (cross-checked by z3 5.1.0 in the thorough tier)",
		"models listed under coverage.stubs_and_models",
	}
	ev.Violations = len(violationLines)
	ev.WallS = time.Since(t0).Seconds()
	writeEvidence(cfg, &ev)

	// output
	for id, what := range knownSeen {
		if strings.HasPrefix(id, "gone:") {
			continue
		}
		if !cfg.NoReplay && !knownConfirmed[id] {
			continue // reported as inconclusive above (model did not reproduce natively)
		}
		kf := knownAll[id]
		fmt.Printf("KNOWN-FINDING: property=%s %s %s [%s]\n", cfg.Property, id, kf.What, what)
	}
	for _, i := range incon {
		b, _ := json.Marshal(i)
		fmt.Printf("INCONCLUSIVE property=%s %s\n", cfg.Property, b)
	}
	fmt.Printf("SUMMARY property=%s tier=%s harnesses=%d obligations=%d discharged=%d inconclusive=%d violations=%d validated_native=%d queries=%d solver_s=%.1f wall_s=%.1f\n",
		cfg.Property, cfg.Tier, len(results), obligations, discharged, inconclusive, len(violationLines), validated, queries, float64(solverMs)/1000, time.Since(t0).Seconds())
	sort.Strings(violationLines)
	for _, l := range violationLines {
		fmt.Println(l)
	}
	if len(violationLines) > 0 {
		return 1
	}
	return 0
}

func abortedStr(r *HarnessResult) string {
	if r.Aborted != "" {
		return " ABORTED: " + firstN(r.Aborted, 300)
	}
	return ""
}

func firstN(s string, n int) string {
	if len(s) > n {
		return s[:n] + "…"
	}
	return s
}

func trimModel(m map[string]interface{}) map[string]interface{} {
	out := map[string]interface{}{}
	n := 0
	keys := make([]string, 0, len(m))
	for k := range m {
		keys = append(keys, k)
	}
	sort.Strings(keys)
	for _, k := range keys {
		if k == "@uf" {
			continue
		}
		v := m[k]
		if l, ok := v.([]int); ok && len(l) > 16 {
			v = append(append([]int(nil), l[:16]...), -1)
		}
		out[k] = v
		n++
		if n >= 24 {
			break
		}
	}
	return out
}

func sortedKeys(m map[string]bool) []string {
	out := make([]string, 0, len(m))
	for k := range m {
		out = append(out, k)
	}
	sort.Strings(out)
	return out
}

func uniq(xs []string) []string {
	m := map[string]bool{}
	for _, x := range xs {
		m[x] = true
	}
	return sortedKeys(m)
}

func writeEvidence(cfg *Config, ev *evidence) {
	if os.Getenv("GOSMT_NO_EVIDENCE") != "" || cfg.Only != "" {
		return // runs against scratch trees (seeded changes) and partial runs (-only) must not overwrite the evidence of the full check
	}
	dir := filepath.Join(cfg.Verif, "evidence")
	os.MkdirAll(dir, 0o755)
	b, _ := json.MarshalIndent(ev, "", " ")
	os.WriteFile(filepath.Join(dir, cfg.Property+".json"), b, 0o644)
}

func writeFailureEvidence(cfg *Config, t0 time.Time, why string) {
	ev := evidence{PropertyID: cfg.Property, Tier: cfg.Tier, Seed: cfg.Seed, Level: "model_checking",
		Coverage: map[string]interface{}{"states": 1, "transitions": 1, "traces_validated_against_impl": 0,
			"samples": []interface{}{why}, "obligations": 0, "discharged": 0, "inconclusive": 1, "explanation": why},
		Assumptions: []string{why}, WallS: time.Since(t0).Seconds()}
	writeEvidence(cfg, &ev)
}

// Replay re-runs a stored counterexample natively. Exit code 1 if it still fails.
func Replay(cfg *Config, file string) int {
	b, err := os.ReadFile(file)
	if err != nil {
		fmt.Println("cannot read", file, err)
		return 2
	}
	var m map[string]interface{}
	json.Unmarshal(b, &m)
	harness, _ := m["harness"].(string)
	prop, _ := m["property"].(string)
	if prop == "" && strings.Contains(harness, ".") {
		prop = harness[:strings.Index(harness, ".")]
	}
	cfg.Property = prop
	ld, err := load(cfg)
	if err != nil {
		fmt.Println("ERROR loading /repo:", err)
		return 2
	}
	allHs := findHarnesses(ld, prop, "")
	var pkg string
	for _, h := range allHs {
		if h.id == harness {
			pkg = h.pkg.Pkg.Path()
		}
	}
	if pkg == "" {
		fmt.Println("harness", harness, "not found in this tree")
		return 2
	}
	known, _ := loadKnown(cfg)
	nr := &nativeRunner{cfg: cfg, ld: ld, bins: map[string]string{}, errs: map[string]string{}, known: known}
	defer os.RemoveAll(filepath.Join(cfg.Verif, ".cache", "native", cfg.Property+"-"+fmt.Sprint(os.Getpid())))
	bin, berr := nr.binFor(pkg, allHs)
	if bin == "" {
		fmt.Println("native build failed:", berr)
		return 2
	}
	o := nr.run(bin, harness, file)
	fmt.Printf("native result: %s %s\n", o.Result, o.Label)
	if cfg.Verbose {
		fmt.Println(o.Raw)
	}
	switch o.Result {
	case "ok", "assume-false", "path-end-panic":
		return 0
	}
	fmt.Printf("VIOLATION property=%s replay=%s\n", prop, file)
	return 1
}


// memPressure is set while the process heap is above the budget (GOSMT_MEM_GB, default 10): the biggest
// harnesses then end as inconclusive ("memory budget exceeded") instead of the whole check being killed.
var memPressure, memCritical atomic.Bool

// engineSizes: term-table size of every running engine (published every few thousand steps), so that
// under memory pressure only the big consumers are ended.
var engineSizes sync.Map // *Engine -> int

func publishSize(e *Engine) { engineSizes.Store(e, len(e.tt.all)) }
func retireEngine(e *Engine) { engineSizes.Delete(e) }
func isBigConsumer(e *Engine) bool {
	mine, max := len(e.tt.all), 0
	engineSizes.Range(func(_, v interface{}) bool {
		if n := v.(int); n > max {
			max = n
		}
		return true
	})
	return mine*2 >= max
}

func startMemWatch() func() {
	limit := uint64(10) << 30
	if v := os.Getenv("GOSMT_MEM_GB"); v != "" {
		var g uint64
		if _, err := fmt.Sscan(v, &g); err == nil && g > 0 {
			limit = g << 30
		}
	}
	debug.SetMemoryLimit(int64(limit + limit/2)) // the collector works harder near the budget
	done := make(chan struct{})
	go func() {
		t := time.NewTicker(1 * time.Second)
		defer t.Stop()
		for {
			select {
			case <-done:
				return
			case <-t.C:
				var m runtime.MemStats
				runtime.ReadMemStats(&m)
				if os.Getenv("GOSMT_MEMDEBUG") != "" {
					fmt.Fprintf(os.Stderr, "memwatch: heap=%dMB sys=%dMB limit=%dMB pressure=%v\n", m.HeapAlloc>>20, m.Sys>>20, limit>>20, memPressure.Load())
				}
				memCritical.Store(m.HeapAlloc > 2*limit)
				if m.HeapAlloc > limit {
					memPressure.Store(true)
				} else if m.HeapAlloc < limit/2 {
					memPressure.Store(false)
				}
			}
		}
	}()
	return func() { close(done) }
}

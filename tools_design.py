#!/usr/bin/env python3
"""Regenerates the data-driven appendices of DESIGN.md (findings, seeded changes) between the
markers <!-- BEGIN:name --> / <!-- END:name -->. The prose of DESIGN.md is edited by hand."""
import json, glob, os, re, subprocess

def findings_tables():
    d = json.load(open('/verif/known_findings.json'))
    fixed = [f for f in d['findings'] if f['status'] == 'fixed']
    opn = [f for f in d['findings'] if f['status'] == 'open']
    out = []
    out.append(f"**{len(fixed)} genuine defects repaired** (one unguarded `fix:` commit each in /repo; the unedited suite passes with each):\n")
    out.append("| id | commit | what failed (input / call site) |\n|---|---|---|")
    for f in fixed:
        w = re.sub(r'^fixed: property=\S+ \S+ ', '', f['what'])
        out.append(f"| {f['id']} | {f.get('commit','')} | {w} |")
    out.append("")
    out.append(f"**{len(opn)} genuine defects recorded, not repaired** (the repair is not small or not safe without the package's own tests, which cannot run offline; each is keyed by an input-class predicate in the harness or by panic/allocation site, so a different violation of the same property is still reported):\n")
    out.append("| id | what fails |\n|---|---|")
    for f in opn:
        out.append(f"| {f['id']} | {f['what']} |")
    return "\n".join(out)

def seeded_table():
    res = {}
    for log in sorted(glob.glob('/verif/seeded/results/*.log')):
        for l in open(log):
            m = re.match(r'(\S+) vs (\S+): (DETECTED|MISSED.*)', l.strip())
            if m:
                res[(m.group(1), m.group(2))] = m.group(3)
    rows = ["| seeded change | what it needs to manifest | checked by | result |", "|---|---|---|---|"]
    for meta in sorted(glob.glob('/verif/seeded/C*/mut*/meta.json')):
        mid = '/'.join(meta.split('/')[-3:-1])
        m = json.load(open(meta))
        needs = m.get('needs', '')
        needs = needs if len(needs) < 260 else needs[:257] + '…'
        hits = [(k[1], v) for k, v in res.items() if k[0] == mid]
        if not hits:
            rows.append(f"| {mid} | {needs} | – | not run yet |")
        for prop, v in hits:
            rows.append(f"| {mid} | {needs} | `./check {prop}` | {v} |")
    return "\n".join(rows)

def replace(text, name, body):
    pat = re.compile(r'(<!-- BEGIN:%s -->).*?(<!-- END:%s -->)' % (name, name), re.S)
    return pat.sub(lambda m: m.group(1) + "\n" + body + "\n" + m.group(2), text)

def summary_counts(t):
    """harness counts of the summary table and the defect totals, from the evidence files and known_findings.json"""
    for f in sorted(glob.glob('/verif/evidence/C*.json')):
        try:
            e = json.load(open(f))
            n = len(e['coverage'].get('harnesses', []))
        except Exception:
            continue
        pid = e['property_id']
        t = re.sub(r'(\| %s \| [^|]*\| )[^|]*(\|)' % pid, lambda m: m.group(1) + str(n) + ' ' + m.group(2), t, count=1)
    d = json.load(open('/verif/known_findings.json'))
    nf = sum(1 for f in d['findings'] if f['status'] == 'fixed')
    no = sum(1 for f in d['findings'] if f['status'] == 'open')
    t = re.sub(r'Running the checks found [^\n]*\n[^\n]*\n[^\n]*recorded as known findings\.',
               'Running the checks found **%d genuine defects** of go-diskfs (§8, generated from `known_findings.json`):\n%d were repaired by one small `fix:` commit each (the unedited pinned suite passes with each), %d are\nrecorded as known findings.' % (nf + no, nf, no), t)
    return t


if __name__ == '__main__':
    t = open('/verif/DESIGN.md').read()
    t = summary_counts(t)
    t = replace(t, 'findings', findings_tables())
    t = replace(t, 'seeded', seeded_table())
    open('/verif/DESIGN.md', 'w').write(t)
    print("DESIGN.md appendices regenerated")

#!/usr/bin/env python3
"""Regenerates MANIFEST.json from the table below (kept in one place so it is always valid)."""
import json, subprocess
props=[json.loads(l)['id'] for l in open('/verif/properties.jsonl')]
fix_commits=subprocess.run(['git','-C','/repo','log','--format=%h %s','--grep=^fix:'],capture_output=True,text=True).stdout.strip().splitlines()
claimed = {
 "C09": dict(
   text="Bounded symbolic model checking of the real gpt.Table.Write and gpt.Read under power loss: the harness writes a concrete old table, lets the real Write of the new table run on a device that records every WriteAt and Sync (epochs), and presents Read with the crash image in which epochs before k are durable, epochs after k are lost and, for every write of epoch k, EVERY subset of its 512-byte sectors may have reached the medium (one solver boolean per sector, so all 2^32 subsets of an entry-array write are decided by one query). CRCs over such images are evaluated exactly (GF(2)-linear CRC32). Asserted: Read succeeds and returns exactly the old or exactly the new table (GUID, indices, start/end, names, types, partition GUIDs), a completed Write reads back as the new table from the primary copy; first write on a blank disk: error or exactly the new table.",
   note="Bounds: four concrete (old,new) pairs (grow, change of geometry/names/disk GUID, shrink, blank->new) on a 64 KiB disk with 512-byte sectors and protective MBR; crash epoch k case-split over all epochs incl. completion; persistence unit 512 bytes (sector atomicity assumed as in the property); table contents are concrete because the exact CRC needs concrete old/new bytes, the crash dimension is symbolic-exhaustive. Because epochs are derived from the observed Sync calls, dropping or reordering a sync/write changes the explored crash states.",
   ref="6.C09"),
 "C15": dict(
   text="Bounded symbolic model checking of partition.Read, gpt.Read, mbr.Read and their parsers on arbitrary bytes: (a) Read on devices whose every byte is an uninterpreted function of the offset, for device sizes 0..32 KiB (case-split) incl. truncated ones, (b) a forged primary header with recomputed CRC and arbitrary LBAs/count/entry size, (c) loadEntries with every geometry field symbolic, (d) readPartitionArrayBytes for entry sizes 0,1,127,128,129,256,2^31, (e) partitionFromBytes and readGPTHeader on arbitrary bytes. Obligations: no panic (every bounds/nil/divide/makeslice check is a solver query), every make() <= 2*device size + 4 MiB, symbolic loops <= 38-40 iterations and concrete loops terminate, a table is only returned for CRC-matching bytes and lists no partition from bytes the CRC does not cover.",
   note="Bounds: at most 1 (quick) / 2 (thorough) used entries decoded per array harness (the entry decoder is checked separately for an arbitrary entry, which covers every slot by the slot loop's independence), device sizes and sector sizes case-split, utf16.Decode of symbolic units over-approximated by arbitrary runes, CRC32 congruent UF. Process-level memory caps/deadlines of the property are represented by the allocation and loop obligations.",
   ref="6.C15"),
 "C02": dict(
   text="Bounded symbolic model checking of the real encode/decode paths: mbr Table.Write -> mbr.Read with 0/1/4 partitions whose every field (type, start, size, CHS, boot flag) is a solver variable over an arbitrary pre-existing sector 0; gpt Table.Write -> gpt.Read on disks of 35 KiB, 1 MiB, 1 GiB (4096-byte sectors) and 3 TiB with two partitions whose start/end/size/attributes are 64-bit solver variables (two of the three accepted spellings), plus an independent field-by-field parse of both headers, both arrays and the protective MBR written in the harness from the UEFI layout; gpt entry codec with names of 0/1/35/36 UTF-16 units incl. non-BMP runes; decode->encode identity for every 512-byte sector mbr.Read accepts.",
   note="Bounds: gpt partition indices, names, GUIDs and disk sizes are case-split concrete values (map lookups on symbolic indices and symbolic GUID strings are outside the encoder's reach); at most 2 gpt / 4 mbr partitions are simultaneously symbolic. CRC32 is modelled as a congruent uninterpreted function (the harness checks equality of the stored CRCs with the CRC of the stored bytes by calling the same function). Disk.GetPartition glue is covered through GetStart/GetSize only.",
   ref="6.C02"),
 "C13": dict(
   text="Bounded symbolic model checking of the real WriteContents/ReadContents of mbr.Partition and gpt.Partition: start/size are 32-/64-bit solver variables (so offsets >= 4 GiB are inside the quantifier), the reader delivers up to K chunks of arbitrary length with arbitrary nil/EOF/error outcomes, sector-size combinations are case-split (512/512, 4096/4096, 512/4096). Asserted: every WriteAt lands at start*lss + bytes-so-far inside [start,start+size), device bytes equal the reader's bytes, success iff exactly size bytes were supplied; ReadContents issues contiguous reads from the partition offset, never beyond its end, delivering exactly size bytes equal to the device bytes.",
   note="Bounds: K=3 (quick) / 5 (thorough) reader calls, partitions of <= 3 (9) sectors for the read loop, content checks with 4-byte chunks. Outside the claim: CopyPartitionRaw/verifyBlockCopy (goroutine + io.Pipe, not encodable), partitions larger than the unrolled loop allows as whole streams, Disk.Read/WritePartitionContents glue (table lookup).",
   ref="6.C13"),
}
na_reason = {
 "C17": "quantifies over goroutine schedules and mutex hand-over; the sequential SSA->SMT encoding has no counterpart for interleavings (see DESIGN.md section 7)",
}
checks=[]
for p in props:
    if p in claimed:
        c=claimed[p]
        checks.append({"property_id":p,"quick_cmd":f"./check {p} --tier quick","thorough_cmd":f"./check {p} --tier thorough",
          "evidence_file":f"/verif/evidence/{p}.json","replay_cmd_template":"./check --replay {path}","engine":"gosmt",
          "level_claimed":{"category":"model_checking","text":c['text'],"design_ref":c['ref']},
          "level_note":c['note'],"technique":"bounded symbolic execution of go/ssa to SMT (QF_UFBV), z3/cvc5 decide every obligation; counterexamples replayed natively"})
na=[{"property_id":p,"reason":na_reason.get(p,"check not built yet (framework under construction; will be claimed once its harnesses run clean)")} for p in props if p not in claimed]
m={"version":1,
 "setup_cmd":"./setup.sh",
 "hooks":{"guard":"none: harnesses are in-package files injected with the go -overlay mechanism (go/packages Overlay for the encoder, go test -overlay for native replay); /repo carries no instrumentation",
          "enable":"./check builds the overlay from /verif/harness and /verif/vp on every run",
          "baseline_off_cmd":"cd /repo && GOFLAGS=-mod=mod go test -vet=off -count=1 -timeout 25m ./...",
          "source_commits":[],"add_only":True},
 "engines":[{"name":"gosmt","path":"/verif/gosmt","serves_properties":sorted(claimed),"kind_free_text":"own bounded symbolic executor over golang.org/x/tools/go/ssa emitting SMT-LIB2 to persistent z3 4.8.12 / z3 5.1.0 / cvc5 processes"}],
 "checks":checks,
 "notes":"fix: commits in /repo (genuine defects found by the checks): "+"; ".join(fix_commits),
 "not_applicable":na}
json.dump(m,open('/verif/MANIFEST.json','w'),indent=1)
print("claimed:",sorted(claimed))

package fat12

import (
	"encoding/binary"
	"os"

	"github.com/diskfs/go-diskfs/internal/vp"
	"github.com/diskfs/go-diskfs/internal/vp/vpdev"
)

const (
	c19RootOff  = 1024 // byte offset of the fixed root directory region
	c19RootEnts = 16
	c19DataOff  = 2048
)

// c19Slot fills a 32-byte root directory slot: concrete 8.3 name, every metadata byte arbitrary but well
// formed (valid date/time fields, reserved attribute bits clear, not the 0x0F long-name marker, no
// volume-label/directory bit so that the entry is an ordinary file), size <= one cluster.
func c19Slot(s []byte, pfx, name11 string, cluster uint16) {
	vp.Fill(s, pfx)
	copy(s[0:11], name11)
	vp.Assume(s[11]&0xd8 == 0) // bits: 0x08 volume label, 0x10 directory, 0x40/0x80 reserved
	s[12] = 0                  // NT case bits: see VP_C19_fat_entry_roundtrip
	s[13] = 0                  // creation time, 10 ms units: below the 2 s resolution the library models
	for _, o := range []int{16, 18, 24} { // date words
		d := binary.LittleEndian.Uint16(s[o : o+2])
		mo := (d >> 5) & 0xf
		day := d & 0x1f
		vp.Assume(mo >= 1)
		vp.Assume(mo <= 12)
		vp.Assume(day >= 1)
		vp.Assume(day <= 28)
	}
	for _, o := range []int{14, 22} { // time words
		t := binary.LittleEndian.Uint16(s[o : o+2])
		vp.Assume(t>>11 <= 23)
		vp.Assume((t>>5)&0x3f <= 59)
		vp.Assume(t&0x1f <= 29)
	}
	s[20], s[21] = 0, 0
	binary.LittleEndian.PutUint16(s[26:28], cluster)
	vp.Assume(binary.LittleEndian.Uint32(s[28:32]) <= 512)
}

// c19Fixture: a FAT12 volume with a fixed root directory holding FILE.TXT (cluster 2) and OTHER.BIN (cluster 3).
func c19Fixture() (*vpdev.MemDev, []byte) {
	root := make([]byte, c19RootEnts*32)
	c19Slot(root[0:32], "file", "FILE    TXT", 2)
	c19Slot(root[32:64], "other", "OTHER   BIN", 3)
	dev := vpdev.NewMemDev("vol", 1<<20)
	init := make([]byte, len(root))
	copy(init, root)
	dev.Log = append(dev.Log, vpdev.WRec{Off: c19RootOff, Len: len(root), Data: root})
	return dev, init
}

// c19Open: what re-opening the image gives (geometry as Read would derive it from the boot sector).
func c19Open(dev *vpdev.MemDev) *FileSystem {
	tbl := newFat12Table(0xf8, 48)
	tbl.SetCluster(0, 0xff8)
	tbl.SetCluster(1, 0xfff)
	tbl.SetCluster(2, 0xfff)
	tbl.SetCluster(3, 0xfff)
	return &FileSystem{table: tbl, dataStart: c19DataOff, bytesPerCluster: 512, size: 1 << 20, backend: dev,
		rootDirOffset: c19RootOff, rootDirMaxEntries: c19RootEnts, fatPrimaryStart: 512, fatSecondaryStart: 560}
}

func c19RootByte(dev *vpdev.MemDev, i int) byte { return dev.ByteAt(c19RootOff + int64(i)) }

// c19Unchanged asserts that bytes [lo,hi) of the root directory still have their initial value.
func c19Unchanged(dev *vpdev.MemDev, init []byte, lo, hi int) {
	same := true
	for i := lo; i < hi; i++ {
		if c19RootByte(dev, i) != init[i] {
			same = false
		}
	}
	vp.Assert(same, "directory bytes outside the changed attribute are unchanged")
}

func c19Word(dev *vpdev.MemDev, o int) uint16 {
	return uint16(c19RootByte(dev, o)) | uint16(c19RootByte(dev, o+1))<<8
}

// VP_C19_fat_fs_chtimes: Chtimes on one file of a directory stores the three new stamps in that file's slot
// (FAT words), changes nothing else in the slot nor in the other file's slot, and a re-opened filesystem
// reports the new times (2 s resolution; access: date only) and the old flags.
func VP_C19_fat_fs_chtimes() {
	dev, init := c19Fixture()
	fs := c19Open(dev)
	ct, cc := c19Time("ctime")
	at, ca := c19Time("atime")
	mt, cm := c19Time("mtime")
	err := fs.Chtimes("/FILE.TXT", ct, at, mt)
	vp.Assert(err == nil, "Chtimes succeeds")
	c19Unchanged(dev, init, 0, 14)
	vp.Assert(c19Word(dev, 14) == c19FatTime(cc), "create time word")
	vp.Assert(c19Word(dev, 16) == c19FatDate(cc), "create date word")
	vp.Assert(c19Word(dev, 18) == c19FatDate(ca), "access date word")
	c19Unchanged(dev, init, 20, 22)
	vp.Assert(c19Word(dev, 22) == c19FatTime(cm), "modify time word")
	vp.Assert(c19Word(dev, 24) == c19FatDate(cm), "modify date word")
	c19Unchanged(dev, init, 26, 32)
	c19Unchanged(dev, init, 32, 96) // the other file and the end-of-directory marker
	// re-open
	fs2 := c19Open(dev)
	fi, err := fs2.Stat("FILE.TXT") // Stat takes io/fs-style paths
	vp.Assert(err == nil, "Stat after re-open")
	c19SameTo2s(fi.ModTime(), cm)
	vp.Assert(!fi.IsDir(), "still a regular file")
	_, ents, err := fs2.readDirWithMkdir("/", false)
	vp.Assert(err == nil, "directory readable")
	vp.Assert(len(ents) == 2, "two entries")
	c19SameTo2s(ents[0].createTime, cc)
	c19SameDay(ents[0].accessTime, ca)
	vp.Assert(ents[0].isHidden == (init[11]&2 != 0), "hidden flag untouched")
	vp.Assert(ents[0].isReadOnly == (init[11]&1 != 0), "read-only flag untouched")
	vp.Assert(ents[0].isSystem == (init[11]&4 != 0), "system flag untouched")
	vp.Assert(ents[0].isArchiveDirty == (init[11]&0x20 != 0), "archive flag untouched")
	vp.Cover("Chtimes done")
}

// VP_C19_fat_fs_archive: SetArchiveBit(v) sets exactly bit 0x20 of the file's attribute byte to v.
func VP_C19_fat_fs_archive() {
	dev, init := c19Fixture()
	fs := c19Open(dev)
	v := vp.Bool("set")
	err := fs.SetArchiveBit("/FILE.TXT", v)
	vp.Assert(err == nil, "SetArchiveBit succeeds")
	c19Unchanged(dev, init, 0, 11)
	vp.Assert(c19RootByte(dev, 11) == init[11]&^0x20|vp.IteU8(v, 0x20, 0), "only the archive bit changes, to the requested value")
	c19Unchanged(dev, init, 12, 96)
	fs2 := c19Open(dev)
	got, err := fs2.GetArchiveBit("/FILE.TXT")
	vp.Assert(err == nil, "GetArchiveBit after re-open")
	vp.Assert(got == v, "archive bit reported as set")
	o, err := fs2.GetArchiveBit("/OTHER.BIN")
	vp.Assert(err == nil, "other file readable")
	vp.Assert(o == (init[32+11]&0x20 != 0), "other file's archive bit untouched")
	vp.Cover("archive bit done")
}

// c19Flags: Set{Hidden,System,ReadOnly}(v) through an open File changes exactly that bit.
func c19Flags(which int) {
	dev, init := c19Fixture()
	fs := c19Open(dev)
	v := vp.Bool("on")
	f, err := fs.OpenFile("/FILE.TXT", os.O_RDWR)
	vp.Assert(err == nil, "file opens")
	fl := f.(*File)
	var mask byte
	switch which {
	case 0:
		err, mask = fl.SetReadOnly(v), 0x01
	case 1:
		err, mask = fl.SetHidden(v), 0x02
	case 2:
		err, mask = fl.SetSystem(v), 0x04
	}
	vp.Assert(err == nil, "setter succeeds")
	c19Unchanged(dev, init, 0, 11)
	vp.Assert(c19RootByte(dev, 11) == init[11]&^mask|vp.IteU8(v, mask, 0), "only the requested attribute bit changes")
	c19Unchanged(dev, init, 12, 96)
	fs2 := c19Open(dev)
	f2, err := fs2.OpenFile("/FILE.TXT", os.O_RDONLY)
	vp.Assert(err == nil, "file opens after re-open")
	g := f2.(*File)
	vp.Assert(g.IsReadOnly() == (vp.IteU8(which == 0, vp.IteU8(v, 1, 0), init[11]&1) != 0), "IsReadOnly after re-open")
	vp.Assert(g.IsHidden() == (vp.IteU8(which == 1, vp.IteU8(v, 2, 0), init[11]&2) != 0), "IsHidden after re-open")
	vp.Assert(g.IsSystem() == (vp.IteU8(which == 2, vp.IteU8(v, 4, 0), init[11]&4) != 0), "IsSystem after re-open")
	vp.Cover("flag set")
}

func VP_C19_fat_fs_readonly() { c19Flags(0) }
func VP_C19_fat_fs_hidden()   { c19Flags(1) }
func VP_C19_fat_fs_system()   { c19Flags(2) }

// VP_C19_fat_fs_sequence: SetHidden, a content write, SetReadOnly, SetArchiveBit and Chtimes in sequence on
// one file: after re-opening, every attribute has the last value set, the other file is untouched.
func VP_C19_fat_fs_sequence() {
	dev, init := c19Fixture()
	fs := c19Open(dev)
	hid, ro, arch := vp.Bool("hidden"), vp.Bool("readonly"), vp.Bool("archive")
	f, err := fs.OpenFile("/FILE.TXT", os.O_RDWR)
	vp.Assert(err == nil, "file opens")
	fl := f.(*File)
	vp.Assert(fl.SetHidden(hid) == nil, "SetHidden")
	data := vp.Bytes("data", 3)
	n, err := fl.Write(data)
	vp.Assert(err == nil, "content write")
	vp.Assert(n == 3, "3 bytes written")
	vp.Assert(fl.SetReadOnly(ro) == nil, "SetReadOnly")
	vp.Assert(fs.SetArchiveBit("/FILE.TXT", arch) == nil, "SetArchiveBit")
	ct, cc := c19Time("ctime")
	at, ca := c19Time("atime")
	mt, cm := c19Time("mtime")
	vp.Assert(fs.Chtimes("/FILE.TXT", ct, at, mt) == nil, "Chtimes")
	want := init[11]&0x04 | vp.IteU8(ro, 1, 0) | vp.IteU8(hid, 2, 0) | vp.IteU8(arch, 0x20, 0)
	vp.Assert(c19RootByte(dev, 11) == want, "attribute byte = last value of every flag")
	c19Unchanged(dev, init, 0, 11)
	c19Unchanged(dev, init, 32, 96)
	vp.Assert(dev.ByteAt(c19DataOff) == data[0], "content written to the file's cluster")
	fs2 := c19Open(dev)
	_, ents, err := fs2.readDirWithMkdir("/", false)
	vp.Assert(err == nil, "directory readable after re-open")
	vp.Assert(len(ents) == 2, "two entries")
	e := ents[0]
	vp.Assert(e.isHidden == hid, "hidden")
	vp.Assert(e.isReadOnly == ro, "read-only")
	vp.Assert(e.isArchiveDirty == arch, "archive")
	vp.Assert(e.isSystem == (init[11]&4 != 0), "system untouched")
	vp.Assert(!e.isSubdirectory, "still a file")
	c19SameTo2s(e.createTime, cc)
	c19SameTo2s(e.modifyTime, cm)
	c19SameDay(e.accessTime, ca)
	sz := binary.LittleEndian.Uint32(init[28:32])
	vp.Assert(e.fileSize == uint32(vp.IteU32(sz < 3, 3, sz)), "size = max(old size, bytes written)")
	vp.Cover("sequence done")
}

package fat12

import (
	"github.com/diskfs/go-diskfs/internal/vp"
	"github.com/diskfs/go-diskfs/internal/vp/vpdev"
)

// Allocator COMPLETENESS (C08 / C01: a write only fails for lack of space when there is no space):
// one allocateSpace call from an ARBITRARY well-formed allocation table. Whenever the data area
// [2, D+2) holds at least as many free clusters as the request needs IN ADDITION to the clusters the
// chain already has - wherever those free clusters lie, below or above the chain's last cluster - the
// call succeeds, returns exactly the clusters needed (the old chain first, in order), and the table links
// them in that order up to an end-of-chain mark. With fewer free clusters it fails.
// (What is handed out is checked by VP_C08_alloc_step_*: free before, inside the data area, nothing else changes.)
//
// Table well-formedness as in c08AllocStep; in addition the FAT has an entry for every data cluster and
// MaxCluster() is the entry count (VP_C08_*_geometry: entries >= clusters+2), i.e. D+2 <= MaxCluster().

const (
	c08New    = iota // previous == 0: a new chain
	c08Extend        // previous = head of an existing chain
)

func c08AllocComplete(mode, n int) {
	const bpc = 512
	const eocLo, eocHi = 0xFF8, 0xFFF
	N := uint32(n)
	tbl := &fat12Table{eoc: 0xFFF, clusters: make([]uint32, n), max: N - 1, size: 512}
	D := vp.U32("dataClusters")
	vp.Assume(D >= 1)
	vp.Assume(D <= N) // (no wrap-around in D+2)
	vp.Assume(D+2 <= N-1)
	rank := make([]uint32, n)
	old := make([]uint32, n)
	free := uint32(0)
	for i := uint32(2); i < N; i++ {
		v := vp.U32("fat" + string(rune('a'+i)))
		rank[i] = vp.U32("rank" + string(rune('a'+i)))
		old[i] = v
		tbl.clusters[i] = v
		isEOC := v >= eocLo && v <= eocHi
		isLink := v >= 2 && v < D+2
		vp.Assume(v == 0 || isEOC || isLink)
		vp.Assume(i < D+2 || v == 0)
		free += vp.IteU32(v == 0 && i < D+2, 1, 0)
	}
	for i := uint32(2); i < N; i++ {
		for j := uint32(2); j < N; j++ {
			vp.Assume(!(old[i] == j) || rank[j] > rank[i])
			if i < j {
				vp.Assume(!(old[i] == old[j] && old[i] >= 2 && old[i] < N))
			}
		}
	}
	size := vp.U64("size")
	vp.Assume(size <= uint64(n+2)*bpc)
	want := uint32((size + bpc - 1) / bpc)

	prev := uint32(0)
	oldLen := uint32(0)
	oldChain := make([]uint32, n)
	if mode == c08Extend {
		prev = vp.U32("previous")
		vp.Assume(prev >= 2)
		vp.Assume(prev < D+2)
		for i := uint32(2); i < N; i++ {
			vp.Assume(old[i] != prev)              // a head: nobody links to it
			vp.Assume(!(prev == i) || old[i] != 0) // and it is in use
		}
		// independent walk of the old chain over the raw entries
		c := prev
		done := false
		for step := 0; step < n; step++ {
			if !done {
				oldChain[step] = c
				oldLen++
				nx := uint32(0)
				for i := uint32(2); i < N; i++ {
					nx = vp.IteU32(c == i, old[i], nx)
				}
				if nx >= eocLo {
					done = true
				} else {
					c = nx
				}
			}
		}
		vp.Assume(done)
		vp.Assume(want > oldLen) // extension (grow); shrinking never needs free clusters
	} else {
		vp.Assume(want >= 1)
	}
	need := want - oldLen

	dataStart := uint32(4096)
	dev := vpdev.NewMemDev("disk", -1)
	dev.NoData = true
	fs := NewFileSystem(dev, nil, tbl, dataStart, bpc, int64(dataStart)+int64(D)*bpc, 0, 0, 0, 512, 2048)
	vp.Unwind(n + 3)
	chain, err := fs.allocateSpace(size, prev)

	if free < need {
		vp.Assert(err != nil, "fewer free clusters in the data area than needed: the request is refused")
		vp.Cover("refused for lack of space")
		return
	}
	vp.Assert(err == nil, "enough free clusters anywhere in the data area: the allocation succeeds")
	if err != nil {
		return
	}
	vp.Assert(uint32(len(chain)) == want, "the chain returned has exactly the clusters the size needs")
	if uint32(len(chain)) != want {
		return
	}
	lowest := N
	for k := 0; k < n+2; k++ {
		if uint32(k) < want {
			c := chain[k]
			vp.Assert(c >= 2, "chain member is a data cluster")
			vp.Assert(c < D+2, "chain member lies inside the data area")
			if uint32(k) < oldLen {
				vp.Assert(c == oldChain[k], "the old clusters stay at the head of the chain, in order")
			} else {
				lowest = vp.IteU32(c < lowest, c, lowest)
			}
			nxt := tbl.ClusterValue(c)
			if uint32(k) == want-1 {
				vp.Assert(nxt >= eocLo, "the last cluster carries the end-of-chain mark")
				vp.Assert(nxt <= eocHi, "the end-of-chain mark is a FAT12 one")
			} else {
				vp.Assert(nxt == chain[k+1], "the table links the chain in the order returned")
			}
		}
	}
	if mode == c08Extend {
		if lowest < oldChain[0] {
			vp.Cover("extension uses a free cluster below the chain's head")
		}
		if free == need {
			vp.Cover("extension takes the last free clusters")
		}
	} else if free == need {
		vp.Cover("new chain takes the last free clusters")
	}
	vp.Cover("allocation complete")
}

func VP_C08_alloc_complete_new()    { c08AllocComplete(c08New, vp.Bound("entries", 7, 9)) }
func VP_C08_alloc_complete_extend() { c08AllocComplete(c08Extend, vp.Bound("entries", 7, 8)) }

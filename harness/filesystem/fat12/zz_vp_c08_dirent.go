package fat12

import (
	"os"

	"github.com/diskfs/go-diskfs/internal/vp"
)

// C08 / C01: the first-cluster field of a 32-byte directory slot is split over two words:
// low 16 bits at offset 26..27, high 16 bits at offset 20..21 (FAT32: clusters >= 65536 need
// the high word). The checks below read the raw slot bytes themselves, never through the
// library's own parser, and feed the parser with raw bytes assembled here.

// c08ClusterWords asserts the two words of the 8.3 slot that starts at b[o].
func c08ClusterWords(b []byte, o int, cl uint32) {
	lo := uint32(b[o+26]) | uint32(b[o+27])<<8
	hi := uint32(b[o+20]) | uint32(b[o+21])<<8
	vp.Assert(lo == cl&0xFFFF, "offset 26..27 holds the low word of the first cluster")
	vp.Assert(hi == cl>>16, "offset 20..21 holds the high word of the first cluster")
}

// VP_C08_dirent_cluster_words_short: toBytes of an 8.3 entry with an arbitrary 28-bit first cluster
// and arbitrary size: both words on disk, size field and attribute/name bytes not disturbed by them.
func VP_C08_dirent_cluster_words_short() {
	cl := vp.U32("cluster")
	vp.Assume(cl <= 0x0FFFFFFF)
	sz := vp.U32("size")
	dir := vp.Bool("isdir")
	de := &directoryEntry{filenameShort: "DATA", fileExtension: "BIN", clusterLocation: cl, fileSize: sz, isSubdirectory: dir}
	b, err := de.toBytes()
	vp.Assert(err == nil, "entry serialises")
	vp.Assert(len(b) == 32, "one slot")
	c08ClusterWords(b, 0, cl)
	got := uint32(b[28]) | uint32(b[29])<<8 | uint32(b[30])<<16 | uint32(b[31])<<24
	vp.Assert(got == sz, "offset 28..31 holds the size")
	vp.Assert(string(b[0:11]) == "DATA    BIN", "offset 0..10 holds the padded 8.3 name")
	vp.Assert(b[11] == vp.IteU8(dir, 0x10, 0), "attribute byte holds only the directory bit")
	if cl >= 65536 {
		vp.Cover("first cluster needs the high word")
	}
	vp.Cover("slot serialised")
}

// VP_C08_dirent_cluster_words_dir: a directory with two files (one long name, one 8.3 name) and
// arbitrary 28-bit first clusters serialised with entriesToBytes / entriesToBytesFixed: the 8.3 slot
// of each file carries both words; parsing slot bytes assembled by hand yields lo | hi<<16.
func VP_C08_dirent_cluster_words_dir() {
	_ = os.Setenv("SOURCE_DATE_EPOCH", "1700000000")
	c1, c2 := vp.U32("cluster1"), vp.U32("cluster2")
	vp.Assume(c1 >= 2)
	vp.Assume(c1 <= 0x0FFFFFF6)
	vp.Assume(c2 >= 2)
	vp.Assume(c2 <= 0x0FFFFFF6)
	d := &Directory{}
	_, err := d.createEntry("a long file name.text", c1, false) // 2 long-name slots + the 8.3 slot
	vp.Assert(err == nil, "long-name entry created")
	_, err = d.createEntry("SHORT.TXT", c2, true)
	vp.Assert(err == nil, "short-name entry created")
	b, err := d.entriesToBytes(512)
	vp.Assert(err == nil, "directory serialises")
	vp.Assert(len(b) == 512, "padded to one cluster")
	vp.Assert(b[0]&0x40 == 0x40 && b[11] == 0x0f && b[32+11] == 0x0f, "two long-name slots lead")
	vp.Assert(b[64+11]&0x0f != 0x0f, "third slot is the 8.3 slot of the first file")
	c08ClusterWords(b, 64, c1)
	c08ClusterWords(b, 96, c2)
	vp.Assert(b[128] == 0, "end of directory follows")
	f, err := d.entriesToBytesFixed(256)
	vp.Assert(err == nil, "fixed root region serialises")
	c08ClusterWords(f, 64, c1)
	c08ClusterWords(f, 96, c2)
	if c1 >= 65536 {
		vp.Cover("long-name file beyond cluster 65535")
	}
	vp.Cover("directory serialised")
}

// VP_C08_dirent_cluster_words_parse: a slot assembled by hand (arbitrary low word, high word, size) parses to
// first cluster lo | hi<<16 and the given size.
func VP_C08_dirent_cluster_words_parse() {
	lo, hi := vp.U16("lo"), vp.U16("hi")
	sz := vp.U32("size")
	s := make([]byte, 64)
	copy(s, "FILE    TXT")
	s[11] = 0x20
	s[16], s[17] = 0x43, 0x58 // 2024-02-03
	s[18], s[19] = 0x43, 0x58
	s[24], s[25] = 0x43, 0x58
	s[20], s[21] = byte(hi), byte(hi>>8)
	s[26], s[27] = byte(lo), byte(lo>>8)
	s[28], s[29], s[30], s[31] = byte(sz), byte(sz>>8), byte(sz>>16), byte(sz>>24)
	ents, err := parseDirEntries(s)
	vp.Assert(err == nil, "slot parses")
	vp.Assert(len(ents) == 1, "one entry")
	vp.Assert(ents[0].clusterLocation == uint32(lo)|uint32(hi)<<16, "first cluster = low word | high word << 16")
	vp.Assert(ents[0].fileSize == sz, "size = offset 28..31")
	if hi != 0 {
		vp.Cover("high word in use")
	}
	vp.Cover("slot parsed")
}

package fat12

import (
	"github.com/diskfs/go-diskfs/internal/vp"
	"github.com/diskfs/go-diskfs/internal/vp/vpdev"
)

// C03 / C14 (placement independence of the allocator): the volume sits at an ARBITRARY 512-aligned
// start offset (0 .. 2^40) inside a larger device; its size is dataStart + D whole clusters + an
// arbitrary trailing partial cluster (0 .. bytesPerCluster-1 bytes); the FAT has more entries than the
// data area has clusters (it is sized in whole sectors). One allocateSpace call from an arbitrary
// well-formed table:
//   - succeeds exactly when the D clusters [2, D+2) hold enough free entries - the verdict is a
//     function of the table and the size alone, never of the start offset;
//   - every cluster c handed out is a whole cluster of the volume: dataStart + (c-2+1)*bytesPerCluster
//     <= size (the trailing partial cluster and everything behind it is never handed out), so that no
//     data write can reach beyond start+size;
//   - the clusters handed out are the lowest free ones of the table (the same for every start offset);
//   - the FAT copies are written at start+fatPrimaryStart / start+fatSecondaryStart, inside [start, start+size).

func c03AllocStart(extend bool, n int) {
	const bpc = 2048
	const dataStart = 4096
	const eocLo = 0xFF8
	N := uint32(n)
	tbl := &fat12Table{eoc: 0xFFF, clusters: make([]uint32, n), max: N - 1, size: 512}
	D := vp.U32("dataClusters")
	vp.Assume(D >= 1)
	vp.Assume(D <= N)
	vp.Assume(D+2 <= N-1)
	tail := vp.U32("partialCluster") // bytes of the trailing partial cluster
	vp.Assume(tail < bpc)
	size := int64(dataStart) + int64(D)*bpc + int64(tail)
	start := int64(vp.U32("startSector")&0x7FFFFFFF) * 512 // 0 .. 2^40, sector aligned

	rank := make([]uint32, n)
	old := make([]uint32, n)
	free := uint32(0)
	for i := uint32(2); i < N; i++ {
		v := vp.U32("fat" + string(rune('a'+i)))
		rank[i] = vp.U32("rank" + string(rune('a'+i)))
		old[i] = v
		tbl.clusters[i] = v
		vp.Assume(v == 0 || v >= eocLo && v <= 0xFFF || v >= 2 && v < D+2)
		vp.Assume(i < D+2 || v == 0)
		free += vp.IteU32(v == 0 && i < D+2, 1, 0)
	}
	for i := uint32(2); i < N; i++ {
		for j := uint32(2); j < N; j++ {
			vp.Assume(!(old[i] == j) || rank[j] > rank[i])
			if i < j {
				vp.Assume(!(old[i] == old[j] && old[i] >= 2 && old[i] < N))
			}
		}
	}
	req := vp.U64("size")
	vp.Assume(req <= uint64(n+2)*bpc)
	want := uint32((req + bpc - 1) / bpc)
	prev, oldLen := uint32(0), uint32(0)
	if extend {
		prev = vp.U32("previous")
		vp.Assume(prev >= 2)
		vp.Assume(prev < D+2)
		c := prev
		done := false
		for i := uint32(2); i < N; i++ {
			vp.Assume(old[i] != prev)
			vp.Assume(!(prev == i) || old[i] != 0)
		}
		for step := 0; step < n; step++ {
			if !done {
				oldLen++
				nx := uint32(0)
				for i := uint32(2); i < N; i++ {
					nx = vp.IteU32(c == i, old[i], nx)
				}
				if nx >= eocLo {
					done = true
				} else {
					c = nx
				}
			}
		}
		vp.Assume(done)
		vp.Assume(want > oldLen)
	} else {
		vp.Assume(want >= 1)
	}
	need := want - oldLen

	dev := vpdev.NewMemDev("disk", -1)
	dev.NoData = true
	dev.Range, dev.Lo, dev.Hi = true, start, start+size
	fs := NewFileSystem(dev, nil, tbl, dataStart, bpc, size, start, 0, 0, 512, 2048)
	vp.Unwind(n + 3)
	chain, err := fs.allocateSpace(req, prev)

	if free < need {
		vp.Assert(err != nil, "out of space at the same point for every start offset: fewer free whole clusters than needed")
		vp.Assert(len(dev.Log) == 0, "a refused allocation writes nothing")
		vp.Cover("refused")
		return
	}
	vp.Assert(err == nil, "enough free whole clusters: the allocation succeeds for every start offset")
	if err != nil {
		return
	}
	vp.Assert(uint32(len(chain)) == want, "exactly the clusters needed")
	if uint32(len(chain)) != want {
		return
	}
	// the k-th new cluster is the k-th free entry of the table (lowest first): a function of the table alone
	kth := make([]uint32, n+3)
	cnt := uint32(0)
	for i := uint32(2); i < N; i++ {
		isFree := old[i] == 0
		for k := 0; k < n; k++ {
			kth[k] = vp.IteU32(isFree && cnt == uint32(k), i, kth[k])
		}
		cnt += vp.IteU32(isFree, 1, 0)
	}
	for k := 0; k < n+2; k++ {
		if uint32(k) < want {
			if uint32(k) >= oldLen {
				c := chain[k]
				vp.Assert(c >= 2, "a data cluster is handed out")
				vp.Assert(int64(dataStart)+(int64(c)-2+1)*bpc <= size, "the cluster handed out lies completely inside the volume: dataStart + (c-2+1)*bytesPerCluster <= size")
				vp.Assert(c < 2+uint32((size-dataStart)/bpc), "cluster number below 2 + floor((size-dataStart)/bytesPerCluster)")
				idx := uint32(k) - oldLen
				exp := uint32(0)
				for m := 0; m < n; m++ {
					exp = vp.IteU32(idx == uint32(m), kth[m], exp)
				}
				vp.Assert(c == exp, "the same clusters for every start offset: the lowest free entries of the table, in order")
			}
		}
	}
	vp.Assert(len(dev.Log) == 2, "both FAT copies are written")
	if len(dev.Log) == 2 {
		vp.Assert(dev.Log[0].Off == start+512, "primary FAT written at start + its offset in the volume")
		vp.Assert(dev.Log[1].Off == start+2048, "secondary FAT written at start + its offset in the volume")
	}
	if tail != 0 {
		if free == need {
			if start > 1<<32 {
				vp.Cover("last whole cluster handed out before a trailing partial cluster, start beyond 4 GiB")
			}
		}
	}
	vp.Cover("allocated")
}

func VP_C03_alloc_start_independent_new()    { c03AllocStart(false, vp.Bound("entries", 7, 9)) }
func VP_C03_alloc_start_independent_extend() { c03AllocStart(true, vp.Bound("entries", 7, 8)) }

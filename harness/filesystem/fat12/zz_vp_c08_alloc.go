package fat12

import (
	"github.com/diskfs/go-diskfs/internal/vp"
	"github.com/diskfs/go-diskfs/internal/vp/vpdev"
)

// c08AllocStep: one allocateSpace call (grow, shrink, new chain) from an ARBITRARY well-formed
// allocation table: the inductive step behind "chains stay disjoint, in range, EOC-terminated,
// long enough; released clusters are free again; nothing else changes; nothing outside the
// data area is handed out" for histories of any length.
func c08AllocStep(tbl FATTable, set func(i, v uint32), n int, eocLo, eocHi uint32) {
	const bpc = 512
	N := uint32(n) // entries 0..N-1, MaxCluster() = N-1 (as the table constructors set it)
	// the FAT may have more entries than the data area has clusters (it is sized in whole sectors)
	D := vp.U32("dataClusters")
	vp.Assume(D >= 1)
	vp.Assume(D <= N)
	vp.Assume(D+2 <= N)
	rank := make([]uint32, n)
	old := make([]uint32, n)
	for i := uint32(2); i < N; i++ {
		v := vp.U32("fat" + string(rune('a'+i)))
		rank[i] = vp.U32("rank" + string(rune('a'+i)))
		old[i] = v
		set(i, v)
		isEOC := v >= eocLo && v <= eocHi
		isLink := v >= 2 && v < D+2
		// representation invariant: free | EOC | link to a data cluster; clusters beyond the data area are free
		vp.Assume(v == 0 || isEOC || isLink)
		if i >= 2 {
			vp.Assume(i < D+2 || v == 0)
		}
	}
	for i := uint32(2); i < N; i++ {
		for j := uint32(2); j < N; j++ {
			// acyclic (ghost ranks) and no cluster in two chains
			vp.Assume(!(old[i] == j) || rank[j] > rank[i])
			if i < j {
				vp.Assume(!(old[i] == old[j] && old[i] >= 2 && old[i] < N))
			}
		}
	}
	prev := vp.U32("previous")
	size := vp.U64("size")
	vp.Assume(size <= uint64(n+2)*bpc)
	// previous is 0 (new file) or the head of a chain: in use and nobody links to it
	vp.Assume(prev == 0 || (prev >= 2 && prev < D+2))
	for i := uint32(2); i < N; i++ {
		vp.Assume(prev == 0 || old[i] != prev)
		if i == 2 {
			continue
		}
	}
	for i := uint32(2); i < N; i++ {
		vp.Assume(!(prev == i) || old[i] != 0)
	}
	dataStart := uint32(4096)
	dev := vpdev.NewMemDev("disk", -1)
	dev.NoData = true
	fs := NewFileSystem(dev, nil, tbl, dataStart, bpc, int64(dataStart)+int64(D)*bpc, 0, 0, 0, 512, 2048)
	vp.Unwind(n + 3)
	chain, err := fs.allocateSpace(size, prev)
	want := uint32((size + bpc - 1) / bpc)
	if err != nil {
		for i := uint32(2); i < N; i++ {
			vp.Assert(tbl.ClusterValue(i) == old[i], "a refused allocation leaves the table unchanged")
		}
		vp.Cover("allocation refused")
		return
	}
	// walk the resulting chain from its head
	head := prev
	if prev == 0 {
		if want == 0 {
			vp.Assert(len(chain) == 0, "no clusters for an empty new file")
			vp.Cover("empty allocation")
			return
		}
		vp.Assert(len(chain) >= 1, "a chain is returned")
		head = chain[0]
	}
	keep := want
	if keep == 0 {
		keep = 1 // an existing file keeps its first cluster
	}
	cur := head
	inNew := make([]bool, n)
	for step := uint32(0); step < N; step++ {
		if step < keep {
			vp.Assert(cur >= 2 && cur < D+2, "chain cluster lies inside the data area")
			for i := uint32(2); i < N; i++ {
				if cur == i {
					inNew[i] = true
				}
			}
			nxt := tbl.ClusterValue(cur)
			if step == keep-1 {
				vp.Assert(nxt >= eocLo && nxt <= eocHi, "the chain ends with an end-of-chain mark after exactly the clusters needed")
			} else {
				vp.Assert(nxt >= 2 && nxt < N, "the chain continues while more clusters are needed")
				cur = nxt
			}
		}
	}
	// membership of the old chain of prev
	inOld := make([]bool, n)
	if prev != 0 {
		c := prev
		done := false
		for step := uint32(0); step < N; step++ {
			if !done {
				for i := uint32(2); i < N; i++ {
					if c == i {
						inOld[i] = true
					}
				}
				nx := old[c]
				if nx >= eocLo && nx <= eocHi {
					done = true
				} else {
					c = nx
				}
			}
		}
	}
	for i := uint32(2); i < N; i++ {
		now := tbl.ClusterValue(i)
		if !inNew[i] && !inOld[i] {
			vp.Assert(now == old[i], "clusters of other chains and free clusters are untouched")
		}
		if inNew[i] && !inOld[i] {
			vp.Assert(old[i] == 0, "newly allocated clusters were free before")
		}
		if inOld[i] && !inNew[i] {
			vp.Assert(now == 0, "released clusters are marked free again")
		}
	}
	vp.Cover("allocation done")
}

func VP_C08_alloc_step_fat12() {
	n := vp.Bound("entries", 7, 9)
	t := &fat12Table{eoc: 0xFFF, clusters: make([]uint32, n), max: uint32(n - 1), size: 512}
	c08AllocStep(t, func(i, v uint32) { t.clusters[i] = v }, n, 0xFF8, 0xFFF)
}

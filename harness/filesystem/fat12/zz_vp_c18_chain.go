package fat12

import (
	"github.com/diskfs/go-diskfs/internal/vp"
	"github.com/diskfs/go-diskfs/internal/vp/vpdev"
)

// c18Ref12 decodes 12-bit entry i straight from the on-disk layout (two entries per 3 bytes).
func c18Ref12(b []byte, i int) uint32 {
	o := i + i/2
	w := uint32(b[o]) | uint32(b[o+1])<<8
	if i%2 == 0 {
		return w & 0xFFF
	}
	return w >> 4
}

// c18Table12: FATTable.FromBytes (12 bit) for a FAT of n bytes with arbitrary content:
// no panic, and every entry that lies completely inside the bytes is decoded per the format.
func c18Table12(n int) {
	b := vp.Bytes("fat", n)
	vp.Unwind(n + 4)
	vp.NoPanic()
	t := newFat12Table(0xFF8, uint32(n))
	t.FromBytes(b)
	vp.AllowPanic()
	vp.Assert(int(t.MaxCluster()) == n*2/3, "highest cluster index = number of whole 12-bit entries")
	vp.Assert(len(t.clusters) == n*2/3+1, "one slot per cluster index")
	for i := 2; i <= int(t.MaxCluster()); i++ {
		if i+i/2+1 < n {
			vp.Assert(t.ClusterValue(uint32(i)) == c18Ref12(b, i), "entry decoded per the 12-bit layout")
		}
	}
	// contract the chain walker relies on: it rejects links above MaxCluster() and indexes every other value
	idx := vp.U32("idx")
	vp.Assume(idx <= t.MaxCluster())
	vp.NoPanic()
	_ = t.ClusterValue(idx)
	t.SetCluster(idx, t.EOCMarker())
	vp.AllowPanic()
	vp.Cover("table decoded")
}

func VP_C18_fat12_table_0()  { c18Table12(0) }
func VP_C18_fat12_table_1()  { c18Table12(1) }
func VP_C18_fat12_table_2()  { c18Table12(2) }
func VP_C18_fat12_table_3()  { c18Table12(3) }
func VP_C18_fat12_table_4()  { c18Table12(4) }
func VP_C18_fat12_table_5()  { c18Table12(5) }
func VP_C18_fat12_table_6()  { c18Table12(6) }
func VP_C18_fat12_table_47() { c18Table12(47) }
func VP_C18_fat12_table_48() { c18Table12(48) }

// c18Fs builds a filesystem over a 12-bit table of n+1 clusters whose entries 2..n are arbitrary.
func c18Fs(n int, bytesPerCluster int) (*FileSystem, *fat12Table) {
	t := &fat12Table{fatID: 0xFF8, eoc: 0xFFF, clusters: make([]uint32, n+1), max: uint32(n), size: uint32((n + 1) * 3 / 2)}
	for i := 2; i <= n; i++ {
		t.clusters[i] = uint32(vp.U16("fat"+string(rune('a'+i)))) & 0xFFF
	}
	dev := vpdev.NewMemDev("img", -1)
	dev.UF = true
	dev.NoWrites = true
	fs := &FileSystem{table: t, bytesPerCluster: bytesPerCluster, dataStart: 4096, backend: dev, size: 1 << 20}
	return fs, t
}

// VP_C18_fat12_chain: getClusterList from an arbitrary start cluster over an arbitrary table.
// A chain over n clusters has at most n-1 members: more iterations mean the walk follows a cycle.
func VP_C18_fat12_chain() {
	n := vp.Bound("clusters", 6, 10)
	fs, t := c18Fs(n, 512)
	first := vp.U32("first")
	vp.Unwind(n + 5)
	vp.MaxLoop(n + 2)
	vp.NoPanic()
	list, err := fs.getClusterList(first)
	vp.AllowPanic()
	if err == nil {
		vp.Assert(len(list) >= 1, "a chain has at least its start cluster")
		vp.Assert(len(list) <= n-1, "a chain has no more members than there are data clusters")
		vp.Assert(list[0] == first, "chain starts at the start cluster")
		vp.Assert(first <= t.max, "start cluster inside the table")
		for i := range list {
			vp.Assert(list[i] <= t.max, "every member is inside the table")
		}
		vp.Cover("chain returned")
	} else {
		vp.Cover("chain rejected")
	}
}

// VP_C18_fat12_chain_acyclic: same, on tables whose links only point forward (no cycle possible):
// the walk must be clean there.
func VP_C18_fat12_chain_acyclic() {
	n := vp.Bound("clusters", 6, 10)
	fs, t := c18Fs(n, 512)
	for i := 2; i <= n; i++ {
		v := t.clusters[i]
		vp.Assume(v == 0 || v > uint32(i))
	}
	first := vp.U32("first")
	vp.Unwind(n + 5)
	vp.MaxLoop(n + 2)
	vp.NoPanic()
	list, err := fs.getClusterList(first)
	vp.AllowPanic()
	if err == nil {
		vp.Assert(len(list) <= n-1, "a chain has no more members than there are data clusters")
		for i := range list {
			vp.Assert(list[i] <= t.max, "every member is inside the table")
			vp.Assert(list[i] >= 2, "every member is a data cluster")
		}
		if len(list) == n-1 {
			vp.Cover("chain through every cluster")
		}
		vp.Cover("chain returned")
	} else {
		vp.Cover("chain rejected")
	}
}

// c18NullDev delivers every read in full without touching the buffer (content is irrelevant for
// the arithmetic of File.Read).
type c18NullDev struct{ vpdev.MemDev }

func (d *c18NullDev) ReadAt(p []byte, off int64) (int, error) { return len(p), nil }

// c18FileRead: File.Read with an arbitrary size field, offset and (forward-linked) chain:
// no panic, terminates, returns 0 <= n <= len(b).
func c18FileRead(bytesPerCluster, buflen int) {
	n := vp.Bound("fclusters", 4, 6)
	fs, t := c18Fs(n, bytesPerCluster)
	fs.backend = &c18NullDev{}
	for i := 2; i <= n; i++ {
		v := t.clusters[i]
		vp.Assume(v == 0 || v > uint32(i))
	}
	de := &directoryEntry{clusterLocation: vp.U32("first"), fileSize: vp.U32("fileSize"), filesystem: fs}
	off := vp.I64("offset")
	vp.Assume(off >= 0)
	fl := &File{directoryEntry: de, offset: off, filesystem: fs}
	b := make([]byte, buflen)
	vp.Unwind(n + 5)
	vp.MaxLoop(n + 1)
	if bytesPerCluster == 0 {
		// KF-C18-6: cluster size 0 (sectors per cluster 0 is accepted by fat32.Read): division by zero
		vp.KnownPanic("KF-C18-6", "fat12.File).Read) | integer divide by zero")
	} else {
		// KF-C18-5: offset inside the size field but beyond the clusters of the chain: clusters[clusterIndex]
		// index out of range (aligned or not)
		vp.KnownPanic("KF-C18-5", "fat12.File).Read) | index out of range")
	}
	vp.NoPanic()
	got, err := fl.Read(b)
	vp.AllowPanic()
	vp.Assert(got >= 0, "count not negative")
	vp.Assert(got <= buflen, "count at most len(b)")
	if err == nil {
		vp.Cover("read without error")
	} else {
		vp.Cover("read with error or EOF")
	}
}

func VP_C18_fat12_file_read_512_512()  { c18FileRead(512, 512) }
func VP_C18_fat12_file_read_512_100()  { c18FileRead(512, 100) }
func VP_C18_fat12_file_read_512_1200() { c18FileRead(512, 1200) }
func VP_C18_fat12_file_read_0_512()    { c18FileRead(0, 512) }

// VP_C18_fat12_readdir_chain: readDirectory of a cluster-chain directory (FAT32 root, any subdirectory):
// arbitrary forward-linked FAT, clusters of 32 bytes (one slot each), arbitrary directory bytes on the image.
func VP_C18_fat12_readdir_chain() {
	n := vp.Bound("dclusters", 4, 5)
	fs, t := c18Fs(n, 32)
	for i := 2; i <= n; i++ {
		v := t.clusters[i]
		vp.Assume(v == 0 || v > uint32(i))
	}
	dir := &Directory{directoryEntry: directoryEntry{clusterLocation: vp.U32("first"), isSubdirectory: true, filesystem: fs}}
	vp.Unwind(20)
	vp.MaxLoop(14) // 13 characters per long-name slot
	vp.AllocCap(32 * n)
	vp.AllocLimit(uint64(32*n + c18Slack))
	vp.NoPanic()
	ents, err := fs.readDirectory(dir)
	vp.AllowPanic()
	if err == nil {
		vp.Assert(len(ents) <= n-1, "no more entries than slots in the chain")
		vp.Cover("directory read")
	} else {
		vp.Cover("directory refused")
	}
}

// VP_C18_fat12_readdir_root: readDirectory of the fixed FAT12/16 root region (2 slots).
func VP_C18_fat12_readdir_root() {
	fs, _ := c18Fs(3, 512)
	fs.rootDirMaxEntries = 2
	fs.rootDirOffset = 1024
	dir := &Directory{directoryEntry: directoryEntry{clusterLocation: 0, isSubdirectory: true, filesystem: fs}}
	vp.Unwind(20)
	vp.MaxLoop(14)
	vp.NoPanic()
	ents, err := fs.readDirectory(dir)
	vp.AllowPanic()
	if err == nil {
		vp.Assert(len(ents) <= 2, "no more entries than root slots")
		vp.Cover("root read")
	}
	vp.Cover("done")
}

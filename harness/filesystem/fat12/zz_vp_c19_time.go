package fat12

import (
	"encoding/binary"
	"time"

	"github.com/diskfs/go-diskfs/internal/vp"
)

// c19DaysIn: days in the given month (independent civil-calendar reference).
func c19DaysIn(year, month int) int {
	switch month {
	case 4, 6, 9, 11:
		return 30
	case 2:
		if year%4 == 0 && (year%100 != 0 || year%400 == 0) {
			return 29
		}
		return 28
	}
	return 31
}

// c19Civil is a civil time given by its components (all symbolic).
type c19Civil struct{ y, mo, d, h, mi, s, ns int }

// c19Time returns an arbitrary UTC civil time in the FAT range 1980-01-01 .. 2107-12-31.
func c19Time(pfx string) (time.Time, c19Civil) {
	c := c19Civil{
		y: int(vp.U16(pfx + ".year")), mo: int(vp.U8(pfx + ".month")), d: int(vp.U8(pfx + ".day")),
		h: int(vp.U8(pfx + ".hour")), mi: int(vp.U8(pfx + ".min")), s: int(vp.U8(pfx + ".sec")),
		ns: int(vp.U32(pfx + ".nsec")),
	}
	vp.Assume(c.y >= 1980)
	vp.Assume(c.y <= 2107)
	vp.Assume(c.mo >= 1)
	vp.Assume(c.mo <= 12)
	vp.Assume(c.d >= 1)
	vp.Assume(c.d <= c19DaysIn(c.y, c.mo))
	vp.Assume(c.h <= 23)
	vp.Assume(c.mi <= 59)
	vp.Assume(c.s <= 59)
	vp.Assume(c.ns <= 999999999)
	return time.Date(c.y, time.Month(c.mo), c.d, c.h, c.mi, c.s, c.ns, time.UTC), c
}

// c19FatDate / c19FatTime: the on-disk words of a civil time straight from the FAT specification
// (date: bits 15-9 year-1980, 8-5 month, 4-0 day; time: bits 15-11 hour, 10-5 minute, 4-0 seconds/2).
func c19FatDate(c c19Civil) uint16 { return uint16(c.y-1980)<<9 | uint16(c.mo)<<5 | uint16(c.d) }
func c19FatTime(c c19Civil) uint16 { return uint16(c.h)<<11 | uint16(c.mi)<<5 | uint16(c.s/2) }

// c19SameTo2s asserts that t shows civil time c at FAT resolution (2 s, no sub-second part).
func c19SameTo2s(t time.Time, c c19Civil) {
	vp.Assert(t.Year() == c.y, "year survives")
	vp.Assert(int(t.Month()) == c.mo, "month survives")
	vp.Assert(t.Day() == c.d, "day survives")
	vp.Assert(t.Hour() == c.h, "hour survives")
	vp.Assert(t.Minute() == c.mi, "minute survives")
	vp.Assert(t.Second() == c.s-c.s%2, "second survives to the 2 s resolution")
}

// c19SameDay asserts that t shows the date of c (the FAT access stamp has no time of day).
func c19SameDay(t time.Time, c c19Civil) {
	vp.Assert(t.Year() == c.y, "access year survives")
	vp.Assert(int(t.Month()) == c.mo, "access month survives")
	vp.Assert(t.Day() == c.d, "access day survives")
}

// VP_C19_fat_datetime_decode_encode: every valid FAT date/time word pair (1980..2107, 2 s steps)
// is decoded to the civil time its bit fields name, and encoding that time gives the same words.
func VP_C19_fat_datetime_decode_encode() {
	d := vp.U16("date")
	t := vp.U16("time")
	year := int(d>>9) + 1980
	month := int(d>>5) & 0xf
	day := int(d) & 0x1f
	hour := int(t >> 11)
	min := int(t>>5) & 0x3f
	sec2 := int(t) & 0x1f
	vp.Assume(month >= 1)
	vp.Assume(month <= 12)
	vp.Assume(day >= 1)
	vp.Assume(day <= c19DaysIn(year, month))
	vp.Assume(hour <= 23)
	vp.Assume(min <= 59)
	vp.Assume(sec2 <= 29)
	tm := dateTimeToTime(d, t)
	vp.Assert(tm.Year() == year, "decoded year")
	vp.Assert(int(tm.Month()) == month, "decoded month")
	vp.Assert(tm.Day() == day, "decoded day")
	vp.Assert(tm.Hour() == hour, "decoded hour")
	vp.Assert(tm.Minute() == min, "decoded minute")
	vp.Assert(tm.Second() == 2*sec2, "decoded second")
	vp.Assert(tm.Nanosecond() == 0, "no sub-second part")
	d2, t2 := timeToDateTime(tm)
	vp.Assert(d2 == d, "date word round-trips")
	vp.Assert(t2 == t, "time word round-trips")
	if year == 2107 {
		vp.Cover("last representable year")
	}
	if year == 1980 {
		vp.Cover("first representable year")
	}
	vp.Cover("valid date/time")
}

// VP_C19_fat_time_encode_decode: every civil time 1980-01-01 .. 2107-12-31 23:59:59.999999999 is
// encoded into the words the FAT specification prescribes and decoded back to the same time at 2 s resolution.
func VP_C19_fat_time_encode_decode() {
	tm, c := c19Time("t")
	d, t := timeToDateTime(tm)
	vp.Assert(d == c19FatDate(c), "date word = (year-1980)<<9 | month<<5 | day")
	vp.Assert(t == c19FatTime(c), "time word = hour<<11 | minute<<5 | second/2")
	back := dateTimeToTime(d, t)
	c19SameTo2s(back, c)
	vp.Assert(back.Nanosecond() == 0, "sub-second part dropped")
	if c.y == 2107 {
		if c.s == 59 {
			vp.Cover("odd second in 2107")
		}
	}
	vp.Cover("encoded")
}

// c19Entry builds a directory entry with a concrete 8.3 name and arbitrary metadata.
type c19Meta struct {
	ro, hid, sys, vol, dir, arch, lcName, lcExt bool
	ct, mt, at                                  c19Civil
	size, cluster                               uint32
}

func c19Entry(pfx, name, ext string) (*directoryEntry, c19Meta) {
	var m c19Meta
	m.ro, m.hid, m.sys = vp.Bool(pfx+".ro"), vp.Bool(pfx+".hidden"), vp.Bool(pfx+".system")
	m.vol, m.dir, m.arch = vp.Bool(pfx+".vol"), vp.Bool(pfx+".dir"), vp.Bool(pfx+".archive")
	m.lcName, m.lcExt = vp.Bool(pfx+".lcname"), vp.Bool(pfx+".lcext")
	m.size, m.cluster = vp.U32(pfx+".size"), vp.U32(pfx+".cluster")
	var ct, mt, at time.Time
	ct, m.ct = c19Time(pfx + ".ctime")
	mt, m.mt = c19Time(pfx + ".mtime")
	at, m.at = c19Time(pfx + ".atime")
	de := &directoryEntry{
		filenameShort: name, fileExtension: ext,
		isReadOnly: m.ro, isHidden: m.hid, isSystem: m.sys, isVolumeLabel: m.vol, isSubdirectory: m.dir, isArchiveDirty: m.arch,
		lowercaseShortname: m.lcName, lowercaseExtension: m.lcExt,
		createTime: ct, modifyTime: mt, accessTime: at,
		fileSize: m.size, clusterLocation: m.cluster,
	}
	return de, m
}

// c19Attr: the attribute byte straight from the FAT specification.
func c19Attr(m c19Meta) byte {
	var a byte
	a |= vp.IteU8(m.ro, 0x01, 0)
	a |= vp.IteU8(m.hid, 0x02, 0)
	a |= vp.IteU8(m.sys, 0x04, 0)
	a |= vp.IteU8(m.vol, 0x08, 0)
	a |= vp.IteU8(m.dir, 0x10, 0)
	a |= vp.IteU8(m.arch, 0x20, 0)
	return a
}

// c19CheckSlot asserts that the 32-byte slot b carries the metadata m at the offsets of the specification.
func c19CheckSlot(b []byte, m c19Meta) {
	vp.Assert(b[11] == c19Attr(m), "attribute byte = RO|H<<1|S<<2|V<<3|D<<4|A<<5")
	vp.Assert(b[12]&0x18 == vp.IteU8(m.lcName, 0x08, 0)|vp.IteU8(m.lcExt, 0x10, 0), "NT case bits")
	vp.Assert(binary.LittleEndian.Uint16(b[14:16]) == c19FatTime(m.ct), "create time word")
	vp.Assert(binary.LittleEndian.Uint16(b[16:18]) == c19FatDate(m.ct), "create date word")
	vp.Assert(binary.LittleEndian.Uint16(b[18:20]) == c19FatDate(m.at), "access date word")
	vp.Assert(binary.LittleEndian.Uint16(b[22:24]) == c19FatTime(m.mt), "modify time word")
	vp.Assert(binary.LittleEndian.Uint16(b[24:26]) == c19FatDate(m.mt), "modify date word")
	vp.Assert(binary.LittleEndian.Uint32(b[28:32]) == m.size, "size field")
}

// c19CheckEntry asserts that the parsed entry e reports metadata m.
func c19CheckEntry(e *directoryEntry, m c19Meta) {
	vp.Assert(e.isReadOnly == m.ro, "read-only flag survives")
	vp.Assert(e.isHidden == m.hid, "hidden flag survives")
	vp.Assert(e.isSystem == m.sys, "system flag survives")
	vp.Assert(e.isVolumeLabel == m.vol, "volume-label flag survives")
	vp.Assert(e.isSubdirectory == m.dir, "directory flag survives (a file is never reported as a directory or vice versa)")
	vp.Assert(e.isArchiveDirty == m.arch, "archive flag survives")
	vp.Assert(e.lowercaseShortname == m.lcName, "lower-case name flag survives")
	vp.Assert(e.lowercaseExtension == m.lcExt, "lower-case extension flag survives")
	vp.Assert(e.fileSize == m.size, "size survives")
	c19SameTo2s(e.createTime, m.ct)
	c19SameTo2s(e.modifyTime, m.mt)
	c19SameDay(e.accessTime, m.at)
}

// VP_C19_fat_entry_roundtrip: a short-name entry with arbitrary attribute flags, NT case bits, three
// arbitrary timestamps, size and cluster is written by toBytes at the offsets of the FAT specification
// and parsed back by parseDirEntries with every flag and timestamp unchanged.
func VP_C19_fat_entry_roundtrip() {
	de, m := c19Entry("e", "FILE", "TXT")
	// attribute 0x0F is the VFAT long-name marker: not a combination a short entry can carry
	vp.Assume(c19Attr(m) != 0x0f)
	b, err := de.toBytes()
	vp.Assert(err == nil, "entry encodes")
	vp.Assert(len(b) == 32, "one slot")
	c19CheckSlot(b, m)
	ents, err := parseDirEntries(b)
	vp.Assert(err == nil, "entry parses")
	vp.Assert(len(ents) == 1, "one entry")
	c19CheckEntry(ents[0], m)
	vp.Assert(ents[0].filenameShort == "FILE", "name")
	vp.Assert(ents[0].fileExtension == "TXT", "extension")
	fi, _ := ents[0].Info()
	vp.Assert(fi.IsDir() == m.dir, "Info().IsDir")
	c19SameTo2s(fi.ModTime(), m.mt)
	if m.dir {
		vp.Cover("directory entry")
	}
	if m.ro {
		if m.hid {
			if m.sys {
				vp.Cover("RO+H+S")
			}
		}
	}
	vp.Cover("round trip")
}

// VP_C19_fat_flag_independence: changing exactly one attribute of an entry (one of the six attribute
// flags, the two case flags, or one of the three timestamps) changes only that attribute's bits on disk.
func VP_C19_fat_flag_independence() {
	for which := 0; which < 11; which++ {
		de, _ := c19Entry("e", "FILE", "TXT")
		b1, err := de.toBytes()
		vp.Assert(err == nil, "entry encodes")
		nt, _ := c19Time("new")
		var off, n int   // changed byte range
		var mask byte    // bits allowed to change in a single-byte attribute
		switch which {
		case 0:
			de.isReadOnly = !de.isReadOnly
			off, n, mask = 11, 1, 0x01
		case 1:
			de.isHidden = !de.isHidden
			off, n, mask = 11, 1, 0x02
		case 2:
			de.isSystem = !de.isSystem
			off, n, mask = 11, 1, 0x04
		case 3:
			de.isVolumeLabel = !de.isVolumeLabel
			off, n, mask = 11, 1, 0x08
		case 4:
			de.isSubdirectory = !de.isSubdirectory
			off, n, mask = 11, 1, 0x10
		case 5:
			de.isArchiveDirty = !de.isArchiveDirty
			off, n, mask = 11, 1, 0x20
		case 6:
			de.lowercaseShortname = !de.lowercaseShortname
			off, n, mask = 12, 1, 0x08
		case 7:
			de.lowercaseExtension = !de.lowercaseExtension
			off, n, mask = 12, 1, 0x10
		case 8:
			de.createTime = nt
			off, n, mask = 14, 4, 0xff
		case 9:
			de.accessTime = nt
			off, n, mask = 18, 2, 0xff
		case 10:
			de.modifyTime = nt
			off, n, mask = 22, 4, 0xff
		}
		b2, err := de.toBytes()
		vp.Assert(err == nil, "changed entry encodes")
		for i := 0; i < 32; i++ {
			if i >= off && i < off+n {
				vp.Assert((b1[i]^b2[i])&^mask == 0, "only the changed attribute's bits differ")
				if which < 8 {
					vp.Assert((b1[i]^b2[i]) == mask, "the changed flag's bit flips")
				}
			} else {
				vp.Assert(b1[i] == b2[i], "no other byte of the slot changes")
			}
		}
	}
	vp.Cover("all attributes tried")
}

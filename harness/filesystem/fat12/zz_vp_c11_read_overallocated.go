package fat12

import (
	"io"
	"os"

	"github.com/diskfs/go-diskfs/backend"
	"github.com/diskfs/go-diskfs/internal/vp"
	"github.com/diskfs/go-diskfs/internal/vp/vpdev"
)

// C11 (read-only access never modifies the image), FAT family: reading a file whose cluster chain does not
// match its recorded size - LONGER than the size needs (other FAT drivers preallocate; an interrupted
// truncation leaves such chains) or SHORTER - through every reading entry point (OpenFile(O_RDONLY) + Read,
// Seek + Read, ReadFile, ReadDir, Stat, GetArchiveBit, Label) on a backend that IS writable: not one WriteAt
// may be issued (no "repair" of the chain or of the size behind the reader's back), and the in-memory
// allocation table keeps every entry (nothing is left to be flushed by the next unrelated write).
//
// Volume: fixed root directory of 4 slots at byte 512 with FILE.TXT (first cluster 2, arbitrary recorded
// size) and OTHER.BIN (cluster 4); data area at byte 1024; FAT12 table with 12 entries; the chain of
// FILE.TXT is 2 -> 5 -> 3 -> 7 cut to L clusters; arbitrary data bytes.

// c11RWDev: a writable backend on which any WriteAt is an assertion failure (MemDev.NoWrites).
type c11RWDev struct{ *vpdev.MemDev }

func (d *c11RWDev) Writable() (backend.WritableFile, error) { return d, nil }

func c11OverFS(L, bpc int, size uint32) (*FileSystem, *fat12Table, []uint32) {
	m := vpdev.NewMemDev("img", -1)
	m.UF = true
	m.NoWrites = true
	root := make([]byte, 128)
	copy(root[0:32], c11Slot("FILE    TXT", 0x20, 2, size))
	copy(root[32:64], c11Slot("OTHER   BIN", 0x20, 4, 10))
	m.Log = append(m.Log, vpdev.WRec{Off: c11RootOff, Len: len(root), Data: root})
	t := newFat12Table(0xFF8, 18)
	order := []uint32{2, 5, 3, 7}
	for i := 0; i < L; i++ {
		if i == L-1 {
			t.clusters[order[i]] = t.eoc
		} else {
			t.clusters[order[i]] = order[i+1]
		}
	}
	t.clusters[4] = t.eoc
	before := make([]uint32, len(t.clusters))
	copy(before, t.clusters)
	fs := NewFileSystem(&c11RWDev{m}, nil, t, c11DataStart, bpc, int64(c11DataStart)+10*int64(bpc), 0, c11RootOff, 4, 128, 256)
	return fs, t, before
}

func c11OverCheck(fs *FileSystem, t *fat12Table, before []uint32, size uint32) {
	for i := range before {
		vp.Assert(t.clusters[i] == before[i], "reading leaves the in-memory allocation table unchanged")
	}
	d, err := fs.ReadDir(".")
	vp.Assert(err == nil, "ReadDir works")
	vp.Assert(len(d) == 2, "both files are listed")
	st, err := fs.Stat("FILE.TXT")
	vp.Assert(err == nil, "Stat works")
	vp.Assert(st.Size() == int64(size), "Stat reports the recorded size, unrepaired")
}

// c11ReadMismatch: chain of L clusters, arbitrary recorded size 0 .. (L+2) clusters.
func c11ReadMismatch(L int) {
	const bpc = c11BPC
	size := vp.U32("file.size")
	vp.Assume(size <= uint32((L+2)*bpc))
	fs, t, before := c11OverFS(L, bpc, size)
	vp.Unwind(40)
	d, err := fs.ReadDir(".")
	vp.Assert(err == nil, "ReadDir works")
	vp.Assert(len(d) == 2, "both files are listed")
	_, _ = fs.GetArchiveBit("/FILE.TXT")
	_ = fs.Label()
	f, err := fs.OpenFile("/FILE.TXT", os.O_RDONLY)
	vp.Assert(err == nil, "read-only open works")
	buf := make([]byte, (L+2)*bpc+5)
	n, rerr := f.Read(buf)
	vp.Assert(n <= int(size), "Read delivers no more than the recorded size")
	fi, err := f.Stat()
	vp.Assert(err == nil, "File.Stat works")
	vp.Assert(fi.Size() == int64(size), "the handle reports the recorded size, unrepaired")
	if int(size) <= L*bpc {
		vp.Assert(n == int(size), "Read delivers the whole file when the chain covers the size")
		vp.Assert(rerr == nil || rerr == io.EOF, "no error other than io.EOF")
		if int(size) <= (L-1)*bpc {
			vp.Cover("chain longer than the size needs")
		}
		// from an arbitrary position inside the file
		if size > 0 {
			off := int64(vp.U32("seek") % size)
			_, err = f.Seek(off, io.SeekStart)
			vp.Assert(err == nil, "Seek inside the file")
			small := make([]byte, bpc+3)
			_, _ = f.Read(small)
		}
		b, err := fs.ReadFile("FILE.TXT")
		vp.Assert(err == nil, "ReadFile works")
		vp.Assert(len(b) == int(size), "ReadFile delivers exactly the recorded size")
	} else {
		vp.Cover("chain shorter than the size needs")
	}
	_ = f.Close()
	c11OverCheck(fs, t, before, size)
	vp.Cover("readers done")
}

func VP_C11_fat_read_overallocated_L1() { c11ReadMismatch(1) }
func VP_C11_fat_read_overallocated_L2() { c11ReadMismatch(2) }
func VP_C11_fat_read_overallocated_L4() { c11ReadMismatch(4) }

// VP_C11_fat_read_overallocated_512: the everyday instance: 512-byte clusters, a 4-cluster chain, 700 bytes recorded.
func VP_C11_fat_read_overallocated_512() {
	const size = 700
	fs, t, before := c11OverFS(4, 512, size)
	vp.Unwind(40)
	f, err := fs.OpenFile("/FILE.TXT", os.O_RDONLY)
	vp.Assert(err == nil, "read-only open works")
	buf := make([]byte, 600)
	n, err := f.Read(buf)
	vp.Assert(err == nil, "first Read")
	vp.Assert(n == 600, "first Read fills the buffer")
	n, err = f.Read(buf)
	vp.Assert(n == 100, "second Read delivers the rest")
	vp.Assert(err == nil || err == io.EOF, "no error other than io.EOF")
	b, err := fs.ReadFile("FILE.TXT")
	vp.Assert(err == nil, "ReadFile works")
	vp.Assert(len(b) == size, "ReadFile delivers exactly the recorded size")
	_ = f.Close()
	c11OverCheck(fs, t, before, size)
	vp.Cover("700 bytes read from a 4-cluster chain")
}

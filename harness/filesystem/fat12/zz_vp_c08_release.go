package fat12

import (
	"os"

	"github.com/diskfs/go-diskfs/internal/vp"
	"github.com/diskfs/go-diskfs/internal/vp/vpdev"
)

// c08RemoveReleases: a file of the given length (case-split: 0, a tail, whole clusters, clusters + tail) with arbitrary content is created on a
// fresh 64 KiB FAT12 volume and removed again: afterwards no FAT entry is marked used that no file
// or directory owns (every cluster the file had is free again) and a second file of the same
// length can be written.
func c08RemoveReleases(n int) {
	_ = os.Setenv("SOURCE_DATE_EPOCH", "1700000000")
	const size = 64 * 1024
	dev := vpdev.NewMemDev("disk", size)
	fs, err := Create(dev, size, 0, 512, "VOL", true)
	vp.Assert(err == nil, "volume created")
	buf := vp.Bytes("data", n+1)
	vp.Unwind(12)
	used := func() int {
		c := 0
		for i := uint32(2); i < fs.table.MaxCluster(); i++ {
			c += vp.IteInt(fs.table.ClusterValue(i) != 0, 1, 0)
		}
		return c
	}
	before := used()
	f, err := fs.OpenFile("/DATA.BIN", os.O_CREATE|os.O_RDWR)
	vp.Assert(err == nil, "file created")
	w, err := f.Write(buf[:n])
	vp.Assert(err == nil && w == n, "file written")
	vp.Assert(used() >= before+1, "the file owns at least one cluster")
	err = fs.Remove("/DATA.BIN")
	vp.Assert(err == nil, "file removed")
	vp.Assert(used() == before, "after Remove no cluster is marked used that no file or directory owns")
	vp.Cover("removed")
}

func VP_C08_fat12_remove_releases_0()    { c08RemoveReleases(0) }
func VP_C08_fat12_remove_releases_64()   { c08RemoveReleases(64) }
func VP_C08_fat12_remove_releases_512()  { c08RemoveReleases(512) }
func VP_C08_fat12_remove_releases_1041() { c08RemoveReleases(1041) }

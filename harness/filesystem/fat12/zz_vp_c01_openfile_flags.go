package fat12

import (
	"io"
	"os"

	"github.com/diskfs/go-diskfs/internal/vp"
	"github.com/diskfs/go-diskfs/internal/vp/vpdev"
)

// C01 (a FAT volume behaves like a tree of byte strings): OpenFile of an existing NON-EMPTY file with
// O_RDWR plus any combination of O_TRUNC, O_APPEND, O_CREATE, followed by one Write(p). Reference (os.OpenFile
// on a byte string):
//   O_TRUNC given (whatever else)   -> content = p
//   O_APPEND without O_TRUNC        -> content = old content followed by p
//   otherwise                       -> content = p overlaid on the old content at offset 0
// checked through a re-opened filesystem (directory and data re-read from the image), a fresh
// OpenFile(O_RDONLY) + Read and Stat; the neighbouring file keeps its slot and content.
//
// Volume: fixed root directory (4 slots at byte 1024) with FILE.TXT (cluster 2, 4..8 arbitrary bytes) and
// OTHER.BIN (cluster 3, 6 arbitrary bytes); data area at byte 2048, 512-byte clusters; 12-bit FAT of 48 bytes.

const (
	c01RootOff  = 1024
	c01DataOff  = 2048
	c01RootEnts = 4
	c01MaxOld   = 8
	c01MaxP     = 8
)

func c01FlagSlot(name11 string, cluster uint16, size uint32) []byte {
	b := make([]byte, 32)
	copy(b, name11)
	b[11] = 0x20
	b[14], b[15] = 0x21, 0x43 // 08:25:02
	b[16], b[17] = 0x43, 0x58 // 2024-02-03
	b[18], b[19] = 0x43, 0x58
	b[22], b[23] = 0x21, 0x43
	b[24], b[25] = 0x43, 0x58
	b[26], b[27] = byte(cluster), byte(cluster>>8)
	b[28], b[29], b[30], b[31] = byte(size), byte(size>>8), byte(size>>16), byte(size>>24)
	return b
}

func c01FlagOpen(dev *vpdev.MemDev) (*FileSystem, *fat12Table) {
	tbl := newFat12Table(0xf8, 48)
	tbl.SetCluster(0, 0xff8)
	tbl.SetCluster(1, 0xfff)
	tbl.SetCluster(2, 0xfff)
	tbl.SetCluster(3, 0xfff)
	return &FileSystem{table: tbl, dataStart: c01DataOff, bytesPerCluster: 512, size: 1 << 20, backend: dev,
		rootDirOffset: c01RootOff, rootDirMaxEntries: c01RootEnts, fatPrimaryStart: 512, fatSecondaryStart: 560}, tbl
}

func c01OpenFlags(flag int) {
	oldLen := vp.Int("oldlen")
	vp.Assume(oldLen >= 4)
	vp.Assume(oldLen <= c01MaxOld)
	old := vp.Bytes("old", c01MaxOld)
	other := vp.Bytes("other", 6)
	plen := vp.Int("plen")
	vp.Assume(plen >= 1)
	vp.Assume(plen <= c01MaxP)
	pbuf := vp.Bytes("p", c01MaxP)

	root := make([]byte, c01RootEnts*32)
	copy(root[0:32], c01FlagSlot("FILE    TXT", 2, uint32(oldLen)))
	copy(root[32:64], c01FlagSlot("OTHER   BIN", 3, 6))
	rootInit := make([]byte, len(root))
	copy(rootInit, root)
	dev := vpdev.NewMemDev("vol", 1<<20)
	// initial image as three writes: root directory, the two files' clusters (bytes beyond the size: zero)
	c2 := make([]byte, c01MaxOld)
	for i := range c2 {
		c2[i] = vp.IteU8(i < oldLen, old[i], 0)
	}
	c3 := make([]byte, 6)
	copy(c3, other)
	dev.Log = append(dev.Log,
		vpdev.WRec{Off: c01RootOff, Len: len(root), Data: root},
		vpdev.WRec{Off: c01DataOff, Len: len(c2), Data: c2},
		vpdev.WRec{Off: c01DataOff + 512, Len: len(c3), Data: c3})

	fs, tbl := c01FlagOpen(dev)
	vp.Unwind(40)
	f, err := fs.OpenFile("/FILE.TXT", flag)
	vp.Assert(err == nil, "the existing file opens with O_RDWR and any of O_TRUNC, O_APPEND, O_CREATE")
	if err != nil {
		return
	}
	n, err := f.Write(pbuf[:plen])
	vp.Assert(err == nil, "Write succeeds")
	vp.Assert(n == plen, "Write reports len(p)")
	vp.Assert(f.Close() == nil, "Close succeeds")

	// reference content
	want := make([]byte, c01MaxOld+c01MaxP)
	wantLen := 0
	switch {
	case flag&os.O_TRUNC != 0:
		wantLen = plen
		for i := 0; i < c01MaxP; i++ {
			want[i] = pbuf[i]
		}
	case flag&os.O_APPEND != 0:
		wantLen = oldLen + plen
		for i := range want {
			v := byte(0)
			for k := 0; k < c01MaxP; k++ {
				v = vp.IteU8(i-oldLen == k, pbuf[k], v)
			}
			if i < c01MaxOld {
				v = vp.IteU8(i < oldLen, old[i], v)
			}
			want[i] = v
		}
	default:
		wantLen = vp.IteInt(plen > oldLen, plen, oldLen)
		for i := 0; i < c01MaxOld; i++ {
			want[i] = vp.IteU8(i < plen, pbuf[i], old[i])
		}
	}

	// the file stayed inside its one cluster: the table is as before
	for i := uint32(2); i <= tbl.max; i++ {
		exp := uint32(0)
		if i <= 3 {
			exp = 0xfff
		}
		vp.Assert(tbl.clusters[i] == exp, "a file of at most 16 bytes keeps its single cluster; no other cluster is taken")
	}

	// re-open: directory and data come from the image
	fs2, _ := c01FlagOpen(dev)
	st, err := fs2.Stat("FILE.TXT")
	vp.Assert(err == nil, "Stat after re-open")
	vp.Assert(st.Size() == int64(wantLen), "recorded size = length of the reference content")
	g, err := fs2.OpenFile("/FILE.TXT", os.O_RDONLY)
	vp.Assert(err == nil, "fresh read-only open")
	buf := make([]byte, c01MaxOld+c01MaxP+4)
	got, rerr := g.Read(buf)
	vp.Assert(got == wantLen, "Read delivers as many bytes as the reference content has")
	vp.Assert(rerr == nil || rerr == io.EOF, "Read reports no error other than io.EOF")
	for i := range want {
		if i < wantLen {
			vp.Assert(buf[i] == want[i], "Read delivers the reference content")
		}
	}
	// the neighbour
	same := true
	for i := 32; i < 96; i++ {
		if dev.ByteAt(c01RootOff+int64(i)) != rootInit[i] {
			same = false
		}
	}
	vp.Assert(same, "the neighbouring file's directory slot and the end-of-directory slot are unchanged")
	for i := 0; i < 6; i++ {
		vp.Assert(dev.ByteAt(c01DataOff+512+int64(i)) == other[i], "the neighbouring file's content is unchanged")
	}
	if plen < oldLen {
		vp.Cover("Write shorter than the old content")
	}
	if plen > oldLen {
		vp.Cover("Write longer than the old content")
	}
	vp.Cover("flags done")
}

func VP_C01_openfile_flags_rdwr()         { c01OpenFlags(os.O_RDWR) }
func VP_C01_openfile_flags_trunc()        { c01OpenFlags(os.O_RDWR | os.O_TRUNC) }
func VP_C01_openfile_flags_append()       { c01OpenFlags(os.O_RDWR | os.O_APPEND) }
func VP_C01_openfile_flags_trunc_append() { c01OpenFlags(os.O_RDWR | os.O_TRUNC | os.O_APPEND) }
func VP_C01_openfile_flags_create()       { c01OpenFlags(os.O_RDWR | os.O_CREATE) }
func VP_C01_openfile_flags_create_trunc() {
	c01OpenFlags(os.O_RDWR | os.O_CREATE | os.O_TRUNC)
}
func VP_C01_openfile_flags_create_append() {
	c01OpenFlags(os.O_RDWR | os.O_CREATE | os.O_APPEND)
}
func VP_C01_openfile_flags_create_trunc_append() {
	c01OpenFlags(os.O_RDWR | os.O_CREATE | os.O_TRUNC | os.O_APPEND)
}

package fat12

import (
	"github.com/diskfs/go-diskfs/internal/vp"
	"github.com/diskfs/go-diskfs/internal/vp/vpdev"
)

// oneChainTable is a FATTable in which exactly one cluster (c0) is in use, as a one-cluster chain.
// It lets the cluster number range over the whole 28-bit space without a table in memory.
type oneChainTable struct {
	c0  uint32
	max uint32
}

func (t *oneChainTable) ClusterValue(n uint32) uint32 {
	if n == t.c0 {
		return 0x0FFFFFFF
	}
	return 0
}
func (t *oneChainTable) SetCluster(n, val uint32) {}
func (t *oneChainTable) IsEOC(val uint32) bool    { return val >= 0x0FFFFFF8 }
func (t *oneChainTable) EOCMarker() uint32        { return 0x0FFFFFFF }
func (t *oneChainTable) UnusedMarker() uint32     { return 0 }
func (t *oneChainTable) MaxCluster() uint32       { return t.max }
func (t *oneChainTable) FATID() uint32            { return 0x0FFFFFF8 }
func (t *oneChainTable) RootDirCluster() uint32   { return 2 }
func (t *oneChainTable) Size() uint32             { return 512 }
func (t *oneChainTable) FromBytes(b []byte)       {}
func (t *oneChainTable) Bytes() []byte            { return make([]byte, 512) }

// c03DirWrite: writeDirectoryEntries of a one-cluster directory whose cluster number, the
// volume's data start and its start inside the device are arbitrary: the cluster is written at
// start + dataStart + (cluster-2)*bytesPerCluster computed in 64 bits, inside [start, start+size).
func c03DirWrite(bpc int) {
	c := vp.U32("cluster")
	clusters := vp.U32("dataClusters")
	vp.Assume(clusters >= 1)
	vp.Assume(clusters <= 0x0FFFFFF0)
	vp.Assume(c >= 2)
	vp.Assume(c < clusters+2)
	dataStart := vp.U32("dataStart")
	vp.Assume(dataStart >= 1024)
	vp.Assume(dataStart%512 == 0)
	start := vp.I64("start")
	vp.Assume(start >= 0)
	vp.Assume(start <= 1<<45)
	size := int64(dataStart) + int64(clusters)*int64(bpc)
	tbl := &oneChainTable{c0: c, max: clusters + 2}
	dev := vpdev.NewMemDev("disk", -1)
	dev.NoData = true
	dev.Range, dev.Lo, dev.Hi = true, start, start+size
	fs := NewFileSystem(dev, nil, tbl, dataStart, bpc, size, start, 0, 0, 512, 1024)
	de := &directoryEntry{filenameShort: "A", fileExtension: "TXT", fileSize: 1, clusterLocation: 2, filesystem: fs}
	dir := &Directory{directoryEntry: directoryEntry{isSubdirectory: true, clusterLocation: c, filesystem: fs}, entries: []*directoryEntry{de}}
	err := fs.writeDirectoryEntries(dir)
	vp.Assert(err == nil, "directory entries written")
	vp.Assert(len(dev.Log) == 1, "one cluster written")
	want := start + int64(dataStart) + int64(c-2)*int64(bpc)
	vp.Assert(dev.Log[0].Off == want, "directory cluster written at start + dataStart + (cluster-2)*bytesPerCluster")
	vp.Assert(dev.Log[0].Len == bpc, "a whole cluster is written")
	vp.Cover("directory written")
}

func VP_C03_fat_dir_write_512()   { c03DirWrite(512) }
func VP_C03_fat_dir_write_32768() { c03DirWrite(32768) }

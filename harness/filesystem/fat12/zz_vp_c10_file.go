package fat12

import (
	"bytes"
	"io"

	"github.com/diskfs/go-diskfs/backend"
	"github.com/diskfs/go-diskfs/internal/vp"
	"github.com/diskfs/go-diskfs/internal/vp/vpdev"
)

// C10 for the FAT family (fat12.File is also the handle type of fat16 and fat32): one step of
// Read / Seek / Close from an arbitrary handle state. The handle state is (offset, closed) and
// the file is immutable during reads, so one step from an arbitrary state covers call sequences
// of any length.
//
// Well-formedness assumed for the file: its cluster chain (walked here independently over the
// raw table entries) ends with an end-of-chain marker after L clusters and L*bytesPerCluster
// covers the file size. Chains longer than the size needs are included.

// c10ModelTable is a FATTable stub at the interface (fat32 semantics, 28-bit cluster numbers):
// the chain is chain[0] -> chain[1] -> ... -> EOC with arbitrary (distinct) cluster numbers, every
// other entry reads as EOC. It keeps cluster numbers fully symbolic (a real table is an in-memory
// slice whose length would have to be 2^28).
type c10ModelTable struct {
	chain []uint32
	max   uint32
}

func (t *c10ModelTable) ClusterValue(n uint32) uint32 {
	v := uint32(0x0FFFFFFF) // the last chain element and everything not on the chain: EOC
	for i := len(t.chain) - 2; i >= 0; i-- {
		v = vp.IteU32(n == t.chain[i], t.chain[i+1], v)
	}
	return v
}
func (t *c10ModelTable) SetCluster(n, val uint32) {}
func (t *c10ModelTable) IsEOC(val uint32) bool    { return val&0xFFFFFF8 == 0xFFFFFF8 }
func (t *c10ModelTable) EOCMarker() uint32        { return 0x0FFFFFFF }
func (t *c10ModelTable) UnusedMarker() uint32     { return 0 }
func (t *c10ModelTable) MaxCluster() uint32       { return t.max }
func (t *c10ModelTable) FATID() uint32            { return 0x0FFFFFF8 }
func (t *c10ModelTable) RootDirCluster() uint32   { return 2 }
func (t *c10ModelTable) Size() uint32             { return 0 }
func (t *c10ModelTable) FromBytes(b []byte)       {}
func (t *c10ModelTable) Bytes() []byte            { return nil }

// c10LaneDev is a device whose byte at address a is byte number `lane` of a (lane arbitrary,
// 0..lanes-1). A reader that fetches a byte from a wrong address delivers a wrong byte in at
// least one lane: comparing delivered bytes for every lane compares the low 8*lanes bits of the
// addresses, without uninterpreted functions in the solver queries. With lanes == 1 the lane is
// the constant 0 (addresses compared modulo 256, which with 4-byte clusters still shows the
// cluster number's low 6 bits, the position in the cluster and the low byte of the geometry
// constants); the full 64-bit address arithmetic is the subject of the geometry harnesses.
type c10LaneDev struct {
	*vpdev.MemDev
	lane uint
}

func (d *c10LaneDev) ByteAt(a int64) byte { return byte(uint64(a) >> (8 * d.lane)) }

func (d *c10LaneDev) ReadAt(p []byte, off int64) (int, error) {
	if off < 0 {
		return 0, io.ErrUnexpectedEOF
	}
	vp.FillFunc(p, func(i int) byte { return d.ByteAt(off + int64(i)) })
	return len(p), nil
}

func c10NewLaneDev(lanes uint) *c10LaneDev {
	m := vpdev.NewMemDev("disk", -1)
	m.NoWrites = true
	lane := uint(0)
	if lanes > 1 {
		lane = uint(vp.U8("lane"))
		vp.Assume(lane < lanes)
	}
	return &c10LaneDev{MemDev: m, lane: lane}
}

// c10RecDev records the (offset, length) of every ReadAt and delivers fresh arbitrary bytes
// rd<k>[..] for call k, so that the harness can tell which call a buffer byte came from.
type c10RecDev struct {
	*vpdev.MemDev
	offs []int64
	lens []int
	data [][]byte
}

func (d *c10RecDev) ReadAt(p []byte, off int64) (int, error) {
	k := len(d.offs)
	fresh := vp.Bytes("rd"+string(rune('0'+k)), c10RecCap)
	d.offs = append(d.offs, off)
	d.lens = append(d.lens, len(p))
	d.data = append(d.data, fresh)
	vp.FillFunc(p, func(i int) byte { return fresh[vp.IteInt(i < c10RecCap, i, 0)] })
	return len(p), nil
}

const c10RecCap = 10 // fresh bytes per recorded call (>= the buffer sizes used with c10RecDev)

const (
	c10Fat12Real = iota // the real fat12Table, 12 entries, every entry arbitrary
	c10FatModel         // the interface stub above, cluster numbers up to 2^28
)

// c10FatFS builds a filesystem on dev whose table holds a chain of exactly L clusters starting
// at chain[0]; chain[i] is the harness's own walk over the raw table entries.
func c10FatFS(dev backend.Storage, kind, L, bpc int, symGeom bool) (*FileSystem, []uint32) {
	chain := make([]uint32, L)
	var tbl FATTable
	switch kind {
	case c10Fat12Real:
		t := newFat12Table(0xFF8, 18) // 12 entries: clusters 0..12
		for i := 2; i <= int(t.max); i++ {
			t.clusters[i] = vp.U32("fat."+string(rune('a'+i))) & 0xFFF
		}
		first := vp.U32("first")
		vp.Assume(first >= 2)
		vp.Assume(first <= t.max)
		// independent walk over the raw entries
		c := first
		for i := 0; i < L; i++ {
			chain[i] = c
			next := t.clusters[c]
			if i < L-1 {
				vp.Assume(next >= 2)
				vp.Assume(next <= t.max)
				c = next
			} else {
				vp.Assume(next >= 0xFF8)
			}
		}
		tbl = t
	default:
		maxc := vp.U32("maxcluster")
		vp.Assume(maxc <= 0x0FFFFFF6)
		for i := 0; i < L; i++ {
			chain[i] = vp.U32("chain." + string(rune('a'+i)))
			vp.Assume(chain[i] >= 2)
			vp.Assume(chain[i] <= maxc)
			for j := 0; j < i; j++ {
				vp.Assume(chain[i] != chain[j])
			}
		}
		tbl = &c10ModelTable{chain: chain, max: maxc}
	}
	// partition start and data-region start: fixed (but > 32 bit resp. not cluster-aligned) in the
	// multi-cluster harnesses, arbitrary in the geometry harness
	start := int64(0x1234567835)
	dataStart := uint32(0x00042611)
	if symGeom {
		start = vp.I64("fs.start")
		vp.Assume(start >= 0)
		vp.Assume(start <= 1<<50)
		dataStart = vp.U32("dataStart")
	}
	fs := &FileSystem{
		table:           tbl,
		dataStart:       dataStart,
		bytesPerCluster: bpc,
		start:           start,
		backend:         dev,
	}
	return fs, chain
}

// c10Offset: an arbitrary non-negative int64 (built by a shift so that the engine knows the sign
// and turns the /, % by the power-of-two cluster size into shifts and masks).
func c10Offset() int64 { return int64(vp.U64("offset") >> 1) }

// c10FatPos: device offset of file byte p according to the FAT layout.
func c10FatPos(fs *FileSystem, chain []uint32, bpc int, p int64) int64 {
	idx := int64(uint64(p) / uint64(bpc)) // p is only used for positions inside the file (non-negative)
	cl := chain[0]
	for i := 1; i < len(chain); i++ {
		cl = vp.IteU32(idx == int64(i), chain[i], cl)
	}
	return fs.start + int64(fs.dataStart) + int64(cl-2)*int64(bpc) + int64(uint64(p)%uint64(bpc))
}

// c10FatRead: Read into a buffer of arbitrary length 0..N from an arbitrary cursor.
func c10FatRead(kind, L, bpc, N int, lanes uint) {
	dev := c10NewLaneDev(lanes)
	fs, chain := c10FatFS(dev, kind, L, bpc, false)
	size := vp.U32("size")
	vp.Assume(int64(size) <= int64(L)*int64(bpc))
	off := c10Offset()
	de := &directoryEntry{clusterLocation: chain[0], fileSize: size, filesystem: fs, filenameShort: "FILE", fileExtension: "TXT"}
	fl := &File{directoryEntry: de, offset: off, filesystem: fs}

	buf := vp.Bytes("buf", N)
	orig := make([]byte, N)
	copy(orig, buf)
	k := vp.Int("len")
	vp.Assume(k >= 0)
	vp.Assume(k <= N)
	b := buf[:k]

	rem := int64(size) - off
	if rem < 0 {
		rem = 0
	}
	want := int64(k)
	if rem < want {
		want = rem
	}
	// KF-C10-1: the read starts inside a cluster and the file ends before both the buffer and
	// that cluster do: Read copies min(len(b), rest of the cluster) bytes instead of the rest of the file.
	inCl := int64(uint64(off) % uint64(bpc))
	kf1 := inCl != 0 && off < int64(size) && rem < int64(k) && rem < int64(bpc)-inCl

	vp.Unwind(L + 3)
	vp.NoPanic()
	n, err := fl.Read(b)
	vp.AllowPanic()

	vp.AssertUnless("KF-C10-1", kf1, int64(n) == want, "n = min(len(b), bytes remaining)")
	vp.AssertUnless("KF-C10-1", kf1, fl.offset == off+want, "cursor advances by the bytes delivered")
	vp.Unwind(16)
	for i := 0; i < N; i++ {
		if int64(i) < want {
			vp.Assert(buf[i] == dev.ByteAt(c10FatPos(fs, chain, bpc, off+int64(i))), "delivered byte = file byte at cursor+i")
		} else {
			vp.AssertUnless("KF-C10-1", kf1, buf[i] == orig[i], "buffer beyond n is untouched")
		}
	}
	c10ReadResult(err, off, want, int64(size), k)
	if k > 0 {
		if inCl != 0 {
			if want > int64(bpc)-inCl {
				vp.Cover("read starts inside a cluster and crosses into the next")
			}
		}
	}
}

// c10ReadResult: the error value of a Read that had `want` bytes to deliver into a buffer of k bytes.
func c10ReadResult(err error, off, want, size int64, k int) {
	if err == io.EOF {
		vp.Assert(off+want >= size, "io.EOF only when the end is reached")
		vp.Cover("EOF reported")
	}
	if k > 0 {
		vp.Assert(err == nil || err == io.EOF, "no error other than io.EOF on a well-formed file")
		if want == 0 {
			vp.Assert(err == io.EOF, "a zero-byte read into a non-empty buffer reports io.EOF")
			vp.Cover("read at or past the end")
		}
		if want == int64(k) {
			if off+want < size {
				vp.Assert(err == nil, "a full read that stops before the end reports no error")
				vp.Cover("full read before the end")
			}
		} else if want > 0 {
			vp.Cover("short read at the end")
		}
	} else {
		vp.Cover("empty buffer")
	}
}

// small mode: cluster = 4 bytes, buffer up to 2 clusters + 1 (all relative positions of cursor,
// cluster boundary, buffer end and file end occur); every buffer byte compared.
func VP_C10_fat_read_fat12_L1() { c10FatRead(c10Fat12Real, 1, 4, 9, 1) }
func VP_C10_fat_read_fat12_L2() { c10FatRead(c10Fat12Real, 2, 4, 9, 1) }
func VP_C10_fat_read_fat12_L3() { c10FatRead(c10Fat12Real, 3, 4, 9, 1) }
func VP_C10_fat_read_fat12_L4() {
	if vp.Thorough() {
		c10FatRead(c10Fat12Real, 4, 4, 13, 1)
	}
}
func VP_C10_fat_read_model_L1() {
	if vp.Thorough() {
		c10FatRead(c10FatModel, 1, 4, 9, 1)
	}
}
func VP_C10_fat_read_model_L3() { c10FatRead(c10FatModel, 3, 4, 9, 1) }

// c10FatGeometry: arbitrary partition start, data-region start and 28-bit cluster number with a
// real cluster size; a one-cluster file. Every device access must be at
// start + dataStart + (cluster-2)*bytesPerCluster + file position, on all 64 bits, and the buffer
// must hold what those accesses delivered, in order.
func c10FatGeometry(bpc int) {
	m := vpdev.NewMemDev("disk", -1)
	m.NoWrites = true
	dev := &c10RecDev{MemDev: m}
	fs, chain := c10FatFS(dev, c10FatModel, 1, bpc, true)
	size := vp.U32("size")
	vp.Assume(int64(size) <= int64(bpc))
	off := c10Offset()
	de := &directoryEntry{clusterLocation: chain[0], fileSize: size, filesystem: fs}
	fl := &File{directoryEntry: de, offset: off, filesystem: fs}
	const N = 6
	buf := vp.Bytes("buf", N)
	k := vp.Int("len")
	vp.Assume(k >= 0)
	vp.Assume(k <= N)
	rem := int64(size) - off
	if rem < 0 {
		rem = 0
	}
	want := int64(k)
	if rem < want {
		want = rem
	}
	inCl := int64(uint64(off) % uint64(bpc))
	kf1 := inCl != 0 && off < int64(size) && rem < int64(k) && rem < int64(bpc)-inCl

	vp.Unwind(5)
	vp.NoPanic()
	n, err := fl.Read(buf[:k])
	vp.AllowPanic()

	vp.AssertUnless("KF-C10-1", kf1, int64(n) == want, "n = min(len(b), bytes remaining)")
	_ = err
	base := fs.start + int64(fs.dataStart) + int64(chain[0]-2)*int64(bpc)
	done := 0
	for c := range dev.offs {
		if dev.lens[c] > 0 {
			vp.Assert(dev.offs[c] == base+off+int64(done), "device access at partition start + data start + (cluster-2)*cluster size + file position")
		}
		for i := 0; i < N; i++ {
			if i >= done {
				if i < done+dev.lens[c] {
					if int64(i) < want {
						vp.Assert(buf[i] == dev.data[c][vp.IteInt(i-done < c10RecCap, i-done, 0)], "buffer byte = byte delivered by the device for that position")
					}
				}
			}
		}
		done += dev.lens[c]
		vp.Cover("device access checked")
	}
	vp.AssertUnless("KF-C10-1", kf1, int64(done) == want, "exactly the delivered bytes were fetched from the device")
	if len(dev.offs) >= 2 {
		vp.Cover("two device accesses")
	}
}

func VP_C10_fat_read_geometry_512() { c10FatGeometry(512) }
func VP_C10_fat_read_geometry_32k() { c10FatGeometry(32768) }

// c10FatHandle: handle for the Seek / Close steps.
func c10FatHandle() *File {
	fs, chain := c10FatFS(c10NewLaneDev(1), c10FatModel, 1, 512, true)
	off := c10Offset()
	de := &directoryEntry{clusterLocation: chain[0], fileSize: vp.U32("size"), filesystem: fs}
	return &File{directoryEntry: de, offset: off, filesystem: fs}
}

// VP_C10_fat_seek: Seek with arbitrary offset and whence from an arbitrary cursor.
func VP_C10_fat_seek() {
	fl := c10FatHandle()
	size := int64(fl.fileSize)
	off := fl.offset
	so := vp.I64("seekoff")
	wh := vp.Int("whence")

	vp.NoPanic()
	pos, err := fl.Seek(so, wh)
	vp.AllowPanic()

	vp.Assert(fl.offset >= 0, "cursor never negative")
	if wh == io.SeekStart || wh == io.SeekCurrent || wh == io.SeekEnd {
		var target int64
		switch wh {
		case io.SeekStart:
			target = so
		case io.SeekCurrent:
			target = off + so
		default:
			target = size + so
		}
		if target < 0 { // includes int64 wrap-around, as in bytes.Reader
			vp.Assert(err != nil, "negative position is rejected")
			vp.Assert(fl.offset == off, "cursor unchanged on error")
			vp.Cover("negative position rejected")
		} else {
			vp.Assert(err == nil, "valid seek succeeds")
			vp.Assert(pos == target, "Seek returns base+offset")
			vp.Assert(fl.offset == target, "cursor = base+offset")
			if target > size {
				vp.Cover("seek past EOF")
			}
			if wh == io.SeekEnd {
				if so < 0 {
					vp.Cover("seek back from the end")
				}
			}
			vp.Cover("seek ok")
		}
	} else {
		vp.Cover("other whence")
	}
}

// VP_C10_fat_closed: after Close, Read does not return data without an error.
func VP_C10_fat_closed() {
	fl := c10FatHandle()
	buf := vp.Bytes("buf", 8)
	k := vp.Int("len")
	vp.Assume(k >= 0)
	vp.Assume(k <= 8)
	cerr := fl.Close()
	vp.Assert(cerr == nil, "Close succeeds")
	n, err := fl.Read(buf[:k])
	if n > 0 {
		vp.Assert(err != nil, "Read after Close does not return data without an error")
	}
	if err != nil {
		vp.Cover("read after close fails with an error")
	}
	_, serr := fl.Seek(0, io.SeekStart)
	if serr != nil {
		vp.Cover("seek after close fails with an error")
	}
	vp.Cover("read after close")
}

// VP_C10_fat_read_empty_nocluster: an empty file as other FAT implementations create it
// (size 0, first cluster 0, FAT[0] as the table readers of this library leave it: 0).
// The end is reached immediately: Read must say io.EOF.
func VP_C10_fat_read_empty_nocluster() {
	dev := vpdev.NewMemDev("disk", -1)
	dev.UF = true
	t := newFat12Table(0xFF8, 18)
	for i := 2; i <= int(t.max); i++ {
		t.clusters[i] = vp.U32("fat."+string(rune('a'+i))) & 0xFFF
	}
	fs := &FileSystem{table: t, dataStart: vp.U32("dataStart"), bytesPerCluster: 512, backend: dev}
	off := c10Offset()
	de := &directoryEntry{clusterLocation: 0, fileSize: 0, filesystem: fs}
	fl := &File{directoryEntry: de, offset: off, filesystem: fs}
	buf := vp.Bytes("buf", 4)
	vp.NoPanic()
	n, err := fl.Read(buf)
	vp.AllowPanic()
	vp.Assert(n == 0, "nothing to deliver")
	vp.Cover("empty file read returned")
	vp.AssertUnless("KF-C10-2", true, err == io.EOF, "an empty file without a cluster reports io.EOF")
	vp.Cover("empty file read")
}

// VP_C10_fat_sequence_vs_bytes_reader: the executable specification itself on a two-cluster file
// (real fat12 table, 4-byte clusters, 0..8 bytes): Seek(arbitrary offset, whence) and two Reads
// of arbitrary length 0..5 on the FAT handle and on a bytes.Reader over the file's content.
func VP_C10_fat_sequence_vs_bytes_reader() {
	const bpc, L, M, K = 4, 2, 8, 5
	dev := c10NewLaneDev(1)
	fs, chain := c10FatFS(dev, c10Fat12Real, L, bpc, false)
	size := vp.U32("size")
	vp.Assume(size <= M)
	de := &directoryEntry{clusterLocation: chain[0], fileSize: size, filesystem: fs}
	fl := &File{directoryEntry: de, filesystem: fs}
	content := make([]byte, M)
	for i := range content {
		content[i] = dev.ByteAt(c10FatPos(fs, chain, bpc, int64(i)))
	}
	ref := bytes.NewReader(content[:size])

	so := vp.I64("seekoff")
	wh := vp.Int("whence")
	vp.Assume(wh >= 0)
	vp.Assume(wh <= 2)
	vp.NoPanic()
	p1, e1 := fl.Seek(so, wh)
	vp.AllowPanic()
	p2, e2 := ref.Seek(so, wh)
	if e2 != nil {
		vp.Assert(e1 != nil, "Seek fails where bytes.Reader.Seek fails")
		vp.Cover("both seeks rejected")
	} else {
		vp.Assert(e1 == nil, "Seek succeeds where bytes.Reader.Seek succeeds")
		vp.Assert(p1 == p2, "Seek returns what bytes.Reader.Seek returns")
	}
	for step := 0; step < 2; step++ {
		k := vp.Int("len" + string(rune('0'+step)))
		vp.Assume(k >= 0)
		vp.Assume(k <= K)
		b1 := make([]byte, K)
		b2 := make([]byte, K)
		// KF-C10-1 class, from the reference cursor
		cur, _ := ref.Seek(0, io.SeekCurrent)
		rem := int64(size) - cur
		inCl := int64(uint64(cur) % bpc)
		kf1 := inCl != 0 && cur < int64(size) && rem < int64(k) && rem < bpc-inCl
		vp.Unwind(L + 3)
		vp.NoPanic()
		n1, r1 := fl.Read(b1[:k])
		vp.AllowPanic()
		vp.Unwind(16)
		n2, r2 := ref.Read(b2[:k])
		vp.AssertUnless("KF-C10-1", kf1, n1 == n2, "Read returns as many bytes as bytes.Reader.Read")
		for i := 0; i < K; i++ {
			vp.AssertUnless("KF-C10-1", kf1, b1[i] == b2[i], "Read delivers the bytes bytes.Reader.Read delivers")
		}
		c1, _ := fl.Seek(0, io.SeekCurrent)
		c2, _ := ref.Seek(0, io.SeekCurrent)
		vp.AssertUnless("KF-C10-1", kf1, c1 == c2, "cursor where bytes.Reader has it")
		if r2 == io.EOF {
			if k > 0 {
				vp.Assert(r1 == io.EOF, "io.EOF where bytes.Reader reports it")
				vp.Cover("both report EOF")
			}
		}
		if r1 == io.EOF {
			vp.Assert(c1 >= int64(size), "io.EOF only at the end")
		} else if k > 0 {
			vp.Assert(r1 == nil, "no other error")
		}
		if n1 > 0 {
			if step == 1 {
				vp.Cover("second read delivers bytes")
			}
		}
	}
}

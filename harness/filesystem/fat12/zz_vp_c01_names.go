package fat12

import (
	"os"
	"strings"

	"github.com/diskfs/go-diskfs/internal/vp"
)

// c01Name: a directory that received createEntry(name) (plus an earlier sibling), serialised to
// its on-disk bytes and parsed back, lists exactly `name` (case preserved) with the cluster and
// size it was given, finds it again case-insensitively, and keeps the sibling intact.
// Names are case-split (structure); cluster numbers and sizes are solver variables.
func c01Name(name string) {
	_ = os.Setenv("SOURCE_DATE_EPOCH", "1700000000")
	c1, c2 := vp.U32("cluster1"), vp.U32("cluster2")
	sz := vp.U32("size")
	vp.Assume(c1 >= 2 && c1 < 0x0FFFFFF0)
	vp.Assume(c2 >= 2 && c2 < 0x0FFFFFF0)
	d := &Directory{}
	sib, err := d.createEntry("SIBLING.DAT", c1, false)
	vp.Assert(err == nil, "sibling created")
	sib.fileSize = 7
	e, err := d.createEntry(name, c2, false)
	vp.Assert(err == nil, "entry created")
	e.fileSize = sz
	b, err := d.entriesToBytes(4096)
	vp.Assert(err == nil, "directory serialises")
	vp.Assert(len(b)%32 == 0, "whole 32-byte slots")
	d2 := &Directory{}
	err = d2.entriesFromBytes(b)
	vp.Assert(err == nil, "directory parses back")
	vp.Assert(len(d2.entries) == 2, "two entries are listed")
	q := d2.entries[1]
	listed := q.filenameLong
	if listed == "" {
		listed = q.fullShortName()
	}
	vp.Assert(listed == name, "the listing shows the name exactly as it was given")
	vp.Assert(q.clusterLocation == c2, "first cluster survives")
	vp.Assert(q.fileSize == sz, "size survives")
	vp.Assert(q.nameMatches(name), "the entry is found by its name")
	vp.Assert(q.nameMatches(strings.ToUpper(name)), "lookup is case-insensitive (upper)")
	vp.Assert(q.nameMatches(strings.ToLower(name)), "lookup is case-insensitive (lower)")
	s := d2.entries[0]
	vp.Assert(s.fullShortName() == "SIBLING.DAT" && s.clusterLocation == c1 && s.fileSize == 7, "the sibling is unchanged")
	vp.Assert(!s.nameMatches(name), "the sibling does not match the new name")
	vp.Cover("name round trip")
}

func VP_C01_fat_name_upper83()   { c01Name("README.TXT") }
func VP_C01_fat_name_lower83()   { c01Name("readme.txt") }
func VP_C01_fat_name_mixedext()  { c01Name("README.md") }
func VP_C01_fat_name_mixedext2() { c01Name("DATA1.Bin") }
func VP_C01_fat_name_mixedstem() { c01Name("ReadMe.TXT") }
func VP_C01_fat_name_noext()     { c01Name("Makefile") }
func VP_C01_fat_name_long()      { c01Name("a long file name.with.dots.text") }
func VP_C01_fat_name_13()        { c01Name("thirteenchars") }
func VP_C01_fat_name_26()        { c01Name("abcdefghijklmnopqrstuvwx.z") }
func VP_C01_fat_name_tilde()     { c01Name("SIBLING~1.DAT") }

package fat12

import "github.com/diskfs/go-diskfs/internal/vp"

// VP_C08_fat12_table_codec: the 12-bit packing. An arbitrary table (12-bit values) serialised
// with Bytes and parsed back with FromBytes gives the same entries; an independent decoder
// (entry i = bits i*12..i*12+11 of the little-endian byte stream) sees the same values.
func VP_C08_fat12_table_codec() {
	const size = 24 // bytes: 16 entries
	n := size * 2 / 3
	t := newFat12Table(0xFF8, size)
	vals := make([]uint32, n+1)
	for i := 2; i <= n; i++ {
		v := vp.U32("e" + string(rune('a'+i)))
		vp.Assume(v <= 0xFFF)
		vals[i] = v
		t.clusters[i] = v
	}
	b := t.Bytes()
	vp.Assert(len(b) == size, "one FAT copy has the recorded size")
	vp.Assert(b[0] == 0xF8 && b[1] == 0xFF && b[2] == 0xFF, "FAT[0] carries the media byte, FAT[1] is all ones")
	for i := 2; i < n; i++ {
		bit := i * 12
		w := uint32(b[bit/8]) | uint32(b[bit/8+1])<<8
		got := (w >> uint(bit%8)) & 0xFFF
		vp.Assert(got == vals[i], "entry i occupies bits i*12..i*12+11 of the byte stream")
	}
	t2 := newFat12Table(0, size)
	t2.FromBytes(b)
	for i := 2; i < n; i++ {
		vp.Assert(t2.clusters[i] == vals[i], "FromBytes(Bytes(t)) returns every entry")
	}
	vp.Assert(t2.fatID&0xFF == 0xF8, "media byte survives")
	vp.Cover("codec done")
}

// VP_C08_fat12_write_entry: writing one 12-bit entry changes exactly that entry.
func VP_C08_fat12_write_entry() {
	const size = 24
	b := vp.Bytes("fat", size)
	i := vp.U32("i")
	v := vp.U32("v")
	vp.Assume(i >= 2)
	vp.Assume(i < 15)
	vp.Assume(v <= 0xFFF)
	before := make([]uint32, 16)
	for k := uint32(0); k < 15; k++ {
		before[k] = fat12ReadEntry(b, k)
	}
	fat12WriteEntry(b, i, v)
	for k := uint32(0); k < 15; k++ {
		now := fat12ReadEntry(b, k)
		if k == i {
			vp.Assert(now == v, "the written entry reads back")
		} else {
			vp.Assert(now == before[k], "neighbouring entries are untouched")
		}
	}
	vp.Cover("write entry done")
}

package fat12

import (
	"os"
	"time"

	"github.com/diskfs/go-diskfs/backend"
	"github.com/diskfs/go-diskfs/backend/file"
	"github.com/diskfs/go-diskfs/internal/vp"
	"github.com/diskfs/go-diskfs/internal/vp/vpdev"
)

// C11 for the FAT family (fat12.FileSystem carries every mutator of fat16 and fat32 as well):
// a small volume on an image that sits behind a backend with an ARBITRARY read-only flag
// (file.New(image, readOnly)) or behind a backend whose own Writable() fails. With the flag set
// every mutating call must return an error and no WriteAt may reach the image; with the flag
// clear the same call reaches a WriteAt (the run stops there: non-vacuity witness).
//
// Volume (layout written here by hand from the FAT on-disk format, 32-byte directory slots):
//   fixed root directory of 4 slots at byte 512: label "MYLABEL", file FOO.TXT (cluster 2,
//   arbitrary size <= one cluster, arbitrary attribute bits), directory SUBDIR (cluster 3), end;
//   data area at byte 1024, clusters of 64 bytes; cluster 3 holds "." and "..".
//   FAT: 12 entries, clusters 2 and 3 are end-of-chain, the rest is free.

const (
	c11RootOff   = 512
	c11DataStart = 1024
	c11BPC       = 64
)

type c11FatImg struct {
	*vpdev.MemDev
	root, sub []byte
	refuse    bool // its own Writable() fails
	ro        bool // the image was opened read-only: no write may arrive
	writes    int
}

func (d *c11FatImg) ReadAt(p []byte, off int64) (int, error) {
	for i := range p {
		o := off + int64(i)
		switch {
		case o >= c11RootOff && o < c11RootOff+int64(len(d.root)):
			p[i] = d.root[o-c11RootOff]
		case o >= c11DataStart+c11BPC && o < c11DataStart+c11BPC+int64(len(d.sub)):
			p[i] = d.sub[o-c11DataStart-c11BPC]
		default:
			p[i] = 0
		}
	}
	return len(p), nil
}

func (d *c11FatImg) Writable() (backend.WritableFile, error) {
	if d.refuse {
		return nil, backend.ErrIncorrectOpenMode
	}
	return d, nil
}

func (d *c11FatImg) WriteAt(p []byte, off int64) (int, error) {
	vp.Assert(!d.ro, "no WriteAt reaches an image that was opened read-only")
	d.writes++
	vp.Stop("read-write image: the call writes")
	return len(p), nil
}

// c11Slot: one 32-byte short-name directory slot.
func c11Slot(name string, attr byte, cluster uint16, size uint32) []byte {
	b := make([]byte, 32)
	copy(b, name) // 11 characters, space padded
	b[11] = attr
	b[16], b[17] = 0x43, 0x58 // 2024-02-03
	b[18], b[19] = 0x43, 0x58
	b[24], b[25] = 0x43, 0x58
	b[26], b[27] = byte(cluster), byte(cluster>>8)
	b[28], b[29], b[30], b[31] = byte(size), byte(size>>8), byte(size>>16), byte(size>>24)
	return b
}

const (
	c11BackendFile   = iota // file.New(image, readOnly), readOnly arbitrary
	c11BackendRefuse        // the image's own Writable() fails (readOnly = true)
)

func c11FatFS(kind int) (*FileSystem, *c11FatImg, bool) {
	img := &c11FatImg{MemDev: vpdev.NewMemDev("img", -1)}
	size := vp.U32("foo.size")
	vp.Assume(size <= c11BPC)
	attr := vp.U8("foo.attr") & 0x27 // read-only, hidden, system, archive in any combination
	root := make([]byte, 0, 128)
	root = append(root, c11Slot("MYLABEL    ", 0x08, 0, 0)...)
	root = append(root, c11Slot("FOO     TXT", attr, 2, size)...)
	root = append(root, c11Slot("SUBDIR     ", 0x10, 3, 0)...)
	root = append(root, make([]byte, 32)...)
	img.root = root
	sub := make([]byte, 0, 64)
	sub = append(sub, c11Slot(".          ", 0x10, 3, 0)...)
	sub = append(sub, c11Slot("..         ", 0x10, 0, 0)...)
	img.sub = sub

	var ro bool
	var b backend.Storage
	if kind == c11BackendFile {
		ro = vp.Bool("readOnly")
		b = file.New(img, ro)
	} else {
		ro = true
		img.refuse = true
		b = img
	}
	img.ro = ro

	t := newFat12Table(0xFF8, 18)
	t.clusters[2] = t.eoc
	t.clusters[3] = t.eoc
	bpb := &Dos40EBPB{Dos331BPB: &Dos331BPB{Dos20BPB: &Dos20BPB{BytesPerSector: SectorSize512, SectorsPerCluster: 1,
		ReservedSectors: 1, FatCount: 2, RootDirectoryEntries: 4, TotalSectors: 4, MediaType: 0xF8, SectorsPerFat: 1},
		SectorsPerTrack: 18, Heads: 2}, ExtBootSignature: longEBPB, VolumeLabel: "MYLABEL    ", FileSystemType: "FAT12   "}
	fs := NewFileSystem(b, bpb, t, c11DataStart, c11BPC, 2048, 0, c11RootOff, 4, 128, 256)
	return fs, img, ro
}

func c11FatEnd(img *c11FatImg, ro bool, err error, what string) {
	if ro {
		vp.Assert(err != nil, what)
		vp.Assert(img.writes == 0, "read-only: nothing was written to the image")
		vp.Cover("read-only: the call is refused")
	}
}

const c11WriteFlags = os.O_WRONLY | os.O_RDWR | os.O_APPEND | os.O_CREATE | os.O_TRUNC

func c11FatMkdir(kind int, p string) {
	fs, img, ro := c11FatFS(kind)
	vp.Unwind(40)
	vp.NoPanic()
	err := fs.Mkdir(p)
	vp.AllowPanic()
	c11FatEnd(img, ro, err, "read-only: Mkdir of a new directory returns an error")
}

func VP_C11_fat_mkdir_new()    { c11FatMkdir(c11BackendFile, "/NEWDIR") }
func VP_C11_fat_mkdir_nested() { c11FatMkdir(c11BackendFile, "/SUBDIR/NEWDIR") }
func VP_C11_fat_mkdir_new_refuse() {
	c11FatMkdir(c11BackendRefuse, "/NEWDIR")
	if vp.Thorough() {
		c11FatRefuseAll()
	}
}

// VP_C11_fat_openfile_existing: OpenFile(existing file, arbitrary flags) and then Write on the handle.
// On a read-only image: OpenFile with any of the write/create/append/truncate flags must return an
// error (the statement; see KF-C11-1 for the inputs where it does not); if a handle is handed out
// anyway, Write on it must fail. Nothing is written either way.
func c11FatOpenExisting(kind int) {
	fs, img, ro := c11FatFS(kind)
	flag := vp.Int("flag")
	size := vp.U32("foo.size")
	vp.Unwind(40)
	vp.NoPanic()
	f, err := fs.OpenFile("/FOO.TXT", flag)
	if ro {
		mustTouch := flag&os.O_TRUNC != 0 // the open itself has to change the image
		if size == 0 {
			mustTouch = false
		}
		if mustTouch {
			vp.Assert(err != nil, "read-only: OpenFile with O_TRUNC on a non-empty file returns an error")
			vp.Cover("read-only: truncation refused")
		}
		if flag&c11WriteFlags != 0 {
			// KF-C11-1: FAT opens lazily: when the open itself does not have to touch the image
			// (existing file; no truncation needed) OpenFile hands out a handle although write/append/create
			// access was requested on a read-only image; only the later Write is refused.
			vp.AssertUnless("KF-C11-1", !mustTouch, err != nil, "read-only: OpenFile for write/create/append/truncate returns an error")
		}
	}
	if err == nil {
		data := vp.Bytes("data", 3)
		k := vp.Int("len")
		vp.Assume(k >= 0)
		vp.Assume(k <= 3)
		if ro {
			n, werr := f.Write(data[:k])
			vp.Assert(werr != nil, "read-only: File.Write returns an error")
			vp.Assert(n <= 0, "read-only: File.Write reports no bytes written")
			vp.Cover("read-only: Write on the handle refused")
		} else if flag&os.O_RDWR == 0 {
			// (a real write through an O_RDWR handle on a read-write image belongs to other properties)
			_, werr := f.Write(data[:k])
			vp.Assert(werr != nil, "a handle not opened O_RDWR does not write")
			vp.Assert(img.writes == 0, "a handle not opened O_RDWR wrote nothing")
			vp.Cover("read-write image, read-only handle: Write refused")
		}
	}
	vp.AllowPanic()
	if ro {
		vp.Assert(img.writes == 0, "read-only: nothing was written to the image")
	}
}

func VP_C11_fat_openfile_existing()        { c11FatOpenExisting(c11BackendFile) }
func VP_C11_fat_openfile_existing_refuse() { c11FatOpenExisting(c11BackendRefuse) }

// VP_C11_fat_openfile_new: OpenFile(missing file, arbitrary flags): on a read-only image it fails
// (with O_CREATE because the file cannot be created, without because it does not exist).
func VP_C11_fat_openfile_new() {
	fs, img, ro := c11FatFS(c11BackendFile)
	flag := vp.Int("flag")
	vp.Unwind(40)
	vp.NoPanic()
	_, err := fs.OpenFile("/NEW.TXT", flag)
	vp.AllowPanic()
	c11FatEnd(img, ro, err, "read-only: OpenFile of a missing file returns an error, with or without O_CREATE")
	if flag&os.O_CREATE == 0 {
		vp.Assert(err != nil, "a missing file does not open without O_CREATE")
		vp.Assert(img.writes == 0, "opening a missing file without O_CREATE writes nothing")
	}
}

func VP_C11_fat_remove() {
	fs, img, ro := c11FatFS(c11BackendFile)
	vp.Unwind(40)
	vp.NoPanic()
	err := fs.Remove("/FOO.TXT")
	vp.AllowPanic()
	c11FatEnd(img, ro, err, "read-only: Remove returns an error")
}

func VP_C11_fat_remove_dir() {
	fs, img, ro := c11FatFS(c11BackendFile)
	vp.Unwind(40)
	vp.NoPanic()
	err := fs.Remove("SUBDIR")
	vp.AllowPanic()
	c11FatEnd(img, ro, err, "read-only: Remove of an empty directory returns an error")
}

func VP_C11_fat_rename() {
	fs, img, ro := c11FatFS(c11BackendFile)
	vp.Unwind(40)
	vp.NoPanic()
	err := fs.Rename("/FOO.TXT", "/BAR.TXT")
	vp.AllowPanic()
	c11FatEnd(img, ro, err, "read-only: Rename returns an error")
}

func VP_C11_fat_setlabel() {
	fs, img, ro := c11FatFS(c11BackendFile)
	vp.Unwind(40)
	vp.NoPanic()
	err := fs.SetLabel("NEWLABEL")
	vp.AllowPanic()
	c11FatEnd(img, ro, err, "read-only: SetLabel returns an error")
}

func VP_C11_fat_setrootdirlabel() {
	fs, img, ro := c11FatFS(c11BackendFile)
	vp.Unwind(40)
	vp.NoPanic()
	err := fs.SetRootDirLabel("NEWLABEL")
	vp.AllowPanic()
	c11FatEnd(img, ro, err, "read-only: SetRootDirLabel returns an error")
}

func VP_C11_fat_chtimes() {
	fs, img, ro := c11FatFS(c11BackendFile)
	ts := time.Date(2020, 5, 6, 7, 8, 10, 0, time.UTC)
	vp.Unwind(40)
	vp.NoPanic()
	err := fs.Chtimes("/FOO.TXT", ts, ts, ts)
	vp.AllowPanic()
	c11FatEnd(img, ro, err, "read-only: Chtimes returns an error")
}

func VP_C11_fat_archive_bit() {
	fs, img, ro := c11FatFS(c11BackendFile)
	vp.Unwind(40)
	vp.NoPanic()
	err := fs.SetArchiveBit("/FOO.TXT", vp.Bool("set"))
	vp.AllowPanic()
	c11FatEnd(img, ro, err, "read-only: SetArchiveBit returns an error")
}

// VP_C11_fat_file_attrs: the attribute setters of an open handle.
func VP_C11_fat_file_attrs() {
	fs, img, ro := c11FatFS(c11BackendFile)
	vp.Unwind(40)
	vp.NoPanic()
	// on a read-only image a handle can only be obtained without write flags
	flag := os.O_RDWR
	if ro {
		flag = os.O_RDONLY
	}
	f, err := fs.OpenFile("/FOO.TXT", flag)
	vp.Assert(err == nil, "the existing file opens")
	fl := f.(*File)
	on := vp.Bool("on")
	var serr error
	switch vp.U8("which") % 3 {
	case 0:
		serr = fl.SetHidden(on)
	case 1:
		serr = fl.SetSystem(on)
	default:
		serr = fl.SetReadOnly(on)
	}
	vp.AllowPanic()
	c11FatEnd(img, ro, serr, "read-only: SetHidden/SetSystem/SetReadOnly return an error")
}

// VP_C11_fat_unsupported: the mutators FAT does not implement report an error and write nothing
// (on a read-write image as well).
func VP_C11_fat_unsupported() {
	fs, img, _ := c11FatFS(c11BackendFile)
	vp.NoPanic()
	vp.Assert(fs.Chmod("/FOO.TXT", os.FileMode(vp.U32("mode"))) != nil, "Chmod returns an error")
	vp.Assert(fs.Chown("/FOO.TXT", vp.Int("uid"), vp.Int("gid")) != nil, "Chown returns an error")
	vp.Assert(fs.Symlink("/FOO.TXT", "/L") != nil, "Symlink returns an error")
	vp.Assert(fs.Link("/FOO.TXT", "/L") != nil, "Link returns an error")
	vp.Assert(fs.Mknod("/N", vp.U32("nodmode"), vp.Int("dev")) != nil, "Mknod returns an error")
	vp.AllowPanic()
	vp.Assert(img.writes == 0, "nothing was written")
	vp.Cover("unsupported mutators refused")
}

// VP_C11_fat_readers_interleaved: reading entry points never write (whatever the mode), and
// rejected mutators in between do not change what they report from the image.
func VP_C11_fat_readers_interleaved() {
	fs, img, ro := c11FatFS(c11BackendFile)
	img.ro = true // reading must not write in any mode
	vp.Unwind(40)
	vp.NoPanic()
	d1, err := fs.ReadDir(".")
	vp.Assert(err == nil, "ReadDir works")
	vp.Assert(len(d1) == 2, "the root lists the file and the directory")
	l1 := fs.Label()
	st, err := fs.Stat("FOO.TXT")
	vp.Assert(err == nil, "Stat works")
	vp.Assert(st.Size() == int64(vp.U32("foo.size")), "Stat reports the recorded size")
	f, err := fs.OpenFile("/FOO.TXT", os.O_RDONLY)
	vp.Assert(err == nil, "read-only open works")
	buf := make([]byte, 8)
	_, _ = f.Read(buf)
	_, _ = f.Seek(0, 0)
	_, _ = fs.GetArchiveBit("/FOO.TXT")
	_, _ = fs.ReadDir("SUBDIR")
	_ = fs.Type()
	vp.Assert(img.writes == 0, "the readers wrote nothing")
	if ro {
		_ = fs.Mkdir("/NEWDIR")
		_ = fs.Remove("/FOO.TXT")
		_, _ = fs.OpenFile("/NEW.TXT", os.O_CREATE|os.O_RDWR)
		_ = fs.Rename("/FOO.TXT", "/BAR.TXT")
		d2, err := fs.ReadDir(".")
		vp.Assert(err == nil, "ReadDir still works")
		vp.Assert(len(d2) == len(d1), "same listing after the rejected mutators")
		vp.Assert(d2[0].Name() == d1[0].Name(), "same first name after the rejected mutators")
		vp.Assert(fs.Label() == l1, "same label after the rejected mutators")
		vp.Assert(img.writes == 0, "nothing was written")
		vp.Cover("read-only: interleaving done")
	}
	_ = f.Close()
	_ = fs.Close()
	vp.AllowPanic()
	vp.Cover("readers done")
}

// Thorough tier: the remaining mutators on the backend whose own Writable() fails.
func c11FatRefuseAll() {
	for i := 0; i < 6; i++ {
		fs, img, ro := c11FatFS(c11BackendRefuse)
		vp.Unwind(40)
		vp.NoPanic()
		var err error
		switch i {
		case 0:
			err = fs.Remove("/FOO.TXT")
		case 1:
			err = fs.Rename("/FOO.TXT", "/BAR.TXT")
		case 2:
			err = fs.SetLabel("NEWLABEL")
		case 3:
			err = fs.SetArchiveBit("/FOO.TXT", vp.Bool("set"))
		case 4:
			_, err = fs.OpenFile("/NEW.TXT", os.O_CREATE|os.O_RDWR)
		default:
			err = fs.Mkdir("/SUBDIR/NEWDIR")
		}
		vp.AllowPanic()
		c11FatEnd(img, ro, err, "backend refuses Writable(): the mutator returns an error")
	}
}

package fat12

import (
	"github.com/diskfs/go-diskfs/internal/vp"
	"github.com/diskfs/go-diskfs/internal/vp/vpdev"
)

// c01Write: one File.Write at an arbitrary offset into a file with an arbitrary (well-formed)
// cluster chain on a volume placed at an arbitrary start inside a larger device.
// Reference = a byte string: afterwards the device byte that the chain maps to file position
// off+i is p[i], the recorded size is max(old, off+len), the chain is long enough for it,
// bytes of the file before the write position are untouched and every WriteAt stays inside
// [start, start+size) (C03).
func c01Write(bpc int, maxLen int, start int64) {
	const n = 8 // FAT entries 0..7, data clusters 2..7
	N := uint32(n)
	tbl := &fat12Table{eoc: 0xFFF, clusters: make([]uint32, n), max: N - 1, size: 512}
	// existing file: 0, 1 or 2 clusters with arbitrary distinct cluster numbers
	c0, c1 := vp.U32("c0"), vp.U32("c1")
	nclus := vp.U8("nclus")
	vp.Assume(nclus >= 1) // a file gets its first cluster when it is created (mkFile)
	vp.Assume(nclus <= 2)
	vp.Assume(c0 >= 2 && c0 < N)
	vp.Assume(c1 >= 2 && c1 < N)
	vp.Assume(c0 != c1)
	for i := uint32(2); i < N; i++ {
		v := uint32(0)
		if nclus == 1 && i == c0 {
			v = 0xFFF
		}
		if nclus == 2 && i == c0 {
			v = c1
		}
		if nclus == 2 && i == c1 {
			v = 0xFFF
		}
		tbl.clusters[i] = v
	}
	const rootOff, rootEntries = 1536, 2
	dataStart := uint32(rootOff + rootEntries*32)
	volSize := int64(dataStart) + int64(n-2)*int64(bpc)
	dev := vpdev.NewMemDev("disk", -1)
	// device initially all zero, written bytes all non-zero: a stray data write is visible as a non-zero byte
	dev.Range, dev.Lo, dev.Hi = true, start, start+volSize
	fs := NewFileSystem(dev, nil, tbl, dataStart, bpc, volSize, start, rootOff, rootEntries, 512, 1024)
	oldSize := vp.U32("filesize")
	vp.Assume(int(oldSize) <= int(nclus)*bpc)
	vp.Assume(int(nclus) == 0 || int(oldSize) > (int(nclus)-1)*bpc) // chain exactly as long as the size needs
	de := &directoryEntry{filenameShort: "A", fileExtension: "TXT", fileSize: oldSize, filesystem: fs}
	if nclus > 0 {
		de.clusterLocation = c0
	}
	root := &Directory{directoryEntry: directoryEntry{isSubdirectory: true, filesystem: fs}, entries: []*directoryEntry{de}}
	off := vp.I64("offset")
	vp.Assume(off >= 0)
	vp.Assume(off <= int64(2*bpc+1))
	fl := &File{directoryEntry: de, isReadWrite: true, offset: off, parent: root, filesystem: fs}
	plen := vp.Int("len")
	vp.Assume(plen >= 1)
	vp.Assume(plen <= maxLen)
	buf := vp.Bytes("p", maxLen)
	p := buf[:plen]
	for i := range buf {
		vp.Assume(buf[i] != 0)
	}
	vp.Unwind(12)
	wrote, err := fl.Write(p)
	if err != nil {
		vp.Cover("write refused")
		return
	}
	vp.Assert(wrote == plen, "Write reports len(p) bytes written")
	vp.Assert(fl.offset == off+int64(plen), "the handle's cursor advances by len(p)")
	newSize := int64(oldSize)
	if off+int64(plen) > newSize {
		newSize = off + int64(plen)
	}
	vp.Assert(int64(fl.fileSize) == newSize, "recorded size = max(old size, offset+len)")
	// map file positions through the chain as it is in the table now
	need := (newSize + int64(bpc) - 1) / int64(bpc)
	chain := make([]uint32, 6)
	cur := de.clusterLocation
	for k := int64(0); k < 6; k++ {
		if k < need {
			vp.Assert(cur >= 2 && cur < N, "the chain has an in-range cluster for every cluster the size needs")
			chain[k] = cur
			cur = tbl.ClusterValue(cur)
		}
	}
	vp.Assert(need == 0 || cur >= 0xFF8 || need >= 6, "the chain ends after exactly the clusters needed")
	devOff := func(pos int64) int64 {
		ci := pos / int64(bpc)
		c := uint32(0)
		for k := int64(0); k < 6; k++ {
			c = vp.IteU32(ci == k, chain[k], c)
		}
		return start + int64(dataStart) + int64(c-2)*int64(bpc) + pos%int64(bpc)
	}
	for i := 0; i < maxLen; i++ {
		if i < plen {
			vp.Assert(dev.ByteAt(devOff(off+int64(i))) == p[i], "the byte written at file position offset+i is p[i]")
		}
	}
	// earlier bytes of the file are unchanged (they keep the device's previous content)
	for j := int64(0); j < int64(2*bpc); j++ {
		if j < off && j < int64(oldSize) {
			vp.Assert(dev.ByteAt(devOff(j)) == 0, "file bytes before the write position are untouched")
		}
	}
	vp.Cover("write done")
}

// the start of the volume inside the device is case-split (0, 1 MiB, beyond 4 GiB)
func VP_C01_fat_write_place_start0()  { c01Write(4, 6, 0) }
func VP_C01_fat_write_place_start1m() { c01Write(4, 6, 1<<20) }
func VP_C01_fat_write_place_start8g() { c01Write(4, 6, 1<<33+512) }
func VP_C01_fat_write_place_512() {
	if vp.Thorough() {
		c01Write(512, 3, 1<<20)
	}
}

package fat12

import (
	"io"
	"runtime"

	"github.com/diskfs/go-diskfs/internal/vp"
	"github.com/diskfs/go-diskfs/internal/vp/vpdev"
)

// c18Slack: allocations up to twice the image size plus this constant count as "in proportion
// to the image" (the readers legitimately use fixed buffers of a few KiB).
const c18Slack = 64 << 10

// c18Dev is an image whose every byte is arbitrary. Symbolically it is a vpdev.MemDev with
// uninterpreted content; natively the content is materialised once so that reads do not allocate
// (the native run measures the heap to confirm allocation counterexamples).
type c18Dev struct {
	vpdev.MemDev
	img []byte
}

func c18NewDev(name string, size int64) *c18Dev {
	d := &c18Dev{}
	d.Name, d.Size, d.UF, d.NoWrites = name, size, true, true
	if !vp.Symbolic() {
		d.img = make([]byte, size)
		for i := range d.img {
			d.img[i] = vp.UFByte(name, int64(i))
		}
	}
	return d
}

func (d *c18Dev) ReadAt(p []byte, off int64) (int, error) {
	if vp.Symbolic() {
		return d.MemDev.ReadAt(p, off)
	}
	if off < 0 || off >= d.Size {
		return 0, io.EOF
	}
	n := copy(p, d.img[off:])
	if n < len(p) {
		return n, io.EOF
	}
	return n, nil
}

// c18AllocBegin/End: the native counterpart of vp.AllocLimit (which only the engine checks):
// more than limit bytes allocated between the two calls is a panic of the NoPanic region.
func c18AllocBegin() uint64 {
	if vp.Symbolic() {
		return 0
	}
	var m runtime.MemStats
	runtime.ReadMemStats(&m)
	return m.TotalAlloc
}

func c18AllocEnd(t0, limit uint64) {
	if vp.Symbolic() {
		return
	}
	var m runtime.MemStats
	runtime.ReadMemStats(&m)
	if m.TotalAlloc-t0 > limit {
		panic("allocation out of proportion to the image size")
	}
}

// VP_C18_fat12_bootsector: msDosBootSectorFromBytes on an arbitrary 512-byte sector.
func VP_C18_fat12_bootsector() {
	b := vp.Bytes("sector", 512)
	vp.Unwind(40)
	vp.NoPanic()
	bs, err := msDosBootSectorFromBytes(b)
	vp.AllowPanic()
	if err == nil {
		vp.Assert(bs != nil, "boot sector returned")
		vp.Assert(bs.biosParameterBlock != nil, "BPB returned")
		vp.Assert(bs.biosParameterBlock.Dos331BPB.Dos20BPB.BytesPerSector >= 512, "accepted sector size is at least 512")
		if bs.biosParameterBlock.ExtBootSignature == longEBPB {
			vp.Assert(len(bs.bootCode) == 512-2-11-51, "long form: boot code is what remains of the sector")
			vp.Cover("long form accepted")
		} else {
			vp.Assert(len(bs.bootCode) == 512-2-11-32, "short form: boot code is what remains of the sector")
			vp.Cover("short form accepted")
		}
	} else {
		vp.Cover("arbitrary sector rejected")
	}
}

// c18ReadGeom: fat12.Read on an image of the given size whose every byte is arbitrary:
// no panic, no allocation beyond 2*size+slack elements.
func c18ReadGeom(size int64) {
	dev := c18NewDev("img", size)
	limit := uint64(2*size + c18Slack)
	vp.Unwind(20)
	vp.AllocCap(vp.Bound("alloccap", 48, 96))
	vp.AllocLimit(limit)
	vp.NoPanic()
	t0 := c18AllocBegin()
	fs, err := Read(dev, size, 0, 0)
	c18AllocEnd(t0, limit)
	vp.AllowPanic()
	if err == nil {
		vp.Assert(fs != nil, "filesystem returned")
		vp.Assert(fs.table != nil, "table returned")
		vp.Cover("arbitrary image accepted as FAT12")
	} else {
		vp.Cover("arbitrary image rejected")
	}
}

func VP_C18_fat12_read_64k() { c18ReadGeom(64 << 10) }
func VP_C18_fat12_read_600() { c18ReadGeom(600) }

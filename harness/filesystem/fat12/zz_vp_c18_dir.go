package fat12

import (
	"github.com/diskfs/go-diskfs/internal/vp"
)

// VP_C18_fat12_lfn_entry: longFilenameEntryFromBytes on an arbitrary 32-byte slot.
func VP_C18_fat12_lfn_entry() {
	b := vp.Bytes("slot", 32)
	vp.Unwind(20)
	vp.NoPanic()
	_, err := longFilenameEntryFromBytes(b)
	vp.AllowPanic()
	vp.Assert(err == nil, "a 32-byte slot is always decodable")
	vp.Cover("done")
}

// VP_C18_fat12_dirents: parseDirEntries on arbitrary directory bytes.
func VP_C18_fat12_dirents() {
	n := vp.Bound("slots", 2, 6)
	b := vp.Bytes("dir", 32*n)
	vp.Unwind(20)
	vp.MaxLoop(n + 14)
	vp.NoPanic()
	ents, err := parseDirEntries(b)
	vp.AllowPanic()
	if err == nil {
		vp.Assert(len(ents) <= n, "no more entries than slots")
		vp.Cover("parsed")
		if len(ents) == n {
			vp.Cover("all slots are regular entries")
		}
	}
}

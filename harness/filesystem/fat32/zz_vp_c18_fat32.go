package fat32

import (
	"encoding/binary"
	"io"
	"runtime"

	"github.com/diskfs/go-diskfs/internal/vp"
	"github.com/diskfs/go-diskfs/internal/vp/vpdev"
)

// c18Slack: allocations up to twice the image size plus this constant count as "in proportion
// to the image" (the readers legitimately use fixed buffers of a few KiB).
const c18Slack = 64 << 10

// c18Dev is an image whose every byte is arbitrary. Symbolically it is a vpdev.MemDev with
// uninterpreted content; natively the content is materialised once so that reads do not allocate
// (the native run measures the heap to confirm allocation counterexamples).
type c18Dev struct {
	vpdev.MemDev
	img []byte
}

func c18NewDev(name string, size int64) *c18Dev {
	d := &c18Dev{}
	d.Name, d.Size, d.UF, d.NoWrites = name, size, true, true
	if !vp.Symbolic() {
		d.img = make([]byte, size)
		for i := range d.img {
			d.img[i] = vp.UFByte(name, int64(i))
		}
	}
	return d
}

func (d *c18Dev) ReadAt(p []byte, off int64) (int, error) {
	if vp.Symbolic() {
		return d.MemDev.ReadAt(p, off)
	}
	if off < 0 || off >= d.Size {
		return 0, io.EOF
	}
	n := copy(p, d.img[off:])
	if n < len(p) {
		return n, io.EOF
	}
	return n, nil
}

// c18AllocBegin/End: the native counterpart of vp.AllocLimit (which only the engine checks):
// more than limit bytes allocated between the two calls is a panic of the NoPanic region.
func c18AllocBegin() uint64 {
	if vp.Symbolic() {
		return 0
	}
	var m runtime.MemStats
	runtime.ReadMemStats(&m)
	return m.TotalAlloc
}

func c18AllocEnd(t0, limit uint64) {
	if vp.Symbolic() {
		return
	}
	var m runtime.MemStats
	runtime.ReadMemStats(&m)
	if m.TotalAlloc-t0 > limit {
		panic("allocation out of proportion to the image size")
	}
}

// VP_C18_fat32_bootsector: msDosBootSectorFromBytes (FAT32 form) on an arbitrary 512-byte sector.
func VP_C18_fat32_bootsector() {
	b := vp.Bytes("sector", 512)
	vp.Unwind(40)
	vp.NoPanic()
	bs, err := msDosBootSectorFromBytes(b)
	vp.AllowPanic()
	if err == nil {
		vp.Assert(bs != nil, "boot sector returned")
		vp.Assert(bs.biosParameterBlock != nil, "EBPB returned")
		vp.Assert(bs.biosParameterBlock.Dos331BPB.Dos20BPB.BytesPerSector >= 512, "accepted sector size is at least 512")
		vp.Assert(bs.biosParameterBlock.sectorsPerFat == binary.LittleEndian.Uint32(b[36:40]), "sectors per FAT decoded from offset 36")
		vp.Cover("arbitrary sector accepted as FAT32 boot sector")
	} else {
		vp.Cover("arbitrary sector rejected")
	}
}

// VP_C18_fat32_ebpb: dos71EBPBFromBytes on 79 arbitrary bytes (the only length the boot sector parser passes).
func VP_C18_fat32_ebpb() {
	b := vp.Bytes("ebpb", 79)
	vp.Unwind(40)
	vp.NoPanic()
	bpb, sz, err := dos71EBPBFromBytes(b)
	vp.AllowPanic()
	if err == nil {
		vp.Assert(bpb != nil, "EBPB returned")
		vp.Assert(sz == 60 || sz == 79, "consumed size is one of the two forms")
		vp.Assert((sz == 79) == (b[55] == 0x29), "long form iff extended signature 0x29")
		vp.Cover("EBPB accepted")
	} else {
		vp.Cover("EBPB rejected")
	}
}

// VP_C18_fat32_fsinfo: fsInformationSectorFromBytes on an arbitrary sector.
func VP_C18_fat32_fsinfo() {
	b := vp.Bytes("sector", 512)
	vp.NoPanic()
	f, err := fsInformationSectorFromBytes(b)
	vp.AllowPanic()
	if err == nil {
		vp.Assert(f.freeDataClustersCount == binary.LittleEndian.Uint32(b[488:492]), "free count decoded from offset 488")
		vp.Assert(f.lastAllocatedCluster == binary.LittleEndian.Uint32(b[492:496]), "last allocated decoded from offset 492")
		vp.Cover("FSIS accepted")
	} else {
		vp.Cover("FSIS rejected")
	}
}

// VP_C18_fat32_table: tableFromBytes on n arbitrary bytes, n arbitrary in 0..max (n = sectorsPerFat *
// bytesPerSector as Read computes it; 0 included: nothing in Read refuses sectorsPerFat = 0).
func VP_C18_fat32_table() {
	max := vp.Bound("fatbytes", 43, 67)
	n := vp.Int("n")
	vp.Assume(n >= 0)
	vp.Assume(n <= max)
	all := vp.Bytes("fat", max)
	b := all[:n:n]
	vp.Unwind(max/4 + 4)
	if n < 8 {
		// KF-C18-7: a FAT shorter than its two reserved entries: slice out of range
		vp.KnownPanic("KF-C18-7", "fat32.tableFromBytes) | slice bounds out of range")
	}
	vp.NoPanic()
	t := tableFromBytes(b)
	vp.AllowPanic()
	vp.Assert(int(t.MaxCluster()) == n/4, "highest cluster index = number of whole 32-bit entries")
	for i := 2; i < max/4; i++ {
		if i < n/4 {
			vp.Assert(t.ClusterValue(uint32(i)) == binary.LittleEndian.Uint32(all[4*i:]), "entry decoded per the 32-bit layout")
		}
	}
	// contract the chain walker relies on: it rejects links above MaxCluster() and indexes every other value
	idx := vp.U32("idx")
	vp.Assume(idx <= t.MaxCluster())
	vp.NoPanic()
	_ = t.ClusterValue(idx)
	t.SetCluster(idx, t.EOCMarker())
	vp.AllowPanic()
	vp.Cover("table decoded")
}

// c18ReadGeom: fat32.Read on an image of the given size whose every byte is arbitrary.
func c18ReadGeom(size int64) {
	dev := c18NewDev("img", size)
	limit := uint64(2*size + c18Slack)
	vp.Unwind(20)
	vp.AllocCap(vp.Bound("alloccap", 48, 96))
	vp.AllocLimit(limit)
	// (KF-C18-7, a FAT shorter than its two reserved entries, is no longer reachable through Read since 03e3555)
	vp.NoPanic()
	t0 := c18AllocBegin()
	fs, err := Read(dev, size, 0, 512)
	c18AllocEnd(t0, limit)
	vp.AllowPanic()
	if err == nil {
		vp.Assert(fs != nil, "filesystem returned")
		vp.Cover("arbitrary image accepted as FAT32")
	} else {
		vp.Cover("arbitrary image rejected")
	}
}

func VP_C18_fat32_read_64k()  { c18ReadGeom(64 << 10) }
func VP_C18_fat32_read_5000() { c18ReadGeom(5000) }

package fat32

import (
	"github.com/diskfs/go-diskfs/backend"
	"github.com/diskfs/go-diskfs/backend/file"
	"github.com/diskfs/go-diskfs/filesystem/fat12"
	"github.com/diskfs/go-diskfs/internal/vp"
	"github.com/diskfs/go-diskfs/internal/vp/vpdev"
)

// C11 for what FAT32 adds to the shared FAT code: its own SetLabel, boot-sector writer
// (primary + backup) and FSInfo writer (primary + backup), plus one inherited mutator (Mkdir) on
// the FAT32 layout (root directory = cluster chain). Backend = file.New(image, readOnly) with an
// ARBITRARY readOnly; the locations of FSInfo and backup boot sector and the start of the
// volume are arbitrary.

type c11Img struct {
	*vpdev.MemDev
	ro     bool
	writes int
}

func (d *c11Img) ReadAt(p []byte, off int64) (int, error) { // an empty volume: all zero
	for i := range p {
		p[i] = 0
	}
	return len(p), nil
}

func (d *c11Img) WriteAt(p []byte, off int64) (int, error) {
	vp.Assert(!d.ro, "no WriteAt reaches an image that was opened read-only")
	d.writes++
	vp.Stop("read-write image: the call writes")
	return len(p), nil
}

func c11Fat32FS() (*FileSystem, *c11Img, bool) {
	ro := vp.Bool("readOnly")
	img := &c11Img{MemDev: vpdev.NewMemDev("img", -1), ro: ro}
	var b backend.Storage = file.New(img, ro)
	start := vp.I64("start")
	vp.Assume(start >= 0)
	vp.Assume(start <= 1<<40)
	t := &table{fatID: 0x0FFFFFF8, eocMarker: 0x0FFFFFFF, clusters: make([]uint32, 13), rootDirCluster: 2, size: 48, maxCluster: 12}
	t.clusters[2] = t.eocMarker
	bpb := &dos71EBPB{
		Dos331BPB: &fat12.Dos331BPB{Dos20BPB: &fat12.Dos20BPB{BytesPerSector: fat12.SectorSize512, SectorsPerCluster: 1,
			ReservedSectors: 32, FatCount: 2, MediaType: 0xF8}, SectorsPerTrack: 32, Heads: 64, TotalSectors32: 1 << 16},
		sectorsPerFat: 1, rootDirectoryCluster: 2,
		fsInformationSector: vp.U16("fsinfo.sector"), backupBootSector: vp.U16("backup.sector"),
		extendedBootSignature: 0x29, volumeLabel: "OLDLABEL   ", fileSystemType: "FAT32   ",
	}
	base := fat12.NewFileSystem(b, nil, t, 32*512+2*512, 512, 1<<25, start, 0, 0, 32*512, 33*512)
	fs := &FileSystem{FileSystem: base, fsis: FSInformationSector{freeDataClustersCount: vp.U32("free"), lastAllocatedCluster: 2}, bpbFat32: bpb}
	base.WriteBootSectorFn = fs.writeBootSector
	base.AfterWriteFAT = fs.writeFsis
	return fs, img, ro
}

func c11Fat32End(img *c11Img, ro bool, err error, what string) {
	if ro {
		vp.Assert(err != nil, what)
		vp.Assert(img.writes == 0, "read-only: nothing was written to the image")
		vp.Cover("read-only: the call is refused")
	}
}

func VP_C11_fat32_setlabel() {
	fs, img, ro := c11Fat32FS()
	vp.Unwind(40)
	vp.NoPanic()
	err := fs.SetLabel("NEWLABEL")
	vp.AllowPanic()
	c11Fat32End(img, ro, err, "read-only: SetLabel returns an error")
}

func VP_C11_fat32_write_bootsector() {
	fs, img, ro := c11Fat32FS()
	vp.NoPanic()
	err := fs.WriteBootSector()
	vp.AllowPanic()
	c11Fat32End(img, ro, err, "read-only: the boot sector writer returns an error")
}

func VP_C11_fat32_write_fat_fsinfo() {
	fs, img, ro := c11Fat32FS()
	vp.NoPanic()
	err := fs.WriteFat()
	vp.AllowPanic()
	c11Fat32End(img, ro, err, "read-only: the FAT writer returns an error")
	fs2, img2, ro2 := c11Fat32FS()
	vp.NoPanic()
	err = fs2.writeFsis()
	vp.AllowPanic()
	c11Fat32End(img2, ro2, err, "read-only: the FSInfo writer returns an error")
}

func VP_C11_fat32_mkdir() {
	fs, img, ro := c11Fat32FS()
	vp.Unwind(40)
	vp.NoPanic()
	err := fs.Mkdir("/NEWDIR")
	vp.AllowPanic()
	c11Fat32End(img, ro, err, "read-only: Mkdir returns an error")
}

package fat32

import (
	"github.com/diskfs/go-diskfs/backend"
	"github.com/diskfs/go-diskfs/internal/vp"
	"github.com/diskfs/go-diskfs/internal/vp/vpdev"
)

// geomDev ends the run at the first WriteAt (the boot sector written by Create) after checking
// the bytes the way an independent reader of the raw image would.
type geomDev struct {
	*vpdev.MemDev
	size, start, bps int64
}

func (d *geomDev) Writable() (backend.WritableFile, error) { return d, nil }

func g16(p []byte, o int) uint32 { return uint32(p[o]) | uint32(p[o+1])<<8 }
func g32(p []byte, o int) uint32 {
	return uint32(p[o]) | uint32(p[o+1])<<8 | uint32(p[o+2])<<16 | uint32(p[o+3])<<24
}

func (d *geomDev) WriteAt(p []byte, off int64) (int, error) {
	vp.Assert(off == d.start, "the boot sector is written at the start of the assigned range")
	vp.Assert(int64(len(p)) == d.bps, "boot sector is one sector")
	bps := int64(g16(p, 11))
	spc := int64(p[13])
	reserved := int64(g16(p, 14))
	nfats := int64(p[16])
	rootEnt := int64(g16(p, 17))
	ts16 := int64(g16(p, 19))
	spf16 := int64(g16(p, 22))
	ts32 := int64(g32(p, 32))
	spf32 := int64(g32(p, 36))
	rootClus := int64(g32(p, 44))
	fsinfo := int64(g16(p, 48))
	bkboot := int64(g16(p, 50))
	vp.Assert(p[510] == 0x55, "boot signature 55")
	vp.Assert(p[511] == 0xaa, "boot signature AA")
	vp.Assert(bps == d.bps, "bytes per sector = block size")
	vp.Assert(spc >= 1, "sectors per cluster >= 1")
	vp.Assert(spc&(spc-1) == 0, "sectors per cluster is a power of two")
	vp.Assert(nfats == 2, "two FATs")
	vp.Assert(rootEnt == 0, "FAT32: no fixed root directory")
	vp.Assert(ts16 == 0, "FAT32: 16-bit total sectors is 0")
	vp.Assert(spf16 == 0, "FAT32: 16-bit sectors per FAT is 0")
	total := ts32
	vp.Assert(total*bps <= d.size, "the recorded volume does not exceed the range given")
	vp.Assert(total == d.size/bps, "total sectors = size / sector size")
	dataSectors := total - reserved - nfats*spf32
	vp.Assert(dataSectors > 0, "there is a data area")
	clusters := dataSectors / spc
	vp.Assert(clusters >= 1, "at least one cluster")
	vp.Assert(clusters+2 <= 0x0FFFFFF7, "cluster count within FAT32 range")
	entries := spf32 * bps / 4
	vp.Assert(entries >= clusters+2, "each FAT has an entry for every data cluster (+2 reserved)")
	vp.Assert(rootClus >= 2, "root directory cluster is a data cluster")
	vp.Assert(rootClus < clusters+2, "root directory cluster inside the data area")
	vp.Assert(fsinfo >= 1, "FSInfo sector after the boot sector")
	vp.Assert(fsinfo < reserved, "FSInfo sector inside the reserved area")
	vp.Assert(bkboot >= 1, "backup boot sector after the boot sector")
	vp.Assert(bkboot < reserved, "backup boot sector inside the reserved area")
	vp.Assert(bkboot != fsinfo, "backup boot sector is not the FSInfo sector")
	vp.Observe("clusters", uint64(clusters))
	vp.Stop("boot sector geometry checked")
	return len(p), nil
}

func c08Geometry(bps int64, lo, hi int64) {
	size := vp.I64("size")
	start := vp.I64("start")
	vp.Assume(size >= lo)
	vp.Assume(size <= hi)
	vp.Assume(start >= 0)
	vp.Assume(start <= 1<<44)
	vp.SparseAlloc(true)
	dev := &geomDev{MemDev: vpdev.NewMemDev("disk", -1), size: size, start: start, bps: bps}
	_, err := Create(dev, size, start, bps, "LABEL", true)
	if err != nil {
		vp.Cover("Create refuses the size")
		return
	}
	vp.Assert(false, "Create returned without writing a boot sector")
}

// size ranges follow the cluster-size table of Create (one harness per row, so that the
// cluster size is a constant in each query)
func VP_C08_fat32_geometry_512_a()  { c08Geometry(512, 0, 260*MB) }
func VP_C08_fat32_geometry_512_b()  { c08Geometry(512, 260*MB+1, 8*GB) }
func VP_C08_fat32_geometry_512_c()  { c08Geometry(512, 8*GB+1, 16*GB) }
func VP_C08_fat32_geometry_512_d()  { c08Geometry(512, 16*GB+1, 32*GB) }
func VP_C08_fat32_geometry_512_e()  { c08Geometry(512, 32*GB+1, Fat32MaxSize) }
func VP_C08_fat32_geometry_4096_a() { c08Geometry(4096, 0, 260*MB) }
func VP_C08_fat32_geometry_4096_b() { c08Geometry(4096, 260*MB+1, 8*GB) }
func VP_C08_fat32_geometry_4096_e() { c08Geometry(4096, 8*GB+1, Fat32MaxSize) }

package fat32

import (
	"io"
	"os"

	"github.com/diskfs/go-diskfs/filesystem/fat12"
	"github.com/diskfs/go-diskfs/internal/vp"
	"github.com/diskfs/go-diskfs/internal/vp/vpdev"
)

// C10 on FAT32: the handle is fat12.File, the table is the 32-bit fat32 table. The file is
// reached the way a user reaches it: OpenFile on a filesystem whose FAT bytes are arbitrary
// (decoded by tableFromBytes), Seek to an arbitrary position, then one Read.
// Oracle: an independent walk over the raw little-endian 32-bit FAT entries (28 significant bits).
// The root directory is cluster 2 (one cluster of 32 bytes = one directory entry), so the cluster
// size here is 32 bytes and the buffer is 0..9 bytes: a read crosses at most one cluster boundary.
// Outside the claim: chain links whose reserved top 4 bits are not zero (assumed zero here).

const (
	c10f32Start     = int64(0x1234567835)
	c10f32DataStart = uint32(0x00042611)
	c10f32Bpc       = 32
	c10f32Entries   = 14 // clusters 0..13 (FromBytes decodes 2..13)
)

// c10Dev32: cluster 2 (the root directory) holds one 32-byte entry (FILE.TXT, first cluster and size
// arbitrary); everywhere else the byte at address a is the low byte of a (see fat12 harness:
// addresses are compared modulo 256, full-width arithmetic is covered by C10.fat_read_geometry_*).
type c10Dev32 struct {
	*vpdev.MemDev
	dir []byte
}

func (d *c10Dev32) ByteAt(a int64) byte { return byte(uint64(a)) }

func (d *c10Dev32) ReadAt(p []byte, off int64) (int, error) {
	if off == c10f32Start+int64(c10f32DataStart) {
		copy(p, d.dir)
		return len(p), nil
	}
	vp.FillFunc(p, func(i int) byte { return d.ByteAt(off + int64(i)) })
	return len(p), nil
}

func c10f32Entry(fat []byte, n uint32) uint32 {
	var e [4]byte
	for b := 0; b < 4; b++ {
		e[b] = fat[b]
		for i := 1; i < c10f32Entries; i++ {
			e[b] = vp.IteU8(n == uint32(i), fat[4*i+b], e[b])
		}
	}
	return uint32(e[0]) | uint32(e[1])<<8 | uint32(e[2])<<16 | uint32(e[3])<<24
}

func c10Fat32Read(L int) {
	N := 9
	fat := vp.Bytes("fat", 4*c10f32Entries)
	// the root directory: cluster 2, one cluster
	vp.Assume(fat[8] == 0xFF)
	vp.Assume(fat[9] == 0xFF)
	vp.Assume(fat[10] == 0xFF)
	vp.Assume(fat[11] == 0x0F)
	tbl := tableFromBytes(fat)

	first := vp.U32("first")
	size := vp.U32("size")
	vp.Assume(int64(size) <= int64(L)*c10f32Bpc)
	// independent walk over the raw entries: exactly L clusters, all decodable (3..13), then EOC
	chain := make([]uint32, L)
	c := first
	for i := 0; i < L; i++ {
		vp.Assume(c >= 3)
		vp.Assume(c <= 13)
		chain[i] = c
		next := c10f32Entry(fat, c)
		if i == L-1 {
			vp.Assume(next&0x0FFFFFFF >= 0x0FFFFFF8)
		} else {
			vp.Assume(next>>28 == 0)
		}
		c = next
	}

	dir := make([]byte, 32)
	copy(dir, "FILE    TXT")
	dir[11] = 0x20
	dir[26], dir[27] = byte(first), byte(first>>8)
	dir[20], dir[21] = byte(first>>16), byte(first>>24)
	dir[28], dir[29], dir[30], dir[31] = byte(size), byte(size>>8), byte(size>>16), byte(size>>24)
	m := vpdev.NewMemDev("disk", -1)
	m.NoWrites = true
	dev := &c10Dev32{MemDev: m, dir: dir}
	fs := fat12.NewFileSystem(dev, nil, tbl, c10f32DataStart, c10f32Bpc, 1<<30, c10f32Start, 0, 0, 0x200, 0x400)

	f, err := fs.OpenFile("/FILE.TXT", os.O_RDONLY)
	vp.Assert(err == nil, "the file is found")
	off := int64(vp.U64("offset") >> 1)
	pos, err := f.Seek(off, io.SeekStart)
	vp.Assert(err == nil, "Seek to a non-negative position succeeds")
	vp.Assert(pos == off, "Seek reports the new position")

	buf := vp.Bytes("buf", N)
	orig := make([]byte, N)
	copy(orig, buf)
	k := vp.Int("len")
	vp.Assume(k >= 0)
	vp.Assume(k <= N)

	rem := int64(size) - off
	if rem < 0 {
		rem = 0
	}
	want := int64(k)
	if rem < want {
		want = rem
	}
	inCl := int64(uint64(off) % c10f32Bpc)
	kf1 := inCl != 0 && off < int64(size) && rem < int64(k) && rem < c10f32Bpc-inCl

	vp.Unwind(L + 3)
	vp.NoPanic()
	n, err := f.Read(buf[:k])
	vp.AllowPanic()
	vp.Unwind(16)

	vp.AssertUnless("KF-C10-1", kf1, int64(n) == want, "n = min(len(b), bytes remaining)")
	cur, err2 := f.Seek(0, io.SeekCurrent)
	vp.Assert(err2 == nil, "Seek(0, SeekCurrent) succeeds")
	vp.AssertUnless("KF-C10-1", kf1, cur == off+want, "cursor advances by the bytes delivered")
	for i := 0; i < N; i++ {
		if int64(i) < want {
			p := off + int64(i)
			idx := int64(uint64(p) / c10f32Bpc)
			cl := chain[0]
			for j := 1; j < L; j++ {
				cl = vp.IteU32(idx == int64(j), chain[j], cl)
			}
			addr := c10f32Start + int64(c10f32DataStart) + int64(cl-2)*c10f32Bpc + int64(uint64(p)%c10f32Bpc)
			vp.Assert(buf[i] == dev.ByteAt(addr), "delivered byte = file byte at cursor+i")
		} else {
			vp.AssertUnless("KF-C10-1", kf1, buf[i] == orig[i], "buffer beyond n is untouched")
		}
	}
	if err == io.EOF {
		vp.Assert(off+want >= int64(size), "io.EOF only when the end is reached")
		vp.Cover("EOF reported")
	}
	if k > 0 {
		vp.Assert(err == nil || err == io.EOF, "no error other than io.EOF on a well-formed file")
		if want == 0 {
			vp.Assert(err == io.EOF, "a zero-byte read into a non-empty buffer reports io.EOF")
			vp.Cover("read at or past the end")
		}
		if want == int64(k) {
			if off+want < int64(size) {
				vp.Assert(err == nil, "a full read that stops before the end reports no error")
				vp.Cover("full read before the end")
			}
		} else if want > 0 {
			vp.Cover("short read at the end")
		}
	} else {
		vp.Cover("empty buffer")
	}
}

func VP_C10_fat32_read_L1() { c10Fat32Read(1) }
func VP_C10_fat32_read_L2() { c10Fat32Read(2) }
func VP_C10_fat32_read_L3() {
	if vp.Thorough() {
		c10Fat32Read(3)
	}
}

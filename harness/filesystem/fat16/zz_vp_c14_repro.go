package fat16

import (
	"os"
	"time"

	"github.com/diskfs/go-diskfs/backend"
	"github.com/diskfs/go-diskfs/internal/vp"
	"github.com/diskfs/go-diskfs/internal/vp/vpdev"
)

// C14 (FAT16): with reproducible=true and SOURCE_DATE_EPOCH fixed, Create followed by the same
// operations, executed twice (a clock change in between, two arbitrary start offsets inside a larger
// device), issues the same volume-relative writes byte for byte, and consults no wall clock, random
// source or map iteration order on the way.

// c14Dev is a volume-sized window at byte offset `start` of a larger device: every access is
// recorded in coordinates relative to the start of the volume. The head of the volume (boot sector,
// FATs, root directory, first clusters) is additionally kept as a flat image so that reads do not
// have to replay the write log; anything outside it is served from the log.
type c14Dev struct {
	*vpdev.MemDev
	start int64
	img   []byte
	spill bool // a write went (partly) outside img: the log is the only complete record from then on
}

func (d *c14Dev) Writable() (backend.WritableFile, error) { return d, nil }
func (d *c14Dev) WriteAt(p []byte, off int64) (int, error) {
	rel := off - d.start
	vp.Assert(rel >= 0, "no write before the start of the volume")
	if rel >= 0 && rel+int64(len(p)) <= int64(len(d.img)) {
		copy(d.img[rel:], p)
	} else {
		d.spill = true
	}
	return d.MemDev.WriteAt(p, rel)
}
func (d *c14Dev) ReadAt(p []byte, off int64) (int, error) {
	rel := off - d.start
	vp.Assert(rel >= 0, "no read before the start of the volume")
	if !d.spill && rel >= 0 && rel+int64(len(p)) <= int64(len(d.img)) {
		copy(p, d.img[rel:rel+int64(len(p))])
		return len(p), nil
	}
	return d.MemDev.ReadAt(p, rel)
}

// c14Epoch sets SOURCE_DATE_EPOCH to the decimal number `base` with its last n digits replaced by
// arbitrary digits (the era is case-split by the base; the low digits - odd seconds, minute and day
// boundaries - are arbitrary).
func c14Epoch(base string, n int) {
	b := []byte(base[:len(base)-n])
	for i := 0; i < n; i++ {
		d := vp.U8("epoch.digit"+string(rune('a'+i))) % 10 // every digit value; the range is visible to the engine without a solver call
		b = append(b, '0'+d)
	}
	os.Setenv("SOURCE_DATE_EPOCH", string(b))
}

// c14Two returns two windows at two arbitrary, independent start offsets of two devices.
func c14Two(img int) (a, b *c14Dev) {
	sa, sb := vp.I64("startA"), vp.I64("startB")
	vp.Assume(sa >= 0)
	vp.Assume(sa <= 1<<44)
	vp.Assume(sb >= 0)
	vp.Assume(sb <= 1<<44)
	return &c14Dev{MemDev: vpdev.NewMemDev("A", -1), start: sa, img: make([]byte, img)}, &c14Dev{MemDev: vpdev.NewMemDev("B", -1), start: sb, img: make([]byte, img)}
}

// c14ClockChange separates the two executions by more than the 2 s resolution of FAT timestamps.
// (In the engine every time.Now() is an arbitrary instant anyway; natively the wall clock really moves,
// so that a counterexample that depends on the clock reproduces in the replay.)
func c14ClockChange() {
	if !vp.Symbolic() {
		time.Sleep(2100 * time.Millisecond)
	}
}

// c14Same asserts that both executions issued the same sequence of writes (same volume-relative
// offsets, same lengths, same bytes: from equal initial images this gives byte-identical images)
// and that no nondeterminism source was consulted.
func c14Same(a, b *c14Dev) {
	vp.Assert(len(a.Log) == len(b.Log), "both executions issue the same number of writes")
	for i := range a.Log {
		ra, rb := a.Log[i], b.Log[i]
		vp.Assert(ra.Off == rb.Off, "same volume-relative write offset in both executions")
		vp.Assert(len(ra.Data) == len(rb.Data), "same write length in both executions")
		var diff byte
		for j := range ra.Data {
			diff |= ra.Data[j] ^ rb.Data[j]
		}
		vp.Assert(diff == 0, "same bytes written in both executions (no dependence on clock or start offset)")
	}
	vp.Assert(vp.NondetSources() == 0, "no wall clock, random source or map iteration order is consulted")
}

// c14Twice runs Create(size, reproducible) + ops in two executions and compares them.
func c14Twice(size int64, label, era string, digits int, ops func(fs *FileSystem)) {
	c14Epoch(era, digits)
	da, db := c14Two(64 << 10)
	fa, err := Create(da, size, da.start, 512, label, true)
	vp.Assert(err == nil, "Create accepts the size (execution A)")
	ops(fa)
	c14ClockChange()
	fb, err := Create(db, size, db.start, 512, label, true)
	vp.Assert(err == nil, "Create accepts the size (execution B)")
	ops(fb)
	vp.Assert(len(da.Log) >= 5, "boot sector, two FATs, root directory and label were written")
	c14Same(da, db)
}

// --- Create alone (createVolumeLabel's timestamp, volume id, FAT, root directory) -------------

// 5 MiB: 2 sectors per cluster, ~5000 clusters (just above the FAT16 minimum of 4085)
func VP_C14_fat16_create_5m() {
	c14Twice(5<<20, "REPRO", "1700000000", vp.Bound("epochdigits", 3, 4), func(fs *FileSystem) {})
	vp.Cover("created twice")
}

// epoch 0..999 (1970: before the FAT epoch, the date words wrap - still the same bytes twice), default label
func VP_C14_fat16_create_epoch0() {
	c14Twice(5<<20, "", "0000000000", vp.Bound("epochdigits", 3, 4), func(fs *FileSystem) {})
	vp.Cover("created twice")
}

// next cluster-size class (4 sectors per cluster), total sectors > 65535 (32-bit total field)
func VP_C14_fat16_create_40m() {
	if !vp.Thorough() {
		return
	}
	c14Twice(40<<20, "A LABEL LONGER THAN 11", "4354819200", vp.Bound("epochdigits", 3, 4), func(fs *FileSystem) {}) // around 2108-01-01 (past the FAT range)
	vp.Cover("created twice")
}

// --- Create + operations ------------------------------------------------------------------------

// Mkdir and a file with a long name in the new directory, arbitrary content over a cluster boundary
// (createEntry timestamps and numeric tails, first-fit allocation, directory serialisation order).
func VP_C14_fat16_mkdir_file() {
	data := vp.Bytes("data", 1300)
	c14Twice(5<<20, "REPRO", "1700000000", vp.Bound("epochdigits.ops", 1, 3), func(fs *FileSystem) {
		vp.Assert(fs.Mkdir("/sub") == nil, "Mkdir accepted")
		f, err := fs.OpenFile("/sub/A long file name.text", os.O_CREATE|os.O_RDWR)
		vp.Assert(err == nil, "file created")
		n, err := f.Write(data)
		vp.Assert(err == nil, "write accepted")
		vp.Assert(n == len(data), "all bytes written")
	})
	vp.Cover("mkdir + file, twice")
}

// Two files, rename of one over a fresh name and removal of the other (renameEntry's timestamp,
// chain release, directory rewrite).
func VP_C14_fat16_rename_remove() {
	c14Twice(5<<20, "REPRO", "0315532799", vp.Bound("epochdigits.ops", 1, 3), func(fs *FileSystem) { // just before / around 1980-01-01T00:00:00Z = 315532800
		f, err := fs.OpenFile("/one.txt", os.O_CREATE|os.O_RDWR)
		vp.Assert(err == nil, "file one created")
		_, err = f.Write([]byte("hello"))
		vp.Assert(err == nil, "write accepted")
		_, err = fs.OpenFile("/two.txt", os.O_CREATE|os.O_RDWR)
		vp.Assert(err == nil, "file two created")
		vp.Assert(fs.Rename("/one.txt", "/renamed-to-a-long-name.txt") == nil, "rename accepted")
		vp.Assert(fs.Remove("/two.txt") == nil, "remove accepted")
	})
	vp.Cover("rename + remove, twice")
}

package fat16

import (
	"io"
	"os"

	"github.com/diskfs/go-diskfs/filesystem/fat12"
	"github.com/diskfs/go-diskfs/internal/vp"
	"github.com/diskfs/go-diskfs/internal/vp/vpdev"
)

// C10 on FAT16: the handle is fat12.File, the table is the 16-bit fat16Table. The file is
// reached the way a user reaches it: OpenFile on a filesystem whose FAT bytes are arbitrary
// (decoded by fat16Table.FromBytes), Seek to an arbitrary position, then one Read.
// Oracle: an independent walk over the raw little-endian 16-bit FAT entries.

const (
	c10f16Start     = int64(0x1234567835)
	c10f16RootOff   = int64(0x600)
	c10f16DataStart = uint32(0x00042611)
	c10f16Bpc       = 4
	c10f16Entries   = 13 // clusters 0..12 (FromBytes decodes 2..12)
)

// c10Dev16: the root directory region holds one 32-byte entry (FILE.TXT, first cluster and size
// arbitrary); everywhere else the byte at address a is the low byte of a (see fat12 harness:
// addresses are compared modulo 256, full-width arithmetic is covered by C10.fat_read_geometry_*).
type c10Dev16 struct {
	*vpdev.MemDev
	dir []byte
}

func (d *c10Dev16) ByteAt(a int64) byte { return byte(uint64(a)) }

func (d *c10Dev16) ReadAt(p []byte, off int64) (int, error) {
	if off == c10f16Start+c10f16RootOff {
		copy(p, d.dir)
		return len(p), nil
	}
	vp.FillFunc(p, func(i int) byte { return d.ByteAt(off + int64(i)) })
	return len(p), nil
}

func c10f16Entry(fat []byte, n uint32) uint32 {
	lo := fat[0]
	hi := fat[1]
	for i := 1; i < c10f16Entries; i++ {
		lo = vp.IteU8(n == uint32(i), fat[2*i], lo)
		hi = vp.IteU8(n == uint32(i), fat[2*i+1], hi)
	}
	return uint32(lo) | uint32(hi)<<8
}

func c10Fat16Read(L int) {
	N := 9
	fat := vp.Bytes("fat", 2*c10f16Entries)
	tbl := newFat16Table(0xFFF8, uint32(2*c10f16Entries))
	tbl.FromBytes(fat)

	first := uint32(vp.U16("first"))
	size := vp.U32("size")
	vp.Assume(int64(size) <= int64(L)*c10f16Bpc)
	// independent walk over the raw entries: exactly L clusters, all decodable (2..12), then EOC
	chain := make([]uint32, L)
	c := first
	for i := 0; i < L; i++ {
		vp.Assume(c >= 2)
		vp.Assume(c <= 12)
		chain[i] = c
		next := c10f16Entry(fat, c)
		if i == L-1 {
			vp.Assume(next >= 0xFFF8)
		}
		c = next
	}

	dir := make([]byte, 32)
	copy(dir, "FILE    TXT")
	dir[11] = 0x20
	dir[26], dir[27] = byte(first), byte(first>>8)
	dir[28], dir[29], dir[30], dir[31] = byte(size), byte(size>>8), byte(size>>16), byte(size>>24)
	m := vpdev.NewMemDev("disk", -1)
	m.NoWrites = true
	dev := &c10Dev16{MemDev: m, dir: dir}
	fs := fat12.NewFileSystem(dev, nil, tbl, c10f16DataStart, c10f16Bpc, 1<<30, c10f16Start, c10f16RootOff, 1, 0x200, 0x400)

	f, err := fs.OpenFile("/FILE.TXT", os.O_RDONLY)
	vp.Assert(err == nil, "the file is found")
	off := int64(vp.U64("offset") >> 1)
	pos, err := f.Seek(off, io.SeekStart)
	vp.Assert(err == nil, "Seek to a non-negative position succeeds")
	vp.Assert(pos == off, "Seek reports the new position")

	buf := vp.Bytes("buf", N)
	orig := make([]byte, N)
	copy(orig, buf)
	k := vp.Int("len")
	vp.Assume(k >= 0)
	vp.Assume(k <= N)

	rem := int64(size) - off
	if rem < 0 {
		rem = 0
	}
	want := int64(k)
	if rem < want {
		want = rem
	}
	inCl := int64(uint64(off) % c10f16Bpc)
	kf1 := inCl != 0 && off < int64(size) && rem < int64(k) && rem < c10f16Bpc-inCl

	vp.Unwind(L + 3)
	vp.NoPanic()
	n, err := f.Read(buf[:k])
	vp.AllowPanic()
	vp.Unwind(16)

	vp.AssertUnless("KF-C10-1", kf1, int64(n) == want, "n = min(len(b), bytes remaining)")
	cur, err2 := f.Seek(0, io.SeekCurrent)
	vp.Assert(err2 == nil, "Seek(0, SeekCurrent) succeeds")
	vp.AssertUnless("KF-C10-1", kf1, cur == off+want, "cursor advances by the bytes delivered")
	for i := 0; i < N; i++ {
		if int64(i) < want {
			p := off + int64(i)
			idx := int64(uint64(p) / c10f16Bpc)
			cl := chain[0]
			for j := 1; j < L; j++ {
				cl = vp.IteU32(idx == int64(j), chain[j], cl)
			}
			addr := c10f16Start + int64(c10f16DataStart) + int64(cl-2)*c10f16Bpc + int64(uint64(p)%c10f16Bpc)
			vp.Assert(buf[i] == dev.ByteAt(addr), "delivered byte = file byte at cursor+i")
		} else {
			vp.AssertUnless("KF-C10-1", kf1, buf[i] == orig[i], "buffer beyond n is untouched")
		}
	}
	if err == io.EOF {
		vp.Assert(off+want >= int64(size), "io.EOF only when the end is reached")
		vp.Cover("EOF reported")
	}
	if k > 0 {
		vp.Assert(err == nil || err == io.EOF, "no error other than io.EOF on a well-formed file")
		if want == 0 {
			vp.Assert(err == io.EOF, "a zero-byte read into a non-empty buffer reports io.EOF")
			vp.Cover("read at or past the end")
		}
		if want == int64(k) {
			if off+want < int64(size) {
				vp.Assert(err == nil, "a full read that stops before the end reports no error")
				vp.Cover("full read before the end")
			}
		} else if want > 0 {
			vp.Cover("short read at the end")
		}
	} else {
		vp.Cover("empty buffer")
	}
}

func VP_C10_fat16_read_L1() { c10Fat16Read(1) }
func VP_C10_fat16_read_L2() { c10Fat16Read(2) }
func VP_C10_fat16_read_L3() {
	if vp.Thorough() {
		c10Fat16Read(3)
	}
}

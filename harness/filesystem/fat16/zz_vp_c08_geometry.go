package fat16

import (
	"github.com/diskfs/go-diskfs/backend"
	"github.com/diskfs/go-diskfs/internal/vp"
	"github.com/diskfs/go-diskfs/internal/vp/vpdev"
)

// geomDev ends the run at the first WriteAt (the boot sector written by Create) after checking
// the bytes the way an independent reader of the raw image would (FAT16 geometry).
type geomDev16 struct {
	*vpdev.MemDev
	size, start int64
}

func (d *geomDev16) Writable() (backend.WritableFile, error) { return d, nil }

func g1616(p []byte, o int) int64 { return int64(p[o]) | int64(p[o+1])<<8 }
func g1632(p []byte, o int) int64 {
	return int64(p[o]) | int64(p[o+1])<<8 | int64(p[o+2])<<16 | int64(p[o+3])<<24
}

func (d *geomDev16) WriteAt(p []byte, off int64) (int, error) {
	vp.Assert(off == d.start, "the boot sector is written at the start of the assigned range")
	vp.Assert(len(p) == 512, "boot sector is one sector")
	bps := g1616(p, 11)
	spc := int64(p[13])
	reserved := g1616(p, 14)
	nfats := int64(p[16])
	rootEnt := g1616(p, 17)
	ts16 := g1616(p, 19)
	spf := g1616(p, 22)
	ts32 := g1632(p, 32)
	vp.Assert(p[510] == 0x55, "boot signature 55")
	vp.Assert(p[511] == 0xaa, "boot signature AA")
	vp.Assert(bps == 512, "bytes per sector 512")
	vp.Assert(spc >= 1, "sectors per cluster >= 1")
	vp.Assert(spc&(spc-1) == 0, "sectors per cluster is a power of two")
	vp.Assert(nfats == 2, "two FATs")
	vp.Assert(reserved >= 1, "at least the boot sector is reserved")
	vp.Assert(rootEnt > 0, "fixed root directory")
	vp.Assert(rootEnt*32%512 == 0, "root directory fills whole sectors")
	total := ts16
	if ts16 == 0 {
		total = ts32
	} else {
		vp.Assert(ts32 == 0, "only one of the two total-sector fields is used")
	}
	vp.Assert(total*bps <= d.size, "the recorded volume does not exceed the range given")
	vp.Assert(total == d.size/512, "total sectors = size / sector size")
	rootSectors := rootEnt * 32 / 512
	dataSectors := total - reserved - nfats*spf - rootSectors
	vp.Assert(dataSectors > 0, "there is a data area")
	clusters := dataSectors / spc
	vp.Assert(clusters >= 4085, "cluster count at least the minimum of FAT16")
	vp.Assert(clusters < 65525, "cluster count below the limit of FAT16")
	entries := spf * 512 * 8 / 16
	vp.Assert(entries >= clusters+2, "each FAT has an entry for every data cluster (+2 reserved)")
	vp.Observe("clusters", uint64(clusters))
	vp.Stop("boot sector geometry checked")
	return len(p), nil
}

func c08Geometry16(lo, hi int64) {
	size := vp.I64("size")
	start := vp.I64("start")
	vp.Assume(size >= lo)
	vp.Assume(size <= hi)
	vp.Assume(start >= 0)
	vp.Assume(start <= 1<<44)
	vp.SparseAlloc(true)
	dev := &geomDev16{MemDev: vpdev.NewMemDev("disk", -1), size: size, start: start}
	_, err := Create(dev, size, start, 512, "LABEL", true)
	if err != nil {
		vp.Cover("Create refuses the size")
		return
	}
	vp.Assert(false, "Create returned without writing a boot sector")
}

func VP_C08_fat16_geometry_a() { c08Geometry16(0, 33554432) }
func VP_C08_fat16_geometry_b() { c08Geometry16(33554433, 134217728) }
func VP_C08_fat16_geometry_c() { c08Geometry16(134217729, 268435456) }
func VP_C08_fat16_geometry_d() { c08Geometry16(268435457, 536870912) }
func VP_C08_fat16_geometry_e() { c08Geometry16(536870913, 1073741824) }
func VP_C08_fat16_geometry_f() { c08Geometry16(1073741825, 2147483648) }


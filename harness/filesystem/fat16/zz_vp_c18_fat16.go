package fat16

import (
	"encoding/binary"
	"io"
	"runtime"

	"github.com/diskfs/go-diskfs/internal/vp"
	"github.com/diskfs/go-diskfs/internal/vp/vpdev"
)

// c18Slack: allocations up to twice the image size plus this constant count as "in proportion
// to the image" (the readers legitimately use fixed buffers of a few KiB).
const c18Slack = 64 << 10

// c18Dev is an image whose every byte is arbitrary. Symbolically it is a vpdev.MemDev with
// uninterpreted content; natively the content is materialised once so that reads do not allocate
// (the native run measures the heap to confirm allocation counterexamples).
type c18Dev struct {
	vpdev.MemDev
	img []byte
}

func c18NewDev(name string, size int64) *c18Dev {
	d := &c18Dev{}
	d.Name, d.Size, d.UF, d.NoWrites = name, size, true, true
	if !vp.Symbolic() {
		d.img = make([]byte, size)
		for i := range d.img {
			d.img[i] = vp.UFByte(name, int64(i))
		}
	}
	return d
}

func (d *c18Dev) ReadAt(p []byte, off int64) (int, error) {
	if vp.Symbolic() {
		return d.MemDev.ReadAt(p, off)
	}
	if off < 0 || off >= d.Size {
		return 0, io.EOF
	}
	n := copy(p, d.img[off:])
	if n < len(p) {
		return n, io.EOF
	}
	return n, nil
}

// c18AllocBegin/End: the native counterpart of vp.AllocLimit (which only the engine checks):
// more than limit bytes allocated between the two calls is a panic of the NoPanic region.
func c18AllocBegin() uint64 {
	if vp.Symbolic() {
		return 0
	}
	var m runtime.MemStats
	runtime.ReadMemStats(&m)
	return m.TotalAlloc
}

func c18AllocEnd(t0, limit uint64) {
	if vp.Symbolic() {
		return
	}
	var m runtime.MemStats
	runtime.ReadMemStats(&m)
	if m.TotalAlloc-t0 > limit {
		panic("allocation out of proportion to the image size")
	}
}

// c18ReadGeom: fat16.Read on an image of the given size whose every byte is arbitrary:
// no panic, no allocation beyond 2*size+slack elements.
func c18ReadGeom(size int64) {
	dev := c18NewDev("img", size)
	limit := uint64(2*size + c18Slack)
	vp.Unwind(20)
	vp.AllocCap(vp.Bound("alloccap", 48, 96))
	vp.AllocLimit(limit)
	vp.NoPanic()
	t0 := c18AllocBegin()
	fs, err := Read(dev, size, 0, 0)
	c18AllocEnd(t0, limit)
	vp.AllowPanic()
	if err == nil {
		vp.Assert(fs != nil, "filesystem returned")
		vp.Cover("arbitrary image accepted as FAT16")
	} else {
		vp.Cover("arbitrary image rejected")
	}
}

func VP_C18_fat16_read_64k() { c18ReadGeom(64 << 10) }
func VP_C18_fat16_read_600() { c18ReadGeom(600) }

// c18Table16: 16-bit FATTable.FromBytes for a FAT of n bytes with arbitrary content.
func c18Table16(n int) {
	b := vp.Bytes("fat", n)
	vp.Unwind(n + 4)
	vp.NoPanic()
	t := newFat16Table(0xFFF8, uint32(n))
	t.FromBytes(b)
	vp.AllowPanic()
	vp.Assert(int(t.MaxCluster()) == n/2, "highest cluster index = number of whole 16-bit entries")
	for i := 2; i < n/2; i++ {
		vp.Assert(t.ClusterValue(uint32(i)) == uint32(binary.LittleEndian.Uint16(b[2*i:])), "entry decoded per the 16-bit layout")
	}
	// contract the chain walker relies on: it rejects links above MaxCluster() and indexes every other value
	idx := vp.U32("idx")
	vp.Assume(idx <= t.MaxCluster())
	vp.NoPanic()
	_ = t.ClusterValue(idx)
	t.SetCluster(idx, t.EOCMarker())
	vp.AllowPanic()
	vp.Cover("table decoded")
}

func VP_C18_fat16_table_0()  { c18Table16(0) }
func VP_C18_fat16_table_1()  { c18Table16(1) }
func VP_C18_fat16_table_3()  { c18Table16(3) }
func VP_C18_fat16_table_4()  { c18Table16(4) }
func VP_C18_fat16_table_5()  { c18Table16(5) }
func VP_C18_fat16_table_33() { c18Table16(33) }

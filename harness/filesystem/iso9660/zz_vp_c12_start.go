package iso9660

import (
	"os"

	"github.com/diskfs/go-diskfs/backend"
	"github.com/diskfs/go-diskfs/internal/vp"
	"github.com/diskfs/go-diskfs/internal/vp/vpdev"
)

// ---------------------------------------------------------------------------------------
// C12.iso_range: an ISO filesystem created in a range that starts at `start` (a partition) is
// looked for by iso9660.Read - and hence by Disk.GetFilesystem - at start+32768 (the volume
// descriptors) behind a system area at start. Finalize therefore has to begin the image at
// `start`: its first write (blanking the system area) must land at the start of the range.
// `start` and the range size are symbolic; the run ends at that first write (the rest of
// Finalize walks an OS directory and is outside the encoder).
// ---------------------------------------------------------------------------------------

type c12FinalDev struct {
	*vpdev.MemDev
	start, size int64
}

func (d *c12FinalDev) Writable() (backend.WritableFile, error) { return d, nil }

func (d *c12FinalDev) WriteAt(p []byte, off int64) (int, error) {
	vp.Cover("Finalize writes the system area")
	vp.Assert(len(p) == 32768, "the first write blanks the 32 KiB system area")
	vp.AssertUnless("KF-C12-1", d.start != 0, off == d.start, "the image begins at the start of the range it was created in")
	vp.Stop("first write of Finalize observed")
	return len(p), nil
}

func VP_C12_iso_range_finalize() {
	start := vp.I64("start")
	size := vp.I64("size")
	vp.Assume(start >= 0)
	vp.Assume(start <= 1<<44)
	vp.Assume(size >= 1<<20)
	vp.Assume(size <= 1<<40)
	dev := &c12FinalDev{MemDev: vpdev.NewMemDev("disk", -1), start: start, size: size}
	// the real Create on an existing (empty) workspace directory
	ws := "/tmp/vp-c12-workspace"
	_ = os.MkdirAll(ws, 0o755)
	fs, err := Create(dev, size, start, 2048, ws)
	vp.Assert(err == nil, "Create accepts the range")
	err = fs.Finalize(FinalizeOptions{})
	if err != nil {
		vp.Cover("Finalize refused before writing")
		return
	}
	vp.Assert(false, "Finalize returned without writing")
}

// the reader's side of the same contract: the first thing iso9660.Read looks at is the
// system area at `start`, then the volume descriptors from start+32768 on.
type c12ReadDev struct {
	vpdev.MemDev
	start int64
	reads int
	ok    bool
}

func (d *c12ReadDev) ReadAt(p []byte, off int64) (int, error) {
	d.reads++
	if d.reads == 1 {
		d.ok = off == d.start
		return len(p), nil // zeros
	}
	if d.reads == 2 {
		d.ok = d.ok && off == d.start+32768
	}
	return 0, vpdev.ErrOther
}

func VP_C12_iso_range_read() {
	start := vp.I64("start")
	size := vp.I64("size")
	vp.Assume(start >= 0)
	vp.Assume(start <= 1<<44)
	vp.Assume(size >= 1<<20)
	vp.Assume(size <= 1<<40)
	dev := &c12ReadDev{start: start}
	dev.Size = -1
	_, err := Read(dev, size, start, 2048)
	vp.Assert(err != nil, "the device fails the second read")
	vp.Assert(dev.reads == 2, "system area, then the first volume descriptor")
	vp.Assert(dev.ok, "iso9660.Read looks for the image at the start of the range: system area at start, descriptors at start+32768")
	vp.Cover("iso9660.Read probed")
}

package iso9660

import (
	"io"
	"os"

	"github.com/diskfs/go-diskfs/internal/vp"
	"github.com/diskfs/go-diskfs/internal/vp/vpdev"
	"github.com/diskfs/go-diskfs/internal/vp/vphost"
)

// C06.host_*: the REAL Create + Finalize + Read of iso9660. The host workspace is the in-memory model
// vphost in the engine (file sizes, contents, permission bits and times are solver variables) and a real
// temporary directory natively. Asserted: the image opened with iso9660.Read contains exactly the tree
// that was put into the workspace (names as the library documents them: without Rock Ridge the 8.3
// upper-case identifier with the ";1" and a trailing "." stripped, with Rock Ridge the original name).

const c06HostDevSize = 1 << 20

// c06HostRead reads file p of fs completely (at most max bytes).
func c06HostRead(fs *FileSystem, p string, max int) ([]byte, error) {
	f, err := fs.OpenFile(p, os.O_RDONLY)
	if err != nil {
		return nil, err
	}
	buf := make([]byte, max+1)
	total := 0
	for k := 0; k < 4 && total < len(buf); k++ {
		n, err := f.Read(buf[total:])
		total += n
		if err == io.EOF {
			break
		}
		if err != nil {
			return nil, err
		}
		if n == 0 {
			break
		}
	}
	return buf[:total], nil
}

// c06HostCreate: the real Create with a temporary workspace (os.MkdirTemp: vphost in the engine).
func c06HostCreate(disk *vpdev.MemDev, start int64) (*FileSystem, string) {
	fs, err := Create(disk, c06HostDevSize, start, 2048, "")
	vp.Assert(err == nil, "Create succeeds")
	if err != nil {
		return nil, ""
	}
	return fs, fs.Workspace()
}

// c06HostFinalizeRead: the real Finalize, then the real Read of what Finalize wrote.
func c06HostFinalizeRead(fs *FileSystem, disk *vpdev.MemDev, start int64, opts FinalizeOptions) *FileSystem {
	err := fs.Finalize(opts)
	if err != nil && !vp.Symbolic() {
		println("FINALIZE ERROR:", err.Error())
	}
	vp.Assert(err == nil, "Finalize succeeds")
	if err != nil {
		return nil
	}
	disk.NoWrites = true
	rd, err := Read(disk, c06HostDevSize, start, 2048)
	if err != nil && !vp.Symbolic() {
		println("READ ERROR:", err.Error())
	}
	vp.Assert(err == nil, "finalized image opens")
	if err != nil {
		return nil
	}
	return rd
}

// c06HostNames: the names of a listing, in listing order.
func c06HostNames(rd *FileSystem, dir string) ([]string, bool) {
	ents, err := rd.ReadDir(dir)
	if err != nil && !vp.Symbolic() {
		println("READDIR ERROR:", dir, err.Error())
	}
	vp.Assert(err == nil, "directory listed")
	if err != nil {
		return nil, false
	}
	out := make([]string, 0, len(ents))
	for _, e := range ents {
		out = append(out, e.Name())
	}
	return out, true
}

// c06HostSmall: a.txt (0..9 arbitrary bytes), sub/ with b (0..6 arbitrary bytes) and - with Rock Ridge - a
// symbolic link l -> a.txt.
func c06HostSmall(rr bool) {
	vp.HostFS()
	disk := vpdev.NewMemDev("disk", -1)
	fs, ws := c06HostCreate(disk, 0)
	if fs == nil {
		return
	}
	const capA, capB = 9, 6
	asize, bsize := vp.Int("asize"), vp.Int("bsize")
	vp.Assume(asize >= 0)
	vp.Assume(asize <= capA)
	vp.Assume(bsize >= 0)
	vp.Assume(bsize <= capB)
	a, b := vp.Bytes("a", capA), vp.Bytes("b", capB)
	amode := os.FileMode(vp.U16("amode")) & 0o777
	mtime := int64(vp.U32("amtime"))
	vp.Assert(vphost.WriteFile(ws+"/a.txt", a[:asize], 0o644) == nil, "workspace file a.txt")
	vp.Assert(vphost.MkdirAll(ws+"/sub", 0o755) == nil, "workspace dir sub")
	vp.Assert(vphost.WriteFile(ws+"/sub/b", b[:bsize], 0o600) == nil, "workspace file sub/b")
	if rr {
		vp.Assert(vphost.Chmod(ws+"/a.txt", amode) == nil, "chmod a.txt")
		vp.Assert(vphost.Chtimes(ws+"/a.txt", mtime) == nil, "chtimes a.txt")
		vp.Assert(vphost.Symlink("a.txt", ws+"/l") == nil, "workspace symlink l")
	}
	vp.Unwind(24)
	vp.AllocCap(64)
	rd := c06HostFinalizeRead(fs, disk, 0, FinalizeOptions{RockRidge: rr})
	if rd == nil {
		return
	}
	nameA, nameSub, nameB := "A.TXT", "SUB", "B"
	if rr {
		nameA, nameSub, nameB = "a.txt", "sub", "b"
	}
	ents, err := rd.ReadDir(".")
	vp.Assert(err == nil, "root listing")
	if err != nil {
		return
	}
	want := 2
	if rr {
		want = 3
	}
	vp.Assert(len(ents) == want, "root has exactly the entries of the workspace")
	if len(ents) != want {
		return
	}
	// the listing is in directory order: a.txt, (l,) sub
	ia, isub := 0, want-1
	vp.Assert(ents[ia].Name() == nameA, "entry a.txt")
	vp.Assert(ents[isub].Name() == nameSub, "entry sub")
	vp.Assert(ents[isub].IsDir(), "sub is a directory")
	vp.Assert(!ents[ia].IsDir(), "a.txt is not a directory")
	fi, err := ents[ia].Info()
	vp.Assert(err == nil, "info of a.txt")
	if err == nil {
		vp.Assert(fi.Size() == int64(asize), "size of a.txt")
		if rr {
			vp.Assert(fi.Mode().Perm() == amode, "permission bits of a.txt")
			vp.Assert(fi.Mode().IsRegular(), "a.txt is a regular file")
			vp.Assert(fi.ModTime().Unix() == mtime, "mtime of a.txt")
		}
	}
	if rr {
		vp.Assert(ents[1].Name() == "l", "entry l")
		vp.Assert(!ents[1].IsDir(), "l is not a directory")
		if de, ok := ents[1].(*directoryEntry); ok {
			tgt, isLink := de.ReadLink()
			vp.Assert(isLink, "l is a symbolic link")
			vp.Assert(tgt == "a.txt", "ReadLink target of l")
		} else {
			vp.Assert(false, "listed entries are *directoryEntry")
		}
		if li, err := ents[1].Info(); err == nil {
			vp.Assert(li.Mode()&os.ModeSymlink != 0, "mode of l says symbolic link")
			if st, ok := li.Sys().(*StatT); ok {
				vp.Assert(st.LinkTarget == "a.txt", "Sys().LinkTarget of l")
				vp.Assert(st.RockRidge, "Sys() says Rock Ridge")
			} else {
				vp.Assert(false, "Sys() of a listed entry is *StatT")
			}
		}
	}
	got, err := c06HostRead(rd, nameA, capA)
	vp.Assert(err == nil, "a.txt readable")
	vp.Assert(len(got) == asize, "a.txt length")
	for i := 0; i < capA && i < len(got); i++ {
		vp.Assert(got[i] == a[i], "a.txt content")
	}
	got, err = c06HostRead(rd, nameSub+"/"+nameB, capB)
	vp.Assert(err == nil, "sub/b readable")
	vp.Assert(len(got) == bsize, "sub/b length")
	for i := 0; i < capB && i < len(got); i++ {
		vp.Assert(got[i] == b[i], "sub/b content")
	}
	sub, err := rd.ReadDir(nameSub)
	vp.Assert(err == nil, "listing of sub")
	vp.Assert(len(sub) == 1, "sub has exactly b")
	if len(sub) == 1 {
		vp.Assert(sub[0].Name() == nameB, "entry sub/b")
		vp.Assert(!sub[0].IsDir(), "sub/b is not a directory")
		if fi, err := sub[0].Info(); err == nil {
			vp.Assert(fi.Size() == int64(bsize), "size of sub/b")
			if rr {
				vp.Assert(fi.Mode().Perm() == 0o600, "permission bits of sub/b")
			}
		}
	}
	vp.Cover("tree read back")
}

func VP_C06_host_plain_small()     { c06HostSmall(false) }
func VP_C06_host_rockridge_small() { c06HostSmall(true) }

package iso9660

import (
	"io"
	"os"
	"time"

	"github.com/diskfs/go-diskfs/internal/vp"
	"github.com/diskfs/go-diskfs/internal/vp/vpdev"
	"github.com/diskfs/go-diskfs/internal/vp/vphost"
)

// C06.host_*: the REAL Create + Finalize + Read of iso9660. The host workspace is the in-memory model
// vphost in the engine (file sizes, contents, permission bits and times are solver variables) and a real
// temporary directory natively. Asserted: the image opened with iso9660.Read contains exactly the tree
// that was put into the workspace (names as the library documents them: without Rock Ridge the 8.3
// upper-case identifier with the ";1" and a trailing "." stripped, with Rock Ridge the original name).

const c06HostDevSize = 1 << 20

// c06HostNow: Finalize stamps the volume descriptors with time.Now() as 17-byte decimal dates (strconv/fmt on
// write, time.Parse on read); the engine runs with this clock value (2024-02-29 23:59:58 UTC), natively the
// real clock is used. Nothing asserted here depends on those dates.
const c06HostNow = 1709251198

// c06HostRead reads file p of fs completely (at most max bytes).
func c06HostRead(fs *FileSystem, p string, max int) ([]byte, error) {
	f, err := fs.OpenFile(p, os.O_RDONLY)
	if err != nil {
		return nil, err
	}
	buf := make([]byte, max+1)
	total := 0
	for k := 0; k < 4 && total < len(buf); k++ {
		n, err := f.Read(buf[total:])
		total += n
		if err == io.EOF {
			break
		}
		if err != nil {
			return nil, err
		}
		if n == 0 {
			break
		}
	}
	return buf[:total], nil
}

// c06HostCreate: the real Create with a temporary workspace (os.MkdirTemp: vphost in the engine).
func c06HostCreate(disk *vpdev.MemDev, start int64) (*FileSystem, string) {
	fs, err := Create(disk, c06HostDevSize, start, 2048, "")
	vp.Assert(err == nil, "Create succeeds")
	if err != nil {
		return nil, ""
	}
	return fs, fs.Workspace()
}

// c06HostFinalizeRead: the real Finalize, then the real Read of what Finalize wrote.
func c06HostFinalizeRead(fs *FileSystem, disk *vpdev.MemDev, start int64, opts FinalizeOptions) *FileSystem {
	err := fs.Finalize(opts)
	if err != nil && !vp.Symbolic() {
		println("FINALIZE ERROR:", err.Error())
	}
	vp.Assert(err == nil, "Finalize succeeds")
	if err != nil {
		return nil
	}
	disk.NoWrites = true
	// Finalize begins with one write of 32 KiB zeros (the system area), Read fetches those 32 KiB in one call
	// and ignores them: c06Dev (zz_vp_c06_read.go) delivers that one read as zeros without evaluating 32768
	// device bytes against every write record (about 8 of the 30 million steps a harness may take)
	vp.Assert(len(disk.Log) > 0, "Finalize wrote")
	if len(disk.Log) == 0 {
		return nil
	}
	vp.Assert(disk.Log[0].Off == start, "first write of Finalize at the start of the image")
	vp.Assert(disk.Log[0].Len == int(systemAreaSize), "first write of Finalize covers the system area")
	rd, err := Read(&c06Dev{MemDev: disk, sysStart: start}, c06HostDevSize, start, 2048)
	if err != nil && !vp.Symbolic() {
		println("READ ERROR:", err.Error())
	}
	vp.Assert(err == nil, "finalized image opens")
	if err != nil {
		return nil
	}
	return rd
}

// c06HostSmall: a.txt (asize arbitrary bytes), sub/ with b (bsize arbitrary bytes) and - with Rock Ridge - a
// symbolic link l -> a.txt, a.txt with arbitrary permission bits and an arbitrary modification time.
// The LENGTHS are concrete per variant (0, 1 and the maximum 9 / 6), the contents are solver variables: with a
// length that is a solver variable Finalize issues writes of symbolic length at symbolic offsets (the data and
// the padding make([]byte, 2048-size%2048) of the last block), an empty file occupies no block (every later
// extent location becomes symbolic), and each of the ~40000 device bytes fetched by Read then costs solver
// calls (measured: > 15 min).
func c06HostSmall(rr bool, asize, bsize int) {
	vp.HostFS()
	vp.FixedNow(c06HostNow)
	disk := vpdev.NewMemDev("disk", -1)
	fs, ws := c06HostCreate(disk, 0)
	if fs == nil {
		return
	}
	const capA, capB = 9, 6
	a, b := vp.Bytes("a", capA), vp.Bytes("b", capB)
	amode := os.FileMode(vp.U16("amode")) & 0o777
	mtime := int64(vp.U32("amtime"))
	// the permission bits go in through WriteFile (mode = amode, a term whose type bits are syntactically 0)
	// rather than through Chmod (mode = old&^bits | amode&bits: the engine does not see that the type bits of
	// that term are 0 and runs Finalize's IsDir()/ModeSymlink tests on a.txt down both arms)
	aperm := os.FileMode(0o644)
	if rr {
		aperm = amode
	}
	vp.Assert(vphost.WriteFile(ws+"/a.txt", a[:asize], aperm) == nil, "workspace file a.txt")
	vp.Assert(vphost.MkdirAll(ws+"/sub", 0o755) == nil, "workspace dir sub")
	vp.Assert(vphost.WriteFile(ws+"/sub/b", b[:bsize], 0o600) == nil, "workspace file sub/b")
	vp.Assert(vphost.Chtimes(ws+"/a.txt", mtime) == nil, "chtimes a.txt")
	if rr {
		vp.Assert(vphost.Symlink("a.txt", ws+"/l") == nil, "workspace symlink l")
	}
	vp.Unwind(24)
	rd := c06HostFinalizeRead(fs, disk, 0, FinalizeOptions{RockRidge: rr})
	if rd == nil {
		return
	}
	nameA, nameSub, nameB := "A.TXT", "SUB", "B"
	if rr {
		nameA, nameSub, nameB = "a.txt", "sub", "b"
	}
	ents, err := rd.ReadDir(".")
	vp.Assert(err == nil, "root listing")
	if err != nil {
		return
	}
	want := 2
	if rr {
		want = 3
	}
	vp.Assert(len(ents) == want, "root has exactly the entries of the workspace")
	if len(ents) != want {
		return
	}
	// the listing is in directory order: a.txt, (l,) sub
	ia, isub := 0, want-1
	vp.Assert(ents[ia].Name() == nameA, "entry a.txt")
	vp.Assert(ents[isub].Name() == nameSub, "entry sub")
	vp.Assert(ents[isub].IsDir(), "sub is a directory")
	vp.Assert(!ents[ia].IsDir(), "a.txt is not a directory")
	fi, err := ents[ia].Info()
	vp.Assert(err == nil, "info of a.txt")
	if err == nil {
		vp.Assert(fi.Size() == int64(asize), "size of a.txt")
		if rr {
			vp.Assert(fi.Mode().Perm() == amode, "permission bits of a.txt")
			vp.Assert(fi.Mode().IsRegular(), "a.txt is a regular file")
		}
		// the modification time is the recording date of the directory record (with and without Rock Ridge):
		// 7 civil-time bytes. The engine's calendar is a contract model (Year..Second of a second count and the
		// second count of a civil date are uninterpreted functions), so the expected value is rebuilt from the
		// same civil components (natively exp == time.Unix(mtime, 0)). Every uint32 second count lies in the
		// years 1970..2106 (a fact of the calendar, stated for the engine).
		wt := time.Unix(mtime, 0).UTC()
		vp.Assume(wt.Year() >= 1970)
		vp.Assume(wt.Year() <= 2106)
		exp := time.Date(wt.Year(), wt.Month(), wt.Day(), wt.Hour(), wt.Minute(), wt.Second(), 0, time.UTC)
		vp.Assert(fi.ModTime().Unix() == exp.Unix(), "mtime of a.txt")
	}
	if rr {
		vp.Assert(ents[1].Name() == "l", "entry l")
		vp.Assert(!ents[1].IsDir(), "l is not a directory")
		if de, ok := ents[1].(*directoryEntry); ok {
			tgt, isLink := de.ReadLink()
			vp.Assert(isLink, "l is a symbolic link")
			vp.Assert(tgt == "a.txt", "ReadLink target of l")
		} else {
			vp.Assert(false, "listed entries are *directoryEntry")
		}
		if li, err := ents[1].Info(); err == nil {
			vp.Assert(li.Mode()&os.ModeSymlink != 0, "mode of l says symbolic link")
			if st, ok := li.Sys().(*StatT); ok {
				vp.Assert(st.LinkTarget == "a.txt", "Sys().LinkTarget of l")
				vp.Assert(st.RockRidge, "Sys() says Rock Ridge")
			} else {
				vp.Assert(false, "Sys() of a listed entry is *StatT")
			}
		}
	}
	got, err := c06HostRead(rd, nameA, capA)
	vp.Assert(err == nil, "a.txt readable")
	vp.Assert(len(got) == asize, "a.txt length")
	for i := 0; i < capA && i < len(got); i++ {
		vp.Assert(got[i] == a[i], "a.txt content")
	}
	got, err = c06HostRead(rd, nameSub+"/"+nameB, capB)
	vp.Assert(err == nil, "sub/b readable")
	vp.Assert(len(got) == bsize, "sub/b length")
	for i := 0; i < capB && i < len(got); i++ {
		vp.Assert(got[i] == b[i], "sub/b content")
	}
	sub, err := rd.ReadDir(nameSub)
	vp.Assert(err == nil, "listing of sub")
	vp.Assert(len(sub) == 1, "sub has exactly b")
	if len(sub) == 1 {
		vp.Assert(sub[0].Name() == nameB, "entry sub/b")
		vp.Assert(!sub[0].IsDir(), "sub/b is not a directory")
		if fi, err := sub[0].Info(); err == nil {
			vp.Assert(fi.Size() == int64(bsize), "size of sub/b")
			if rr {
				vp.Assert(fi.Mode().Perm() == 0o600, "permission bits of sub/b")
			}
		}
	}
	vp.Cover("tree read back")
}

func VP_C06_host_plain_small()           { c06HostSmall(false, 9, 6) }
func VP_C06_host_plain_small_1()         { c06HostSmall(false, 1, 1) }
func VP_C06_host_plain_small_empty()     { c06HostSmall(false, 0, 0) }
func VP_C06_host_plain_small_mixed()     { c06HostSmall(false, 0, 6) }
func VP_C06_host_rockridge_small()       { c06HostSmall(true, 9, 6) }
func VP_C06_host_rockridge_small_1()     { c06HostSmall(true, 1, 1) }
func VP_C06_host_rockridge_small_empty() { c06HostSmall(true, 0, 0) }
func VP_C06_host_rockridge_small_mixed() { c06HostSmall(true, 9, 0) }

// c06HostFile: file p of the image reads back as exactly want.
func c06HostFile(rd *FileSystem, p string, want []byte) {
	got, err := c06HostRead(rd, p, len(want))
	if err != nil && !vp.Symbolic() {
		println("OPEN/READ ERROR:", p, err.Error())
	}
	vp.Assert(err == nil, "file readable")
	vp.Assert(len(got) == len(want), "file length as in the workspace")
	if len(got) != len(want) {
		return
	}
	for i := range want {
		vp.Assert(got[i] == want[i], "file content as in the workspace")
	}
}

// c06HostListing: directory dir of the image lists exactly the names want (in this order: Finalize keeps
// the lexical order of the workspace walk) with the given directory flags.
func c06HostListing(rd *FileSystem, dir string, want []string, isDir []bool) {
	ents, err := rd.ReadDir(dir)
	if err != nil && !vp.Symbolic() {
		println("READDIR ERROR:", dir, err.Error())
	}
	vp.Assert(err == nil, "directory listed")
	if err != nil {
		return
	}
	if len(ents) != len(want) && !vp.Symbolic() {
		println("LISTING of", dir, "has", len(ents), "entries, want", len(want))
	}
	vp.Assert(len(ents) == len(want), "directory lists exactly its own entries")
	if len(ents) != len(want) {
		return
	}
	for i := range want {
		if ents[i].Name() != want[i] && !vp.Symbolic() {
			println("LISTING of", dir, "entry", i, "is", ents[i].Name(), "want", want[i])
		}
		vp.Assert(ents[i].Name() == want[i], "entry name")
		vp.Assert(ents[i].IsDir() == isDir[i], "entry directory flag")
	}
}

// VP_C06_host_samename_subdirs: v1/docs/a.txt, v2/docs/b.txt, v3/docs/c.txt, v3/docs/sub/d.txt (three
// directories called docs with different parents): every directory at every level lists exactly its own
// entries and every file reads back its own content. Only the END-TO-END result counts here (the path
// table lookup getLocation itself is KF-C06-1; ReadDir falls back to the tree walk when the lookup finds
// nothing).
func VP_C06_host_samename_subdirs() {
	vp.HostFS()
	vp.FixedNow(c06HostNow)
	disk := vpdev.NewMemDev("disk", -1)
	fs, ws := c06HostCreate(disk, 0)
	if fs == nil {
		return
	}
	ca, cb, cc, cd := []byte("alpha-1"), []byte("bravo-22"), []byte("charlie-333"), []byte("delta-4444")
	vp.Assert(vphost.MkdirAll(ws+"/v1/docs", 0o755) == nil, "workspace dir v1/docs")
	vp.Assert(vphost.MkdirAll(ws+"/v2/docs", 0o755) == nil, "workspace dir v2/docs")
	vp.Assert(vphost.MkdirAll(ws+"/v3/docs/sub", 0o755) == nil, "workspace dir v3/docs/sub")
	vp.Assert(vphost.WriteFile(ws+"/v1/docs/a.txt", ca, 0o644) == nil, "workspace file a.txt")
	vp.Assert(vphost.WriteFile(ws+"/v2/docs/b.txt", cb, 0o644) == nil, "workspace file b.txt")
	vp.Assert(vphost.WriteFile(ws+"/v3/docs/c.txt", cc, 0o644) == nil, "workspace file c.txt")
	vp.Assert(vphost.WriteFile(ws+"/v3/docs/sub/d.txt", cd, 0o644) == nil, "workspace file d.txt")
	vp.Unwind(40)
	rd := c06HostFinalizeRead(fs, disk, 0, FinalizeOptions{})
	if rd == nil {
		return
	}
	d, f := true, false
	c06HostListing(rd, ".", []string{"V1", "V2", "V3"}, []bool{d, d, d})
	c06HostListing(rd, "V1", []string{"DOCS"}, []bool{d})
	c06HostListing(rd, "V2", []string{"DOCS"}, []bool{d})
	c06HostListing(rd, "V3", []string{"DOCS"}, []bool{d})
	c06HostListing(rd, "V1/DOCS", []string{"A.TXT"}, []bool{f})
	c06HostListing(rd, "V2/DOCS", []string{"B.TXT"}, []bool{f})
	c06HostListing(rd, "V3/DOCS", []string{"C.TXT", "SUB"}, []bool{f, d})
	c06HostListing(rd, "V3/DOCS/SUB", []string{"D.TXT"}, []bool{f})
	c06HostFile(rd, "V1/DOCS/A.TXT", ca)
	c06HostFile(rd, "V2/DOCS/B.TXT", cb)
	c06HostFile(rd, "V3/DOCS/C.TXT", cc)
	c06HostFile(rd, "V3/DOCS/SUB/D.TXT", cd)
	vp.Cover("tree with three directories called docs read back")
}

// c06HostColliding: sibling directories longdirname_alpha/ and longdirname_beta/ (both LONGDIRN after the
// 8-character upper-case cut), each with one distinct file, and sibling files longfilename_a.txt and
// longfilename_b.txt (both LONGFILE.TXT).
//   - plain image: the identifiers recorded in the root directory are pairwise distinct, the two directories
//     and the two files are all there and each one is reachable with its own content (which of the two
//     colliding names gets which number is the library's choice and not asserted);
//   - Rock Ridge: the original names.
func c06HostColliding(rr bool) {
	vp.HostFS()
	vp.FixedNow(c06HostNow)
	disk := vpdev.NewMemDev("disk", -1)
	fs, ws := c06HostCreate(disk, 0)
	if fs == nil {
		return
	}
	one, two := []byte("content of one"), []byte("CONTENT OF TWO!")
	fa, fb := []byte("file a"), []byte("FILE B.")
	vp.Assert(vphost.MkdirAll(ws+"/longdirname_alpha", 0o755) == nil, "workspace dir longdirname_alpha")
	vp.Assert(vphost.MkdirAll(ws+"/longdirname_beta", 0o755) == nil, "workspace dir longdirname_beta")
	vp.Assert(vphost.WriteFile(ws+"/longdirname_alpha/one.txt", one, 0o644) == nil, "workspace file one.txt")
	vp.Assert(vphost.WriteFile(ws+"/longdirname_beta/two.txt", two, 0o644) == nil, "workspace file two.txt")
	vp.Assert(vphost.WriteFile(ws+"/longfilename_a.txt", fa, 0o644) == nil, "workspace file longfilename_a.txt")
	vp.Assert(vphost.WriteFile(ws+"/longfilename_b.txt", fb, 0o644) == nil, "workspace file longfilename_b.txt")
	vp.Unwind(40)
	rd := c06HostFinalizeRead(fs, disk, 0, FinalizeOptions{RockRidge: rr})
	if rd == nil {
		return
	}
	if rr {
		d, f := true, false
		c06HostListing(rd, ".", []string{"longdirname_alpha", "longdirname_beta", "longfilename_a.txt", "longfilename_b.txt"}, []bool{d, d, f, f})
		c06HostListing(rd, "longdirname_alpha", []string{"one.txt"}, []bool{f})
		c06HostListing(rd, "longdirname_beta", []string{"two.txt"}, []bool{f})
		c06HostFile(rd, "longdirname_alpha/one.txt", one)
		c06HostFile(rd, "longdirname_beta/two.txt", two)
		c06HostFile(rd, "longfilename_a.txt", fa)
		c06HostFile(rd, "longfilename_b.txt", fb)
		vp.Cover("colliding names read back under Rock Ridge")
		return
	}
	ents, err := rd.ReadDir(".")
	vp.Assert(err == nil, "root listing")
	if err != nil {
		return
	}
	vp.Assert(len(ents) == 4, "root has exactly two directories and two files")
	if len(ents) != 4 {
		return
	}
	// identifiers as recorded (raw field of the directory record) and as listed: pairwise distinct, 8.3
	for i := 0; i < len(ents); i++ {
		de, ok := ents[i].(*directoryEntry)
		vp.Assert(ok, "listed entries are *directoryEntry")
		if !ok {
			return
		}
		if !vp.Symbolic() {
			println("ROOT ENTRY", i, de.filename, ents[i].Name())
		}
		for j := 0; j < i; j++ {
			vp.Assert(ents[j].(*directoryEntry).filename != de.filename, "recorded identifiers in one directory are pairwise distinct")
			vp.Assert(ents[j].Name() != ents[i].Name(), "listed names in one directory are pairwise distinct")
		}
		if ents[i].IsDir() {
			vp.Assert(len(ents[i].Name()) <= 8, "directory identifier at most 8 characters")
		} else {
			vp.Assert(len(ents[i].Name()) <= 12, "file identifier at most 8.3")
		}
	}
	seenOne, seenTwo, seenA, seenB := 0, 0, 0, 0
	for i := 0; i < len(ents); i++ {
		name := ents[i].Name()
		if ents[i].IsDir() {
			sub, err := rd.ReadDir(name)
			vp.Assert(err == nil, "colliding directory listed by its identifier")
			if err != nil {
				return
			}
			vp.Assert(len(sub) == 1, "colliding directory has exactly its one file")
			if len(sub) != 1 {
				return
			}
			switch sub[0].Name() {
			case "ONE.TXT":
				seenOne++
				c06HostFile(rd, name+"/ONE.TXT", one)
			case "TWO.TXT":
				seenTwo++
				c06HostFile(rd, name+"/TWO.TXT", two)
			default:
				vp.Assert(false, "file of a colliding directory is ONE.TXT or TWO.TXT")
			}
			continue
		}
		fi, err := ents[i].Info()
		vp.Assert(err == nil, "info of a colliding file")
		if err != nil {
			return
		}
		switch fi.Size() {
		case int64(len(fa)):
			seenA++
			c06HostFile(rd, name, fa)
		case int64(len(fb)):
			seenB++
			c06HostFile(rd, name, fb)
		default:
			vp.Assert(false, "size of a colliding file is that of longfilename_a.txt or longfilename_b.txt")
		}
	}
	vp.Assert(seenOne == 1, "longdirname_alpha (with one.txt) present exactly once")
	vp.Assert(seenTwo == 1, "longdirname_beta (with two.txt) present exactly once")
	vp.Assert(seenA == 1, "longfilename_a.txt present exactly once")
	vp.Assert(seenB == 1, "longfilename_b.txt present exactly once")
	vp.Cover("colliding names read back from the plain image")
}

func VP_C06_host_colliding_dirs()    { c06HostColliding(false) }
func VP_C06_host_colliding_dirs_rr() { c06HostColliding(true) }

// c06HostPattern: the content byte i of file k.
func c06HostPattern(k, i int) byte { return byte(i*29 + k*19 + i/253) }

// c06HostBoundary: a file of exactly one block (2048 bytes), a file of one block and one byte (2049), an
// empty file and a following small file: every file reads back with its size and its bytes (probe positions
// first/last/around the block boundary are solver variables, the rest a pattern), and the extents do not
// overlap (KF-C06-10, fixed: a whole extra zero block was written after files that end on a block boundary).
// Sizes are concrete (a symbolic length of this magnitude costs an ite per buffer byte per copy).
func c06HostBoundary(opts FinalizeOptions, names [4]string) {
	vp.HostFS()
	vp.FixedNow(c06HostNow)
	disk := vpdev.NewMemDev("disk", -1)
	fs, ws := c06HostCreate(disk, 0)
	if fs == nil {
		return
	}
	probes := []int{0, 1, 2046, 2047, 2048}
	mk := func(k, n int) []byte {
		b := make([]byte, n)
		for i := range b {
			b[i] = c06HostPattern(k, i)
		}
		for j, i := range probes {
			if i < n {
				b[i] = vp.U8("probe" + string(rune('0'+k)) + string(rune('a'+j)))
			}
		}
		return b
	}
	x, y, e, z := mk(1, 2048), mk(2, 2049), []byte{}, mk(3, 5)
	vp.Assert(vphost.WriteFile(ws+"/a.bin", x, 0o644) == nil, "workspace file a.bin")
	vp.Assert(vphost.WriteFile(ws+"/b.bin", y, 0o644) == nil, "workspace file b.bin")
	vp.Assert(vphost.WriteFile(ws+"/c.bin", e, 0o644) == nil, "workspace file c.bin")
	vp.Assert(vphost.WriteFile(ws+"/d.bin", z, 0o644) == nil, "workspace file d.bin")
	vp.Unwind(40)
	rd := c06HostFinalizeRead(fs, disk, 0, opts)
	if rd == nil {
		return
	}
	f := false
	c06HostListing(rd, ".", names[:], []bool{f, f, f, f})
	check := func(name string, want []byte) {
		got, err := c06HostRead(rd, name, len(want))
		vp.Assert(err == nil, "file readable")
		vp.Assert(len(got) == len(want), "file length as in the workspace")
		if len(got) != len(want) {
			return
		}
		for _, i := range probes {
			if i < len(want) {
				vp.Assert(got[i] == want[i], "file content at probe position")
			}
		}
		for i := 3; i < len(want); i += 89 {
			vp.Assert(got[i] == want[i], "file content on the 89-byte grid")
		}
	}
	check(names[0], x)
	check(names[1], y)
	check(names[2], e)
	check(names[3], z)
	// extents: inside the volume, behind the volume descriptors, pairwise disjoint
	ents, err := rd.ReadDir(".")
	if err != nil || len(ents) != 4 {
		return
	}
	var loc, blocks [4]int64
	for i := range ents {
		st, ok := ents[i].(*directoryEntry).Sys().(*StatT)
		vp.Assert(ok, "Sys() of a listed entry is *StatT")
		if !ok {
			return
		}
		fi, _ := ents[i].Info()
		loc[i] = int64(st.Location)
		blocks[i] = (fi.Size() + 2047) / 2048
		if blocks[i] > 0 {
			vp.Assert(loc[i] >= 18, "extent behind the volume descriptors")
			vp.Assert(loc[i]+blocks[i] <= int64(rd.volumes.primary.volumeSize), "extent inside the volume space")
		}
	}
	for i := 0; i < 4; i++ {
		for j := 0; j < i; j++ {
			if blocks[i] == 0 || blocks[j] == 0 {
				continue
			}
			disjoint := loc[i]+blocks[i] <= loc[j] || loc[j]+blocks[j] <= loc[i]
			vp.Assert(disjoint, "file extents do not overlap")
		}
	}
	vp.Cover("files around the block boundary read back")
}

func VP_C06_host_block_boundary() {
	c06HostBoundary(FinalizeOptions{}, [4]string{"A.BIN", "B.BIN", "C.BIN", "D.BIN"})
}

// the configuration KF-C06-10 was found in: with Joliet the Joliet root directory follows the file data
func VP_C06_host_block_boundary_joliet() {
	c06HostBoundary(FinalizeOptions{Joliet: true}, [4]string{"a.bin", "b.bin", "c.bin", "d.bin"})
}

// c06HostMultiSector: a directory big/ with n files f00.txt .. (empty, except the files `read`: two bytes, the
// second one a solver variable) whose records need more than one 2048-byte sector (a record never
// crosses a sector boundary: the rest of the sector is zero and the listing continues in the next one), next to
// a file in the root that follows all of them: big/ lists exactly its n files in order and every file reads
// back its own bytes (read: the files `read`, which include the last record of the first sector and the first
// of the second one - every OpenFile fetches the whole listing byte by byte from the device model).
func c06HostMultiSector(rr bool, n int, read []int) {
	vp.HostFS()
	vp.FixedNow(c06HostNow)
	disk := vpdev.NewMemDev("disk", -1)
	fs, ws := c06HostCreate(disk, 0)
	if fs == nil {
		return
	}
	vp.Assert(vphost.MkdirAll(ws+"/big", 0o755) == nil, "workspace dir big")
	names := make([]string, n)
	want := make([]string, n)
	isDir := make([]bool, n)
	data := make([][]byte, n)
	for i := 0; i < n; i++ {
		names[i] = "f" + string(rune('0'+i/10)) + string(rune('0'+i%10)) + ".txt"
		want[i] = names[i]
		if !rr {
			want[i] = "F" + names[i][1:3] + ".TXT"
		}
		// only the files that are read back have content: every non-empty file adds two write records (data,
		// padding) to the device model and every device byte fetched later is matched against every record
		data[i] = []byte{}
		for _, r := range read {
			if r == i {
				data[i] = []byte{byte(i + 1), vp.U8("probe" + names[i][1:3])}
			}
		}
		vp.Assert(vphost.WriteFile(ws+"/big/"+names[i], data[i], 0o644) == nil, "workspace file in big")
	}
	tail := []byte("the file after the big directory")
	vp.Assert(vphost.WriteFile(ws+"/tail.txt", tail, 0o644) == nil, "workspace file tail.txt")
	vp.Unwind(n + 40)
	rd := c06HostFinalizeRead(fs, disk, 0, FinalizeOptions{RockRidge: rr})
	if rd == nil {
		return
	}
	big, tailName := "BIG", "TAIL.TXT"
	if rr {
		big, tailName = "big", "tail.txt"
	}
	c06HostListing(rd, ".", []string{big, tailName}, []bool{true, false})
	c06HostListing(rd, big, want, isDir)
	// the listing really spans more than one sector
	if des, err := rd.readDirectory(big); err == nil && len(des) > 0 {
		vp.Assert(des[0].isSelf, "first record of big is its self entry")
		vp.Assert(des[0].size > 2048, "the records of big need more than one sector")
		// (Finalize records the end of the last record as the data length, not whole sectors as ECMA-119
		// 6.8.1.3 has it; the existing C06.dir_* harnesses take that layout as the reference, so do we)
	}
	for _, i := range read {
		c06HostFile(rd, big+"/"+want[i], data[i])
	}
	c06HostFile(rd, tailName, tail)
	vp.Cover("multi-sector directory read back")
}

// plain: self and parent 34 bytes each, 42 bytes per file record: records 0..46 in the first sector
func VP_C06_host_multisector_dir() { c06HostMultiSector(false, 60, []int{0, 46, 47, 59}) }

// Rock Ridge: self and parent 104 bytes each (PX, TF), 124 bytes per file record (PX, TF, NM): 0..13 in the first sector
func VP_C06_host_multisector_dir_rr() { c06HostMultiSector(true, 24, []int{0, 13, 14, 23}) }

// VP_C06_host_joliet_small: FinalizeOptions{Joliet: true} (no Rock Ridge): the image is read through the
// Joliet tree, names are preserved exactly (mixed case, blank, long): "Read Me first.txt", "Sub Dir/b.txt",
// "Sub Dir/Deeper Dir/c.txt" (the second level is the recorded finding KF-C06-2, here confirmed end to end).
func VP_C06_host_joliet_small() {
	vp.HostFS()
	vp.FixedNow(c06HostNow)
	disk := vpdev.NewMemDev("disk", -1)
	fs, ws := c06HostCreate(disk, 0)
	if fs == nil {
		return
	}
	ca, cb, cc := vp.Bytes("a", 7), []byte("bravo"), []byte("charlie")
	vp.Assert(vphost.MkdirAll(ws+"/Sub Dir/Deeper Dir", 0o755) == nil, "workspace dirs")
	vp.Assert(vphost.WriteFile(ws+"/Read Me first.txt", ca, 0o644) == nil, "workspace file Read Me first.txt")
	vp.Assert(vphost.WriteFile(ws+"/Sub Dir/b.txt", cb, 0o644) == nil, "workspace file b.txt")
	vp.Assert(vphost.WriteFile(ws+"/Sub Dir/Deeper Dir/c.txt", cc, 0o644) == nil, "workspace file c.txt")
	vp.Unwind(60)
	rd := c06HostFinalizeRead(fs, disk, 0, FinalizeOptions{Joliet: true})
	if rd == nil {
		return
	}
	vp.Assert(rd.jolietEnabled, "Joliet detected")
	d, f := true, false
	c06HostListing(rd, ".", []string{"Read Me first.txt", "Sub Dir"}, []bool{f, d})
	c06HostFile(rd, "Read Me first.txt", ca)
	c06HostListing(rd, "Sub Dir", []string{"Deeper Dir", "b.txt"}, []bool{d, f})
	c06HostFile(rd, "Sub Dir/b.txt", cb)
	vp.Cover("Joliet root and first level read back")
	// KF-C06-2 (open): Joliet directories below the first level are not found ("could not find Joliet directory")
	deep, err := rd.ReadDir("Sub Dir/Deeper Dir")
	vp.AssertUnless("KF-C06-2", true, err == nil, "Joliet directory of the second level listed")
	if err == nil {
		vp.Assert(len(deep) == 1, "Deeper Dir has exactly c.txt")
		if len(deep) == 1 {
			vp.Assert(deep[0].Name() == "c.txt", "entry c.txt")
		}
	}
	got, err := c06HostRead(rd, "Sub Dir/Deeper Dir/c.txt", len(cc))
	vp.AssertUnless("KF-C06-2", true, err == nil, "file in a Joliet directory of the second level readable")
	if err == nil {
		vp.Assert(len(got) == len(cc), "c.txt length")
		for i := 0; i < len(cc) && i < len(got); i++ {
			vp.Assert(got[i] == cc[i], "c.txt content")
		}
	}
	vp.Cover("Joliet second level read back")
}

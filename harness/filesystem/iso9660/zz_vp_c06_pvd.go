package iso9660

import (
	"encoding/binary"
	"time"

	"github.com/diskfs/go-diskfs/internal/vp"
)

func c06Both16(b []byte, v uint16) bool {
	return vp.IteU8(binary.LittleEndian.Uint16(b[0:2]) == v, 1, 0)&vp.IteU8(binary.BigEndian.Uint16(b[2:4]) == v, 1, 0) == 1
}

// c06PadOK: an identifier field holds the string followed only by filler (00 or 20).
func c06PadOK(field []byte, s string) bool {
	var bad byte
	for i := range field {
		if i < len(s) {
			bad |= field[i] ^ s[i]
		} else {
			bad |= vp.IteU8(field[i] == 0, 0, vp.IteU8(field[i] == 0x20, 0, 1))
		}
	}
	return bad == 0
}

// c06NullDates replaces the four 17-byte dates by "not specified" (16 digits zero + 0) before the
// descriptor is parsed: decBytesToTime goes through time.Parse with a numeric zone, which
// initialises time.Local from the process environment (syscall.runtime_envs) - not executable
// by the engine. The date codec belongs to C19; the encoded creation date is asserted above.
func c06NullDates(b []byte) {
	for k := 0; k < 4; k++ {
		for i := 0; i < 16; i++ {
			b[813+17*k+i] = '0'
		}
		b[813+17*k+16] = 0
	}
}

// VP_C06_pvd_roundtrip: the primary volume descriptor as Finalize fills it (ECMA-119 8.4):
// numeric fields arbitrary; independent decode of the 2048 bytes; parse gives the fields back.
func VP_C06_pvd_roundtrip() {
	vp.Unwind(200)
	now := time.Date(2024, 2, 29, 23, 59, 58, 0, time.UTC)
	f := &FileSystem{blocksize: 2048}
	root := &directoryEntry{location: vp.U32("rootloc"), size: vp.U32("rootsize"), creation: c06Time(), isSubdirectory: true,
		isSelf: true, volumeSequence: 1, filesystem: f}
	bsz := uint16(2048)
	if vp.Bool("bs4096") {
		bsz = 4096
	}
	pvd := &primaryVolumeDescriptor{
		volumeIdentifier: "MY_VOLUME_01", volumeSize: vp.U32("volsize"), setSize: 1, sequenceNumber: 1, blocksize: bsz,
		pathTableSize: vp.U32("ptsize"), pathTableLLocation: vp.U32("ptl"), pathTableMLocation: vp.U32("ptm"),
		publisherIdentifier: "A PUBLISHER", preparerIdentifier: "go-diskfs",
		creation: now, modification: now, expiration: now, effective: now, rootDirectoryEntry: root,
	}
	b := pvd.toBytes()
	vp.Assert(len(b) == 2048, "a volume descriptor is one 2048-byte sector")
	vp.Assert(b[0] == 1, "type 1 = primary")
	vp.Assert(string(b[1:6]) == "CD001", "standard identifier")
	vp.Assert(b[6] == 1, "descriptor version")
	vp.Assert(c06PadOK(b[40:72], "MY_VOLUME_01"), "volume identifier")
	vp.Assert(c06Both32(b[80:], pvd.volumeSize), "volume space size, both byte orders")
	vp.Assert(c06Both16(b[120:], 1), "volume set size")
	vp.Assert(c06Both16(b[124:], 1), "volume sequence number")
	vp.Assert(c06Both16(b[128:], bsz), "logical block size, both byte orders")
	vp.Assert(c06Both32(b[132:], pvd.pathTableSize), "path table size, both byte orders")
	vp.Assert(binary.LittleEndian.Uint32(b[140:]) == pvd.pathTableLLocation, "L path table location (little endian)")
	vp.Assert(binary.LittleEndian.Uint32(b[144:]) == 0, "no optional L path table")
	vp.Assert(binary.BigEndian.Uint32(b[148:]) == pvd.pathTableMLocation, "M path table location (big endian)")
	vp.Assert(binary.BigEndian.Uint32(b[152:]) == 0, "no optional M path table")
	// root directory record (34 bytes)
	r := b[156:190]
	vp.Assert(r[0] == 34, "root record length")
	vp.Assert(c06Both32(r[2:], root.location), "root extent, both byte orders")
	vp.Assert(c06Both32(r[10:], root.size), "root data length, both byte orders")
	vp.Assert(r[25] == 2, "root flags: directory")
	vp.Assert(c06Both16(r[28:], 1), "root volume sequence number")
	vp.Assert(r[32] == 1, "root identifier length")
	vp.Assert(r[33] == 0, "root identifier 00")
	vp.Assert(c06PadOK(b[318:446], "A PUBLISHER"), "publisher identifier")
	vp.Assert(string(b[813:829]) == "2024022923595800", "creation date and time")
	vp.Assert(b[829] == 0, "creation GMT offset")
	vp.Assert(b[881] == 1, "file structure version")
	vp.Cover("descriptor encoded")

	c06NullDates(b)
	vd, err := volumeDescriptorFromBytes(b)
	vp.Assert(err == nil, "descriptor accepted")
	got, ok := vd.(*primaryVolumeDescriptor)
	vp.Assert(ok, "parsed as primary volume descriptor")
	vp.Assert(got.volumeSize == pvd.volumeSize, "rt: volume size")
	vp.Assert(got.blocksize == bsz, "rt: block size")
	vp.Assert(got.pathTableSize == pvd.pathTableSize, "rt: path table size")
	vp.Assert(got.pathTableLLocation == pvd.pathTableLLocation, "rt: L path table")
	vp.Assert(got.pathTableMLocation == pvd.pathTableMLocation, "rt: M path table")
	vp.Assert(got.rootDirectoryEntry.location == root.location, "rt: root extent")
	vp.Assert(got.rootDirectoryEntry.size == root.size, "rt: root data length")
	vp.Assert(got.rootDirectoryEntry.isSubdirectory, "rt: root is a directory")
	vp.Assert(got.rootDirectoryEntry.isSelf, "rt: root identifier")
	vp.Assert(c06PadOK([]byte(got.volumeIdentifier), "MY_VOLUME_01"), "rt: volume identifier")
	vp.Cover("descriptor decoded")
}

// VP_C06_svd_roundtrip: the Joliet supplementary volume descriptor (type 2, escape sequence
// %/E), same numeric fields; the reader recognises it as Joliet.
func VP_C06_svd_roundtrip() {
	vp.Unwind(200)
	now := time.Date(2024, 2, 29, 23, 59, 58, 0, time.UTC)
	f := &FileSystem{blocksize: 2048}
	root := &directoryEntry{location: vp.U32("rootloc"), size: vp.U32("rootsize"), creation: c06Time(), isSubdirectory: true,
		isSelf: true, joliet: true, volumeSequence: 1, filesystem: f}
	blocks := vp.U32("volsize")
	esc := make([]byte, 32)
	copy(esc, []byte{0x25, 0x2F, 0x45})
	svd := &supplementaryVolumeDescriptor{
		volumeIdentifier: "My Vol", volumeSize: uint64(blocks) * 2048, escapeSequences: esc, setSize: 1, sequenceNumber: 1, blocksize: 2048,
		pathTableSize: vp.U32("ptsize"), pathTableLLocation: vp.U32("ptl"), pathTableMLocation: vp.U32("ptm"),
		creation: now, modification: now, expiration: now, effective: now, rootDirectoryEntry: root,
	}
	b := svd.toBytes()
	vp.Assert(len(b) == 2048, "a volume descriptor is one 2048-byte sector")
	vp.Assert(b[0] == 2, "type 2 = supplementary")
	vp.Assert(string(b[1:6]) == "CD001", "standard identifier")
	vp.Assert(string(b[40:52]) == "\x00M\x00y\x00 \x00V\x00o\x00l", "volume identifier in UCS-2")
	vp.Assert(c06Both32(b[80:], blocks), "volume space size in blocks, both byte orders")
	vp.Assert(string(b[88:91]) == "%/E", "Joliet level 3 escape sequence")
	vp.Assert(c06Both16(b[128:], 2048), "logical block size")
	vp.Assert(c06Both32(b[132:], svd.pathTableSize), "path table size")
	vp.Assert(binary.LittleEndian.Uint32(b[140:]) == svd.pathTableLLocation, "L path table location")
	vp.Assert(binary.BigEndian.Uint32(b[148:]) == svd.pathTableMLocation, "M path table location")
	r := b[156:190]
	vp.Assert(r[0] == 34, "root record length")
	vp.Assert(c06Both32(r[2:], root.location), "root extent")
	vp.Assert(c06Both32(r[10:], root.size), "root data length")
	vp.Cover("descriptor encoded")
	c06NullDates(b)
	vd, err := volumeDescriptorFromBytes(b)
	vp.Assert(err == nil, "descriptor accepted")
	got, ok := vd.(*supplementaryVolumeDescriptor)
	vp.Assert(ok, "parsed as supplementary volume descriptor")
	vp.Assert(isJolietSVD(got), "recognised as Joliet")
	vp.Assert(got.pathTableSize == svd.pathTableSize, "rt: path table size")
	vp.Assert(got.pathTableLLocation == svd.pathTableLLocation, "rt: L path table")
	vp.Assert(got.rootDirectoryEntry.location == root.location, "rt: root extent")
	vp.Assert(got.rootDirectoryEntry.size == root.size, "rt: root data length")
	vp.Assert(got.volumeSize == uint64(blocks)*2048, "rt: volume size")
	vp.Cover("descriptor decoded")
}

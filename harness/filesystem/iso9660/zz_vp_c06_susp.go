package iso9660

import (
	"encoding/binary"
	"os"

	"github.com/diskfs/go-diskfs/internal/vp"
	"github.com/diskfs/go-diskfs/internal/vp/vpdev"
)

func c06RRFS() *FileSystem {
	return &FileSystem{blocksize: 2048, suspEnabled: true, suspExtensions: []suspExtension{getRockRidgeExtension(rockRidge112)}}
}

// c06RRFile: a workspace file as walkTree records it: 8.3 short name concrete, the real (Rock
// Ridge) name of arbitrary length n and arbitrary bytes (no '/' and no NUL), numeric attributes
// arbitrary.
func c06RRFile(tag string, N int) (fi *finalizeFileInfo, raw []byte, n int) {
	return c06RRFileN(tag, N, -1)
}

func c06RRFileN(tag string, N, fixed int) (fi *finalizeFileInfo, raw []byte, n int) {
	if fixed >= 0 {
		n = fixed
	} else {
		n = vp.Int(tag + "n")
		vp.Assume(n >= 1)
		vp.Assume(n <= N)
	}
	raw = vp.Bytes(tag+"name", N)
	for i := 0; i < N; i++ {
		vp.Assume(raw[i] != 0)
		vp.Assume(raw[i] != '/')
	}
	size := vp.U32(tag + "size")
	fi = &finalizeFileInfo{
		path: "d/" + tag, name: string(raw[:n]), shortname: "AAAAAAAA", extension: "TXT",
		location: vp.U32(tag + "location"), size: int64(size),
		mode:    os.FileMode(vp.U32(tag+"perm") & 0o777),
		modTime: c06Time(), accessTime: c06Time(), changeTime: c06Time(),
		uid: vp.U32(tag + "uid"), gid: vp.U32(tag + "gid"), nlink: vp.U32(tag + "nlink"), serial: vp.U64(tag + "serial"),
	}
	return fi, raw, n
}

func c06Both32(b []byte, v uint32) bool {
	le := binary.LittleEndian.Uint32(b[0:4]) == v
	be := binary.BigEndian.Uint32(b[4:8]) == v
	return vp.IteU8(le, 1, 0)&vp.IteU8(be, 1, 0) == 1
}

// c06CheckNM: NM record(s) for name raw[:n] at the start of b (RRIP 4.1.4: "NM", length,
// version 1, flags, name; names longer than 249 bytes continue in a second record with the
// CONTINUE flag set in the first). The name bytes are compared at an arbitrary position j < n
// (one solver variable stands for every position).
func c06CheckNM(b []byte, raw []byte, n, N int) {
	first := vp.IteInt(n > 249, 249, n)
	vp.Assert(b[0] == 'N', "NM signature")
	vp.Assert(b[1] == 'M', "NM signature")
	vp.Assert(int(b[2]) == 5+first, "NM length")
	vp.Assert(b[3] == 1, "NM version")
	vp.Assert(b[4] == vp.IteU8(n > 249, 1, 0), "NM flags: CONTINUE only when the name goes on")
	j := vp.Int("probe")
	vp.Assume(j >= 0)
	vp.Assume(j < n)
	if j < 249 {
		vp.Assert(b[5+j] == raw[j], "NM name bytes")
	}
	if n > 249 {
		c := b[254:]
		vp.Assert(c[0] == 'N', "second NM signature")
		vp.Assert(c[1] == 'M', "second NM signature")
		vp.Assert(int(c[2]) == 5+n-249, "second NM length")
		vp.Assert(c[3] == 1, "second NM version")
		vp.Assert(c[4] == 0, "second NM flags")
		if j >= 249 {
			vp.Assert(c[5+j-249] == raw[j], "second NM name bytes")
		}
	}
}

// VP_C06_rr_entry: the directory record of a file under Rock Ridge. Layout oracle straight from
// ECMA-119 9.1 + SUSP 5.1 (CE) + RRIP 4.1.1 (PX), 4.1.6 (TF), 4.1.4 (NM); then the library's
// reader (parseDirEntry, following the continuation area on the device) returns the name.
func VP_C06_rr_entry_fit() { c06RREntry(vp.Bound("rrname_fit", 131, 131), 1, 131) }
// (names of 250..255 bytes need two NM records: covered with concrete lengths by rr_decode_250/255)
func VP_C06_rr_entry_ce() { c06RREntry(vp.Bound("rrname", 140, 249), 132, 249) }

func c06RREntry(N, lo, hi int) {
	vp.Unwind(N + 8)
	vp.AllocCap(N + 300)
	fsm := c06RRFS()
	fi, raw, n := c06RRFile("f", N)
	vp.Assume(n >= lo)
	vp.Assume(n <= hi)
	c0 := vp.U32("ce0")
	de, err := fi.toDirectoryEntry(fsm, false, false)
	vp.Assert(err == nil, "entry built")
	recs, err := de.toBytes(false, []uint32{c0, c0 + 1, c0 + 2})
	vp.Assert(err == nil, "entry encoded")
	b := recs[0]
	vp.Assert(len(b) <= 254, "directory record is at most 254 bytes")
	vp.Assert(int(b[0]) == len(b), "LEN_DR equals the record length")
	vp.Assert(len(b)%2 == 0, "record length is even")
	c06CheckHeader(b, de)
	vp.Assert(b[32] == 14, "LEN_FI")
	vp.Assert(string(b[33:47]) == "AAAAAAAA.TXT;1", "ISO identifier")
	vp.Assert(b[47] == 0, "pad after even-length identifier")
	px := b[48:92]
	vp.Assert(string(px[0:2]) == "PX", "PX signature")
	vp.Assert(px[2] == 44, "PX length")
	vp.Assert(px[3] == 1, "PX version")
	vp.Assert(c06Both32(px[4:], uint32(fi.mode)|0o100000), "PX mode: permission bits + regular file")
	vp.Assert(c06Both32(px[12:], fi.nlink), "PX links")
	vp.Assert(c06Both32(px[20:], fi.uid), "PX uid")
	vp.Assert(c06Both32(px[28:], fi.gid), "PX gid")
	tf := b[92:118]
	vp.Assert(string(tf[0:2]) == "TF", "TF signature")
	vp.Assert(tf[2] == 26, "TF length")
	vp.Assert(tf[4] == 0x0e, "TF flags: modify, access, attributes, short form")
	if n <= 131 {
		vp.Assert(len(recs) == 1, "no continuation area when the name fits")
		vp.Assert(len(b) == 118+5+n+(5+n)%2, "record = fixed part + NM")
		c06CheckNM(b[118:], raw, n, N)
		vp.Cover("name in the record")
	} else {
		vp.Assert(len(recs) == 2, "one continuation area")
		vp.Assert(len(b) == 146, "record = fixed part + CE")
		ce := b[118:146]
		vp.Assert(string(ce[0:2]) == "CE", "CE signature")
		vp.Assert(ce[2] == 28, "CE length")
		vp.Assert(ce[3] == 1, "CE version")
		vp.Assert(c06Both32(ce[4:], c0), "CE block = first reserved continuation block")
		vp.Assert(c06Both32(ce[12:], 0), "CE offset")
		vp.Assert(c06Both32(ce[20:], uint32(len(recs[1]))), "CE length of the continuation area")
		vp.Assert(len(recs[1]) == vp.IteInt(n > 249, 10+n, 5+n), "continuation area holds the NM record(s)")
		vp.Assert(len(recs[1]) <= 2048, "continuation area fits a block")
		c06CheckNM(recs[1], raw, n, N)
		vp.Cover("name in a continuation area")
	}
}


// c06RRDecode: name length n concrete (the SUSP reader dispatches on signature strings through a
// map, which needs concrete record structure), name bytes and all numeric fields arbitrary: the
// library's reader (parseDirEntry, following the continuation area on the device) returns the
// file's extent and its Rock Ridge name.
func c06RRDecode(n int) {
	vp.Unwind(300)
	fsm := c06RRFS()
	fi, raw, _ := c06RRFileN("f", n, n)
	// "." and ".." are not file names
	if n == 1 {
		vp.Assume(raw[0] != '.')
	}
	if n == 2 {
		vp.Assume(vp.IteU8(raw[0] == '.', 1, 0)&vp.IteU8(raw[1] == '.', 1, 0) == 0)
	}
	c0 := vp.U32("ce0")
	vp.Assume(c0 >= 18)
	vp.Assume(c0 < 1<<21)
	de, err := fi.toDirectoryEntry(fsm, false, false)
	vp.Assert(err == nil, "entry built")
	recs, err := de.toBytes(false, []uint32{c0, c0 + 1, c0 + 2})
	vp.Assert(err == nil, "entry encoded")
	dev := vpdev.NewMemDev("img", -1)
	for k := 1; k < len(recs); k++ {
		// Finalize writes the continuation areas where the CE records point to
		dev.Log = append(dev.Log, vpdev.WRec{Off: (int64(c0) + int64(k-1)) * 2048, Len: len(recs[k]), Data: recs[k]})
	}
	fsm.backend = dev
	got, err := parseDirEntry(recs[0], fsm)
	vp.Assert(err == nil, "record parsed")
	vp.Assert(got.location == fi.location, "rt: location")
	vp.Assert(got.size == uint32(fi.size), "rt: size")
	name, err := fsm.suspExtensions[0].GetFilename(got)
	vp.Assert(err == nil, "rt: Rock Ridge name present")
	vp.Cover("read back")
	// KF-C06-5: parseDirectoryEntryExtensions never records a continuable entry in
	// lastEntryBySignature, so the two NM records of a name longer than 249 bytes are never merged:
	// the name comes back cut to its first 249 bytes
	vp.AssertUnless("KF-C06-5", n > 249, name == fi.name, "rt: Rock Ridge name preserved exactly")
	// KF-C06-4: directoryEntry.Name() strips a leading '.', a trailing '.' and a trailing ";1"
	// from the Rock Ridge name of a file as if it were an ISO identifier: ".profile" is listed as
	// "profile" and cannot be opened under either name
	var odd byte
	odd |= vp.IteU8(raw[0] == '.', 1, 0)
	odd |= vp.IteU8(raw[n-1] == '.', 1, 0)
	if n >= 2 {
		odd |= vp.IteU8(raw[n-2] == ';', 1, 0) & vp.IteU8(raw[n-1] == '1', 1, 0)
	}
	if n <= 249 {
		vp.AssertUnless("KF-C06-4", odd != 0, got.Name() == fi.name, "rt: Name() is the Rock Ridge name")
	}
}

func VP_C06_rr_decode_1()   { c06RRDecode(1) }
func VP_C06_rr_decode_12()  { c06RRDecode(12) }
func VP_C06_rr_decode_131() { c06RRDecode(131) }
func VP_C06_rr_decode_132() { c06RRDecode(132) }
func VP_C06_rr_decode_249() { c06RRDecode(249) }
func VP_C06_rr_decode_250() { c06RRDecode(250) }
func VP_C06_rr_decode_255() { c06RRDecode(255) }

// VP_C06_rr_entry_ce_room: an entry whose NM record still fits but whose next record (here the
// SL record of a symbolic link with a 100-byte target; the same happens with the RE/PL/CL
// records of relocated directories) does not: the CE record that announces the continuation
// area must itself fit, i.e. the directory record stays within 254 bytes and LEN_DR is its length.
func VP_C06_rr_entry_ce_room() {
	N := 131
	vp.Unwind(N + 120)
	vp.AllocCap(N + 400)
	fsm := c06RRFS()
	fi, _, n := c06RRFile("f", N)
	fi.mode = os.ModeSymlink | 0o777
	fi.size = 0
	fi.linkTarget = "tttttttttttttttttttttttttttttttttttttttttttttttttttttttttttttttttttttttttttttttttttttttttttttttttttt"
	de, err := fi.toDirectoryEntry(fsm, false, false)
	vp.Assert(err == nil, "entry built")
	recs, err := de.toBytes(false, []uint32{30, 31, 32})
	vp.Assert(err == nil, "entry encoded")
	b := recs[0]
	// KF-C06-7: dirEntryExtensionsToBytes checks only whether the next record fits, not whether
	// the 28-byte CE record that replaces it fits: the record grows beyond 254 bytes and LEN_DR
	// wraps modulo 256
	vp.AssertUnless("KF-C06-7", n > 103, len(b) <= 254, "directory record is at most 254 bytes")
	vp.AssertUnless("KF-C06-7", n > 103, int(b[0]) == len(b), "LEN_DR equals the record length")
	if n <= 24 {
		vp.Assert(len(recs) == 1, "everything fits: no continuation area")
		vp.Cover("symlink record without continuation")
	} else {
		vp.Assert(len(recs) == 2, "one continuation area")
		vp.Cover("symlink record with continuation")
	}
}

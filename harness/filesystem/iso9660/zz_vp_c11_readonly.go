package iso9660

import (
	"os"
	"time"

	"github.com/diskfs/go-diskfs/internal/vp"
	"github.com/diskfs/go-diskfs/internal/vp/vpdev"
)

// C11 for a finalized ISO9660 filesystem (workspace == "", the state iso9660.Read produces):
// every mutating entry point returns an error and the image is never written.
//
// The image: root directory extent at block 20 holding ".", ".." and the file FOO.TXT;1
// (records written here by hand from ECMA-119 9.1; extent location, file size, flags of the file
// are arbitrary), everything else zero. Any WriteAt / successful Writable() on it is a violation.

const c11RootBlock = 20

type c11IsoDev struct {
	*vpdev.MemDev
	dir []byte // content of the root directory extent
}

func (d *c11IsoDev) ReadAt(p []byte, off int64) (int, error) {
	for i := range p {
		o := off + int64(i) - c11RootBlock*2048
		if o >= 0 && o < int64(len(d.dir)) {
			p[i] = d.dir[o]
		} else {
			p[i] = 0
		}
	}
	return len(p), nil
}

func c11Le32(b []byte, v uint32) {
	b[0], b[1], b[2], b[3] = byte(v), byte(v>>8), byte(v>>16), byte(v>>24)
}
func c11Be32(b []byte, v uint32) {
	b[3], b[2], b[1], b[0] = byte(v), byte(v>>8), byte(v>>16), byte(v>>24)
}

// c11Record: one directory record (ECMA-119 9.1).
func c11Record(name []byte, loc, size uint32, flags byte) []byte {
	l := 33 + len(name)
	if l%2 == 1 {
		l++
	}
	r := make([]byte, l)
	r[0] = byte(l)
	c11Le32(r[2:], loc)
	c11Be32(r[6:], loc)
	c11Le32(r[10:], size)
	c11Be32(r[14:], size)
	r[18], r[19], r[20], r[21], r[22], r[23], r[24] = 124, 2, 3, 4, 5, 6, 0 // 2024-02-03 04:05:06 UTC
	r[25] = flags
	r[28], r[31] = 1, 1 // volume sequence number 1, both byte orders
	r[32] = byte(len(name))
	copy(r[33:], name)
	return r
}

func c11IsoFS() (*FileSystem, *c11IsoDev) {
	dev := &c11IsoDev{MemDev: vpdev.NewMemDev("iso", -1)}
	dev.NoWrites = true
	fileLoc := vp.U32("file.location")
	fileSize := vp.U32("file.size")
	fileFlags := vp.U8("file.flags") & 0x01 // hidden or not; the other bits change the entry's kind
	dir := make([]byte, 0, 2048)
	dir = append(dir, c11Record([]byte{0}, c11RootBlock, 2048, 2)...)
	dir = append(dir, c11Record([]byte{1}, c11RootBlock, 2048, 2)...)
	dir = append(dir, c11Record([]byte("FOO.TXT;1"), fileLoc, fileSize, fileFlags)...)
	full := make([]byte, 2048)
	copy(full, dir)
	dev.dir = full
	fs := &FileSystem{
		workspace: "",
		size:      1 << 20,
		backend:   dev,
		blocksize: 2048,
		pathTable: &pathTable{records: []*pathTableEntry{{nameSize: 1, size: 10, location: c11RootBlock, parentIndex: 1, dirname: "\x00"}}},
	}
	fs.rootDir = &directoryEntry{location: c11RootBlock, size: 2048, isSubdirectory: true, isSelf: true, filesystem: fs}
	return fs, dev
}

// c11WriteFlags: the os.OpenFile flags that ask for write, create, append or truncate.
const c11WriteFlags = os.O_WRONLY | os.O_RDWR | os.O_APPEND | os.O_CREATE | os.O_TRUNC

// c11IsoOpenFile: OpenFile(path, flag) with an arbitrary flag word.
func c11IsoOpenFile(p string, exists bool) {
	fs, dev := c11IsoFS()
	flag := vp.Int("flag")
	vp.Unwind(64)
	vp.NoPanic()
	f, err := fs.OpenFile(p, flag)
	vp.AllowPanic()
	wants := flag&c11WriteFlags != 0
	if wants {
		vp.Assert(err != nil, "finalized iso: OpenFile for write/create/append/truncate returns an error")
		vp.Cover("open for writing refused")
	} else if err == nil {
		vp.Assert(exists, "only an existing file opens")
		// the handle of a read-only open: Write must fail and write nothing
		buf := vp.Bytes("data", 4)
		n, werr := f.Write(buf)
		vp.Assert(werr != nil, "finalized iso: File.Write returns an error")
		vp.Assert(n == 0, "finalized iso: File.Write reports no bytes written")
		vp.Cover("read-only open succeeds, Write on the handle refused")
	} else {
		vp.Cover("open without write access fails (missing file, or O_EXCL alone)")
	}
	vp.Assert(len(dev.Log) == 0, "nothing was written to the image")
	vp.Assert(dev.WritableCalls == 0, "no writable handle was requested")
}

func VP_C11_iso_openfile_existing() {
	c11IsoOpenFile("/FOO.TXT", true)
}
func VP_C11_iso_openfile_missing() { c11IsoOpenFile("/BAR.TXT", false) }

// One harness per guarded mutator: if the guard were missing the call would go on to the host
// filesystem (os.*, outside the engine) and the harness would have no reachable end.

func c11IsoDone(fs *FileSystem, dev *c11IsoDev, err error, what string) {
	vp.Assert(err != nil, what)
	vp.Assert(len(dev.Log) == 0, "nothing was written to the image")
	vp.Assert(dev.WritableCalls == 0, "no writable handle was requested")
	vp.Assert(fs.workspace == "", "the filesystem stays finalized")
}

func c11Path(i int) string {
	switch i {
	case 0:
		return "/FOO.TXT"
	case 1:
		return "/NEWDIR"
	case 2:
		return "/"
	default:
		return "NEW/SUB"
	}
}

func VP_C11_iso_mkdir() {
	for i := 0; i < 4; i++ {
		fs, dev := c11IsoFS()
		vp.NoPanic()
		err := fs.Mkdir(c11Path(i))
		vp.AllowPanic()
		c11IsoDone(fs, dev, err, "finalized iso: Mkdir returns an error")
	}
	vp.Cover("Mkdir refused for every path")
}

func VP_C11_iso_rename() {
	for i := 0; i < 4; i++ {
		fs, dev := c11IsoFS()
		vp.NoPanic()
		err := fs.Rename(c11Path(i), c11Path((i+1)%4))
		vp.AllowPanic()
		c11IsoDone(fs, dev, err, "finalized iso: Rename returns an error")
	}
	vp.Cover("Rename refused for every path")
}

func VP_C11_iso_remove() {
	for i := 0; i < 4; i++ {
		fs, dev := c11IsoFS()
		vp.NoPanic()
		err := fs.Remove(c11Path(i))
		vp.AllowPanic()
		c11IsoDone(fs, dev, err, "finalized iso: Remove returns an error")
	}
	vp.Cover("Remove refused for every path")
}

// VP_C11_iso_attr_mutators: the mutators that have no workspace branch at all.
func VP_C11_iso_attr_mutators() {
	fs, dev := c11IsoFS()
	mode := os.FileMode(vp.U32("mode"))
	uid, gid := vp.Int("uid"), vp.Int("gid")
	ts := time.Unix(int64(vp.U32("t")), 0)
	vp.NoPanic()
	for i := 0; i < 4; i++ {
		p := c11Path(i)
		c11IsoDone(fs, dev, fs.Chmod(p, mode), "finalized iso: Chmod returns an error")
		c11IsoDone(fs, dev, fs.Chown(p, uid, gid), "finalized iso: Chown returns an error")
		c11IsoDone(fs, dev, fs.Chtimes(p, ts, ts, ts), "finalized iso: Chtimes returns an error")
		c11IsoDone(fs, dev, fs.Symlink(c11Path(0), p), "finalized iso: Symlink returns an error")
		c11IsoDone(fs, dev, fs.Link(c11Path(0), p), "finalized iso: Link returns an error")
		c11IsoDone(fs, dev, fs.Mknod(p, vp.U32("nodmode"), vp.Int("dev")), "finalized iso: Mknod returns an error")
	}
	c11IsoDone(fs, dev, fs.SetLabel("NEWLABEL"), "finalized iso: SetLabel returns an error")
	vp.AllowPanic()
	vp.Cover("attribute mutators refused")
}

// VP_C11_iso_readers: the reading entry points on the same image never write, and a rejected
// mutator in between does not change what they return.
func VP_C11_iso_readers() {
	fs, dev := c11IsoFS()
	vp.Unwind(64)
	vp.NoPanic()
	des, err := fs.ReadDir(".")
	vp.Assert(err == nil, "ReadDir of the root works")
	vp.Assert(len(des) == 1, "one entry besides . and ..")
	_ = fs.Mkdir("/X")
	_ = fs.Remove("/FOO.TXT")
	_, _ = fs.OpenFile("/FOO.TXT", os.O_RDWR|os.O_TRUNC)
	st, err := fs.Stat("FOO.TXT")
	vp.Assert(err == nil, "Stat of the file works")
	vp.Assert(st.Size() == int64(vp.U32("file.size")), "Stat reports the recorded size")
	f, err := fs.Open("FOO.TXT")
	vp.Assert(err == nil, "Open of the file works")
	buf := make([]byte, 8)
	_, _ = f.Read(buf)
	_ = f.Close()
	_ = fs.Label()
	_ = fs.Type()
	_ = fs.Close()
	vp.AllowPanic()
	vp.Assert(len(dev.Log) == 0, "nothing was written to the image")
	vp.Assert(dev.WritableCalls == 0, "no writable handle was requested")
	vp.Cover("readers done")
}

package iso9660

import (
	"encoding/binary"
	"os"
	"time"

	"github.com/diskfs/go-diskfs/internal/vp"
)

// c19RR: a filesystem with the Rock Ridge handler of the given version enabled (what Read sets up).
func c19RR(id string) (*FileSystem, *rockRidgeExtension) {
	rr := getRockRidgeExtension(id)
	return &FileSystem{suspEnabled: true, suspExtensions: []suspExtension{rr}, blocksize: 2048}, rr
}

// c19Types: Go file type bits and the POSIX S_IFMT value Rock Ridge stores for them (RRIP 4.1.1).
var c19Types = []struct {
	goBits os.FileMode
	posix  uint32
}{
	{0, 0o100000},
	{os.ModeDir, 0o040000},
	{os.ModeSymlink, 0o120000},
	{os.ModeNamedPipe, 0o010000},
	{os.ModeSocket, 0o140000},
	{os.ModeDevice | os.ModeCharDevice, 0o020000},
	{os.ModeDevice, 0o060000},
}

// c19PX: PX entry of a file with arbitrary permissions, setuid/setgid/sticky, uid, gid, link count for every
// file type: Bytes() has the RRIP layout (both-endian fields), parsing it gives the same attributes, and the
// directory entry reports them through Mode() and Sys().
func c19PX(id string, length int) {
	f, rr := c19RR(id)
	perm := vp.U32("perm")
	vp.Assume(perm <= 0o777)
	suid, sgid, sticky := vp.Bool("setuid"), vp.Bool("setgid"), vp.Bool("sticky")
	uid, gid, nlink := vp.U32("uid"), vp.U32("gid"), vp.U32("nlink")
	serial := vp.U64("serial")
	for _, ty := range c19Types {
		mode := os.FileMode(perm) | ty.goBits
		unix := perm | ty.posix
		if suid {
			mode |= os.ModeSetuid
			unix |= 0o4000
		}
		if sgid {
			mode |= os.ModeSetgid
			unix |= 0o2000
		}
		if sticky {
			mode |= os.ModeSticky
			unix |= 0o1000
		}
		px := rockRidgePosixAttributes{mode: mode, length: rr.pxLength, linkCount: nlink, uid: uid, gid: gid, serial: serial}
		b := px.Bytes()
		vp.Assert(len(b) == length, "PX length of this Rock Ridge version")
		vp.Assert(b[0] == 'P' && b[1] == 'X', "signature")
		vp.Assert(int(b[2]) == length, "length byte")
		vp.Assert(b[3] == 1, "version byte")
		vp.Assert(binary.LittleEndian.Uint32(b[4:8]) == unix, "st_mode (LE) = S_IFMT type | 04000/02000/01000 | rwx")
		vp.Assert(binary.BigEndian.Uint32(b[8:12]) == unix, "st_mode (BE)")
		vp.Assert(binary.LittleEndian.Uint32(b[12:16]) == nlink, "st_nlink (LE)")
		vp.Assert(binary.BigEndian.Uint32(b[16:20]) == nlink, "st_nlink (BE)")
		vp.Assert(binary.LittleEndian.Uint32(b[20:24]) == uid, "st_uid (LE)")
		vp.Assert(binary.BigEndian.Uint32(b[24:28]) == uid, "st_uid (BE)")
		vp.Assert(binary.LittleEndian.Uint32(b[28:32]) == gid, "st_gid (LE)")
		vp.Assert(binary.BigEndian.Uint32(b[32:36]) == gid, "st_gid (BE)")
		exts, err := parseDirectoryEntryExtensions(b, f.suspExtensions)
		vp.Assert(err == nil, "PX parses")
		vp.Assert(len(exts) == 1, "one entry")
		de := &directoryEntry{filesystem: f, extensions: exts, isSubdirectory: ty.goBits == os.ModeDir}
		vp.Assert(de.Mode() == mode, "Stat: mode (permissions, setuid/setgid/sticky, file type) survives")
		vp.Assert(de.Mode().IsDir() == (ty.goBits == os.ModeDir), "directory iff it was a directory")
		vp.Assert(de.Mode().IsRegular() == (ty.goBits == 0), "regular iff it was regular")
		st := de.statT()
		vp.Assert(st.UID == uid, "StatT.UID survives (32 bits)")
		vp.Assert(st.GID == gid, "StatT.GID survives (32 bits)")
		vp.Assert(st.NLink == nlink, "StatT.NLink survives")
		vp.Assert(st.RockRidge, "Rock Ridge detected")
	}
	if uid > 0xffff {
		vp.Cover("32-bit uid")
	}
	if suid {
		vp.Cover("setuid")
	}
	vp.Cover("PX round trip")
}

func VP_C19_iso_px_rrip110() { c19PX(rockRidge110, 36) }
func VP_C19_iso_px_rrip112() { c19PX(rockRidge112, 44) }

type c19Civil struct{ y, mo, d, h, mi, s int }

// c19Time: an arbitrary UTC civil time in the range of the 7-byte ISO 9660 form (years 1900..2155).
func c19Time(pfx string) (time.Time, c19Civil) {
	c := c19Civil{y: int(vp.U16(pfx + ".year")), mo: int(vp.U8(pfx + ".month")), d: int(vp.U8(pfx + ".day")),
		h: int(vp.U8(pfx + ".hour")), mi: int(vp.U8(pfx + ".min")), s: int(vp.U8(pfx + ".sec"))}
	vp.Assume(c.y >= 1900)
	vp.Assume(c.y <= 2155)
	vp.Assume(c.mo >= 1)
	vp.Assume(c.mo <= 12)
	vp.Assume(c.d >= 1)
	vp.Assume(c.d <= 28) // day-of-month validity is the calendar's business; 1..28 exist in every month
	vp.Assume(c.h <= 23)
	vp.Assume(c.mi <= 59)
	vp.Assume(c.s <= 59)
	return time.Date(c.y, time.Month(c.mo), c.d, c.h, c.mi, c.s, int(vp.U32(pfx+".nsec")%1000000000), time.UTC), c
}

func c19Check7(b []byte, c c19Civil, what string) {
	vp.Assert(int(b[0]) == c.y-1900, "years since 1900")
	vp.Assert(int(b[1]) == c.mo, "month")
	vp.Assert(int(b[2]) == c.d, "day")
	vp.Assert(int(b[3]) == c.h, "hour")
	vp.Assert(int(b[4]) == c.mi, "minute")
	vp.Assert(int(b[5]) == c.s, "second")
	vp.Assert(b[6] == 0, "GMT offset 0 for a UTC time")
}

// VP_C19_iso_time7_encode: the 7-byte recording time (ECMA-119 9.1.5) of any UTC time 1900..2155.
func VP_C19_iso_time7_encode() {
	t, c := c19Time("t")
	b := timeToBytes(t)
	vp.Assert(len(b) == 7, "7 bytes")
	c19Check7(b, c, "t")
	if c.y > 2038 {
		vp.Cover("after 2038")
	}
	if c.y < 1970 {
		vp.Cover("before 1970")
	}
	vp.Cover("encoded")
}

// VP_C19_iso_time7_roundtrip: recording time -> 7 bytes -> time: same instant (to the second), same civil fields.
func VP_C19_iso_time7_roundtrip() {
	t, c := c19Time("t")
	t2 := bytesToTime(timeToBytes(t))
	vp.Assert(t2.Unix() == t.Unix(), "same instant to the second")
	vp.Assert(t2.Year() == c.y, "year survives")
	vp.Assert(int(t2.Month()) == c.mo, "month survives")
	vp.Assert(t2.Day() == c.d, "day survives")
	vp.Assert(t2.Hour() == c.h, "hour survives")
	vp.Assert(t2.Minute() == c.mi, "minute survives")
	vp.Assert(t2.Second() == c.s, "second survives")
	vp.Cover("round trip")
}

// VP_C19_iso_time7_decode: decoding a 7-byte time (offset 0) gives the civil time its bytes name.
func VP_C19_iso_time7_decode() {
	b := vp.Bytes("t", 7)
	vp.Assume(b[1] >= 1)
	vp.Assume(b[1] <= 12)
	vp.Assume(b[2] >= 1)
	vp.Assume(b[2] <= 28)
	vp.Assume(b[3] <= 23)
	vp.Assume(b[4] <= 59)
	vp.Assume(b[5] <= 59)
	b[6] = 0 // GMT offset 0 (what timeToBytes writes for the UTC times Finalize records)
	t := bytesToTime(b)
	_, zoff := t.Zone()
	vp.Assert(zoff == 0, "offset 0")
	vp.Assert(t.Year() == 1900+int(b[0]), "year")
	vp.Assert(int(t.Month()) == int(b[1]), "month")
	vp.Assert(t.Day() == int(b[2]), "day")
	vp.Assert(t.Hour() == int(b[3]), "hour")
	vp.Assert(t.Minute() == int(b[4]), "minute")
	vp.Assert(t.Second() == int(b[5]), "second")
	vp.Cover("decoded")
}

// VP_C19_iso_tf_encode: the TF entry Finalize writes (modify, access, attribute stamps in short form, given
// in any order): flags byte, length byte and the three 7-byte stamps in the bit order RRIP prescribes.
func VP_C19_iso_tf_encode() {
	tm, cm := c19Time("mtime")
	ta, ca := c19Time("atime")
	tc, cc := c19Time("ctime")
	tf := rockRidgeTimestamps{longForm: false, stamps: []rockRidgeTimestamp{
		{timestampType: rockRidgeTimestampAttribute, time: tc},
		{timestampType: rockRidgeTimestampModify, time: tm},
		{timestampType: rockRidgeTimestampAccess, time: ta},
	}}
	b := tf.Bytes()
	vp.Assert(len(b) == 5+3*7, "length")
	vp.Assert(b[0] == 'T' && b[1] == 'F', "signature")
	vp.Assert(int(b[2]) == len(b), "length byte")
	vp.Assert(b[3] == 1, "version")
	vp.Assert(b[4] == 0x02|0x04|0x08, "flags: MODIFY|ACCESS|ATTRIBUTES, short form")
	c19Check7(b[5:12], cm, "modify")
	c19Check7(b[12:19], ca, "access")
	c19Check7(b[19:26], cc, "attributes")
	vp.Cover("TF encoded")
}

// VP_C19_iso_tf_decode: a TF entry with arbitrary stamps (offset 0) parses into the stamps its flags name.
func VP_C19_iso_tf_decode() {
	_, rr := c19RR(rockRidge112)
	b := vp.Bytes("tf", 5+3*7)
	b[0], b[1], b[2], b[3], b[4] = 'T', 'F', byte(len(b)), 1, 0x0e
	for k := 0; k < 3; k++ {
		s := b[5+7*k : 12+7*k]
		vp.Assume(s[1] >= 1)
		vp.Assume(s[1] <= 12)
		vp.Assume(s[2] >= 1)
		vp.Assume(s[2] <= 28)
		vp.Assume(s[3] <= 23)
		vp.Assume(s[4] <= 59)
		vp.Assume(s[5] <= 59)
		s[6] = 0
	}
	e, err := rr.parseTimestamps(b)
	vp.Assert(err == nil, "TF parses")
	tf, ok := e.(rockRidgeTimestamps)
	vp.Assert(ok, "TF entry")
	vp.Assert(len(tf.stamps) == 3, "three stamps")
	want := []uint8{rockRidgeTimestampModify, rockRidgeTimestampAccess, rockRidgeTimestampAttribute}
	for k := 0; k < 3; k++ {
		s := b[5+7*k : 12+7*k]
		t := tf.stamps[k].time // offset 0: civil components in its own zone = UTC components
		vp.Assert(tf.stamps[k].timestampType == want[k], "stamp kind in bit order")
		vp.Assert(t.Year() == 1900+int(s[0]), "year")
		vp.Assert(int(t.Month()) == int(s[1]), "month")
		vp.Assert(t.Day() == int(s[2]), "day")
		vp.Assert(t.Hour() == int(s[3]), "hour")
		vp.Assert(t.Minute() == int(s[4]), "minute")
		vp.Assert(t.Second() == int(s[5]), "second")
	}
	vp.Cover("TF decoded")
}

// c19Name: NM entry/entries of a file name of n arbitrary bytes (no NUL, no '/') -> Bytes() -> the parser of
// the system use area -> the name Stat/ReadDir report.
func c19Name(max int, symbolicLen bool) {
	f, _ := c19RR(rockRidge112)
	n := max
	tb := vp.Bytes("name", max)
	if symbolicLen {
		n = int(vp.U8("len"))
		vp.Assume(n >= 1)
		vp.Assume(n <= max)
	}
	for k := 0; k < max; k++ {
		vp.Assume(tb[k] != 0)
		vp.Assume(tb[k] != '/')
	}
	name := string(tb[:n])
	b := rockRidgeName{name: name}.Bytes()
	// independent reading of the records: each NM record carries <= 249 name bytes, CONTINUE flag on all but the last
	pos, off := 0, 0
	for rec := 0; rec < 3 && off < len(b); rec++ {
		vp.Assert(b[off] == 'N' && b[off+1] == 'M', "signature")
		l := int(b[off+2])
		vp.Assert(l >= 5 && off+l <= len(b), "record length within the output")
		vp.Assert(b[off+3] == 1, "version")
		last := off+l == len(b)
		vp.Assert((b[off+4]&1 == 0) == last, "CONTINUE flag on every record but the last")
		for k := 5; k < l; k++ {
			vp.Assert(b[off+k] == tb[pos], "name bytes in order")
			pos++
		}
		off += l
	}
	vp.Assert(off == len(b), "records tile the output")
	vp.Assert(pos == n, "all name bytes recorded")
	exts, err := parseDirectoryEntryExtensions(b, f.suspExtensions)
	vp.Assert(err == nil, "NM parses")
	de := &directoryEntry{filesystem: f, extensions: exts, isSubdirectory: true, filename: "X"}
	got := de.Name()
	long := n > 249
	if long {
		vp.Cover("name continued in a second NM record")
	}
	vp.Cover("NM encoded and parsed")
	vp.AssertUnless("KF-C19-2", long, len(got) == n, "name length survives")
	for k := 0; k < max; k++ {
		if k < n && k < len(got) {
			vp.Assert(got[k] == tb[k], "name bytes survive")
		}
	}
	vp.Cover("NM round trip")
}

func VP_C19_iso_nm_short() { c19Name(12, true) }
func VP_C19_iso_nm_249()   { c19Name(249, false) }
func VP_C19_iso_nm_250()   { c19Name(250, false) }
func VP_C19_iso_nm_255()   { c19Name(255, false) }

// c19ReadLink: what ReadLink and Sys() report for the SL records b.
func c19ReadLink(f *FileSystem, b []byte) (string, bool) {
	exts, err := parseDirectoryEntryExtensions(b, f.suspExtensions)
	vp.Assert(err == nil, "SL parses")
	de := &directoryEntry{filesystem: f, extensions: exts, filename: "L"}
	got, ok := de.ReadLink()
	vp.Assert(de.statT().LinkTarget == got, "Sys().LinkTarget agrees with ReadLink")
	return got, ok
}

// VP_C19_iso_sl_short: a symlink target of 1..8 arbitrary bytes (any mix of '/' separators, "." and ".."
// components; no empty components, no trailing slash, no NUL, no backslash) survives SL encoding/decoding.
func VP_C19_iso_sl_short() {
	f, _ := c19RR(rockRidge112)
	max := vp.Bound("sltarget", 5, 8)
	tb := vp.Bytes("target", max)
	n := int(vp.U8("len"))
	vp.Assume(n >= 1)
	vp.Assume(n <= max)
	for k := 0; k < max; k++ {
		vp.Assume(tb[k] != 0)
		vp.Assume(tb[k] != '\\')
		if k+1 < max {
			if k+1 < n {
				vp.Assume(uint16(tb[k])<<8|uint16(tb[k+1]) != 0x2f2f) // no empty component
			}
		}
		if k == n-1 {
			if n > 1 {
				vp.Assume(tb[k] != '/')
			}
		}
	}
	target := string(tb[:n])
	vp.Unwind(24)
	b := rockRidgeSymlink{name: target}.Bytes()
	got, ok := c19ReadLink(f, b)
	vp.Assert(ok, "ReadLink finds the target")
	vp.Assert(len(got) == n, "target length survives")
	for k := 0; k < max; k++ {
		if k < n && k < len(got) {
			vp.Assert(got[k] == tb[k], "target bytes survive")
		}
	}
	if tb[0] == '/' {
		vp.Cover("absolute target")
	}
	if tb[0] == '.' {
		if n >= 3 {
			if tb[1] == '.' {
				if tb[2] == '/' {
					vp.Cover("target starting with ../")
				}
			}
		}
	}
	vp.Cover("SL round trip")
}

// c19SLComponents: a target made of `count` components of `clen` arbitrary bytes each (absolute or relative):
// the component area is count*(clen+2) bytes, so the split into several SL records (247 bytes each) is exercised.
func c19SLComponents(count, clen int, abs bool) {
	f, _ := c19RR(rockRidge112)
	// concrete content: strings.Split/ReplaceAll over hundreds of symbolic bytes is out of the engine's reach;
	// what matters here is the structure (component count and lengths against the 247-byte record capacity)
	tb := make([]byte, count*clen)
	for k := range tb {
		tb[k] = 'a' + byte(k%26)
	}
	var raw []byte
	for c := 0; c < count; c++ {
		if c > 0 || abs {
			raw = append(raw, '/')
		}
		raw = append(raw, tb[c*clen:(c+1)*clen]...)
	}
	target := string(raw)
	area := count * (clen + 2)
	if abs {
		area += 2
	}
	vp.Unwind(count*2 + 8)
	if area > 247 {
		vp.Cover("target needs more than one SL record")
	}
	vp.Cover("SL components")
	b := rockRidgeSymlink{name: target}.Bytes()
	vp.NoPanic()
	vp.KnownPanic("KF-C19-3", "rockridge.go")
	got, ok := c19ReadLink(f, b)
	vp.AllowPanic()
	vp.AssertUnless("KF-C19-3", area > 247, ok, "ReadLink finds the target")
	vp.AssertUnless("KF-C19-3", area > 247, got == target, "target survives")
	// diagnosis: every SL record must be a well-formed record of at most 254 bytes whose component area is a
	// whole number of component records (RRIP 4.1.3.1; this encoder never sets a component CONTINUE flag)
	off := 0
	for rec := 0; rec < 8 && off < len(b); rec++ {
		l := int(b[off+2])
		vp.Assert(b[off] == 'S' && b[off+1] == 'L', "signature")
		vp.Assert(l >= 5 && off+l <= len(b), "record length within the output")
		p := off + 5
		for c := 0; c < count+1 && p < off+l; c++ {
			vp.AssertUnless("KF-C19-3", area > 247, p+2 <= off+l && p+2+int(b[p+1]) <= off+l, "component record lies inside its SL record")
			p += 2 + int(b[p+1])
		}
		off += l
	}
}

func VP_C19_iso_sl_one_record()  { c19SLComponents(4, 59, true) } // area 4*61+2 = 246 <= 247
func VP_C19_iso_sl_two_records() { c19SLComponents(5, 59, false) } // area 305: split needed
func VP_C19_iso_sl_long_component() { c19SLComponents(1, 250, true) }

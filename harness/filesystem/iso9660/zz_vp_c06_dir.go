package iso9660

import (
	"fmt"
	"os"

	"github.com/diskfs/go-diskfs/internal/vp"
	"github.com/diskfs/go-diskfs/internal/vp/vpdev"
)

// c06RRDir builds a Rock Ridge directory (root or first-level) with the given children and lays
// it out exactly as Finalize does:
//   size, ce := dir.calculateDirectorySize(); blocks := calculateBlocks(size)
//   ceLocations := location+blocks .. ; p := dir.toDirectory().entriesToBytes(ceLocations)
//   write p[0], p[1], ... back to back starting at location*blocksize        (finalize.go 858-884;
//   this 4-line write loop is the only part modelled by the harness, Finalize itself walks the
//   host file system and cannot be executed by the engine)
// and reads it back with the library's reader.
func c06RRDir(root bool, children []*finalizeFileInfo, bs int64) (dir *finalizeFileInfo, fsm *FileSystem, dev *vpdev.MemDev, size int, blocks uint32, p [][]byte) {
	fsm = c06RRFS()
	fsm.blocksize = bs
	rootfi := &finalizeFileInfo{path: ".", name: "\x00", shortname: "\x00", isDir: true, isRoot: true, depth: 1,
		mode: os.ModeDir | 0o755, modTime: c06Time(), accessTime: c06Time(), changeTime: c06Time(), location: 18, nlink: 2}
	dir = rootfi
	if !root {
		dir = &finalizeFileInfo{path: "SUB", name: "sub", shortname: "SUB", isDir: true, depth: 2, parent: rootfi,
			mode: os.ModeDir | 0o755, modTime: c06Time(), accessTime: c06Time(), changeTime: c06Time(), nlink: 2}
		rootfi.children = []*finalizeFileInfo{dir}
	}
	dir.location = 20
	for _, c := range children {
		c.parent = dir
		c.depth = dir.depth + 1
	}
	dir.children = children
	var ce int
	var err error
	size, ce, err = dir.calculateDirectorySize(fsm)
	vp.Assert(err == nil, "directory size calculated")
	blocks = calculateBlocks(int64(size), bs)
	dir.size = int64(size)
	dir.blocks = blocks
	dir.continuationBlocks = uint32(ce)
	d, err := dir.toDirectory(fsm)
	vp.Assert(err == nil, "directory built")
	ceLocations := make([]uint32, 0)
	for i := 0; i < ce; i++ {
		ceLocations = append(ceLocations, dir.location+blocks+uint32(i))
	}
	p, err = d.entriesToBytes(ceLocations)
	vp.Assert(err == nil, "directory encoded")
	vp.Assert(len(p) == 1+ce, "as many continuation areas as blocks were reserved for them")
	dev = vpdev.NewMemDev("img", -1)
	writeAt := int64(dir.location) * bs
	var pos int64
	for _, e := range p {
		_, _ = dev.WriteAt(e, writeAt+pos)
		pos += int64(len(e))
	}
	fsm.backend = dev
	return dir, fsm, dev, size, blocks, p
}

// c06ReadDir: what readDirectoryPVD does once it has the extent: read `size` bytes, parse.
func c06ReadDir(fsm *FileSystem, loc uint32, size int) ([]*directoryEntry, error) {
	b := make([]byte, size)
	_, _ = fsm.backend.ReadAt(b, int64(loc)*fsm.blocksize)
	return parseDirEntries(b, fsm)
}

func c06NameOf(fsm *FileSystem, e *directoryEntry) string {
	s, err := fsm.suspExtensions[0].GetFilename(e)
	vp.Assert(err == nil, "entry has a Rock Ridge name")
	return s
}

// c06RRDirCE: a directory in which two entries need a continuation area (root: the "." entry
// always does, its ER record is 182 bytes; other directories: two names longer than 131 bytes).
func c06RRDirCE(root bool) {
	vp.Unwind(300)
	vp.AllocCap(2600)
	// name lengths concrete (they fix the layout of the device), name bytes and attributes arbitrary
	var kids []*finalizeFileInfo
	f1, _, _ := c06RRFileN("a", 150, 150)
	f1.shortname = "AAAAAAA0"
	kids = append(kids, f1)
	if !root {
		f2, _, _ := c06RRFileN("b", 132, 132)
		f2.shortname = "AAAAAAA1"
		kids = append(kids, f2)
	}
	dir, fsm, _, size, _, _ := c06RRDir(root, kids, 2048)
	vp.Cover("directory with two continuation areas written")
	vp.NoPanic()
	// KF-C06-6: Directory.entriesToBytes hands the same list of continuation blocks to every entry,
	// so every CE record of a directory points to the first block, and Finalize writes the areas
	// back to back instead of one per block: all but the first continuation area are lost
	vp.KnownPanic("KF-C06-6", "directoryentrysystemuseextension.go | slice bounds out of range")
	got, err := c06ReadDir(fsm, dir.location, size)
	vp.AllowPanic()
	vp.AssertUnless("KF-C06-6", true, err == nil, "directory parsed")
	if err == nil {
		vp.AssertUnless("KF-C06-6", true, len(got) == 2+len(kids), "every entry is read back")
		if len(got) == 2+len(kids) {
			for i, k := range kids {
				vp.AssertUnless("KF-C06-6", true, c06NameOf(fsm, got[2+i]) == k.name, "Rock Ridge name of each entry preserved")
				vp.Assert(got[2+i].location == k.location, "extent of each entry preserved")
			}
		}
	}
}

func VP_C06_rr_dir_root_longname() { c06RRDirCE(true) }
func VP_C06_rr_dir_two_longnames() { c06RRDirCE(false) }

// c06RefLayout: ECMA-119 6.8.1.1: records are laid out one after the other, a record that would
// cross a logical block boundary starts at the next block, the rest of the block is zero.
// A record that ends exactly at the boundary may stay (eager=false) or be moved as well
// (eager=true, what go-diskfs does; wasteful but valid). Returns the directory's data length.
func c06RefLayout(recLens []int, bs int, eager bool) (size int) {
	for _, l := range recLens {
		room := bs - size%bs
		if eager {
			size = vp.IteInt(l >= room, size+room, size)
		} else {
			size = vp.IteInt(l > room, size+room, size)
		}
		size += l
	}
	return size
}

// c06WalkDir: independent walk over directory bytes: every record lies inside one block, gaps
// are zero up to the next block; returns the number of records and the end of the last one.
func c06WalkDir(b []byte, bs int) (count, end int) {
	i := 0
	for i < len(b) {
		l := int(b[i])
		if l == 0 {
			var nz byte
			for j := i; j < len(b) && j/bs == i/bs; j++ {
				nz |= b[j]
			}
			vp.Assert(nz == 0, "unused rest of a block is zero")
			i = (i/bs + 1) * bs
			continue
		}
		vp.Assert(i%bs+l <= bs, "a directory record does not cross a block boundary")
		vp.Assert(l >= 34, "record has at least the fixed part and a 1-byte identifier")
		vp.Assert(33+int(b[i+32]) <= l, "identifier lies inside the record")
		count++
		i += l
		end = i
	}
	return count, end
}

func c06RRKids(ns []int) []*finalizeFileInfo {
	var kids []*finalizeFileInfo
	for i, n := range ns {
		f, _, _ := c06RRFileN(fmt.Sprintf("k%d", i), n, n)
		f.shortname = fmt.Sprintf("AAAAAAA%d", i)
		kids = append(kids, f)
	}
	return kids
}

// VP_C06_rr_dir_size: Rock Ridge root directory with records that fill the first block up to
// byte 1908 and a last record of arbitrary size (name length nb in 1..131, i.e. ending before,
// at or after the block boundary): the data length computed by
// calculateDirectorySize equals the reference layout (entriesToBytes for the same directory is
// compared with it in VP_C06_rr_root_*, where the structure is concrete).
func VP_C06_rr_dir_size() {
	vp.Unwind(300)
	vp.AllocCap(4200)
	kids := c06RRKids([]int{131, 131, 131, 131, 131, 131})
	fa, _, na := c06RRFileN("a", 17, 17)
	fa.shortname = "AAAAAAAA"
	fb, _, nb := c06RRFile("b", 131)
	fb.shortname = "AAAAAAAB"
	kids = append(kids, fa, fb)
	fsm := c06RRFS()
	root := &finalizeFileInfo{path: ".", name: "\x00", shortname: "\x00", isDir: true, isRoot: true, depth: 1,
		mode: os.ModeDir | 0o755, modTime: c06Time(), accessTime: c06Time(), changeTime: c06Time(), location: 18, nlink: 2, children: kids}
	for _, k := range kids {
		k.parent = root
	}
	size, ce, err := root.calculateDirectorySize(fsm)
	vp.Assert(err == nil, "size calculated")
	vp.Assert(ce == 1, "one continuation area (ER of the root's self entry)")
	la := 118 + 5 + na
	la += la % 2
	lb := 118 + 5 + nb
	lb += lb % 2
	lens := []int{140, 104, 254, 254, 254, 254, 254, 254, la, lb}
	refA := c06RefLayout(lens, 2048, false)
	refB := c06RefLayout(lens, 2048, true)
	vp.Assert(vp.IteU8(size == refA, 1, 0)|vp.IteU8(size == refB, 1, 0) == 1, "directory data length follows the reference layout")
	blocks := calculateBlocks(int64(size), 2048)
	vp.Assert(int64(blocks)*2048 >= int64(size), "reserved blocks cover the data length")
	vp.Assert((int64(blocks)-1)*2048 < int64(size), "no block more than needed is reserved")
	vp.Assert(size%2048 != 0, "a record is never left ending exactly at a block boundary (entriesToBytes relies on it when padding)")
	vp.Cover("sizes compared")
}

// c06RRRootRT: Rock Ridge root directory whose records end 2 bytes before / exactly at / 2 bytes
// after the end of the first block (structure concrete, names and attributes arbitrary): written
// like Finalize does and read back: SUSP and Rock Ridge are detected from the root's "." entry
// (its ER record lives in the continuation area) and every entry comes back.
func c06RRRootRT(last int) {
	vp.Unwind(300)
	kids := c06RRKids([]int{131, 131, 131, 131, 131, 131, 17, last})
	dir, fsm, dev, size, blocks, p := c06RRDir(true, kids, 2048)
	count, end := c06WalkDir(p[0], 2048)
	vp.Assert(count == 2+len(kids), "independent walk finds every record")
	vp.Assert(end == size, "data length = end of the last record")
	vp.Assert(len(p[0]) == int(blocks)*2048, "directory bytes fill exactly the blocks reserved for the directory")
	vp.Assert(int(blocks) == (size+2047)/2048, "blocks reserved = ceil(data length / block size)")
	vp.Cover("root directory written")
	rootDE := &directoryEntry{location: dir.location, size: uint32(size), isSubdirectory: true, isSelf: true}
	enabled, _, handlers, err := detectSUSP(rootDE, dev, 2048)
	vp.Assert(err == nil, "root entry parsed")
	vp.Assert(enabled, "SUSP detected (SP record in the root's self entry)")
	vp.Assert(len(handlers) == 1, "Rock Ridge detected (ER record in the continuation area)")
	got, err := c06ReadDir(fsm, dir.location, size)
	vp.Assert(err == nil, "directory parsed")
	vp.Assert(len(got) == 2+len(kids), "every entry is read back")
	for i, k := range kids {
		if i < len(got)-2 {
			vp.Assert(c06NameOf(fsm, got[2+i]) == k.name, "Rock Ridge name of each entry preserved")
			vp.Assert(got[2+i].location == k.location, "extent of each entry preserved")
			vp.Assert(got[2+i].size == uint32(k.size), "size of each entry preserved")
		}
	}
	vp.Cover("root directory read back")
}

func VP_C06_rr_root_below() { c06RRRootRT(15) } // 2046 bytes
func VP_C06_rr_root_exact() { c06RRRootRT(17) } // the last record would end exactly at 2048
func VP_C06_rr_root_above() { c06RRRootRT(19) } // last record moves to the second block

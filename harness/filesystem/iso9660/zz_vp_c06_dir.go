package iso9660

import (
	"fmt"
	"os"

	"github.com/diskfs/go-diskfs/internal/vp"
	"github.com/diskfs/go-diskfs/internal/vp/vpdev"
)

// c06RRDir builds a Rock Ridge directory (root or first-level) with the given children and lays
// it out exactly as Finalize does:
//   size, ce := dir.calculateDirectorySize(); blocks := calculateBlocks(size)
//   ceLocations := location+blocks .. ; p := dir.toDirectory().entriesToBytes(ceLocations)
//   write p[0], p[1], ... back to back starting at location*blocksize        (finalize.go 858-884;
//   this 4-line write loop is the only part modelled by the harness, Finalize itself walks the
//   host file system and cannot be executed by the engine)
// and reads it back with the library's reader.
func c06RRDir(root bool, children []*finalizeFileInfo, bs int64) (dir *finalizeFileInfo, fsm *FileSystem, dev *vpdev.MemDev, size int, blocks uint32, p [][]byte) {
	fsm = c06RRFS()
	fsm.blocksize = bs
	rootfi := &finalizeFileInfo{path: ".", name: "\x00", shortname: "\x00", isDir: true, isRoot: true, depth: 1,
		mode: os.ModeDir | 0o755, modTime: c06Time(), accessTime: c06Time(), changeTime: c06Time(), location: 18, nlink: 2}
	dir = rootfi
	if !root {
		dir = &finalizeFileInfo{path: "SUB", name: "sub", shortname: "SUB", isDir: true, depth: 2, parent: rootfi,
			mode: os.ModeDir | 0o755, modTime: c06Time(), accessTime: c06Time(), changeTime: c06Time(), nlink: 2}
		rootfi.children = []*finalizeFileInfo{dir}
	}
	dir.location = 20
	for _, c := range children {
		c.parent = dir
		c.depth = dir.depth + 1
	}
	dir.children = children
	var ce int
	var err error
	size, ce, err = dir.calculateDirectorySize(fsm)
	vp.Assert(err == nil, "directory size calculated")
	blocks = calculateBlocks(int64(size), bs)
	dir.size = int64(size)
	dir.blocks = blocks
	dir.continuationBlocks = uint32(ce)
	d, err := dir.toDirectory(fsm)
	vp.Assert(err == nil, "directory built")
	ceLocations := make([]uint32, 0)
	for i := 0; i < ce; i++ {
		ceLocations = append(ceLocations, dir.location+blocks+uint32(i))
	}
	p, err = d.entriesToBytes(ceLocations)
	vp.Assert(err == nil, "directory encoded")
	vp.Assert(len(p) == 1+ce, "as many continuation areas as blocks were reserved for them")
	dev = vpdev.NewMemDev("img", -1)
	writeAt := int64(dir.location) * bs
	var pos int64
	for _, e := range p {
		_, _ = dev.WriteAt(e, writeAt+pos)
		pos += int64(len(e))
	}
	fsm.backend = dev
	return dir, fsm, dev, size, blocks, p
}

// c06ReadDir: what readDirectoryPVD does once it has the extent: read `size` bytes, parse.
func c06ReadDir(fsm *FileSystem, loc uint32, size int) ([]*directoryEntry, error) {
	b := make([]byte, size)
	_, _ = fsm.backend.ReadAt(b, int64(loc)*fsm.blocksize)
	return parseDirEntries(b, fsm)
}

func c06NameOf(fsm *FileSystem, e *directoryEntry) string {
	s, err := fsm.suspExtensions[0].GetFilename(e)
	vp.Assert(err == nil, "entry has a Rock Ridge name")
	return s
}

// c06RRDirCE: a directory in which two entries need a continuation area (root: the "." entry
// always does, its ER record is 182 bytes; other directories: two names longer than 131 bytes).
func c06RRDirCE(root bool) {
	vp.Unwind(300)
	vp.AllocCap(2600)
	N := 160
	var kids []*finalizeFileInfo
	f1, _, n1 := c06RRFile("a", N)
	vp.Assume(n1 >= 132)
	f1.shortname = "AAAAAAA0"
	kids = append(kids, f1)
	if !root {
		f2, _, n2 := c06RRFile("b", N)
		vp.Assume(n2 >= 132)
		f2.shortname = "AAAAAAA1"
		kids = append(kids, f2)
	}
	dir, fsm, _, size, _, _ := c06RRDir(root, kids, 2048)
	vp.Cover("directory with two continuation areas written")
	vp.NoPanic()
	// KF-C06-6: Directory.entriesToBytes hands the same list of continuation blocks to every entry,
	// so every CE record of a directory points to the first block, and Finalize writes the areas
	// back to back instead of one per block: all but the first continuation area are lost
	vp.KnownPanic("KF-C06-6", "directoryentrysystemuseextension.go")
	got, err := c06ReadDir(fsm, dir.location, size)
	vp.AllowPanic()
	vp.AssertUnless("KF-C06-6", true, err == nil, "directory parsed")
	if err == nil {
		vp.AssertUnless("KF-C06-6", true, len(got) == 2+len(kids), "every entry is read back")
		if len(got) == 2+len(kids) {
			for i, k := range kids {
				vp.AssertUnless("KF-C06-6", true, c06NameOf(fsm, got[2+i]) == k.name, "Rock Ridge name of each entry preserved")
				vp.Assert(got[2+i].location == k.location, "extent of each entry preserved")
			}
		}
	}
}

func VP_C06_rr_dir_root_longname() { c06RRDirCE(true) }
func VP_C06_rr_dir_two_longnames() { c06RRDirCE(false) }

var _ = fmt.Sprintf

package iso9660

import (
	"github.com/diskfs/go-diskfs/internal/vp"
)

// c06Map: the documented mapping of one character of a host name to an ISO 9660 d-character:
// letters are upper-cased, digits and '_' stay, everything else becomes '_'.
func c06Map(c byte) byte {
	if c >= 'a' && c <= 'z' {
		c -= 32
	}
	if (c >= 'A' && c <= 'Z') || (c >= '0' && c <= '9') || c == '_' {
		return c
	}
	return '_'
}

// c06Ref83: reference 8.3 mapping: split at the first '.', map every character, cut to 8 and 3.
func c06Ref83(name string) (base, ext string) {
	dot := len(name)
	for i := 0; i < len(name); i++ {
		if name[i] == '.' {
			dot = i
			break
		}
	}
	for i := 0; i < dot && i < 8; i++ {
		base += string([]byte{c06Map(name[i])})
	}
	for i := dot + 1; i < len(name) && i < dot+4; i++ {
		ext += string([]byte{c06Map(name[i])})
	}
	return base, ext
}

// c06Name83: host file name (concrete: the engine cannot run the regular expressions of
// calculateShortnameExtension/validateISOFilename on symbolic characters) through the chain
// Finalize uses without Rock Ridge/Joliet: calculateShortnameExtension -> finalizeFileInfo ->
// toDirectoryEntry -> toBytes -> parse -> Name(): the reader shows the upper-case 8.3 name of
// the documented rule and the file's extent and size (arbitrary) unchanged.
func c06Name83(name string) {
	vp.Unwind(64)
	short, ext := calculateShortnameExtension(name)
	rb, re := c06Ref83(name)
	vp.Assert(short == rb, "base = first 8 mapped characters before the first '.'")
	vp.Assert(ext == re, "extension = first 3 mapped characters after the first '.'")
	fsm := &FileSystem{blocksize: 2048}
	fi := &finalizeFileInfo{path: name, name: name, shortname: short, extension: ext, modTime: c06Time(),
		location: vp.U32("location"), size: int64(vp.U32("size"))}
	de, err := fi.toDirectoryEntry(fsm, false, false)
	vp.Assert(err == nil, "entry built")
	recs, err := de.toBytes(false, nil)
	vp.Assert(err == nil, "the mapped name is a valid ISO 9660 identifier")
	b := recs[0]
	want := rb + "." + re + ";1"
	vp.Assert(int(b[32]) == len(want), "identifier length")
	vp.Assert(string(b[33:33+len(want)]) == want, "identifier = BASE.EXT;1")
	got, err := parseDirEntry(b, fsm)
	vp.Assert(err == nil, "record parsed")
	shown := rb
	if re != "" {
		shown += "." + re
	}
	vp.Assert(got.Name() == shown, "Name() = BASE.EXT (version and empty extension dropped)")
	vp.Assert(got.location == fi.location, "extent preserved")
	vp.Assert(got.size == uint32(fi.size), "size preserved")
	vp.Assert(!got.IsDir(), "a file stays a file")
	vp.Cover("8.3 name round trip")
}

func VP_C06_names_plain()     { c06Name83("readme.txt") }
func VP_C06_names_long()      { c06Name83("LongFileName.jpeg") }
func VP_C06_names_noext()     { c06Name83("Makefile") }
func VP_C06_names_multidot()  { c06Name83("we ird-na.me.tar.gz") }
func VP_C06_names_nonalnum()  { c06Name83("a+b=c d.t~") }

// VP_C06_names_collision: three files whose 8.3 names collide (plus a sibling that already owns
// the first candidate): after resolveCollisionGroup all identifiers in the directory are
// distinct, still 8.3, and every one is accepted by validateISOFilename.
func VP_C06_names_collision() {
	vp.Unwind(64)
	parent := &finalizeFileInfo{path: ".", isDir: true, isRoot: true}
	var group []*finalizeFileInfo
	for _, n := range []string{"longfilename_a.text", "longfilename_b.text", "longfilename_c.text"} {
		s, e := calculateShortnameExtension(n)
		fi := &finalizeFileInfo{path: n, name: n, shortname: s, extension: e, parent: parent}
		parent.children = append(parent.children, fi)
		group = append(group, fi)
	}
	s, e := calculateShortnameExtension("LONGFIL0.TEX")
	parent.children = append(parent.children, &finalizeFileInfo{path: "LONGFIL0.TEX", name: "LONGFIL0.TEX", shortname: s, extension: e, parent: parent})
	err := resolveCollisionGroup(&collisionGroup{files: group, parent: parent, basename: "LONGFILE", extension: "TEX"})
	vp.Assert(err == nil, "collisions resolved")
	seen := map[string]bool{}
	for _, c := range parent.children {
		id := c.Name()
		vp.Assert(!seen[id], "identifiers in one directory are distinct")
		seen[id] = true
		vp.Assert(len(c.shortname) <= 8, "base at most 8 characters")
		vp.Assert(len(c.shortname) >= 1, "base not empty")
		vp.Assert(validateISOFilename(id, false) == nil, "identifier is valid")
	}
	vp.Cover("collision group resolved")
}

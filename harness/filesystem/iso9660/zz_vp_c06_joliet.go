package iso9660

import (
	"fmt"
	"os"

	"github.com/diskfs/go-diskfs/internal/vp"
	"github.com/diskfs/go-diskfs/internal/vp/vpdev"
)

// c06JolietTree: directories "." > "Dir one" > "sub ä", each with one file; the Joliet directory
// extents are built with the functions Finalize uses (toJolietDirectory,
// calculateJolietDirectorySize, entriesToBytes, createJolietPathTable) and written where the
// records say; file extents and sizes are arbitrary. Then the library's Joliet reader is asked
// for every directory.
func c06JolietTree() (fsm *FileSystem, dirs []*finalizeFileInfo, locs []uint32) {
	mk := func(p, name string, dir bool, i int) *finalizeFileInfo {
		fi := &finalizeFileInfo{path: p, name: name, isDir: dir, modTime: c06Time(), accessTime: c06Time(), changeTime: c06Time()}
		if dir {
			fi.mode = os.ModeDir | 0o755
			fi.shortname = fmt.Sprintf("DIR%d", i)
		} else {
			fi.shortname, fi.extension = fmt.Sprintf("FILE%d", i), "TXT"
			fi.location = vp.U32(fmt.Sprintf("floc%d", i))
			fi.size = int64(vp.U32(fmt.Sprintf("fsize%d", i)))
		}
		return fi
	}
	root := mk(".", "\x00", true, 0)
	root.isRoot, root.shortname, root.depth = true, "\x00", 1
	d1 := mk("Dir one", "Dir one", true, 1)
	d2 := mk("Dir one/sub ä", "sub ä", true, 2)
	f0 := mk("Top file.txt", "Top file.txt", false, 0)
	f1 := mk("Dir one/inner.Data", "inner.Data", false, 1)
	f2 := mk("Dir one/sub ä/deep file", "deep file", false, 2)
	root.children = []*finalizeFileInfo{d1, f0}
	d1.children = []*finalizeFileInfo{d2, f1}
	d2.children = []*finalizeFileInfo{f2}
	root.addProperties(1)
	dirs = []*finalizeFileInfo{root, d1, d2}
	locs = []uint32{40, 41, 42}
	parentLoc := []uint32{40, 40, 41}
	fsm = &FileSystem{blocksize: 2048}
	dev := vpdev.NewMemDev("img", -1)
	var jds []*Directory
	for i, d := range dirs {
		jd, err := d.toJolietDirectory(fsm, locs[i], parentLoc[i])
		vp.Assert(err == nil, "Joliet directory built")
		sz := calculateJolietDirectorySize(jd, 2048)
		jd.size = uint32(sz)
		jd.entries[0].size = uint32(sz)
		jds = append(jds, jd)
	}
	jds[0].entries[1].size = jds[0].entries[0].size
	jds[1].entries[1].size = jds[0].entries[0].size
	jds[2].entries[1].size = jds[1].entries[0].size
	for i, jd := range jds {
		p, err := jd.entriesToBytes(nil)
		vp.Assert(err == nil, "Joliet directory encoded")
		vp.Assert(len(p) == 1, "no continuation areas in the Joliet tree")
		count, end := c06WalkDir(p[0], 2048)
		vp.Assert(count == 2+len(dirs[i].children), "independent walk finds every record")
		vp.Assert(end == int(jd.size), "data length = end of the last record")
		_, _ = dev.WriteAt(p[0], int64(locs[i])*2048)
	}
	pt := createJolietPathTable(dirs, locs)
	ptb := pt.toJolietLBytes()
	fsm.backend = dev
	fsm.jolietEnabled = true
	fsm.jolietPathTable = parseJolietPathTable(ptb)
	rootDE := dirs[0].toJolietDirectoryEntry(fsm, true, false)
	rootDE.location, rootDE.size = locs[0], jds[0].size
	fsm.jolietRootDir = rootDE
	return fsm, dirs, locs
}

func c06JolietRead(which int) {
	vp.Unwind(300)
	fsm, dirs, _ := c06JolietTree()
	d := dirs[which]
	vp.Cover("Joliet tree written")
	got, err := fsm.readDirectory(d.path)
	// KF-C06-2: below the first level the path table lookup fails (KF-C06-1) and the fallback
	// (directoryEntry.getLocation) parses the UCS-2 directory with the ISO 9660 parser, so no name
	// ever matches: "could not find Joliet directory"
	vp.AssertUnless("KF-C06-2", which >= 2, err == nil, "every directory of the Joliet tree can be read")
	if err != nil {
		return
	}
	vp.Assert(len(got) == 2+len(d.children), "self, parent and every child are listed")
	for i, c := range d.children {
		if 2+i < len(got) {
			e := got[2+i]
			vp.Assert(e.filename == c.name, "Joliet name preserved exactly")
			vp.Assert(e.Name() == c.name, "Name() is the Joliet name")
			vp.Assert(e.IsDir() == c.isDir, "directory flag preserved")
			if !c.isDir {
				vp.Assert(e.location == c.location, "file extent preserved")
				vp.Assert(e.size == uint32(c.size), "file size preserved")
			}
		}
	}
	vp.Cover("Joliet directory read back")
}

func VP_C06_joliet_read_root()   { c06JolietRead(0) }
func VP_C06_joliet_read_level1() { c06JolietRead(1) }
func VP_C06_joliet_read_level2() { c06JolietRead(2) }

package iso9660

import (
	"encoding/binary"
	"io"
	"runtime"

	"github.com/diskfs/go-diskfs/backend"
	"github.com/diskfs/go-diskfs/internal/vp"
	"github.com/diskfs/go-diskfs/internal/vp/vpdev"
)

// c18Slack: allocations up to twice the image size plus this constant count as "in proportion
// to the image" (the readers legitimately use fixed buffers of a few KiB).
const c18Slack = 64 << 10

// c18Dev is an image whose every byte is arbitrary. Symbolically it is a vpdev.MemDev with
// uninterpreted content; natively the content is materialised once so that reads do not allocate
// (the native run measures the heap to confirm allocation counterexamples).
type c18Dev struct {
	vpdev.MemDev
	img []byte
}

func c18NewDev(name string, size int64) *c18Dev {
	d := &c18Dev{}
	d.Name, d.Size, d.UF, d.NoWrites = name, size, true, true
	if !vp.Symbolic() {
		d.img = make([]byte, size)
		for i := range d.img {
			d.img[i] = vp.UFByte(name, int64(i))
		}
	}
	return d
}

func (d *c18Dev) ReadAt(p []byte, off int64) (int, error) {
	if vp.Symbolic() {
		return d.MemDev.ReadAt(p, off)
	}
	if off < 0 || off >= d.Size {
		return 0, io.EOF
	}
	n := copy(p, d.img[off:])
	if n < len(p) {
		return n, io.EOF
	}
	return n, nil
}

// put overlays data (concrete and/or arbitrary bytes) on the image.
func (d *c18Dev) put(off int64, data []byte) {
	d.Log = append(d.Log, vpdev.WRec{Off: off, Len: len(data), Data: data})
	if !vp.Symbolic() {
		copy(d.img[off:], data)
	}
}

// c18EOFDev fails every read.
type c18EOFDev struct{ vpdev.MemDev }

func (d *c18EOFDev) ReadAt(p []byte, off int64) (int, error) { return 0, io.EOF }

// c18STDev delivers every read in full: a 4-byte SUSP terminator entry followed by zeros.
type c18STDev struct{ vpdev.MemDev }

func (d *c18STDev) ReadAt(p []byte, off int64) (int, error) {
	if len(p) == 0 {
		return 0, nil
	}
	p[0], p[1], p[2], p[3] = 'S', 'T', 4, 1 // callers read at least 4 bytes
	return len(p), nil
}

// c18AllocBegin/End: the native counterpart of vp.AllocLimit (which only the engine checks):
// more than limit bytes allocated between the two calls is a panic of the NoPanic region.
func c18AllocBegin() uint64 {
	if vp.Symbolic() {
		return 0
	}
	var m runtime.MemStats
	runtime.ReadMemStats(&m)
	return m.TotalAlloc
}

func c18AllocEnd(t0, limit uint64) {
	if vp.Symbolic() {
		return
	}
	var m runtime.MemStats
	runtime.ReadMemStats(&m)
	if m.TotalAlloc-t0 > limit {
		panic("allocation out of proportion to the image size")
	}
}

// c18NullDates: the four 17-byte volume dates as "not specified" and the 7-byte recording date of a
// directory record as a fixed valid date: dates only feed time.Parse / time.Date (standard library,
// not executable symbolically) and cannot influence anything else.
func c18NullDates(vd []byte) {
	for _, o := range []int{813, 830, 847, 864} {
		for k := 0; k < 16; k++ {
			vd[o+k] = '0'
		}
		vd[o+16] = 0
	}
}

func c18RecDate(rec []byte) {
	copy(rec[18:25], []byte{100, 1, 1, 0, 0, 0, 0})
}

// c18VD: volumeDescriptorFromBytes on a 2048-byte descriptor of the given type with the standard
// identifier and arbitrary content otherwise.
func c18VD(typ byte) {
	b := vp.Bytes("vd", 2048)
	b[0] = typ
	copy(b[1:6], "CD001")
	c18NullDates(b)
	c18RecDate(b[156:])
	vp.Unwind(40)
	if typ == 1 || typ == 2 {
		if b[156+32] > 222 {
			// KF-C18-21: name length above 222 in a directory record: 33+namelen is computed in 8 bits
			vp.KnownPanic("KF-C18-21", "iso9660.dirEntryFromBytesWithJoliet) | slice bounds out of range")
		}
	}
	vp.NoPanic()
	vd, err := volumeDescriptorFromBytes(b)
	vp.AllowPanic()
	if err == nil {
		vp.Assert(vd != nil, "descriptor returned")
		vp.Assert(byte(vd.Type()) == typ, "descriptor type preserved")
		if p, ok := vd.(*primaryVolumeDescriptor); ok {
			vp.Assert(p.pathTableSize == binary.LittleEndian.Uint32(b[132:]), "path table size decoded from 132")
			vp.Assert(p.rootDirectoryEntry != nil, "root record returned")
			vp.Assert(p.rootDirectoryEntry.location == binary.LittleEndian.Uint32(b[158:]), "root extent decoded from 158")
		}
		vp.Cover("descriptor accepted")
	} else {
		vp.Cover("descriptor rejected")
	}
}

func VP_C18_iso_vd_boot()          { c18VD(0) }
func VP_C18_iso_vd_primary()       { c18VD(1) }
func VP_C18_iso_vd_supplementary() { c18VD(2) }
func VP_C18_iso_vd_partition()     { c18VD(3) }
func VP_C18_iso_vd_terminator()    { c18VD(255) }
func VP_C18_iso_vd_unknown()       { c18VD(7) }

// VP_C18_iso_vd_badmagic: arbitrary identifier bytes.
func VP_C18_iso_vd_badmagic() {
	b := vp.Bytes("vd", 2048)
	vp.Assume(b[0] == 255)
	vp.NoPanic()
	_, err := volumeDescriptorFromBytes(b)
	vp.AllowPanic()
	if err == nil {
		vp.Assert(b[1] == 'C', "accepted only with the standard identifier")
		vp.Assert(b[5] == '1', "accepted only with the standard identifier")
		vp.Cover("terminator accepted")
	} else {
		vp.Cover("rejected")
	}
}

// c18Dirent: dirEntryFromBytesWithJoliet on a record of arbitrary length n (buffer of exactly n bytes:
// the last record of a directory extent) with arbitrary content.
func c18Dirent(joliet bool, sig string) {
	max := 64
	if sig == "SL" {
		max = 46 // the component loop of SL is expensive: 12 bytes of system use area
	}
	n := vp.Int("n")
	vp.Assume(n >= 0)
	vp.Assume(n <= max)
	all := vp.Bytes("rec", max)
	c18RecDate(all)
	if sig != "" {
		// exactly one system use entry, with this signature, right after a 1-byte name (the engine
		// cannot look up a symbolic signature in the parser map): its length byte is arbitrary but
		// leaves fewer than 4 bytes after it
		all[32] = 1
		copy(all[34:36], sig)
		vp.Assume(34+int(all[36])+3 >= n)
	} else {
		// no system use area: at most 3 bytes after the (padded) name
		vp.Assume(33+int(all[32])+3 >= n)
	}
	b := all[:n:n]
	vp.Unwind(70)
	// KF-C18-22: name length / system use entry lengths reaching beyond the record are not checked
	vp.KnownPanic("KF-C18-22", "iso9660.dirEntryFromBytesWithJoliet) | slice bounds out of range")
	vp.KnownPanic("KF-C18-22", "iso9660.parseDirectoryEntryExtensions) | slice bounds out of range")
	vp.KnownPanic("KF-C18-22", "iso9660.parseSystemUseExtension | index out of range")
	vp.KnownPanic("KF-C18-22", "iso9660.parseSystemUseExtension | slice bounds out of range")
	vp.KnownPanic("KF-C18-22", "iso9660.rockRidgeExtension).parse | index out of range")
	vp.KnownPanic("KF-C18-22", "iso9660.rockRidgeExtension).parse | slice bounds out of range")
	vp.NoPanic()
	de, err := dirEntryFromBytesWithJoliet(b, []suspExtension{getRockRidgeExtension(rockRidge112)}, joliet)
	vp.AllowPanic()
	if err == nil {
		vp.Assert(n >= 34, "accepted records have the minimum size")
		vp.Assert(int(all[0]) == n, "accepted records have the announced length")
		vp.Assert(de.size == binary.LittleEndian.Uint32(all[10:]), "data length decoded from 10")
		vp.Cover("record accepted")
	} else {
		vp.Cover("record rejected")
	}
}

func VP_C18_iso_dirent_plain()  { c18Dirent(false, "") }
func VP_C18_iso_dirent_joliet() { c18Dirent(true, "") }
func VP_C18_iso_dirent_SP()     { c18Dirent(false, "SP") }
func VP_C18_iso_dirent_CE()     { c18Dirent(false, "CE") }
func VP_C18_iso_dirent_ER()     { c18Dirent(false, "ER") }
func VP_C18_iso_dirent_PD()     { c18Dirent(false, "PD") }
func VP_C18_iso_dirent_ST()     { c18Dirent(false, "ST") }
func VP_C18_iso_dirent_ES()     { c18Dirent(false, "ES") }
func VP_C18_iso_dirent_PX()     { c18Dirent(false, "PX") }
func VP_C18_iso_dirent_PN()     { c18Dirent(false, "PN") }
func VP_C18_iso_dirent_SL()     { c18Dirent(false, "SL") }
func VP_C18_iso_dirent_NM()     { c18Dirent(false, "NM") }
func VP_C18_iso_dirent_CL()     { c18Dirent(false, "CL") }
func VP_C18_iso_dirent_PL()     { c18Dirent(false, "PL") }
func VP_C18_iso_dirent_RE()     { c18Dirent(false, "RE") }
func VP_C18_iso_dirent_SF()     { c18Dirent(false, "SF") }
func VP_C18_iso_dirent_XX()     { c18Dirent(false, "XX") }

// c18Dirents: parseDirEntries over an arbitrary directory extent of 2 blocks of 40 bytes; records
// can start at 0, 34 and 40 (their recording dates are concrete) and carry no system use area.
func c18Dirents(joliet bool) {
	const n = 80
	b := vp.Bytes("dir", n)
	for _, o := range []int{0, 34, 40} {
		copy(b[o+18:o+25], []byte{100, 1, 1, 0, 0, 0, 0})
	}
	vp.Assume(b[0] == 0 || b[0] == 34 || b[0] == 40 || b[0] > 80)
	vp.Assume(b[34] == 0 || b[34] > 46)
	vp.Assume(int(b[0]) <= 33+int(b[32])+4 || b[0] > 80)
	vp.Assume(int(b[40]) <= 33+int(b[72])+4 || b[40] > 40)
	if joliet {
		vp.Assume(b[32] <= 8) // short names: the UCS-2 decoding loop is not what this harness is about
		vp.Assume(b[72] <= 8)
	}
	f := &FileSystem{blocksize: 40}
	vp.Unwind(12)
	vp.MaxLoop(6)
	// KF-C18-23: a record length reaching beyond the directory extent is not checked
	vp.KnownPanic("KF-C18-23", "iso9660.parseDirEntries | slice bounds out of range")
	vp.KnownPanic("KF-C18-22", "iso9660.dirEntryFromBytesWithJoliet) | slice bounds out of range")
	vp.NoPanic()
	var ents []*directoryEntry
	var err error
	if joliet {
		ents, err = parseDirEntriesJoliet(b, f)
	} else {
		ents, err = parseDirEntries(b, f)
	}
	vp.AllowPanic()
	if err == nil {
		vp.Assert(len(ents) <= 2, "no more records than fit")
		vp.Cover("extent parsed")
	} else {
		vp.Cover("extent rejected")
	}
}

func VP_C18_iso_dirents()        { c18Dirents(false) }
func VP_C18_iso_dirents_joliet() { c18Dirents(true) }

// c18CEDev is an image of len(areas) blocks, each holding one continuation area; reads are served
// per block (case split on the offset, so that the signatures read stay concrete) and counted.
type c18CEDev struct {
	vpdev.MemDev
	areas           [][]byte
	reads, maxReads int
}

func (d *c18CEDev) ReadAt(p []byte, off int64) (int, error) {
	d.reads++
	// (KF-C18-24, repaired by 938bdf7: continuation areas that point to themselves or to each other were
	// followed for ever; the chain is now cut after a fixed number of areas)
	vp.Assert(d.reads <= d.maxReads, "a continuation chain is followed for a bounded number of areas")
	for k := range d.areas {
		if off == int64(k*len(d.areas[k])) {
			n := copy(p, d.areas[k])
			if n < len(p) {
				return n, io.EOF
			}
			return n, nil
		}
	}
	return 0, io.EOF
}

// VP_C18_iso_ce_chain: parseDirEntry on a record whose system use area ends in a CE entry, over an image
// of 2 blocks of 28 bytes holding one CE entry each (arbitrary target block): whatever the areas point to
// (themselves, each other, outside), the number of areas read is bounded (the library cuts the chain after
// 64 areas: 66 reads allowed here).
func VP_C18_iso_ce_chain() {
	const bs = 28
	dev := &c18CEDev{maxReads: 66}
	f := &FileSystem{blocksize: bs, suspEnabled: true, backend: dev}
	rec := make([]byte, 62)
	rec[0] = 62
	rec[32] = 1
	c18RecDate(rec)
	ce := rec[34:62]
	copy(ce, "CE")
	ce[2], ce[3] = 28, 1
	binary.LittleEndian.PutUint32(ce[4:], vp.U32("ce.block"))
	binary.LittleEndian.PutUint32(ce[20:], 28)
	for k := 0; k < 2; k++ {
		area := make([]byte, bs)
		copy(area, "CE")
		area[2], area[3] = 28, 1
		binary.LittleEndian.PutUint32(area[4:], vp.U32("area"+string(rune('0'+k))+".block"))
		binary.LittleEndian.PutUint32(area[20:], 28)
		dev.areas = append(dev.areas, area)
	}
	vp.Unwind(72)
	vp.AllocCap(64)
	vp.NoPanic()
	_, err := parseDirEntry(rec, f)
	vp.AllowPanic()
	if err == nil {
		vp.Cover("chain ended")
	} else {
		vp.Cover("chain left the image")
	}
}

// VP_C18_iso_ce_alloc: the continuation length of a CE entry is allocated before it is read.
func c18CEAlloc(empty bool) {
	const size = 64 << 10
	var dev backend.Storage = &c18STDev{}
	if !empty {
		// the continuation area lies outside the image: the read fails after the buffer was allocated
		dev = &c18EOFDev{}
	}
	f := &FileSystem{blocksize: 2048, suspEnabled: true, backend: dev}
	rec := make([]byte, 62)
	rec[0] = 62
	rec[32] = 1
	c18RecDate(rec)
	ce := rec[34:62]
	copy(ce, "CE")
	ce[2], ce[3] = 28, vp.U8("ce.version")
	binary.LittleEndian.PutUint32(ce[4:], vp.U32("ce.block"))
	binary.LittleEndian.PutUint32(ce[12:], vp.U32("ce.offset"))
	ln := vp.U32("ce.length")
	if empty {
		ln = 0
	}
	binary.LittleEndian.PutUint32(ce[20:], ln)
	limit := uint64(2*size + c18Slack)
	vp.Unwind(4)
	vp.AllocCap(8)
	vp.AllocLimit(limit)
	// (KF-C18-28, repaired by 938bdf7: a continuation area without entries left the extension list empty and its last element was
	// inspected again)
	vp.NoPanic()
	t0 := c18AllocBegin()
	_, err := parseDirEntry(rec, f)
	c18AllocEnd(t0, limit)
	vp.AllowPanic()
	if err == nil {
		vp.Cover("continuation read")
	} else {
		vp.Cover("continuation failed")
	}
}

func VP_C18_iso_ce_alloc() { c18CEAlloc(false) }

// VP_C18_iso_ce_empty: a continuation area of length 0 at an arbitrary place.
func VP_C18_iso_ce_empty() { c18CEAlloc(true) }

// c18PathTable: parsePathTable / parseJolietPathTable on n arbitrary bytes.
func c18PathTable(joliet bool) {
	n := vp.Bound("ptbytes", 24, 40)
	b := vp.Bytes("pt", n)
	vp.Unwind(n + 3)
	vp.MaxLoop(n) // fewer iterations than bytes, for the record loop and for the UCS-2 name loop
	// KF-C18-25: a record reaching beyond the path table bytes is not checked
	vp.KnownPanic("KF-C18-25", "iso9660.parsePathTable) | index out of range")
	vp.KnownPanic("KF-C18-25", "iso9660.parsePathTable) | slice bounds out of range")
	vp.KnownPanic("KF-C18-25", "iso9660.parseJolietPathTable) | slice bounds out of range")
	vp.NoPanic()
	var pt *pathTable
	if joliet {
		pt = parseJolietPathTable(b)
	} else {
		pt = parsePathTable(b)
	}
	vp.AllowPanic()
	vp.Assert(len(pt.records) <= n/9+1, "no more records than fit")
	vp.Cover("path table parsed")
}

func VP_C18_iso_pathtable()        { c18PathTable(false) }
func VP_C18_iso_pathtable_joliet() { c18PathTable(true) }

// VP_C18_iso_pathtable_lookup: the root lookup on a path table parsed from arbitrary bytes (a table whose
// first byte is 0, or of size 0, has no records).
func VP_C18_iso_pathtable_lookup() {
	b := vp.Bytes("pt", 10)
	vp.Assume(b[0] <= 1)
	vp.Unwind(6)
	pt := parsePathTable(b)
	vp.NoPanic()
	loc := pt.getLocation("/")
	vp.AllowPanic()
	if len(pt.records) == 0 {
		// (KF-C18-26, repaired by bbcd6c2: records[0] was used unconditionally)
		vp.Assert(loc == 0, "an empty path table knows no location")
		vp.Cover("empty path table")
	} else {
		vp.Assert(loc == binary.LittleEndian.Uint32(b[2:]), "root extent from the first record")
		vp.Cover("root looked up")
	}
}

// c18IsoDev is the image of c18IsoRead: zeroed system area, two volume descriptors at 32768 and 34816,
// arbitrary data from 36864 on. Reads are case-split on the offset so that descriptor bytes are not
// looked up through symbolic offsets; pointers (path table, root extent) into the system or descriptor
// area at other offsets are outside the explored inputs (Assume).
type c18IsoDev struct {
	c18Dev
	vd [2][]byte
}

func (d *c18IsoDev) ReadAt(p []byte, off int64) (int, error) {
	if off == 0 {
		return len(p), nil
	}
	for k := 0; k < 2; k++ {
		if off == int64(32768+2048*k) {
			return copy(p, d.vd[k]), nil
		}
	}
	vp.Assume(off >= 36864)
	return d.c18Dev.ReadAt(p, off)
}

// c18IsoRead: iso9660.Read on an image with two volume descriptors of the given types (standard
// identifier, dates "not specified", root record with a 1-byte name and fixed recording date; all other
// descriptor bytes arbitrary) followed by arbitrary data: 32 KiB system area + 2 descriptors + 1 block.
func c18IsoRead(t0typ, t1typ byte, maybeTerm bool) {
	const size = 32768 + 3*2048
	dev := &c18IsoDev{c18Dev: *c18NewDev("img", size)}
	noPVD := t0typ != 1 && t1typ != 1
	for k, typ := range []byte{t0typ, t1typ} {
		vd := vp.Bytes("vd"+string(rune('0'+k)), 2048)
		vd[0] = typ
		if k == 0 && maybeTerm {
			// the first descriptor's type byte is corrupted into a terminator, or not
			corrupted := vp.Bool("typeCorrupted")
			vd[0] = vp.IteU8(corrupted, 255, typ)
			if corrupted {
				noPVD = true
			}
		}
		copy(vd[1:6], "CD001")
		c18NullDates(vd)
		c18RecDate(vd[156:])
		vd[156+32] = 1
		dev.vd[k] = vd
	}
	limit := uint64(2*size + c18Slack)
	vp.Unwind(8)
	vp.AllocCap(16)
	vp.AllocLimit(limit)
	vp.KnownPanic("KF-C18-25", "iso9660.parsePathTable) | index out of range")
	vp.KnownPanic("KF-C18-25", "iso9660.parsePathTable) | slice bounds out of range")
	vp.KnownPanic("KF-C18-25", "iso9660.parseJolietPathTable) | slice bounds out of range")
	vp.NoPanic()
	a0 := c18AllocBegin()
	fs, err := Read(dev, size, 0, 2048)
	c18AllocEnd(a0, limit)
	vp.AllowPanic()
	if err == nil {
		vp.Assert(fs != nil, "filesystem returned")
		vp.Assert(fs.rootDir != nil, "root record present")
		vp.Cover("image accepted")
	} else {
		if noPVD {
			vp.Cover("image without a primary volume descriptor rejected")
		}
		vp.Cover("image rejected")
	}
}

func VP_C18_iso_read_pvd_term() { c18IsoRead(1, 255, true) }
func VP_C18_iso_read_svd_term() { c18IsoRead(2, 255, false) }

// VP_C18_iso_readdir_alloc: readDirectoryPVD allocates the data length found in the directory's own record.
func VP_C18_iso_readdir_alloc() {
	const size = 64 << 10
	dev := c18NewDev("img", size)
	pt := &pathTable{records: []*pathTableEntry{{nameSize: 1, size: 10, location: 20, parentIndex: 1, dirname: "\x00"}}}
	f := &FileSystem{blocksize: 2048, backend: dev, pathTable: pt, size: size}
	f.rootDir = &directoryEntry{location: 20, size: 2048, isSubdirectory: true, filesystem: f}
	limit := uint64(2*size + c18Slack)
	vp.Unwind(6)
	vp.AllocCap(8)
	vp.AllocLimit(limit)
	vp.KnownPanic("KF-C18-23", "iso9660.parseDirEntries | slice bounds out of range")
	vp.KnownPanic("KF-C18-22", "iso9660.dirEntryFromBytesWithJoliet) | slice bounds out of range")
	vp.NoPanic()
	a0 := c18AllocBegin()
	_, err := f.readDirectoryPVD("/")
	c18AllocEnd(a0, limit)
	vp.AllowPanic()
	if err == nil {
		vp.Cover("directory read")
	} else {
		vp.Cover("directory read failed")
	}
}

package iso9660

import (
	"github.com/diskfs/go-diskfs/internal/vp"
	"github.com/diskfs/go-diskfs/internal/vp/vpdev"
)

// c06Blocks: calculateBlocks(size, bs) is the number of logical blocks an extent of `size` bytes
// occupies: the smallest count whose bytes cover size. Hence extents laid out one after the other
// with `location += blocks` (as Finalize does for directories, path tables and files) never
// overlap and a file's bytes end inside its own extent.
func c06Blocks(bs int64) {
	size := int64(vp.U32("size")) // the data length field of a directory record is 32 bits wide
	loc := vp.U32("location")
	blocks := calculateBlocks(size, bs)
	vp.Assert(int64(blocks)*bs >= size, "the blocks cover the data")
	if size > 0 {
		vp.Assert((int64(blocks)-1)*bs < size, "no block more than needed")
	} else {
		vp.Assert(blocks == 0, "an empty file occupies no block")
	}
	next := int64(loc) + int64(blocks)
	vp.Assert(next*bs >= int64(loc)*bs+size, "the next extent starts at or after the end of this one's data")
	vp.Assert(next*bs-(int64(loc)*bs+size) < bs, "less than one block of slack between extents")
	vp.Cover("blocks computed")
}

func VP_C06_blocks_2048() { c06Blocks(2048) }
func VP_C06_blocks_4096() { c06Blocks(4096) }
func VP_C06_blocks_8192() { c06Blocks(8192) }

// c06Sink is a WritableFile that keeps offsets and lengths of the writes and, instead of the
// data, the bytes that land on a few probed offsets (relative to base).
type c06Sink struct {
	vpdev.MemDev
	offs, lens []int64
	base       int64
	probes     []int64
	hit        []bool
	val        []byte
}

func (s *c06Sink) WriteAt(p []byte, off int64) (int, error) {
	s.offs = append(s.offs, off)
	s.lens = append(s.lens, int64(len(p)))
	for k, pr := range s.probes {
		rel := pr - (off - s.base)
		if rel >= 0 && rel < int64(len(p)) {
			s.hit[k] = true
			s.val[k] = p[rel]
		}
	}
	return len(p), nil
}

// VP_C06_copy_file: copyFileData (the loop that puts a workspace file into its extent): the
// source holds S arbitrary bytes (S arbitrary up to a few 2048-byte buffers); the destination
// receives exactly S bytes, back to back from toOffset, and the bytes at the probed file offsets
// (first/last byte of each buffer) are the source's bytes.
func VP_C06_copy_file() {
	maxS := vp.Bound("copybytes", 4500, 6500)
	vp.Unwind(maxS/2048 + 12)
	S := vp.I64("S")
	vp.Assume(S >= 0)
	vp.Assume(S <= int64(maxS))
	src := vpdev.NewMemDev("src", S)
	src.UF = true
	to := int64(vp.U32("toblock")) * 2048
	probes := []int64{0, 2047, 2048, 4499}
	if vp.Thorough() {
		probes = append(probes, 6143, 6144, 6499)
	}
	dst := &c06Sink{base: to, probes: probes, hit: make([]bool, len(probes)), val: make([]byte, len(probes))}
	n, err := copyFileData(src, dst, 0, to, 0)
	vp.Assert(err == nil, "copy succeeds")
	vp.Assert(int64(n) == S, "every byte of the file is copied")
	var pos int64
	for k := range dst.offs {
		vp.Assert(dst.offs[k] == to+pos, "chunks are written back to back from the start of the extent")
		pos += dst.lens[k]
	}
	vp.Assert(pos == S, "exactly the file's bytes are written")
	for k, i := range probes {
		vp.Assert(dst.hit[k] == (i < S), "a file offset is written iff it is inside the file")
		if dst.hit[k] {
			vp.Assert(dst.val[k] == src.ByteAt(i), "destination byte = source byte at the same file offset")
		}
	}
	vp.Cover("file copied")
}

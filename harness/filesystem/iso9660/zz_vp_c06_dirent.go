package iso9660

import (
	"encoding/binary"
	"time"

	"github.com/diskfs/go-diskfs/internal/vp"
)

// c06Time: a concrete recording time (7-byte form); the time codec itself is C19's business,
// here only its position in the record matters.
func c06Time() time.Time {
	return time.Date(2017, 11, 26, 7, 53, 16, 0, time.UTC)
}

// c06Entry builds a directory entry whose numeric fields and flags are arbitrary.
func c06Entry(f *FileSystem, name string, self, parent, joliet bool) *directoryEntry {
	return &directoryEntry{
		extAttrSize:              vp.U8("xattr"),
		location:                 vp.U32("location"),
		size:                     vp.U32("size"),
		creation:                 c06Time(),
		isHidden:                 vp.Bool("hidden"),
		isSubdirectory:           vp.Bool("subdir"),
		isAssociated:             vp.Bool("assoc"),
		hasExtendedAttrs:         vp.Bool("hasxattr"),
		hasOwnerGroupPermissions: vp.Bool("perms"),
		hasMoreEntries:           vp.Bool("more"),
		isSelf:                   self,
		isParent:                 parent,
		joliet:                   joliet,
		volumeSequence:           vp.U16("volseq"),
		filesystem:               f,
		filename:                 name,
	}
}

// c06CheckHeader: the fixed part of a directory record, decoded by an independent reader
// straight from ECMA-119 9.1, carries the entry's fields.
func c06CheckHeader(b []byte, de *directoryEntry) {
	vp.Assert(b[1] == de.extAttrSize, "extended attribute record length")
	vp.Assert(binary.LittleEndian.Uint32(b[2:6]) == de.location, "extent location (LE)")
	vp.Assert(binary.BigEndian.Uint32(b[6:10]) == de.location, "extent location (BE)")
	vp.Assert(binary.LittleEndian.Uint32(b[10:14]) == de.size, "data length (LE)")
	vp.Assert(binary.BigEndian.Uint32(b[14:18]) == de.size, "data length (BE)")
	vp.Assert(b[18] == 117, "year since 1900")
	vp.Assert(b[19] == 11, "month")
	vp.Assert(b[20] == 26, "day")
	vp.Assert(b[21] == 7, "hour")
	vp.Assert(b[22] == 53, "minute")
	vp.Assert(b[23] == 16, "second")
	vp.Assert(b[24] == 0, "GMT offset")
	var fl byte
	fl = vp.IteU8(de.isHidden, fl|0x01, fl)
	fl = vp.IteU8(de.isSubdirectory, fl|0x02, fl)
	fl = vp.IteU8(de.isAssociated, fl|0x04, fl)
	fl = vp.IteU8(de.hasExtendedAttrs, fl|0x08, fl)
	fl = vp.IteU8(de.hasOwnerGroupPermissions, fl|0x10, fl)
	fl = vp.IteU8(de.hasMoreEntries, fl|0x80, fl)
	vp.Assert(b[25] == fl, "file flags")
	vp.Assert(b[26] == 0, "file unit size is 0 (no interleave)")
	vp.Assert(b[27] == 0, "interleave gap is 0")
	vp.Assert(binary.LittleEndian.Uint16(b[28:30]) == de.volumeSequence, "volume sequence (LE)")
	vp.Assert(binary.BigEndian.Uint16(b[30:32]) == de.volumeSequence, "volume sequence (BE)")
}

// c06CheckRecord: a record without system use area: header, identifier, padding, length.
func c06CheckRecord(b []byte, de *directoryEntry, nameBytes []byte) {
	nl := len(nameBytes)
	want := 33 + nl
	if want%2 != 0 {
		want++
	}
	vp.Assert(len(b) == want, "record length = 33 + name length, padded to even")
	vp.Assert(int(b[0]) == len(b), "LEN_DR byte equals the record length")
	vp.Assert(len(b)%2 == 0, "record length is even")
	c06CheckHeader(b, de)
	vp.Assert(int(b[32]) == nl, "LEN_FI equals the identifier length")
	for i := 0; i < nl; i++ {
		vp.Assert(b[33+i] == nameBytes[i], "identifier bytes")
	}
	if nl%2 == 0 {
		vp.Assert(b[33+nl] == 0, "padding byte is zero")
	}
}

// c06CheckDecoded: decoding the record gives back the entry.
func c06CheckDecoded(got, de *directoryEntry, name string) {
	vp.Assert(got.extAttrSize == de.extAttrSize, "rt: extended attribute length")
	vp.Assert(got.location == de.location, "rt: location")
	vp.Assert(got.size == de.size, "rt: size")
	vp.Assert(got.isHidden == de.isHidden, "rt: hidden")
	vp.Assert(got.isSubdirectory == de.isSubdirectory, "rt: subdirectory")
	vp.Assert(got.isAssociated == de.isAssociated, "rt: associated")
	vp.Assert(got.hasExtendedAttrs == de.hasExtendedAttrs, "rt: has extended attrs")
	vp.Assert(got.hasOwnerGroupPermissions == de.hasOwnerGroupPermissions, "rt: permissions")
	vp.Assert(got.hasMoreEntries == de.hasMoreEntries, "rt: more entries")
	vp.Assert(got.volumeSequence == de.volumeSequence, "rt: volume sequence")
	vp.Assert(got.isSelf == de.isSelf, "rt: self")
	vp.Assert(got.isParent == de.isParent, "rt: parent")
	if name != c06SkipName {
		vp.Assert(got.filename == name, "rt: name")
	}
	vp.Assert(got.creation.Equal(de.creation), "rt: recording time")
}

// c06SkipName: marker for "identifier is symbolic" - the engine cannot build a string from symbolic
// runes (string([]rune) in bytesToUCS2String), so the decoded name is only compared for concrete names.
const c06SkipName = "\xff<symbolic>"

func c06DirentRT(name string, nameBytes []byte, self, parent, joliet bool) {
	f := &FileSystem{blocksize: 2048}
	de := c06Entry(f, name, self, parent, joliet)
	if !joliet && !self && !parent {
		// plain names: files carry ";1", directories do not
		de.isSubdirectory = name[len(name)-2:] != ";1"
	}
	recs, err := de.toBytes(false, nil)
	vp.Assert(err == nil, "a valid entry is encoded")
	vp.Assert(len(recs) == 1, "no continuation areas without SUSP")
	b := recs[0]
	c06CheckRecord(b, de, nameBytes)
	got, err := dirEntryFromBytesWithJoliet(b, nil, joliet)
	vp.Assert(err == nil, "the encoded record is decoded")
	want := name
	if self || parent {
		want = ""
	}
	c06CheckDecoded(got, de, want)
	vp.Cover("round trip done")
}

func VP_C06_dirent_self()   { c06DirentRT("", []byte{0}, true, false, false) }
func VP_C06_dirent_parent() { c06DirentRT("", []byte{1}, false, true, false) }
func VP_C06_dirent_joliet() {
	c06DirentRT("Long File.name", []byte{0, 'L', 0, 'o', 0, 'n', 0, 'g', 0, ' ', 0, 'F', 0, 'i', 0, 'l', 0, 'e', 0, '.', 0, 'n', 0, 'a', 0, 'm', 0, 'e'}, false, false, true)
}

// non-ASCII BMP characters: a-umlaut U+00E4, euro U+20AC, CJK U+4E2D
func VP_C06_dirent_joliet_bmp() {
	c06DirentRT("ä€中.x", []byte{0x00, 0xe4, 0x20, 0xac, 0x4e, 0x2d, 0, '.', 0, 'x'}, false, false, true)
}
func VP_C06_dirent_dir()    { c06DirentRT("SUBDIR_1", []byte("SUBDIR_1"), false, false, false) }
func VP_C06_dirent_file83() { c06DirentRT("README.TXT;1", []byte("README.TXT;1"), false, false, false) }
func VP_C06_dirent_file_noext() {
	c06DirentRT("KERNEL.;1", []byte("KERNEL.;1"), false, false, false)
}

// VP_C06_dirent_joliet_len: Joliet identifier of arbitrary length 1..N of arbitrary ASCII
// characters (host file names may be up to 255 bytes; Finalize passes them on unchanged):
// the record carries the UCS-2 name and its length fields describe it.
func VP_C06_dirent_joliet_len() {
	N := vp.Bound("jolietname", 112, 160)
	vp.Unwind(N + 3)
	vp.AllocCap(2*N + 64)
	n := vp.Int("n")
	vp.Assume(n >= 1)
	vp.Assume(n <= N)
	raw := vp.Bytes("name", N)
	for i := 0; i < N; i++ {
		vp.Assume(raw[i] < 0x80)
		vp.Assume(raw[i] >= 0x20)
	}
	f := &FileSystem{blocksize: 2048}
	de := c06Entry(f, string(raw[:n]), false, false, true)
	recs, err := de.toBytes(false, nil)
	vp.Assert(err == nil, "a Joliet entry is encoded")
	b := recs[0]
	want := 33 + 2*n + 1
	vp.Assert(len(b) == want, "record length = 33 + 2 bytes per character + pad")
	// KF-C06-3: names longer than 110 characters give a record of more than 254 bytes: LEN_DR and
	// LEN_FI wrap modulo 256 (Finalize neither rejects nor shortens such names)
	vp.AssertUnless("KF-C06-3", n > 110, int(b[0]) == len(b), "LEN_DR byte equals the record length")
	vp.AssertUnless("KF-C06-3", n > 110, int(b[32]) == 2*n, "LEN_FI equals the identifier length")
	c06CheckHeader(b, de)
	j := vp.Int("probe") // any position of the name
	vp.Assume(j >= 0)
	vp.Assume(j < n)
	vp.Assert(b[33+2*j] == 0, "identifier = the name in UCS-2 big endian (high byte)")
	vp.Assert(b[34+2*j] == raw[j], "identifier = the name in UCS-2 big endian (low byte)")
	vp.Cover("joliet record checked")
}

package iso9660

import (
	"bytes"
	"io"

	"github.com/diskfs/go-diskfs/internal/vp"
	"github.com/diskfs/go-diskfs/internal/vp/vpdev"
)

// C10 for iso9660: one step of Read / Seek / Close from an arbitrary handle state.
// The handle state of an iso9660 File is (offset, closed); the file is immutable, so one step
// from an arbitrary state covers call sequences of any length.

// c10IsoHandle: a file of arbitrary size at an arbitrary extent location on a device whose every
// byte is arbitrary, with the cursor at an arbitrary non-negative position.
func c10IsoHandle() (*File, *vpdev.MemDev) {
	dev := vpdev.NewMemDev("disk", -1)
	dev.UF = true
	dev.NoWrites = true
	fs := &FileSystem{backend: dev, blocksize: 2048}
	de := &directoryEntry{size: vp.U32("size"), location: vp.U32("location"), filesystem: fs, filename: "FILE.TXT"}
	off := vp.I64("offset")
	vp.Assume(off >= 0)
	return &File{directoryEntry: de, offset: off}, dev
}

// VP_C10_iso_read: Read into a buffer of arbitrary length 0..N.
func VP_C10_iso_read() {
	fl, dev := c10IsoHandle()
	size := int64(fl.size)
	off := fl.offset
	N := vp.Bound("iso.buf", 10, 40)
	buf := vp.Bytes("buf", N)
	orig := make([]byte, N)
	copy(orig, buf)
	k := vp.Int("len")
	vp.Assume(k >= 0)
	vp.Assume(k <= N)
	b := buf[:k]

	vp.NoPanic()
	n, err := fl.Read(b)
	vp.AllowPanic()

	// reference (bytes.Reader): n = min(len(b), max(0, size-off))
	rem := size - off
	if rem < 0 {
		rem = 0
	}
	want := int64(k)
	if rem < want {
		want = rem
	}
	vp.Assert(int64(n) == want, "n = min(len(b), bytes remaining)")
	vp.Assert(fl.offset == off+want, "cursor advances by the bytes delivered")
	base := int64(fl.location)*2048 + off
	for i := 0; i < N; i++ {
		if int64(i) < want {
			vp.Assert(buf[i] == dev.ByteAt(base+int64(i)), "delivered byte = file byte at cursor+i")
		} else {
			vp.Assert(buf[i] == orig[i], "buffer beyond n is untouched")
		}
	}
	if err == io.EOF {
		vp.Assert(off+want >= size, "io.EOF only when the end is reached")
		vp.Cover("EOF reported")
	}
	if k > 0 {
		vp.Assert(err == nil || err == io.EOF, "no error other than io.EOF on a well-formed file")
		if want == 0 {
			vp.Assert(err == io.EOF, "a zero-byte read into a non-empty buffer reports io.EOF")
			vp.Cover("read at or past the end")
		}
		if want == int64(k) {
			if off+want < size {
				vp.Assert(err == nil, "a full read that stops before the end reports no error")
				vp.Cover("full read before the end")
			}
		} else if want > 0 {
			vp.Cover("short read at the end")
		}
	} else {
		vp.Cover("empty buffer")
	}
}

// VP_C10_iso_seek: Seek with arbitrary offset and whence.
func VP_C10_iso_seek() {
	fl, _ := c10IsoHandle()
	size := int64(fl.size)
	off := fl.offset
	so := vp.I64("seekoff")
	wh := vp.Int("whence")

	vp.NoPanic()
	pos, err := fl.Seek(so, wh)
	vp.AllowPanic()

	vp.Assert(fl.offset >= 0, "cursor never negative")
	if wh == io.SeekStart || wh == io.SeekCurrent || wh == io.SeekEnd {
		var target int64
		switch wh {
		case io.SeekStart:
			target = so
		case io.SeekCurrent:
			target = off + so
		default:
			target = size + so
		}
		if target < 0 { // includes int64 wrap-around, as in bytes.Reader
			vp.Assert(err != nil, "negative position is rejected")
			vp.Assert(fl.offset == off, "cursor unchanged on error")
			vp.Cover("negative position rejected")
		} else {
			vp.Assert(err == nil, "valid seek succeeds")
			vp.Assert(pos == target, "Seek returns base+offset")
			vp.Assert(fl.offset == target, "cursor = base+offset")
			if target > size {
				vp.Cover("seek past EOF")
			}
			if wh == io.SeekEnd {
				if so < 0 {
					vp.Cover("seek back from the end")
				}
			}
			vp.Cover("seek ok")
		}
	} else {
		vp.Cover("other whence")
	}
}

// VP_C10_iso_closed: after Close neither Read returns data nor is the handle usable.
func VP_C10_iso_closed() {
	fl, _ := c10IsoHandle()
	buf := vp.Bytes("buf", 8)
	k := vp.Int("len")
	vp.Assume(k >= 0)
	vp.Assume(k <= 8)
	cerr := fl.Close()
	vp.Assert(cerr == nil, "Close succeeds")
	n, err := fl.Read(buf[:k])
	if n > 0 {
		vp.Assert(err != nil, "Read after Close does not return data without an error")
	}
	if err != nil {
		vp.Cover("read after close fails with an error")
	}
	vp.Cover("read after close")
}

// VP_C10_iso_sequence_vs_bytes_reader: the executable specification itself. A file of 0..6
// arbitrary bytes; the same three calls (Seek with arbitrary offset/whence, then two Reads with
// arbitrary buffer lengths) are applied to the iso9660 handle and to a bytes.Reader over the
// file's content; results are compared call by call. (io.Reader lets an implementation report
// io.EOF together with the last bytes; bytes.Reader reports it on the next call. So: whenever
// bytes.Reader says io.EOF the handle must, and the handle may say it only at the end.)
func VP_C10_iso_sequence_vs_bytes_reader() {
	const M = 6
	dev := vpdev.NewMemDev("disk", -1)
	dev.UF = true
	dev.NoWrites = true
	fs := &FileSystem{backend: dev, blocksize: 2048}
	size := vp.U32("size")
	vp.Assume(size <= M)
	loc := vp.U32("location")
	fl := &File{directoryEntry: &directoryEntry{size: size, location: loc, filesystem: fs}}
	content := make([]byte, M)
	for i := range content {
		content[i] = dev.ByteAt(int64(loc)*2048 + int64(i))
	}
	ref := bytes.NewReader(content[:size])

	so := vp.I64("seekoff")
	wh := vp.Int("whence")
	vp.Assume(wh >= 0)
	vp.Assume(wh <= 2)
	vp.NoPanic()
	p1, e1 := fl.Seek(so, wh)
	vp.AllowPanic()
	p2, e2 := ref.Seek(so, wh)
	if e2 != nil {
		vp.Assert(e1 != nil, "Seek fails where bytes.Reader.Seek fails")
		vp.Cover("both seeks rejected")
	} else {
		vp.Assert(e1 == nil, "Seek succeeds where bytes.Reader.Seek succeeds")
		vp.Assert(p1 == p2, "Seek returns what bytes.Reader.Seek returns")
	}
	for step := 0; step < 2; step++ {
		k := vp.Int("len" + string(rune('0'+step)))
		vp.Assume(k >= 0)
		vp.Assume(k <= 4)
		b1 := make([]byte, 4)
		b2 := make([]byte, 4)
		vp.NoPanic()
		n1, r1 := fl.Read(b1[:k])
		vp.AllowPanic()
		n2, r2 := ref.Read(b2[:k])
		vp.Assert(n1 == n2, "Read returns as many bytes as bytes.Reader.Read")
		for i := 0; i < 4; i++ {
			vp.Assert(b1[i] == b2[i], "Read delivers the bytes bytes.Reader.Read delivers")
		}
		c1, _ := fl.Seek(0, io.SeekCurrent)
		c2, _ := ref.Seek(0, io.SeekCurrent)
		vp.Assert(c1 == c2, "cursor where bytes.Reader has it")
		if r2 == io.EOF {
			if k > 0 {
				vp.Assert(r1 == io.EOF, "io.EOF where bytes.Reader reports it")
				vp.Cover("both report EOF")
			}
		}
		if r1 == io.EOF {
			vp.Assert(c1 >= int64(size), "io.EOF only at the end")
		} else if k > 0 {
			vp.Assert(r1 == nil, "no other error")
		}
		if n1 > 0 {
			if step == 1 {
				vp.Cover("second read delivers bytes")
			}
		}
	}
}

package iso9660

import (
	"strings"

	"github.com/diskfs/go-diskfs/filesystem"
	"github.com/diskfs/go-diskfs/internal/vp"
	"github.com/diskfs/go-diskfs/internal/vp/vpdev"
	"github.com/diskfs/go-diskfs/internal/vp/vphost"
)

// C12.host_iso_recognised_*: an ISO filesystem produced by the REAL Create + Finalize in the range
// [start, start+size) of a larger device is recognised by iso9660.Read at that start as ISO9660 with its
// label and its content, every byte Finalize writes lies inside the range (vpdev.MemDev.Range asserts it
// on every WriteAt), and - when the image sits in a partition - the blank range in front of it is not
// reported as an ISO filesystem. The workspace is the host model vphost (see zz_vp_c06_host.go).
func c12HostRecognised(start int64) {
	vp.HostFS()
	vp.FixedNow(c06HostNow)
	const size = 1 << 20
	disk := vpdev.NewMemDev("disk", -1)
	disk.Range, disk.Lo, disk.Hi = true, start, start+size
	fs, err := Create(disk, size, start, 2048, "")
	vp.Assert(err == nil, "Create succeeds")
	if err != nil {
		return
	}
	ws := fs.Workspace()
	content := vp.Bytes("content", 5)
	vp.Assert(vphost.WriteFile(ws+"/data.bin", content, 0o644) == nil, "workspace file data.bin")
	vp.Unwind(40)
	err = fs.Finalize(FinalizeOptions{VolumeIdentifier: "MYVOLUME"})
	if err != nil && !vp.Symbolic() {
		println("FINALIZE ERROR:", err.Error())
	}
	vp.Assert(err == nil, "Finalize succeeds")
	if err != nil {
		return
	}
	vp.Assert(len(disk.Log) > 0, "Finalize wrote the image")
	disk.NoWrites = true
	rd, err := Read(disk, size, start, 2048)
	if err != nil && !vp.Symbolic() {
		println("READ ERROR:", err.Error())
	}
	vp.Assert(err == nil, "the image is recognised at the start of its range")
	if err != nil {
		return
	}
	vp.Assert(rd.Type() == filesystem.TypeISO9660, "recognised as ISO9660")
	// KF-C12-5 (fixed by a916757): the identifier came back as 32 bytes, "MYVOLUME" followed by 24 NUL bytes
	vp.Assert(strings.TrimRight(rd.Label(), " ") == "MYVOLUME", "label")
	c06HostListing(rd, ".", []string{"DATA.BIN"}, []bool{false})
	c06HostFile(rd, "DATA.BIN", content)
	if start != 0 {
		_, err = Read(disk, start, 0, 2048)
		vp.Assert(err != nil, "the blank range in front of the image is not an ISO filesystem")
	}
	vp.Cover("image recognised")
}

func VP_C12_host_iso_recognised_start0()    { c12HostRecognised(0) }
func VP_C12_host_iso_recognised_partition() { c12HostRecognised(1 << 20) }

package iso9660

import (
	"encoding/binary"
	"fmt"

	"github.com/diskfs/go-diskfs/internal/vp"
)

// c06Tree builds a directory tree (structure and names concrete, extent locations arbitrary).
// spec: list of directory paths in creation order, parents before children, "." first.
func c06Tree(paths []string) (dirs []*finalizeFileInfo, byPath map[string]*finalizeFileInfo) {
	byPath = map[string]*finalizeFileInfo{}
	for i, p := range paths {
		fi := &finalizeFileInfo{path: p, isDir: true, location: vp.U32(fmt.Sprintf("loc%d", i))}
		if p == "." {
			fi.isRoot = true
			fi.name = "\x00"
			fi.shortname = "\x00"
			fi.depth = 1
		} else {
			parent := "."
			base := p
			for k := len(p) - 1; k >= 0; k-- {
				if p[k] == '/' {
					parent, base = p[:k], p[k+1:]
					break
				}
			}
			fi.name = base
			fi.shortname = base
			fi.parent = byPath[parent]
			fi.depth = fi.parent.depth + 1
			fi.parent.children = append(fi.parent.children, fi)
		}
		byPath[p] = fi
		dirs = append(dirs, fi)
	}
	return dirs, byPath
}

// c06PathTable: the path table built for a tree (createPathTable), written as L and M tables:
//   - L and M tables describe the same records (ECMA-119 9.4), independent decode;
//   - every record's parent number is the 1-based number of the parent directory's record and
//     parents precede children; every directory has a record with the right chain of ancestors.
func c06PathTable(paths []string) {
	dirs, _ := c06Tree(paths)
	pt := createPathTable(dirs)
	vp.Assert(len(pt.records) == len(dirs), "one path table record per directory")
	c06CheckTables(pt, dirs)
	vp.Cover("path table checked")
}

func c06CheckTables(pt *pathTable, dirs []*finalizeFileInfo) {
	lb := pt.toLBytes()
	mb := pt.toMBytes()
	vp.Assert(len(lb) == len(mb), "L and M tables have the same size")
	// independent walk of both tables
	off := 0
	n := 0
	locOf := map[int]uint32{} // record number -> location
	nameOf := map[int]string{}
	parentOf := map[int]int{}
	for off < len(lb) {
		nl := int(lb[off])
		vp.Assert(nl == int(mb[off]), "identifier length equal in L and M")
		vp.Assert(lb[off+1] == 0, "no extended attribute record")
		l := binary.LittleEndian.Uint32(lb[off+2:])
		m := binary.BigEndian.Uint32(mb[off+2:])
		vp.Assert(l == m, "extent location equal in L (little endian) and M (big endian)")
		pl := binary.LittleEndian.Uint16(lb[off+6:])
		pm := binary.BigEndian.Uint16(mb[off+6:])
		vp.Assert(pl == pm, "parent number equal in L and M")
		n++
		locOf[n] = l
		nameOf[n] = string(lb[off+8 : off+8+nl])
		vp.Assert(nameOf[n] == string(mb[off+8:off+8+nl]), "identifier equal in L and M")
		parentOf[n] = int(pl)
		vp.Assert(int(pl) >= 1, "parent number is 1-based")
		vp.Assert(int(pl) <= n, "parent precedes child")
		off += 8 + nl + nl%2
	}
	vp.Assert(n == len(dirs), "the table holds one record per directory")
	vp.Assert(parentOf[1] == 1, "root is its own parent")
	// every directory is in the table under its full chain of ancestors
	for _, d := range dirs {
		found := 0
		for k := 1; k <= n; k++ {
			a, b, ok := d, k, true
			for {
				if a.isRoot {
					ok = ok && b == 1
					break
				}
				if b == 1 || nameOf[b] != a.Name() {
					ok = false
					break
				}
				a, b = a.parent, parentOf[b]
			}
			if ok {
				found = k
			}
		}
		vp.Assert(found != 0, "every directory has a record with the right ancestors")
		vp.Assert(locOf[found] == d.location, "the record carries the directory's extent")
	}
	// the library's own decoder
	pt2 := parsePathTable(lb)
	vp.Assert(len(pt2.records) == n, "parsePathTable finds every record")
	for k := 0; k < n && k < len(pt2.records); k++ {
		r := pt2.records[k]
		vp.Assert(r.location == locOf[k+1], "parsePathTable: location")
		vp.Assert(int(r.parentIndex) == parentOf[k+1], "parsePathTable: parent number")
		vp.Assert(r.dirname == nameOf[k+1], "parsePathTable: name")
	}
}

// c06Rec: one path table record given by the harness in table order (ECMA-119 6.9.1: ordered
// by level, then parent number, then name).
type c06Rec struct {
	path   string
	parent int
}

// c06Lookup: a path table as Finalize lays it out (the harness states the records in the order
// required by ECMA-119 6.9.1), decoded by parsePathTable; looking a directory up by path never
// yields another directory's extent (0 = "not in the table": the reader then walks the tree).
func c06Lookup(recs []c06Rec, joliet bool) {
	pt := &pathTable{}
	for i, r := range recs {
		name := "\x00"
		if r.path != "." {
			name = r.path
			for k := len(r.path) - 1; k >= 0; k-- {
				if r.path[k] == '/' {
					name = r.path[k+1:]
					break
				}
			}
		}
		pt.records = append(pt.records, &pathTableEntry{
			nameSize: uint8(len(name)), size: uint16(8 + len(name) + len(name)%2),
			location: vp.U32(fmt.Sprintf("loc%d", i)), parentIndex: uint16(r.parent), dirname: name,
		})
	}
	var pt2 *pathTable
	if joliet {
		pt2 = parseJolietPathTable(pt.toJolietLBytes())
	} else {
		pt2 = parsePathTable(pt.toLBytes())
	}
	vp.Assert(len(pt2.records) == len(recs), "every record is decoded")
	vp.Cover("table decoded")
	for i, r := range recs {
		got := pt2.getLocation(r.path)
		want := pt.records[i].location
		if c06Depth(r.path) <= 1 {
			vp.Assert(got == want, "root and first-level directories are found in the path table")
			continue
		}
		// KF-C06-1: getLocation never advances the name it compares (current := parts[0]) and takes
		// the slice index, not the 1-based record number, as parent number of the next level: a
		// directory below the first level is not found, or a different directory is returned
		vp.AssertUnless("KF-C06-1", true, got == want || got == 0, "lookup below the first level yields the directory's own extent or 'not in the table'")
		if joliet {
			// the Joliet reader has no working fallback (directoryEntry.getLocation parses the UCS-2
			// directory with the ISO parser), so "not in the table" means the directory is unreachable
			vp.AssertUnless("KF-C06-2", true, got == want, "Joliet: a directory below the first level is found in the path table")
		}
	}
	vp.Cover("lookups done")
}

func c06Depth(p string) int {
	if p == "." {
		return 0
	}
	d := 1
	for i := 0; i < len(p); i++ {
		if p[i] == '/' {
			d++
		}
	}
	return d
}

func c06DistinctLocs(n int) {
	for i := 0; i < n; i++ {
		vp.Assume(vp.U32(fmt.Sprintf("loc%d", i)) != 0)
		for j := 0; j < i; j++ {
			vp.Assume(vp.U32(fmt.Sprintf("loc%d", i)) != vp.U32(fmt.Sprintf("loc%d", j)))
		}
	}
}

func VP_C06_pathtable_flat() {
	c06DistinctLocs(4)
	c06PathTable([]string{".", "B", "A", "C"})
}

func VP_C06_pathtable_nested() {
	c06DistinctLocs(6)
	c06PathTable([]string{".", "A", "B", "A/X", "B/Y", "A/X/Z"})
}

// same name under sibling parents, and a directory named like its parent
func VP_C06_pathtable_samename() {
	c06DistinctLocs(5)
	c06PathTable([]string{".", "A", "B", "A/B", "B/B"})
}

func VP_C06_ptlookup_nested() {
	c06DistinctLocs(6)
	c06Lookup([]c06Rec{{".", 1}, {"A", 1}, {"B", 1}, {"A/X", 2}, {"B/Y", 3}, {"A/X/Z", 4}}, false)
}

func VP_C06_ptlookup_samename() {
	c06DistinctLocs(5)
	c06Lookup([]c06Rec{{".", 1}, {"A", 1}, {"B", 1}, {"A/B", 2}, {"B/B", 3}}, false)
}

func VP_C06_ptlookup_joliet() {
	c06DistinctLocs(4)
	c06Lookup([]c06Rec{{".", 1}, {"Dir one", 1}, {"Dir one/sub", 2}, {"Dir one/sub/deep", 3}}, true)
}

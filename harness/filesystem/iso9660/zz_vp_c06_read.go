package iso9660

import (
	"time"

	"github.com/diskfs/go-diskfs/internal/vp"
	"github.com/diskfs/go-diskfs/internal/vp/vpdev"
)

// c06Dev: MemDev whose 32 KiB system area (which Read fetches in one call and ignores) is
// delivered as zeros without evaluating 32768 symbolic bytes one by one.
type c06Dev struct {
	*vpdev.MemDev
	sysStart int64
}

func (d *c06Dev) ReadAt(p []byte, off int64) (int, error) {
	if off == d.sysStart && int64(len(p)) == systemAreaSize {
		return len(p), nil
	}
	return d.MemDev.ReadAt(p, off)
}

// c06ReadImage: a minimal plain ISO 9660 image (PVD, terminator, root directory with one file,
// path tables; descriptors and records produced by the library's own encoders, geometry as
// Finalize lays it out: root at block 18, L/M path tables at 19/20, file data at 21) placed
// `start` bytes into the device (file content arbitrary, rest of the device zero). Read(dev, 0,
// start, 2048) must find the tree: block N of the file system is at start + N*2048.
func c06ReadImage(start int64) {
	vp.Unwind(64)
	bs := int64(2048)
	f := &FileSystem{blocksize: bs}
	now := time.Date(2024, 2, 29, 23, 59, 58, 0, time.UTC)
	fsize := uint32(5) // sizes are covered by the record codec harnesses; here: where the bytes come from
	content := vp.Bytes("content", 5)
	mk := func(name string, loc, size uint32, dir, self, parent bool) *directoryEntry {
		return &directoryEntry{location: loc, size: size, creation: c06Time(), isSubdirectory: dir, isSelf: self, isParent: parent,
			volumeSequence: 1, filesystem: f, filename: name}
	}
	d := &Directory{directoryEntry: *mk("", 18, 0, true, true, false)}
	d.filesystem = f
	d.entries = []*directoryEntry{mk("", 18, 116, true, true, false), mk("", 18, 116, true, false, true), mk("DATA.BIN;1", 21, fsize, false, false, false)}
	p, err := d.entriesToBytes(nil)
	vp.Assert(err == nil, "root directory encoded")
	pt := &pathTable{records: []*pathTableEntry{{nameSize: 1, size: 10, location: 18, parentIndex: 1, dirname: "\x00"}}}
	pvd := &primaryVolumeDescriptor{volumeIdentifier: "ISOIMAGE", volumeSize: 24, setSize: 1, sequenceNumber: 1, blocksize: 2048,
		pathTableSize: 10, pathTableLLocation: 19, pathTableMLocation: 20,
		creation: now, modification: now, expiration: now, effective: now, rootDirectoryEntry: d.entries[0]}
	pb := pvd.toBytes()
	c06NullDates(pb)
	mem := vpdev.NewMemDev("disk", start+64*bs)
	dev := &c06Dev{MemDev: mem, sysStart: start}
	put := func(block int64, data []byte) {
		dev.Log = append(dev.Log, vpdev.WRec{Off: start + block*bs, Len: len(data), Data: data})
	}
	put(16, pb)
	put(17, (&terminatorVolumeDescriptor{}).toBytes())
	put(18, p[0])
	put(19, pt.toLBytes())
	put(20, pt.toMBytes())
	put(21, content)
	dev.NoWrites = true
	vp.Cover("image placed")
	fs, err := Read(dev, 0, start, bs)
	// KF-C06-9 (fixed in /repo by 12ee181 while this harness was being written): only the volume
	// descriptors were read at start+...; path table, directories and file data were read at
	// absolute block*blocksize, so an image that does not begin at byte 0 of the backend (a
	// partition) was not readable (and Finalize wrote at absolute offsets as well)
	vp.AssertUnless("KF-C06-9", start != 0, err == nil, "the image is opened")
	if err != nil {
		return
	}
	vp.AssertUnless("KF-C06-9", start != 0, len(fs.pathTable.records) == 1, "path table read from start + location*blocksize")
	des, err := fs.ReadDir(".")
	vp.AssertUnless("KF-C06-9", start != 0, err == nil, "root directory listed")
	if err != nil {
		return
	}
	vp.AssertUnless("KF-C06-9", start != 0, len(des) == 1, "one entry")
	if len(des) != 1 {
		return
	}
	vp.Assert(des[0].Name() == "DATA.BIN", "file name")
	fl, err := fs.OpenFile("DATA.BIN", 0)
	vp.Assert(err == nil, "file opened")
	buf := make([]byte, 8)
	n, _ := fl.Read(buf)
	vp.Assert(n >= 1, "file has data")
	for i := 0; i < 8; i++ {
		if i < n {
			vp.AssertUnless("KF-C06-9", start != 0, buf[i] == content[i], "file bytes come from start + extent*blocksize")
		}
	}
	vp.Assert(int64(n) <= int64(fsize), "no more than the file size is delivered")
	vp.Cover("image read")
}

func VP_C06_read_image_at_0()         { c06ReadImage(0) }
func VP_C06_read_image_in_partition() { c06ReadImage(1 << 20) }

package squashfs

import (
	"os"
	"time"

	"github.com/diskfs/go-diskfs/internal/vp"
)

// C07.codecs: every on-disk record of a squashfs image (inode header, inode bodies, block size
// words, directory header/entries, fragment entries, inode references, metadata block headers,
// superblock) reads back as written. Oracles are written straight from the squashfs 4.0 on-disk
// format (little endian, field offsets as in the kernel's squashfs_fs.h).

func c07le16(b []byte, o int) uint16 { return uint16(b[o]) | uint16(b[o+1])<<8 }
func c07le32(b []byte, o int) uint32 {
	return uint32(b[o]) | uint32(b[o+1])<<8 | uint32(b[o+2])<<16 | uint32(b[o+3])<<24
}
func c07le64(b []byte, o int) uint64 { return uint64(c07le32(b, o)) | uint64(c07le32(b, o+4))<<32 }

// VP_C07_codec_inode_header: 16-byte common inode header.
func VP_C07_codec_inode_header() {
	h := &inodeHeader{
		inodeType: inodeType(vp.U16("type")),
		uidIdx:    vp.U16("uid"),
		gidIdx:    vp.U16("gid"),
		modTime:   time.Unix(int64(vp.U32("mtime")), 0),
		index:     vp.U32("index"),
		mode:      0,
	}
	// the header stores the 12 low unix mode bits (permissions + setuid/setgid/sticky); the Go
	// mode carrying them is built here independently of the library's conversion
	perm := vp.U16("perm")
	vp.Assume(perm <= 0o7777)
	gm := os.FileMode(perm & 0o777)
	if perm&0o4000 != 0 {
		gm |= os.ModeSetuid
	}
	if perm&0o2000 != 0 {
		gm |= os.ModeSetgid
	}
	if perm&0o1000 != 0 {
		gm |= os.ModeSticky
	}
	h.mode = gm
	b := h.toBytes()
	vp.Assert(len(b) == 16, "inode header is 16 bytes")
	vp.Assert(c07le16(b, 0) == vp.U16("type"), "type at 0")
	vp.Assert(c07le16(b, 2) == perm, "permissions at 2")
	vp.Assert(c07le16(b, 4) == vp.U16("uid"), "uid index at 4")
	vp.Assert(c07le16(b, 6) == vp.U16("gid"), "gid index at 6")
	vp.Assert(c07le32(b, 8) == vp.U32("mtime"), "mtime at 8")
	vp.Assert(c07le32(b, 12) == vp.U32("index"), "inode number at 12")
	h2, err := parseInodeHeader(b)
	vp.Assert(err == nil, "header parses")
	vp.Assert(h2.inodeType == h.inodeType, "type round trip")
	vp.Assert(h2.uidIdx == h.uidIdx, "uid round trip")
	vp.Assert(h2.gidIdx == h.gidIdx, "gid round trip")
	vp.Assert(h2.index == h.index, "index round trip")
	vp.Assert(h2.mode == gm, "mode round trip (permissions, setuid, setgid, sticky)")
	vp.Assert(h2.modTime.Unix() == int64(vp.U32("mtime")), "mtime round trip")
	vp.Cover("inode header round trip")
}

// VP_C07_codec_dir_inodes: basic and extended directory inode bodies.
func VP_C07_codec_dir_inodes() {
	bd := basicDirectory{startBlock: vp.U32("start"), links: vp.U32("links"), fileSize: vp.U16("size16"), offset: vp.U16("off"), parentInodeIndex: vp.U32("parent")}
	b := bd.toBytes()
	vp.Assert(len(b) == 16, "basic directory body is 16 bytes")
	vp.Assert(c07le32(b, 0) == bd.startBlock, "bdir start_block at 0")
	vp.Assert(c07le32(b, 4) == bd.links, "bdir nlink at 4")
	vp.Assert(c07le16(b, 8) == bd.fileSize, "bdir file_size at 8")
	vp.Assert(c07le16(b, 10) == bd.offset, "bdir offset at 10")
	vp.Assert(c07le32(b, 12) == bd.parentInodeIndex, "bdir parent at 12")
	bd2, err := parseBasicDirectory(b)
	vp.Assert(err == nil, "bdir parses")
	vp.Assert(*bd2 == bd, "bdir round trip")
	vp.Assert(bd2.size() == int64(vp.U16("size16")), "bdir size() is the listing size field")

	ed := extendedDirectory{links: vp.U32("links"), fileSize: vp.U32("size32"), startBlock: vp.U32("start"), parentInodeIndex: vp.U32("parent"),
		indexCount: 0, offset: vp.U16("off"), xAttrIndex: vp.U32("xattr")}
	b = ed.toBytes()
	vp.Assert(len(b) == 24, "extended directory body is 24 bytes")
	vp.Assert(c07le32(b, 0) == ed.links, "edir nlink at 0")
	vp.Assert(c07le32(b, 4) == ed.fileSize, "edir file_size at 4")
	vp.Assert(c07le32(b, 8) == ed.startBlock, "edir start_block at 8")
	vp.Assert(c07le32(b, 12) == ed.parentInodeIndex, "edir parent at 12")
	vp.Assert(c07le16(b, 16) == 0, "edir index count at 16")
	vp.Assert(c07le16(b, 18) == ed.offset, "edir offset at 18")
	vp.Assert(c07le32(b, 20) == ed.xAttrIndex, "edir xattr at 20")
	ed2, extra, err := parseExtendedDirectory(b)
	vp.Assert(err == nil, "edir parses")
	vp.Assert(extra == 0, "edir without index needs no more bytes")
	vp.Assert(ed2.links == ed.links, "edir links round trip")
	vp.Assert(ed2.fileSize == ed.fileSize, "edir size round trip")
	vp.Assert(ed2.startBlock == ed.startBlock, "edir start round trip")
	vp.Assert(ed2.parentInodeIndex == ed.parentInodeIndex, "edir parent round trip")
	vp.Assert(ed2.offset == ed.offset, "edir offset round trip")
	vp.Assert(ed2.xAttrIndex == ed.xAttrIndex, "edir xattr round trip")
	vp.Assert(ed2.size() == int64(vp.U32("size32")), "edir size() is the listing size field")
	vp.Cover("directory inode bodies round trip")
}

// c07Blocks builds n block size words with arbitrary size (<= 1 MiB, the largest block) and flag.
func c07Blocks(p string, n int) []*blockData {
	var l []*blockData
	for i := 0; i < n; i++ {
		sz := vp.U32(p + "bsz" + string(rune('0'+i)))
		vp.Assume(sz <= 1<<20)
		l = append(l, &blockData{size: sz, compressed: vp.Bool(p + "bc" + string(rune('0'+i)))})
	}
	return l
}

func c07CheckBlocks(b []byte, off int, want, got []*blockData) {
	vp.Assert(len(got) == len(want), "block list has one word per block")
	for i := range want {
		w := c07le32(b, off+4*i)
		vp.Assert(w&0xffffff == want[i].size, "size word: low 24 bits are the on-disk size")
		vp.Assert((w&(1<<24) != 0) == !want[i].compressed, "size word: bit 24 set means stored uncompressed")
		vp.Assert(w>>25 == 0, "size word: upper bits are zero")
		if i < len(got) {
			vp.Assert(got[i].size == want[i].size, "block size round trip")
			vp.Assert(got[i].compressed == want[i].compressed, "block compressed flag round trip")
		}
	}
}

// c07FileInodes: basic and extended file inode bodies for a file of k full blocks plus a tail;
// tailBlock says whether the tail is stored as a block of its own (no fragment) or in a fragment.
func c07FileInodes(p string, blocksize int, k int, tailBlock bool) {
	tail := vp.U32(p + "tail")
	vp.Assume(tail < uint32(blocksize))
	frag := vp.U32(p + "frag")
	n := k
	if tailBlock {
		vp.Assume(tail > 0)
		vp.Assume(frag == 0xffffffff)
		n = k + 1
	} else if vp.Bool(p + "hastail") {
		vp.Assume(tail > 0)
		vp.Assume(frag != 0xffffffff)
	} else {
		vp.Assume(tail == 0)
	}
	size := uint32(k*blocksize) + tail
	blocks := c07Blocks(p, n)
	bf := basicFile{blocksStart: vp.U32(p + "start"), fragmentBlockIndex: frag, fragmentOffset: vp.U32(p + "fragoff"), fileSize: size, blockSizes: blocks}
	b := bf.toBytes()
	vp.Assert(len(b) == 16+4*n, "basic file body is 16 bytes + block list")
	vp.Assert(c07le32(b, 0) == bf.blocksStart, "bfile start_block at 0")
	vp.Assert(c07le32(b, 4) == frag, "bfile fragment at 4")
	vp.Assert(c07le32(b, 8) == bf.fragmentOffset, "bfile offset at 8")
	vp.Assert(c07le32(b, 12) == size, "bfile file_size at 12")
	bf2, extra, err := parseBasicFile(b, blocksize)
	vp.Assert(err == nil, "bfile parses")
	vp.Assert(extra == 0, "bfile complete")
	vp.Assert(bf2.blocksStart == bf.blocksStart, "bfile start round trip")
	vp.Assert(bf2.fragmentBlockIndex == frag, "bfile fragment round trip")
	vp.Assert(bf2.fragmentOffset == bf.fragmentOffset, "bfile fragment offset round trip")
	vp.Assert(bf2.fileSize == size, "bfile size round trip")
	vp.Assert(bf2.size() == int64(size), "bfile size()")
	c07CheckBlocks(b, 16, blocks, bf2.blockSizes)
	// a truncated body (fixed part only) announces how many more bytes are needed
	_, extra, err = parseBasicFile(b[:16], blocksize)
	vp.Assert(err == nil, "bfile fixed part parses")
	vp.Assert(extra == 4*n, "bfile: missing bytes = 4 per block")

	// extended file: 64-bit start and size; the size may exceed 4 GiB
	hi := uint64(vp.U16(p + "sizehi"))
	size64 := hi<<32 | uint64(size)
	if hi != 0 {
		// the block list of a file > 4 GiB is longer than what this harness builds
		size64 = uint64(size)
	}
	ef := extendedFile{blocksStart: vp.U64(p + "start64"), fileSize: size64, sparse: vp.U64(p + "sparse"), links: vp.U32(p + "links"),
		fragmentBlockIndex: frag, fragmentOffset: vp.U32(p + "fragoff"), xAttrIndex: vp.U32(p + "xattr"), blockSizes: blocks}
	b = ef.toBytes()
	vp.Assert(len(b) == 40+4*n, "extended file body is 40 bytes + block list")
	vp.Assert(c07le64(b, 0) == ef.blocksStart, "efile start_block at 0")
	vp.Assert(c07le64(b, 8) == size64, "efile file_size at 8")
	vp.Assert(c07le64(b, 16) == ef.sparse, "efile sparse at 16")
	vp.Assert(c07le32(b, 24) == ef.links, "efile nlink at 24")
	vp.Assert(c07le32(b, 28) == frag, "efile fragment at 28")
	vp.Assert(c07le32(b, 32) == ef.fragmentOffset, "efile offset at 32")
	vp.Assert(c07le32(b, 36) == ef.xAttrIndex, "efile xattr at 36")
	ef2, extra, err := parseExtendedFile(b, blocksize)
	vp.Assert(err == nil, "efile parses")
	vp.Assert(extra == 0, "efile complete")
	vp.Assert(ef2.blocksStart == ef.blocksStart, "efile start round trip")
	vp.Assert(ef2.fileSize == size64, "efile size round trip")
	vp.Assert(ef2.sparse == ef.sparse, "efile sparse round trip")
	vp.Assert(ef2.links == ef.links, "efile links round trip")
	vp.Assert(ef2.fragmentBlockIndex == frag, "efile fragment round trip")
	vp.Assert(ef2.fragmentOffset == ef.fragmentOffset, "efile fragment offset round trip")
	vp.Assert(ef2.xAttrIndex == ef.xAttrIndex, "efile xattr round trip")
	c07CheckBlocks(b, 40, blocks, ef2.blockSizes)
	_, extra, err = parseExtendedFile(b[:40], blocksize)
	vp.Assert(err == nil, "efile fixed part parses")
	vp.Assert(extra == 4*n, "efile: missing bytes = 4 per block")
	// the widening used by Open keeps every field
	x := bf.toExtended()
	vp.Assert(x.blocksStart == uint64(bf.blocksStart), "toExtended keeps start")
	vp.Assert(x.fileSize == uint64(size), "toExtended keeps size")
	vp.Assert(x.fragmentBlockIndex == frag, "toExtended keeps fragment index")
	vp.Assert(x.fragmentOffset == bf.fragmentOffset, "toExtended keeps fragment offset")
	vp.Assert(len(x.blockSizes) == n, "toExtended keeps block list")
}

func VP_C07_codec_file_inodes_4k() {
	for k := 0; k <= 2; k++ {
		c07FileInodes("f"+string(rune('0'+k)), 4096, k, false)
		c07FileInodes("t"+string(rune('0'+k)), 4096, k, true)
	}
	vp.Cover("file inode bodies round trip (4 KiB blocks)")
}
func VP_C07_codec_file_inodes_128k() {
	for k := 0; k <= 2; k++ {
		c07FileInodes("f"+string(rune('0'+k)), 131072, k, false)
		c07FileInodes("t"+string(rune('0'+k)), 131072, k, true)
	}
	vp.Cover("file inode bodies round trip (128 KiB blocks)")
}
func VP_C07_codec_file_inodes_1m() {
	for k := 0; k <= 2; k++ {
		c07FileInodes("f"+string(rune('0'+k)), 1<<20, k, false)
		c07FileInodes("t"+string(rune('0'+k)), 1<<20, k, true)
	}
	vp.Cover("file inode bodies round trip (1 MiB blocks)")
}

// c07Name: a string of n arbitrary bytes.
func c07Name(p string, n int) string { return string(vp.Bytes(p, n)) }

// VP_C07_codec_symlinks: basic and extended symlink bodies; target length case-split, bytes arbitrary.
func VP_C07_codec_symlinks() {
	lens := []int{1, 2, 7, 40}
	if vp.Thorough() {
		lens = append(lens, 255, 1000)
	}
	for li, n := range lens {
		p := "l" + string(rune('0'+li))
		tgt := c07Name(p+"target", n)
		bs := basicSymlink{links: vp.U32(p + "links"), target: tgt}
		b := bs.toBytes()
		vp.Assert(len(b) == 8+n, "basic symlink body is 8 bytes + target")
		vp.Assert(c07le32(b, 0) == bs.links, "symlink nlink at 0")
		vp.Assert(c07le32(b, 4) == uint32(n), "symlink_size at 4 is the target length")
		for i := 0; i < n; i++ {
			vp.Assert(b[8+i] == tgt[i], "target bytes follow")
		}
		bs2, extra, err := parseBasicSymlink(b)
		vp.Assert(err == nil, "basic symlink parses")
		vp.Assert(extra == 0, "basic symlink complete")
		vp.Assert(bs2.links == bs.links, "basic symlink links round trip")
		vp.Assert(bs2.target == tgt, "basic symlink target round trip")
		// with trailing bytes of the next inode the target is still exactly n bytes
		b3 := append(append([]byte{}, b...), vp.Bytes(p+"next", 5)...)
		bs3, extra, err := parseBasicSymlink(b3)
		vp.Assert(err == nil, "basic symlink parses with trailing data")
		vp.Assert(extra == 0, "basic symlink complete with trailing data")
		vp.Assert(bs3.target == tgt, "basic symlink target is not extended by trailing data")
		// fixed part only: says how much is missing
		_, extra, err = parseBasicSymlink(b[:8])
		vp.Assert(err == nil, "basic symlink fixed part parses")
		vp.Assert(extra == n, "basic symlink: missing bytes = target length")

		es := extendedSymlink{links: vp.U32(p + "links"), target: tgt, xAttrIndex: vp.U32(p + "xattr")}
		b = es.toBytes()
		vp.Assert(len(b) == 12+n, "extended symlink body is 8 bytes + target + 4")
		vp.Assert(c07le32(b, 0) == es.links, "esymlink nlink at 0")
		vp.Assert(c07le32(b, 4) == uint32(n), "esymlink_size at 4")
		vp.Assert(c07le32(b, 8+n) == es.xAttrIndex, "esymlink xattr after the target")
		es2, extra, err := parseExtendedSymlink(b)
		vp.Assert(err == nil, "extended symlink parses")
		vp.Assert(extra == 0, "extended symlink complete")
		vp.Assert(es2.links == es.links, "extended symlink links round trip")
		vp.Assert(es2.target == tgt, "extended symlink target round trip")
		vp.Assert(es2.xAttrIndex == es.xAttrIndex, "extended symlink xattr round trip")
		_, extra, err = parseExtendedSymlink(b[:8])
		vp.Assert(err == nil, "extended symlink fixed part parses")
		vp.Assert(extra >= n+4, "extended symlink: missing bytes cover target and xattr index")
	}
	vp.Cover("symlink bodies round trip")
}

// VP_C07_codec_dev_ipc: device and IPC inode bodies. rdev uses the kernel's new_encode_dev layout
// (12-bit major, 20-bit minor).
func VP_C07_codec_dev_ipc() {
	major, minor := vp.U32("major"), vp.U32("minor")
	vp.Assume(major < 1<<12)
	vp.Assume(minor < 1<<20)
	bd := basicDevice{links: vp.U32("links"), major: major, minor: minor}
	b := bd.toBytes()
	vp.Assert(len(b) == 8, "device body is 8 bytes")
	vp.Assert(c07le32(b, 0) == bd.links, "dev nlink at 0")
	vp.Assert(c07le32(b, 4) == (minor&0xff)|(major<<8)|((minor&^0xff)<<12), "rdev is new_encode_dev(major, minor)")
	bd2, err := parseBasicDevice(b)
	vp.Assert(err == nil, "device parses")
	vp.Assert(*bd2 == bd, "device round trip")
	ed := extendedDevice{links: vp.U32("links"), major: major, minor: minor, xAttrIndex: vp.U32("xattr")}
	b = ed.toBytes()
	vp.Assert(len(b) == 12, "extended device body is 12 bytes")
	vp.Assert(c07le32(b, 8) == ed.xAttrIndex, "edev xattr at 8")
	ed2, err := parseExtendedDevice(b)
	vp.Assert(err == nil, "extended device parses")
	vp.Assert(*ed2 == ed, "extended device round trip")
	bi := basicIPC{links: vp.U32("links")}
	b = bi.toBytes()
	vp.Assert(len(b) == 4, "ipc body is 4 bytes")
	bi2, err := parseBasicIPC(b)
	vp.Assert(err == nil, "ipc parses")
	vp.Assert(*bi2 == bi, "ipc round trip")
	ei := extendedIPC{links: vp.U32("links"), xAttrIndex: vp.U32("xattr")}
	b = ei.toBytes()
	vp.Assert(len(b) == 8, "extended ipc body is 8 bytes")
	ei2, err := parseExtendedIPC(b)
	vp.Assert(err == nil, "extended ipc parses")
	vp.Assert(*ei2 == ei, "extended ipc round trip")
	vp.Cover("device and ipc bodies round trip")
}

// VP_C07_codec_words: block size word, fragment entry, inode reference, metadata block header.
func VP_C07_codec_words() {
	// data block size word
	sz := vp.U32("size")
	vp.Assume(sz <= 1<<20)
	bd := &blockData{size: sz, compressed: vp.Bool("comp")}
	w := bd.toUint32()
	vp.Assert(w&0xffffff == sz, "low 24 bits = size")
	vp.Assert((w&(1<<24) != 0) == !bd.compressed, "bit 24 = stored uncompressed")
	bd2 := parseBlockData(w)
	vp.Assert(bd2.size == sz, "block word size round trip")
	vp.Assert(bd2.compressed == bd.compressed, "block word flag round trip")
	// any word decodes into size and flag without mixing them
	any := vp.U32("anyword")
	bd3 := parseBlockData(any)
	vp.Assert(bd3.size == any&0xffffff, "decoded size excludes the flag bit")
	vp.Assert(bd3.compressed == (any&(1<<24) == 0), "decoded flag is bit 24 only")

	// fragment entry: u64 start, u32 size word, u32 unused
	fe := &fragmentEntry{start: vp.U64("fstart"), size: sz, compressed: vp.Bool("fcomp")}
	b := fe.toBytes()
	vp.Assert(len(b) == 16, "fragment entry is 16 bytes")
	vp.Assert(c07le64(b, 0) == fe.start, "fragment start at 0")
	vp.Assert(c07le32(b, 8)&0xffffff == sz, "fragment size word at 8")
	vp.Assert((c07le32(b, 8)&(1<<24) != 0) == !fe.compressed, "fragment uncompressed bit")
	vp.Assert(c07le32(b, 12) == 0, "fragment unused word is zero")
	fe2, err := parseFragmentEntry(b)
	vp.Assert(err == nil, "fragment entry parses")
	vp.Assert(*fe2 == *fe, "fragment entry round trip")

	// inode reference: block << 16 | offset
	ir := &inodeRef{block: vp.U32("iblock"), offset: vp.U16("ioff")}
	u := ir.toUint64()
	vp.Assert(u == uint64(ir.block)<<16|uint64(ir.offset), "inode reference = block<<16 | offset")
	ir2 := parseRootInode(u)
	vp.Assert(*ir2 == *ir, "inode reference round trip")

	// metadata block header
	n := int(vp.U16("mlen"))
	vp.Assume(n >= 1)
	vp.Assume(n <= 8192)
	hdr := uint16(n)
	stored := vp.Bool("mstored")
	if stored {
		hdr |= 0x8000
	}
	hb := []byte{byte(hdr), byte(hdr >> 8)}
	size, compressed, err := getMetadataSize(hb)
	vp.Assert(err == nil, "metadata header parses")
	vp.Assert(int(size) == n, "metadata size excludes the flag bit")
	vp.Assert(compressed == !stored, "metadata bit 15 set means stored uncompressed")
	vp.Cover("words round trip")
}

// VP_C07_codec_dir_header_entry: directory header and a single directory entry.
func VP_C07_codec_dir_header_entry() {
	cnt := vp.U32("count")
	vp.Assume(cnt >= 1)
	vp.Assume(cnt <= 256)
	dh := &directoryHeader{count: cnt, startBlock: vp.U32("start"), inode: vp.U32("inode")}
	b := dh.toBytes()
	vp.Assert(len(b) == 12, "directory header is 12 bytes")
	vp.Assert(c07le32(b, 0) == cnt-1, "count-1 at 0")
	vp.Assert(c07le32(b, 4) == dh.startBlock, "start_block at 4")
	vp.Assert(c07le32(b, 8) == dh.inode, "inode_number at 8")
	dh2, err := parseDirectoryHeader(b)
	vp.Assert(err == nil, "directory header parses")
	vp.Assert(*dh2 == *dh, "directory header round trip")

	lens := []int{1, 2, 13, 256}
	for li, n := range lens {
		p := "e" + string(rune('0'+li))
		name := c07Name(p+"name", n)
		base := vp.U32(p + "base")
		delta := vp.U32(p + "delta")
		vp.Assume(delta <= 32767) // the on-disk delta is a signed 16-bit number
		vp.Assume(base <= 0xffffffff-delta)
		e := &directoryEntryRaw{offset: vp.U16(p + "off"), inodeNumber: base + delta, inodeType: inodeType(vp.U16(p + "type")), name: name}
		b = e.toBytes(base)
		vp.Assert(len(b) == 8+n, "directory entry is 8 bytes + name")
		vp.Assert(c07le16(b, 0) == e.offset, "entry offset at 0")
		vp.Assert(uint32(c07le16(b, 2)) == delta, "entry inode delta at 2")
		vp.Assert(c07le16(b, 4) == uint16(e.inodeType), "entry type at 4")
		vp.Assert(int(c07le16(b, 6)) == n-1, "entry name_size at 6 is len-1")
		b = append(b, vp.Bytes(p+"next", 3)...)
		e2, used, err := parseDirectoryEntry(b, base)
		vp.Assert(err == nil, "directory entry parses")
		vp.Assert(used == 8+n, "entry consumes exactly its bytes")
		vp.Assert(e2.offset == e.offset, "entry offset round trip")
		vp.Assert(e2.inodeNumber == e.inodeNumber, "entry inode number round trip")
		vp.Assert(e2.inodeType == e.inodeType, "entry type round trip")
		vp.Assert(e2.name == name, "entry name round trip")
		vp.Assert(e2.isSubdirectory == (e.inodeType == inodeBasicDirectory || e.inodeType == inodeExtendedDirectory), "subdirectory flag follows the type")
	}
	vp.Cover("directory header and entry round trip")
}

// c07Superblock: superblock round trip for one block size; everything else arbitrary.
func c07Superblock(p string, blocksize uint32, log uint16) {
	fl := vp.U16(p + "flags")
	s := &superblock{
		inodes: vp.U32(p + "inodes"), modTime: time.Unix(int64(vp.U32(p+"mtime")), 0), blocksize: blocksize,
		fragmentCount: vp.U32(p + "frags"), compression: compression(vp.U16(p + "comp")), idCount: vp.U16(p + "ids"),
		versionMajor: 4, versionMinor: 0,
		rootInode: &inodeRef{block: vp.U32(p + "rootblock"), offset: vp.U16(p + "rootoff")},
		size:      vp.U64(p + "size"), idTableStart: vp.U64(p + "idstart"), xattrTableStart: vp.U64(p + "xattrstart"),
		inodeTableStart: vp.U64(p + "inodestart"), directoryTableStart: vp.U64(p + "dirstart"),
		fragmentTableStart: vp.U64(p + "fragstart"), exportTableStart: vp.U64(p + "exportstart"),
		superblockFlags: superblockFlags{
			uncompressedInodes: fl&0x1 != 0, uncompressedData: fl&0x2 != 0, uncompressedFragments: fl&0x8 != 0,
			noFragments: fl&0x10 != 0, alwaysFragments: fl&0x20 != 0, dedup: fl&0x40 != 0, exportable: fl&0x80 != 0,
			uncompressedXattrs: fl&0x100 != 0, noXattrs: fl&0x200 != 0, compressorOptions: fl&0x400 != 0, uncompressedIDs: fl&0x800 != 0,
		},
	}
	b := s.toBytes()
	vp.Assert(len(b) == 96, "superblock is 96 bytes")
	vp.Assert(c07le32(b, 0) == 0x73717368, "magic hsqs")
	vp.Assert(c07le32(b, 4) == s.inodes, "inode count at 4")
	vp.Assert(c07le32(b, 8) == vp.U32(p+"mtime"), "mkfs time at 8")
	vp.Assert(c07le32(b, 12) == blocksize, "block size at 12")
	vp.Assert(c07le32(b, 16) == s.fragmentCount, "fragment count at 16")
	vp.Assert(c07le16(b, 20) == uint16(s.compression), "compression id at 20")
	vp.Assert(c07le16(b, 22) == log, "block log at 22 is log2(block size)")
	vp.Assert(c07le16(b, 24) == fl&0x0ffb, "flags at 24 (bit 2 unused)")
	vp.Assert(c07le16(b, 26) == s.idCount, "id count at 26")
	vp.Assert(c07le16(b, 28) == 4, "major version 4")
	vp.Assert(c07le16(b, 30) == 0, "minor version 0")
	vp.Assert(c07le64(b, 32) == uint64(s.rootInode.block)<<16|uint64(s.rootInode.offset), "root inode reference at 32")
	vp.Assert(c07le64(b, 40) == s.size, "bytes used at 40")
	vp.Assert(c07le64(b, 48) == s.idTableStart, "id table start at 48")
	vp.Assert(c07le64(b, 56) == s.xattrTableStart, "xattr table start at 56")
	vp.Assert(c07le64(b, 64) == s.inodeTableStart, "inode table start at 64")
	vp.Assert(c07le64(b, 72) == s.directoryTableStart, "directory table start at 72")
	vp.Assert(c07le64(b, 80) == s.fragmentTableStart, "fragment table start at 80")
	vp.Assert(c07le64(b, 88) == s.exportTableStart, "export table start at 88")
	s2, err := parseSuperblock(b)
	vp.Assert(err == nil, "superblock parses")
	if err != nil {
		return
	}
	vp.Assert(s2.inodes == s.inodes, "inodes round trip")
	vp.Assert(s2.modTime.Unix() == int64(vp.U32(p+"mtime")), "mkfs time round trip")
	vp.Assert(s2.blocksize == blocksize, "block size round trip")
	vp.Assert(s2.fragmentCount == s.fragmentCount, "fragment count round trip")
	vp.Assert(s2.compression == s.compression, "compression round trip")
	vp.Assert(s2.idCount == s.idCount, "id count round trip")
	vp.Assert(*s2.rootInode == *s.rootInode, "root inode round trip")
	vp.Assert(s2.size == s.size, "bytes used round trip")
	vp.Assert(s2.idTableStart == s.idTableStart, "id table start round trip")
	vp.Assert(s2.xattrTableStart == s.xattrTableStart, "xattr table start round trip")
	vp.Assert(s2.inodeTableStart == s.inodeTableStart, "inode table start round trip")
	vp.Assert(s2.directoryTableStart == s.directoryTableStart, "directory table start round trip")
	vp.Assert(s2.fragmentTableStart == s.fragmentTableStart, "fragment table start round trip")
	vp.Assert(s2.exportTableStart == s.exportTableStart, "export table start round trip")
	vp.Assert(s2.superblockFlags == s.superblockFlags, "flags round trip")
}

// VP_C07_codec_superblock: the nine legal block sizes 4 KiB .. 1 MiB.
func VP_C07_codec_superblock() {
	for l := 12; l <= 20; l++ {
		c07Superblock("b"+string(rune('a'+l-12)), uint32(1)<<uint(l), uint16(l))
		vp.Assert(validateBlocksize(int64(1)<<uint(l)) == nil, "power of two in 4 KiB..1 MiB is a valid block size")
	}
	vp.Assert(validateBlocksize(2048) != nil, "2 KiB is refused")
	vp.Assert(validateBlocksize(2<<20) != nil, "2 MiB is refused")
	vp.Assert(validateBlocksize(12288) != nil, "a non power of two is refused")
	vp.Cover("superblock round trip for the nine block sizes")
}

// c07Entries: n directory entries with arbitrary offset/type/inode number (<= 32767, header inode 0 as
// Finalize writes it) and short arbitrary names.
func c07Entries(p string, n int, sameBlock bool) []*directoryEntryRaw {
	var l []*directoryEntryRaw
	for i := 0; i < n; i++ {
		q := p + string(rune('a'+i/26)) + string(rune('a'+i%26))
		ino := vp.U32(q + "ino")
		vp.Assume(ino <= 32767)
		t := inodeType(vp.U16(q + "type"))
		e := &directoryEntryRaw{offset: vp.U16(q + "off"), inodeNumber: ino, inodeType: t, name: c07Name(q+"name", 1+i%3),
			isSubdirectory: t == inodeBasicDirectory || t == inodeExtendedDirectory}
		if sameBlock {
			e.startBlock = vp.U32(p + "start")
		} else {
			e.startBlock = vp.U32(q + "start")
		}
		l = append(l, e)
	}
	return l
}

// many: the listing has more than 256 consecutive entries whose inodes share a metadata block
// (finding KF-C07-1: directory.toBytes never starts a new header after 256 entries).
func c07CheckListing(b []byte, want []*directoryEntryRaw, many bool) {
	// independent walk over the listing: every header announces 1..256 entries
	pos, seen := 0, 0
	for k := 0; k < len(want)+1 && pos+12 <= len(b); k++ {
		cnt := int(c07le32(b, pos)) + 1
		vp.Assert(cnt >= 1, "a header announces at least one entry")
		vp.AssertUnless("KF-C07-1", many, cnt <= 256, "a header announces at most 256 entries")
		pos += 12
		for j := 0; j < cnt && seen < len(want); j++ {
			pos += 8 + len(want[seen].name)
			seen++
		}
	}
	vp.Assert(seen == len(want), "headers account for every entry")
	vp.Assert(pos == len(b), "listing has no stray bytes")
	d2, err := parseDirectory(b)
	vp.AssertUnless("KF-C07-1", many, err == nil, "listing parses")
	if err != nil {
		return
	}
	vp.Assert(len(d2.entries) == len(want), "listing has as many entries as were written")
	for i := range want {
		if i < len(d2.entries) {
			g := d2.entries[i]
			vp.Assert(g.name == want[i].name, "entry name")
			vp.Assert(g.offset == want[i].offset, "entry inode offset")
			vp.Assert(g.startBlock == want[i].startBlock, "entry inode block (from its header)")
			vp.Assert(g.inodeType == want[i].inodeType, "entry type")
			vp.Assert(g.inodeNumber == want[i].inodeNumber, "entry inode number")
			vp.Assert(g.isSubdirectory == want[i].isSubdirectory, "entry subdirectory flag")
		}
	}
}

// VP_C07_codec_directory: a listing of 3 entries whose inodes lie in arbitrary metadata blocks
// (headers are inserted where the block changes).
func VP_C07_codec_directory() {
	d := &directory{entries: c07Entries("d", 3, false)}
	b := d.toBytes(0)
	c07CheckListing(b, d.entries, false)
	vp.Cover("listing round trip")
}

// VP_C07_codec_directory_empty: an empty directory has an empty listing and parses to no entries,
// also from the 3 stray bytes the reader hands over (inode size = listing size + 3).
func VP_C07_codec_directory_empty() {
	d := &directory{}
	b := d.toBytes(0)
	vp.Assert(len(b) == 0, "empty directory has an empty listing")
	d2, err := parseDirectory(vp.Bytes("stray", 3))
	vp.Assert(err == nil, "empty listing parses")
	vp.Assert(len(d2.entries) == 0, "empty listing has no entries")
	vp.Cover("empty directory")
}

// c07DirectoryMany: n entries whose inodes share one metadata block.
func c07DirectoryMany(n int) {
	d := &directory{entries: c07Entries("m", n, true)}
	b := d.toBytes(0)
	vp.Cover("large listing built")
	c07CheckListing(b, d.entries, n > 256)
	vp.Cover("large listing round trip")
}

func VP_C07_codec_directory_256() { c07DirectoryMany(256) }
func VP_C07_codec_directory_257() { c07DirectoryMany(257) }

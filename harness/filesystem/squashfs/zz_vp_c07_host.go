package squashfs

import (
	"io"
	"os"

	"github.com/diskfs/go-diskfs/internal/vp"
	"github.com/diskfs/go-diskfs/internal/vp/vpdev"
	"github.com/diskfs/go-diskfs/internal/vp/vphost"
)

// C07.host_*: the REAL Create + Finalize + Read. The host workspace is the in-memory model vphost in
// the engine (file sizes, contents, permission bits, owners and times are solver variables) and a real
// temporary directory natively. Asserted: the image opened with squashfs.Read contains exactly the tree
// that was put into the workspace.

// c07HostRead reads file p of fs completely (at most max bytes).
func c07HostRead(fs *FileSystem, p string, max int) ([]byte, error) {
	f, err := fs.OpenFile(p, os.O_RDONLY)
	if err != nil {
		return nil, err
	}
	buf := make([]byte, max+1)
	total := 0
	for k := 0; k < 4 && total < len(buf); k++ {
		n, err := f.Read(buf[total:])
		total += n
		if err == io.EOF {
			break
		}
		if err != nil {
			return nil, err
		}
		if n == 0 {
			break
		}
	}
	return buf[:total], nil
}

func c07HostSmall(start int64, opts FinalizeOptions) {
	vp.HostFS()
	const blocksize = 4096
	const devsize = 1 << 20
	disk := vpdev.NewMemDev("disk", -1)
	if start != 0 {
		disk.Range, disk.Lo, disk.Hi = true, start, start+devsize
	}
	fs, err := Create(disk, devsize, start, blocksize)
	vp.Assert(err == nil, "Create succeeds")
	if err != nil {
		return
	}
	ws := fs.Workspace()
	const capA, capB = 9, 6
	asize, bsize := vp.Int("asize"), vp.Int("bsize")
	vp.Assume(asize >= 0)
	vp.Assume(asize <= capA)
	vp.Assume(bsize >= 0)
	vp.Assume(bsize <= capB)
	a, b := vp.Bytes("a", capA), vp.Bytes("b", capB)
	amode := os.FileMode(vp.U16("amode")) & 0o777
	mtime := int64(vp.U32("amtime"))
	vp.Assert(vphost.WriteFile(ws+"/a.txt", a[:asize], 0o644) == nil, "workspace file a.txt")
	vp.Assert(vphost.Chmod(ws+"/a.txt", amode) == nil, "chmod a.txt")
	vp.Assert(vphost.Chtimes(ws+"/a.txt", mtime) == nil, "chtimes a.txt")
	uid, gid := vp.U32("auid"), vp.U32("agid")
	// disjoint ranges (and different from the 0 of the other entries) keep the id table's map lookups decidable
	// without forking; os.Lchown takes ints, so below 2^31
	vp.Assume(uid >= 1000)
	vp.Assume(uid < 1<<31)
	vp.Assume(gid >= 1)
	vp.Assume(gid < 1000)
	vp.Assert(vphost.Lchown(ws+"/a.txt", uid, gid) == nil, "chown a.txt")
	vp.Assert(vphost.MkdirAll(ws+"/d", 0o755) == nil, "workspace dir d")
	vp.Assert(vphost.WriteFile(ws+"/d/b", b[:bsize], 0o600) == nil, "workspace file d/b")
	vp.Assert(vphost.Symlink("a.txt", ws+"/l") == nil, "workspace symlink l")

	vp.Unwind(24)
	vp.AllocCap(64)
	err = fs.Finalize(opts)
	if err != nil && !vp.Symbolic() {
		println("FINALIZE ERROR:", err.Error())
	}
	vp.Assert(err == nil, "Finalize succeeds")
	if err != nil {
		return
	}

	disk.NoWrites = true
	rd, err := Read(disk, devsize, start, blocksize)
	vp.Assert(err == nil, "finalized image opens")
	if err != nil {
		return
	}
	ents, err := rd.ReadDir(".")
	if err != nil && !vp.Symbolic() {
		println("READDIR ERROR:", err.Error())
	}
	vp.Assert(err == nil, "root listing")
	if err != nil {
		return
	}
	vp.Assert(len(ents) == 3, "root has exactly a.txt, d, l")
	if len(ents) == 3 {
		vp.Assert(ents[0].Name() == "a.txt", "first entry a.txt")
		vp.Assert(ents[1].Name() == "d", "second entry d")
		vp.Assert(ents[2].Name() == "l", "third entry l")
		vp.Assert(ents[1].IsDir(), "d is a directory")
		vp.Assert(!ents[0].IsDir(), "a.txt is not a directory")
		fi, err := ents[0].Info()
		vp.Assert(err == nil, "info of a.txt")
		if err == nil {
			vp.Assert(fi.Size() == int64(asize), "size of a.txt")
			vp.Assert(fi.Mode().Perm() == amode, "permission bits of a.txt")
			vp.Assert(fi.ModTime().Unix() == mtime, "mtime of a.txt")
			if st, ok := fi.Sys().(*StatT); ok {
				vp.Assert(st.UID == uid, "owner of a.txt")
				vp.Assert(st.GID == gid, "group of a.txt")
			} else {
				vp.Assert(false, "Sys() of a listed entry is *StatT")
			}
		}
	}
	got, err := c07HostRead(rd, "a.txt", capA)
	vp.Assert(err == nil, "a.txt readable")
	vp.Assert(len(got) == asize, "a.txt length")
	for i := 0; i < capA && i < len(got); i++ {
		vp.Assert(got[i] == a[i], "a.txt content")
	}
	got, err = c07HostRead(rd, "d/b", capB)
	vp.Assert(err == nil, "d/b readable")
	vp.Assert(len(got) == bsize, "d/b length")
	for i := 0; i < capB && i < len(got); i++ {
		vp.Assert(got[i] == b[i], "d/b content")
	}
	sub, err := rd.ReadDir("d")
	vp.Assert(err == nil, "listing of d")
	vp.Assert(len(sub) == 1, "d has exactly b")
	if len(ents) == 3 {
		if fi, err := ents[2].Info(); err == nil {
			if st, ok := fi.Sys().(*StatT); ok {
				vp.Assert(st.LinkTarget == "a.txt", "symlink target of l")
			}
		}
	}
	// OpenFile follows the symbolic link l -> a.txt
	got, err = c07HostRead(rd, "l", capA)
	vp.Assert(err == nil, "l readable through the link")
	vp.Assert(len(got) == asize, "content length through the link")
	vp.Cover("tree read back")
}

func VP_C07_host_small_start0()    { c07HostSmall(0, FinalizeOptions{}) }
func VP_C07_host_small_partition() { c07HostSmall(1<<20, FinalizeOptions{NoPad: true}) }

// c07HostPattern: the content byte i of file k (concrete pattern; the sizes are the solver variables here).
func c07HostPattern(k, i int) byte { return byte(i*31 + k*17 + i/251) }

// c07HostFrags: a tree whose file tails need TWO fragment blocks (two files of sx and sy bytes, 2500..3000)
// plus a file of one full data block and a tail (sz = 4096+0..9 bytes): real Create + Finalize + Read, every
// file reads back with its size and its bytes at probe positions (first, last, around the block boundary).
// The sizes are concrete per variant (a symbolic length of this magnitude costs an ite per buffer byte
// per copy); the bytes at the probe positions, the modification time and the mode are solver variables.
func c07HostFrags(sx, sy, sz int, opts FinalizeOptions) {
	vp.HostFS()
	const blocksize = 4096
	const devsize = 1 << 20
	disk := vpdev.NewMemDev("disk", -1)
	fs, err := Create(disk, devsize, 0, blocksize)
	vp.Assert(err == nil, "Create succeeds")
	if err != nil {
		return
	}
	ws := fs.Workspace()
	probes := []int{0, 1, 2047, 2499, 4095, 4096}
	mk := func(k, n int) []byte {
		b := make([]byte, n)
		for i := range b {
			b[i] = c07HostPattern(k, i)
		}
		for j, i := range probes {
			if i < n {
				b[i] = vp.U8("probe" + string(rune('0'+k)) + string(rune('a'+j)))
			}
		}
		b[n-1] = vp.U8("last" + string(rune('0'+k)))
		return b
	}
	x, y, z := mk(1, sx), mk(2, sy), mk(3, sz)
	mtime := int64(vp.U32("mtime"))
	vp.Assert(vphost.WriteFile(ws+"/x", x, 0o644) == nil, "workspace file x")
	vp.Assert(vphost.WriteFile(ws+"/y", y, 0o644) == nil, "workspace file y")
	vp.Assert(vphost.WriteFile(ws+"/z", z, 0o644) == nil, "workspace file z")
	vp.Assert(vphost.Chtimes(ws+"/y", mtime) == nil, "chtimes y")
	vp.Unwind(24)
	vp.AllocCap(64)
	err = fs.Finalize(opts)
	vp.Assert(err == nil, "Finalize succeeds")
	if err != nil {
		return
	}
	disk.NoWrites = true
	rd, err := Read(disk, devsize, 0, blocksize)
	vp.Assert(err == nil, "finalized image opens")
	if err != nil {
		return
	}
	check := func(name string, want []byte) {
		got, err := c07HostRead(rd, name, len(want))
		vp.Assert(err == nil, "file readable")
		vp.Assert(len(got) == len(want), "file length as in the workspace")
		if len(got) != len(want) {
			return
		}
		for _, i := range probes {
			if i < len(want) {
				vp.Assert(got[i] == want[i], "file content at probe position")
			}
		}
		vp.Assert(got[len(want)-1] == want[len(want)-1], "last byte of the file")
		for i := 3; i < len(want); i += 97 {
			vp.Assert(got[i] == want[i], "file content on the 97-byte grid")
		}
	}
	check("x", x)
	check("y", y)
	check("z", z)
	fi, err := rd.Stat("y")
	vp.Assert(err == nil, "stat y")
	if err == nil {
		vp.Assert(fi.ModTime().Unix() == mtime, "mtime of y")
	}
	vp.Cover("tree with two fragment blocks read back")
}

func VP_C07_host_two_fragment_blocks()   { c07HostFrags(3000, 2999, 4100, FinalizeOptions{}) }
func VP_C07_host_two_fragment_blocks_b() { c07HostFrags(2500, 2600, 4096, FinalizeOptions{NoPad: true}) }

// first fragment block longer than the last one: whatever follows the fragment section must start
// after the LAST fragment block's slot, not after its bytes
func VP_C07_host_two_fragment_blocks_c() { c07HostFrags(4000, 2500, 4096, FinalizeOptions{}) }
func VP_C07_host_two_fragment_blocks_d() { c07HostFrags(4095, 2, 8192+5, FinalizeOptions{NonExportable: true}) }

package squashfs

import (
	"github.com/diskfs/go-diskfs/internal/vp"
	"github.com/diskfs/go-diskfs/internal/vp/vpdev"
)

// C07.finalize: the pieces of Finalize that turn what the data/fragment/directory writers recorded
// into inodes (createInodes, updateInodesFromDirectories) keep every value; the xattr writer does
// not crash on an ordinary attribute set.

// VP_C07_finalize_file_inode: the inode of a regular file carries the data location, the size, the
// block list and the fragment reference recorded for it - for any link count (0 on platforms
// without link counts), any file size and any position in the image.
func VP_C07_finalize_file_inode() {
	size := vp.I64("size")
	vp.Assume(size >= 0)
	vp.Assume(size < 1<<44)
	loc := vp.I64("dataloc")
	vp.Assume(loc >= 96)
	vp.Assume(loc < 1<<44)
	links := vp.U32("links")
	blocks := c07Blocks("b", 2)
	e := &finalizeFileInfo{path: "f", name: "f", fileType: fileRegular, size: size, dataLocation: loc,
		startBlock: vp.U64("startblock"), links: links, blocks: blocks}
	vp.Assume(e.startBlock < 1<<40)
	hasFrag := vp.Bool("hasfrag")
	if hasFrag {
		e.fragment = &fragmentRef{block: vp.U32("fragblock"), offset: vp.U32("fragoff")}
	}
	extractXattrs([]*finalizeFileInfo{e})
	uid := uint32(0)
	err := createInodes([]*finalizeFileInfo{e}, map[uint32]uint16{}, FinalizeOptions{FileUID: &uid, FileGID: &uid})
	vp.Assert(err == nil, "inode created")
	var (
		start, fsize     uint64
		fragIdx, fragOff uint32
		list             []*blockData
	)
	switch b := e.inode.getBody().(type) {
	case *basicFile:
		vp.Assert(e.inode.inodeType() == inodeBasicFile, "header type matches body")
		start, fsize, fragIdx, fragOff, list = uint64(b.blocksStart), uint64(b.fileSize), b.fragmentBlockIndex, b.fragmentOffset, b.blockSizes
		if !hasFrag {
			vp.Assert(fragIdx == 0xffffffff, "no fragment is recorded as 0xffffffff")
		}
	case *extendedFile:
		vp.Assert(e.inode.inodeType() == inodeExtendedFile, "header type matches body")
		start, fsize, fragIdx, fragOff, list = b.blocksStart, b.fileSize, b.fragmentBlockIndex, b.fragmentOffset, b.blockSizes
		vp.Assert(b.links == links, "link count")
	default:
		vp.Assert(false, "a regular file gets a file inode")
	}
	// KF-C07-4: without a link count (links == 0: Windows, wasip1) the 32-bit inode form is chosen
	// by looking at the block index, not at the byte position, of the data
	vp.AssertUnless("KF-C07-4", links == 0 && loc > 0xffffffff, start == uint64(loc), "inode points at the first data block")
	vp.Assert(fsize == uint64(size), "inode carries the file size")
	vp.Assert(len(list) == 2, "inode carries the block list")
	if len(list) == 2 {
		vp.Assert(list[0] == blocks[0], "first block word")
		vp.Assert(list[1] == blocks[1], "second block word")
	}
	if hasFrag {
		vp.Assert(fragIdx == e.fragment.block, "inode carries the fragment block index")
		vp.Assert(fragOff == e.fragment.offset, "inode carries the fragment offset")
	}
	vp.Cover("file inode built")
}

// VP_C07_finalize_dir_inode: the inode of a directory carries the position and the size (+3) of its
// listing, whatever the link count and however long the listing.
func VP_C07_finalize_dir_inode() {
	links := vp.U32("links")
	e := &finalizeFileInfo{path: "d", name: "d", fileType: fileDirectory, isDir: true, size: int64(vp.U32("ossize")), links: links,
		startBlock: 0, directory: &directory{}}
	listing := vp.U32("listing") // bytes of the listing (entries + headers)
	vp.Assume(listing <= 1<<28)
	e.directoryLocation = blockPosition{block: vp.U32("block"), offset: vp.U16("offset"), size: int(listing) + 3}
	vp.Assume(e.directoryLocation.offset < 8192)
	extractXattrs([]*finalizeFileInfo{e})
	uid := uint32(0)
	err := createInodes([]*finalizeFileInfo{e}, map[uint32]uint16{}, FinalizeOptions{FileUID: &uid, FileGID: &uid})
	vp.Assert(err == nil, "inode created")
	err = updateInodesFromDirectories([]*finalizeFileInfo{e})
	vp.Assert(err == nil, "inode updated")
	var (
		block uint32
		off   uint16
		size  int64
	)
	switch b := e.inode.getBody().(type) {
	case *basicDirectory:
		vp.Assert(e.inode.inodeType() == inodeBasicDirectory, "header type matches body")
		block, off, size = b.startBlock, b.offset, b.size()
	case *extendedDirectory:
		vp.Assert(e.inode.inodeType() == inodeExtendedDirectory, "header type matches body")
		block, off, size = b.startBlock, b.offset, b.size()
	default:
		vp.Assert(false, "a directory gets a directory inode")
	}
	vp.Assert(block == e.directoryLocation.block, "inode carries the listing's block")
	vp.Assert(off == e.directoryLocation.offset, "inode carries the listing's offset")
	// KF-C07-5: without a link count the 16-bit inode form is chosen whatever the listing size
	vp.AssertUnless("KF-C07-5", links == 0 && listing+3 > 0xffff, size == int64(listing)+3, "inode carries the listing size + 3")
	vp.Cover("directory inode built")
}

// VP_C07_finalize_xattrs: writing the xattr table for one file with one attribute does not crash
// and accounts for its bytes.
func VP_C07_finalize_xattrs() {
	dev := vpdev.NewMemDev("img", -1)
	val := c07Name("value", 4)
	vp.Cover("xattr writer called")
	vp.NoPanic()
	written, start, err := writeXattrs([]map[string]string{{"user.k": val}}, dev, nil, 4096)
	vp.AllowPanic()
	vp.Assert(err == nil, "xattr table written")
	c07Contiguous(dev, 0, 4096, written)
	vp.Assert(start >= 4096, "table start inside what was written")
	vp.Assert(start < 4096+uint64(written), "table start inside what was written")
	vp.Cover("xattr table written")
}

package squashfs

import (
	"io"
	"os"
	"time"

	"github.com/diskfs/go-diskfs/backend"
	"github.com/diskfs/go-diskfs/internal/vp"
	"github.com/diskfs/go-diskfs/internal/vp/vpdev"
)

// C07.image: a complete image (superblock, one fragment block, inode/directory/fragment/export/id
// tables) assembled with the writers Finalize uses, in Finalize's order, for the tree
//
//	./a (file smaller than a block, arbitrary content and size)  ./l (symlink)  ./d/ (empty)
//
// and opened with squashfs.Read - at offset 0 of the device and inside a partition (Create/Read wrap
// the device in backend.Sub). Finalize itself (walkTree, os.Open of workspace files) cannot run in
// the engine; the superblock is filled in exactly as Finalize's struct literal does.
func c07Image(start int64) {
	const blocksize = 4096
	const devsize = 1 << 20
	disk := vpdev.NewMemDev("disk", -1)
	var st backend.Storage = disk
	if start != 0 {
		st = backend.Sub(disk, start, devsize)
		disk.Range, disk.Lo, disk.Hi = true, start, start+devsize
	}
	w, err := st.Writable()
	vp.Assert(err == nil, "device writable")

	// file data: a has no whole block; its tail goes into fragment block 0 after 3 bytes of another file
	asize := vp.Int("asize")
	vp.Assume(asize >= 1)
	vp.Assume(asize <= 12)
	content := vp.Bytes("a", 12)
	location := int64(superblockSize)
	buf := make([]byte, 3+12)
	copy(buf, vp.Bytes("otherfile", 3))
	copy(buf[3:], content)
	n, compressed, err := finalizeFragment(buf[:3+asize], w, location, nil)
	vp.Assert(err == nil, "fragment written")
	frags := []fragmentBlock{{size: uint32(n), compressed: compressed, location: location}}
	location += int64(len(frags) * blocksize)

	a := c07File("a", "a", int64(asize), 0)
	a.fragment = &fragmentRef{block: 0, offset: 3}
	a.dataLocation = superblockSize
	lnk := &finalizeFileInfo{path: "l", name: "l", fileType: fileSymlink, mode: 0o777, links: 1}
	lnk.inode = &inodeImpl{header: &inodeHeader{inodeType: inodeBasicSymlink, index: 77, mode: 0o777, modTime: lnk.modTime},
		body: &basicSymlink{links: 1, target: c07Name("target", 4)}}
	d := c07Dir("d", "d")
	root := c07Dir(".", "", a, d, lnk)
	fileList := []*finalizeFileInfo{root, a, d, lnk}
	built, _ := c07MetadataAt(fileList, disk, w, st, start, frags, nil, location, blocksize, nil)

	// superblock as in Finalize for "no compression"
	sb := built.superblock
	sb.compression = compressionGzip
	sb.xattrTableStart = noXattrSuperblockFlag
	sb.modTime = time.Unix(int64(vp.U32("mkfstime")), 0)
	sb.versionMajor, sb.versionMinor = 4, 0
	sb.superblockFlags = superblockFlags{uncompressedInodes: true, uncompressedData: true, uncompressedFragments: true,
		uncompressedXattrs: true, noXattrs: true, exportable: true}
	disk.NoWrites = false
	_, err = w.WriteAt(sb.toBytes(), 0)
	vp.Assert(err == nil, "superblock written")
	disk.NoWrites = true
	// the superblock sits at the very start of the image, everything else below bytes-used
	vp.Assert(disk.Log[len(disk.Log)-1].Off == start, "superblock at the start of the range given")

	fs, err := Read(disk, devsize, start, blocksize)
	vp.Assert(err == nil, "image opens")
	if err != nil {
		return
	}
	vp.Assert(fs.superblock.size == sb.size, "bytes-used as written")
	vp.Assert(fs.blocksize == blocksize, "block size from the superblock")
	vp.Assert(len(fs.fragments) == 1, "fragment table loaded")
	vp.Cover("image opened")
	c07CheckTreeDir(fs, ".", root)
	c07CheckTreeDir(fs, "d", d)
	// content through the public API
	f, err := fs.OpenFile("a", os.O_RDONLY)
	vp.Assert(err == nil, "file opens by name")
	if err != nil {
		return
	}
	out := make([]byte, 16)
	total := 0
	for r := 0; r < 2; r++ {
		k, err := f.Read(out[total:])
		total += k
		if err == io.EOF {
			break
		}
		vp.Assert(err == nil, "read without error")
	}
	vp.Assert(total == asize, "file length")
	for i := 0; i < 12; i++ {
		if i < asize {
			vp.Assert(out[i] == content[i], "file content")
		}
	}
	// the symlink is followed by OpenFile on its target only if that names a file; Readlink gives the target
	des, err := fs.ReadDir(".")
	vp.Assert(err == nil, "ReadDir works")
	vp.Assert(len(des) == 3, "three entries in the root")
}

func VP_C07_image_start0() {
	c07Image(0)
	vp.Cover("image at offset 0 round trip")
}
func VP_C07_image_partition() {
	c07Image(1048576)
	vp.Cover("image inside a partition round trip")
}

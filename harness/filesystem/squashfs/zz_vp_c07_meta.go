package squashfs

import (
	"os"

	"github.com/diskfs/go-diskfs/backend"
	"github.com/diskfs/go-diskfs/internal/vp"
	"github.com/diskfs/go-diskfs/internal/vp/vpdev"
)

// C07.meta: metadata blocks (2-byte header + payload) as written by writeMetadataBlock are
// addressed by (byte position of the block relative to the table start, offset in the payload);
// readMetadata must deliver the payload bytes from that address on, across block boundaries.

// c07MetaTable writes the given payloads as consecutive uncompressed metadata blocks starting at
// `start` and returns the byte position of every block relative to start.
func c07MetaTable(dev *vpdev.MemDev, start int64, payloads [][]byte) []int64 {
	var pos []int64
	loc := start
	for _, p := range payloads {
		pos = append(pos, loc-start)
		n, err := writeMetadataBlock(p, dev, nil, loc)
		vp.Assert(err == nil, "metadata block written")
		vp.Assert(n == len(p)+2, "a stored metadata block occupies payload + 2 bytes")
		// on-disk header: bit 15 set (stored), low 15 bits = payload length
		h := uint16(dev.ByteAt(loc)) | uint16(dev.ByteAt(loc+1))<<8
		vp.Assert(h == uint16(len(p))|0x8000, "header = length | stored bit")
		loc += int64(n)
	}
	return pos
}

// c07MetaRead: three small blocks; (first block, byte offset, size) arbitrary inside the table.
func c07MetaRead(start int64, first int, cache *lru) {
	lens := []int{24, 16, 12}
	var payloads [][]byte
	var flat []byte
	for i, n := range lens {
		p := vp.Bytes("blk"+string(rune('0'+i)), n)
		payloads = append(payloads, p)
		if i >= first {
			flat = append(flat, p...)
		}
	}
	dev := vpdev.NewMemDev("img", -1)
	pos := c07MetaTable(dev, start, payloads)
	dev.NoWrites = true
	fs := &FileSystem{backend: dev, cache: cache}
	off := vp.U16("off")
	size := vp.Int("size")
	vp.Assume(int(off) <= lens[first])
	vp.Assume(size >= 0)
	vp.Assume(size <= len(flat))
	vp.Assume(int(off)+size <= len(flat))
	vp.Unwind(6)
	b, err := fs.readMetadata(dev, nil, start, uint32(pos[first]), off, size)
	vp.Assert(err == nil, "addressed bytes are inside the table: no error")
	if err != nil {
		return
	}
	vp.Assert(len(b) >= size, "at least the requested number of bytes is returned")
	for i := 0; i < len(flat); i++ {
		if i < size && i < len(b) {
			vp.Assert(b[i] == flat[int(off)+i], "byte i of the result is payload byte off+i, continuing into the next blocks")
		}
	}
}

func VP_C07_meta_read_first() {
	c07MetaRead(96, 0, nil)
	vp.Cover("read from the first block")
}
func VP_C07_meta_read_second() {
	c07MetaRead(1000, 1, newLRU(0))
	vp.Cover("read from the second block")
}
func VP_C07_meta_read_last() {
	c07MetaRead(0, 2, newLRU(8))
	vp.Cover("read from the last block")
}

// c07Zstrip is a stand-in compressor with an exact inverse: a buffer ending in a zero byte
// "compresses" to the buffer without it (shorter, so it is stored compressed), anything else grows
// by one byte (so the writer must fall back to storing it raw). Reading back is only correct if
// the compressed/stored flag of every block is carried faithfully.
type c07Zstrip struct{}

func (c07Zstrip) compress(in []byte) ([]byte, error) {
	if len(in) > 0 && in[len(in)-1] == 0 {
		return append([]byte{}, in[:len(in)-1]...), nil
	}
	return append(append([]byte{}, in...), 1), nil
}
func (c07Zstrip) decompress(in []byte) ([]byte, error) {
	return append(append([]byte{}, in...), 0), nil
}
func (c07Zstrip) loadOptions([]byte) error { return nil }
func (c07Zstrip) optionsBytes() []byte     { return nil }
func (c07Zstrip) flavour() compression     { return compressionGzip }

// c07Contiguous: the writes recorded from log record `from` on are gap-free from `location` and add
// up to `written` (this is what Finalize adds to its running location, i.e. to the superblock's
// bytes-used and table-start fields).
func c07Contiguous(dev *vpdev.MemDev, from int, location int64, written int) {
	c07ContiguousAt(dev, from, location, written, 0)
}

// c07ContiguousAt: the same when the image starts at byte `base` of the device.
func c07ContiguousAt(dev *vpdev.MemDev, from int, location int64, written int, base int64) {
	location += base
	pos := location
	for i := from; i < len(dev.Log); i++ {
		vp.Assert(dev.Log[i].Off == pos, "each write starts where the previous one ended")
		pos += int64(dev.Log[i].Len)
	}
	vp.Assert(pos-location == int64(written), "returned byte count = bytes actually written")
}

func c07File(path, name string, size int64, nblocks int) *finalizeFileInfo {
	e := &finalizeFileInfo{path: path, name: name, fileType: fileRegular, size: size, mode: 0o644, links: 1}
	for i := 0; i < nblocks; i++ {
		e.blocks = append(e.blocks, &blockData{size: uint32(1000 + i), compressed: i%2 == 1})
	}
	return e
}

func c07Dir(path, name string, children ...*finalizeFileInfo) *finalizeFileInfo {
	return &finalizeFileInfo{path: path, name: name, fileType: fileDirectory, isDir: true, isRoot: path == ".", mode: 0o755, links: 2, size: 4096, children: children}
}

// c07Metadata runs the metadata half of Finalize (finalize.go: createInodes .. writeDirectories, same
// calls in the same order) on a hand-built file list and returns a FileSystem reading it back.
// Entries that already carry an inode (symlinks: createInodes would call os.Readlink) keep it.
func c07Metadata(fileList []*finalizeFileInfo, dev *vpdev.MemDev, comp Compressor, location int64, blocksize int, cache *lru) (*FileSystem, []*finalizeFileInfo) {
	return c07MetadataAt(fileList, dev, dev, dev, 0, nil, comp, location, blocksize, cache)
}

// c07MetadataAt: the image starts at byte `base` of dev; w and rd are the writer and reader Finalize
// and Read use (dev itself, or its backend.Sub window); frags are the fragment blocks already written
// (nil: one arbitrary fragment block).
func c07MetadataAt(fileList []*finalizeFileInfo, dev *vpdev.MemDev, w backend.WritableFile, rd backend.Storage, base int64, frags []fragmentBlock, comp Compressor, location int64, blocksize int, cache *lru) (*FileSystem, []*finalizeFileInfo) {
	extractXattrs(fileList)
	idtable := map[uint32]uint16{}
	uid, gid := uint32(1000), uint32(100)
	var plain []*finalizeFileInfo
	for _, e := range fileList {
		if e.inode == nil {
			plain = append(plain, e)
		}
	}
	err := createInodes(plain, idtable, FinalizeOptions{FileUID: &uid, FileGID: &gid})
	vp.Assert(err == nil, "inodes created")
	updateInodeLocations(fileList)
	directories := createDirectories(fileList[0])
	populateDirectoryLocations(directories)
	err = updateInodesFromDirectories(directories)
	vp.Assert(err == nil, "directory inodes updated")
	from := len(dev.Log)
	inodesWritten, inodeTable, offs, err := writeInodes(fileList, w, comp, location)
	vp.Assert(err == nil, "inode table written")
	vp.Assert(inodeTable == uint64(location), "inode table starts at the running location")
	c07ContiguousAt(dev, from, location, inodesWritten, base)
	location += int64(inodesWritten)
	translateInodeLocations(fileList, directories, offs)
	from = len(dev.Log)
	dirsWritten, dirTable, err := writeDirectories(directories, w, comp, location)
	vp.Assert(err == nil, "directory table written")
	vp.Assert(dirTable == uint64(location), "directory table starts right after the inode table")
	c07ContiguousAt(dev, from, location, dirsWritten, base)
	location += int64(dirsWritten)
	// what Finalize writes next: fragment table, export table, id table (an empty directory at the
	// very end of the directory table makes the reader look at the block that follows)
	if frags == nil {
		frags = []fragmentBlock{{size: vp.U32("fragsize"), compressed: vp.Bool("fragcomp"), location: int64(vp.U32("fragloc"))}}
		vp.Assume(frags[0].size <= 1<<20)
	}
	from = len(dev.Log)
	fragWritten, fragTable, err := writeFragmentTable(frags, 0, w, comp, location)
	vp.Assert(err == nil, "fragment table written")
	c07ContiguousAt(dev, from, location, fragWritten, base)
	vp.Assert(fragTable == uint64(location+int64(fragWritten)-8), "fragment table start = its one-entry index, the last thing written")
	location += int64(fragWritten)
	from = len(dev.Log)
	expWritten, expTable, err := writeExportTable(fileList, w, comp, location)
	vp.Assert(err == nil, "export table written")
	c07ContiguousAt(dev, from, location, expWritten, base)
	vp.Assert(expTable == uint64(location+int64(expWritten)-8), "export table start = its one-entry index")
	location += int64(expWritten)
	from = len(dev.Log)
	idWritten, idTable, err := writeIDTable(idtable, w, comp, location)
	vp.Assert(err == nil, "id table written")
	c07ContiguousAt(dev, from, location, idWritten, base)
	vp.Assert(idTable == uint64(location+int64(idWritten)-8), "id table start = its one-entry index")
	location += int64(idWritten)
	sb := &superblock{blocksize: uint32(blocksize), inodeTableStart: inodeTable, directoryTableStart: dirTable,
		fragmentTableStart: fragTable, fragmentCount: uint32(len(frags)), idTableStart: idTable, idCount: uint16(len(idtable)),
		exportTableStart: expTable, size: uint64(location)}
	// nothing was written at or beyond the superblock's bytes-used
	for i := range dev.Log {
		vp.Assert(dev.Log[i].Off+int64(dev.Log[i].Len) <= base+int64(sb.size), "every write lies below bytes-used")
	}
	dev.NoWrites = true
	fragments, err := readFragmentTable(sb, rd, comp)
	vp.Assert(err == nil, "fragment table readable")
	vp.Assert(len(fragments) == 1, "one fragment entry")
	if len(fragments) == 1 {
		vp.Assert(fragments[0].start == uint64(frags[0].location), "fragment block location")
		vp.Assert(fragments[0].size == frags[0].size, "fragment block size")
		vp.Assert(fragments[0].compressed == frags[0].compressed, "fragment block flag")
	}
	ids, err := readUidsGids(sb, rd, comp)
	vp.Assert(err == nil, "id table readable")
	vp.Assert(len(ids) == 2, "two ids")
	if len(ids) == 2 {
		vp.Assert(ids[idtable[uid]] == uid, "uid stored at its index")
		vp.Assert(ids[idtable[gid]] == gid, "gid stored at its index")
	}
	sb.rootInode = &inodeRef{fileList[0].inodeLocation.block, fileList[0].inodeLocation.offset}
	sb.inodes = uint32(len(fileList))
	fs := &FileSystem{backend: rd, compressor: comp, blocksize: int64(blocksize), uidsGids: ids, fragments: fragments, cache: cache, superblock: sb}
	return fs, directories
}

// c07CheckInode: the inode found at e's recorded location is e's inode.
func c07CheckInode(fs *FileSystem, e *finalizeFileInfo, asType inodeType) inode {
	in, err := fs.getInode(e.inodeLocation.block, e.inodeLocation.offset, asType)
	vp.Assert(err == nil, "inode is readable at its recorded location")
	if err != nil {
		return nil
	}
	vp.Assert(in.inodeType() == e.inode.inodeType(), "inode type")
	vp.Assert(in.index() == e.inode.index(), "inode number")
	want := e.inode.toBytes()
	got := in.toBytes()
	vp.Assert(len(got) == len(want), "inode has the same encoded length")
	for i := range want {
		if i < len(got) {
			vp.Assert(got[i] == want[i], "inode re-encodes to the bytes that were written")
		}
	}
	return in
}

// VP_C07_meta_inodes_span: an inode table longer than one metadata block (a file with 2040 blocks
// straddles the 8 KiB boundary, a symlink and a file follow in the second block); block positions go
// through updateInodeLocations/translateInodeLocations. Stored and "compressed" variants.
func c07InodesSpan(comp Compressor, location int64, second uint32) {
	big := c07File("big", "big", 2040*4096, 2040)
	big.dataLocation = int64(vp.U32("bigstart"))
	lnk := &finalizeFileInfo{path: "l", name: "l", fileType: fileSymlink, mode: 0o777, links: 1}
	lnk.inode = &inodeImpl{header: &inodeHeader{inodeType: inodeBasicSymlink, index: 77, mode: 0o777, modTime: lnk.modTime},
		body: &basicSymlink{links: 1, target: c07Name("target", 9)}}
	small := c07File("s", "s", int64(vp.U32("ssize")), 0)
	vp.Assume(small.size < 4096)
	small.fragment = &fragmentRef{block: vp.U32("sfrag"), offset: vp.U32("sfragoff")}
	vp.Assume(small.fragment.block != 0xffffffff) // 0xffffffff is the "no fragment" marker
	root := c07Dir(".", "", big, lnk, small)
	fileList := []*finalizeFileInfo{root, big, lnk, small}
	dev := vpdev.NewMemDev("img", -1)
	fs, _ := c07Metadata(fileList, dev, comp, location, 4096, newLRU(4))
	vp.Assert(big.inodeLocation.block == 0, "the big inode starts in the first block")
	vp.Assert(lnk.inodeLocation.block == second, "the symlink inode lies in the second block, addressed by that block's byte position")
	// directory entries name the basic type; the reader finds the real (extended) type in the header
	c07CheckInode(fs, root, inodeBasicDirectory)
	c07CheckInode(fs, big, inodeBasicFile)
	li := c07CheckInode(fs, lnk, inodeBasicSymlink)
	if li != nil {
		de := &directoryEntry{inode: li}
		t, err := de.Readlink()
		vp.Assert(err == nil, "link target readable")
		vp.Assert(t == lnk.inode.getBody().(*basicSymlink).target, "link target as written")
	}
	c07CheckInode(fs, small, inodeBasicFile)
	// the root listing finds every child through the translated block positions in its entries
	ri, err := fs.getInode(root.inodeLocation.block, root.inodeLocation.offset, inodeBasicDirectory)
	vp.Assert(err == nil, "root inode readable")
	if err == nil {
		fs.rootDir = ri
		c07CheckTreeDir(fs, ".", root)
	}
}

func VP_C07_meta_inodes_span_stored() {
	c07InodesSpan(nil, 96, 8194)
	vp.Cover("inode table over two stored blocks")
}
func VP_C07_meta_inodes_span_compressed() {
	c07InodesSpan(c07Zstrip{}, 4096, 8193)
	vp.Cover("inode table over two blocks of different on-disk size")
}

// c07LongName: a distinct concrete 200-byte name.
func c07LongName(i int) string {
	b := make([]byte, 200)
	for j := range b {
		b[j] = 'a' + byte((i+j)%26)
	}
	b[0] = 'A' + byte(i%26)
	b[1] = 'A' + byte(i/26)
	return string(b)
}

// c07StubChild: a child whose inode is only known by number, type and (arbitrary) location.
func c07StubChild(p, name string, ft fileType, no uint32) *finalizeFileInfo {
	t := inodeBasicFile
	if ft == fileDirectory {
		t = inodeBasicDirectory
	}
	e := &finalizeFileInfo{path: name, name: name, fileType: ft, isDir: ft == fileDirectory,
		inode: &inodeImpl{header: &inodeHeader{inodeType: t, index: no}}}
	e.inodeLocation = blockPosition{block: 0, offset: vp.U16(p + "ioff")}
	return e
}

// c07CheckDir: the listing found at the location stored in d's directory inode is d's listing.
// beyond: d's listing starts beyond the first metadata block of the directory table (KF-C07-2).
func c07CheckDir(fs *FileSystem, d *finalizeFileInfo, beyond bool) {
	var (
		block uint32
		off   uint16
		size  int
	)
	switch b := d.inode.getBody().(type) {
	case *basicDirectory:
		block, off, size = b.startBlock, b.offset, int(b.fileSize)
	case *extendedDirectory:
		block, off, size = b.startBlock, b.offset, int(b.fileSize)
	}
	listing := d.directory.toBytes(0)
	vp.Assert(size == len(listing)+3, "directory inode size = listing size + 3")
	got, err := fs.getDirectory(block, off, size)
	vp.AssertUnless("KF-C07-2", beyond, err == nil, "listing is readable at the location stored in the directory inode")
	if err != nil {
		return
	}
	vp.AssertUnless("KF-C07-2", beyond, len(got.entries) == len(d.children), "listing has one entry per child")
	for i, c := range d.children {
		if i < len(got.entries) {
			g := got.entries[i]
			vp.AssertUnless("KF-C07-2", beyond, g.name == c.name, "entry name = child name")
			vp.AssertUnless("KF-C07-2", beyond, g.startBlock == c.inodeLocation.block, "entry points at the child's inode block")
			vp.AssertUnless("KF-C07-2", beyond, g.offset == c.inodeLocation.offset, "entry points at the child's inode offset")
			vp.AssertUnless("KF-C07-2", beyond, g.isSubdirectory == c.isDir, "entry kind = child kind")
		}
	}
}

// c07DirsSpan: a directory table longer than one metadata block: the root listing (41 names of 200
// bytes) fills the first 8 KiB, the listing of its subdirectory starts in the second block.
func c07DirsSpan(comp Compressor, location int64) {
	var kids []*finalizeFileInfo
	for i := 0; i < 40; i++ {
		kids = append(kids, c07StubChild("k"+string(rune('A'+i)), c07LongName(i), fileRegular, uint32(2+i)))
	}
	x := c07StubChild("x", "x", fileRegular, 100)
	y := c07StubChild("y", "yy", fileRegular, 101)
	sub := c07StubChild("sub", "sub", fileDirectory, 50)
	sub.children = []*finalizeFileInfo{x, y}
	sub.inode.(*inodeImpl).body = &extendedDirectory{links: 2}
	sub.inode.(*inodeImpl).header.inodeType = inodeExtendedDirectory
	kids = append(kids, sub)
	root := c07Dir(".", "", kids...)
	root.inode = &inodeImpl{header: &inodeHeader{inodeType: inodeExtendedDirectory, index: 1}, body: &extendedDirectory{links: 3}}
	directories := createDirectories(root)
	vp.Assert(len(directories) == 2, "two directories")
	populateDirectoryLocations(directories)
	err := updateInodesFromDirectories(directories)
	vp.Assert(err == nil, "directory inodes updated")
	dev := vpdev.NewMemDev("img", -1)
	written, table, err := writeDirectories(directories, dev, comp, location)
	vp.Assert(err == nil, "directory table written")
	vp.Assert(table == uint64(location), "table start = running location")
	c07Contiguous(dev, 0, location, written)
	fs := &FileSystem{backend: dev, compressor: comp, blocksize: 4096, cache: newLRU(2),
		superblock: &superblock{blocksize: 4096, directoryTableStart: table}}
	vp.Cover("directory table written")
	c07CheckDir(fs, root, false)
	c07CheckDir(fs, sub, true)
}

func VP_C07_meta_dirs_span_stored() {
	c07DirsSpan(nil, 96)
	vp.Cover("directory table over two stored blocks")
}
func VP_C07_meta_dirs_span_compressed() {
	c07DirsSpan(c07Zstrip{}, 5000)
	vp.Cover("directory table over two blocks of different on-disk size")
}

// VP_C07_tree: the metadata half of Finalize on a small tree
//
//	./a (file)  ./l (symlink)  ./sub/  ./sub/b (file)  ./sub/e/ (empty dir)
//
// then walked with the reader: every directory lists exactly its children with their sizes,
// kinds and link targets.
func c07Tree(comp Compressor, location int64, cache *lru) {
	a := c07File("a", "a", int64(vp.U32("asize")), 0)
	vp.Assume(a.size < 4096)
	a.fragment = &fragmentRef{block: 0, offset: vp.U32("afragoff")}
	lnk := &finalizeFileInfo{path: "l", name: "l", fileType: fileSymlink, mode: 0o777, links: 1}
	lnk.inode = &inodeImpl{header: &inodeHeader{inodeType: inodeBasicSymlink, index: 77, mode: 0o777, modTime: lnk.modTime},
		body: &basicSymlink{links: 1, target: c07Name("target", 6)}}
	b := c07File("sub/b", "b", 2*4096+int64(vp.U16("btail")), 2)
	vp.Assume(b.size < 3*4096)
	vp.Assume(b.size > 2*4096)
	b.fragment = &fragmentRef{block: 0, offset: vp.U32("bfragoff")}
	b.dataLocation = int64(vp.U32("bstart"))
	e := c07Dir("sub/e", "e")
	sub := c07Dir("sub", "sub", b, e)
	root := c07Dir(".", "", a, lnk, sub)
	fileList := []*finalizeFileInfo{root, a, lnk, sub, b, e}
	dev := vpdev.NewMemDev("img", -1)
	fs, _ := c07Metadata(fileList, dev, comp, location, 4096, cache)
	rootInode, err := fs.getInode(root.inodeLocation.block, root.inodeLocation.offset, inodeBasicDirectory)
	vp.Assert(err == nil, "root inode readable at the superblock's root reference")
	if err != nil {
		return
	}
	fs.rootDir = rootInode
	vp.Cover("tree written")
	c07CheckTreeDir(fs, ".", root)
	c07CheckTreeDir(fs, "sub", sub)
	c07CheckTreeDir(fs, "sub/e", e)
}

func c07CheckTreeDir(fs *FileSystem, p string, d *finalizeFileInfo) {
	entries, err := fs.readDirectory(p)
	vp.Assert(err == nil, "directory is listed")
	if err != nil {
		return
	}
	vp.Assert(len(entries) == len(d.children), "listing has exactly the directory's children")
	for i, c := range d.children {
		if i >= len(entries) {
			break
		}
		g := entries[i]
		vp.Assert(g.Name() == c.name, "child name")
		vp.Assert(g.IsDir() == c.isDir, "child kind")
		switch c.fileType {
		case fileRegular:
			vp.Assert(g.Size() == c.size, "file size")
			vp.Assert(g.Mode().IsRegular(), "regular file mode")
			f, err := g.Open()
			vp.Assert(err == nil, "file opens")
			if err == nil {
				fl := f.(*File)
				vp.Assert(fl.blocksStart == uint64(c.dataLocation), "file data start as recorded by the data writer")
				vp.Assert(len(fl.blockSizes) == len(c.blocks), "file block list as recorded by the data writer")
				for j := range c.blocks {
					if j < len(fl.blockSizes) {
						vp.Assert(*fl.blockSizes[j] == *c.blocks[j], "block size word")
					}
				}
				if c.fragment != nil {
					vp.Assert(fl.fragmentBlockIndex == c.fragment.block, "fragment block as recorded by the fragment writer")
					vp.Assert(fl.fragmentOffset == c.fragment.offset, "fragment offset as recorded by the fragment writer")
				}
			}
		case fileSymlink:
			t, err := g.Readlink()
			vp.Assert(err == nil, "link target readable")
			vp.Assert(t == c.inode.getBody().(*basicSymlink).target, "link target as written")
			vp.Assert(g.Mode()&os.ModeSymlink != 0, "symlink mode")
		case fileDirectory:
			vp.Assert(g.Mode().IsDir(), "directory mode")
		}
	}
}

// VP_C07_tree_empty_root: a workspace with nothing in it (empty directory table).
func VP_C07_tree_empty_root() {
	root := c07Dir(".", "")
	dev := vpdev.NewMemDev("img", -1)
	fs, _ := c07Metadata([]*finalizeFileInfo{root}, dev, nil, 96, 131072, newLRU(1))
	rootInode, err := fs.getInode(root.inodeLocation.block, root.inodeLocation.offset, inodeBasicDirectory)
	vp.Assert(err == nil, "root inode readable")
	if err != nil {
		return
	}
	fs.rootDir = rootInode
	c07CheckTreeDir(fs, ".", root)
	vp.Cover("empty tree round trip")
}

func VP_C07_tree_stored() {
	c07Tree(nil, 96, newLRU(0))
	vp.Cover("tree round trip, stored metadata, cache size 0")
}
func VP_C07_tree_compressed() {
	c07Tree(c07Zstrip{}, 200000, newLRU(16))
	vp.Cover("tree round trip, compressed metadata")
}
func VP_C07_tree_nocache() {
	c07Tree(nil, 4096, nil)
	vp.Cover("tree round trip, no cache")
}

package squashfs

import (
	"io"

	"github.com/diskfs/go-diskfs/internal/vp"
	"github.com/diskfs/go-diskfs/internal/vp/vpdev"
)

// C07.data: file contents written by the data-block writer (copyFileData) and the fragment writer
// (finalizeFragment), described by the inode createInodes builds, are returned byte-identically by
// File.Read. The writer/reader code is generic in the block size; to keep whole-content comparison
// cheap the harness uses 8-byte blocks (block-size dependent arithmetic at the real sizes is covered
// by the codec harnesses and by C10).

const c07bs = 8

// c07DataRoundTrip: a file of k full blocks plus an arbitrary tail (0..7 bytes) with arbitrary
// content; the tail shares its fragment block with 3 bytes of another file.
func c07DataRoundTrip(k int, comp Compressor, cache *lru, loc, fragLoc int64, handles int) {
	tail := vp.Int("tail")
	vp.Assume(tail >= 0)
	vp.Assume(tail < c07bs)
	size := int64(k*c07bs + tail)
	content := vp.Bytes("src", k*c07bs+c07bs)
	src := vpdev.NewMemDev("src", size)
	src.Image = content
	src.NoWrites = true
	img := vpdev.NewMemDev("img", -1)
	vp.Unwind(k + 4)

	// data blocks, as writeFileDataBlocks does
	raw, written, blocks, err := copyFileData(src, img, 0, loc, c07bs, comp)
	vp.Assert(err == nil, "data blocks copied")
	vp.Assert(raw == k*c07bs, "only whole blocks are stored as data blocks")
	vp.Assert(len(blocks) == k, "one size word per whole block")
	c07Contiguous(img, 0, loc, written)
	sum := 0
	for _, b := range blocks {
		vp.Assert(b.size >= 1, "a stored block is never recorded with size 0 (0 means sparse)")
		vp.Assert(b.size <= c07bs, "a stored block is never larger than the block size")
		sum += int(b.size)
	}
	vp.Assert(sum == written, "size words add up to the bytes written")
	e := &finalizeFileInfo{path: "f", name: "f", fileType: fileRegular, size: size, links: 1, dataLocation: loc, blocks: blocks}

	// fragment, as writeFragmentBlocks does for the last (only) fragment block
	var frags []*fragmentEntry
	if tail > 0 {
		buf := make([]byte, 3+c07bs)
		copy(buf, vp.Bytes("otherfile", 3))
		copy(buf[3:], content[k*c07bs:])
		from := len(img.Log)
		n, compressed, err := finalizeFragment(buf[:3+tail], img, fragLoc, comp)
		vp.Assert(err == nil, "fragment block written")
		c07Contiguous(img, from, fragLoc, n)
		e.fragment = &fragmentRef{block: 0, offset: 3}
		// through the fragment table codec
		fb := fragmentBlock{size: uint32(n), compressed: compressed, location: fragLoc}
		fe := &fragmentEntry{start: uint64(fb.location), size: fb.size, compressed: fb.compressed}
		fe2, err := parseFragmentEntry(fe.toBytes())
		vp.Assert(err == nil, "fragment entry parses")
		frags = append(frags, fe2)
	}
	img.NoWrites = true

	// inode, as createInodes builds it, through the inode codec
	extractXattrs([]*finalizeFileInfo{e})
	uid := uint32(0)
	err = createInodes([]*finalizeFileInfo{e}, map[uint32]uint16{}, FinalizeOptions{FileUID: &uid, FileGID: &uid})
	vp.Assert(err == nil, "inode created")
	ib := e.inode.toBytes()
	body, extra, err := parseInodeBody(ib[inodeHeaderSize:], c07bs, e.inode.inodeType())
	vp.Assert(err == nil, "inode parses")
	vp.Assert(extra == 0, "inode complete")
	ef, ok := body.(*extendedFile)
	if !ok {
		bf := body.(*basicFile)
		x := bf.toExtended()
		ef = &x
	}

	fs := &FileSystem{backend: img, blocksize: c07bs, compressor: comp, fragments: frags, cache: cache,
		superblock: &superblock{blocksize: c07bs}}
	// two handles: the second one finds the fragment block in the shared cache
	for h := 0; h < handles; h++ {
		f := &File{extendedFile: ef, filesystem: fs}
		out := make([]byte, k*c07bs+c07bs+2)
		total := 0
		eof := false
		for r := 0; r < 3 && !eof; r++ {
			n, err := f.Read(out[total:])
			vp.Assert(err == nil || err == io.EOF, "reading the file gives no error")
			if err != nil && err != io.EOF {
				return
			}
			vp.Assert(n >= 0, "byte count not negative")
			total += n
			eof = err == io.EOF
		}
		vp.Assert(eof, "end of file reached")
		vp.Assert(int64(total) == size, "exactly size bytes are delivered")
		// one obligation for all bytes: OR of the differences over the first size bytes
		var diff byte
		for i := 0; i < k*c07bs+c07bs; i++ {
			diff |= vp.IteU8(int64(i) < size, out[i]^content[i], 0)
		}
		vp.Assert(diff == 0, "every byte read = the byte of the source file at the same position")
	}
}

func VP_C07_data_stored_0() {
	c07DataRoundTrip(0, nil, newLRU(0), 96, 96, 2)
	vp.Cover("fragment-only file, stored")
}
func VP_C07_data_stored_1() {
	c07DataRoundTrip(1, nil, nil, 96, 200, 2)
	vp.Cover("one block + tail, stored, no cache")
}
func VP_C07_data_stored_2() {
	c07DataRoundTrip(2, nil, newLRU(1), 4096, 9000, 1)
	vp.Cover("two blocks + tail, stored, cache of one block")
}
func VP_C07_data_compressed_0() {
	c07DataRoundTrip(0, c07Zstrip{}, newLRU(16), 96, 96, 2)
	vp.Cover("fragment-only file, compressor on")
}
func VP_C07_data_compressed_1() {
	c07DataRoundTrip(1, c07Zstrip{}, newLRU(0), 96, 104, 2)
	vp.Cover("one block + tail, compressor on, cache size 0")
}
func VP_C07_data_compressed_2() {
	if !vp.Thorough() { // 8 compressed/stored combinations x symbolic tail: thorough tier only
		vp.Cover("skipped in the quick tier")
		return
	}
	c07DataRoundTrip(2, c07Zstrip{}, newLRU(16), 1000, 2000, 1)
	vp.Cover("two blocks + tail, compressor on")
}

// VP_C07_data_lru: the block cache returns, for every position, what the fetch function for that
// position delivers - for every access sequence over three positions, for cache sizes 0, 1 and 2,
// also after a failed fetch - and never holds more than max(size, 1) blocks.
func VP_C07_data_lru() {
	var content [3][]byte
	var sizes [3]uint16
	for i := range content {
		content[i] = vp.Bytes("blk"+string(rune('0'+i)), 3)
		sizes[i] = vp.U16("size" + string(rune('0'+i)))
	}
	for max := 0; max <= 2; max++ {
		for seq := 0; seq < 27; seq++ {
			l := newLRU(max)
			order := []int{seq % 3, seq / 3 % 3, seq / 9}
			for step, p := range order {
				fail := step == 1 && seq%2 == 1 // every other sequence: the second access fails once
				if fail {
					called := false
					_, _, err := l.get(int64(p)*8194, func() ([]byte, uint16, error) { called = true; return nil, 0, vpdev.ErrOther })
					vp.Assert((err != nil) == called, "a failed fetch is reported, a cached block needs no fetch")
				}
				data, size, err := l.get(int64(p)*8194, func() ([]byte, uint16, error) { return content[p], sizes[p], nil })
				vp.Assert(err == nil, "fetch succeeds")
				vp.Assert(size == sizes[p], "on-disk size belongs to the requested position")
				vp.Assert(len(data) == 3, "block length")
				for j := 0; j < 3 && j < len(data); j++ {
					vp.Assert(data[j] == content[p][j], "block content belongs to the requested position")
				}
				limit := max
				if limit < 1 {
					limit = 1
				}
				vp.Assert(len(l.cache) <= limit, "cache holds at most max(size,1) blocks")
			}
			l.setMaxBlocks(0)
			vp.Assert(len(l.cache) == 0, "shrinking to 0 empties the cache")
		}
	}
	vp.Cover("all access sequences")
}

func c07Itoa(i int) string {
	if i < 10 {
		return string(rune('0' + i))
	}
	return c07Itoa(i/10) + string(rune('0'+i%10))
}

// c07FragTable: n fragment blocks with arbitrary location/size/flag written by writeFragmentTable
// at an arbitrary position read back through readFragmentTable.
func c07FragTable(n int, comp Compressor, symbolicLocation bool) {
	location := int64(5000)
	if symbolicLocation {
		location = int64(vp.U32("location"))
	}
	var blocks []fragmentBlock
	for i := 0; i < n; i++ {
		p := "f" + c07Itoa(i)
		sz := vp.U32(p + "size")
		vp.Assume(sz <= 1<<20)
		blocks = append(blocks, fragmentBlock{size: sz, compressed: vp.Bool(p + "comp"), location: int64(vp.U64(p+"loc") >> 1)})
	}
	dev := vpdev.NewMemDev("img", -1)
	written, start, err := writeFragmentTable(blocks, 0, dev, comp, location)
	vp.Assert(err == nil, "fragment table written")
	c07Contiguous(dev, 0, location, written)
	nblk := (n + 511) / 512
	vp.Assert(start == uint64(location+int64(written)-int64(8*nblk)), "table start = the index of one pointer per 512 entries, written last")
	dev.NoWrites = true
	got, err := readFragmentTable(&superblock{fragmentCount: uint32(n), fragmentTableStart: start}, dev, comp)
	vp.Assert(err == nil, "fragment table readable")
	vp.Assert(len(got) == n, "as many entries as fragment blocks")
	for i := range blocks {
		if i < len(got) {
			vp.Assert(got[i].start == uint64(blocks[i].location), "fragment location")
			vp.Assert(got[i].size == blocks[i].size, "fragment on-disk size")
			vp.Assert(got[i].compressed == blocks[i].compressed, "fragment flag")
		}
	}
}

func VP_C07_data_fragment_table_0() { c07FragTable(0, nil, true); vp.Cover("no fragments") }
func VP_C07_data_fragment_table_3() { c07FragTable(3, nil, true); vp.Cover("three fragments, stored") }
func VP_C07_data_fragment_table_3c() {
	c07FragTable(3, c07Zstrip{}, true)
	vp.Cover("three fragments, compressor on")
}
func VP_C07_data_fragment_table_513() {
	if !vp.Thorough() {
		vp.Cover("skipped in the quick tier")
		return
	}
	c07FragTable(513, nil, false)
	vp.Cover("two metadata blocks of fragment entries")
}

// c07IDTable: n distinct ids written by writeIDTable at an arbitrary position, read by readUidsGids.
func c07IDTable(n int, comp Compressor, symbolicLocation bool) {
	location := int64(5000)
	if symbolicLocation {
		location = int64(vp.U32("location"))
	}
	idtable := map[uint32]uint16{}
	for i := 0; i < n; i++ {
		idtable[uint32(1000+7*i)] = uint16(i)
	}
	dev := vpdev.NewMemDev("img", -1)
	written, start, err := writeIDTable(idtable, dev, comp, location)
	vp.Assert(err == nil, "id table written")
	c07Contiguous(dev, 0, location, written)
	nblk := (4*n + 8191) / 8192
	vp.Assert(start == uint64(location+int64(written)-int64(8*nblk)), "table start = the index of one pointer per 2048 ids, written last")
	dev.NoWrites = true
	ids, err := readUidsGids(&superblock{idCount: uint16(n), idTableStart: start}, dev, comp)
	vp.Assert(err == nil, "id table readable")
	vp.Assert(len(ids) == n, "as many ids as were written")
	for i := 0; i < n && i < len(ids); i++ {
		vp.Assert(ids[i] == uint32(1000+7*i), "id at its index")
	}
}

func VP_C07_data_id_table_2() { c07IDTable(2, nil, true); vp.Cover("two ids") }
func VP_C07_data_id_table_5c() {
	c07IDTable(5, c07Zstrip{}, true)
	vp.Cover("five ids, compressor on")
}
func VP_C07_data_id_table_2049() {
	if !vp.Thorough() {
		vp.Cover("skipped in the quick tier")
		return
	}
	c07IDTable(2049, nil, false)
	vp.Cover("two metadata blocks of ids")
}

// c07LenDev records the length of the first read and fails it.
type c07LenDev struct {
	vpdev.MemDev
	firstOff int64
	firstLen int
	reads    int
}

func (d *c07LenDev) ReadAt(p []byte, off int64) (int, error) {
	if d.reads == 0 {
		d.firstOff, d.firstLen = off, len(p)
	}
	d.reads++
	return 0, vpdev.ErrOther
}

// VP_C07_data_id_count: for any id count the reader fetches an index of one 8-byte pointer per
// 8 KiB (2048 ids) of id data - the layout writeIDTable produces.
func VP_C07_data_id_count() {
	cnt := vp.U16("idcount")
	vp.Assume(cnt >= 1)
	dev := &c07LenDev{}
	_, err := readUidsGids(&superblock{idCount: cnt, idTableStart: 1 << 20}, dev, nil)
	vp.Assert(err != nil, "the failing device is reported")
	vp.Assert(dev.firstOff == 1<<20, "index is read at the table start")
	want := 8 * ((int(cnt)*4 + 8191) / 8192)
	vp.AssertUnless("KF-C07-3", cnt > 16384, dev.firstLen == want, "index has one pointer per 2048 ids")
	vp.Cover("id index length")
}

// VP_C07_data_fragment_count: for any fragment count the reader fetches an index of one 8-byte
// pointer per 512 fragment entries (one 8 KiB metadata block) - the layout writeFragmentTable
// produces - no more and no fewer.
func VP_C07_data_fragment_count() {
	cnt := vp.U32("fragcount")
	vp.Assume(cnt >= 1)
	vp.Assume(cnt <= 8192)
	vp.AllocCap(136)
	dev := &c07LenDev{}
	_, err := readFragmentTable(&superblock{fragmentCount: cnt, fragmentTableStart: 1 << 20}, dev, nil)
	vp.Assert(err != nil, "the failing device is reported")
	vp.Assert(dev.firstOff == 1<<20, "index is read at the table start")
	want := 8 * ((int(cnt) + 511) / 512)
	vp.Assert(dev.firstLen == want, "index has one pointer per 512 fragments")
	vp.Cover("fragment index length")
}

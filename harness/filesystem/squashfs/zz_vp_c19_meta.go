package squashfs

import (
	"os"
	"time"

	"github.com/diskfs/go-diskfs/internal/vp"
	"github.com/diskfs/go-diskfs/internal/vp/vpdev"
)

func c19le16(b []byte, o int) uint16 { return uint16(b[o]) | uint16(b[o+1])<<8 }
func c19le32(b []byte, o int) uint32 {
	return uint32(c19le16(b, o)) | uint32(c19le16(b, o+2))<<16
}

// c19Header: an inode of kind `it` for a workspace file whose Go mode is perm|special bits|type bits,
// owner table[uidIdx]/table[gidIdx], mtime sec: encoded by inodeHeader.toBytes, checked against the
// squashfs on-disk format (mode = POSIX permission bits incl. 04000/02000/01000), parsed back and
// turned into the directory entry that Stat/ReadDir report.
func c19Header(it inodeType, typeBits os.FileMode, body inodeBody) {
	perm := vp.U16("perm")
	vp.Assume(perm <= 0o777)
	suid, sgid, sticky := vp.Bool("setuid"), vp.Bool("setgid"), vp.Bool("sticky")
	mode := os.FileMode(perm) | typeBits
	var unix uint16 = perm
	if suid {
		mode |= os.ModeSetuid
		unix |= 0o4000
	}
	if sgid {
		mode |= os.ModeSetgid
		unix |= 0o2000
	}
	if sticky {
		mode |= os.ModeSticky
		unix |= 0o1000
	}
	special := suid || sgid || sticky
	sec := int64(vp.U32("mtime")) // the format stores unsigned 32-bit seconds: 1970 .. 2106
	uidIdx, gidIdx := vp.U16("uidIdx"), vp.U16("gidIdx")
	vp.Assume(uidIdx < 4)
	vp.Assume(gidIdx < 4)
	index := vp.U32("inodeNumber")
	h := &inodeHeader{inodeType: it, mode: mode, uidIdx: uidIdx, gidIdx: gidIdx, modTime: time.Unix(sec, 0), index: index}
	b := h.toBytes()
	if special {
		vp.Cover("setuid/setgid/sticky set")
	}
	vp.Assert(len(b) == 16, "header is 16 bytes")
	vp.Assert(c19le16(b, 0) == uint16(it), "inode type field")
	vp.AssertUnless("KF-C19-1", special, c19le16(b, 2) == unix, "permissions field = rwx bits | 04000 setuid | 02000 setgid | 01000 sticky")
	vp.Assert(c19le16(b, 2)&0o777 == perm, "rwx bits stored")
	vp.Assert(c19le16(b, 4) == uidIdx, "uid index field")
	vp.Assert(c19le16(b, 6) == gidIdx, "gid index field")
	vp.Assert(int64(c19le32(b, 8)) == sec, "mtime field")
	vp.Assert(c19le32(b, 12) == index, "inode number field")

	h2, err := parseInodeHeader(b)
	vp.Assert(err == nil, "header parses")
	table := []uint32{vp.U32("id0"), vp.U32("id1"), vp.U32("id2"), vp.U32("id3")}
	fs := &FileSystem{uidsGids: table}
	de, err := fs.directoryEntryFromInode("x", &inodeImpl{header: h2, body: body}, it == inodeBasicDirectory || it == inodeExtendedDirectory)
	vp.Assert(err == nil, "entry built")
	got := de.Mode()
	vp.Assert(got.Perm() == os.FileMode(perm), "Stat: rwx bits survive")
	vp.AssertUnless("KF-C19-1", special, got == mode, "Stat: mode (permissions, setuid/setgid/sticky, type) survives")
	vp.Assert(got.Type() == typeBits, "Stat: directories, regular files and symlinks are not reported as one another")
	vp.Assert(de.IsDir() == (typeBits == os.ModeDir), "IsDir")
	vp.Assert(de.ModTime().Unix() == sec, "Stat: mtime survives")
	st := de.statT()
	for k := 0; k < 4; k++ {
		if int(uidIdx) == k {
			vp.Assert(st.UID == table[k], "StatT.UID = id table entry of the uid index")
		}
		if int(gidIdx) == k {
			vp.Assert(st.GID == table[k], "StatT.GID = id table entry of the gid index")
		}
	}
	vp.Assert(st.Inode == index, "StatT.Inode")
	if sec >= 1<<31 {
		vp.Cover("mtime after 2038")
	}
	vp.Cover("header round trip")
}

func VP_C19_squashfs_header_file() { c19Header(inodeBasicFile, 0, &basicFile{}) }
func VP_C19_squashfs_header_dir()  { c19Header(inodeBasicDirectory, os.ModeDir, &basicDirectory{}) }
func VP_C19_squashfs_header_symlink() {
	c19Header(inodeBasicSymlink, os.ModeSymlink, &basicSymlink{target: "t"})
}
func VP_C19_squashfs_header_xdir() {
	c19Header(inodeExtendedDirectory, os.ModeDir, &extendedDirectory{})
}

// c19Symlink: a symlink inode (basic or extended) with an arbitrary target of length n is written by
// toBytes and read back with the two-step protocol of getInode (minimal size first, then size+extra).
func c19Symlink(extended bool, n int, symbolicLen bool) {
	max := n
	tb := vp.Bytes("target", max)
	if symbolicLen {
		n = int(vp.U8("len"))
		vp.Assume(n >= 1)
		vp.Assume(n <= max)
	}
	target := string(tb[:n])
	links := vp.U32("links")
	xattr := vp.U32("xattr")
	var in *inodeImpl
	it := inodeBasicSymlink
	if extended {
		it = inodeExtendedSymlink
		in = &inodeImpl{header: &inodeHeader{inodeType: it, mode: 0o777, modTime: time.Unix(0, 0)}, body: &extendedSymlink{links: links, target: target, xAttrIndex: xattr}}
	} else {
		in = &inodeImpl{header: &inodeHeader{inodeType: it, mode: 0o777, modTime: time.Unix(0, 0)}, body: &basicSymlink{links: links, target: target}}
	}
	full := in.toBytes()
	// the inode table continues after this inode: arbitrary following bytes
	full = append(full, vp.Bytes("following", 8)...)
	vp.Assert(c19le32(full, 16) == links, "link count field")
	vp.Assert(int(c19le32(full, 20)) == n, "target size field")
	for k := 0; k < max; k++ {
		if k < n {
			vp.Assert(full[24+k] == tb[k], "target bytes follow the size field")
		}
	}
	size := inodeTypeToSize(it)
	h, err := parseInodeHeader(full[:size])
	vp.Assert(err == nil, "header parses")
	vp.Assert(h.inodeType == it, "type")
	body, extra, err := parseInodeBody(full[16:size], 4096, it)
	vp.Assert(err == nil, "body parses")
	if extra > 0 {
		size += extra
		vp.Assert(size <= len(full), "second read stays within inode + slack")
		body, _, err = parseInodeBody(full[16:size], 4096, it)
		vp.Assert(err == nil, "body parses on second read")
		vp.Cover("two-step read")
	}
	de := &directoryEntry{inode: &inodeImpl{header: h, body: body}}
	got, err := de.Readlink()
	vp.Assert(err == nil, "Readlink succeeds on a symlink inode")
	vp.Assert(len(got) == n, "ReadLink: target length survives")
	for k := 0; k < max; k++ {
		if k < n {
			vp.Assert(got[k] == tb[k], "ReadLink: target bytes survive")
		}
	}
	vp.Assert(de.Mode()&os.ModeSymlink != 0, "a symlink inode is reported as a symlink")
	vp.Assert(!de.Mode().IsDir(), "a symlink inode is not reported as a directory")
	vp.Cover("symlink round trip")
}

func VP_C19_squashfs_symlink_basic()    { c19Symlink(false, 8, true) }
func VP_C19_squashfs_symlink_extended() { c19Symlink(true, 8, true) }
func VP_C19_squashfs_symlink_basic_long() {
	c19Symlink(false, vp.Bound("longtarget", 255, 4095), false)
}
func VP_C19_squashfs_symlink_extended_long() {
	c19Symlink(true, vp.Bound("longtarget", 255, 4095), false)
}

// c19IDTable: the ids of three files get indexes from getTableIdx, the table is written by writeIDTable
// and read back by readUidsGids: table[index] is the original id for every file.
// Engine limit: ranging over a map that holds a symbolic key next to other keys is cut (membership is not
// decided with the path condition), so the arbitrary 32-bit id is checked in a table of its own (single)
// and the index logic (sharing, distinctness, order) on concrete ids incl. values above 65535 (multi).
func c19IDTable(ids []uint32) {
	m := map[uint32]uint16{}
	idx := make([]uint16, len(ids))
	for k := range ids {
		idx[k] = getTableIdx(m, ids[k])
	}
	for k := range ids {
		vp.Assert(getTableIdx(m, ids[k]) == idx[k], "the same id gets the same index")
		for j := range ids {
			vp.Assert((idx[j] == idx[k]) == (ids[j] == ids[k]), "ids share an entry iff they are equal")
		}
	}
	dev := vpdev.NewMemDev("img", -1)
	_, loc, err := writeIDTable(m, dev, nil, 96)
	vp.Assert(err == nil, "id table written")
	sb := &superblock{idTableStart: loc, idCount: uint16(len(m))}
	got, err := readUidsGids(sb, dev, nil)
	vp.Assert(err == nil, "id table read back")
	vp.Assert(len(got) == len(m), "as many ids as were written")
	for k := range ids {
		vp.Assert(int(idx[k]) < len(got), "index within the table")
		vp.Assert(got[idx[k]] == ids[k], "uid/gid survives (full 32 bits), other files' ids unchanged")
	}
	vp.Cover("id table round trip")
}

func VP_C19_squashfs_idtable_single() {
	id := vp.U32("id")
	if id > 0xffff {
		vp.Cover("32-bit id")
	}
	c19IDTable([]uint32{id, id})
}
func VP_C19_squashfs_idtable_sym() {
	a, b, c := vp.U32("uid"), vp.U32("gid"), vp.U32("other")
	if a == b {
		vp.Cover("uid == gid")
	}
	c19IDTable([]uint32{c, a, b})
}
func VP_C19_squashfs_idtable_multi() { c19IDTable([]uint32{0, 65534, 1000, 0, 4000000000, 65536, 1000}) }

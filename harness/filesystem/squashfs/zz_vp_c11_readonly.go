package squashfs

import (
	"os"
	"time"

	"github.com/diskfs/go-diskfs/internal/vp"
	"github.com/diskfs/go-diskfs/internal/vp/vpdev"
)

// C11 for a finalized squashfs (workspace == "", the state squashfs.Read produces): every mutating
// entry point returns an error and the image is never written.
//
// The image (written here by hand from the squashfs 4.0 on-disk format, uncompressed metadata):
//   inode table at byte 1000: one metadata block holding the basic-file inode of "foo"
//     (5 bytes of data in one uncompressed block, arbitrary mode / mtime / data location);
//   directory table at byte 2000: one metadata block holding the root listing with the single entry "foo".
// Any WriteAt / successful Writable() on it is a violation.

const (
	c11InodeTable = 1000
	c11DirTable   = 2000
)

type c11SqDev struct {
	*vpdev.MemDev
	inodes, dirs []byte
}

func (d *c11SqDev) ReadAt(p []byte, off int64) (int, error) {
	for i := range p {
		o := off + int64(i)
		switch {
		case o >= c11InodeTable && o < c11InodeTable+int64(len(d.inodes)):
			p[i] = d.inodes[o-c11InodeTable]
		case o >= c11DirTable && o < c11DirTable+int64(len(d.dirs)):
			p[i] = d.dirs[o-c11DirTable]
		default:
			p[i] = 0
		}
	}
	return len(p), nil
}

func c11P16(b []byte, v uint16) { b[0], b[1] = byte(v), byte(v>>8) }
func c11P32(b []byte, v uint32) {
	b[0], b[1], b[2], b[3] = byte(v), byte(v>>8), byte(v>>16), byte(v>>24)
}

// c11Meta wraps data into one uncompressed metadata block (bit 15 of the length word set).
func c11Meta(data []byte) []byte {
	b := make([]byte, 2, 2+len(data))
	c11P16(b, uint16(len(data))|0x8000)
	return append(b, data...)
}

func c11SqFS() (*FileSystem, *c11SqDev) {
	dev := &c11SqDev{MemDev: vpdev.NewMemDev("sqfs", -1)}
	dev.NoWrites = true
	// basic file inode: header (16) + body (16) + one block size word
	ino := make([]byte, 36)
	c11P16(ino[0:], 2)                        // basic file
	c11P16(ino[2:], vp.U16("foo.mode")&0o777) // permissions
	c11P16(ino[4:], 0)                        // uid index
	c11P16(ino[6:], 0)                        // gid index
	c11P32(ino[8:], vp.U32("foo.mtime"))
	c11P32(ino[12:], 2) // inode number
	c11P32(ino[16:], vp.U32("foo.blocksStart"))
	c11P32(ino[20:], 0xffffffff) // no fragment
	c11P32(ino[24:], 0)
	c11P32(ino[28:], 5)         // file size
	c11P32(ino[32:], 5|(1<<24)) // one uncompressed block of 5 bytes
	dev.inodes = c11Meta(ino)
	// root listing: header (count-1, inode block, base inode number) + entry (offset, inode delta, type, name size-1, name)
	dir := make([]byte, 12+8, 26)
	c11P32(dir[0:], 0)
	c11P32(dir[4:], 0)
	c11P32(dir[8:], 2)
	c11P16(dir[12:], 0)
	c11P16(dir[14:], 0)
	c11P16(dir[16:], 2)
	c11P16(dir[18:], 2)
	dir = append(dir, "foo"...)
	// the size recorded in a directory inode is the listing size + 3; in a real table more listings follow
	dev.dirs = c11Meta(append(append([]byte{}, dir...), 0, 0, 0))
	fs := &FileSystem{
		workspace:  "",
		superblock: &superblock{blocksize: 4096, inodeTableStart: c11InodeTable, directoryTableStart: c11DirTable, inodes: 2, idCount: 1},
		size:       1 << 20,
		backend:    dev,
		blocksize:  4096,
		uidsGids:   []uint32{0},
		cache:      newLRU(16),
		rootDir: &inodeImpl{header: &inodeHeader{inodeType: inodeBasicDirectory, mode: 0o755, index: 1},
			body: &basicDirectory{startBlock: 0, links: 2, fileSize: uint16(len(dir) + 3), offset: 0, parentInodeIndex: 3}},
	}
	return fs, dev
}

const c11WriteFlags = os.O_WRONLY | os.O_RDWR | os.O_APPEND | os.O_CREATE | os.O_TRUNC

func c11SqOpenFile(p string, exists bool) {
	fs, dev := c11SqFS()
	flag := vp.Int("flag")
	vp.Unwind(64)
	vp.NoPanic()
	f, err := fs.OpenFile(p, flag)
	vp.AllowPanic()
	wants := flag&c11WriteFlags != 0
	if wants {
		vp.Assert(err != nil, "finalized squashfs: OpenFile for write/create/append/truncate returns an error")
		vp.Cover("open for writing refused")
	} else if err == nil {
		vp.Assert(exists, "only an existing file opens")
		buf := vp.Bytes("data", 4)
		n, werr := f.Write(buf)
		vp.Assert(werr != nil, "finalized squashfs: File.Write returns an error")
		vp.Assert(n == 0, "finalized squashfs: File.Write reports no bytes written")
		vp.Cover("read-only open succeeds, Write on the handle refused")
	} else {
		vp.Cover("open without write access fails (missing file, or O_EXCL alone)")
	}
	vp.Assert(len(dev.Log) == 0, "nothing was written to the image")
	vp.Assert(dev.WritableCalls == 0, "no writable handle was requested")
}

func VP_C11_squashfs_openfile_existing() { c11SqOpenFile("foo", true) }
func VP_C11_squashfs_openfile_missing()  { c11SqOpenFile("bar", false) }

func c11SqDone(fs *FileSystem, dev *c11SqDev, err error, what string) {
	vp.Assert(err != nil, what)
	vp.Assert(len(dev.Log) == 0, "nothing was written to the image")
	vp.Assert(dev.WritableCalls == 0, "no writable handle was requested")
	vp.Assert(fs.workspace == "", "the filesystem stays finalized")
}

func c11SqPath(i int) string {
	switch i {
	case 0:
		return "foo"
	case 1:
		return "newdir"
	case 2:
		return "."
	default:
		return "new/sub"
	}
}

// One harness per guarded mutator (see the iso9660 harness for the reason).

func VP_C11_squashfs_mkdir() {
	for i := 0; i < 4; i++ {
		fs, dev := c11SqFS()
		vp.NoPanic()
		err := fs.Mkdir(c11SqPath(i))
		vp.AllowPanic()
		c11SqDone(fs, dev, err, "finalized squashfs: Mkdir returns an error")
	}
	vp.Cover("Mkdir refused for every path")
}

func VP_C11_squashfs_rename() {
	for i := 0; i < 4; i++ {
		fs, dev := c11SqFS()
		vp.NoPanic()
		err := fs.Rename(c11SqPath(i), c11SqPath((i+1)%4))
		vp.AllowPanic()
		c11SqDone(fs, dev, err, "finalized squashfs: Rename returns an error")
	}
	vp.Cover("Rename refused for every path")
}

func VP_C11_squashfs_remove() {
	for i := 0; i < 4; i++ {
		fs, dev := c11SqFS()
		vp.NoPanic()
		err := fs.Remove(c11SqPath(i))
		vp.AllowPanic()
		c11SqDone(fs, dev, err, "finalized squashfs: Remove returns an error")
	}
	vp.Cover("Remove refused for every path")
}

func VP_C11_squashfs_chmod() {
	mode := os.FileMode(vp.U32("mode"))
	for i := 0; i < 4; i++ {
		fs, dev := c11SqFS()
		vp.NoPanic()
		err := fs.Chmod(c11SqPath(i), mode)
		vp.AllowPanic()
		c11SqDone(fs, dev, err, "finalized squashfs: Chmod returns an error")
	}
	vp.Cover("Chmod refused for every path")
}

// VP_C11_squashfs_attr_mutators: the mutators without a workspace branch.
func VP_C11_squashfs_attr_mutators() {
	fs, dev := c11SqFS()
	uid, gid := vp.Int("uid"), vp.Int("gid")
	ts := time.Unix(int64(vp.U32("t")), 0)
	vp.NoPanic()
	for i := 0; i < 4; i++ {
		p := c11SqPath(i)
		c11SqDone(fs, dev, fs.Chown(p, uid, gid), "finalized squashfs: Chown returns an error")
		c11SqDone(fs, dev, fs.Chtimes(p, ts, ts, ts), "finalized squashfs: Chtimes returns an error")
		c11SqDone(fs, dev, fs.Symlink("foo", p), "finalized squashfs: Symlink returns an error")
		c11SqDone(fs, dev, fs.Link("foo", p), "finalized squashfs: Link returns an error")
		c11SqDone(fs, dev, fs.Mknod(p, vp.U32("nodmode"), vp.Int("dev")), "finalized squashfs: Mknod returns an error")
	}
	c11SqDone(fs, dev, fs.SetLabel("newlabel"), "finalized squashfs: SetLabel returns an error")
	vp.AllowPanic()
	vp.Cover("attribute mutators refused")
}

// VP_C11_squashfs_readers: the reading entry points on the same image never write, also with
// rejected mutators in between.
func VP_C11_squashfs_readers() {
	fs, dev := c11SqFS()
	vp.Unwind(64)
	vp.NoPanic()
	des, err := fs.ReadDir(".")
	vp.Assert(err == nil, "ReadDir of the root works")
	vp.Assert(len(des) == 1, "one entry")
	_ = fs.Mkdir("x")
	_ = fs.Remove("foo")
	_, _ = fs.OpenFile("foo", os.O_RDWR|os.O_TRUNC)
	st, err := fs.Stat("foo")
	vp.Assert(err == nil, "Stat of the file works")
	vp.Assert(st.Size() == 5, "Stat reports the recorded size")
	f, err := fs.Open("foo")
	vp.Assert(err == nil, "Open of the file works")
	_, _ = f.Stat()
	_ = f.Close()
	_ = fs.Label()
	_ = fs.Type()
	_ = fs.Close()
	vp.AllowPanic()
	vp.Assert(len(dev.Log) == 0, "nothing was written to the image")
	vp.Assert(dev.WritableCalls == 0, "no writable handle was requested")
	vp.Cover("readers done")
}

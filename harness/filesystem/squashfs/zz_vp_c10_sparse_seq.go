package squashfs

import (
	"io"

	"github.com/diskfs/go-diskfs/internal/vp"
	"github.com/diskfs/go-diskfs/internal/vp/vpdev"
)

// C10.sqs_sparse_seq_*: black-box sequences of Reads through ONE fresh handle on a sparse file as
// mksquashfs writes it: a block-list entry of size 0 (a hole, block of zeros) occupies no bytes in the
// archive, so it shares its archive position with the next stored block. Whatever the handle remembers
// from the hole must not be served for the data block (and vice versa). This file is self-contained (own
// device, no access to the handle's cache fields) so that it survives refactorings of the handle.

const c10qBS = 4

// c10qDev: byte at archive position a is byte(a)*7+1 mixed with a symbolic seed (never 0 for seed=0).
type c10qDev struct {
	*vpdev.MemDev
	seed byte
}

func (d *c10qDev) at(a int64) byte { return byte(a)*7 + 1 + d.seed }
func (d *c10qDev) ReadAt(p []byte, off int64) (int, error) {
	vp.FillFunc(p, func(i int) byte { return d.at(off + int64(i)) })
	return len(p), nil
}

// c10qSparse: kinds[i] true = stored block (4 bytes uncompressed), false = hole.
func c10qSparse(kinds []bool, reads int) {
	m := vpdev.NewMemDev("disk", -1)
	m.NoWrites = true
	dev := &c10qDev{MemDev: m, seed: vp.U8("seed")}
	const start = 0x60
	fs := &FileSystem{superblock: &superblock{blocksize: c10qBS}, backend: dev, blocksize: c10qBS}
	ef := &extendedFile{blocksStart: start, fragmentBlockIndex: 0xffffffff, fileSize: uint64(len(kinds) * c10qBS)}
	want := make([]byte, 0, len(kinds)*c10qBS)
	loc := int64(start)
	for _, stored := range kinds {
		if stored {
			ef.blockSizes = append(ef.blockSizes, &blockData{size: c10qBS})
			for j := int64(0); j < c10qBS; j++ {
				want = append(want, dev.at(loc+j))
			}
			loc += c10qBS
		} else {
			ef.blockSizes = append(ef.blockSizes, &blockData{size: 0})
			want = append(want, 0, 0, 0, 0)
		}
	}
	fl := &File{extendedFile: ef, filesystem: fs}
	size := int64(len(want))
	pos := int64(0)
	vp.Unwind(8)
	for k := 0; k < reads; k++ {
		n := vp.Int("len" + string(rune('0'+k)))
		vp.Assume(n >= 1)
		vp.Assume(n <= 6)
		buf := make([]byte, 6)
		got, err := fl.Read(buf[:n])
		exp := int64(n)
		if size-pos < exp {
			exp = size - pos
		}
		vp.Assert(int64(got) == exp, "n = min(len(b), bytes remaining)")
		for i := 0; i < 6; i++ {
			if int64(i) < exp {
				idx := vp.IteInt(pos+int64(i) < size, int(pos)+i, 0)
				vp.Assert(buf[i] == want[idx], "delivered byte = file byte (zeros in a hole, archive bytes in a stored block)")
			}
		}
		if err != nil {
			vp.Assert(err == io.EOF, "no error other than io.EOF")
			vp.Assert(pos+exp >= size, "io.EOF only at the end")
		}
		pos += exp
	}
	vp.Cover("sequence of reads over holes and stored blocks")
}

func VP_C10_sqs_sparse_seq_hole_data()      { c10qSparse([]bool{false, true}, 3) }
func VP_C10_sqs_sparse_seq_data_hole_data() { c10qSparse([]bool{true, false, true}, 3) }
func VP_C10_sqs_sparse_seq_hole_hole_data() {
	if vp.Thorough() {
		c10qSparse([]bool{false, false, true, true}, 4)
	} else {
		vp.Cover("thorough tier only")
	}
}

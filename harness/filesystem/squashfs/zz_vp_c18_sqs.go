package squashfs

import (
	"encoding/binary"
	"io"
	"runtime"

	"github.com/diskfs/go-diskfs/internal/vp"
	"github.com/diskfs/go-diskfs/internal/vp/vpdev"
)

// c18Slack: allocations up to twice the image size plus this constant count as "in proportion
// to the image" (the readers legitimately use fixed buffers of a few KiB).
const c18Slack = 64 << 10

// c18Dev is an image whose every byte is arbitrary. Symbolically it is a vpdev.MemDev with
// uninterpreted content; natively the content is materialised once so that reads do not allocate
// (the native run measures the heap to confirm allocation counterexamples).
type c18Dev struct {
	vpdev.MemDev
	img []byte
}

func c18NewDev(name string, size int64) *c18Dev {
	d := &c18Dev{}
	d.Name, d.Size, d.UF, d.NoWrites = name, size, true, true
	if !vp.Symbolic() {
		d.img = make([]byte, size)
		for i := range d.img {
			d.img[i] = vp.UFByte(name, int64(i))
		}
	}
	return d
}

func (d *c18Dev) ReadAt(p []byte, off int64) (int, error) {
	if vp.Symbolic() {
		return d.MemDev.ReadAt(p, off)
	}
	if off < 0 || off >= d.Size {
		return 0, io.EOF
	}
	n := copy(p, d.img[off:])
	if n < len(p) {
		return n, io.EOF
	}
	return n, nil
}

// c18AllocBegin/End: the native counterpart of vp.AllocLimit (which only the engine checks):
// more than limit bytes allocated between the two calls is a panic of the NoPanic region.
func c18AllocBegin() uint64 {
	if vp.Symbolic() {
		return 0
	}
	var m runtime.MemStats
	runtime.ReadMemStats(&m)
	return m.TotalAlloc
}

func c18AllocEnd(t0, limit uint64) {
	if vp.Symbolic() {
		return
	}
	var m runtime.MemStats
	runtime.ReadMemStats(&m)
	if m.TotalAlloc-t0 > limit {
		panic("allocation out of proportion to the image size")
	}
}

// put overlays data (concrete and/or arbitrary bytes) on the image.
func (d *c18Dev) put(off int64, data []byte) {
	d.Log = append(d.Log, vpdev.WRec{Off: off, Len: len(data), Data: data})
	if !vp.Symbolic() {
		copy(d.img[off:], data)
	}
}

// c18NullDev delivers every read in full and leaves the (zeroed) buffer alone.
type c18NullDev struct{ vpdev.MemDev }

func (d *c18NullDev) ReadAt(p []byte, off int64) (int, error) { return len(p), nil }

// c18Buf returns max arbitrary bytes cut to an arbitrary length n <= max with capacity n (a buffer
// that ends where the data ends, as the readers allocate them).
func c18Buf(name string, max int) ([]byte, int, []byte) {
	n := vp.Int(name + ".len")
	vp.Assume(n >= 0)
	vp.Assume(n <= max)
	all := vp.Bytes(name, max)
	return all[:n:n], n, all
}

// VP_C18_sqs_superblock: parseSuperblock on 96 arbitrary bytes.
func VP_C18_sqs_superblock() {
	b := vp.Bytes("sb", 96)
	vp.NoPanic()
	s, err := parseSuperblock(b)
	vp.AllowPanic()
	if err == nil {
		vp.Assert(binary.LittleEndian.Uint32(b) == 0x73717368, "accepted only with the magic")
		vp.Assert(s.blocksize == binary.LittleEndian.Uint32(b[12:]), "block size decoded from 12")
		vp.Assert(s.idCount == binary.LittleEndian.Uint16(b[26:]), "id count decoded from 26")
		vp.Assert(s.inodeTableStart == binary.LittleEndian.Uint64(b[64:]), "inode table start decoded from 64")
		vp.Cover("superblock accepted")
	} else {
		vp.Cover("superblock rejected")
	}
}

// VP_C18_sqs_inode_header: parseInodeHeader on a buffer of arbitrary length.
func VP_C18_sqs_inode_header() {
	b, n, all := c18Buf("hdr", 24)
	vp.NoPanic()
	h, err := parseInodeHeader(b)
	vp.AllowPanic()
	if err == nil {
		vp.Assert(n >= 16, "accepted headers have 16 bytes")
		vp.Assert(uint16(h.inodeType) == binary.LittleEndian.Uint16(all), "type decoded from 0")
		vp.Cover("header accepted")
	} else {
		vp.Cover("header rejected")
	}
}

// c18InodeBody: parseInodeBody for one inode type on a body of arbitrary length and content.
func c18InodeBody(t inodeType, blocksize int) {
	b, _, _ := c18Buf("body", 72)
	vp.Unwind(20)
	vp.AllocCap(16)
	vp.AllocLimit(uint64(2*72 + c18Slack))
	vp.NoPanic()
	body, extra, err := parseInodeBody(b, blocksize, t)
	vp.AllowPanic()
	if err == nil {
		vp.Assert(body != nil, "body returned")
		vp.Assert(extra >= 0, "bytes still needed is not negative")
		if extra == 0 {
			vp.Cover("body complete")
		} else {
			vp.Cover("body needs more bytes")
		}
	} else {
		vp.Cover("body rejected")
	}
}

func VP_C18_sqs_inode_basic_dir()     { c18InodeBody(inodeBasicDirectory, 4096) }
func VP_C18_sqs_inode_ext_dir()       { c18InodeBody(inodeExtendedDirectory, 4096) }
func VP_C18_sqs_inode_basic_file()    { c18InodeBody(inodeBasicFile, 4096) }
func VP_C18_sqs_inode_ext_file()      { c18InodeBody(inodeExtendedFile, 4096) }
func VP_C18_sqs_inode_basic_symlink() { c18InodeBody(inodeBasicSymlink, 4096) }
func VP_C18_sqs_inode_ext_symlink()   { c18InodeBody(inodeExtendedSymlink, 4096) }
func VP_C18_sqs_inode_basic_char()    { c18InodeBody(inodeBasicChar, 4096) }
func VP_C18_sqs_inode_ext_block()     { c18InodeBody(inodeExtendedBlock, 4096) }
func VP_C18_sqs_inode_basic_fifo()    { c18InodeBody(inodeBasicFifo, 4096) }
func VP_C18_sqs_inode_ext_socket()    { c18InodeBody(inodeExtendedSocket, 4096) }
func VP_C18_sqs_inode_unknown()       { c18InodeBody(inodeType(15), 4096) }

// VP_C18_sqs_directory: parseDirectory on directory table bytes of arbitrary length and content.
func VP_C18_sqs_directory() {
	max := vp.Bound("dirbytes", 44, 64)
	b, n, _ := c18Buf("dir", max)
	vp.Unwind(max/9 + 4)
	vp.MaxLoop(max/9 + 2)
	vp.NoPanic()
	d, err := parseDirectory(b)
	vp.AllowPanic()
	if err == nil {
		vp.Assert(len(d.entries) <= n/9, "no more entries than minimum-size entries fit")
		vp.Cover("directory parsed")
	} else {
		vp.Cover("directory rejected")
	}
}

// VP_C18_sqs_direntry: parseDirectoryEntry on arbitrary bytes.
func VP_C18_sqs_direntry() {
	b, n, all := c18Buf("ent", 40)
	vp.NoPanic()
	e, sz, err := parseDirectoryEntry(b, vp.U32("inodeBase"))
	vp.AllowPanic()
	if err == nil {
		vp.Assert(sz <= n, "consumed size within the bytes given")
		vp.Assert(sz == 9+int(binary.LittleEndian.Uint16(all[6:])), "consumed size = 8 + name size + 1")
		vp.Assert(len(e.name) == sz-8, "name has the announced length")
		vp.Cover("entry accepted")
	} else {
		vp.Cover("entry rejected")
	}
}

// VP_C18_sqs_fragment: parseFragmentEntry on arbitrary bytes.
func VP_C18_sqs_fragment() {
	b, n, all := c18Buf("frag", 20)
	vp.NoPanic()
	f, err := parseFragmentEntry(b)
	vp.AllowPanic()
	if err == nil {
		vp.Assert(n >= 16, "accepted entries have 16 bytes")
		vp.Assert(f.start == binary.LittleEndian.Uint64(all), "start decoded from 0")
		vp.Assert(f.size < 1<<24, "size is 24 bits")
		vp.Cover("fragment entry accepted")
	} else {
		vp.Cover("fragment entry rejected")
	}
}

// VP_C18_sqs_metadata: getMetadataSize / parseMetadata (uncompressed blocks) on arbitrary bytes.
func VP_C18_sqs_metadata() {
	b, n, all := c18Buf("meta", 24)
	if n >= 2 {
		vp.Assume(all[1]&0x80 == 0x80) // uncompressed (decompressors are outside the engine)
	}
	vp.NoPanic()
	sz, comp, err := getMetadataSize(b)
	m, err2 := parseMetadata(b, nil)
	vp.AllowPanic()
	if err == nil {
		vp.Assert(!comp, "bit 15 set means uncompressed")
		vp.Assert(sz == binary.LittleEndian.Uint16(all)&0x7fff, "size = low 15 bits")
	}
	if err2 == nil {
		vp.Assert(len(m.data) == int(sz), "data has the announced size")
		vp.Assert(int(sz)+2 <= n, "data lies inside the bytes given")
		vp.Cover("metadata block accepted")
	} else {
		vp.Cover("metadata block rejected")
	}
}

// VP_C18_sqs_idtable: parseIDTable on arbitrary bytes.
func VP_C18_sqs_idtable() {
	b, n, _ := c18Buf("ids", 18)
	vp.Unwind(8)
	vp.MaxLoop(6)
	vp.NoPanic()
	ids := parseIDTable(b)
	vp.AllowPanic()
	vp.Assert(len(ids) == n/4, "one id per 4 bytes")
	vp.Cover("id table parsed")
}

// VP_C18_sqs_xattr_index: parseXAttrIndex on arbitrary bytes (offset key 0, the only key of the map).
func VP_C18_sqs_xattr_index() {
	b, n, all := c18Buf("idx", 20)
	for k := 2; k < 6; k++ {
		all[k] = 0
	}
	vp.NoPanic()
	x, err := parseXAttrIndex(b, map[uint32]uint32{0: 0})
	vp.AllowPanic()
	if err == nil {
		vp.Assert(n >= 16, "accepted entries have 16 bytes")
		vp.Assert(x.count == binary.LittleEndian.Uint32(all[8:]), "count decoded from 8")
		vp.Cover("index entry accepted")
	} else {
		vp.Cover("index entry rejected")
	}
}

// VP_C18_sqs_xattr_find: xAttrTable.find over well-formed xattr data of three attributes (1-byte names
// "a","b","c", values of 1, 1 and 0 bytes; type and value bytes arbitrary) with an arbitrary attribute count in the
// index entry. (Names are map keys and must be concrete for the engine; arbitrary layouts are not explored.)
func VP_C18_sqs_xattr_find() {
	data := vp.Bytes("xdata", 29)
	for k := 0; k < 3; k++ {
		o := 10 * k
		data[o+2], data[o+3] = 1, 0 // name size
		data[o+4] = byte('a' + k)
		data[o+5], data[o+6], data[o+7], data[o+8] = 1, 0, 0, 0 // value size
	}
	data[25] = 0 // the third value is empty: the data ends with its size field
	cnt := vp.U32("count")
	x := &xAttrTable{list: []*xAttrIndex{{pos: 0, count: cnt, size: vp.U32("size")}}, data: data}
	vp.Unwind(6)
	if cnt >= 3 {
		// KF-C18-32: the read pointer is advanced by the absolute end of the previous attribute instead of
		// being set to it: from the third attribute on it lies beyond the data
		vp.KnownPanic("KF-C18-32", "squashfs.xAttrTable).find) | slice bounds out of range")
	}
	vp.NoPanic()
	m, err := x.find(0)
	vp.AllowPanic()
	if err == nil {
		vp.Assert(uint32(len(m)) <= cnt, "no more attributes than announced")
		vp.Assert(cnt <= 3, "no more attributes than the data holds")
		vp.Cover("xattrs found")
	} else {
		vp.Cover("xattrs rejected")
	}
}

// VP_C18_sqs_read_metadata: readMetadata over an arbitrary table of uncompressed blocks (quick: 12
// bytes from table offset 0; thorough: 64 bytes from an arbitrary table start).
func VP_C18_sqs_read_metadata() {
	size := int64(vp.Bound("metatable", 12, 64))
	dev := vpdev.NewMemDev("img", size)
	dev.UF, dev.NoWrites = true, true
	// no compressor: blocks whose header says "compressed" are refused by readMetaBlock
	fs := &FileSystem{backend: dev, blocksize: 4096}
	first := int64(0)
	if vp.Thorough() {
		first = vp.I64("first")
		vp.Assume(first >= 0)
		vp.Assume(first <= size)
	}
	bo := vp.U32("blockOffset")
	vp.Assume(int64(bo) <= size)
	off := vp.U16("byteOffset")
	want := vp.Int("size")
	vp.Assume(want >= 0)
	vp.Assume(want <= vp.Bound("metawant", 5, 48))
	vp.Unwind(int(size)/2 + 4)
	vp.MaxLoop(int(size)/2 + 2) // every iteration consumes at least the 2-byte header of a block
	vp.AllocCap(int(size) + 6)
	vp.AllocLimit(uint64(2*size + c18Slack))
	// KF-C18-33: byte offset (from an inode reference / directory entry) beyond the metadata block
	vp.KnownPanic("KF-C18-33", "squashfs.FileSystem).readMetadata) | slice bounds out of range")
	vp.NoPanic()
	b, err := fs.readMetadata(dev, nil, first, bo, off, want)
	vp.AllowPanic()
	if err == nil {
		vp.Assert(len(b) >= want, "at least the wanted number of bytes")
		vp.Cover("metadata read")
	} else {
		vp.Cover("metadata read failed")
	}
}

// c18FileRead: File.Read with an arbitrary block list (2 entries), size field, offset, fragment reference.
func c18FileRead(blocksize int64, buflen int) {
	dev := &c18NullDev{}
	fs := &FileSystem{backend: dev, blocksize: blocksize, superblock: &superblock{blocksize: uint32(blocksize)},
		fragments: []*fragmentEntry{{start: vp.U64("frag.start"), size: vp.U32("frag.size") & 0xffffff, compressed: false}}}
	ef := &extendedFile{
		blocksStart: vp.U64("blocksStart"), fileSize: vp.U64("fileSize"),
		fragmentBlockIndex: vp.U32("fragIndex"), fragmentOffset: vp.U32("fragOffset"),
		blockSizes: []*blockData{{size: vp.U32("b0.size") & 0xffffff}},
	}
	off := vp.I64("offset")
	vp.Assume(off >= 0)
	fl := &File{extendedFile: ef, offset: off, filesystem: fs}
	b := make([]byte, buflen)
	// data and fragment block sizes are 24-bit fields: up to 16 MiB per block is what the format allows
	limit := uint64(1<<24 + c18Slack)
	vp.Unwind(6)
	vp.AllocCap(buflen + 8)
	vp.AllocLimit(limit)
	// KF-C18-34: fragment offset + tail size beyond the fragment block
	vp.KnownPanic("KF-C18-34", "squashfs.FileSystem).readFragment) | slice bounds out of range")
	vp.NoPanic()
	n, err := fl.Read(b)
	vp.AllowPanic()
	vp.Assert(n >= 0, "count not negative")
	vp.Assert(n <= buflen, "count at most len(b)")
	if err == nil {
		vp.Cover("read without error")
	} else {
		vp.Cover("read with error or EOF")
	}
}

func VP_C18_sqs_file_read_4096() { c18FileRead(4096, 100) }

// VP_C18_sqs_dirent_uid: directoryEntryFromInode with arbitrary uid/gid indexes into a 2-entry id table.
func VP_C18_sqs_dirent_uid() {
	fs := &FileSystem{uidsGids: []uint32{0, 1000}}
	u, g := vp.U16("uidIdx"), vp.U16("gidIdx")
	in := &inodeImpl{header: &inodeHeader{inodeType: inodeBasicFile, uidIdx: u, gidIdx: g}, body: &basicFile{}}
	if u >= 2 {
		// KF-C18-35: uid/gid index of an inode beyond the id table
		vp.KnownPanic("KF-C18-35", "squashfs.FileSystem).directoryEntryFromInode) | index out of range")
	}
	if g >= 2 {
		vp.KnownPanic("KF-C18-35", "squashfs.FileSystem).directoryEntryFromInode) | index out of range")
	}
	vp.NoPanic()
	de, err := fs.directoryEntryFromInode("f", in, false)
	vp.AllowPanic()
	if err == nil {
		vp.Assert(de != nil, "entry returned")
		vp.Cover("entry built")
	}
	vp.Cover("done")
}

// c18SqsDev is the image of c18SqsRead: the superblock at 0, arbitrary bytes behind it. Reads are
// case-split on the offset (superblock bytes are not looked up through symbolic offsets); table pointers
// into the superblock itself are outside the explored inputs (Assume).
type c18SqsDev struct {
	c18Dev
	sb []byte
}

func (d *c18SqsDev) ReadAt(p []byte, off int64) (int, error) {
	if off == 0 {
		return copy(p, d.sb), nil
	}
	vp.Assume(off >= 96)
	return d.c18Dev.ReadAt(p, off)
}

// c18SqsRead: squashfs.Read on an image with a well-formed superblock header (magic, version 4.0, block
// size/log as given, no compression, no xattr table) and ARBITRARY table offsets, root inode reference and
// id count (variant "ids": no fragments) or fragment count (variant "frags": no ids); the rest of the
// image is arbitrary.
func c18SqsRead(blocksize uint32, blocklog uint16, frags bool) {
	const size = 256
	dev := &c18SqsDev{c18Dev: *c18NewDev("img", size)}
	sb := vp.Bytes("sb", 96)
	binary.LittleEndian.PutUint32(sb[0:], 0x73717368)
	binary.LittleEndian.PutUint32(sb[8:], 0)
	binary.LittleEndian.PutUint32(sb[12:], blocksize)
	binary.LittleEndian.PutUint16(sb[20:], 0)
	binary.LittleEndian.PutUint16(sb[22:], blocklog)
	binary.LittleEndian.PutUint16(sb[24:], 0x0200) // no xattrs
	binary.LittleEndian.PutUint16(sb[28:], 4)
	binary.LittleEndian.PutUint16(sb[30:], 0)
	if frags {
		binary.LittleEndian.PutUint16(sb[26:], 0) // no ids
	} else {
		binary.LittleEndian.PutUint32(sb[16:], 0) // no fragments
		// one index block of ids (more blocks only repeat the same reader loop)
		vp.Assume(binary.LittleEndian.Uint16(sb[26:]) <= 2048)
	}
	if !vp.Thorough() {
		// quick tier: the root inode lies in the first metadata block of an inode table that starts
		// right behind the superblock (its byte offset stays arbitrary): the block cache is a map keyed
		// by block position, and arbitrary positions make the engine fork per cached block
		binary.LittleEndian.PutUint64(sb[64:], 96)
		sb[34], sb[35], sb[36], sb[37] = 0, 0, 0, 0
	}
	dev.sb = sb
	limit := uint64(2*size + c18Slack)
	vp.Unwind(40)
	vp.MaxLoop(140) // every metadata block consumes at least its 2-byte header of a 256-byte image
	vp.AllocCap(vp.Bound("alloccap", 40, 80))
	vp.AllocLimit(limit)
	vp.KnownPanic("KF-C18-33", "squashfs.FileSystem).readMetadata) | slice bounds out of range")
	vp.NoPanic()
	a0 := c18AllocBegin()
	fs, err := Read(dev, size, 0, 4096)
	c18AllocEnd(a0, limit)
	vp.AllowPanic()
	if err == nil {
		vp.Assert(fs.rootDir != nil, "root inode loaded")
		vp.Cover("image accepted as squashfs")
	} else {
		vp.Cover("image rejected")
	}
}

// the two full variants take minutes (every inode type, metadata block loops): thorough tier only
func VP_C18_sqs_read_ids() {
	if vp.Thorough() {
		c18SqsRead(4096, 12, false)
	} else {
		vp.Cover("thorough tier only")
	}
}
func VP_C18_sqs_read_frags() {
	if vp.Thorough() {
		c18SqsRead(4096, 12, true)
	} else {
		vp.Cover("thorough tier only")
	}
}
func VP_C18_sqs_read_bs0() { c18SqsRead(0, 0, false) }

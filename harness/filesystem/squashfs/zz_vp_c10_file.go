package squashfs

import (
	"bytes"
	"io"

	"github.com/diskfs/go-diskfs/internal/vp"
	"github.com/diskfs/go-diskfs/internal/vp/vpdev"
)

// C10 for squashfs: one step of Read / Seek / Close from an arbitrary handle state.
// The handle state of a squashfs File is (offset, closed, last decompressed block): the cached
// block is part of the state, so the read harnesses start from a handle whose cache is empty or
// holds (consistently) one of the file's blocks. The file is immutable, so one step from an
// arbitrary state covers call sequences of any length.
//
// Well-formedness assumed: data blocks stored back to back from blocksStart, each recorded with
// its stored size (0 = sparse, blocksize = stored uncompressed, 2 = "compressed" with the stub
// compressor below); the tail of the file is either in a fragment (fragment table entry present,
// fragment block large enough) or it is the last, short, data block.

const c10bs = 4 // block size of the small mode

// c10LaneDevS: the byte at device address a is byte number `lane` of a (see the fat12 harness).
type c10LaneDevS struct {
	*vpdev.MemDev
	lane uint
}

func (d *c10LaneDevS) ByteAt(a int64) byte { return byte(uint64(a) >> (8 * d.lane)) }

func (d *c10LaneDevS) ReadAt(p []byte, off int64) (int, error) {
	if off < 0 {
		return 0, io.ErrUnexpectedEOF
	}
	vp.FillFunc(p, func(i int) byte { return d.ByteAt(off + int64(i)) })
	return len(p), nil
}

// c10Stub is a Compressor stub (interface level): a "compressed" block of s bytes decompresses to a
// whole block whose byte i is in[i mod s] ^ 0xA5.
type c10Stub struct{}

func (c10Stub) compress(b []byte) ([]byte, error) { return b, nil }
func (c10Stub) decompress(in []byte) ([]byte, error) {
	out := make([]byte, c10bs)
	for i := range out {
		out[i] = in[i%len(in)] ^ 0xA5
	}
	return out, nil
}
func (c10Stub) loadOptions([]byte) error { return nil }
func (c10Stub) optionsBytes() []byte     { return nil }
func (c10Stub) flavour() compression     { return compressionGzip }

const (
	c10Full = iota
	c10Sparse
	c10Comp
)

type c10SqsFile struct {
	fl     *File
	dev    *c10LaneDevS
	kinds  []int
	frag   bool
	size   int64
	start  int64 // blocksStart
	fstart int64 // fragment block start
	foff   int64 // offset of the tail in the fragment block
	stored []int64
}

// c10Sqs builds the handle. kinds: the data blocks; frag: tail (1..bs-1 bytes) in a fragment,
// otherwise the last data block is the (1..bs byte) tail; cache: index of the cached block or -1.
func c10Sqs(kinds []int, frag bool, cache int) *c10SqsFile {
	return c10SqsDev(kinds, frag, cache, false, 1)
}

// symGeom: blocksStart and the fragment block start are arbitrary (otherwise fixed constants).
func c10SqsDev(kinds []int, frag bool, cache int, symGeom bool, lanes uint) *c10SqsFile {
	m := vpdev.NewMemDev("disk", -1)
	m.NoWrites = true
	dev := &c10LaneDevS{MemDev: m}
	if lanes > 1 {
		dev.lane = uint(vp.U8("lane"))
		vp.Assume(dev.lane < lanes)
	}
	nb := len(kinds)
	f := &c10SqsFile{dev: dev, kinds: kinds, frag: frag}
	start := uint64(0x1234567835)
	if symGeom {
		start = vp.U64("blocksStart")
		vp.Assume(start < 1<<40)
	}
	f.start = int64(start)
	fs := &FileSystem{superblock: &superblock{blocksize: c10bs}, backend: dev, blocksize: c10bs, compressor: c10Stub{}}
	ef := &extendedFile{blocksStart: start, fragmentBlockIndex: 0xffffffff}
	var last int64 // bytes of the file in the last data block (no fragment)
	if frag {
		tail := vp.Int("tail")
		vp.Assume(tail >= 1)
		vp.Assume(tail < c10bs)
		f.size = int64(nb*c10bs + tail)
		fstart := uint64(0x2345678911)
		if symGeom {
			fstart = vp.U64("fragStart")
			vp.Assume(fstart < 1<<40)
		}
		foff := vp.U32("fragOffset")
		vp.Assume(int64(foff)+int64(tail) <= 8)
		f.fstart, f.foff = int64(fstart), int64(foff)
		fs.fragments = []*fragmentEntry{{start: 0x999, size: 8}, {start: fstart, size: 8}}
		ef.fragmentBlockIndex = 1
		ef.fragmentOffset = foff
	} else if nb > 0 {
		l := vp.Int("last")
		vp.Assume(l >= 1)
		vp.Assume(l <= c10bs)
		last = int64(l)
		f.size = int64((nb-1)*c10bs) + last
	}
	ef.fileSize = uint64(f.size)
	loc := int64(start)
	var cLoc int64
	var cSize uint32
	var cBlk []byte
	for i, kd := range kinds {
		bd := &blockData{}
		var st int64
		switch kd {
		case c10Full:
			st = c10bs
			if !frag && i == nb-1 {
				st = last
			}
		case c10Comp:
			st = 2
			bd.compressed = true
		}
		bd.size = uint32(st)
		ef.blockSizes = append(ef.blockSizes, bd)
		f.stored = append(f.stored, st)
		if i == cache {
			// the cache holds exactly what readBlock returned for this block
			blk := make([]byte, c10bs)
			for j := 0; j < c10bs; j++ {
				blk[j] = f.blockByte(i, loc, int64(j))
			}
			n := int64(c10bs)
			if kd == c10Full {
				n = st
			}
			cLoc, cSize, cBlk = loc, bd.size, blk[:n]
		}
		loc += st
	}
	f.fl = &File{extendedFile: ef, offset: int64(vp.U64("offset") >> 1), filesystem: fs}
	if cache >= 0 {
		f.fl.blockLocation, f.fl.blockSize, f.fl.block = cLoc, cSize, cBlk
	}
	return f
}

// blockByte: byte j of data block i (stored at loc), from the on-disk format.
func (f *c10SqsFile) blockByte(i int, loc, j int64) byte {
	switch f.kinds[i] {
	case c10Sparse:
		return 0
	case c10Comp:
		return f.dev.ByteAt(loc+j%2) ^ 0xA5
	}
	return f.dev.ByteAt(loc + j)
}

// byteAt: file byte p (0 <= p < size).
func (f *c10SqsFile) byteAt(p int64) byte {
	blk := int64(uint64(p) / c10bs)
	j := int64(uint64(p) % c10bs)
	v := byte(0)
	if f.frag {
		v = f.dev.ByteAt(f.fstart + f.foff + j)
	}
	loc := f.start
	for i := range f.kinds {
		v = vp.IteU8(blk == int64(i), f.blockByte(i, loc, j), v)
		loc += f.stored[i]
	}
	return v
}

func c10SqsRead(kinds []int, frag bool, cache int) { c10SqsReadOpt(kinds, frag, cache, false, 1, 9) }

func c10SqsReadOpt(kinds []int, frag bool, cache int, symGeom bool, lanes uint, N int) {
	f := c10SqsDev(kinds, frag, cache, symGeom, lanes)
	fl := f.fl
	size := f.size
	off := fl.offset

	buf := vp.Bytes("buf", N)
	orig := make([]byte, N)
	copy(orig, buf)
	k := vp.Int("len")
	vp.Assume(k >= 0)
	vp.Assume(k <= N)

	rem := size - off
	if rem < 0 {
		rem = 0
	}
	want := int64(k)
	if rem < want {
		want = rem
	}

	vp.AllocCap(8)
	vp.Unwind(len(kinds) + 3)
	vp.NoPanic()
	n, err := fl.Read(buf[:k])
	vp.AllowPanic()
	vp.Unwind(16)

	vp.Assert(int64(n) == want, "n = min(len(b), bytes remaining)")
	vp.Assert(fl.offset == off+want, "cursor advances by the bytes delivered")
	for i := 0; i < N; i++ {
		if int64(i) < want {
			vp.Assert(buf[i] == f.byteAt(off+int64(i)), "delivered byte = file byte at cursor+i")
		} else {
			vp.Assert(buf[i] == orig[i], "buffer beyond n is untouched")
		}
	}
	// the handle state after the step is again a state the step may start from: the block cache
	// is empty or holds exactly what the on-disk format says for the block it claims to hold
	if fl.block != nil {
		matched := false
		loc := f.start
		for i := range f.kinds {
			if fl.blockLocation == loc {
				if int64(fl.blockSize) == f.stored[i] {
					n := int64(c10bs)
					if f.kinds[i] == c10Full {
						n = f.stored[i]
					}
					vp.Assert(int64(len(fl.block)) == n, "cached block has the length of the block it stands for")
					for j := int64(0); j < c10bs; j++ {
						if j < n {
							vp.Assert(fl.block[j] == f.blockByte(i, loc, j), "cached block holds the bytes of the block it stands for")
						}
					}
					matched = true
					vp.Cover("cache holds a block after the read")
				}
			}
			loc += f.stored[i]
		}
		vp.Assert(matched, "cached (location, size) is one of the file's blocks")
	}
	if err == io.EOF {
		vp.Assert(off+want >= size, "io.EOF only when the end is reached")
		vp.Cover("EOF reported")
	}
	if k > 0 {
		vp.Assert(err == nil || err == io.EOF, "no error other than io.EOF on a well-formed file")
		if want == 0 {
			vp.Assert(err == io.EOF, "a zero-byte read into a non-empty buffer reports io.EOF")
			vp.Cover("read at or past the end")
		}
		if want == int64(k) {
			if off+want < size {
				vp.Assert(err == nil, "a full read that stops before the end reports no error")
				vp.Cover("full read before the end")
			}
		} else if want > 0 {
			vp.Cover("short read at the end")
		}
		if f.frag {
			if off < int64(len(kinds)*c10bs) {
				if off+want > int64(len(kinds)*c10bs) {
					vp.Cover("read crosses from the data blocks into the fragment")
				}
			}
		}
	} else {
		vp.Cover("empty buffer")
	}
}

func VP_C10_sqs_read_fragonly()   { c10SqsRead(nil, true, -1) }
func VP_C10_sqs_read_empty()      { c10SqsRead(nil, false, -1) }
func VP_C10_sqs_read_b2_frag()    { c10SqsRead([]int{c10Full, c10Full}, true, -1) }
func VP_C10_sqs_read_b2_frag_c0() { c10SqsRead([]int{c10Full, c10Full}, true, 0) }
func VP_C10_sqs_read_b2_tail_c1() { c10SqsRead([]int{c10Full, c10Full}, false, 1) }

// sparse blocks share their location with the next stored block: the cache key must tell them apart
func VP_C10_sqs_read_sparse_full_c1() { c10SqsRead([]int{c10Sparse, c10Full}, true, 1) }
func VP_C10_sqs_read_full_sparse()    { c10SqsRead([]int{c10Full, c10Sparse}, false, -1) }
func VP_C10_sqs_read_comp_full()      { c10SqsRead([]int{c10Comp, c10Full}, true, -1) }

// arbitrary blocksStart / fragment block start / fragment offset, all 64 address bits compared
func VP_C10_sqs_read_geometry() { c10SqsReadOpt([]int{c10Full}, true, -1, true, 8, 6) }

// thorough tier: the remaining cache positions and a three-block file
func c10SqsThorough(kinds []int, frag bool, cache int) {
	if vp.Thorough() {
		c10SqsRead(kinds, frag, cache)
	}
}
func VP_C10_sqs_read_b1_frag()        { c10SqsThorough([]int{c10Full}, true, -1) }
func VP_C10_sqs_read_b2_frag_c1()     { c10SqsThorough([]int{c10Full, c10Full}, true, 1) }
func VP_C10_sqs_read_b2_tail()        { c10SqsThorough([]int{c10Full, c10Full}, false, -1) }
func VP_C10_sqs_read_sparse_full_c0() { c10SqsThorough([]int{c10Sparse, c10Full}, true, 0) }
func VP_C10_sqs_read_b3_frag()        { c10SqsThorough([]int{c10Full, c10Comp, c10Full}, true, -1) }

// VP_C10_sqs_seek: Seek with arbitrary offset and whence from an arbitrary cursor.
func VP_C10_sqs_seek() {
	f := c10Sqs([]int{c10Full}, true, -1)
	fl := f.fl
	fl.fileSize = vp.U64("size")
	vp.Assume(fl.fileSize < 1<<62)
	size := int64(fl.fileSize)
	off := fl.offset
	so := vp.I64("seekoff")
	wh := vp.Int("whence")

	vp.NoPanic()
	pos, err := fl.Seek(so, wh)
	vp.AllowPanic()

	vp.Assert(fl.offset >= 0, "cursor never negative")
	if wh == io.SeekStart || wh == io.SeekCurrent || wh == io.SeekEnd {
		var target int64
		switch wh {
		case io.SeekStart:
			target = so
		case io.SeekCurrent:
			target = off + so
		default:
			target = size + so
		}
		// KF-C10-4: SeekEnd subtracts the offset instead of adding it
		kf4 := wh == io.SeekEnd && so != 0
		if target < 0 { // includes int64 wrap-around, as in bytes.Reader
			vp.AssertUnless("KF-C10-4", kf4, err != nil, "negative position is rejected")
			vp.AssertUnless("KF-C10-4", kf4, fl.offset == off, "cursor unchanged on error")
			vp.Cover("negative position rejected")
		} else {
			vp.AssertUnless("KF-C10-4", kf4, err == nil, "valid seek succeeds")
			vp.AssertUnless("KF-C10-4", kf4, pos == target, "Seek returns base+offset")
			vp.AssertUnless("KF-C10-4", kf4, fl.offset == target, "cursor = base+offset")
			if target > size {
				vp.Cover("seek past EOF")
			}
			if wh == io.SeekEnd {
				if so < 0 {
					vp.Cover("seek back from the end")
				}
			}
			vp.Cover("seek ok")
		}
	} else {
		vp.Cover("other whence")
	}
}

// VP_C10_sqs_closed: after Close, Read does not return data without an error.
func VP_C10_sqs_closed() {
	f := c10Sqs([]int{c10Full}, true, 0)
	fl := f.fl
	buf := vp.Bytes("buf", 8)
	k := vp.Int("len")
	vp.Assume(k >= 0)
	vp.Assume(k <= 8)
	cerr := fl.Close()
	vp.Assert(cerr == nil, "Close succeeds")
	n, err := fl.Read(buf[:k])
	if n > 0 {
		vp.Assert(err != nil, "Read after Close does not return data without an error")
	}
	if err != nil {
		vp.Cover("read after close fails with an error")
	}
	_, serr := fl.Seek(0, io.SeekStart)
	if serr != nil {
		vp.Cover("seek after close fails with an error")
	}
	vp.Cover("read after close")
}

// VP_C10_sqs_sequence_vs_bytes_reader: the executable specification itself on a file of one
// data block and a fragment tail (5..7 bytes, 4-byte blocks): Seek(arbitrary offset, start or
// current) and two Reads of arbitrary length 0..4 on the squashfs handle (empty cache at first,
// so the second Read runs on whatever cache the first one left) and on a bytes.Reader over the
// file's content. SeekEnd is the subject of C10.sqs_seek.
func VP_C10_sqs_sequence_vs_bytes_reader() {
	const M, K = 7, 4
	f := c10Sqs([]int{c10Full}, true, -1)
	fl := f.fl
	fl.offset = 0
	content := make([]byte, M)
	for i := range content {
		content[i] = f.byteAt(int64(i))
	}
	ref := bytes.NewReader(content[:f.size])

	so := vp.I64("seekoff")
	wh := vp.Int("whence")
	vp.Assume(wh >= 0)
	vp.Assume(wh <= 1)
	vp.NoPanic()
	p1, e1 := fl.Seek(so, wh)
	vp.AllowPanic()
	p2, e2 := ref.Seek(so, wh)
	if e2 != nil {
		vp.Assert(e1 != nil, "Seek fails where bytes.Reader.Seek fails")
		vp.Cover("both seeks rejected")
	} else {
		vp.Assert(e1 == nil, "Seek succeeds where bytes.Reader.Seek succeeds")
		vp.Assert(p1 == p2, "Seek returns what bytes.Reader.Seek returns")
	}
	vp.AllocCap(8)
	for step := 0; step < 2; step++ {
		k := vp.Int("len" + string(rune('0'+step)))
		vp.Assume(k >= 0)
		vp.Assume(k <= K)
		b1 := make([]byte, K)
		b2 := make([]byte, K)
		vp.Unwind(5)
		vp.NoPanic()
		n1, r1 := fl.Read(b1[:k])
		vp.AllowPanic()
		vp.Unwind(16)
		n2, r2 := ref.Read(b2[:k])
		vp.Assert(n1 == n2, "Read returns as many bytes as bytes.Reader.Read")
		for i := 0; i < K; i++ {
			vp.Assert(b1[i] == b2[i], "Read delivers the bytes bytes.Reader.Read delivers")
		}
		c1, _ := fl.Seek(0, io.SeekCurrent)
		c2, _ := ref.Seek(0, io.SeekCurrent)
		vp.Assert(c1 == c2, "cursor where bytes.Reader has it")
		if r2 == io.EOF {
			if k > 0 {
				vp.Assert(r1 == io.EOF, "io.EOF where bytes.Reader reports it")
				vp.Cover("both report EOF")
			}
		}
		if r1 == io.EOF {
			vp.Assert(c1 >= f.size, "io.EOF only at the end")
		} else if k > 0 {
			vp.Assert(r1 == nil, "no other error")
		}
		if n1 > 0 {
			if step == 1 {
				vp.Cover("second read delivers bytes")
			}
		}
	}
	vp.Stop("sequence compared")
}

package ext4

import (
	"os"
	"time"

	"github.com/diskfs/go-diskfs/internal/vp"
)

// C04.scenario (tree part): Mkdir / create / Symlink / Remove / Chmod / Chown / Chtimes and
// the listings, link targets and attributes observed live and after re-opening the image.

// c04Listing: ReadDir(dir) shows exactly the names want (any order), each with the given kind
// ('f' file, 'd' directory, 'l' symlink).
func c04Listing(fsys *FileSystem, dir string, want []string, kinds string) {
	c04NoPanic()
	ents, err := fsys.ReadDir(dir)
	c04AllowPanic()
	vp.Assert(err == nil, "listing a directory the library wrote does not fail")
	vp.Assert(len(ents) == len(want), "listing has as many entries as the reference tree")
	for i, w := range want {
		found := 0
		for _, e := range ents {
			if e.Name() == w {
				found++
				switch kinds[i] {
				case 'd':
					vp.Assert(e.IsDir(), "directory listed as directory")
				case 'l':
					vp.Assert(e.Type()&os.ModeSymlink != 0, "symlink listed as symlink")
				default:
					vp.Assert(e.Type() == 0, "regular file listed as regular file")
				}
			}
		}
		vp.Assert(found == 1, "every name of the reference tree is listed exactly once")
	}
}

func c04Put(fsys *FileSystem, name string, data []byte) {
	c04WriteAt(fsys, name, os.O_CREATE|os.O_RDWR, -1, data)
}

func c04CheckConst(fsys *FileSystem, name string, ref []byte, bs int) {
	c04CheckFile(fsys, name, ref, len(ref), len(ref), bs)
}

// c04ScMkdir: nested Mkdir, a file in the innermost directory, listings of every level, refusal
// to remove a non-empty directory, removal of the file and then of the directory.
func c04ScMkdir(cfg c04Cfg) {
	fsys, dev, size := c04Fixture(cfg)
	bs := cfg.bs()
	data := vp.Bytes("data", 40)
	c04NoPanic()
	err := fsys.Mkdir("d1/d2")
	c04AllowPanic()
	vp.Assert(err == nil, "mkdir accepted")
	c04Put(fsys, "d1/d2/f", data)
	c04Put(fsys, "g", data[:7])
	check := func(fs1 *FileSystem) {
		c04Listing(fs1, ".", []string{"d1", "g"}, "df")
		c04Listing(fs1, "d1", []string{"d2"}, "d")
		c04Listing(fs1, "d1/d2", []string{"f"}, "f")
		c04CheckConst(fs1, "d1/d2/f", data, bs)
		c04CheckConst(fs1, "g", data[:7], bs)
	}
	check(fsys)
	check(c04Reopen(dev, size, cfg))
	c04NoPanic()
	err = fsys.Remove("d1/d2")
	c04AllowPanic()
	vp.Assert(err != nil, "removing a non-empty directory is refused")
	c04Listing(fsys, "d1/d2", []string{"f"}, "f")
	vp.Cover("mkdir scenario done")
}

func VP_C04_sc_mkdir_1k() { c04ScMkdir(c04Cfg{spb: 2}) }
func VP_C04_sc_mkdir_4k_csum() {
	c04ScMkdir(c04Cfg{spb: 8, csum: true, start: 4096})
}

// c04ScRemove: files a (2 blocks), b (1 block); Remove(a); create c (2 blocks): the listing is
// {b, c}, a is gone, b still holds its bytes, c holds its own - live and after re-open.
func c04ScRemove(cfg c04Cfg) {
	fsys, dev, size := c04Fixture(cfg)
	bs := cfg.bs()
	da := vp.Bytes("a", bs+20)
	db := vp.Bytes("b", 30)
	dc := vp.Bytes("c", bs+10)
	c04Put(fsys, "a", da)
	c04Put(fsys, "b", db)
	c04NoPanic()
	err := fsys.Remove("a")
	c04AllowPanic()
	vp.Assert(err == nil, "removing a file is accepted")
	c04Listing(fsys, ".", []string{"b"}, "f")
	c04CheckConst(fsys, "b", db, bs)
	c04NoPanic()
	_, err = fsys.OpenFile("a", os.O_RDONLY)
	c04AllowPanic()
	vp.Assert(err != nil, "removed file cannot be opened")
	vp.Cover("removed")
	// KF-C04-5: Remove clears the inode-bitmap bit of inode+1 instead of inode, so the next create
	// re-uses the inode of the file created right after the removed one
	c04Put(fsys, "c", dc)
	check := func(fs1 *FileSystem) {
		c04NoPanic()
		ents, err := fs1.ReadDir(".")
		c04AllowPanic()
		vp.Assert(err == nil, "listing a directory the library wrote does not fail")
		vp.Assert(len(ents) == 2, "listing has as many entries as the reference tree")
		c04NoPanic()
		fb, err1 := fs1.Stat("b")
		fc, err2 := fs1.Stat("c")
		c04AllowPanic()
		vp.Assert(err1 == nil, "stat accepted")
		vp.Assert(err2 == nil, "stat accepted")
		vp.AssertUnless("KF-C04-5", true, fb.Size() == int64(len(db)), "a surviving file keeps its size when another file is created after a Remove")
		vp.Assert(fc.Size() == int64(len(dc)), "new file has its own size")
		ib := fb.Sys().(*StatT).Ino
		ic := fc.Sys().(*StatT).Ino
		vp.AssertUnless("KF-C04-5", true, ib != ic, "two names created independently are two files (distinct inodes)")
	}
	check(fsys)
	check(c04Reopen(dev, size, cfg))
	if vp.Known("KF-C04-5") {
		vp.Stop("known finding KF-C04-5: contents not compared")
	}
	c04CheckConst(fsys, "b", db, bs)
	c04CheckConst(fsys, "c", dc, bs)
	vp.Cover("remove scenario done")
}

func VP_C04_sc_remove_1k() { c04ScRemove(c04Cfg{spb: 2}) }
func VP_C04_sc_remove_4k() { c04ScRemove(c04Cfg{spb: 8, csum: true, start: 4096}) }

// VP_C04_remove_bitmaps: after Remove(a) the blocks and the inode of the surviving file b are
// still marked in use and those of a are free again (so that later allocations cannot hand b's
// blocks or inode to another file).
func c04RemoveBitmaps(cfg c04Cfg) {
	fsys, _, _ := c04Fixture(cfg)
	bs := cfg.bs()
	da := vp.Bytes("a", bs+20)
	db := vp.Bytes("b", bs+30)
	c04Put(fsys, "a", da)
	c04Put(fsys, "b", db)
	fa, err := fsys.OpenFile("a", os.O_RDONLY)
	vp.Assume(err == nil)
	fb, err := fsys.OpenFile("b", os.O_RDONLY)
	vp.Assume(err == nil)
	ea := fa.(*File).extents
	eb := fb.(*File).extents
	ia := fa.(*File).inode.number
	ib := fb.(*File).inode.number
	c04NoPanic()
	err = fsys.Remove("a")
	c04AllowPanic()
	vp.Assert(err == nil, "removing a file is accepted")
	vp.Cover("removed")
	sb := fsys.superblock
	inUse := func(block uint64) bool {
		g := (block - uint64(sb.firstDataBlock)) / uint64(sb.blocksPerGroup)
		bm, err := fsys.readBlockBitmap(int(g))
		vp.Assume(err == nil)
		set, err := bm.IsSet(int((block - uint64(sb.firstDataBlock)) % uint64(sb.blocksPerGroup)))
		vp.Assume(err == nil)
		return set
	}
	for _, e := range eb {
		for k := uint64(0); k < uint64(e.count); k++ {
			vp.AssertUnless("KF-C04-6", sb.firstDataBlock != 0, inUse(e.startingBlock+k), "blocks of a surviving file stay marked in use after Remove of another file")
		}
	}
	for _, e := range ea {
		for k := uint64(0); k < uint64(e.count); k++ {
			vp.AssertUnless("KF-C04-6", sb.firstDataBlock != 0, !inUse(e.startingBlock+k), "blocks of the removed file are free again")
		}
	}
	ibm, err := fsys.readInodeBitmap(0)
	vp.Assume(err == nil)
	setB, err := ibm.IsSet(int(ib - 1))
	vp.Assume(err == nil)
	setA, err := ibm.IsSet(int(ia - 1))
	vp.Assume(err == nil)
	vp.AssertUnless("KF-C04-5", true, setB, "inode of a surviving file stays marked in use after Remove of another file")
	vp.AssertUnless("KF-C04-5", true, !setA, "inode of the removed file is free again")
	vp.Cover("bitmaps checked")
}

func VP_C04_remove_bitmaps_1k() { c04RemoveBitmaps(c04Cfg{spb: 2}) }
func VP_C04_remove_bitmaps_4k() { c04RemoveBitmaps(c04Cfg{spb: 8}) }

// c04ScSymlink: Symlink with a target of symbolic length 1..70 (inline below 60, in a data
// block from 60) and arbitrary bytes; ReadLink returns the target, live and after re-open.
// The two storage forms are separate harnesses; the length is built from masked terms so that
// the form is decided by the value range (1..59 inline, 60..70 in a block).
func c04ScSymlink(cfg c04Cfg, inline bool) {
	fsys, dev, size := c04Fixture(cfg)
	tb := vp.Bytes("target", 70)
	x := vp.U8("x")
	y := vp.U8("y")
	n := 60 + int(x&7) + int(y&3) // 60..70
	if inline {
		n = 1 + int(x&31) + int(y&15) + int(vp.U8("z")&7) + int(vp.U8("w")&3) + int(vp.U8("v")&3) // 1..60
		vp.Assume(n <= 59)
	}
	for i := 0; i < 70; i++ {
		vp.Assume(tb[i] != 0) // a link target is a path: no NUL bytes
	}
	target := string(tb[:n])
	vp.AllocCap(80)
	dev.symCap = 80
	c04NoPanic()
	err := fsys.Symlink(target, "lnk")
	c04AllowPanic()
	vp.Assert(err == nil, "symlink accepted")
	check := func(fs1 *FileSystem) {
		c04NoPanic()
		got, err := fs1.ReadLink("lnk")
		c04AllowPanic()
		vp.Assert(err == nil, "reading a link the library wrote does not fail")
		vp.Assert(len(got) == n, "link target has the length given to Symlink")
		for i := 0; i < 70; i++ {
			if i < n && i < len(got) {
				vp.Assert(got[i] == tb[i], "link target = the string given to Symlink")
			}
		}
		c04Listing(fs1, ".", []string{"lnk"}, "l")
	}
	check(fsys)
	check(c04Reopen(dev, size, cfg))
	if n == 59 {
		vp.Cover("59-byte target (longest inline)")
	}
	if n == 60 {
		vp.Cover("60-byte target (shortest in a block)")
	}
	if n == 61 {
		vp.Cover("61-byte target")
	}
	vp.Cover("symlink done")
}

func VP_C04_sc_symlink_inline_1k() { c04ScSymlink(c04Cfg{spb: 2}, true) }
func VP_C04_sc_symlink_block_1k()  { c04ScSymlink(c04Cfg{spb: 2}, false) }
func VP_C04_sc_symlink_block_4k_csum() {
	c04ScSymlink(c04Cfg{spb: 8, csum: true, start: 4096}, false)
}

// c04ScAttrs: Chmod / Chown / Chtimes with symbolic values on a file and on a directory; Stat
// shows them live and after re-open; content and listing are untouched.
func c04ScAttrs(cfg c04Cfg) {
	fsys, dev, size := c04Fixture(cfg)
	bs := cfg.bs()
	data := vp.Bytes("data", 20)
	c04Put(fsys, "e", data[:9])
	c04Put(fsys, "f", data)
	c04Put(fsys, "g", data[:11])
	c04NoPanic()
	err := fsys.Mkdir("d")
	c04AllowPanic()
	vp.Assert(err == nil, "mkdir accepted")
	perm := os.FileMode(vp.U32("perm") & 0o777)
	mode := perm
	if vp.Bool("setuid") {
		mode |= os.ModeSetuid
	}
	if vp.Bool("setgid") {
		mode |= os.ModeSetgid
	}
	if vp.Bool("sticky") {
		mode |= os.ModeSticky
	}
	uid := int(vp.U32("uid"))
	gid := int(vp.U32("gid"))
	// times representable in an ext4 inode with extra timestamp bits: 1970 .. 2242, ns < 1e9
	msec := int64(vp.U32("msec"))
	mns := int64(vp.U32("mns"))
	vp.Assume(mns < 1000000000)
	asec := int64(vp.U32("asec"))
	csec := int64(vp.U32("csec"))
	mt := time.Unix(msec, mns)
	at := time.Unix(asec, 0)
	ct := time.Unix(csec, 0)
	c04NoPanic()
	e1 := fsys.Chmod("f", mode)
	e2 := fsys.Chown("f", uid, gid)
	e3 := fsys.Chtimes("f", ct, at, mt)
	e4 := fsys.Chmod("d", perm)
	e5 := fsys.Chown("d", -1, gid)
	c04AllowPanic()
	vp.Assert(e1 == nil, "chmod accepted")
	vp.Assert(e2 == nil, "chown accepted")
	vp.Assert(e3 == nil, "chtimes accepted")
	vp.Assert(e4 == nil, "chmod on a directory accepted")
	vp.Assert(e5 == nil, "chown on a directory accepted")
	check := func(fs1 *FileSystem) {
		c04NoPanic()
		fi, err := fs1.Stat("f")
		c04AllowPanic()
		vp.Assert(err == nil, "stat accepted")
		vp.Assert(fi.Mode() == mode, "mode = the mode given to Chmod")
		st := fi.Sys().(*StatT)
		vp.Assert(st.UID == uint32(uid), "uid = the uid given to Chown")
		vp.Assert(st.GID == uint32(gid), "gid = the gid given to Chown")
		vp.Assert(fi.ModTime().Unix() == msec, "mtime seconds = the time given to Chtimes")
		vp.Assert(int64(fi.ModTime().Nanosecond()) == mns, "mtime nanoseconds = the time given to Chtimes")
		vp.Assert(st.AccessTime.Unix() == asec, "atime = the time given to Chtimes")
		vp.Assert(st.CreateTime.Unix() == csec, "creation time = the time given to Chtimes")
		vp.Assert(fi.Size() == 20, "size untouched by attribute changes")
		c04NoPanic()
		di, err := fs1.Stat("d")
		c04AllowPanic()
		vp.Assert(err == nil, "stat accepted")
		vp.Assert(di.Mode() == perm|os.ModeDir, "directory mode = the mode given to Chmod")
		vp.Assert(di.Sys().(*StatT).GID == uint32(gid), "directory gid = the gid given to Chown")
		vp.Assert(di.Sys().(*StatT).UID == 0, "uid -1 leaves the owner unchanged")
		c04Listing(fs1, ".", []string{"e", "f", "g", "d"}, "fffd")
		// the neighbours of f in the inode table are untouched (the content of f itself is not
		// re-read here: after a Chmod with symbolic bits the engine cannot tell f's inode from a
		// symlink inode structurally; size and attributes of f are checked above)
		c04CheckConst(fs1, "e", data[:9], bs)
		c04CheckConst(fs1, "g", data[:11], bs)
	}
	check(fsys)
	check(c04Reopen(dev, size, cfg))
	vp.Cover("attrs done")
}

func VP_C04_sc_attrs_1k()      { c04ScAttrs(c04Cfg{spb: 2}) }
func VP_C04_sc_attrs_4k_csum() { c04ScAttrs(c04Cfg{spb: 8, csum: true, start: 4096}) }

// c04ScAppend: a file grown by appends through fresh O_APPEND handles; every append that
// crosses into a new block adds an extent (extents are never merged), so 4 appends fill the
// inode's extent root and the following ones move the extents into a depth-1 tree
// (extendExtentTree / promoteLeafToChild). Content (symbolic bytes) is compared block by
// block, live and after re-open.
func c04ScAppend(cfg c04Cfg, appends int, extra int) {
	fsys, dev, size := c04Fixture(cfg)
	bs := cfg.bs()
	total := bs + appends*(bs+extra)
	data := vp.Bytes("data", total)
	c04Put(fsys, "f", data[:bs])
	vp.Cover("first block written")
	pos := bs
	// KF-C04-3: a write that starts at an unaligned offset in the block right after the end of an
	// extent panics (makeslice with a negative length)
	if extra != 0 && vp.Known("KF-C04-3") {
		vp.Stop("known finding KF-C04-3: unaligned appends panic, not exercised further")
	}
	for k := 0; k < appends; k++ {
		c04WriteAt(fsys, "f", os.O_APPEND|os.O_RDWR, -1, data[pos:pos+bs+extra])
		pos += bs + extra
	}
	c04NoPanic()
	h, err := fsys.OpenFile("f", os.O_RDONLY)
	c04AllowPanic()
	vp.Assert(err == nil, "file written by the library opens")
	fl := h.(*File)
	if len(fl.extents) > 4 {
		vp.Cover("more than 4 extents")
	}
	if fl.inode.extents.getDepth() > 0 {
		vp.Cover("extent tree of depth > 0")
	}
	c04CheckConst(fsys, "f", data, bs)
	c04CheckConst(c04Reopen(dev, size, cfg), "f", data, bs)
	vp.Cover("append scenario done")
}

// block-sized appends (every append starts on a block boundary)
func VP_C04_sc_append_aligned_1k() { c04ScAppend(c04Cfg{spb: 2}, vp.Bound("appends", 5, 8), 0) }

// appends of one block + 3 bytes (later appends start inside a block)
func VP_C04_sc_append_unaligned_1k() { c04ScAppend(c04Cfg{spb: 2}, 3, 3) }
func VP_C04_sc_append_4k_csum() {
	if vp.Thorough() {
		c04ScAppend(c04Cfg{spb: 8, csum: true, start: 4096}, 5, 0)
	}
}

func c04LongName(i int) string {
	b := make([]byte, 200)
	for k := range b {
		b[k] = 'a' + byte(i)
	}
	return string(b)
}

// c04ScDirGrow: a directory that grows past one block (200-byte names), then shrinks by one
// Remove: listings live and after re-open.
func c04ScDirGrow(cfg c04Cfg, files int) {
	fsys, dev, size := c04Fixture(cfg)
	c04NoPanic()
	err := fsys.Mkdir("d")
	c04AllowPanic()
	vp.Assert(err == nil, "mkdir accepted")
	var names []string
	kinds := ""
	for i := 0; i < files; i++ {
		n := c04LongName(i)
		c04NoPanic()
		_, err := fsys.OpenFile("d/"+n, os.O_CREATE|os.O_RDWR)
		c04AllowPanic()
		vp.Assert(err == nil, "create accepted")
		names = append(names, n)
		kinds += "f"
	}
	c04NoPanic()
	di, err := fsys.Stat("d")
	c04AllowPanic()
	vp.Assert(err == nil, "stat accepted")
	if di.Size() > int64(cfg.bs()) {
		vp.Cover("directory larger than one block")
	}
	c04Listing(fsys, "d", names, kinds)
	c04Listing(c04Reopen(dev, size, cfg), "d", names, kinds)
	c04NoPanic()
	err = fsys.Remove("d/" + names[1])
	c04AllowPanic()
	vp.Assert(err == nil, "removing a file is accepted")
	rest := append([]string{names[0]}, names[2:]...)
	c04Listing(fsys, "d", rest, kinds[1:])
	c04Listing(c04Reopen(dev, size, cfg), "d", rest, kinds[1:])
	c04Listing(fsys, ".", []string{"d"}, "d")
	vp.Cover("directory growth done")
}

func VP_C04_sc_dir_grow_1k()      { c04ScDirGrow(c04Cfg{spb: 2}, 6) }
func VP_C04_sc_dir_grow_1k_csum() { c04ScDirGrow(c04Cfg{spb: 2, csum: true, start: 1536}, 6) }
func VP_C04_sc_dir_grow_4k() {
	if vp.Thorough() {
		c04ScDirGrow(c04Cfg{spb: 8, csum: true}, 21)
	}
}

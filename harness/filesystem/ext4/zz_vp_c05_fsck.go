package ext4

import (
	"fmt"
	"io"
	"io/fs"
	"os"
	"time"

	"github.com/diskfs/go-diskfs/backend"
	"github.com/diskfs/go-diskfs/filesystem/ext4/crc"
	"github.com/diskfs/go-diskfs/internal/vp"
	"github.com/google/uuid"
)

// ---------------------------------------------------------------------------------------------
// c05Dev: a flat in-memory device of fixed size (writes outside it fail, like a block device).
// ---------------------------------------------------------------------------------------------

type c05Dev struct {
	img []byte
	pos int64
}

func (d *c05Dev) ReadAt(p []byte, off int64) (int, error) {
	if off < 0 {
		return 0, fmt.Errorf("c05Dev: negative offset")
	}
	if off >= int64(len(d.img)) {
		return 0, io.EOF
	}
	n := copy(p, d.img[off:])
	if n < len(p) {
		return n, io.EOF
	}
	return n, nil
}

func (d *c05Dev) WriteAt(p []byte, off int64) (int, error) {
	if off < 0 || off+int64(len(p)) > int64(len(d.img)) {
		return 0, fmt.Errorf("c05Dev: write outside device")
	}
	copy(d.img[off:], p)
	return len(p), nil
}
func (d *c05Dev) Read(p []byte) (int, error) {
	n, err := d.ReadAt(p, d.pos)
	d.pos += int64(n)
	return n, err
}
func (d *c05Dev) Seek(offset int64, whence int) (int64, error) {
	switch whence {
	case io.SeekStart:
		d.pos = offset
	case io.SeekCurrent:
		d.pos += offset
	case io.SeekEnd:
		d.pos = int64(len(d.img)) + offset
	}
	return d.pos, nil
}
func (d *c05Dev) Close() error                            { return nil }
func (d *c05Dev) Stat() (fs.FileInfo, error)              { return c05Info{d}, nil }
func (d *c05Dev) Sys() (*os.File, error)                  { return nil, fmt.Errorf("c05Dev: no os.File") }
func (d *c05Dev) Writable() (backend.WritableFile, error) { return d, nil }
func (d *c05Dev) Path() string                            { return "" }

type c05Info struct{ d *c05Dev }

func (i c05Info) Name() string       { return "c05" }
func (i c05Info) Size() int64        { return int64(len(i.d.img)) }
func (i c05Info) Mode() fs.FileMode  { return 0o644 }
func (i c05Info) ModTime() time.Time { return time.Time{} }
func (i c05Info) IsDir() bool        { return false }
func (i c05Info) Sys() interface{}   { return nil }

// c05Rand: deterministic source for uuid.NewRandom (hash seed etc.)
type c05Rand struct{ n byte }

func (r *c05Rand) Read(p []byte) (int, error) {
	for i := range p {
		r.n++
		p[i] = r.n
	}
	return len(p), nil
}

// ---------------------------------------------------------------------------------------------
// reference decoders (ext4 on-disk format, written out; no library call except the CRC primitive)
// ---------------------------------------------------------------------------------------------

func c05le16(b []byte, o int) uint64 { return uint64(b[o]) | uint64(b[o+1])<<8 }
func c05le32(b []byte, o int) uint64 {
	return uint64(b[o]) | uint64(b[o+1])<<8 | uint64(b[o+2])<<16 | uint64(b[o+3])<<24
}

// c05Geo: the geometry of an image, read from its primary superblock (offset 1024).
type c05Geo struct {
	img                       []byte
	bs, bpg, ipg, fdb         int
	blocks, inodes            int
	inodeSize, descSize       int
	groups                    int
	csum, flex, is64, journal bool
	resvGDT                   int
	seed                      uint32
}

const (
	c05CompatHasJournal    = 0x4
	c05CompatResizeInode   = 0x10
	c05IncompatFiletype    = 0x2
	c05IncompatExtents     = 0x40
	c05Incompat64bit       = 0x80
	c05IncompatFlexBG      = 0x200
	c05IncompatCsumSeed    = 0x2000
	c05RoCompatSparseSuper = 0x1
	c05RoCompatGdtCsum     = 0x10
	c05RoCompatMetaCsum    = 0x400
)

// c05ReadGeo parses the static geometry (all of it concrete in the fixtures used here).
func c05ReadGeo(img []byte) c05Geo {
	s := img[1024:2048]
	g := c05Geo{img: img}
	g.inodes = int(c05le32(s, 0x0))
	g.blocks = int(c05le32(s, 0x4))
	g.fdb = int(c05le32(s, 0x14))
	g.bs = 1024 << uint(c05le32(s, 0x18))
	g.bpg = int(c05le32(s, 0x20))
	g.ipg = int(c05le32(s, 0x28))
	g.inodeSize = int(c05le16(s, 0x58))
	compat, incompat, ro := c05le32(s, 0x5c), c05le32(s, 0x60), c05le32(s, 0x64)
	g.is64 = incompat&c05Incompat64bit != 0
	g.flex = incompat&c05IncompatFlexBG != 0
	g.csum = ro&c05RoCompatMetaCsum != 0
	g.journal = compat&c05CompatHasJournal != 0
	g.descSize = 32
	if g.is64 {
		g.descSize = int(c05le16(s, 0xfe))
		g.blocks += int(c05le32(s, 0x150)) << 32
	}
	g.resvGDT = int(c05le16(s, 0xce))
	if g.bpg > 0 {
		g.groups = (g.blocks - g.fdb + g.bpg - 1) / g.bpg
	}
	return g
}

func (g *c05Geo) desc(i int) []byte {
	o := (g.fdb+1)*g.bs + i*g.descSize
	return g.img[o : o+g.descSize]
}
func (g *c05Geo) descLoc(i, off int) int {
	d := g.desc(i)
	v := int(c05le32(d, off))
	if g.descSize >= 64 {
		v |= int(c05le32(d, off+0x20)) << 32
	}
	return v
}
func (g *c05Geo) blockBitmapLoc(i int) int { return g.descLoc(i, 0x0) }
func (g *c05Geo) inodeBitmapLoc(i int) int { return g.descLoc(i, 0x4) }
func (g *c05Geo) inodeTableLoc(i int) int  { return g.descLoc(i, 0x8) }
func (g *c05Geo) descCount16(i, off int) uint64 {
	d := g.desc(i)
	v := c05le16(d, off)
	if g.descSize >= 64 {
		v |= c05le16(d, off+0x20) << 16
	}
	return v
}
func (g *c05Geo) freeBlocksGD(i int) uint64 { return g.descCount16(i, 0xc) }
func (g *c05Geo) freeInodesGD(i int) uint64 { return g.descCount16(i, 0xe) }
func (g *c05Geo) usedDirsGD(i int) uint64   { return g.descCount16(i, 0x10) }
func (g *c05Geo) freeBlocksSB() uint64 {
	s := g.img[1024:2048]
	v := c05le32(s, 0xc)
	if g.is64 {
		v |= c05le32(s, 0x158) << 32
	}
	return v
}
func (g *c05Geo) freeInodesSB() uint64 { return c05le32(g.img[1024:2048], 0x10) }

func (g *c05Geo) blocksInGroup(i int) int {
	start := g.fdb + i*g.bpg
	n := g.blocks - start
	if n > g.bpg {
		n = g.bpg
	}
	return n
}

// c05ZeroBits counts the clear bits [from,to) of the bitmap stored at byte offset off (branch-free:
// the bytes may be symbolic after an operation with a symbolic size).
func c05ZeroBits(img []byte, off, from, to int) uint64 {
	var n uint64
	for i := from; i < to; i++ {
		n += uint64(^img[off+i/8]>>uint(i%8)) & 1
	}
	return n
}

// c05Bit reads bit i of the bitmap at byte offset off.
func c05Bit(img []byte, off, i int) bool { return img[off+i/8]>>uint(i%8)&1 == 1 }

// c05CheckCounts = e2fsck pass 5 (group summary information): the free counts in every group
// descriptor equal the clear bits of the group's bitmaps, the padding bits are set, and the
// superblock totals are the sums. Everything is read from the image bytes.
func c05CheckCounts(g *c05Geo) {
	var sumB, sumI uint64
	for i := 0; i < g.groups; i++ {
		bb := g.blockBitmapLoc(i) * g.bs
		ib := g.inodeBitmapLoc(i) * g.bs
		nb := g.blocksInGroup(i)
		fb := c05ZeroBits(g.img, bb, 0, nb)
		vp.Assert(g.freeBlocksGD(i) == fb, "descriptor free block count = clear bits of the block bitmap (image bytes)")
		vp.Assert(c05ZeroBits(g.img, bb, nb, g.bpg) == 0, "block bitmap padding bits after the end of the filesystem are set")
		fi := c05ZeroBits(g.img, ib, 0, g.ipg)
		vp.Assert(g.freeInodesGD(i) == fi, "descriptor free inode count = clear bits of the inode bitmap (image bytes)")
		sumB += fb
		sumI += fi
	}
	vp.Assert(g.freeBlocksSB() == sumB, "superblock free blocks = sum over the groups")
	vp.Assert(g.freeInodesSB() == sumI, "superblock free inodes = sum over the groups")
}

// c05CheckBitmapCsums: with metadata_csum the descriptor carries crc32c(seed, bitmap) of both bitmaps
// (block bitmap: clustersPerGroup/8 bytes, inode bitmap: inodesPerGroup/8 bytes), and its own checksum.
func c05CheckBitmapCsums(g *c05Geo, seed uint32) {
	if !g.csum {
		return
	}
	// block bitmap checksum range: decided in VP_C05_bitmap_csum_range (KF-C05-5); here only for full groups
	fullGroup := g.bpg == g.bs*8
	for i := 0; i < g.groups; i++ {
		d := g.desc(i)
		bb := g.blockBitmapLoc(i) * g.bs
		ib := g.inodeBitmapLoc(i) * g.bs
		wantB := crc.CRC32c(seed, g.img[bb:bb+g.bpg/8])
		wantI := crc.CRC32c(seed, g.img[ib:ib+g.ipg/8])
		gotB, gotI := c05le16(d, 0x18), c05le16(d, 0x1a)
		if g.descSize >= 64 {
			gotB |= c05le16(d, 0x38) << 16
			gotI |= c05le16(d, 0x3a) << 16
		} else {
			wantB &= 0xffff
			wantI &= 0xffff
		}
		if fullGroup {
			vp.Assert(gotB == uint64(wantB), "descriptor block bitmap checksum = crc32c(seed, blocksPerGroup/8 bitmap bytes)")
		}
		vp.Assert(gotI == uint64(wantI), "descriptor inode bitmap checksum = crc32c(seed, inodesPerGroup/8 bitmap bytes)")
		vp.Assert(c05le16(d, 0x1e) == uint64(c05DescCsum(d, seed, i)), "descriptor checksum = low 16 bits of crc32c(seed, le32 group, descriptor with zeroed checksum)")
	}
}

// c05DescCsum: metadata_csum group descriptor checksum.
func c05DescCsum(d []byte, seed uint32, group int) uint16 {
	num := []byte{byte(group), byte(group >> 8), byte(group >> 16), byte(group >> 24)}
	c := crc.CRC32c(seed, num)
	z := make([]byte, len(d))
	copy(z, d)
	z[0x1e], z[0x1f] = 0, 0
	c = crc.CRC32c(c, z)
	return uint16(c)
}

// ---------------------------------------------------------------------------------------------
// hand-built fixture: a formatted, empty volume (no root directory, no journal) in a known state.
// The layout comes from the library (buildGroupDescriptorsFromSuperblock, checked by C05.layout_*),
// bitmaps and counters are written by reference code here, so every fixture is consistent by
// construction and cheap to set up.
// ---------------------------------------------------------------------------------------------

type c05Fix struct {
	fs   *FileSystem
	dev  *c05Dev
	seed uint32
}

// usedBlocks / usedInodes: extra bits to pre-mark (group, bit) -> consistent counters.
type c05Mark struct{ group, from, to int }

func c05NewFixture(bs, bpg uint32, blocks uint64, ipg uint32, flexSize uint64, csum bool, extraBlocks, extraInodes []c05Mark) *c05Fix {
	dev := &c05Dev{img: make([]byte, int(blocks)*int(bs))}
	seed := vp.U32("csumSeed")
	id := uuid.UUID{1, 2, 3, 4, 5, 6, 7, 8, 9, 10, 11, 12, 13, 14, 15, 16}
	epoch := time.Unix(0, 0)
	sb := &superblock{
		blockCount: blocks, blocksPerGroup: bpg, clustersPerGroup: bpg, inodesPerGroup: ipg,
		blockSize: bs, clusterSize: uint64(bs), inodeSize: 256, groupDescriptorSize: 64,
		firstNonReservedInode: 11, revisionLevel: 1, checksumType: 1, checksumSeed: seed,
		uuid: &id, volumeLabel: "c05", lastMountedDirectory: "/", hashTreeSeed: []uint32{1, 2, 3, 4},
		mountTime: epoch, writeTime: epoch, mkfsTime: epoch, lastCheck: epoch, errorFirstTime: epoch, errorLastTime: epoch,
		filesystemState: fsStateCleanlyUnmounted, errorBehaviour: errorsContinue, creatorOS: osLinux,
		inodeMinBytes: minInodeExtraSize, inodeReserveBytes: wantInodeExtraSize, logGroupsPerFlex: 1,
		hashVersion: hashHalfMD4, lostFoundInode: lostFoundInode,
	}
	if bs == 1024 {
		sb.firstDataBlock = 1
	}
	sb.features = defaultFeatureFlags
	sb.features.hasJournal = false
	sb.features.reservedGDTBlocksForExpansion = false
	sb.features.flexBlockGroups = flexSize != 0
	if flexSize != 0 {
		sb.logGroupsPerFlex = flexSize
	}
	if csum {
		sb.features.metadataChecksums = true
		sb.features.metadataChecksumSeedInSuperblock = true
	}
	gdt := buildGroupDescriptorsFromSuperblock(sb)
	groups := len(gdt.descriptors)
	sb.inodeCount = ipg * uint32(groups)
	fsys := &FileSystem{bootSector: []byte{}, superblock: sb, groupDescriptors: &gdt, blockGroups: int64(groups),
		size: int64(len(dev.img)), backend: dev, backupSuperblocks: []int64{0}}
	for _, bg := range calculateBackupSuperblockGroups(int64(groups)) {
		fsys.backupSuperblocks = append(fsys.backupSuperblocks, bg*int64(bpg)+int64(sb.firstDataBlock))
	}
	fdb := int(sb.firstDataBlock)
	itb := (int(ipg)*256 + int(bs) - 1) / int(bs)
	gdtBlocks := (groups*64 + int(bs) - 1) / int(bs)
	mark := func(off, i int) { dev.img[off+i/8] |= 1 << uint(i%8) }
	var totalB, totalI uint64
	for g := 0; g < groups; g++ {
		d := &gdt.descriptors[g]
		gs := fdb + g*int(bpg)
		nb := int(blocks) - gs
		if nb > int(bpg) {
			nb = int(bpg)
		}
		bb := int(d.blockBitmapLocation) * int(bs)
		ib := int(d.inodeBitmapLocation) * int(bs)
		// padding
		pi := nb
		for ; pi%8 != 0; pi++ {
			mark(bb, pi)
		}
		for k := pi / 8; k < int(bs); k++ {
			dev.img[bb+k] = 0xff
		}
		for i := int(ipg) / 8; i < int(bs); i++ {
			dev.img[ib+i] = 0xff
		}
		// metadata lying in this group
		if c05HasBackup(g) {
			for i := 0; i < 1+gdtBlocks; i++ {
				mark(bb, i)
			}
		}
		for h := 0; h < groups; h++ {
			o := &gdt.descriptors[h]
			regs := [][2]int{{int(o.blockBitmapLocation), 1}, {int(o.inodeBitmapLocation), 1}, {int(o.inodeTableLocation), itb}}
			for _, r := range regs {
				for k := 0; k < r[1]; k++ {
					blk := r[0] + k
					if blk >= gs && blk < gs+nb {
						mark(bb, blk-gs)
					}
				}
			}
		}
		if g == 0 {
			for i := 0; i < 10; i++ {
				mark(ib, i)
			}
		}
		for _, m := range extraBlocks {
			if m.group == g {
				for i := m.from; i < m.to; i++ {
					mark(bb, i)
				}
			}
		}
		for _, m := range extraInodes {
			if m.group == g {
				for i := m.from; i < m.to; i++ {
					mark(ib, i)
				}
			}
		}
		d.freeBlocks = uint32(c05ZeroBits(dev.img, bb, 0, nb))
		d.freeInodes = uint32(c05ZeroBits(dev.img, ib, 0, int(ipg)))
		d.blockBitmapChecksum = crc.CRC32c(seed, dev.img[bb:bb+int(bs)])
		d.inodeBitmapChecksum = crc.CRC32c(seed, dev.img[ib:ib+int(ipg)/8])
		totalB += uint64(d.freeBlocks)
		totalI += uint64(d.freeInodes)
	}
	sb.freeBlocks, sb.freeInodes = totalB, uint32(totalI)
	errSB := fsys.writeSuperblock()
	vp.Assert(errSB == nil, "fixture: superblock written")
	errGDT := fsys.writeGDT()
	vp.Assert(errGDT == nil, "fixture: GDT written")
	return &c05Fix{fs: fsys, dev: dev, seed: seed}
}

package ext4

import (
	"encoding/binary"
	"os"

	"github.com/diskfs/go-diskfs/internal/vp"
	"github.com/diskfs/go-diskfs/internal/vp/vpdev"
)

// c20Dev: a device with arbitrary contents (MemDev.UF) over which a few regions at CONCRETE offsets
// hold bytes built by the harness (inode table slot, a directory block). Reads that start exactly at a
// region are served from it; every other read sees the arbitrary bytes.
//
// Everything below metaEnd is the metadata area of the fixture: apart from the regions nothing there is
// a structure of the image, so a read that lands there (wrong inode slot, wrong table, wrong directory
// block) is reported at once instead of letting the library decode arbitrary bytes.
type c20Dev struct {
	vpdev.MemDev
	regOff  []int64
	regData [][]byte
	metaEnd int64
}

func (d *c20Dev) ReadAt(p []byte, off int64) (int, error) {
	for i := range d.regOff {
		if off == d.regOff[i] && len(p) <= len(d.regData[i]) {
			copy(p, d.regData[i])
			return len(p), nil
		}
	}
	if off < d.metaEnd {
		vp.Assert(false, "metadata is read from where the image holds it (inode slot, table block, directory block)")
		return 0, vpdev.ErrOther
	}
	return d.MemDev.ReadAt(p, off)
}

const (
	c20IPG      = 16
	c20Ino      = c20IPG + 5 // an inode of group 1 (slot 4 of its table)
	c20ITable0  = 5          // block of the inode table of group 0
	c20ITable   = 9          // block of the inode table of group 1
	c20DataFrom = 4096
)

// c20Fixture: a mounted filesystem structure (as ext4.Read would build it) with two groups; the inode
// table of group 1 holds `raw` in the slot of inode c20Ino.
func c20Fixture(bs uint32, csum bool, raw []byte) (*FileSystem, *c20Dev, *superblock) {
	sb := c20SB(256, bs, false)
	sb.features.metadataChecksums = csum
	sb.inodesPerGroup = c20IPG
	dev := &c20Dev{}
	dev.Name = "disk"
	dev.Size = -1
	dev.UF = true
	dev.NoWrites = true
	dev.metaEnd = c20DataFrom * int64(bs)
	dev.regOff = append(dev.regOff, int64(c20ITable)*int64(bs)+int64(c20Ino-1-c20IPG)*256)
	dev.regData = append(dev.regData, raw)
	fs := &FileSystem{
		superblock: sb,
		groupDescriptors: &groupDescriptors{descriptors: []groupDescriptor{
			{inodeTableLocation: c20ITable0, size: 64}, {inodeTableLocation: c20ITable, size: 64, number: 1}}},
		blockGroups: 2,
		backend:     dev,
	}
	return fs, dev, sb
}

// c20LeafExtentAt: reference decode of extent i of the root held in the inode's i_block.
func c20LeafExtentAt(raw []byte, i int) (uint32, uint16, uint64) {
	return c20RefLeaf(raw[0x28:0x64], i)
}

func c20put32(b []byte, o int, v uint32) { binary.LittleEndian.PutUint32(b[o:], v) }

// VP_C20_readinode_slow_symlink: a symlink whose target (60..64 bytes) lives in two one-block extents at
// arbitrary disk blocks (block size 32): readInode returns the bytes of those blocks, in file order.
func VP_C20_readinode_slow_symlink() {
	const bs = 32
	raw := vp.Bytes("inode", 256)
	fs, dev, sb := c20Fixture(bs, true, raw)
	raw[0], raw[1] = 0xff, 0xa1 // symlink, 0777
	raw[5], raw[6], raw[7] = 0, 0, 0
	c20put32(raw, 0x6c, 0)
	c20put32(raw, 0x20, 0x80000) // EXT4_EXTENTS_FL
	c20SetHeader(raw[0x28:0x64], 2, 4, 0)
	size := int(raw[4])
	vp.Assume(size >= 60)
	vp.Assume(size <= 64)
	fb0, n0, s0 := c20LeafExtentAt(raw, 0)
	fb1, n1, s1 := c20LeafExtentAt(raw, 1)
	vp.Assume(fb0 == 0)
	vp.Assume(n0 == 1)
	vp.Assume(fb1 == 1)
	vp.Assume(n1 == 1)
	vp.Assume(s0 >= c20DataFrom)
	vp.Assume(s1 >= c20DataFrom)
	vp.Assume(s0 < 1<<40)
	vp.Assume(s1 < 1<<40)
	c20SealInode(raw, sb.checksumSeed, c20Ino)
	vp.AllocCap(70)
	vp.NoPanic()
	in, err := fs.readInode(c20Ino)
	vp.AllowPanic()
	vp.Assert(err == nil, "a slow symlink on a well-formed image reads")
	if err != nil {
		return
	}
	vp.Assert(len(in.linkTarget) == size, "target length = i_size")
	ok := 1
	for j := 0; j < 64; j++ {
		if j < size && j < len(in.linkTarget) {
			var exp byte
			if j < bs {
				exp = dev.ByteAt(int64(s0*bs) + int64(j))
			} else {
				exp = dev.ByteAt(int64(s1*bs) + int64(j-bs))
			}
			ok &= c20b2i(in.linkTarget[j] == exp)
		}
	}
	vp.Assert(ok == 1, "every target byte = byte of the extent mapping that file block")
	vp.Cover("slow symlink read")
}

// c20DirInode prepares a directory inode with one extent (file block 0, nblocks blocks at block start).
func c20DirInode(raw []byte, sb *superblock, bs uint32, nblocks uint16, start uint32, flags uint32) {
	c20DirInodeFor(raw, sb, bs, nblocks, start, flags, c20Ino)
}

func c20DirInodeFor(raw []byte, sb *superblock, bs uint32, nblocks uint16, start uint32, flags uint32, ino uint32) {
	raw[0], raw[1] = 0xed, 0x41 // directory, 0755
	c20put32(raw, 4, uint32(nblocks)*bs)
	c20put32(raw, 0x6c, 0)
	c20put32(raw, 0x20, flags)
	c20SetHeader(raw[0x28:0x64], 1, 4, 0)
	o := 0x28 + 12
	c20put32(raw, o, 0)
	raw[o+4], raw[o+5], raw[o+6], raw[o+7] = byte(nblocks), byte(nblocks>>8), 0, 0
	c20put32(raw, o+8, start)
	c20SealInode(raw, sb.checksumSeed, ino)
}

// c20FixedEntry writes the structural bytes of a directory entry at p: rec_len, name_len; the inode is
// either 0 (unused slot) or a concrete number (the engine cannot merge the conditional append of
// readDirectory's filter loop, so liveness must be decided concretely); type and name stay arbitrary.
func c20FixedEntry(b []byte, p int, recLen int, nameLen int, live bool) {
	b[p], b[p+1], b[p+2], b[p+3] = 0, 0, 0, 0
	if live {
		b[p], b[p+1] = byte(0x21+p), 0x01
	}
	b[p+4], b[p+5] = byte(recLen), byte(recLen>>8)
	b[p+6] = byte(nameLen)
}

// VP_C20_readdirectory_linear: readDirectory of a one-block linear directory with metadata_csum tail
// (block size 48 = three 12-byte slots + tail; liveness pattern and name lengths case-split, inode
// numbers, types, names arbitrary): the result is exactly the live entries of the block, in order.
func VP_C20_readdirectory_linear() {
	const bs = 48
	const dblk = 200
	for _, pat := range [][3]bool{{true, false, true}, {false, true, true}, {true, true, false}} {
		raw := vp.Bytes("inode", 256)
		fs, dev, sb := c20Fixture(bs, true, raw)
		gen := c20le32(raw, 0x64)
		c20DirInode(raw, sb, bs, 1, dblk, 0x80000)
		blk := vp.Bytes("dirblock", bs)
		for k := 0; k < 3; k++ {
			c20FixedEntry(blk, 12*k, 12, 1+k, pat[k])
		}
		blk[bs-12], blk[bs-11], blk[bs-10], blk[bs-9] = 0, 0, 0, 0
		blk[bs-8], blk[bs-7], blk[bs-6], blk[bs-5] = 12, 0, 0, 0xde
		c20put32(blk, bs-4, c20DirCsum(sb.checksumSeed, c20Ino, gen, blk[:bs-12]))
		dev.regOff = append(dev.regOff, dblk*bs)
		dev.regData = append(dev.regData, blk)
		vp.Unwind(6)
		vp.AllocCap(bs + 2)
		vp.NoPanic()
		res, err := fs.readDirectory(c20Ino)
		vp.AllowPanic()
		vp.Assert(err == nil, "a well-formed linear directory reads")
		if err != nil {
			return
		}
		vp.Assert(len(res) == 2, "exactly the live entries are listed (unused slots and checksum tails are not)")
		r := 0
		for k := 0; k < 3; k++ {
			if pat[k] && r < len(res) {
				c20CheckEntry(res[r], blk, 12*k, 4)
				r++
			}
		}
	}
	vp.Cover("linear directory read through the inode")
}

// VP_C20_readdirectory_htree: readDirectory of a hash-indexed directory (EXT4_INDEX_FL; root + 1 leaf of
// three slots, no checksums, block size 48): ".", ".." from the root and the live entries of the leaf.
func VP_C20_readdirectory_htree() {
	const bs = 48
	const dblk = 300
	raw := vp.Bytes("inode", 256)
	fs, dev, sb := c20Fixture(bs, false, raw)
	c20DirInode(raw, sb, bs, 2, dblk, 0x80000|0x1000)
	data := vp.Bytes("dirdata", 2*bs)
	c20HtreeRoot(data[0:bs], bs, 0, []uint32{1})
	data[0], data[1], data[2], data[3] = 0x0c, 0, 0, 0 // inode numbers of . and .. (concrete, see c20FixedEntry)
	data[12], data[13], data[14], data[15] = 0x02, 0, 0, 0
	leaf := data[bs : 2*bs]
	c20FixedEntry(leaf, 0, 12, 3, true)
	c20FixedEntry(leaf, 12, 12, 1, false)
	c20FixedEntry(leaf, 24, 24, 8, true)
	dev.regOff = append(dev.regOff, dblk*bs)
	dev.regData = append(dev.regData, data)
	vp.Unwind(6)
	vp.AllocCap(2*bs + 2)
	vp.NoPanic()
	res, err := fs.readDirectory(c20Ino)
	vp.AllowPanic()
	vp.Assert(err == nil, "a well-formed hash-indexed directory reads")
	if err != nil {
		return
	}
	vp.Assert(len(res) == 4, "dot, dotdot and the two live entries of the leaf")
	if len(res) != 4 {
		return
	}
	vp.Assert(res[0].filename == ".", "first entry is .")
	vp.Assert(res[0].inode == c20le32(data, 0), "inode of .")
	vp.Assert(res[1].filename == "..", "second entry is ..")
	vp.Assert(res[1].inode == c20le32(data, 12), "inode of ..")
	c20CheckEntry(res[2], leaf, 0, 8)
	c20CheckEntry(res[3], leaf, 24, 8)
	vp.Cover("hash-indexed directory read through the inode")
}

// VP_C20_unsupported_blockmap_dir: a directory that is not extent-mapped (ext2/ext3-style image, or an
// inline_data directory): the library has no reader for it, so readDirectory must fail with an error -
// not crash and not list anything. Control path: the same inode with an (empty) extent tree reads fine.
func VP_C20_unsupported_blockmap_dir() {
	const bs = 1024
	raw := vp.Bytes("inode", 256)
	fs, _, sb := c20Fixture(bs, true, raw)
	raw[0], raw[1] = 0xed, 0x41
	c20put32(raw, 4, 0)
	c20put32(raw, 0x6c, 0)
	raw[0x21] = 0 // not hash-indexed
	if vp.Bool("extentMapped") {
		raw[0x22] |= 0x08
		c20SetHeader(raw[0x28:0x64], 0, 4, 0)
		c20SealInode(raw, sb.checksumSeed, c20Ino)
		res, err := fs.readDirectory(c20Ino)
		vp.Assert(err == nil, "control: an empty extent-mapped directory reads")
		vp.Assert(len(res) == 0, "control: and is empty")
		vp.Cover("control: extent-mapped directory")
		return
	}
	raw[0x22] &^= 0x08 // EXT4_EXTENTS_FL clear; EXT4_INLINE_DATA_FL (0x10000000) arbitrary
	c20SealInode(raw, sb.checksumSeed, c20Ino)
	vp.NoPanic()
	res, err := fs.readDirectory(c20Ino)
	vp.AllowPanic()
	vp.Assert(err != nil, "a directory without extent tree is refused with an error")
	if err == nil {
		vp.Assert(len(res) == 0, "nothing is invented")
	}
	vp.Cover("block-mapped directory refused")
}

// VP_C20_unsupported_blockmap_file: a regular file that is not extent-mapped (ext2/ext3 block map or
// inline data): opening it fails with an error (its i_block is never interpreted as an extent tree).
func VP_C20_unsupported_blockmap_file() {
	const bs = 1024
	raw := vp.Bytes("inode", 256)
	fs, _, sb := c20Fixture(bs, true, raw)
	raw[1] = 0x81 // regular file
	vp.Assume(raw[0x22]&0x08 == 0)
	c20SealInode(raw, sb.checksumSeed, c20Ino)
	vp.NoPanic()
	f, err := fs.openFileViaInode(c20Ino, os.O_RDONLY)
	vp.AllowPanic()
	vp.Assert(err != nil, "a file without extent tree cannot be opened")
	vp.Assert(f == nil || err != nil, "no file handle for it")
	vp.Cover("block-mapped file refused")
}

// VP_C20_open_and_read: openFileViaInode + one Read on a small extent-mapped regular file (one extent
// from file block 0 at an arbitrary disk block, block size 16, i_size arbitrary within the extent):
// the bytes are the device bytes of the extent, the count is min(len, size).
func VP_C20_open_and_read() {
	const bs = 16
	const L = 8
	raw := vp.Bytes("inode", 256)
	fs, dev, sb := c20Fixture(bs, true, raw)
	raw[0], raw[1] = 0xa4, 0x81
	c20put32(raw, 0x6c, 0)
	c20put32(raw, 0x20, 0x80000)
	c20SetHeader(raw[0x28:0x64], 1, 4, 0)
	size := c20le32(raw, 4)
	fb0, cnt, s0 := c20LeafExtentAt(raw, 0)
	vp.Assume(fb0 == 0)
	vp.Assume(s0 >= c20DataFrom)
	vp.Assume(s0 < 1<<40)
	vp.Assume(cnt >= 1)
	vp.Assume(cnt <= 32768)
	vp.Assume(uint64(size) <= uint64(cnt)*bs)
	c20SealInode(raw, sb.checksumSeed, c20Ino)
	vp.AllocCap(L + 2)
	vp.NoPanic()
	f, err := fs.openFileViaInode(c20Ino, os.O_RDONLY)
	vp.AllowPanic()
	vp.Assert(err == nil, "an extent-mapped regular file opens")
	if err != nil {
		return
	}
	p := make([]byte, L)
	vp.NoPanic()
	n, _ := f.Read(p)
	vp.AllowPanic()
	want := L
	if int(size) < L {
		want = int(size)
	}
	vp.Assert(n == want, "a file without holes delivers min(len(p), i_size) bytes at offset 0")
	ok := 1
	for i := 0; i < L; i++ {
		ok &= c20b2i(i >= n) | c20b2i(p[i] == dev.ByteAt(int64(s0*bs)+int64(i)))
	}
	vp.Assert(ok == 1, "every file byte = device byte of the extent")
	fi, err := f.Stat()
	vp.Assert(err == nil, "Stat on the open file")
	if err == nil {
		vp.Assert(fi.Size() == int64(size), "File.Stat().Size() = i_size")
		vp.Assert(fi.Mode().Perm() == 0o644, "File.Stat().Mode() permission bits")
	}
	vp.Cover("opened and read")
}

// c20RootFS extends the fixture with a root directory (inode 2, one metadata_csum block of size 48 at
// block 400) that lists ".", ".." and the file "f" -> inode c20Ino with the given dirent type.
func c20RootFS(fileRaw []byte, direntType byte) (*FileSystem, *c20Dev, *superblock) {
	const bs = 48
	const dblk = 400
	fs, dev, sb := c20Fixture(bs, true, fileRaw)
	root := make([]byte, 256)
	c20DirInodeFor(root, sb, bs, 1, dblk, 0x80000, 2)
	dev.regOff = append(dev.regOff, int64(c20ITable0)*bs+1*256)
	dev.regData = append(dev.regData, root)
	blk := make([]byte, bs)
	put := func(p int, ino uint32, name string, ft byte) {
		c20put32(blk, p, ino)
		blk[p+4], blk[p+5], blk[p+6], blk[p+7] = 12, 0, byte(len(name)), ft
		copy(blk[p+8:], name)
	}
	put(0, 2, ".", 2)
	put(12, 2, "..", 2)
	put(24, c20Ino, "f", direntType)
	blk[bs-8], blk[bs-5] = 12, 0xde
	c20put32(blk, bs-4, c20DirCsum(sb.checksumSeed, 2, 0, blk[:bs-12]))
	dev.regOff = append(dev.regOff, dblk*bs)
	dev.regData = append(dev.regData, blk)
	return fs, dev, sb
}

// c20PlainInode restricts raw to a non-symlink inode without extent tree (no further decoding paths).
func c20PlainInode(raw []byte, sb *superblock) {
	raw[1] = raw[1]&0x0f | 0x80 // regular file, permission/suid bits arbitrary
	vp.Assume(raw[0x22]&0x08 == 0)
	vp.Assume(c20le16(raw, 0x80) == 32)
	vp.Assume(c20le32(raw, 0x88)>>2 < 1000000000)
	vp.Assume(c20le32(raw, 0x8c)>>2 < 1000000000)
	c20SealInode(raw, sb.checksumSeed, c20Ino)
}

// VP_C20_api_stat: FileSystem.Stat("f") on an image whose file inode is arbitrary (regular file):
// size, mode (type, permissions, suid/sgid/sticky), mtime, and through Sys() uid/gid/atime/links are
// the inode's on-disk values.
func VP_C20_api_stat() {
	raw := vp.Bytes("inode", 256)
	fs, _, sb := c20RootFS(raw, 1)
	c20PlainInode(raw, sb)
	vp.Unwind(8)
	vp.AllocCap(50)
	vp.NoPanic()
	fi, err := fs.Stat("f")
	vp.AllowPanic()
	vp.Assert(err == nil, "Stat of an existing file succeeds")
	if err != nil {
		return
	}
	mode := c20le16(raw, 0)
	vp.Assert(fi.Name() == "f", "Stat: name")
	vp.Assert(fi.Size() == int64(uint64(c20le32(raw, 4))|uint64(c20le32(raw, 0x6c))<<32), "Stat: size")
	vp.Assert(uint16(fi.Mode().Perm()) == mode&0o777, "Stat: permission bits")
	vp.Assert(fi.Mode()&os.ModeType == 0, "Stat: regular file type")
	vp.Assert((fi.Mode()&os.ModeSetuid != 0) == (mode&0o4000 != 0), "Stat: setuid")
	vp.Assert(!fi.IsDir(), "Stat: not a directory")
	sec, nsec := c20RefTime(raw, 0x10, 0x88)
	vp.Assert(fi.ModTime().Unix() == sec, "Stat: mtime seconds")
	vp.Assert(int64(fi.ModTime().Nanosecond()) == nsec, "Stat: mtime nanoseconds")
	st, ok := fi.Sys().(*StatT)
	vp.Assert(ok, "Stat: Sys() is *StatT")
	if !ok {
		return
	}
	vp.Assert(st.UID == uint32(c20le16(raw, 2))|uint32(c20le16(raw, 0x78))<<16, "Stat: uid")
	vp.Assert(st.GID == uint32(c20le16(raw, 0x18))|uint32(c20le16(raw, 0x7a))<<16, "Stat: gid")
	vp.Assert(st.Nlink == c20le16(raw, 0x1a), "Stat: links")
	vp.Assert(st.Ino == c20Ino, "Stat: inode number")
	sec, _ = c20RefTime(raw, 0x8, 0x8c)
	vp.Assert(st.AccessTime.Unix() == sec, "Stat: atime seconds")
	vp.Cover("Stat through the directory tree")
}

// VP_C20_api_readdir: FileSystem.ReadDir(".") lists exactly "f" (dot entries are not listed) with the
// inode's size and mtime.
func VP_C20_api_readdir() {
	raw := vp.Bytes("inode", 256)
	fs, _, sb := c20RootFS(raw, 1)
	c20PlainInode(raw, sb)
	vp.Unwind(8)
	vp.AllocCap(50)
	vp.NoPanic()
	ents, err := fs.ReadDir(".")
	vp.AllowPanic()
	vp.Assert(err == nil, "ReadDir of the root succeeds")
	if err != nil {
		return
	}
	vp.Assert(len(ents) == 1, "ReadDir: one entry besides . and ..")
	if len(ents) != 1 {
		return
	}
	vp.Assert(ents[0].Name() == "f", "ReadDir: name")
	vp.Assert(!ents[0].IsDir(), "ReadDir: not a directory")
	vp.Assert(ents[0].Type() == 0, "ReadDir: type of a regular file")
	fi, err := ents[0].Info()
	vp.Assert(err == nil, "ReadDir: Info()")
	if err != nil {
		return
	}
	vp.Assert(fi.Size() == int64(uint64(c20le32(raw, 4))|uint64(c20le32(raw, 0x6c))<<32), "ReadDir: size")
	sec, _ := c20RefTime(raw, 0x10, 0x88)
	vp.Assert(fi.ModTime().Unix() == sec, "ReadDir: mtime seconds")
	vp.Cover("ReadDir through the directory tree")
}

// VP_C20_api_readlink: FileSystem.ReadLink("f") of a fast symlink returns the i_size bytes of i_block.
func VP_C20_api_readlink() {
	raw := vp.Bytes("inode", 256)
	fs, _, sb := c20RootFS(raw, 7)
	raw[1] = raw[1]&0x0f | 0xa0
	raw[5], raw[6], raw[7] = 0, 0, 0
	c20put32(raw, 0x6c, 0)
	size := int(raw[4])
	vp.Assume(size >= 1)
	vp.Assume(size < 60)
	vp.Assume(raw[0x22]&0x08 == 0)
	c20SealInode(raw, sb.checksumSeed, c20Ino)
	vp.Unwind(8)
	vp.AllocCap(50)
	vp.NoPanic()
	target, err := fs.ReadLink("f")
	vp.AllowPanic()
	vp.Assert(err == nil, "ReadLink of a symlink succeeds")
	if err != nil {
		return
	}
	vp.Assert(len(target) == size, "ReadLink: target length = i_size")
	ok := 1
	for _, j := range []int{0, 1, 30, 58} {
		if j < size && j < len(target) {
			ok &= c20b2i(target[j] == raw[0x28+j])
		}
	}
	vp.Assert(ok == 1, "ReadLink: target bytes")
	vp.Cover("ReadLink through the directory tree")
}

// VP_C20_api_getxattr: FileSystem.GetXattr("f") returns the in-inode attribute with its value.
func VP_C20_api_getxattr() {
	raw := vp.Bytes("inode", 256)
	fs, _, sb := c20RootFS(raw, 1)
	raw[0x80], raw[0x81] = 32, 0
	c20put32(raw, 0x68, 0) // no attribute block
	raw[0x76], raw[0x77] = 0, 0
	m := 128 + 32
	raw[m], raw[m+1], raw[m+2], raw[m+3] = 0x00, 0x00, 0x02, 0xea
	area := raw[m+4:]
	offs, size := vp.U16("offs"), vp.U32("size")
	vp.Assume(size >= 1)
	vp.Assume(size <= 4)
	vp.Assume(offs >= 32)
	vp.Assume(int(offs) <= len(area)-4)
	p := c20PutXattr(area, 0, 1, "k", offs, 0, size)
	area[p], area[p+1], area[p+2], area[p+3] = 0, 0, 0, 0
	c20PlainInode(raw, sb)
	vp.Unwind(8)
	vp.AllocCap(50)
	vp.NoPanic()
	res, err := fs.GetXattr("f")
	vp.AllowPanic()
	vp.Assert(err == nil, "GetXattr succeeds")
	if err != nil {
		return
	}
	c20CheckValue(res, "user.k", area, offs, size, 4)
	vp.Cover("GetXattr through the directory tree")
}

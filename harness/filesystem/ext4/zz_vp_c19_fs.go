package ext4

import (
	"encoding/binary"
	"os"
	"time"

	"github.com/diskfs/go-diskfs/internal/vp"
	"github.com/diskfs/go-diskfs/internal/vp/vpdev"
)

// Fixture: a one-group ext4 volume (1 KiB blocks, 256-byte inodes, inode table at block 4) whose root
// directory (inode 2, one extent at block 20) holds  f (inode 12, regular, arbitrary metadata),
// d (inode 13, directory) and l (inode 14, symlink -> "f").
const (
	c19BlockSize  = 1024
	c19ITable     = 4
	c19RootBlock  = 20
	c19InoFile    = 12
	c19InoDir     = 13
	c19InoSymlink = 14
)

func c19FSSB() *superblock {
	sb := &superblock{inodeSize: 256, blockSize: c19BlockSize, inodesPerGroup: 32, checksumSeed: 0x5eed1234}
	sb.features.hugeFile = true
	return sb
}

func c19InodeOff(n uint32) int64 { return c19ITable*c19BlockSize + int64(n-1)*256 }

type c19Vol struct {
	dev      *vpdev.MemDev
	sb       *superblock
	file     c19Meta // initial metadata of f
	fileImg  []byte  // initial image of inode 12
	dirImg   []byte  // initial image of inode 13
	rootData []byte
}

func c19Open(v *c19Vol) *FileSystem {
	return &FileSystem{superblock: v.sb, backend: v.dev, size: 1 << 20, blockGroups: 1,
		groupDescriptors: &groupDescriptors{descriptors: []groupDescriptor{{inodeTableLocation: c19ITable}}}}
}

func c19PutInode(v *c19Vol, in *inode) []byte {
	b := in.toBytes(v.sb)
	keep := make([]byte, len(b))
	copy(keep, b)
	v.dev.Log = append(v.dev.Log, vpdev.WRec{Off: c19InodeOff(in.number), Len: len(b), Data: b})
	return keep
}

// c19NewVol builds the volume; symTime = which timestamp of f is arbitrary (-1: none; see c19OneTime).
func c19NewVol(symTime int) *c19Vol {
	v := &c19Vol{dev: vpdev.NewMemDev("vol", 1<<20), sb: c19FSSB()}
	rwx := filePermissions{read: true, write: true, execute: true}
	t0 := time.Unix(1500000000, 0)
	// root directory
	root := &inode{number: 2, permissionsOwner: rwx, permissionsGroup: rwx, permissionsOther: rwx, fileType: fileTypeDirectory,
		size: c19BlockSize, hardLinks: 3, blocks: 2, inodeSize: minInodeSize + 32, accessTime: t0, changeTime: t0, modifyTime: t0, createTime: t0,
		flags: &inodeFlags{usesExtents: true},
		extents: &extentLeafNode{extentNodeHeader: extentNodeHeader{depth: 0, entries: 1, max: 4, blockSize: c19BlockSize},
			extents: extents{{fileBlock: 0, startingBlock: c19RootBlock, count: 1}}}}
	c19PutInode(v, root)
	ents := []*directoryEntry{
		{inode: 2, filename: ".", fileType: dirFileTypeDirectory},
		{inode: 2, filename: "..", fileType: dirFileTypeDirectory},
		{inode: c19InoFile, filename: "f", fileType: dirFileTypeRegular},
		{inode: c19InoDir, filename: "d", fileType: dirFileTypeDirectory},
		{inode: c19InoSymlink, filename: "l", fileType: dirFileTypeSymlink},
	}
	var data []byte
	for i, e := range ents {
		if i == len(ents)-1 {
			data = append(data, e.toBytes(uint16(c19BlockSize-len(data)))...)
		} else {
			data = append(data, e.toBytes(0)...)
		}
	}
	v.rootData = data
	v.dev.Log = append(v.dev.Log, vpdev.WRec{Off: c19RootBlock * c19BlockSize, Len: len(data), Data: data})
	// f: arbitrary metadata
	v.file = c19MetaIn("f")
	v.file.number = c19InoFile
	c19OneTime(&v.file, symTime)
	v.fileImg = c19PutInode(v, c19Inode(v.file, fileTypeRegularFile))
	// d: a directory owned by an arbitrary user
	d := &inode{number: c19InoDir, permissionsOwner: rwx, fileType: fileTypeDirectory, owner: vp.U32("d.uid"), group: vp.U32("d.gid"),
		size: 0, hardLinks: 2, inodeSize: minInodeSize + 32, accessTime: t0, changeTime: t0, modifyTime: t0, createTime: t0, flags: &inodeFlags{}}
	v.dirImg = c19PutInode(v, d)
	// l -> f
	l := &inode{number: c19InoSymlink, permissionsOwner: rwx, permissionsGroup: rwx, permissionsOther: rwx, fileType: fileTypeSymbolicLink,
		size: 1, hardLinks: 1, inodeSize: minInodeSize + 32, accessTime: t0, changeTime: t0, modifyTime: t0, createTime: t0, flags: &inodeFlags{}, linkTarget: "f"}
	c19PutInode(v, l)
	return v
}

// c19OthersUntouched: the directory inode, the root directory data and every byte of f's inode outside the
// given field ranges (and the checksum fields 0x7c-0x7d, 0x82-0x83) still have their initial values.
func c19OthersUntouched(v *c19Vol, changed [][2]int) {
	same := true
	for i := 0; i < 256; i++ {
		if v.dev.ByteAt(c19InodeOff(c19InoDir)+int64(i)) != v.dirImg[i] {
			same = false
		}
	}
	vp.Assert(same, "the other file's inode is untouched")
	same = true
	for i := range v.rootData {
		if v.dev.ByteAt(c19RootBlock*c19BlockSize+int64(i)) != v.rootData[i] {
			same = false
		}
	}
	vp.Assert(same, "the directory is untouched")
	same = true
	for i := 0; i < 256; i++ {
		skip := i == 0x7c || i == 0x7d || i == 0x82 || i == 0x83
		for _, r := range changed {
			if i >= r[0] && i < r[1] {
				skip = true
			}
		}
		if !skip {
			if v.dev.ByteAt(c19InodeOff(c19InoFile)+int64(i)) != v.fileImg[i] {
				same = false
			}
		}
	}
	vp.Assert(same, "no other field of the file's inode changes")
}

// c19StatFile: Stat("f") on a freshly opened filesystem reports metadata m.
func c19StatFile(v *c19Vol, m c19Meta) {
	fs := c19Open(v)
	fi, err := fs.Stat("f")
	vp.Assert(err == nil, "Stat after re-open")
	mode := fi.Mode()
	vp.Assert(uint16(mode.Perm()) == c19UnixMode(m)&0o777, "Stat: rwx bits")
	vp.Assert((mode&os.ModeSetuid != 0) == m.perm[3], "Stat: setuid")
	vp.Assert((mode&os.ModeSetgid != 0) == m.perm[7], "Stat: setgid")
	vp.Assert((mode&os.ModeSticky != 0) == m.perm[11], "Stat: sticky")
	vp.Assert(mode.IsRegular(), "Stat: still a regular file")
	vp.Assert(!fi.IsDir(), "Stat: not a directory")
	vp.Assert(fi.Size() == int64(m.size), "Stat: size")
	vp.Assert(fi.ModTime().Unix() == m.sec[2], "Stat: mtime seconds")
	vp.Assert(int64(fi.ModTime().Nanosecond()) == m.nsec[2], "Stat: mtime nanoseconds")
	st := fi.Sys().(*StatT)
	vp.Assert(st.UID == m.uid, "Stat: uid")
	vp.Assert(st.GID == m.gid, "Stat: gid")
	vp.Assert(st.Nlink == m.links, "Stat: link count")
	vp.Assert(st.AccessTime.Unix() == m.sec[0], "Stat: atime seconds")
	vp.Assert(int64(st.AccessTime.Nanosecond()) == m.nsec[0], "Stat: atime nanoseconds")
	vp.Assert(st.CreateTime.Unix() == m.sec[3], "Stat: crtime seconds")
	vp.Assert(int64(st.CreateTime.Nanosecond()) == m.nsec[3], "Stat: crtime nanoseconds")
	vp.Assert(st.ChangeTime.Unix() == m.sec[1], "Stat: ctime seconds")
	vp.Assert(st.Flags.Immutable == m.immutable, "Stat: immutable flag")
	vp.Assert(st.Flags.AppendOnly == m.appendOnly, "Stat: append-only flag")
}

// VP_C19_ext4_fs_chmod: Chmod with any permission bits and any of setuid/setgid/sticky on a file with
// arbitrary previous metadata: i_mode gets exactly the new bits (type kept), nothing else changes, and
// Stat on the re-opened image reports the new mode and the old everything else.
func VP_C19_ext4_fs_chmod() {
	v := c19NewVol(2)
	fs := c19Open(v)
	perm := vp.U16("newperm")
	vp.Assume(perm <= 0o777)
	suid, sgid, sticky := vp.Bool("newsetuid"), vp.Bool("newsetgid"), vp.Bool("newsticky")
	mode := os.FileMode(perm)
	unix := perm | uint16(fileTypeRegularFile)
	if suid {
		mode |= os.ModeSetuid
		unix |= 0o4000
	}
	if sgid {
		mode |= os.ModeSetgid
		unix |= 0o2000
	}
	if sticky {
		mode |= os.ModeSticky
		unix |= 0o1000
	}
	err := fs.Chmod("f", mode)
	vp.Assert(err == nil, "Chmod succeeds")
	o := c19InodeOff(c19InoFile)
	vp.Assert(uint16(v.dev.ByteAt(o))|uint16(v.dev.ByteAt(o+1))<<8 == unix, "i_mode = S_IFREG | new special bits | new rwx bits")
	c19OthersUntouched(v, [][2]int{{0, 2}})
	want := v.file
	w := [12]uint16{0o400, 0o200, 0o100, 0o4000, 0o040, 0o020, 0o010, 0o2000, 0o004, 0o002, 0o001, 0o1000}
	for i := range w {
		want.perm[i] = unix&w[i] != 0
	}
	c19StatFile(v, want)
	if suid {
		vp.Cover("setuid requested")
	}
	vp.Cover("Chmod done")
}

// VP_C19_ext4_fs_chown: Chown with uid/gid anywhere in the 32-bit range or -1 (= keep).
func VP_C19_ext4_fs_chown() {
	v := c19NewVol(2)
	fs := c19Open(v)
	uid, gid := vp.Int("newuid"), vp.Int("newgid")
	vp.Assume(uid >= -1)
	vp.Assume(uid <= 0xffffffff)
	vp.Assume(gid >= -1)
	vp.Assume(gid <= 0xffffffff)
	err := fs.Chown("f", uid, gid)
	vp.Assert(err == nil, "Chown succeeds")
	want := v.file
	want.uid = vp.IteU32(uid == -1, v.file.uid, uint32(uid))
	want.gid = vp.IteU32(gid == -1, v.file.gid, uint32(gid))
	c19OthersUntouched(v, [][2]int{{0x2, 0x4}, {0x18, 0x1a}, {0x78, 0x7c}})
	c19StatFile(v, want)
	if uid == -1 {
		vp.Cover("uid kept")
	}
	if uid > 0xffff {
		vp.Cover("32-bit uid")
	}
	vp.Cover("Chown done")
}

// c19Chtimes: Chtimes(creation, access, modification) with stamp `which` arbitrary in the ext4 range
// (1901..2446, nanoseconds) and the other two fixed.
func c19Chtimes(which int) {
	v := c19NewVol(-1)
	fs := c19Open(v)
	sec := [3]int64{-5, 1 << 32, 1700000000}
	nsec := [3]int64{999999999, 1, 0}
	sec[which] = vp.I64("sec")
	nsec[which] = int64(vp.U32("nsec"))
	vp.Assume(sec[which] >= c19MinSec)
	vp.Assume(sec[which] <= c19MaxSec)
	vp.Assume(nsec[which] <= 999999999)
	err := fs.Chtimes("f", time.Unix(sec[0], nsec[0]), time.Unix(sec[1], nsec[1]), time.Unix(sec[2], nsec[2]))
	vp.Assert(err == nil, "Chtimes succeeds")
	want := v.file
	want.sec[3], want.nsec[3] = sec[0], nsec[0] // creation
	want.sec[0], want.nsec[0] = sec[1], nsec[1] // access
	want.sec[2], want.nsec[2] = sec[2], nsec[2] // modification
	c19OthersUntouched(v, [][2]int{{0x8, 0xc}, {0x10, 0x14}, {0x88, 0x98}})
	c19StatFile(v, want)
	if sec[which] < 0 {
		vp.Cover("before 1970")
	}
	if sec[which] >= 1<<31 {
		vp.Cover("after 2038")
	}
	vp.Cover("Chtimes done")
}

func VP_C19_ext4_fs_chtimes_create() { c19Chtimes(0) }
func VP_C19_ext4_fs_chtimes_access() { c19Chtimes(1) }
func VP_C19_ext4_fs_chtimes_modify() { c19Chtimes(2) }

// VP_C19_ext4_fs_types: the three kinds of entries are reported as what they are; ReadLink gives the target;
// Chmod through the symlink changes the target file, not the link.
func VP_C19_ext4_fs_types() {
	v := c19NewVol(-1)
	fs := c19Open(v)
	fi, err := fs.Stat("f")
	vp.Assert(err == nil, "Stat f")
	vp.Assert(fi.Mode().IsRegular() && !fi.IsDir() && fi.Mode()&os.ModeSymlink == 0, "f is a regular file only")
	di, err := fs.Stat("d")
	vp.Assert(err == nil, "Stat d")
	vp.Assert(di.Mode().IsDir() && di.IsDir() && di.Mode()&os.ModeSymlink == 0, "d is a directory only")
	vp.Assert(di.Sys().(*StatT).UID == vp.U32("d.uid"), "d's owner")
	li, err := fs.Stat("l")
	vp.Assert(err == nil, "Stat l")
	vp.Assert(li.Mode()&os.ModeSymlink != 0 && !li.IsDir() && !li.Mode().IsRegular(), "l is a symlink only")
	vp.Assert(li.Sys().(*StatT).LinkTarget == "f", "StatT.LinkTarget")
	tgt, err := fs.ReadLink("l")
	vp.Assert(err == nil, "ReadLink l")
	vp.Assert(tgt == "f", "ReadLink gives the target")
	_, err = fs.ReadLink("f")
	vp.Assert(err != nil, "ReadLink on a regular file fails")
	_, err = fs.ReadLink("d")
	vp.Assert(err != nil, "ReadLink on a directory fails")
	vp.Cover("types done")
}

// VP_C19_ext4_fs_inode_tail: an inode whose bytes beyond the fields go-diskfs knows (i_version_hi, i_projid and
// the in-inode extended attribute area 0xa0..0xff) are arbitrary: Chown must not change them.
func VP_C19_ext4_fs_inode_tail() {
	v := c19NewVol(-1)
	// overwrite f's inode image: same fields, arbitrary tail, valid checksum
	img := make([]byte, 256)
	copy(img, v.fileImg)
	vp.Fill(img[0x98:0x100], "tail")
	img[0x7c], img[0x7d], img[0x82], img[0x83] = 0, 0, 0, 0
	c := inodeChecksum(img, v.sb.checksumSeed, c19InoFile, v.file.gen)
	img[0x7c], img[0x7d], img[0x82], img[0x83] = byte(c), byte(c>>8), byte(c>>16), byte(c>>24)
	keep := make([]byte, 256)
	copy(keep, img)
	v.dev.Log = append(v.dev.Log, vpdev.WRec{Off: c19InodeOff(c19InoFile), Len: 256, Data: img})
	fs := c19Open(v)
	err := fs.Chown("f", 1000, 1000)
	vp.Assert(err == nil, "Chown succeeds")
	o := c19InodeOff(c19InoFile)
	anyTail := false
	for i := 0x98; i < 0x100; i++ {
		if keep[i] != 0 {
			anyTail = true
		}
	}
	same := true
	for i := 0x98; i < 0x100; i++ {
		if v.dev.ByteAt(o+int64(i)) != keep[i] {
			same = false
		}
	}
	vp.AssertUnless("KF-C19-4", anyTail, same, "i_version_hi / i_projid / in-inode xattr bytes survive a Chown")
	vp.Cover("tail checked")
}

var _ = binary.LittleEndian

package ext4

import (
	"encoding/binary"

	"github.com/diskfs/go-diskfs/internal/vp"
)

// C04.codecs: the on-disk codecs behind the tree operations: extent nodes, directory entries,
// directory blocks (with and without checksum tail), mergeExtents.

func c04SymExtents(k int, maxCount uint16) extents {
	names := [][3]string{{"fb0", "c0", "s0"}, {"fb1", "c1", "s1"}, {"fb2", "c2", "s2"}, {"fb3", "c3", "s3"}}
	var es extents
	for i := 0; i < k; i++ {
		c := vp.U16(names[i][1])
		vp.Assume(c >= 1)
		vp.Assume(c <= maxCount)
		es = append(es, extent{fileBlock: vp.U32(names[i][0]), count: c, startingBlock: vp.U64(names[i][2]) & 0xffffffffffff})
	}
	return es
}

// c04ExtentLeaf: a leaf node with k extents (arbitrary field values, 48-bit disk blocks):
// byte layout per the ext4 format and parse(toBytes(x)) == x.
func c04ExtentLeaf(k int, max uint16) {
	es := c04SymExtents(k, 65535)
	node := extentLeafNode{extentNodeHeader: extentNodeHeader{depth: 0, entries: uint16(k), max: max, blockSize: 1024}, extents: es}
	vp.NoPanic()
	b := node.toBytes()
	vp.AllowPanic()
	vp.Assert(len(b) == 12+12*int(max), "node occupies header + max entries")
	vp.Assert(binary.LittleEndian.Uint16(b[0:2]) == 0xf30a, "extent header magic")
	vp.Assert(binary.LittleEndian.Uint16(b[2:4]) == uint16(k), "eh_entries = number of extents")
	vp.Assert(binary.LittleEndian.Uint16(b[4:6]) == max, "eh_max")
	vp.Assert(binary.LittleEndian.Uint16(b[6:8]) == 0, "eh_depth = 0 for a leaf")
	for i := 0; i < k; i++ {
		o := 12 + 12*i
		vp.Assert(binary.LittleEndian.Uint32(b[o:o+4]) == es[i].fileBlock, "ee_block at +0")
		vp.Assert(binary.LittleEndian.Uint16(b[o+4:o+6]) == es[i].count, "ee_len at +4")
		vp.Assert(uint64(binary.LittleEndian.Uint16(b[o+6:o+8])) == es[i].startingBlock>>32, "ee_start_hi at +6")
		vp.Assert(uint64(binary.LittleEndian.Uint32(b[o+8:o+12])) == es[i].startingBlock&0xffffffff, "ee_start_lo at +8")
	}
	vp.NoPanic()
	p, err := parseExtents(b, 1024, 0, 0)
	vp.AllowPanic()
	vp.Assert(err == nil, "a node the library serialised parses")
	leaf, ok := p.(*extentLeafNode)
	vp.Assert(ok, "depth 0 parses as a leaf")
	vp.Assert(len(leaf.extents) == k, "all extents come back")
	vp.Assert(leaf.max == max, "max comes back")
	for i := 0; i < k && i < len(leaf.extents); i++ {
		vp.Assert(leaf.extents[i] == es[i], "extent round-trips")
	}
	vp.Cover("leaf round trip")
}

func VP_C04_codec_extent_leaf_root() { c04ExtentLeaf(4, 4) }
func VP_C04_codec_extent_leaf_part() { c04ExtentLeaf(2, 84) }

// VP_C04_codec_extent_internal: an index node with 3 children.
func VP_C04_codec_extent_internal() {
	k := 3
	names := [][2]string{{"fb0", "d0"}, {"fb1", "d1"}, {"fb2", "d2"}}
	var ch []*extentChildPtr
	for i := 0; i < k; i++ {
		ch = append(ch, &extentChildPtr{fileBlock: vp.U32(names[i][0]), diskBlock: vp.U64(names[i][1]) & 0xffffffffffff})
	}
	depth := vp.U16("depth")
	vp.Assume(depth >= 1)
	vp.Assume(depth <= 5)
	node := extentInternalNode{extentNodeHeader: extentNodeHeader{depth: depth, entries: uint16(k), max: 4, blockSize: 1024}, children: ch}
	vp.NoPanic()
	b := node.toBytes()
	vp.AllowPanic()
	vp.Assert(len(b) == 60, "node occupies header + max entries")
	vp.Assert(binary.LittleEndian.Uint16(b[0:2]) == 0xf30a, "extent header magic")
	vp.Assert(binary.LittleEndian.Uint16(b[2:4]) == uint16(k), "eh_entries = number of children")
	vp.Assert(binary.LittleEndian.Uint16(b[6:8]) == depth, "eh_depth")
	for i := 0; i < k; i++ {
		o := 12 + 12*i
		vp.Assert(binary.LittleEndian.Uint32(b[o:o+4]) == ch[i].fileBlock, "ei_block at +0")
		vp.Assert(uint64(binary.LittleEndian.Uint32(b[o+4:o+8])) == ch[i].diskBlock&0xffffffff, "ei_leaf_lo at +4")
		vp.Assert(uint64(binary.LittleEndian.Uint16(b[o+8:o+10])) == ch[i].diskBlock>>32, "ei_leaf_hi at +8")
	}
	vp.NoPanic()
	p, err := parseExtents(b, 1024, 0, 0)
	vp.AllowPanic()
	vp.Assert(err == nil, "a node the library serialised parses")
	in, ok := p.(*extentInternalNode)
	vp.Assert(ok, "depth > 0 parses as an index node")
	vp.Assert(len(in.children) == k, "all children come back")
	for i := 0; i < k && i < len(in.children); i++ {
		vp.Assert(in.children[i].fileBlock == ch[i].fileBlock, "child file block round-trips")
		vp.Assert(in.children[i].diskBlock == ch[i].diskBlock, "child disk block round-trips")
	}
	vp.Cover("index node round trip")
}

// VP_C04_codec_dirent: one directory entry with a name of symbolic length 1..20 and arbitrary
// bytes, arbitrary inode and type: layout per the format, record length 4-aligned and large
// enough, parse(toBytes(x)) == x; an explicit record length is honoured.
func VP_C04_codec_dirent() {
	nb := vp.Bytes("name", 20)
	n := vp.Int("nlen")
	vp.Assume(n >= 1)
	vp.Assume(n <= 20)
	de := directoryEntry{inode: vp.U32("ino"), filename: string(nb[:n]), fileType: directoryFileType(vp.U8("ft"))}
	withSize := vp.U16("recLen") // 0 = minimal
	vp.Assume(withSize == 0 || withSize >= 32)
	vp.Assume(withSize <= 64)
	vp.Assume(withSize%4 == 0)
	vp.AllocCap(64)
	vp.NoPanic()
	b := de.toBytes(withSize)
	vp.AllowPanic()
	want := (8 + n + 3) &^ 3
	if withSize != 0 {
		want = int(withSize)
	}
	vp.Assert(len(b) == want, "record length: 8+name rounded up to 4, or the length asked for")
	vp.Assert(binary.LittleEndian.Uint32(b[0:4]) == de.inode, "inode at +0")
	vp.Assert(int(binary.LittleEndian.Uint16(b[4:6])) == want, "rec_len at +4")
	vp.Assert(int(b[6]) == n, "name_len at +6")
	vp.Assert(b[7] == byte(de.fileType), "file_type at +7")
	for i := 0; i < 20; i++ {
		if i < n {
			vp.Assert(b[8+i] == nb[i], "name at +8")
		}
	}
	vp.NoPanic()
	back, err := directoryEntryFromBytes(b)
	vp.AllowPanic()
	vp.Assert(err == nil, "an entry the library serialised parses")
	vp.Assert(back.inode == de.inode, "inode round-trips")
	vp.Assert(back.fileType == de.fileType, "type round-trips")
	vp.Assert(len(back.filename) == n, "name length round-trips")
	for i := 0; i < 20; i++ {
		if i < n && i < len(back.filename) {
			vp.Assert(back.filename[i] == nb[i], "name round-trips")
		}
	}
	vp.Cover("dirent round trip")
}

var c04Names = []string{".", "..", "abcdefghijklmnopq", "x", "twelve_chars", "yz"}

// c04DirBlock: Directory.toBytes on 2..6 entries (names of lengths 1,2,17,1,12,2; inode numbers
// symbolic) with a tiny block size so that entries spill into further blocks: the result is a
// whole number of blocks, every block is exactly filled by 4-aligned records, the checksum tail
// {inode 0, rec_len 12, name_len 0, type 0xde} is present iff checksums are on, and parsing gives
// the entries back in order.
func c04DirBlock(k int, bpb uint32, csum bool) {
	inoNames := []string{"i0", "i1", "i2", "i3", "i4", "i5"}
	d := &Directory{}
	for i := 0; i < k; i++ {
		ino := vp.U32(inoNames[i])
		vp.Assume(ino != 0)
		d.entries = append(d.entries, &directoryEntry{inode: ino, filename: c04Names[i], fileType: dirFileTypeRegular})
	}
	seed, dirIno, gen := vp.U32("seed"), vp.U32("dirino"), vp.U32("gen")
	app := nullDirectoryChecksummer
	if csum {
		app = directoryChecksumAppender(seed, dirIno, gen)
	}
	vp.NoPanic()
	b := d.toBytes(bpb, app, csum)
	vp.AllowPanic()
	vp.Assert(len(b) > 0, "a non-empty directory has bytes")
	vp.Assert(len(b)%int(bpb) == 0, "directory bytes are a whole number of blocks")
	limit := int(bpb)
	if csum {
		limit -= 12
	}
	seen := 0
	for blk := 0; blk*int(bpb) < len(b); blk++ {
		base := blk * int(bpb)
		pos := 0
		for step := 0; step < 8 && pos < limit; step++ {
			rl := int(binary.LittleEndian.Uint16(b[base+pos+4 : base+pos+6]))
			nl := int(b[base+pos+6])
			vp.Assert(rl >= 8+nl, "record holds its name")
			vp.Assert(rl%4 == 0, "record length 4-aligned")
			vp.Assert(pos+rl <= limit, "record inside the block")
			if seen < k {
				vp.Assert(binary.LittleEndian.Uint32(b[base+pos:base+pos+4]) == d.entries[seen].inode, "entries appear in order with their inode")
				vp.Assert(nl == len(c04Names[seen]), "entries appear in order with their name length")
			}
			seen++
			pos += rl
		}
		vp.Assert(pos == limit, "records fill the block exactly")
		if csum {
			t := b[base+limit : base+limit+12]
			vp.Assert(binary.LittleEndian.Uint32(t[0:4]) == 0, "checksum tail inode 0")
			vp.Assert(binary.LittleEndian.Uint16(t[4:6]) == 12, "checksum tail rec_len 12")
			vp.Assert(t[6] == 0, "checksum tail name_len 0")
			vp.Assert(t[7] == 0xde, "checksum tail type 0xde")
		}
	}
	vp.Assert(seen == k, "every entry serialised exactly once")
	vp.NoPanic()
	back, err := parseDirEntriesLinear(b, csum, bpb, dirIno, gen, seed)
	vp.AllowPanic()
	vp.Assert(err == nil, "directory bytes the library serialised parse (checksums verify)")
	vp.Assert(len(back) == k, "all entries come back")
	for i := 0; i < k && i < len(back); i++ {
		vp.Assert(back[i].inode == d.entries[i].inode, "inode round-trips")
		vp.Assert(back[i].filename == c04Names[i], "name round-trips")
	}
	if len(b) > int(bpb) {
		vp.Cover("directory spans blocks")
	}
	vp.Cover("directory round trip")
}

func VP_C04_codec_dir_2()        { c04DirBlock(2, 64, false) }
func VP_C04_codec_dir_4()        { c04DirBlock(4, 64, false) }
func VP_C04_codec_dir_6()        { c04DirBlock(6, 64, false) }
func VP_C04_codec_dir_4_csum()   { c04DirBlock(4, 64, true) }
func VP_C04_codec_dir_6_csum()   { c04DirBlock(6, 76, true) }
func VP_C04_codec_dir_5_csum64() { c04DirBlock(5, 64, true) }

// VP_C04_codec_merge: mergeExtents keeps the file-block -> disk-block mapping and the block
// count (3 extents, counts <= 16384 as for directories).
func VP_C04_codec_merge() {
	es := c04SymExtents(3, 16384)
	for i := range es {
		vp.Assume(es[i].fileBlock < 1<<20)
		vp.Assume(es[i].startingBlock < 1<<32)
	}
	// file ranges pairwise disjoint (a well-formed extent list)
	for i := 0; i < 3; i++ {
		for j := i + 1; j < 3; j++ {
			a := uint64(es[i].fileBlock)+uint64(es[i].count) <= uint64(es[j].fileBlock)
			b := uint64(es[j].fileBlock)+uint64(es[j].count) <= uint64(es[i].fileBlock)
			vp.Assume(a != b || a)
		}
	}
	in := make(extents, 3)
	copy(in, es)
	vp.NoPanic()
	out := mergeExtents(es)
	vp.AllowPanic()
	vp.Assert(len(out) >= 1, "something left")
	vp.Assert(len(out) <= 3, "no extent invented")
	var sumIn, sumOut uint64
	for i := range in {
		sumIn += uint64(in[i].count)
	}
	for i := range out {
		sumOut += uint64(out[i].count)
		if i > 0 {
			vp.Assert(uint64(out[i-1].fileBlock)+uint64(out[i-1].count) <= uint64(out[i].fileBlock), "output sorted and disjoint in file space")
		}
	}
	vp.Assert(sumIn == sumOut, "block count preserved")
	mapOut := func(fb uint64) uint64 {
		var r uint64
		for i := range out {
			lo := uint64(out[i].fileBlock)
			inr := fb >= lo
			if fb >= lo+uint64(out[i].count) {
				inr = false
			}
			r = vp.IteU64(inr, out[i].startingBlock+(fb-lo), r)
		}
		return r
	}
	for i := range in {
		first := uint64(in[i].fileBlock)
		last := first + uint64(in[i].count) - 1
		vp.Assert(mapOut(first) == in[i].startingBlock, "first block of every input extent keeps its disk block (with the preserved count and order: the mapping is unchanged)")
		_ = last
	}
	if len(out) < 3 {
		vp.Cover("extents merged")
	}
	vp.Cover("merge done")
}

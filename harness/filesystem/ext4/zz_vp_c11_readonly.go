package ext4

import (
	"github.com/diskfs/go-diskfs/backend"
	"github.com/diskfs/go-diskfs/backend/file"
	"github.com/diskfs/go-diskfs/internal/vp"
	"github.com/diskfs/go-diskfs/internal/vp/vpdev"
	"github.com/diskfs/go-diskfs/util/bitmap"
)

// C11 for ext4, at the level the engine reaches without a complete consistent image:
// File.Write (in place / growing inside the allocated blocks / through a handle that was not
// opened for writing) and every low-level writer the public mutators end in (inode, superblock,
// group descriptor table, inode bitmap, block bitmap, SetLabel) on a read-only backend.
// The public mutators that first walk directories (Mkdir, Remove, Rename, OpenFile(O_CREATE),
// Chmod, Chown, Chtimes, Symlink, Truncate) need a whole consistent ext4 image and are not encoded.

type c11Img struct {
	*vpdev.MemDev
	refuse bool
	ro     bool
	writes int
}

func (d *c11Img) Writable() (backend.WritableFile, error) {
	if d.refuse {
		return nil, backend.ErrIncorrectOpenMode
	}
	return d, nil
}

func (d *c11Img) WriteAt(p []byte, off int64) (int, error) {
	vp.Assert(!d.ro, "no WriteAt reaches an image that was opened read-only")
	d.writes++
	vp.Stop("read-write image: the call writes")
	return len(p), nil
}

const (
	c11SymbolicFile = iota // file.New(image, readOnly), readOnly arbitrary
	c11ReadOnlyFile        // file.New(image, true)
	c11Refuse              // the image's own Writable() fails
)

func c11Backend(kind int) (backend.Storage, *c11Img, bool) {
	img := &c11Img{MemDev: vpdev.NewMemDev("img", -1)}
	img.UF = true
	switch kind {
	case c11SymbolicFile:
		ro := vp.Bool("readOnly")
		img.ro = ro
		return file.New(img, ro), img, ro
	case c11ReadOnlyFile:
		img.ro = true
		return backend.Sub(file.New(img, true), 1<<20, 1<<30), img, true // as ext4.Read wraps it
	default:
		img.ro, img.refuse = true, true
		return img, img, true
	}
}

func c11Ext4File(b backend.Storage, rw bool) *File {
	const bs = 1024
	count := vp.U16("ext.count")
	vp.Assume(count >= 1)
	vp.Assume(count <= 8)
	es := extents{{fileBlock: 0, startingBlock: vp.U64("ext.start") & (1<<40 - 1), count: count}}
	size := vp.U64("size")
	vp.Assume(size <= uint64(count)*bs)
	off := vp.I64("offset")
	vp.Assume(off >= 0)
	vp.Assume(off <= int64(count)*bs)
	sb := &superblock{blockSize: bs, inodeSize: 256, inodesPerGroup: 16, inodeCount: 16, blocksPerGroup: 8192, blockCount: 8192}
	fsys := &FileSystem{superblock: sb, backend: b,
		groupDescriptors: &groupDescriptors{descriptors: []groupDescriptor{{inodeTableLocation: 5, blockBitmapLocation: 3, inodeBitmapLocation: 4}}}}
	return &File{
		inode: &inode{number: 12, size: size, blocks: uint64(count) * 2, fileType: fileTypeRegularFile, flags: &inodeFlags{usesExtents: true},
			extents: &extentLeafNode{extentNodeHeader: extentNodeHeader{entries: 1, max: 4, blockSize: bs}, extents: es}},
		isReadWrite: rw, offset: off, filesystem: fsys, extents: es, fileType: dirFileTypeRegular, filename: "f",
	}
}

// VP_C11_ext4_write_inplace: Write of 0..4 arbitrary bytes entirely inside the current size
// (no inode update needed) through an O_RDWR handle; backend read-only flag arbitrary.
func VP_C11_ext4_write_inplace() {
	b, img, ro := c11Backend(c11SymbolicFile)
	fl := c11Ext4File(b, true)
	data := vp.Bytes("data", 4)
	k := vp.Int("len")
	vp.Assume(k >= 0)
	vp.Assume(k <= 4)
	vp.Assume(uint64(fl.offset)+uint64(k) <= fl.size)
	vp.Assume(uint64(fl.offset) < fl.size)
	vp.NoPanic()
	n, err := fl.Write(data[:k])
	vp.AllowPanic()
	if ro {
		vp.Assert(err != nil, "read-only: File.Write returns an error")
		vp.Assert(n <= 0, "read-only: File.Write reports no bytes written")
		vp.Assert(img.writes == 0, "read-only: nothing was written to the image")
		vp.Cover("read-only: in-place Write refused")
	}
}

// c11Ext4Grow: Write that extends the size but stays inside the allocated blocks (the inode has
// to be rewritten first); read-only backends of both kinds.
func c11Ext4Grow(kind int) {
	b, img, _ := c11Backend(kind)
	fl := c11Ext4File(b, true)
	data := vp.Bytes("data", 4)
	k := vp.Int("len")
	vp.Assume(k >= 1)
	vp.Assume(k <= 4)
	vp.Assume(uint64(fl.offset)+uint64(k) > fl.size)
	vp.Assume(uint64(fl.offset)+uint64(k) <= uint64(fl.extents[0].count)*1024)
	vp.NoPanic()
	n, err := fl.Write(data[:k])
	vp.AllowPanic()
	vp.Assert(err != nil, "read-only: growing File.Write returns an error")
	vp.Assert(n <= 0, "read-only: File.Write reports no bytes written")
	vp.Assert(img.writes == 0, "read-only: nothing was written to the image")
	vp.Cover("read-only: growing Write refused")
}

func VP_C11_ext4_write_grow_file()   { c11Ext4Grow(c11ReadOnlyFile) }
func VP_C11_ext4_write_grow_refuse() { c11Ext4Grow(c11Refuse) }

// VP_C11_ext4_write_not_rw: a handle that was not opened for writing never writes, on a
// read-write image as well.
func VP_C11_ext4_write_not_rw() {
	b, img, _ := c11Backend(c11SymbolicFile)
	img.ro = true // whatever the backend mode, this handle must not write
	fl := c11Ext4File(b, false)
	data := vp.Bytes("data", 4)
	k := vp.Int("len")
	vp.Assume(k >= 0)
	vp.Assume(k <= 4)
	vp.NoPanic()
	n, err := fl.Write(data[:k])
	vp.AllowPanic()
	vp.Assert(err != nil, "a handle not opened for writing: Write returns an error")
	vp.Assert(n <= 0, "a handle not opened for writing: no bytes written")
	vp.Assert(img.writes == 0, "a handle not opened for writing wrote nothing")
	vp.Cover("read-only handle refused")
}

// c11Ext4Writers: every low-level writer on a read-only backend.
func c11Ext4Writers(kind int) {
	b, img, _ := c11Backend(kind)
	fl := c11Ext4File(b, true)
	fs := fl.filesystem
	fs.backupSuperblocks = []int64{0, 8193}
	ino := vp.U32("inode.number")
	vp.Assume(ino >= 1)
	vp.Assume(ino <= 16)
	fl.inode.number = ino
	bm := bitmap.NewBytes(128)
	vp.NoPanic()
	vp.Assert(fs.writeInode(fl.inode) != nil, "read-only: writeInode returns an error")
	vp.Assert(fs.writeSuperblock() != nil, "read-only: writeSuperblock returns an error")
	vp.Assert(fs.writeGDT() != nil, "read-only: writeGDT returns an error")
	vp.Assert(fs.writeInodeBitmap(bm, 0) != nil, "read-only: writeInodeBitmap returns an error")
	vp.Assert(fs.writeBlockBitmap(bm, 0) != nil, "read-only: writeBlockBitmap returns an error")
	vp.Assert(fs.SetLabel("newlabel") != nil, "read-only: SetLabel returns an error")
	vp.Assert(fs.writeDirectory(fl.inode, make([]byte, 1024)) != nil, "read-only: writeDirectory returns an error")
	vp.AllowPanic()
	vp.Assert(img.writes == 0, "read-only: nothing was written to the image")
	vp.Cover("read-only: all writers refused")
}

func VP_C11_ext4_writers_file()   { c11Ext4Writers(c11ReadOnlyFile) }
func VP_C11_ext4_writers_refuse() { c11Ext4Writers(c11Refuse) }

// VP_C11_ext4_create: ext4.Create (mkfs) on a read-only backend: error, nothing written.
func c11Ext4Create(kind int) {
	b, img, _ := c11Backend(kind)
	vp.SparseAlloc(true)
	vp.NoPanic()
	_, err := Create(b, 16<<20, 0, 512, &Params{VolumeName: "label"})
	vp.AllowPanic()
	vp.Assert(err != nil, "read-only: Create returns an error")
	vp.Assert(img.writes == 0, "read-only: nothing was written to the image")
	vp.Cover("read-only: Create refused")
}

func VP_C11_ext4_create_refuse() { c11Ext4Create(c11Refuse) }

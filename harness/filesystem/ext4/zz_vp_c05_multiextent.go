package ext4

import (
	"github.com/diskfs/go-diskfs/internal/vp"
)

// C05.alloc_multi_extent_1k / C05.write_multi_extent_1k: the MULTI-EXTENT (slow) path of allocateExtents -
// a request that no single free run can satisfy - on a filesystem with 1 KiB blocks, where
// firstDataBlock = 1: bit i of the block bitmap of group g stands for block g*blocksPerGroup + 1 + i.
// Every block of every returned extent must be a block whose bit was clear before and is set now, no
// other bit may change, and nothing that was in use before may be handed out. Seen from a file: bytes
// written through the extents must not land in a block that belongs to another file.

// c05xFrag: free space reduced to runs of 2, 3, 1 blocks in group 0 and 2, 3 blocks in group 1
// (used and free runs alternate; metadata occupies bits [0,12) of both groups): 11 free blocks, the
// longest run has 3.
var c05xFrag = []c05Mark{
	{0, 12, 20}, {0, 22, 30}, {0, 33, 40}, {0, 41, 256},
	{1, 12, 100}, {1, 102, 110}, {1, 113, 256},
}

const c05xFragFree = 11

func VP_C05_alloc_multi_extent_1k() {
	fx := c05NewFixture(1024, 256, 512, 32, 0, false, c05xFrag, nil)
	before := c05Snapshot(fx.dev.img)
	g0 := c05ReadGeo(before)
	vp.Assert(g0.fdb == 1 && g0.groups == 2, "fixture: 1 KiB blocks, first data block 1, two groups")
	vp.Assert(g0.freeBlocksSB() == c05xFragFree, "fixture: 11 free blocks")
	maxBlocks := vp.Bound("multiextblocks", 8, 12)
	size := vp.U64("size")
	vp.Assume(size > 3*1024) // more than the longest free run: several extents or refusal
	vp.Assume(size <= uint64(maxBlocks)*1024)
	need := (size + 1023) / 1024
	vp.Unwind(maxBlocks + 8)
	vp.NoPanic()
	exts, err := fx.fs.allocateExtents(size, nil)
	vp.AllowPanic()
	g := c05ReadGeo(fx.dev.img)
	c05CheckCounts(&g)
	if err != nil {
		vp.Assert(need > c05xFragFree, "a request is refused only when the free blocks do not suffice")
		var changed uint64
		for i := 0; i < g.groups; i++ {
			off := g.blockBitmapLoc(i) * g.bs
			for k := 0; k < g.bs; k++ {
				changed += vp.IteU64(before[off+k] == g.img[off+k], 0, 1)
			}
		}
		vp.Assert(changed == 0, "a refused allocation leaves the block bitmaps as they were")
		vp.Assert(g.freeBlocksSB() == c05xFragFree, "a refused allocation leaves the free count as it was")
		vp.Cover("request larger than the free space refused")
		return
	}
	vp.Assert(need <= c05xFragFree, "no more blocks are handed out than were free")
	vp.Assert(exts != nil, "a successful allocation of >= 1 block returns extents")
	if exts == nil {
		return
	}
	es := *exts
	vp.Assert(len(es) >= 2, "no free run is long enough: several extents")
	var fileBlock, seqBad uint64
	for i := range es {
		seqBad += vp.IteU64(uint64(es[i].fileBlock) == fileBlock, 0, 1)
		seqBad += vp.IteU64(es[i].count >= 1, 0, 1)
		seqBad += vp.IteU64(es[i].startingBlock >= uint64(g.fdb), 0, 1)
		seqBad += vp.IteU64(es[i].startingBlock+uint64(es[i].count) <= uint64(g.blocks), 0, 1)
		fileBlock += uint64(es[i].count)
	}
	vp.Assert(seqBad == 0, "extents are numbered consecutively in file space, non-empty and inside the filesystem")
	vp.Assert(fileBlock == need, "the extents cover exactly ceil(size/blocksize) blocks")
	// block by block over windows that contain every free run with a margin of in-use blocks on both
	// sides (block b = group*bpg + fdb + bit); outside the windows everything was in use: the bitmap
	// bytes must be unchanged there and no extent may reach there.
	wins := []c05Mark{{0, 8, 48}, {1, 96, 120}}
	var notNew, wasUsed, twice, stray, cleared uint64
	for i := 0; i < g.groups; i++ {
		off := g.blockBitmapLoc(i) * g.bs
		w := wins[i]
		for k := w.from; k < w.to; k++ {
			was := uint64(before[off+k/8]>>uint(k%8)) & 1
			now := uint64(g.img[off+k/8]>>uint(k%8)) & 1
			in := c05InExt(es, uint64(i*g.bpg+g.fdb+k))
			fresh := now & (1 ^ was)
			notNew += vp.IteU64(in >= 1, 1^fresh, 0) // handed out but not (clear before and set now)
			wasUsed += vp.IteU64(in >= 1, was, 0)    // handed out although in use before
			twice += vp.IteU64(in > 1, 1, 0)         // in two extents
			stray += vp.IteU64(in == 0, fresh, 0)    // newly set but not handed out
			cleared += was & (1 ^ now)               // an allocation clears nothing
		}
		for k := 0; k < g.bs; k++ {
			if k < w.from/8 || k >= w.to/8 {
				stray += vp.IteU64(before[off+k] == g.img[off+k], 0, 1)
			}
		}
	}
	for i := range es {
		lo := es[i].startingBlock
		hi := lo + uint64(es[i].count)
		var covered uint64
		for _, w := range wins {
			wlo := uint64(g.fdb + w.group*g.bpg + w.from)
			whi := uint64(g.fdb + w.group*g.bpg + w.to)
			covered += c05Overlap(c05Region{lo, hi}, c05Region{wlo, whi})
		}
		wasUsed += vp.IteU64(covered == hi-lo, 0, 1) // reaches into the area that was completely in use
	}
	vp.Assert(wasUsed == 0, "no block that was in use before is handed out")
	vp.Assert(notNew == 0, "every block of every extent is a block whose bit was newly set (bit i of group g <-> block g*bpg + firstDataBlock + i)")
	vp.Assert(twice == 0, "no block is handed out twice")
	vp.Assert(stray == 0, "no bit is set for a block that was not handed out")
	vp.Assert(cleared == 0, "an allocation clears no bit")
	vp.Assert(g.freeBlocksSB()+need == c05xFragFree, "superblock free count went down by the blocks handed out")
	if es[len(es)-1].startingBlock >= uint64(g.fdb+g.bpg) {
		vp.Cover("allocation continues in the second group")
	}
	if need == c05xFragFree {
		vp.Cover("every free block handed out")
	}
	vp.Cover("several extents allocated")
}

// c05xMarkUsed marks the bits [from,to) of group grp in the image and brings descriptor and
// superblock counters (in memory and on disk) in line - reference code, the state stays consistent for
// pass 5 (the marked blocks belong to nobody, like blocks of a file this harness does not look at).
func c05xMarkUsed(fsys *FileSystem, dev *c05Dev, grp, from, to int) {
	g := c05ReadGeo(dev.img)
	off := g.blockBitmapLoc(grp) * g.bs
	n := 0
	for k := from; k < to; k++ {
		if !c05Bit(dev.img, off, k) {
			dev.img[off+k/8] |= 1 << uint(k%8)
			n++
		}
	}
	fsys.groupDescriptors.descriptors[grp].freeBlocks -= uint32(n)
	fsys.superblock.freeBlocks -= uint64(n)
	if fsys.writeSuperblock() != nil || fsys.writeGDT() != nil {
		vp.Assume(false)
	}
}

// c05xWriteMulti: on a volume made by Create: file n (3 blocks) is written; then the free space is
// reduced to three runs of 2 blocks - the first right behind n's last block, the last in group 1 - and
// file m of `blocks` blocks is written in one Write (2 extents at least). Afterwards, read from the image
// with the reference reader: m holds its bytes, n still holds its bytes, m's blocks are blocks that
// were free, and the bitmaps/counters agree.
func c05xWriteMulti(length int) {
	fsys, dev, _ := c05Create(c05CreateCase{size: 512 * 1024, spb: 2, bpg: 256, features: c05Plain})
	if fsys == nil {
		return
	}
	const bs = 1024
	dn := vp.Bytes("n", 3*bs)
	dm := vp.Bytes("m", length)
	if c05WriteFile(fsys, "n", dn) != nil {
		vp.Assert(false, "a small file can be written on a fresh volume")
		return
	}
	g := c05ReadGeo(dev.img)
	tn := c05xInodeTree(&g, 11)
	vp.Assert(len(tn.dataStart) == 1 && tn.dataLen[0] == 3, "fixture: n is one extent of 3 blocks")
	if len(tn.dataStart) != 1 {
		return
	}
	nEnd := tn.dataStart[0] + 3 // first block behind n
	bit := nEnd - g.fdb         // its bit in group 0
	vp.Assert(!c05Bit(dev.img, g.blockBitmapLoc(0)*g.bs, bit), "fixture: the block behind n is free")
	// free runs: group 0 bits [bit,bit+2) and [bit+4,bit+6); group 1 bits [100,102)
	c05xMarkUsed(fsys, dev, 0, bit+2, bit+4)
	c05xMarkUsed(fsys, dev, 0, bit+6, 256)
	c05xMarkUsed(fsys, dev, 1, 0, 100)
	c05xMarkUsed(fsys, dev, 1, 102, 256)
	before := c05Snapshot(dev.img)
	g0 := c05ReadGeo(before)
	vp.Assert(g0.freeBlocksSB() == 6, "fixture: 6 free blocks in runs of 2")
	c05CheckCounts(&g0)

	vp.NoPanic()
	err := c05WriteFile(fsys, "m", dm)
	vp.AllowPanic()
	vp.Assert(err == nil, "a file that fits the free blocks can be written in one Write")
	if err != nil {
		return
	}
	g = c05ReadGeo(dev.img)
	c05CheckCounts(&g)
	im := g.readInode(12)
	vp.Assert(im.links == 1 && im.size == length, "inode 12 is m with the length written")
	tm := c05xInodeTree(&g, 12)
	vp.Assert(len(tm.dataStart) >= 2 && len(tm.nodes) == 0, "m has several extents in its inode")
	total := 0
	for k := range tm.dataStart {
		for j := 0; j < tm.dataLen[k]; j++ {
			b := tm.dataStart[k] + j
			vp.Assert(b >= g.fdb && b < g.blocks, "m's block inside the filesystem")
			if b < g.fdb || b >= g.blocks {
				return
			}
			vp.Assert(!c05xBlockBit(before, b), "m's block was free before the write (bit of block b = bit (b-firstDataBlock)%bpg of its group)")
			vp.Assert(c05xBlockBit(dev.img, b), "m's block is marked in use now")
			vp.Assert(b < tn.dataStart[0] || b >= nEnd, "m's block is not a block of file n")
			total++
		}
	}
	vp.Assert(total == (length+bs-1)/bs, "m has ceil(length/blocksize) blocks")
	vp.Assert(c05xSetBits(dev.img) == c05xSetBits(before)+uint64(total), "exactly m's blocks were newly marked")
	vp.Assert(im.iblocks == total*(bs/512), "m: i_blocks = its blocks")
	gotN := c05FileData(&g, 11)
	ok := 1
	for i := range dn {
		ok &= c20b2i(gotN[i] == dn[i])
	}
	vp.Assert(ok == 1, "file n still holds its bytes: nothing of m was written into a block of n")
	if im.size == length && len(tm.dataStart) <= 4 {
		gotM := c05FileData(&g, 12)
		ok = 1
		for i := range dm {
			ok &= c20b2i(gotM[i] == dm[i])
		}
		vp.Assert(ok == 1, "file m read from the image = bytes written")
	}
	if tm.dataStart[len(tm.dataStart)-1] >= g.fdb+g.bpg {
		vp.Cover("file continues in the second group")
	}
	vp.Cover("file written through several extents")
}

func VP_C05_write_multi_extent_1k_3blocks() { c05xWriteMulti(2*1024 + 1) }
func VP_C05_write_multi_extent_1k_6blocks() { c05xWriteMulti(6 * 1024) }

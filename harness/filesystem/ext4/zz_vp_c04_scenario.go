package ext4

import (
	"io"
	"os"

	"github.com/diskfs/go-diskfs/internal/vp"
)

// C04.scenario: short operation sequences with symbolic parameters on a volume made by the
// current tree's ext4.Create, checked against a reference computed in the harness, live and
// after re-opening the image with ext4.Read.

// c04Probes: the positions at which file content is compared (block boundaries +-1, start, end
// of the buffer). The length of the file is symbolic, so every probe is also "the last byte".
func c04Probes(bs, max int) []int {
	cand := []int{0, 1, 7, 8, bs - 2, bs - 1, bs, bs + 1, bs + 7, bs + 8, 2*bs - 1, 2 * bs, 2*bs + 1, 2*bs + 7, max - 1}
	var out []int
	for _, c := range cand {
		if c >= 0 && c < max {
			dup := false
			for _, o := range out {
				if o == c {
					dup = true
				}
			}
			if !dup {
				out = append(out, c)
			}
		}
	}
	return out
}

// c04CheckFile: path name holds exactly ref[:n] (n symbolic, n >= nLo), read through a fresh
// handle: a first Read of nLo bytes (all inside the file), then the rest with one Read into a
// buffer that is larger than what can remain, then a Read that must report the end.
func c04CheckFile(fsys *FileSystem, name string, ref []byte, n int, nLo int, bs int) {
	c04NoPanic()
	g, err := fsys.OpenFile(name, os.O_RDONLY)
	c04AllowPanic()
	vp.Assert(err == nil, "file written by the library opens")
	if nLo > 0 {
		vp.AllocCap(nLo)
		head := make([]byte, nLo)
		c04NoPanic()
		got, err := g.Read(head)
		c04AllowPanic()
		if err != nil {
			vp.Assert(err == io.EOF, "reading a file the library wrote does not fail")
			vp.Assert(n == nLo, "io.EOF only at the end of the file")
		}
		vp.Assert(got == nLo, "a Read inside the file fills the buffer")
		for _, j := range c04Probes(bs, nLo) {
			vp.Assert(head[j] == ref[j], "file content = reference content")
		}
	}
	tailMax := len(ref) - nLo + 8
	vp.AllocCap(tailMax)
	tail := make([]byte, tailMax)
	c04NoPanic()
	// (Seek makes the handle offset a constant again: the device model reads at constant offsets)
	_, err = g.(io.Seeker).Seek(int64(nLo), io.SeekStart)
	c04AllowPanic()
	vp.Assert(err == nil, "seek inside the file accepted")
	c04NoPanic()
	got, err := g.Read(tail)
	c04AllowPanic()
	if err != nil {
		vp.Assert(err == io.EOF, "reading a file the library wrote does not fail")
	}
	vp.Assert(nLo+got == n, "file length = reference length")
	if tailMax <= 64 {
		for j := 0; j < tailMax-8; j++ {
			if nLo+j < n {
				vp.Assert(tail[j] == ref[nLo+j], "file content = reference content")
			}
		}
	} else {
		for _, j := range c04Probes(bs, len(ref)) {
			if j >= nLo && j < n {
				vp.Assert(tail[j-nLo] == ref[j], "file content = reference content")
			}
		}
	}
}

// c04WriteAt: open (creating if asked), seek to off if off >= 0, write data, all accepted.
func c04WriteAt(fsys *FileSystem, name string, flag int, off int64, data []byte) {
	c04NoPanic()
	f, err := fsys.OpenFile(name, flag)
	c04AllowPanic()
	vp.Assert(err == nil, "open for writing accepted")
	if off >= 0 {
		_, err = f.Seek(off, io.SeekStart)
		vp.Assert(err == nil, "seek accepted")
	}
	c04NoPanic()
	n, err := f.Write(data)
	c04AllowPanic()
	vp.Assert(err == nil, "write accepted")
	vp.Assert(n == len(data), "write complete")
}

// c04Window declares the device window for data writes at symbolic offsets: the first free
// block of group 0 (where the first-fit allocator will place the next file data) and the
// nblocks-1 blocks after it.
func c04Window(fsys *FileSystem, dev *c04Dev, cfg c04Cfg, nblocks int) {
	bm, err := fsys.readBlockBitmap(0)
	vp.Assume(err == nil)
	first := int64(bm.FirstFree(0)) + int64(fsys.superblock.firstDataBlock)
	dev.winLo = cfg.start + first*int64(cfg.bs())
	dev.winHi = dev.winLo + int64(nblocks)*int64(cfg.bs())
}

func c04Reopen(dev *c04Dev, size int64, cfg c04Cfg) *FileSystem {
	c04NoPanic()
	fs2, err := Read(dev, size, cfg.start, 512)
	c04AllowPanic()
	vp.Assert(err == nil, "image written by the library re-opens")
	return fs2
}

// c04ScWriteRead: create + one write of a symbolic number of bytes (0 .. 2 blocks + 8) at
// offset 0; the file reads back live and after re-open.
func c04ScWriteRead(cfg c04Cfg) {
	fsys, dev, size := c04Fixture(cfg)
	bs := cfg.bs()
	maxL := 2*bs + 8
	data := vp.Bytes("data", maxL)
	l := vp.Int("len")
	vp.Assume(l >= 0)
	vp.Assume(l <= maxL)
	vp.AllocCap(maxL + 8)
	dev.symCap = maxL + 8
	c04WriteAt(fsys, "/f", os.O_CREATE|os.O_RDWR, -1, data[:l])
	c04CheckFile(fsys, "/f", data, l, 0, bs)
	fs2 := c04Reopen(dev, size, cfg)
	c04CheckFile(fs2, "/f", data, l, 0, bs)
	if l == 0 {
		vp.Cover("empty file")
	}
	if l > 2*bs {
		vp.Cover("three blocks")
	}
	vp.Cover("write-read done")
}

func VP_C04_sc_write_read_1k() { c04ScWriteRead(c04Cfg{spb: 2}) }
func VP_C04_sc_write_read_1k_csum_off() {
	c04ScWriteRead(c04Cfg{spb: 2, csum: true, start: 3 * 512})
}
func VP_C04_sc_write_read_4k() {
	if vp.Thorough() {
		c04ScWriteRead(c04Cfg{spb: 8, csum: true, start: 4096})
	}
}

// c04ScTwoWrites: create + write of l1 bytes at 0 (l1 case-split: inside a block, exactly one
// block, just over one block), then a second handle writes l2 (1..8) bytes at a symbolic offset
// o2 in [0, l1+4]: overlap, extension, size unchanged or a gap of up to 4 bytes (which reads as
// zeros in the reference tree).
// The two structural cases are separate harnesses (extend: the second write ends after the
// current end; inside: it ends at or before it) with offsets built so that the case is decided
// by the value ranges.
func c04ScTwoWrites(cfg c04Cfg, l1 int, extend bool) {
	fsys, dev, size := c04Fixture(cfg)
	bs := cfg.bs()
	data1 := vp.Bytes("data1", l1)
	data2 := vp.Bytes("data2", 8)
	var l2, o2 int
	if extend {
		l2 = 8
		o2 = l1 - 4 + int(vp.U8("d")&7) // l1-4 .. l1+3: overlap+extend, append, gap
	} else {
		l2 = 1 + int(vp.U8("e")&3)           // 1..4
		o2 = int(vp.U16("d") & 1023) // 0..1023 (l1 >= 1027 in this case)
		if l1 < 1027 {
			o2 = int(vp.U16("d") & 511)
		}
	}
	c04Window(fsys, dev, cfg, 4)
	c04WriteAt(fsys, "/f", os.O_CREATE|os.O_RDWR, -1, data1)
	vp.AllocCap(8)
	dev.symCap = 8
	vp.KnownPanic("KF-C04-3", "ext4/file.go:198")
	c04WriteAt(fsys, "/f", os.O_RDWR, int64(o2), data2[:l2])
	// reference
	maxR := l1 + 4 + 8
	ref := make([]byte, maxR)
	for j := 0; j < maxR; j++ {
		var v byte
		if j < l1 {
			v = data1[j]
		}
		k := j - o2
		in := k >= 0
		if k >= l2 {
			in = false
		}
		ref[j] = vp.IteU8(in, data2[vp.IteInt(in, k, 0)], v)
	}
	n := l1
	if o2+l2 > n {
		n = o2 + l2
	}
	nLo := l1
	if !extend || l1-4 < nLo {
		nLo = l1 - 4
	}
	c04CheckFile(fsys, "/f", ref, n, nLo, bs)
	fs2 := c04Reopen(dev, size, cfg)
	c04CheckFile(fs2, "/f", ref, n, nLo, bs)
	if o2 > l1 {
		vp.Cover("second write leaves a gap")
	}
	if o2+l2 <= l1 {
		vp.Cover("second write leaves the size unchanged")
	}
	if o2 < l1 {
		if o2+l2 > l1 {
			vp.Cover("second write overlaps and extends")
		}
	}
	vp.Cover("two writes done")
}

func VP_C04_sc_extend_1k_in()    { c04ScTwoWrites(c04Cfg{spb: 2}, 1000, true) }
func VP_C04_sc_extend_1k_edge()  { c04ScTwoWrites(c04Cfg{spb: 2}, 1022, true) }
func VP_C04_sc_extend_1k_exact() { c04ScTwoWrites(c04Cfg{spb: 2}, 1024, true) }
func VP_C04_sc_overwrite_1k()    { c04ScTwoWrites(c04Cfg{spb: 2}, 1030, false) }
func VP_C04_sc_extend_4k() {
	if vp.Thorough() {
		c04ScTwoWrites(c04Cfg{spb: 8, csum: true, start: 4096}, 4094, true)
	}
}

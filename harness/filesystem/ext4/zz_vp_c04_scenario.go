package ext4

import (
	"io"
	"os"

	"github.com/diskfs/go-diskfs/internal/vp"
)

// C04.scenario: short operation sequences with symbolic parameters on a volume made by the
// current tree's ext4.Create, checked against a reference computed in the harness, live and
// after re-opening the image with ext4.Read.

// c04Probes: the positions at which file content is compared (block boundaries +-1, start, end
// of the buffer). The length of the file is symbolic, so every probe is also "the last byte".
func c04Probes(bs, max int) []int {
	cand := []int{0, 1, 7, 8, bs - 2, bs - 1, bs, bs + 1, bs + 7, bs + 8, 2*bs - 1, 2 * bs, 2*bs + 1, 2*bs + 7, max - 1}
	var out []int
	for _, c := range cand {
		if c >= 0 && c < max {
			dup := false
			for _, o := range out {
				if o == c {
					dup = true
				}
			}
			if !dup {
				out = append(out, c)
			}
		}
	}
	return out
}

// c04CheckFile: path name holds exactly ref[:n] (n symbolic, n >= nLo), read through a fresh
// handle block by block (Seek to k*bs, one Read of a block-sized buffer; the last piece extends
// 8 bytes beyond the longest possible file). Compared positions: the probes and every position
// from nLo-8 on when that region is short (the region a second write can touch).
func c04CheckFile(fsys *FileSystem, name string, ref []byte, n int, nLo int, bs int) {
	c04NoPanic()
	g, err := fsys.OpenFile(name, os.O_RDONLY)
	c04AllowPanic()
	vp.Assert(err == nil, "file written by the library opens")
	maxN := len(ref) + 8
	dense := nLo - 8
	if len(ref)-dense > 64 {
		dense = len(ref) // probes only
	}
	probes := c04Probes(bs, len(ref))
	vp.AllocCap(bs)
	for lo := 0; lo < maxN; lo += bs {
		pl := bs
		if maxN-lo < pl {
			pl = maxN - lo
		}
		buf := make([]byte, pl)
		c04NoPanic()
		_, err = g.(io.Seeker).Seek(int64(lo), io.SeekStart)
		c04AllowPanic()
		vp.Assert(err == nil, "seek accepted")
		c04NoPanic()
		got, err := g.Read(buf)
		c04AllowPanic()
		want := 0
		if n > lo {
			want = n - lo
			if want > pl {
				want = pl
			}
		}
		vp.Assert(got == want, "Read delivers the bytes the reference holds at this position")
		if err != nil {
			vp.Assert(err == io.EOF, "reading a file the library wrote does not fail")
			vp.Assert(lo+pl >= n, "io.EOF only at the end of the file")
		}
		for j := lo; j < lo+pl && j < len(ref); j++ {
			sel := j >= dense
			for _, q := range probes {
				if q == j {
					sel = true
				}
			}
			if sel && j < n {
				vp.Assert(buf[j-lo] == ref[j], "file content = reference content")
			}
		}
	}
}

// c04WriteAt: open (creating if asked), seek to off if off >= 0, write data, all accepted.
func c04WriteAt(fsys *FileSystem, name string, flag int, off int64, data []byte) {
	c04NoPanic()
	f, err := fsys.OpenFile(name, flag)
	c04AllowPanic()
	vp.Assert(err == nil, "open for writing accepted")
	if off >= 0 {
		_, err = f.Seek(off, io.SeekStart)
		vp.Assert(err == nil, "seek accepted")
	}
	c04NoPanic()
	n, err := f.Write(data)
	c04AllowPanic()
	vp.Assert(err == nil, "write accepted")
	vp.Assert(n == len(data), "write complete")
	c04ExtInvariant(f.(*File))
}

// c04ExtInvariant: the invariant under which read_map / write_map are proved, asserted on the
// handle after every scenario write: extents start at file block 0, follow each other without
// gap or overlap in file space, have count >= 1, cover ceil(size/blocksize) blocks, lie inside
// the volume and do not overlap each other on disk.
func c04ExtInvariant(fl *File) {
	if !vp.IsConst(int64(len(fl.extents))) {
		return // structure not decided on this path (symbolic allocation): covered by the read-back
	}
	sb := fl.filesystem.superblock
	bs := uint64(sb.blockSize)
	var next uint64
	for i, e := range fl.extents {
		vp.Assert(uint64(e.fileBlock) == next, "extents are contiguous in file space from block 0")
		vp.Assert(e.count >= 1, "extent not empty")
		vp.Assert(e.startingBlock >= uint64(sb.firstDataBlock), "extent starts inside the volume")
		vp.Assert(e.startingBlock+uint64(e.count) <= sb.blockCount, "extent ends inside the volume")
		for j := 0; j < i; j++ {
			o := fl.extents[j]
			before := e.startingBlock+uint64(e.count) <= o.startingBlock
			after := o.startingBlock+uint64(o.count) <= e.startingBlock
			vp.Assert(before != after, "extents do not overlap on disk")
		}
		next += uint64(e.count)
	}
	vp.Assert(next*bs >= fl.size, "extents cover the file size")
}

// c04Window declares the device window for data writes at symbolic offsets: the first free
// block of group 0 (where the first-fit allocator will place the next file data) and the
// nblocks-1 blocks after it.
func c04Window(fsys *FileSystem, dev *c04Dev, cfg c04Cfg, nblocks int) {
	bm, err := fsys.readBlockBitmap(0)
	vp.Assume(err == nil)
	first := int64(bm.FirstFree(0)) + int64(fsys.superblock.firstDataBlock)
	dev.winLo = cfg.start + first*int64(cfg.bs())
	dev.winHi = dev.winLo + int64(nblocks)*int64(cfg.bs())
}

func c04Reopen(dev *c04Dev, size int64, cfg c04Cfg) *FileSystem {
	c04NoPanic()
	fs2, err := Read(dev, size, cfg.start, 512)
	c04AllowPanic()
	vp.Assert(err == nil, "image written by the library re-opens")
	return fs2
}

// c04ScWriteRead: create + one write of a symbolic number of bytes (0 .. 2 blocks + 8) at
// offset 0; the file reads back live and after re-open.
func c04ScWriteRead(cfg c04Cfg) {
	fsys, dev, size := c04Fixture(cfg)
	bs := cfg.bs()
	maxL := 2*bs + 8
	data := vp.Bytes("data", maxL)
	l := vp.Int("len")
	vp.Assume(l >= 0)
	vp.Assume(l <= maxL)
	vp.AllocCap(maxL + 8)
	dev.symCap = maxL + 8
	c04WriteAt(fsys, "/f", os.O_CREATE|os.O_RDWR, -1, data[:l])
	c04CheckFile(fsys, "/f", data, l, 0, bs)
	fs2 := c04Reopen(dev, size, cfg)
	c04CheckFile(fs2, "/f", data, l, 0, bs)
	if l == 0 {
		vp.Cover("empty file")
	}
	if l > 2*bs {
		vp.Cover("three blocks")
	}
	vp.Cover("write-read done")
}

func VP_C04_sc_write_read_1k() { c04ScWriteRead(c04Cfg{spb: 2}) }
func VP_C04_sc_write_read_1k_csum_off() {
	c04ScWriteRead(c04Cfg{spb: 2, csum: true, start: 3 * 512})
}
func VP_C04_sc_write_read_4k() {
	if vp.Thorough() {
		c04ScWriteRead(c04Cfg{spb: 8, csum: true, start: 4096})
	}
}

// c04ScTwoWrites: create + write of l1 bytes at 0, then a second handle writes l2 bytes at a
// symbolic offset o2 = base + (d & mask): overlap, extension, exact append or a gap of a few
// bytes (which reads as zeros in the reference tree). l1/base/mask are chosen per harness so that
// the *structure* (which blocks exist, whether a block is allocated) is fixed and decided by the
// value ranges, while offset and bytes are symbolic.
func c04ScTwoWrites(cfg c04Cfg, l1, base, mask, l2 int) {
	fsys, dev, size := c04Fixture(cfg)
	bs := cfg.bs()
	data1 := vp.Bytes("data1", l1)
	data2 := vp.Bytes("data2", 8)[:l2] // capacity 8: the reference indexes it with k&7
	o2 := base + int(vp.U8("d")&uint8(mask))
	c04Window(fsys, dev, cfg, 4)
	c04WriteAt(fsys, "/f", os.O_CREATE|os.O_RDWR, -1, data1)
	vp.AllocCap(8)
	dev.symCap = 8
	c04WriteAt(fsys, "/f", os.O_RDWR, int64(o2), data2)
	// reference
	maxR := l1
	if base+mask+l2 > maxR {
		maxR = base + mask + l2
	}
	ref := make([]byte, maxR)
	for j := 0; j < maxR; j++ {
		var v byte
		if j < l1 {
			v = data1[j]
		}
		k := j - o2
		in := k >= 0
		if k >= l2 {
			in = false
		}
		ref[j] = vp.IteU8(in, data2[:8][k&7], v) // l2 <= 8
	}
	n := l1
	if o2+l2 > n {
		n = o2 + l2
	}
	nLo := l1
	if base+l2 < nLo {
		nLo = base + l2
	}
	if base < nLo {
		nLo = base
	}
	c04CheckFile(fsys, "/f", ref, n, nLo, bs)
	fs2 := c04Reopen(dev, size, cfg)
	c04CheckFile(fs2, "/f", ref, n, nLo, bs)
	if o2 > l1 {
		vp.Cover("second write leaves a gap")
	}
	if o2+l2 <= l1 {
		vp.Cover("second write leaves the size unchanged")
	}
	if o2 < l1 {
		if o2+l2 > l1 {
			vp.Cover("second write overlaps and extends")
		}
	}
	vp.Cover("two writes done")
}

// inside block 0: size 1000, second write of 8 bytes at 996..1003 (overlap+extend, append, gap)
func VP_C04_sc_extend_1k_in() { c04ScTwoWrites(c04Cfg{spb: 2}, 1000, 996, 7, 8) }

// two blocks in one extent: size 1030, 8 bytes at 1016..1031 (across the block boundary,
// overwrite inside, overlap+extend, append, gap)
func VP_C04_sc_extend_1k_cross() { c04ScTwoWrites(c04Cfg{spb: 2}, 1030, 1016, 15, 8) }

// overwrite anywhere in the first block of a 1030-byte file (size unchanged)
func VP_C04_sc_overwrite_1k() { c04ScTwoWrites(c04Cfg{spb: 2}, 1030, 0, 255, 4) }
func VP_C04_sc_extend_4k() {
	if vp.Thorough() {
		c04ScTwoWrites(c04Cfg{spb: 8, csum: true, start: 4096}, 4100, 4086, 15, 8)
	}
}

// VP_C04_sc_write_past_block: a file of exactly one block, then 8 bytes written at offset
// 1024..1027 through a second handle (a block must be allocated): accepted, no panic.
func VP_C04_sc_write_past_block() {
	cfg := c04Cfg{spb: 2}
	fsys, dev, _ := c04Fixture(cfg)
	data1 := vp.Bytes("data1", 1024)
	data2 := vp.Bytes("data2", 8)
	o2 := 1024 + int(vp.U8("d")&3)
	c04Window(fsys, dev, cfg, 4)
	c04WriteAt(fsys, "/f", os.O_CREATE|os.O_RDWR, -1, data1)
	vp.AllocCap(8)
	dev.symCap = 8
	c04WriteAt(fsys, "/f", os.O_RDWR, int64(o2), data2)
	c04NoPanic()
	fi, err := fsys.Stat("/f")
	c04AllowPanic()
	vp.Assert(err == nil, "stat accepted")
	vp.Assert(fi.Size() == int64(o2+8), "size = end of the second write")
	if o2 > 1024 {
		vp.Cover("write starts inside the new block")
	}
	vp.Cover("write past block done")
}

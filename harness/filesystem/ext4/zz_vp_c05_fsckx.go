package ext4

import (
	"github.com/diskfs/go-diskfs/filesystem/ext4/crc"
	"github.com/diskfs/go-diskfs/internal/vp"
)

// c05x*: the reference checker of zz_vp_c05_image.go (a small e2fsck: passes 1, 2, 4, 5) extended to
// extent trees of depth > 0: index nodes and leaves that live in blocks of their own are walked with
// a decoder written from the on-disk format; the blocks holding tree nodes are claimed by the inode
// like its data blocks, and i_blocks counts both (e2fsck pass 1: "i_blocks is N, should be M").
// The structure of the images checked here is concrete (made by concrete operation sequences); file
// contents, uuid, times may be symbolic.

// c05xTree: what the walk of one inode's extent tree found.
type c05xTree struct {
	depth     int   // eh_depth of the root
	rootN     int   // eh_entries of the root
	dataStart []int // data extents in tree order
	dataLen   []int
	dataFile  []int
	nodes     []int // blocks holding index nodes / leaves
	nodesOnly bool  // do not decode the extents of the leaves (their payload may be symbolic)
}

// c05xWalk decodes the node stored in b (root: the 60 bytes of i_block, capacity 4; block: capacity
// (bs-12)/12) which must have depth wantDepth (-1: root, any depth <= 2).
func c05xWalk(g *c05Geo, b []byte, wantDepth int, t *c05xTree) {
	vp.Assert(c05le16(b, 0) == 0xf30a, "extent node magic")
	n, max, depth := int(c05le16(b, 2)), int(c05le16(b, 4)), int(c05le16(b, 6))
	if wantDepth < 0 {
		vp.Assert(max == 4, "extent root: eh_max = 4")
		vp.Assert(depth <= 2, "extent tree depth small (fixtures are small)")
		t.depth, t.rootN = depth, n
	} else {
		vp.Assert(depth == wantDepth, "extent node: eh_depth = parent's depth - 1")
		vp.Assert(max >= 1 && max <= (g.bs-12)/12, "extent node in a block: eh_max fits the block")
		vp.Assert(n >= 1, "extent node in a block is not empty")
	}
	vp.Assert(n <= max, "extent node: eh_entries <= eh_max")
	if n > max || depth > 2 || (wantDepth >= 0 && depth != wantDepth) || 12+12*n > len(b) {
		return
	}
	prev := -1
	for k := 0; k < n; k++ {
		o := 12 + 12*k
		fb := int(c05le32(b, o))
		vp.Assert(fb > prev, "extent node entries sorted by file block")
		prev = fb
		if depth == 0 && t.nodesOnly {
			continue
		}
		if depth == 0 {
			ln := int(c05le16(b, o+4))
			st := int(c05le32(b, o+8)) | int(c05le16(b, o+6))<<32
			vp.Assert(ln >= 1 && ln <= 32768, "extent length 1..32768 (initialised)")
			if ln < 1 || ln > 32768 {
				continue
			}
			t.dataFile = append(t.dataFile, fb)
			t.dataLen = append(t.dataLen, ln)
			t.dataStart = append(t.dataStart, st)
			continue
		}
		blk := int(c05le32(b, o+4)) | int(c05le16(b, o+8))<<32
		vp.Assert(blk >= g.fdb && blk < g.blocks, "extent index entry points inside the filesystem")
		if blk < g.fdb || blk >= g.blocks {
			continue
		}
		t.nodes = append(t.nodes, blk)
		c05xWalk(g, g.img[blk*g.bs:(blk+1)*g.bs], depth-1, t)
	}
}

// c05xInodeTree walks the tree of inode ino.
func c05xInodeTree(g *c05Geo, ino int) c05xTree {
	var t c05xTree
	in := g.readInode(ino)
	c05xWalk(g, in.raw[0x28:0x64], -1, &t)
	return t
}

// c05xCheckImage: the reference checker. wantRootEntries: number of entries expected in the root
// directory besides "." and ".." (-1 = do not check).
func c05xCheckImage(img []byte, seed uint32, wantRootEntries int) {
	g := c05ReadGeo(img)
	s := img[1024:2048]
	vp.Assert(c05le16(s, 0x38) == 0xef53, "superblock magic")
	vp.Assert(g.bpg > 0 && g.ipg > 0, "groups have blocks and inodes")
	if g.bpg <= 0 || g.ipg <= 0 {
		return
	}
	vp.Assert(g.inodes == g.ipg*g.groups, "s_inodes_count = s_inodes_per_group * group count (group count from the block count)")
	vp.Assert(g.blocks*g.bs <= len(img), "filesystem not larger than the device")
	if g.inodes != g.ipg*g.groups || g.blocks*g.bs > len(img) {
		return
	}
	c05CheckCounts(&g)
	c05CheckBitmapCsums(&g, seed)

	itb := (g.ipg*g.inodeSize + g.bs - 1) / g.bs
	gdtBlocks := (g.groups*g.descSize + g.bs - 1) / g.bs
	owner := make([]byte, g.blocks)
	claim := func(b, by int) {
		vp.Assert(b >= g.fdb && b < g.blocks, "block inside the filesystem")
		if b >= g.fdb && b < g.blocks {
			vp.Assert(owner[b] == 0, "block claimed once (not shared with metadata or another inode)")
			owner[b] = byte(by)
		}
	}
	for i := 0; i < g.groups; i++ {
		gs := g.fdb + i*g.bpg
		if c05HasBackup(i) {
			for k := 0; k < 1+gdtBlocks+g.resvGDT; k++ {
				claim(gs+k, 1)
			}
		}
		claim(g.blockBitmapLoc(i), 1)
		claim(g.inodeBitmapLoc(i), 1)
		for k := 0; k < itb; k++ {
			claim(g.inodeTableLoc(i)+k, 1)
		}
	}
	// pass 1
	refs := make([]int, g.inodes+1)
	isDir := make([]bool, g.inodes+1)
	links := make([]int, g.inodes+1)
	dirsInGroup := make([]int, g.groups)
	trees := make([]c05xTree, g.inodes+1)
	var dirs []int
	for ino := 1; ino <= g.inodes; ino++ {
		in := g.readInode(ino)
		grp := (ino - 1) / g.ipg
		bit := c05Bit(img, g.inodeBitmapLoc(grp)*g.bs, (ino-1)%g.ipg)
		inUse := in.links > 0
		if ino < 11 {
			vp.Assert(bit, "reserved inodes are marked in use")
			if ino != 2 || !inUse {
				continue
			}
		} else {
			vp.Assert(bit == inUse, "inode bitmap bit = (link count > 0)")
		}
		if !inUse {
			continue
		}
		links[ino] = in.links
		vp.Assert(in.mode&0xf000 != 0, "an inode in use has a file type")
		vp.Assert(c05le32(in.raw, 0x14) == 0, "an inode in use has no deletion time")
		if g.csum {
			c := c05InodeCsum(in.raw, seed, ino)
			vp.Assert(c05le16(in.raw, 0x7c) == uint64(c&0xffff), "inode checksum low half")
			vp.Assert(c05le16(in.raw, 0x82) == uint64(c>>16), "inode checksum high half")
		}
		if in.isDir {
			isDir[ino] = true
			dirs = append(dirs, ino)
			dirsInGroup[grp]++
		}
		if !in.usesExt {
			continue // fast symlinks etc.: no blocks
		}
		t := c05xInodeTree(&g, ino)
		trees[ino] = t
		total, next := 0, 0
		for k := range t.dataStart {
			vp.Assert(t.dataFile[k] >= next, "extents sorted by file block, not overlapping")
			next = t.dataFile[k] + t.dataLen[k]
			for j := 0; j < t.dataLen[k]; j++ {
				claim(t.dataStart[k]+j, 2)
			}
			total += t.dataLen[k]
		}
		for _, nb := range t.nodes {
			claim(nb, 2)
		}
		vp.Assert(in.iblocks == (total+len(t.nodes))*(g.bs/512), "i_blocks = data blocks + extent tree blocks, in 512-byte units")
		if in.isDir {
			vp.Assert(in.size == next*g.bs, "directory size = its blocks")
			vp.Assert(total == next, "directory has no holes")
		} else {
			vp.Assert(in.size <= next*g.bs || len(t.dataStart) == 0, "file size within its extents")
		}
	}
	// pass 5
	for i := 0; i < g.groups; i++ {
		off := g.blockBitmapLoc(i) * g.bs
		leaked, unmarked := 0, 0
		for k := 0; k < g.blocksInGroup(i); k++ {
			set, owned := c05Bit(img, off, k), owner[g.fdb+i*g.bpg+k] != 0
			if set && !owned {
				leaked++
			}
			if !set && owned {
				unmarked++
			}
		}
		vp.Assert(unmarked == 0, "every block of metadata or of an inode in use is marked in the block bitmap")
		vp.Assert(leaked == 0, "every block marked in the block bitmap belongs to metadata or to an inode in use")
		vp.Assert(int(g.usedDirsGD(i)) == dirsInGroup[i], "descriptor directory count = directories whose inode lies in the group")
	}
	// pass 2
	for _, d := range dirs {
		in := g.readInode(d)
		t := trees[d]
		first := true
		for k := range t.dataStart {
			for j := 0; j < t.dataLen[k] && j < 64; j++ {
				st := t.dataStart[k] + j
				if st < g.fdb || st >= g.blocks {
					continue
				}
				blk := img[st*g.bs : (st+1)*g.bs]
				limit := g.bs
				if g.csum {
					limit -= 12
					tl := blk[limit:]
					vp.Assert(c05le32(tl, 0) == 0 && c05le16(tl, 4) == 12 && tl[6] == 0 && tl[7] == 0xde, "directory block checksum tail")
					gen := in.raw[0x64:0x68]
					nb := []byte{byte(d), byte(d >> 8), byte(d >> 16), byte(d >> 24)}
					c := crc.CRC32c(crc.CRC32c(crc.CRC32c(seed, nb), gen), blk[:limit])
					vp.Assert(c05le32(tl, 8) == uint64(c), "directory block checksum")
				}
				pos, idx := 0, 0
				for pos < limit {
					eino := int(c05le32(blk, pos))
					rec := int(c05le16(blk, pos+4))
					nl := int(blk[pos+6])
					vp.Assert(rec >= 12 && rec%4 == 0 && rec >= (8+nl+3)/4*4 && pos+rec <= limit, "directory entry rec_len valid")
					if rec < 12 || pos+rec > limit {
						break
					}
					vp.Assert(eino <= g.inodes, "directory entry inode number within range")
					if first && idx == 0 {
						vp.Assert(nl == 1 && blk[pos+8] == '.' && eino == d, "first entry is '.' -> the directory itself")
					}
					if first && idx == 1 {
						vp.Assert(nl == 2 && blk[pos+8] == '.' && blk[pos+9] == '.', "second entry is '..'")
					}
					if eino != 0 && eino <= g.inodes {
						vp.Assert(links[eino] > 0, "directory entry points to an inode in use")
						refs[eino]++
						if !(first && idx < 2) {
							ft := int(blk[pos+7])
							vp.Assert((ft == 2) == isDir[eino], "directory entry file type matches the inode")
						}
					}
					pos += rec
					idx++
				}
				vp.Assert(pos == limit, "directory entries fill the block exactly")
				if first && d == 2 && wantRootEntries >= 0 {
					vp.Assert(idx == 2+wantRootEntries, "root directory holds the expected entries")
				}
				first = false
			}
		}
	}
	// pass 4
	for ino := 2; ino <= g.inodes; ino++ {
		if links[ino] == 0 || (ino < 11 && ino != 2) {
			continue
		}
		vp.Assert(links[ino] == refs[ino], "link count = number of directory entries referring to the inode")
	}
}

// c05xSetBits: number of blocks marked in use in the block bitmaps of the image (image bytes).
func c05xSetBits(img []byte) uint64 {
	g := c05ReadGeo(img)
	var n uint64
	for i := 0; i < g.groups; i++ {
		nb := g.blocksInGroup(i)
		n += uint64(nb) - c05ZeroBits(img, g.blockBitmapLoc(i)*g.bs, 0, nb)
	}
	return n
}

// c05xBlockBit: the bitmap bit of filesystem block b (group (b-fdb)/bpg, bit (b-fdb)%bpg).
func c05xBlockBit(img []byte, b int) bool {
	g := c05ReadGeo(img)
	grp, k := (b-g.fdb)/g.bpg, (b-g.fdb)%g.bpg
	return c05Bit(img, g.blockBitmapLoc(grp)*g.bs, k)
}

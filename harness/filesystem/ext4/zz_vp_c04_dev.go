package ext4

import (
	"fmt"
	"io"
	"io/fs"
	"os"
	"time"

	"github.com/diskfs/go-diskfs/backend"
	"github.com/diskfs/go-diskfs/internal/vp"
	"github.com/google/uuid"
)

// c04Dev is the in-memory backend.Storage of the C04 scenario harnesses.
// Content = 1 KiB chunks allocated on first write (zero otherwise), overlaid by a log of the
// writes whose offset is symbolic (file data written at a symbolic file offset). Once the log is
// non-empty every later write is logged too, so the order of writes is preserved.
// Reads must start at a concrete offset (the harnesses read files back from offset 0).
type c04Dev struct {
	size   int64
	chunks map[int64][]byte
	log    []c04Rec
	pos    int64
	writes int
	// window (byte offsets) inside which writes at symbolic offsets may land; the log is only
	// consulted for reads inside it
	winLo, winHi int64
	// symCap: upper bound of the length of a write whose length is symbolic (= the vp.AllocCap
	// in force when the library allocates the buffer it passes to WriteAt)
	symCap int
}

type c04Rec struct {
	off  int64
	n    int // valid length (may be symbolic)
	data []byte
}

const c04Chunk = 1024

func c04NewDev(size int64) *c04Dev { return &c04Dev{size: size, chunks: map[int64][]byte{}} }

func (d *c04Dev) baseAt(o int64) byte {
	c := d.chunks[o/c04Chunk]
	if c == nil {
		return 0
	}
	return c[o%c04Chunk]
}

func (d *c04Dev) setBase(o int64, v byte) {
	k := o / c04Chunk
	c := d.chunks[k]
	if c == nil {
		c = make([]byte, c04Chunk)
		d.chunks[k] = c
	}
	c[o%c04Chunk] = v
}

// byteAt: content at concrete offset o.
func (d *c04Dev) byteAt(o int64) byte {
	v := d.baseAt(o)
	if o < d.winLo || o >= d.winHi {
		return v
	}
	for i := range d.log {
		r := &d.log[i]
		idx := o - r.off
		in := uint64(idx) < uint64(r.n)
		v = vp.IteU8(in, r.data[idx&int64(len(r.data)-1)], v) // len(r.data) is a power of two
	}
	return v
}

// c04NP: whether the harness is inside a NoPanic region (the device's own index arithmetic is
// not code under test: it runs with panic checking off and restores the region afterwards).
var c04NP bool

func c04NoPanic()    { c04NP = true; vp.NoPanic() }
func c04AllowPanic() { c04NP = false; vp.AllowPanic() }

func (d *c04Dev) ReadAt(p []byte, off int64) (int, error) {
	vp.AllowPanic()
	n, err := d.readAt(p, off)
	if c04NP {
		vp.NoPanic()
	}
	return n, err
}

func (d *c04Dev) WriteAt(p []byte, off int64) (int, error) {
	vp.AllowPanic()
	n, err := d.writeAt(p, off)
	if c04NP {
		vp.NoPanic()
	}
	return n, err
}

func (d *c04Dev) readAt(p []byte, off int64) (int, error) {
	if off < 0 {
		return 0, fmt.Errorf("c04Dev: negative offset")
	}
	if !vp.IsConst(off) {
		vp.Assert(false, "harness limit: device read at a symbolic offset")
	}
	// the harness never reads past the end of the device
	n := len(p)
	if off+int64(n) > d.size {
		return 0, io.EOF
	}
	if (len(d.log) == 0 || off+int64(n) <= d.winLo || off >= d.winHi) && vp.IsConst(int64(n)) {
		// fast path: chunk-wise copy
		done := 0
		for done < n {
			o := off + int64(done)
			c := d.chunks[o/c04Chunk]
			in := int(o % c04Chunk)
			l := c04Chunk - in
			if l > n-done {
				l = n - done
			}
			if c == nil {
				for i := 0; i < l; i++ {
					p[done+i] = 0
				}
			} else {
				copy(p[done:done+l], c[in:in+l])
			}
			done += l
		}
		return n, nil
	}
	vp.FillFunc(p, func(i int) byte { return d.byteAt(off + int64(i)) })
	return n, nil
}

func (d *c04Dev) writeAt(p []byte, off int64) (int, error) {
	d.writes++
	if off < 0 {
		return 0, fmt.Errorf("c04Dev: negative offset")
	}
	n := len(p)
	if off+int64(n) > d.size {
		return 0, fmt.Errorf("c04Dev: write past end of device")
	}
	if !vp.IsConst(off) {
		// file data at a symbolic file offset: it must land inside the window the harness declared
		// (the blocks that can belong to the file)
		vp.Assert(off >= d.winLo, "data written at a symbolic offset lands inside the file's blocks (low)")
		vp.Assert(off+int64(n) <= d.winHi, "data written at a symbolic offset lands inside the file's blocks (high)")
	}
	reach := int64(n)
	if !vp.IsConst(reach) {
		reach = int64(d.symCap)
	}
	if vp.IsConst(off) && (len(d.log) == 0 || off+reach <= d.winLo || off >= d.winHi) {
		if vp.IsConst(int64(n)) {
			done := 0
			for done < n {
				o := off + int64(done)
				k := o / c04Chunk
				c := d.chunks[k]
				if c == nil {
					c = make([]byte, c04Chunk)
					d.chunks[k] = c
				}
				in := int(o % c04Chunk)
				l := c04Chunk - in
				if l > n-done {
					l = n - done
				}
				copy(c[in:in+l], p[done:done+l])
				done += l
			}
			return n, nil
		}
		// concrete offset, symbolic length (<= symCap): guarded byte-wise store
		tmp := make([]byte, d.symCap)
		copy(tmp, p)
		for i := 0; i < d.symCap; i++ {
			o := off + int64(i)
			if o >= d.size {
				break
			}
			d.setBase(o, vp.IteU8(i < n, tmp[i], d.baseAt(o)))
		}
		return n, nil
	}
	k := n
	if !vp.IsConst(int64(n)) {
		k = d.symCap
	}
	p2 := 1
	for p2 < k {
		p2 *= 2
	}
	cp := make([]byte, p2)
	copy(cp, p)
	d.log = append(d.log, c04Rec{off: off, n: n, data: cp})
	return n, nil
}

func (d *c04Dev) Read(p []byte) (int, error) {
	n, err := d.ReadAt(p, d.pos)
	d.pos += int64(n)
	return n, err
}

func (d *c04Dev) Seek(offset int64, whence int) (int64, error) {
	switch whence {
	case io.SeekStart:
		d.pos = offset
	case io.SeekCurrent:
		d.pos += offset
	case io.SeekEnd:
		d.pos = d.size + offset
	}
	return d.pos, nil
}
func (d *c04Dev) Close() error                            { return nil }
func (d *c04Dev) Stat() (fs.FileInfo, error)              { return c04Info{d}, nil }
func (d *c04Dev) Sys() (*os.File, error)                  { return nil, fmt.Errorf("c04Dev: no os.File") }
func (d *c04Dev) Writable() (backend.WritableFile, error) { return d, nil }
func (d *c04Dev) Path() string                            { return "" }

type c04Info struct{ d *c04Dev }

func (i c04Info) Name() string       { return "c04" }
func (i c04Info) Size() int64        { return i.d.size }
func (i c04Info) Mode() fs.FileMode  { return 0o644 }
func (i c04Info) ModTime() time.Time { return time.Time{} }
func (i c04Info) IsDir() bool        { return false }
func (i c04Info) Sys() interface{}   { return nil }

var c04UUID = uuid.UUID{1, 2, 3, 4, 5, 6, 7, 8, 9, 10, 11, 12, 13, 14, 15, 16}

// c04Cfg is one fixture configuration (structure is case-split, see the VP_ functions).
type c04Cfg struct {
	spb   uint8 // sectors per block: 2 = 1 KiB, 8 = 4 KiB
	csum  bool  // metadata_csum
	start int64 // byte offset of the filesystem on the device
}

func (c c04Cfg) bs() int { return int(c.spb) * 512 }

// c04Fixture: a fresh volume made by the current tree's ext4.Create: 2 block groups of 256
// blocks, no journal, no resize inode.
func c04Fixture(c c04Cfg) (*FileSystem, *c04Dev, int64) {
	size := int64(2*256) * int64(c.bs())
	dev := c04NewDev(c.start + size)
	u := c04UUID
	feats := []FeatureOpt{WithFeatureHasJournal(false), WithFeatureReservedGDTBlocksForExpansion(false)}
	if c.csum {
		feats = append(feats, WithFeatureMetadataChecksums(true))
	}
	fsys, err := Create(dev, size, c.start, 512, &Params{UUID: &u, SectorsPerBlock: c.spb, BlocksPerGroup: 256, Features: feats})
	vp.Assume(err == nil)
	return fsys, dev, size
}

// c04ReadAll reads a file from offset 0 with at most 3 Read calls into a buffer of max bytes.
func c04ReadAll(f io.Reader, max int) ([]byte, int, error) {
	buf := make([]byte, max)
	total := 0
	for k := 0; k < 3; k++ {
		n, err := f.Read(buf[total:])
		total += n
		if err == io.EOF {
			return buf, total, nil
		}
		if err != nil {
			return buf, total, err
		}
		if total >= max {
			break
		}
	}
	return buf, total, nil
}

package ext4

import (
	"io"

	"github.com/diskfs/go-diskfs/internal/vp"
	"github.com/diskfs/go-diskfs/internal/vp/vpdev"
)

// c20FileRead: ONE File.Read call on a file mapped by nExt (1 or 2) initialised extents with arbitrary
// logical start, length and physical start (sorted, disjoint - what a valid extent tree yields), an
// arbitrary size and an arbitrary current offset, on a device with arbitrary contents.
// Reference (ext4 layout doc + io.Reader contract): byte at file position p is the device byte at
// ee_start*bs + (p - ee_block*bs) if p lies in an extent, and 0 otherwise (hole). Read may return fewer
// bytes than asked but every byte it returns must be that byte, it must advance, and it must not fail
// on a well-formed file.
func c20FileRead(bs uint32, nExt int) {
	L := vp.Bound("readlen", 5, 12)
	dev := vpdev.NewMemDev("disk", -1)
	dev.UF = true
	dev.NoWrites = true
	fs := &FileSystem{superblock: &superblock{blockSize: bs}, backend: dev}
	B := int64(bs)

	fb0, c0, s0 := vp.U32("ee_block0"), vp.U16("ee_len0"), vp.U64("ee_start0")
	fb1, c1, s1 := vp.U32("ee_block1"), vp.U16("ee_len1"), vp.U64("ee_start1")
	vp.Assume(c0 >= 1)
	vp.Assume(c0 <= 32768) // initialised extent
	vp.Assume(s0 < 1<<40)
	vp.Assume(fb0 < 1<<30)
	exts := extents{{fileBlock: fb0, count: c0, startingBlock: s0}}
	lo0, hi0 := int64(fb0)*B, (int64(fb0)+int64(c0))*B
	lo1, hi1 := int64(0), int64(0)
	if nExt == 2 {
		vp.Assume(c1 >= 1)
		vp.Assume(c1 <= 32768)
		vp.Assume(s1 < 1<<40)
		vp.Assume(fb1 < 1<<30)
		vp.Assume(uint64(fb0)+uint64(c0) <= uint64(fb1)) // sorted, disjoint
		exts = append(exts, extent{fileBlock: fb1, count: c1, startingBlock: s1})
		lo1, hi1 = int64(fb1)*B, (int64(fb1)+int64(c1))*B
	}
	size := vp.U64("size")
	vp.Assume(size < 1<<44)
	off := vp.I64("offset")
	vp.Assume(off >= 0)
	vp.Assume(off < 1<<44)
	if nExt == 2 && !vp.Thorough() {
		// quick tier: the two-extent walk (hole, extent, hole, extent within one Read) is decided on
		// small magnitudes; the full-width arithmetic is covered by the one-extent variants
		vp.Assume(fb1 < 1<<10)
		vp.Assume(s0 < 1<<16)
		vp.Assume(s1 < 1<<16)
		vp.Assume(size < 1<<16)
		vp.Assume(off < 1<<16)
	}

	fl := &File{inode: &inode{size: size}, offset: off, filesystem: fs, extents: exts, fileType: dirFileTypeRegular}
	p := make([]byte, L)
	for i := range p {
		p[i] = 0xEE // stale buffer content must not be reported as file data
	}
	want := int64(L)
	if off+want > int64(size) {
		want = int64(size) - off
	}
	if want < 0 {
		want = 0
	}
	vp.AllocCap(L + 2)
	vp.Unwind(4)
	vp.NoPanic()
	n, err := fl.Read(p)
	vp.AllowPanic()

	vp.Assert(n >= 0, "n >= 0")
	vp.Assert(int64(n) <= want, "never more than asked for / than the file holds")
	if err != nil {
		vp.Assert(err == io.EOF, "reading a well-formed file fails only with io.EOF")
	}
	if err == io.EOF {
		vp.Assert(off+int64(n) >= int64(size), "io.EOF only at the end of the file")
	}
	vp.Assert(fl.offset == off+int64(n), "the offset advances by the bytes returned")
	if want > 0 {
		// weakest progress demand: something is delivered, or an error ends the stream
		if err == nil {
			vp.Assert(n > 0, "Read makes progress (0, nil forever would hang io.ReadAll)")
		}
	}
	allEq := 1
	for i := 0; i < L; i++ {
		pos := off + int64(i)
		in0 := uint64(pos-lo0) < uint64(hi0-lo0)
		exp := vp.IteU8(in0, dev.ByteAt(int64(s0)*B+(pos-lo0)), 0)
		if nExt == 2 {
			in1 := uint64(pos-lo1) < uint64(hi1-lo1)
			exp = vp.IteU8(in0, exp, vp.IteU8(in1, dev.ByteAt(int64(s1)*B+(pos-lo1)), 0))
		}
		allEq &= c20b2i(i >= n) | c20b2i(p[i] == exp)
	}
	vp.Assert(allEq == 1, "every returned byte = device byte of the mapping extent, 0 in a hole")
	if n > 0 {
		vp.Cover("bytes returned")
	}
	if err == io.EOF {
		vp.Cover("EOF reported")
	}
}

func VP_C20_fileread_tiny_2ext() { c20FileRead(4, 2) }
func VP_C20_fileread_1k_1ext()   { c20FileRead(1024, 1) }
func VP_C20_fileread_tiny_1ext() { c20ThoroughOnly(func() { c20FileRead(4, 1) }) }
func VP_C20_fileread_1k_2ext()   { c20ThoroughOnly(func() { c20FileRead(1024, 2) }) }
func VP_C20_fileread_4k_2ext()   { c20ThoroughOnly(func() { c20FileRead(4096, 2) }) }
func VP_C20_fileread_2k_1ext()   { c20ThoroughOnly(func() { c20FileRead(2048, 1) }) }

// c20ThoroughOnly runs f in the thorough tier only.
func c20ThoroughOnly(f func()) {
	if vp.Thorough() {
		f()
	} else {
		vp.Cover("thorough tier only")
	}
}

// VP_C20_fileread_unwritten: an unwritten (uninitialised) extent - ee_len > 32768, real length
// ee_len-32768, as debugfs "fallocate" or the kernel create them - holds no file data: its range reads
// as zeros (or the read is refused), never as the stale content of the disk blocks.
func VP_C20_fileread_unwritten() {
	const bs = 1024
	const L = 4
	dev := vpdev.NewMemDev("disk", -1)
	dev.UF = true
	dev.NoWrites = true
	fs := &FileSystem{superblock: &superblock{blockSize: bs}, backend: dev}
	c0, s0 := vp.U16("ee_len0"), vp.U64("ee_start0")
	vp.Assume(c0 > 32768)
	vp.Assume(s0 < 1<<40)
	realBytes := uint64(c0-32768) * bs
	size := vp.U64("size")
	vp.Assume(size <= realBytes)
	off := vp.I64("offset")
	vp.Assume(off >= 0)
	vp.Assume(uint64(off) < size)
	fl := &File{inode: &inode{size: size}, offset: off, filesystem: fs,
		extents: extents{{fileBlock: 0, count: c0, startingBlock: s0}}, fileType: dirFileTypeRegular}
	p := make([]byte, L)
	vp.AllocCap(L + 2)
	vp.Unwind(4)
	n, err := fl.Read(p)
	if err == nil || err == io.EOF {
		zero := 1
		for i := 0; i < L; i++ {
			zero &= c20b2i(i >= n) | c20b2i(p[i] == 0)
		}
		vp.Assert(zero == 1, "bytes of an unwritten extent read as zeros")
		vp.Cover("read over an unwritten extent returned data")
	} else {
		vp.Cover("read over an unwritten extent refused")
	}
}

package ext4

import (
	"encoding/binary"
	"io"
	"runtime"

	"github.com/diskfs/go-diskfs/internal/vp"
	"github.com/diskfs/go-diskfs/internal/vp/vpdev"
)

// c18Slack: allocations up to twice the image size plus this constant count as "in proportion
// to the image" (the readers legitimately use fixed buffers of a few KiB).
const c18Slack = 64 << 10

// c18Dev is an image whose every byte is arbitrary. Symbolically it is a vpdev.MemDev with
// uninterpreted content; natively the content is materialised once so that reads do not allocate
// (the native run measures the heap to confirm allocation counterexamples).
type c18Dev struct {
	vpdev.MemDev
	img []byte
}

func c18NewDev(name string, size int64) *c18Dev {
	d := &c18Dev{}
	d.Name, d.Size, d.UF, d.NoWrites = name, size, true, true
	if !vp.Symbolic() {
		d.img = make([]byte, size)
		for i := range d.img {
			d.img[i] = vp.UFByte(name, int64(i))
		}
	}
	return d
}

func (d *c18Dev) ReadAt(p []byte, off int64) (int, error) {
	if vp.Symbolic() {
		return d.MemDev.ReadAt(p, off)
	}
	if off < 0 || off >= d.Size {
		return 0, io.EOF
	}
	n := copy(p, d.img[off:])
	if n < len(p) {
		return n, io.EOF
	}
	return n, nil
}

// c18AllocBegin/End: the native counterpart of vp.AllocLimit (which only the engine checks):
// more than limit bytes allocated between the two calls is a panic of the NoPanic region.
func c18AllocBegin() uint64 {
	if vp.Symbolic() {
		return 0
	}
	var m runtime.MemStats
	runtime.ReadMemStats(&m)
	return m.TotalAlloc
}

func c18AllocEnd(t0, limit uint64) {
	if vp.Symbolic() {
		return
	}
	var m runtime.MemStats
	runtime.ReadMemStats(&m)
	if m.TotalAlloc-t0 > limit {
		panic("allocation out of proportion to the image size")
	}
}

// VP_C18_ext4_superblock: superblockFromBytes on 1024 arbitrary bytes.
func VP_C18_ext4_superblock() {
	b := vp.Bytes("sb", 1024)
	vp.Unwind(70)
	vp.NoPanic()
	sb, err := superblockFromBytes(b)
	vp.AllowPanic()
	if err == nil {
		vp.Assert(sb != nil, "superblock returned")
		vp.Assert(sb.inodeSize == binary.LittleEndian.Uint16(b[0x58:]), "inode size decoded from 0x58")
		vp.Assert(sb.blocksPerGroup == binary.LittleEndian.Uint32(b[0x20:]), "blocks per group decoded from 0x20")
		vp.Assert(sb.inodesPerGroup == binary.LittleEndian.Uint32(b[0x28:]), "inodes per group decoded from 0x28")
		vp.Cover("arbitrary bytes accepted as superblock")
	} else {
		vp.Cover("arbitrary bytes rejected")
	}
}

// put overlays data (concrete and/or arbitrary bytes) on the image.
func (d *c18Dev) put(off int64, data []byte) {
	d.Log = append(d.Log, vpdev.WRec{Off: off, Len: len(data), Data: data})
	if !vp.Symbolic() {
		copy(d.img[off:], data)
	}
}

// c18Read: the size computations of ext4.Read. The superblock is well-formed (magic, checksum type,
// no metadata checksums, zero times/UUIDs) with ARBITRARY geometry: block count, blocks per group,
// inodes per group, inode size, first data block; log block size and (64-bit variant) descriptor size
// are case-split. The rest of the image is arbitrary. (superblockFromBytes on fully arbitrary bytes is
// VP_C18_ext4_superblock.)
func c18Read(size int64, logBlock uint32, is64 bool, descSize uint16) {
	dev := c18NewDev("img", size)
	sb := make([]byte, 1024)
	binary.LittleEndian.PutUint16(sb[0x38:], 0xef53)
	sb[0x175] = 1
	binary.LittleEndian.PutUint32(sb[0x0:], vp.U32("inodeCount"))
	binary.LittleEndian.PutUint32(sb[0x4:], vp.U32("blockCountLo"))
	binary.LittleEndian.PutUint32(sb[0x14:], vp.U32("firstDataBlock"))
	binary.LittleEndian.PutUint32(sb[0x18:], logBlock)
	binary.LittleEndian.PutUint32(sb[0x20:], vp.U32("blocksPerGroup"))
	binary.LittleEndian.PutUint32(sb[0x28:], vp.U32("inodesPerGroup"))
	binary.LittleEndian.PutUint16(sb[0x58:], vp.U16("inodeSize"))
	if is64 {
		binary.LittleEndian.PutUint32(sb[0x60:], 0x80|0x40|0x2) // 64bit, extents, filetype
		binary.LittleEndian.PutUint32(sb[0x150:], vp.U32("blockCountHi"))
		binary.LittleEndian.PutUint16(sb[0xfe:], descSize)
	} else {
		binary.LittleEndian.PutUint32(sb[0x60:], 0x40|0x2)
	}
	dev.put(1024, sb)
	limit := uint64(2*size + c18Slack)
	vp.Unwind(70)
	vp.AllocCap(vp.Bound("alloccap", 130, 200))
	vp.AllocLimit(limit)
	if is64 {
		if descSize < 32 {
			// KF-C18-9: 64-bit feature with a descriptor size below 32: the descriptor parser reads 32 bytes anyway
			vp.KnownPanic("KF-C18-9", "ext4.groupDescriptorFromBytes) | slice bounds out of range")
		}
	}
	vp.NoPanic()
	t0 := c18AllocBegin()
	fs, err := Read(dev, size, 0, 512)
	c18AllocEnd(t0, limit)
	vp.AllowPanic()
	if err == nil {
		vp.Assert(fs != nil, "filesystem returned")
		vp.Assert(fs.superblock.blocksPerGroup != 0, "accepted superblock has blocks per group")
		vp.Assert(len(fs.groupDescriptors.descriptors) >= 1, "at least one group descriptor")
		vp.Cover("image accepted as ext4")
	} else {
		vp.Cover("image rejected")
	}
}

func VP_C18_ext4_read_1k_32()     { c18Read(8192, 0, false, 0) }
func VP_C18_ext4_read_1k_64_d64() { c18Read(8192, 0, true, 64) }
func VP_C18_ext4_read_1k_64_d16() { c18Read(8192, 0, true, 16) }
func VP_C18_ext4_read_4k_64_d32() { c18Read(16384, 2, true, 32) }
func VP_C18_ext4_read_1k_64_d0()  { c18Read(8192, 0, true, 0) }

// c18Gdt: groupDescriptorsFromBytes as Read calls it: count descriptors of an arbitrary size gdSize,
// in a buffer of exactly gdSize*count bytes.
func c18Gdt(count int, ct gdtChecksumType) {
	gdSize := vp.U16("gdSize")
	vp.Assume(gdSize <= 70)
	all := vp.Bytes("gdt", 70*count)
	n := int(gdSize) * count
	b := all[:n:n]
	vp.Unwind(count + 3)
	if gdSize < 32 {
		vp.KnownPanic("KF-C18-9", "ext4.groupDescriptorFromBytes) | slice bounds out of range")
	}
	vp.NoPanic()
	gds, err := groupDescriptorsFromBytes(b, gdSize, vp.U32("seed"), ct)
	vp.AllowPanic()
	if err == nil {
		vp.Assert(len(gds.descriptors) == count, "one descriptor per gdSize bytes")
		vp.Assert(gds.descriptors[0].inodeTableLocation&0xFFFFFFFF == uint64(binary.LittleEndian.Uint32(all[8:])), "inode table location (low half) decoded from offset 8")
		vp.Cover("descriptors accepted")
	} else {
		vp.Cover("descriptors rejected")
	}
}

func VP_C18_ext4_gdt_1_none()  { c18Gdt(1, gdtChecksumNone) }
func VP_C18_ext4_gdt_2_none()  { c18Gdt(2, gdtChecksumNone) }
func VP_C18_ext4_gdt_2_crc16() { c18Gdt(2, gdtChecksumGdt) }
func VP_C18_ext4_gdt_2_meta()  { c18Gdt(2, gdtChecksumMetadata) }

// VP_C18_ext4_inode: inodeFromBytes as readInodeRaw calls it: a buffer of exactly inodeSize bytes.
func VP_C18_ext4_inode() {
	n := int(vp.U16("inodeSize"))
	vp.Assume(n <= 300)
	all := vp.Bytes("inode", 300)
	b := all[:n:n]
	sb := &superblock{inodeSize: uint16(n), blockSize: 1024, checksumSeed: vp.U32("seed")}
	sb.features.hugeFile = vp.Bool("hugeFile")
	vp.Unwind(20)
	if n >= 128 {
		if n < 256 {
			// KF-C18-10: inode sizes 128..255 (128 is a regular mke2fs choice): fields up to 0x100 are read unconditionally
			vp.KnownPanic("KF-C18-10", "ext4.inodeFromBytes) | slice bounds out of range")
		}
	}
	ents := binary.LittleEndian.Uint16(all[0x28+2:])
	if ents > 4 {
		// KF-C18-11: extent header in the inode announcing more than the 4 entries that fit in 60 bytes
		vp.KnownPanic("KF-C18-11", "ext4.parseExtents) | slice bounds out of range")
	}
	vp.NoPanic()
	in, err := inodeFromBytes(b, sb, 2)
	vp.AllowPanic()
	if err == nil {
		vp.Assert(in != nil, "inode returned")
		vp.Assert(in.size&0xFFFFFFFF == uint64(binary.LittleEndian.Uint32(all[4:])), "size (low half) decoded from offset 4")
		vp.Cover("inode accepted")
	} else {
		vp.Cover("inode rejected")
	}
}

// c18Extents: parseExtents on n arbitrary bytes (60 = the inode's i_block area, 64 = a tiny block).
func c18Extents(n int) {
	b := vp.Bytes("node", n)
	ents := int(binary.LittleEndian.Uint16(b[2:]))
	vp.Unwind(n/12 + 3)
	vp.MaxLoop(n / 12)
	if 12+12*ents > n {
		// KF-C18-11: more entries announced than fit in the node
		vp.KnownPanic("KF-C18-11", "ext4.parseExtents) | slice bounds out of range")
	}
	vp.NoPanic()
	node, err := parseExtents(b, 1024, vp.U32("start"), vp.U32("count"))
	vp.AllowPanic()
	if err == nil {
		vp.Assert(node != nil, "node returned")
		if leaf, ok := node.(*extentLeafNode); ok {
			vp.Assert(len(leaf.extents) == ents, "one extent per announced entry")
			vp.Cover("leaf node")
		} else {
			vp.Cover("index node")
		}
	} else {
		vp.Cover("node rejected")
	}
}

func VP_C18_ext4_extents_60() { c18Extents(60) }
func VP_C18_ext4_extents_64() { c18Extents(64) }
func VP_C18_ext4_extents_24() { c18Extents(24) }

// c18CountDev counts block reads: an extent tree over an image of NB blocks whose nodes have at
// most one entry each can legitimately read at most NB blocks; one more means a block was entered
// twice on the same path, i.e. the walk follows a cycle and never ends.
type c18CountDev struct {
	vpdev.MemDev
	reads, maxReads int
}

func (d *c18CountDev) ReadAt(p []byte, off int64) (int, error) {
	d.reads++
	// KF-C18-12: a child pointer leading back to a node already on the path (nothing checks that the
	// depth decreases): unbounded recursion
	vp.AssertUnless("KF-C18-12", true, d.reads <= d.maxReads, "extent tree walk reads no more blocks than the image has")
	return d.MemDev.ReadAt(p, off)
}

// VP_C18_ext4_extent_walk: extentInternalNode.blocks over an arbitrary 3-block image (block size 24 =
// header + one entry) from an arbitrary single-entry root.
func VP_C18_ext4_extent_walk() {
	const bs = 24
	nb := vp.Bound("treeblocks", 3, 4)
	dev := &c18CountDev{maxReads: nb}
	dev.Name, dev.Size, dev.UF, dev.NoWrites = "img", int64(nb*bs), true, true
	fs := &FileSystem{superblock: &superblock{blockSize: bs}, backend: dev, size: int64(nb * bs)}
	root := vp.Bytes("root", 60)
	vp.Assume(binary.LittleEndian.Uint16(root[2:]) == 1)
	for k := 0; k < nb; k++ {
		vp.Assume(dev.ByteAt(int64(k*bs+3)) == 0)
		vp.Assume(dev.ByteAt(int64(k*bs+2)) <= 1)
	}
	vp.Unwind(nb + 4)
	vp.NoPanic()
	node, err := parseExtents(root, bs, 0, vp.U32("blocks"))
	if err == nil {
		exts, err2 := node.blocks(fs)
		if err2 == nil {
			vp.Assert(len(exts) <= 1, "a chain of single-entry nodes yields at most one extent")
			vp.Cover("tree walked")
		} else {
			vp.Cover("tree walk failed")
		}
	}
	vp.AllowPanic()
	vp.Cover("done")
}

// c18DirLinear: parseDirEntriesLinear on n arbitrary directory bytes (no checksums).
func c18DirLinear(n int) {
	b := vp.Bytes("dir", n)
	vp.Unwind(n/12 + 4)
	vp.MaxLoop(n/12 + 1)
	// KF-C18-13: rec_len or name_len reaching beyond the end of the directory data are not checked
	vp.KnownPanic("KF-C18-13", "ext4.parseDirEntriesLinear) | slice bounds out of range")
	vp.NoPanic()
	ents, err := parseDirEntriesLinear(b, false, uint32(n), 2, 0, 0)
	vp.AllowPanic()
	if err == nil {
		vp.Assert(len(ents) <= n/12, "no more entries than minimum-size records fit")
		vp.Assert(len(ents) >= 1, "non-empty directory data yields an entry")
		vp.Assert(ents[0].inode == binary.LittleEndian.Uint32(b), "first inode decoded from offset 0")
		vp.Cover("entries parsed")
	} else {
		vp.Cover("entries rejected")
	}
}

func VP_C18_ext4_dir_linear_24() { c18DirLinear(24) }
func VP_C18_ext4_dir_linear_40() { c18DirLinear(40) }

// VP_C18_ext4_dir_linear_wellformed: the same parser on records whose rec_len/name_len stay inside
// the data (the class outside KF-C18-13) must be clean.
func VP_C18_ext4_dir_linear_wellformed() {
	const n = 36
	b := vp.Bytes("dir", n)
	// three 12-byte records
	for k := 0; k < 3; k++ {
		vp.Assume(binary.LittleEndian.Uint16(b[12*k+4:]) == 12)
		vp.Assume(b[12*k+6] <= 4)
	}
	vp.Unwind(8)
	vp.MaxLoop(4)
	vp.NoPanic()
	ents, err := parseDirEntriesLinear(b, false, n, 2, 0, 0)
	vp.AllowPanic()
	vp.Assert(err == nil, "well-formed records are accepted")
	vp.Assert(len(ents) == 3, "three records")
	vp.Assert(len(ents[2].filename) == int(b[24+6]), "name length honoured")
	vp.Cover("done")
}

// VP_C18_ext4_dir_checksummed: with metadata checksums the data is cut into blocks of blocksize bytes;
// the data length comes from the inode's size field and need not be a multiple of the block size.
func VP_C18_ext4_dir_checksummed() {
	const bs = 24
	n := vp.Int("n")
	vp.Assume(n >= 0)
	vp.Assume(n <= 2*bs)
	all := vp.Bytes("dir", 2*bs)
	seed := vp.U32("seed")
	// every block carries the checksum of its own content (computed by the code's own function, so that
	// the comparison succeeds natively as well as under the congruent CRC model)
	// and one well-formed 12-byte record (record lengths are the subject of the harnesses without
	// checksums; behind the checksum stripping the data lives in an append()ed buffer whose spare
	// capacity is a property of the Go runtime, not of the image)
	for k := 0; k < 2; k++ {
		blk := all[k*bs : (k+1)*bs]
		blk[4], blk[5] = 12, 0
		vp.Assume(blk[6] <= 4)
		binary.LittleEndian.PutUint32(blk[bs-4:], directoryChecksummer(seed, 2, 0)(blk[:bs-12]))
	}
	b := all[:n:n]
	vp.Unwind(10)
	if n%bs != 0 {
		// KF-C18-14: directory size not a multiple of the block size
		vp.KnownPanic("KF-C18-14", "ext4.parseDirEntriesLinear) | slice bounds out of range")
	}
	vp.NoPanic()
	_, err := parseDirEntriesLinear(b, true, bs, 2, 0, seed)
	vp.AllowPanic()
	if err == nil {
		vp.Cover("checksummed blocks accepted")
	} else {
		vp.Cover("checksummed blocks rejected")
	}
}

// VP_C18_ext4_dx_root: parseDirectoryTreeRoot on one arbitrary block (64 bytes).
func VP_C18_ext4_dx_root() {
	const n = 64
	b := vp.Bytes("blk", n)
	cnt := int(binary.LittleEndian.Uint16(b[0x22:]))
	vp.Unwind(12)
	vp.AllocCap(16)
	if 0x28+8*(cnt-1) > n {
		// KF-C18-15: dx entry count beyond the block
		vp.KnownPanic("KF-C18-15", "ext4.parseDirectoryTreeRoot) | slice bounds out of range")
	}
	vp.NoPanic()
	root, err := parseDirectoryTreeRoot(b, vp.Bool("largeDir"))
	vp.AllowPanic()
	if err == nil {
		vp.Assert(root.depth <= 3, "depth limited")
		vp.Assert(len(root.childEntries) >= 1, "at least the first child")
		vp.Cover("dx root accepted")
	} else {
		vp.Cover("dx root rejected")
	}
}

// VP_C18_ext4_dx_node: parseDirectoryTreeNode on one arbitrary block (40 bytes).
func VP_C18_ext4_dx_node() {
	const n = 40
	b := vp.Bytes("blk", n)
	cnt := int(binary.LittleEndian.Uint16(b[0xa:]))
	vp.Unwind(12)
	vp.AllocCap(16)
	if 0x10+8*(cnt-1) > n {
		vp.KnownPanic("KF-C18-15", "ext4.parseDirectoryTreeNode) | slice bounds out of range")
	}
	vp.NoPanic()
	node, err := parseDirectoryTreeNode(b)
	vp.AllowPanic()
	if err == nil {
		vp.Assert(len(node.childEntries) >= 1, "at least the first child")
		vp.Cover("dx node accepted")
	} else {
		vp.Cover("dx node rejected")
	}
}

// VP_C18_ext4_dx_walk: parseDirEntriesHashed from a root with one arbitrary child entry over
// directory data of 3 blocks of 24 bytes.
func VP_C18_ext4_dx_walk() {
	const bs = 24
	b := vp.Bytes("dir", 3*bs)
	blk := vp.U32("block")
	root := &directoryHashRoot{depth: 0, childEntries: []directoryHashEntry{{hash: 0, block: blk}}}
	vp.Unwind(8)
	if blk >= 3 {
		// KF-C18-16: dx child block number beyond the directory data
		vp.KnownPanic("KF-C18-16", "ext4.parseDirEntriesHashed) | slice bounds out of range")
	}
	vp.KnownPanic("KF-C18-13", "ext4.parseDirEntriesLinear) | slice bounds out of range")
	vp.NoPanic()
	_, err := parseDirEntriesHashed(b, 0, root, bs, false, 2, 0, 0)
	vp.AllowPanic()
	if err == nil {
		vp.Cover("hashed entries parsed")
	} else {
		vp.Cover("hashed entries rejected")
	}
}

// VP_C18_ext4_xattr: parseXattrEntries on an arbitrary region (entries == values as for in-inode xattrs).
func VP_C18_ext4_xattr() {
	n := vp.Bound("xattrbytes", 40, 72)
	b := vp.Bytes("xattr", n)
	// attribute name indexes select map keys: keep them concrete (1 = "user."); the list then ends
	// by running out of bytes
	for k := 0; k+16 <= n; k += 4 {
		b[k+1] = 1
	}
	vp.Unwind(n/16 + 3)
	vp.MaxLoop(n/16 + 1)
	vp.AllocCap(n)
	vp.AllocLimit(uint64(n))
	vp.NoPanic()
	m, err := parseXattrEntries(b, b)
	vp.AllowPanic()
	if err == nil {
		vp.Assert(len(m) <= n/16, "no more attributes than entries fit")
		vp.Cover("xattrs parsed")
	} else {
		vp.Cover("xattrs rejected")
	}
}

// VP_C18_ext4_read_inode_raw: readInodeRaw for an arbitrary inode number (as found in a directory
// entry) on a filesystem with one block group and arbitrary inodes-per-group.
func VP_C18_ext4_read_inode_raw() {
	dev := vpdev.NewMemDev("img", 64<<10)
	dev.UF, dev.NoWrites = true, true
	ipg := vp.U32("inodesPerGroup")
	num := vp.U32("inode")
	vp.Assume(num != 0)
	sb := &superblock{blockSize: 1024, inodeSize: 256, inodesPerGroup: ipg}
	fs := &FileSystem{superblock: sb, backend: dev, size: 64 << 10,
		groupDescriptors: &groupDescriptors{descriptors: []groupDescriptor{{inodeTableLocation: 5}}}}
	// KF-C18-17: inode number beyond the last block group (index out of range); inodes per group = 0 is
	// refused by Read since f77281d
	vp.Assume(ipg != 0)
	vp.KnownPanic("KF-C18-17", "ext4.FileSystem).readInodeRaw) | index out of range")
	vp.NoPanic()
	b, err := fs.readInodeRaw(num)
	vp.AllowPanic()
	if err == nil {
		vp.Assert(len(b) == 256, "one inode's bytes")
		vp.Cover("inode bytes read")
	} else {
		vp.Cover("inode read failed")
	}
}

// VP_C18_ext4_read_file_bytes: readFileBytes for two arbitrary extents and an arbitrary size field on
// a 64 KiB image: no allocation beyond 2*size+slack.
func c18ReadFileBytes(bs uint32) {
	const size = 64 << 10
	dev := c18NewDev("img", size)
	fs := &FileSystem{superblock: &superblock{blockSize: bs}, backend: dev, size: size}
	exts := extents{
		{fileBlock: 0, startingBlock: vp.U64("e0.start"), count: vp.U16("e0.count")},
		{fileBlock: vp.U32("e1.file"), startingBlock: vp.U64("e1.start"), count: vp.U16("e1.count")},
	}
	fsz := vp.U64("filesize")
	limit := uint64(2*size + c18Slack)
	vp.Unwind(6)
	vp.AllocCap(int(bs) + 8)
	vp.AllocLimit(limit)
	vp.NoPanic()
	t0 := c18AllocBegin()
	b, err := fs.readFileBytes(exts, fsz)
	c18AllocEnd(t0, limit)
	vp.AllowPanic()
	if err == nil {
		vp.Assert(uint64(len(b)) <= fsz, "no more bytes than the size field")
		vp.Cover("file bytes read")
	} else {
		vp.Cover("file bytes failed")
	}
}

func VP_C18_ext4_read_file_bytes_1k() { c18ReadFileBytes(1024) }
func VP_C18_ext4_read_file_bytes_64() { c18ReadFileBytes(64) }

// c18FileRead: File.Read with two arbitrary extents, arbitrary size field and offset.
func c18FileRead(bs uint32, buflen int) {
	dev := &c18NullDev{}
	fs := &FileSystem{superblock: &superblock{blockSize: bs}, backend: dev, size: 1 << 20}
	exts := extents{
		{fileBlock: vp.U32("e0.file"), startingBlock: vp.U64("e0.start"), count: vp.U16("e0.count")},
		{fileBlock: vp.U32("e1.file"), startingBlock: vp.U64("e1.start"), count: vp.U16("e1.count")},
	}
	off := vp.I64("offset")
	vp.Assume(off >= 0)
	fl := &File{inode: &inode{size: vp.U64("size")}, offset: off, filesystem: fs, extents: exts}
	b := make([]byte, buflen)
	vp.Unwind(6)
	vp.AllocCap(buflen)
	vp.NoPanic()
	n, err := fl.Read(b)
	vp.AllowPanic()
	vp.Assert(n >= 0, "count not negative")
	vp.Assert(n <= buflen, "count at most len(b)")
	if err == nil {
		vp.Cover("read without error")
	} else {
		vp.Cover("read with error or EOF")
	}
}

// c18NullDev delivers every read in full without touching the buffer.
type c18NullDev struct{ vpdev.MemDev }

func (d *c18NullDev) ReadAt(p []byte, off int64) (int, error) { return len(p), nil }

func VP_C18_ext4_file_read_1024() { c18FileRead(1024, 100) }

package ext4

import (
	"encoding/binary"
	"io"
	"runtime"

	"github.com/diskfs/go-diskfs/internal/vp"
	"github.com/diskfs/go-diskfs/internal/vp/vpdev"
)

// c18Slack: allocations up to twice the image size plus this constant count as "in proportion
// to the image" (the readers legitimately use fixed buffers of a few KiB).
const c18Slack = 64 << 10

// c18Dev is an image whose every byte is arbitrary. Symbolically it is a vpdev.MemDev with
// uninterpreted content; natively the content is materialised once so that reads do not allocate
// (the native run measures the heap to confirm allocation counterexamples).
type c18Dev struct {
	vpdev.MemDev
	img []byte
}

func c18NewDev(name string, size int64) *c18Dev {
	d := &c18Dev{}
	d.Name, d.Size, d.UF, d.NoWrites = name, size, true, true
	if !vp.Symbolic() {
		d.img = make([]byte, size)
		for i := range d.img {
			d.img[i] = vp.UFByte(name, int64(i))
		}
	}
	return d
}

func (d *c18Dev) ReadAt(p []byte, off int64) (int, error) {
	if vp.Symbolic() {
		return d.MemDev.ReadAt(p, off)
	}
	if off < 0 || off >= d.Size {
		return 0, io.EOF
	}
	n := copy(p, d.img[off:])
	if n < len(p) {
		return n, io.EOF
	}
	return n, nil
}

// c18AllocBegin/End: the native counterpart of vp.AllocLimit (which only the engine checks):
// more than limit bytes allocated between the two calls is a panic of the NoPanic region.
func c18AllocBegin() uint64 {
	if vp.Symbolic() {
		return 0
	}
	var m runtime.MemStats
	runtime.ReadMemStats(&m)
	return m.TotalAlloc
}

func c18AllocEnd(t0, limit uint64) {
	if vp.Symbolic() {
		return
	}
	var m runtime.MemStats
	runtime.ReadMemStats(&m)
	if m.TotalAlloc-t0 > limit {
		panic("allocation out of proportion to the image size")
	}
}

// VP_C18_ext4_superblock: superblockFromBytes on 1024 arbitrary bytes.
func VP_C18_ext4_superblock() {
	b := vp.Bytes("sb", 1024)
	vp.Unwind(70)
	vp.NoPanic()
	sb, err := superblockFromBytes(b)
	vp.AllowPanic()
	if err == nil {
		vp.Assert(sb != nil, "superblock returned")
		vp.Assert(sb.inodeSize == binary.LittleEndian.Uint16(b[0x58:]), "inode size decoded from 0x58")
		vp.Assert(sb.blocksPerGroup == binary.LittleEndian.Uint32(b[0x20:]), "blocks per group decoded from 0x20")
		vp.Assert(sb.inodesPerGroup == binary.LittleEndian.Uint32(b[0x28:]), "inodes per group decoded from 0x28")
		vp.Cover("arbitrary bytes accepted as superblock")
	} else {
		vp.Cover("arbitrary bytes rejected")
	}
}

// c18Read: ext4.Read on an image whose every byte is arbitrary.
func c18Read(size int64) {
	dev := c18NewDev("img", size)
	limit := uint64(2*size + c18Slack)
	vp.Unwind(70)
	vp.AllocCap(vp.Bound("alloccap", 130, 200))
	vp.AllocLimit(limit)
	bpg := uint32(dev.ByteAt(1024+0x20)) | uint32(dev.ByteAt(1024+0x21))<<8 | uint32(dev.ByteAt(1024+0x22))<<16 | uint32(dev.ByteAt(1024+0x23))<<24
	if bpg == 0 {
		// KF-C18-8: blocks per group = 0: division by zero in blockGroupCount
		vp.KnownPanic("KF-C18-8", "superblock).blockGroupCount)")
	}
	gds := uint16(dev.ByteAt(1024+0xfe)) | uint16(dev.ByteAt(1024+0xff))<<8
	if gds < 32 {
		// KF-C18-9: 64-bit feature with a descriptor size below 32: the descriptor parser reads 32 bytes anyway
		vp.KnownPanic("KF-C18-9", "ext4.groupDescriptorFromBytes)")
	}
	vp.NoPanic()
	t0 := c18AllocBegin()
	fs, err := Read(dev, size, 0, 512)
	c18AllocEnd(t0, limit)
	vp.AllowPanic()
	if err == nil {
		vp.Assert(fs != nil, "filesystem returned")
		vp.Assert(fs.superblock.blocksPerGroup != 0, "accepted superblock has blocks per group")
		vp.Cover("arbitrary image accepted as ext4")
	} else {
		vp.Cover("arbitrary image rejected")
	}
}

func VP_C18_ext4_read_4k()  { c18Read(4096) }
func VP_C18_ext4_read_64k() { c18Read(64 << 10) }

// c18Gdt: groupDescriptorsFromBytes as Read calls it: count descriptors of an arbitrary size gdSize,
// in a buffer of exactly gdSize*count bytes.
func c18Gdt(count int, ct gdtChecksumType) {
	gdSize := vp.U16("gdSize")
	vp.Assume(gdSize <= 70)
	all := vp.Bytes("gdt", 70*count)
	n := int(gdSize) * count
	b := all[:n:n]
	vp.Unwind(count + 3)
	if gdSize < 32 {
		vp.KnownPanic("KF-C18-9", "ext4.groupDescriptorFromBytes)")
	}
	vp.NoPanic()
	gds, err := groupDescriptorsFromBytes(b, gdSize, vp.U32("seed"), ct)
	vp.AllowPanic()
	if err == nil {
		vp.Assert(len(gds.descriptors) == count, "one descriptor per gdSize bytes")
		vp.Assert(gds.descriptors[0].inodeTableLocation&0xFFFFFFFF == uint64(binary.LittleEndian.Uint32(all[8:])), "inode table location (low half) decoded from offset 8")
		vp.Cover("descriptors accepted")
	} else {
		vp.Cover("descriptors rejected")
	}
}

func VP_C18_ext4_gdt_1_none()  { c18Gdt(1, gdtChecksumNone) }
func VP_C18_ext4_gdt_2_none()  { c18Gdt(2, gdtChecksumNone) }
func VP_C18_ext4_gdt_2_crc16() { c18Gdt(2, gdtChecksumGdt) }
func VP_C18_ext4_gdt_2_meta()  { c18Gdt(2, gdtChecksumMetadata) }

// VP_C18_ext4_inode: inodeFromBytes as readInodeRaw calls it: a buffer of exactly inodeSize bytes.
func VP_C18_ext4_inode() {
	n := int(vp.U16("inodeSize"))
	vp.Assume(n <= 300)
	all := vp.Bytes("inode", 300)
	b := all[:n:n]
	sb := &superblock{inodeSize: uint16(n), blockSize: 1024, checksumSeed: vp.U32("seed")}
	sb.features.hugeFile = vp.Bool("hugeFile")
	vp.Unwind(20)
	if n >= 128 {
		if n < 256 {
			// KF-C18-10: inode sizes 128..255 (128 is a regular mke2fs choice): fields up to 0x100 are read unconditionally
			vp.KnownPanic("KF-C18-10", "ext4.inodeFromBytes)")
		}
	}
	ents := binary.LittleEndian.Uint16(all[0x28+2:])
	if ents > 4 {
		// KF-C18-11: extent header in the inode announcing more than the 4 entries that fit in 60 bytes
		vp.KnownPanic("KF-C18-11", "ext4.parseExtents)")
	}
	vp.NoPanic()
	in, err := inodeFromBytes(b, sb, 2)
	vp.AllowPanic()
	if err == nil {
		vp.Assert(in != nil, "inode returned")
		vp.Assert(in.size&0xFFFFFFFF == uint64(binary.LittleEndian.Uint32(all[4:])), "size (low half) decoded from offset 4")
		vp.Cover("inode accepted")
	} else {
		vp.Cover("inode rejected")
	}
}

// c18Extents: parseExtents on n arbitrary bytes (60 = the inode's i_block area, 64 = a tiny block).
func c18Extents(n int) {
	b := vp.Bytes("node", n)
	ents := int(binary.LittleEndian.Uint16(b[2:]))
	vp.Unwind(n/12 + 3)
	vp.MaxLoop(n / 12)
	if 12+12*ents > n {
		// KF-C18-11: more entries announced than fit in the node
		vp.KnownPanic("KF-C18-11", "ext4.parseExtents)")
	}
	vp.NoPanic()
	node, err := parseExtents(b, 1024, vp.U32("start"), vp.U32("count"))
	vp.AllowPanic()
	if err == nil {
		vp.Assert(node != nil, "node returned")
		if leaf, ok := node.(*extentLeafNode); ok {
			vp.Assert(len(leaf.extents) == ents, "one extent per announced entry")
			vp.Cover("leaf node")
		} else {
			vp.Cover("index node")
		}
	} else {
		vp.Cover("node rejected")
	}
}

func VP_C18_ext4_extents_60() { c18Extents(60) }
func VP_C18_ext4_extents_64() { c18Extents(64) }
func VP_C18_ext4_extents_24() { c18Extents(24) }

// c18CountDev counts block reads: an extent tree over an image of NB blocks whose nodes have at
// most one entry each can legitimately read at most NB blocks; one more means a block was entered
// twice on the same path, i.e. the walk follows a cycle and never ends.
type c18CountDev struct {
	vpdev.MemDev
	reads, maxReads int
}

func (d *c18CountDev) ReadAt(p []byte, off int64) (int, error) {
	d.reads++
	vp.Assert(d.reads <= d.maxReads, "extent tree walk reads no more blocks than the image has")
	return d.MemDev.ReadAt(p, off)
}

// VP_C18_ext4_extent_walk: extentInternalNode.blocks over an arbitrary 3-block image (block size 24 =
// header + one entry) from an arbitrary single-entry root.
func VP_C18_ext4_extent_walk() {
	const bs = 24
	nb := vp.Bound("treeblocks", 3, 4)
	dev := &c18CountDev{maxReads: nb}
	dev.Name, dev.Size, dev.UF, dev.NoWrites = "img", int64(nb*bs), true, true
	fs := &FileSystem{superblock: &superblock{blockSize: bs}, backend: dev, size: int64(nb * bs)}
	root := vp.Bytes("root", 60)
	vp.Assume(binary.LittleEndian.Uint16(root[2:]) == 1)
	vp.Unwind(nb + 4)
	vp.NoPanic()
	node, err := parseExtents(root, bs, 0, vp.U32("blocks"))
	if err == nil {
		exts, err2 := node.blocks(fs)
		if err2 == nil {
			vp.Assert(len(exts) <= 1, "a chain of single-entry nodes yields at most one extent")
			vp.Cover("tree walked")
		} else {
			vp.Cover("tree walk failed")
		}
	}
	vp.AllowPanic()
	vp.Cover("done")
}

package ext4

import (
	"time"

	"github.com/diskfs/go-diskfs/internal/vp"
	"github.com/diskfs/go-diskfs/internal/vp/vpdev"
)

// C04.inode_location_*: writeInode and readInode agree on the place of EVERY inode number, and the
// place is the one the format prescribes:
//   group  = (n-1) / inodesPerGroup,  slot = (n-1) % inodesPerGroup
//   offset = inodeTable(group) * blockSize + slot * inodeSize
// in particular for the last inode of a group (n = k*inodesPerGroup) and the first of the next.
// Fixture: three groups of 8 inodes, 256-byte inodes, 1 KiB blocks, inode tables at blocks that are
// neither adjacent nor in a regular pattern. The inode number is symbolic over all 24 inodes.

const (
	cilIPG    = 8
	cilGroups = 3
	cilBS     = 1024
	cilISize  = 256
)

var cilTables = [cilGroups]uint64{5, 40, 77}

// cilRefOffset: the reference location, computed without division from the table of all inode
// numbers (group g, slot k <-> number g*ipg + k + 1).
func cilRefOffset(n uint32) int64 {
	var off int64 = -1
	for g := 0; g < cilGroups; g++ {
		for k := 0; k < cilIPG; k++ {
			me := n == uint32(g*cilIPG+k+1)
			off = vp.IteI64(me, int64(cilTables[g])*cilBS+int64(k)*cilISize, off)
		}
	}
	return off
}

func cilFS(dev *vpdev.MemDev) *FileSystem {
	sb := &superblock{inodeSize: cilISize, blockSize: cilBS, inodesPerGroup: cilIPG, inodeCount: cilIPG * cilGroups,
		checksumSeed: vp.U32("csumSeed")}
	sb.features.metadataChecksums = true
	sb.features.extents = true
	gds := make([]groupDescriptor, cilGroups)
	for g := range gds {
		gds[g] = groupDescriptor{number: uint16(g), inodeTableLocation: cilTables[g], size: 64}
	}
	return &FileSystem{superblock: sb, groupDescriptors: &groupDescriptors{descriptors: gds}, blockGroups: cilGroups,
		backend: dev, size: 128 * cilBS}
}

func cilInode(n uint32) *inode {
	t0 := time.Unix(1500000000, 0)
	return &inode{number: n, permissionsOwner: filePermissions{read: true, write: true}, fileType: fileTypeRegularFile,
		owner: vp.U32("uid"), group: vp.U32("gid"), size: uint64(vp.U32("size")), hardLinks: vp.U16("links"),
		inodeSize: minInodeSize + 32, accessTime: t0, changeTime: t0, modifyTime: t0, createTime: t0,
		nfsFileVersion: vp.U32("gen"), flags: &inodeFlags{}}
}

func cilNumber() uint32 {
	n := vp.U32("ino")
	vp.Assume(n >= 1)
	vp.Assume(n <= cilIPG*cilGroups)
	return n
}

func cilCovers(n uint32) {
	if n == cilIPG {
		vp.Cover("last inode of group 0")
	}
	if n == cilIPG+1 {
		vp.Cover("first inode of group 1")
	}
	if n == 2*cilIPG {
		vp.Cover("last inode of group 1")
	}
	if n == cilIPG*cilGroups {
		vp.Cover("last inode of the filesystem")
	}
	if n == 1 {
		vp.Cover("inode 1")
	}
}

// VP_C04_inode_location_write: writeInode(n) issues exactly one WriteAt of one inode at the reference
// offset; the bytes written there carry the inode's recognisable fields.
func VP_C04_inode_location_write() {
	dev := vpdev.NewMemDev("disk", 128*cilBS)
	fs := cilFS(dev)
	n := cilNumber()
	in := cilInode(n)
	vp.NoPanic()
	err := fs.writeInode(in)
	vp.AllowPanic()
	vp.Assert(err == nil, "writing an inode of the filesystem succeeds")
	if err != nil {
		return
	}
	vp.Assert(len(dev.Log) == 1, "one write per inode")
	if len(dev.Log) != 1 {
		return
	}
	w := dev.Log[0]
	want := cilRefOffset(n)
	vp.Assert(w.Len == cilISize, "one inode is written")
	vp.Assert(w.Off == want, "inode n is written at inodeTable((n-1)/ipg)*blockSize + ((n-1)%ipg)*inodeSize")
	if w.Len == cilISize {
		vp.Assert(uint32(c20le16(w.Data, 2))|uint32(c20le16(w.Data, 0x78))<<16 == in.owner, "the bytes written are this inode's (uid)")
		vp.Assert(c20le32(w.Data, 0x64) == in.nfsFileVersion, "the bytes written are this inode's (generation)")
	}
	cilCovers(n)
	vp.Cover("inode written")
}

// VP_C04_inode_location_roundtrip: an inode written with writeInode(n) is the inode readInode(n)
// returns (same fields). (That nothing else is written is decided in inode_location_write: one WriteAt.)
func VP_C04_inode_location_roundtrip() {
	// the inode numbers at and around every group boundary (concrete case split: with a symbolic number
	// the checksum over bytes read back from a symbolic offset costs minutes; the symbolic-number halves
	// are C04.inode_location_write and C20.inode_location_read)
	for _, n := range []uint32{1, cilIPG - 1, cilIPG, cilIPG + 1, 2*cilIPG - 1, 2 * cilIPG, 2*cilIPG + 1, cilIPG * cilGroups} {
		dev := vpdev.NewMemDev("disk", 128*cilBS)
		fs := cilFS(dev)
		in := cilInode(n)
		vp.NoPanic()
		err := fs.writeInode(in)
		vp.AllowPanic()
		vp.Assert(err == nil, "writing an inode of the filesystem succeeds")
		if err != nil {
			return
		}
		vp.NoPanic()
		got, err := fs.readInode(n)
		vp.AllowPanic()
		vp.Assert(err == nil, "the inode just written reads back")
		if err != nil {
			return
		}
		vp.Assert(got.number == n, "read back: number")
		vp.Assert(got.owner == in.owner, "read back: uid")
		vp.Assert(got.group == in.group, "read back: gid")
		vp.Assert(got.size == in.size, "read back: size")
		vp.Assert(got.hardLinks == in.hardLinks, "read back: link count")
		vp.Assert(got.nfsFileVersion == in.nfsFileVersion, "read back: generation")
		vp.Assert(got.fileType == fileTypeRegularFile, "read back: type")
		// the neighbours' slots are still empty (the device started as zeros)
		for _, m := range []uint32{n - 1, n + 1} {
			if m >= 1 && m <= cilIPG*cilGroups {
				o := int64(cilTables[(m-1)/cilIPG])*cilBS + int64((m-1)%cilIPG)*cilISize
				vp.Assert(dev.ByteAt(o) == 0 && dev.ByteAt(o+1) == 0 && dev.ByteAt(o+0x1a) == 0, "the neighbouring inode slot is untouched")
			}
		}
	}
	vp.Cover("inode round trip")
}

package ext4

import (
	"bytes"
	"io"

	"github.com/diskfs/go-diskfs/internal/vp"
	"github.com/diskfs/go-diskfs/internal/vp/vpdev"
)

// C10 for ext4: one step of Read / Seek / Close from an arbitrary handle state. The handle state
// is (offset, closed); the file is immutable during reads, so one step from an arbitrary state
// covers call sequences of any length.
//
// Well-formedness assumed for the file ("a file of known content"): nExt initialised extents that
// map the logical blocks 0,1,2,... without holes (extent i+1 starts where extent i ends), with
// arbitrary lengths and arbitrary physical start blocks, covering at least the file size.
// Sparse files are outside this property.

// c10LaneDev4: the byte at device address a is byte number `lane` of a (see the fat12 harness).
type c10LaneDev4 struct {
	*vpdev.MemDev
	lane uint
}

func (d *c10LaneDev4) ByteAt(a int64) byte { return byte(uint64(a) >> (8 * d.lane)) }

func (d *c10LaneDev4) ReadAt(p []byte, off int64) (int, error) {
	if off < 0 {
		return 0, io.ErrUnexpectedEOF
	}
	vp.FillFunc(p, func(i int) byte { return d.ByteAt(off + int64(i)) })
	return len(p), nil
}

func c10Offset4() int64 { return int64(vp.U64("offset") >> 1) }

// c10ExtFile: the handle, the extents as the harness sees them and the number of mapped blocks.
// counts != nil fixes the extent lengths (structure case-split); otherwise they are arbitrary.
func c10ExtFile(dev *c10LaneDev4, bs uint32, nExt int, maxStart uint64, counts []uint16) (*File, extents, int64) {
	fs := &FileSystem{superblock: &superblock{blockSize: bs}, backend: dev}
	var exts extents
	next := uint32(0)
	for i := 0; i < nExt; i++ {
		c := vp.U16("ee_len" + string(rune('0'+i)))
		s := vp.U64("ee_start" + string(rune('0'+i)))
		if counts != nil {
			c = counts[i]
		}
		vp.Assume(c >= 1)
		vp.Assume(c <= 32768)
		vp.Assume(s < maxStart)
		exts = append(exts, extent{fileBlock: next, count: c, startingBlock: s})
		next += uint32(c)
	}
	size := vp.U64("size")
	vp.Assume(size <= uint64(next)*uint64(bs))
	cp := make(extents, len(exts))
	copy(cp, exts)
	fl := &File{inode: &inode{size: size}, offset: c10Offset4(), filesystem: fs, extents: exts, fileType: dirFileTypeRegular, filename: "file.txt"}
	return fl, cp, int64(next)
}

// c10ExtPos: device address of file byte p from the extent list (ext4 layout).
func c10ExtPos(exts extents, bs uint32, p int64) int64 {
	blk := uint64(p) / uint64(bs)
	a := int64(0)
	for i := range exts {
		e := exts[i]
		in := blk >= uint64(e.fileBlock)
		addr := int64(e.startingBlock)*int64(bs) + (p - int64(e.fileBlock)*int64(bs))
		a = vp.IteI64(in, addr, a) // extents are sorted: the last one that starts at or before blk
	}
	return a
}

func c10ExtRead(bs uint32, nExt, N int, counts []uint16) {
	m := vpdev.NewMemDev("disk", -1)
	m.NoWrites = true
	dev := &c10LaneDev4{MemDev: m}
	fl, exts, _ := c10ExtFile(dev, bs, nExt, 1<<40, counts)
	size := int64(fl.size)
	off := fl.offset
	// (KF-C10-3, repaired by efb3698: a read starting inside the block that follows the last block
	// of an extent computed a negative length and panicked in make().)

	buf := vp.Bytes("buf", N)
	orig := make([]byte, N)
	copy(orig, buf)
	k := vp.Int("len")
	vp.Assume(k >= 0)
	vp.Assume(k <= N)

	rem := size - off
	if rem < 0 {
		rem = 0
	}
	want := int64(k)
	if rem < want {
		want = rem
	}

	vp.AllocCap(N)
	vp.Unwind(nExt + 4) // one iteration per extent, one for a hole at the end, exit tests
	vp.NoPanic()
	n, err := fl.Read(buf[:k])
	vp.AllowPanic()
	vp.Unwind(16)

	vp.Assert(int64(n) == want, "n = min(len(b), bytes remaining)")
	vp.Assert(fl.offset == off+want, "cursor advances by the bytes delivered")
	for i := 0; i < N; i++ {
		if int64(i) < want {
			vp.Assert(buf[i] == dev.ByteAt(c10ExtPos(exts, bs, off+int64(i))), "delivered byte = file byte at cursor+i")
		} else {
			vp.Assert(buf[i] == orig[i], "buffer beyond n is untouched")
		}
	}
	if err == io.EOF {
		vp.Assert(off+want >= size, "io.EOF only when the end is reached")
		vp.Cover("EOF reported")
	}
	if k > 0 {
		vp.Assert(err == nil || err == io.EOF, "no error other than io.EOF on a well-formed file")
		if want == 0 {
			vp.Assert(err == io.EOF, "a zero-byte read into a non-empty buffer reports io.EOF")
			vp.Cover("read at or past the end")
		}
		if want == int64(k) {
			if off+want < size {
				vp.Assert(err == nil, "a full read that stops before the end reports no error")
				vp.Cover("full read before the end")
			}
		} else if want > 0 {
			vp.Cover("short read at the end")
		}
	} else {
		vp.Cover("empty buffer")
	}
}

// small mode: block = 4 bytes, buffer up to 2 blocks + 1; addresses compared modulo 256.
func VP_C10_ext4_read_e1() { c10ExtRead(4, 1, 9, nil) }
func VP_C10_ext4_read_e2() { c10ExtRead(4, 2, 9, nil) }

// three extents of 1, 1 and 2 blocks (a 9-byte read can touch all three), arbitrary physical starts
func VP_C10_ext4_read_e3() { c10ExtRead(4, 3, 9, []uint16{1, 1, 2}) }
func VP_C10_ext4_read_e3_any() {
	if vp.Thorough() {
		c10ExtRead(4, 3, 9, nil)
	}
}

// c10RecDev4 records the (offset, length) of every ReadAt and delivers fresh arbitrary bytes
// rd<k>[..] for call k.
type c10RecDev4 struct {
	*vpdev.MemDev
	offs []int64
	lens []int
	data [][]byte
}

const c10Cap4 = 8

func (d *c10RecDev4) ReadAt(p []byte, off int64) (int, error) {
	k := len(d.offs)
	fresh := vp.Bytes("rd"+string(rune('0'+k)), c10Cap4)
	d.offs = append(d.offs, off)
	d.lens = append(d.lens, len(p))
	d.data = append(d.data, fresh)
	vp.FillFunc(p, func(i int) byte { return fresh[vp.IteInt(i < c10Cap4, i, 0)] })
	return len(p), nil
}

// c10ExtGeometry: real block size, two extents with arbitrary 48-bit physical start blocks and
// arbitrary lengths: every device access is at start*blocksize + (file position - first file
// byte of the extent), on all 64 bits, and the buffer holds what the accesses delivered, in order.
func c10ExtGeometry(bs uint32) {
	const N = 6
	m := vpdev.NewMemDev("disk", -1)
	m.NoWrites = true
	dev := &c10RecDev4{MemDev: m}
	fs := &FileSystem{superblock: &superblock{blockSize: bs}, backend: dev}
	c0, c1 := vp.U16("ee_len0"), vp.U16("ee_len1")
	s0, s1 := vp.U64("ee_start0"), vp.U64("ee_start1")
	vp.Assume(c0 >= 1)
	vp.Assume(c0 <= 32768)
	vp.Assume(c1 >= 1)
	vp.Assume(c1 <= 32768)
	vp.Assume(s0 < 1<<48)
	vp.Assume(s1 < 1<<48)
	exts := extents{{fileBlock: 0, count: c0, startingBlock: s0}, {fileBlock: uint32(c0), count: c1, startingBlock: s1}}
	size := vp.U64("size")
	vp.Assume(size <= (uint64(c0)+uint64(c1))*uint64(bs))
	off := c10Offset4()
	fl := &File{inode: &inode{size: size}, offset: off, filesystem: fs, extents: extents{exts[0], exts[1]}, fileType: dirFileTypeRegular}
	buf := vp.Bytes("buf", N)
	k := vp.Int("len")
	vp.Assume(k >= 0)
	vp.Assume(k <= N)
	rem := int64(size) - off
	if rem < 0 {
		rem = 0
	}
	want := int64(k)
	if rem < want {
		want = rem
	}
	vp.AllocCap(N)
	vp.Unwind(6)
	vp.NoPanic()
	n, _ := fl.Read(buf[:k])
	vp.AllowPanic()
	vp.Unwind(16)

	vp.Assert(int64(n) == want, "n = min(len(b), bytes remaining)")
	done := 0
	for c := range dev.offs {
		if dev.lens[c] > 0 {
			vp.Assert(dev.offs[c] == c10ExtPos(exts, bs, off+int64(done)), "device access at extent start*blocksize + position in the extent")
		}
		for i := 0; i < N; i++ {
			if i >= done {
				if i < done+dev.lens[c] {
					if int64(i) < want {
						vp.Assert(buf[i] == dev.data[c][vp.IteInt(i-done < c10Cap4, i-done, 0)], "buffer byte = byte delivered by the device for that position")
					}
				}
			}
		}
		done += dev.lens[c]
		vp.Cover("device access checked")
	}
	vp.Assert(int64(done) == want, "exactly the delivered bytes were fetched from the device")
	if len(dev.offs) >= 2 {
		if dev.lens[0] > 0 {
			vp.Cover("read crosses from the first extent into the second")
		}
	}
}

func VP_C10_ext4_read_geometry_4k()  { c10ExtGeometry(4096) }
func VP_C10_ext4_read_geometry_64k() { c10ExtGeometry(65536) }

// VP_C10_ext4_seek: Seek with arbitrary offset and whence from an arbitrary cursor.
func VP_C10_ext4_seek() {
	m := vpdev.NewMemDev("disk", -1)
	fl, _, _ := c10ExtFile(&c10LaneDev4{MemDev: m}, 4096, 1, 1<<40, nil)
	size := int64(fl.size)
	vp.Assume(size >= 0)
	off := fl.offset
	so := vp.I64("seekoff")
	wh := vp.Int("whence")

	vp.NoPanic()
	pos, err := fl.Seek(so, wh)
	vp.AllowPanic()

	vp.Assert(fl.offset >= 0, "cursor never negative")
	if wh == io.SeekStart || wh == io.SeekCurrent || wh == io.SeekEnd {
		var target int64
		switch wh {
		case io.SeekStart:
			target = so
		case io.SeekCurrent:
			target = off + so
		default:
			target = size + so
		}
		if target < 0 { // includes int64 wrap-around, as in bytes.Reader
			vp.Assert(err != nil, "negative position is rejected")
			vp.Assert(fl.offset == off, "cursor unchanged on error")
			vp.Cover("negative position rejected")
		} else {
			vp.Assert(err == nil, "valid seek succeeds")
			vp.Assert(pos == target, "Seek returns base+offset")
			vp.Assert(fl.offset == target, "cursor = base+offset")
			if target > size {
				vp.Cover("seek past EOF")
			}
			if wh == io.SeekEnd {
				if so < 0 {
					vp.Cover("seek back from the end")
				}
			}
			vp.Cover("seek ok")
		}
	} else {
		vp.Cover("other whence")
	}
}

// VP_C10_ext4_closed: after Close, Read does not return data without an error (a panic counts as failing).
func VP_C10_ext4_closed() {
	m := vpdev.NewMemDev("disk", -1)
	fl, _, _ := c10ExtFile(&c10LaneDev4{MemDev: m}, 4, 1, 1<<40, nil)
	buf := vp.Bytes("buf", 8)
	k := vp.Int("len")
	vp.Assume(k >= 0)
	vp.Assume(k <= 8)
	cerr := fl.Close()
	vp.Assert(cerr == nil, "Close succeeds")
	vp.Cover("closed")
	vp.AllocCap(8)
	n, err := fl.Read(buf[:k])
	if n > 0 {
		vp.Assert(err != nil, "Read after Close does not return data without an error")
	}
	if err != nil {
		vp.Cover("read after close fails with an error")
	}
	vp.Cover("read after close returns")
}

// VP_C10_ext4_sequence_vs_bytes_reader: the executable specification itself on a file of two
// one-block extents (4-byte blocks, 0..8 bytes): Seek(arbitrary offset, whence) and two Reads of
// arbitrary length 0..5 on the ext4 handle and on a bytes.Reader over the file's content.
func VP_C10_ext4_sequence_vs_bytes_reader() {
	const M, K = 8, 5
	m := vpdev.NewMemDev("disk", -1)
	m.NoWrites = true
	dev := &c10LaneDev4{MemDev: m}
	fl, exts, _ := c10ExtFile(dev, 4, 2, 1<<40, []uint16{1, 1})
	fl.offset = 0
	size := int64(fl.size)
	content := make([]byte, M)
	for i := range content {
		content[i] = dev.ByteAt(c10ExtPos(exts, 4, int64(i)))
	}
	ref := bytes.NewReader(content[:size])

	so := vp.I64("seekoff")
	wh := vp.Int("whence")
	vp.Assume(wh >= 0)
	vp.Assume(wh <= 2)
	vp.NoPanic()
	p1, e1 := fl.Seek(so, wh)
	vp.AllowPanic()
	p2, e2 := ref.Seek(so, wh)
	if e2 != nil {
		vp.Assert(e1 != nil, "Seek fails where bytes.Reader.Seek fails")
		vp.Cover("both seeks rejected")
	} else {
		vp.Assert(e1 == nil, "Seek succeeds where bytes.Reader.Seek succeeds")
		vp.Assert(p1 == p2, "Seek returns what bytes.Reader.Seek returns")
	}
	vp.AllocCap(8)
	for step := 0; step < 2; step++ {
		k := vp.Int("len" + string(rune('0'+step)))
		vp.Assume(k >= 0)
		vp.Assume(k <= K)
		b1 := make([]byte, K)
		b2 := make([]byte, K)
		vp.Unwind(6)
		vp.NoPanic()
		n1, r1 := fl.Read(b1[:k])
		vp.AllowPanic()
		vp.Unwind(16)
		n2, r2 := ref.Read(b2[:k])
		vp.Assert(n1 == n2, "Read returns as many bytes as bytes.Reader.Read")
		for i := 0; i < K; i++ {
			vp.Assert(b1[i] == b2[i], "Read delivers the bytes bytes.Reader.Read delivers")
		}
		c1, _ := fl.Seek(0, io.SeekCurrent)
		c2, _ := ref.Seek(0, io.SeekCurrent)
		vp.Assert(c1 == c2, "cursor where bytes.Reader has it")
		if r2 == io.EOF {
			if k > 0 {
				vp.Assert(r1 == io.EOF, "io.EOF where bytes.Reader reports it")
				vp.Cover("both report EOF")
			}
		}
		if r1 == io.EOF {
			vp.Assert(c1 >= size, "io.EOF only at the end")
		} else if k > 0 {
			vp.Assert(r1 == nil, "no other error")
		}
		if n1 > 0 {
			if step == 1 {
				vp.Cover("second read delivers bytes")
			}
		}
	}
}

package ext4

import (
	"github.com/diskfs/go-diskfs/internal/vp"
	"github.com/diskfs/go-diskfs/internal/vp/vpdev"
)

// Reference layout (struct ext4_xattr_entry, fs/ext4/xattr.h / layout documentation):
//
//	e_name_len u8 | e_name_index u8 | e_value_offs u16 | e_value_inum u32 | e_value_size u32 | e_hash u32 | name
//
// the next entry starts at the next 4-byte boundary after the name; four zero bytes end the list.
// Name index 1 = "user.", 4 = "trusted.", 6 = "security.", 7 = "system.", 2/3 = POSIX ACLs.

const c20Letters = "abcdefghijklmnop"

// c20PutXattr writes one entry header + name at pos and returns the offset of the next entry.
func c20PutXattr(buf []byte, pos int, index byte, name string, offs uint16, inum uint32, size uint32) int {
	buf[pos] = byte(len(name))
	buf[pos+1] = index
	buf[pos+2], buf[pos+3] = byte(offs), byte(offs>>8)
	buf[pos+4], buf[pos+5], buf[pos+6], buf[pos+7] = byte(inum), byte(inum>>8), byte(inum>>16), byte(inum>>24)
	buf[pos+8], buf[pos+9], buf[pos+10], buf[pos+11] = byte(size), byte(size>>8), byte(size>>16), byte(size>>24)
	// e_hash (pos+12..16) stays arbitrary
	copy(buf[pos+16:], name)
	end := pos + 16 + len(name)
	for end%4 != 0 { // padding bytes stay arbitrary too, only the position matters
		end++
	}
	return end
}

// c20CheckValue: the attribute `key` is reported with exactly the size bytes at values[offs:].
func c20CheckValue(res map[string][]byte, key string, values []byte, offs uint16, size uint32, maxv int) {
	v, ok := res[key]
	vp.Assert(ok, "every attribute on disk is reported")
	if !ok {
		return
	}
	ok2 := c20b2i(len(v) == int(size))
	for j := 0; j < maxv; j++ {
		if j < int(size) && j < len(v) {
			ok2 &= c20b2i(v[j] == values[int(offs)+j])
		}
	}
	vp.Assert(ok2 == 1, "value length = e_value_size and value bytes = bytes at e_value_offs")
}

// c20XattrList: three entries; the first two names have every length 1..8 (case split: the position of
// the following entry depends on the padding), indexes user/trusted/security; value offsets, sizes
// (0..maxv) and all value bytes arbitrary. All three attributes must come back with their values.
func c20XattrList(l1, l2 int) {
	const maxv = 6
	n := 128
	buf := vp.Bytes("xattr", n)
	o1, o2, o3 := vp.U16("offs1"), vp.U16("offs2"), vp.U16("offs3")
	s1, s2, s3 := vp.U32("size1"), vp.U32("size2"), vp.U32("size3")
	for _, s := range []uint32{s1, s2, s3} {
		vp.Assume(s <= maxv)
	}
	for _, o := range []uint16{o1, o2, o3} {
		vp.Assume(o >= 88) // values live behind the entry table
		vp.Assume(int(o) <= n-maxv)
	}
	name1 := c20Letters[:l1]
	name2 := c20Letters[8 : 8+l2]
	p := c20PutXattr(buf, 0, 1, name1, o1, 0, s1)
	p = c20PutXattr(buf, p, 4, name2, o2, 0, s2)
	p = c20PutXattr(buf, p, 6, "selinux", o3, 0, s3)
	buf[p], buf[p+1], buf[p+2], buf[p+3] = 0, 0, 0, 0
	vp.AllocCap(maxv + 2)
	vp.NoPanic()
	res, err := parseXattrEntries(buf, buf)
	vp.AllowPanic()
	vp.Assert(err == nil, "a well-formed entry list parses")
	if err != nil {
		return
	}
	c20CheckValue(res, "user."+name1, buf, o1, s1, maxv)
	c20CheckValue(res, "trusted."+name2, buf, o2, s2, maxv)
	c20CheckValue(res, "security.selinux", buf, o3, s3, maxv)
	vp.Assert(len(res) <= 3, "nothing but the attributes on disk is reported")
}

func VP_C20_xattr_entries() {
	for l1 := 1; l1 <= vp.Bound("namelen", 4, 8); l1++ {
		l2 := 1 + (l1*3)%8
		c20XattrList(l1, l2)
	}
	vp.Cover("three-entry lists with all name paddings")
}

// VP_C20_xattr_ea_inode: a value stored in an EA inode (e_value_inum != 0, feature ea_inode) is not
// supported: the accessor must fail, not return an empty or wrong value.
func VP_C20_xattr_ea_inode() {
	buf := vp.Bytes("xattr", 64)
	inum := vp.U32("inum")
	vp.Assume(inum != 0)
	p := c20PutXattr(buf, 0, 1, "big", 0, inum, vp.U32("size"))
	buf[p], buf[p+1], buf[p+2], buf[p+3] = 0, 0, 0, 0
	vp.AllocCap(8)
	_, err := parseXattrEntries(buf, buf)
	vp.Assert(err != nil, "ea_inode attribute: the accessor returns an error instead of a value from the wrong place")
	vp.Cover("ea_inode refused")
}

// VP_C20_xattr_ibody: in-inode attributes of a 256-byte inode: magic 0xEA020000 at 128+i_extra_isize,
// entries behind it, value offsets relative to the first entry.
func VP_C20_xattr_ibody() {
	for _, extra := range []int{32, 28} {
		raw := vp.Bytes("inode", 256)
		raw[0x80], raw[0x81] = byte(extra), 0
		m := 128 + extra
		raw[m], raw[m+1], raw[m+2], raw[m+3] = 0x00, 0x00, 0x02, 0xea
		area := raw[m+4:]
		offs, size := vp.U16("offs"), vp.U32("size")
		vp.Assume(size <= 6)
		vp.Assume(offs >= 32)
		vp.Assume(int(offs) <= len(area)-6)
		p := c20PutXattr(area, 0, 1, "ccc", offs, 0, size)
		area[p], area[p+1], area[p+2], area[p+3] = 0, 0, 0, 0
		fs := &FileSystem{superblock: &superblock{inodeSize: 256, blockSize: 1024}}
		vp.AllocCap(8)
		vp.NoPanic()
		res, err := fs.readIbodyXattrs(raw)
		vp.AllowPanic()
		vp.Assert(err == nil, "in-inode attributes parse")
		if err != nil {
			return
		}
		c20CheckValue(res, "user.ccc", area, offs, size, 6)
	}
	vp.Cover("in-inode attribute found")
}

// VP_C20_xattr_block: attributes in the block named by i_file_acl: 32-byte header with the magic,
// entries from byte 32, value offsets relative to the start of the block; merged with the in-inode ones.
func VP_C20_xattr_block() {
	const bs = 128
	blk := vp.Bytes("xblock", bs)
	blk[0], blk[1], blk[2], blk[3] = 0x00, 0x00, 0x02, 0xea
	offs, size := vp.U16("offs"), vp.U32("size")
	vp.Assume(size <= 6)
	vp.Assume(offs >= 96)
	vp.Assume(int(offs) <= bs-6)
	p := c20PutXattr(blk, 32, 1, "eeeee", offs, 0, size)
	p = c20PutXattr(blk, p, 2, "", offs, 0, size) // system.posix_acl_access: empty name, index 2
	blk[p], blk[p+1], blk[p+2], blk[p+3] = 0, 0, 0, 0
	dev := vpdev.NewMemDev("disk", -1)
	dev.NoWrites = true
	dev.Log = append(dev.Log, vpdev.WRec{Off: 7 * bs, Len: bs, Data: blk})
	fs := &FileSystem{superblock: &superblock{inodeSize: 256, blockSize: bs}, backend: dev}
	raw := make([]byte, 256) // no in-inode attributes
	in := &inode{extendedAttributeBlock: 7}
	vp.AllocCap(8)
	vp.NoPanic()
	res, err := fs.readXattrs(in, raw)
	vp.AllowPanic()
	vp.Assert(err == nil, "attribute block parses")
	if err != nil {
		return
	}
	c20CheckValue(res, "user.eeeee", blk, offs, size, 6)
	c20CheckValue(res, "system.posix_acl_access", blk, offs, size, 6)
	vp.Cover("block attributes found")
}

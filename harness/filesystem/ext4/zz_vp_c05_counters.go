package ext4

import (
	"github.com/diskfs/go-diskfs/internal/vp"
)

// C05.alloc_* / C05.dealloc_* / C05.inode_*: allocation bookkeeping. One allocator call with a
// symbolic size (or position) on a formatted volume in a known consistent state (c05NewFixture);
// afterwards the IMAGE BYTES are checked like e2fsck pass 5 does: descriptor and superblock free
// counts = clear bits of the bitmaps, padding set, bitmap/descriptor checksums valid, and the
// bits that changed are exactly the blocks/inodes handed out (or given back).

func c05Snapshot(img []byte) []byte {
	c := make([]byte, len(img))
	copy(c, img)
	return c
}

// c05InExt: block blk lies in one of the extents (branch-free, 0/1).
func c05InExt(es extents, blk uint64) uint64 {
	var n uint64
	for i := range es {
		lo := es[i].startingBlock
		hi := lo + uint64(es[i].count)
		in := vp.IteU64(blk >= lo, 1, 0) & vp.IteU64(blk < hi, 1, 0)
		n += in
	}
	return n
}

// c05BitmapDelta compares the block bitmaps before/after with the extent list `es`.
// windows = the bit ranges (per group) in which the operation may legitimately change bits; every
// byte outside them must be unchanged and every extent must lie inside one window.
// returns (#deviations, #blocks of es that were not in state wantBefore before, #blocks in es).
func c05BitmapDelta(g *c05Geo, before []byte, es extents, wantBefore uint64, windows []c05Mark) (wrong, bad, total uint64) {
	for i := 0; i < g.groups; i++ {
		off := g.blockBitmapLoc(i) * g.bs
		start := g.fdb + i*g.bpg
		for k := 0; k < g.bs; k++ {
			inWin := false
			for _, w := range windows {
				if w.group == i && k >= w.from/8 && k <= (w.to-1)/8 {
					inWin = true
				}
			}
			if !inWin {
				wrong += vp.IteU64(before[off+k] == g.img[off+k], 0, 1)
			}
		}
		for _, w := range windows {
			if w.group != i {
				continue
			}
			for k := w.from / 8 * 8; k < ((w.to-1)/8+1)*8; k++ {
				was := uint64(before[off+k/8]>>uint(k%8)) & 1
				now := uint64(g.img[off+k/8]>>uint(k%8)) & 1
				in := c05InExt(es, uint64(start+k))
				total += in
				// a block of es flips, any other block keeps its state
				wrong += vp.IteU64(in == 0, was^now, 0)
				wrong += vp.IteU64(in == 1, 1^(was^now), 0)
				wrong += vp.IteU64(in > 1, 1, 0)
				bad += vp.IteU64(in >= 1, was^wantBefore, 0)
			}
		}
	}
	for i := range es {
		lo := es[i].startingBlock
		hi := lo + uint64(es[i].count)
		var covered uint64
		for _, w := range windows {
			wlo := uint64(g.fdb + w.group*g.bpg + w.from)
			whi := uint64(g.fdb + w.group*g.bpg + w.to)
			covered += c05Overlap(c05Region{lo, hi}, c05Region{wlo, whi})
		}
		wrong += vp.IteU64(covered == hi-lo, 0, 1)
	}
	return
}

type c05AllocCase struct {
	bs, bpg   uint32
	blocks    uint64
	ipg       uint32
	flex      uint64
	csum      bool
	marks     []c05Mark
	maxBlocks int
	windows   []c05Mark // bit ranges the operation may touch
}

// c05Alloc: allocateExtents(size, nil) with symbolic size.
func c05Alloc(c c05AllocCase) {
	fx := c05NewFixture(c.bs, c.bpg, c.blocks, c.ipg, c.flex, c.csum, c.marks, nil)
	before := c05Snapshot(fx.dev.img)
	g0 := c05ReadGeo(before)
	freeBefore := g0.freeBlocksSB()
	size := vp.U64("size")
	vp.Assume(size <= uint64(c.maxBlocks)*uint64(c.bs))
	vp.Unwind(c.maxBlocks + 6)
	vp.NoPanic()
	exts, err := fx.fs.allocateExtents(size, nil)
	vp.AllowPanic()
	need := (size + uint64(c.bs) - 1) / uint64(c.bs)
	g := c05ReadGeo(fx.dev.img)
	c05CheckCounts(&g)
	c05CheckBitmapCsums(&g, fx.seed)
	if err != nil {
		wrong, _, _ := c05BitmapDelta(&g, before, nil, 0, nil)
		vp.Assert(wrong == 0, "a refused allocation leaves the block bitmaps as they were")
		vp.Assert(g.freeBlocksSB() == freeBefore, "a refused allocation leaves the free count as it was")
		vp.Cover("allocation refused")
		return
	}
	var es extents
	if exts != nil {
		es = *exts
	}
	var fileBlock uint64
	var seqBad uint64
	for i := range es {
		seqBad += vp.IteU64(uint64(es[i].fileBlock) == fileBlock, 0, 1)
		seqBad += vp.IteU64(es[i].count >= 1, 0, 1)
		seqBad += vp.IteU64(es[i].startingBlock >= uint64(g.fdb), 0, 1)
		seqBad += vp.IteU64(es[i].startingBlock+uint64(es[i].count) <= uint64(g.blocks), 0, 1)
		fileBlock += uint64(es[i].count)
	}
	vp.Assert(fileBlock == need, "the extents cover exactly ceil(size/blocksize) blocks")
	vp.Assert(seqBad == 0, "extents are numbered consecutively, non-empty and inside the filesystem")
	wrong, bad, total := c05BitmapDelta(&g, before, es, 0, c.windows)
	vp.Assert(total == need, "every handed-out block is a block of some group, none twice")
	vp.Assert(bad == 0, "every handed-out block was free before")
	vp.Assert(wrong == 0, "the block bitmaps changed exactly at the handed-out blocks")
	vp.Assert(g.freeBlocksSB()+need == freeBefore, "superblock free count went down by the blocks handed out")
	if len(es) == 1 {
		vp.Cover("allocated one extent")
	}
	if len(es) > 1 {
		vp.Cover("allocated several extents")
	}
	if exts == nil {
		vp.Cover("nothing to allocate")
	}
}

// holes: free space of group 0 reduced to three holes of 2, 3 and 1 blocks (metadata occupies [0,12))
var c05Holes = []c05Mark{{0, 12, 20}, {0, 22, 30}, {0, 33, 40}, {0, 41, 256}}

// fresh 1 KiB volume, 2 groups, flex_bg, metadata_csum
func VP_C05_alloc_fresh_1k() {
	c05Alloc(c05AllocCase{bs: 1024, bpg: 256, blocks: 512, ipg: 32, flex: 8, csum: true, maxBlocks: vp.Bound("allocblocks", 5, 12),
		windows: []c05Mark{{0, 22, 40}}})
}

// fragmented single group: sizes up to 3 blocks fit a hole, 4..6 need several extents, 7 is refused
func VP_C05_alloc_holes_1k() {
	c05Alloc(c05AllocCase{bs: 1024, bpg: 256, blocks: 256, ipg: 32, flex: 0, csum: true, marks: c05Holes, maxBlocks: 7,
		windows: []c05Mark{{0, 20, 41}}})
}

// fragmented first group + second group with one hole of 2: allocation spanning groups
func VP_C05_alloc_holes_2groups() {
	m := append([]c05Mark{}, c05Holes...)
	m = append(m, c05Mark{1, 12, 100}, c05Mark{1, 102, 256})
	c05Alloc(c05AllocCase{bs: 1024, bpg: 256, blocks: 512, ipg: 32, flex: 0, csum: false, marks: m, maxBlocks: 9,
		windows: []c05Mark{{0, 20, 41}, {1, 100, 102}}})
}

// 2 KiB blocks (firstDataBlock = 0), three groups, flex_bg: group 2 starts with a data block
func VP_C05_alloc_fresh_2k() {
	c05Alloc(c05AllocCase{bs: 2048, bpg: 256, blocks: 768, ipg: 32, flex: 8, csum: false,
		marks: []c05Mark{{0, 20, 256}, {1, 2, 256}}, maxBlocks: 5, windows: []c05Mark{{2, 0, 8}}})
}

// c05Dealloc: deallocateExtents of one extent [start, start+count) inside a range that is in use.
// start is concrete (the allocator keeps per-group maps keyed by the group of each block; a symbolic
// start would make the map keys symbolic), the length is symbolic.
func c05Dealloc(c c05AllocCase, start, hi uint64) {
	fx := c05NewFixture(c.bs, c.bpg, c.blocks, c.ipg, c.flex, c.csum, c.marks, nil)
	before := c05Snapshot(fx.dev.img)
	g0 := c05ReadGeo(before)
	freeBefore := g0.freeBlocksSB()
	count := vp.U16("count")
	vp.Assume(count >= 1)
	vp.Assume(uint64(count) <= uint64(c.maxBlocks))
	vp.Assume(start+uint64(count) <= hi)
	es := extents{{fileBlock: 0, startingBlock: start, count: count}}
	vp.Unwind(c.maxBlocks + 4)
	vp.NoPanic()
	err := fx.fs.deallocateExtents(es)
	vp.AllowPanic()
	g := c05ReadGeo(fx.dev.img)
	// class of KF-C05-4: firstDataBlock = 0 and the extent contains the first block of a group
	var crosses uint64
	if g.fdb == 0 {
		for k := 1; k < g.groups; k++ {
			b := uint64(k * g.bpg)
			crosses += vp.IteU64(start <= b, 1, 0) & vp.IteU64(b < start+uint64(count), 1, 0)
		}
	}
	kf := crosses != 0
	vp.AssertUnless("KF-C05-4", kf, err == nil, "blocks in use can be given back")
	if err != nil {
		return
	}
	wrong, bad, total := c05BitmapDelta(&g, before, es, 1, c.windows)
	vp.Assert(total == uint64(count), "all blocks of the extent belong to some group")
	vp.Assert(bad == 0, "fixture: the blocks were in use")
	vp.AssertUnless("KF-C05-4", kf, wrong == 0, "the block bitmaps changed exactly at the blocks given back")
	vp.AssertUnless("KF-C05-4", kf, g.freeBlocksSB() == freeBefore+uint64(count), "superblock free count went up by the blocks given back")
	var sumB uint64
	var cntBad uint64
	for i := 0; i < g.groups; i++ {
		fb := c05ZeroBits(g.img, g.blockBitmapLoc(i)*g.bs, 0, g.blocksInGroup(i))
		cntBad += vp.IteU64(g.freeBlocksGD(i) == fb, 0, 1)
		cntBad += c05ZeroBits(g.img, g.blockBitmapLoc(i)*g.bs, g.blocksInGroup(i), g.bpg+8)
		sumB += fb
	}
	vp.AssertUnless("KF-C05-4", kf, cntBad == 0, "descriptor free counts = clear bits of the bitmaps, padding still set")
	vp.AssertUnless("KF-C05-4", kf, g.freeBlocksSB() == sumB, "superblock free blocks = sum over the groups")
	if !kf {
		c05CheckBitmapCsums(&g, fx.seed)
		vp.Cover("blocks given back")
	}
}

// 1 KiB blocks, flex_bg, 3 groups: blocks 497..522 in use (bits 240..255 of group 1, bits 0..9 of group 2)
func VP_C05_dealloc_1k() {
	c05Dealloc(c05AllocCase{bs: 1024, bpg: 256, blocks: 768, ipg: 32, flex: 8, csum: true,
		marks: []c05Mark{{1, 240, 256}, {2, 0, 10}}, maxBlocks: 8, windows: []c05Mark{{1, 240, 256}, {2, 0, 10}}}, 509, 523)
}

// 2 KiB blocks, flex_bg, 3 groups: blocks 500..520 in use; block 512 is the first block of group 2
func VP_C05_dealloc_2k_group_start() {
	c05Dealloc(c05AllocCase{bs: 2048, bpg: 256, blocks: 768, ipg: 32, flex: 8, csum: false,
		marks: []c05Mark{{1, 240, 256}, {2, 0, 10}}, maxBlocks: 8, windows: []c05Mark{{1, 240, 256}, {2, 0, 10}}}, 508, 520)
}

// c05AllocInode: allocateInode(parent, 0) where the in-use state of inodes 11..32 of group 0 is arbitrary.
func c05AllocInode(groups int, fullSecond bool) {
	var im []c05Mark
	if fullSecond {
		im = append(im, c05Mark{1, 0, 32})
	}
	fx := c05NewFixture(1024, 256, uint64(groups*256), 32, 0, true, nil, im)
	fs := fx.fs
	// make bytes 1..3 of the first inode bitmap arbitrary and bring the counters in line (reference code)
	d0 := &fs.groupDescriptors.descriptors[0]
	ib := int(d0.inodeBitmapLocation) * 1024
	fx.dev.img[ib+1] = vp.U8("ibm1") | 3 // inodes 9, 10 are reserved
	fx.dev.img[ib+2] = vp.U8("ibm2")
	fx.dev.img[ib+3] = vp.U8("ibm3")
	free0 := uint32(c05ZeroBits(fx.dev.img, ib, 0, 32))
	fs.superblock.freeInodes = fs.superblock.freeInodes - d0.freeInodes + free0
	d0.freeInodes = free0
	d0.inodeBitmapChecksum = bitmapChecksum(fx.dev.img[ib:ib+4], fx.seed)
	if fs.writeSuperblock() != nil || fs.writeGDT() != nil {
		vp.Assume(false)
	}
	before := c05Snapshot(fx.dev.img)
	g0 := c05ReadGeo(before)
	freeBefore := g0.freeInodesSB()

	vp.Unwind(40)
	vp.NoPanic()
	n, err := fs.allocateInode(2, 0)
	vp.AllowPanic()

	g := c05ReadGeo(fx.dev.img)
	c05CheckCounts(&g)
	c05CheckBitmapCsums(&g, fx.seed)
	// changed inode bits
	var changed uint64
	for i := 0; i < g.groups; i++ {
		off := g.inodeBitmapLoc(i) * g.bs
		for k := 0; k < g.bs; k++ {
			x := before[off+k] ^ g.img[off+k]
			for j := uint(0); j < 8; j++ {
				changed += uint64(x>>j) & 1
			}
		}
	}
	if err != nil {
		vp.Assert(changed == 0, "a refused inode allocation leaves the inode bitmaps as they were")
		vp.Assert(g.freeInodesSB() == freeBefore, "a refused inode allocation leaves the free count as it was")
		vp.Assert(freeBefore == 0, "an inode is refused only when none is free")
		vp.Cover("no free inode")
		return
	}
	vp.Assert(n >= 11, "reserved inodes are not handed out")
	vp.Assert(uint64(n) <= uint64(g.inodes), "inode number within the inode count")
	if n < 11 || uint64(n) > uint64(g.inodes) {
		return
	}
	// the bit of inode n is bit (n-1) mod inodesPerGroup of group (n-1) div inodesPerGroup
	var wasSet, nowSet uint64
	for i := 0; i < g.groups; i++ {
		off := g.inodeBitmapLoc(i) * g.bs
		for k := 0; k < g.ipg; k++ {
			me := vp.IteU64(uint32(i*g.ipg+k+1) == n, 1, 0)
			wasSet += me & (uint64(before[off+k/8]>>uint(k%8)) & 1)
			nowSet += me & (uint64(g.img[off+k/8]>>uint(k%8)) & 1)
		}
	}
	vp.Assert(wasSet == 0, "the inode handed out was free before")
	vp.Assert(nowSet == 1, "the inode handed out is marked in use in the bitmap of its group")
	vp.Assert(changed == 1, "exactly one inode bit changed")
	vp.Assert(g.freeInodesSB()+1 == freeBefore, "superblock free inodes went down by one")
	if n <= 32 {
		vp.Cover("inode from the first group")
	} else {
		vp.Cover("inode from the second group")
	}
}

func VP_C05_inode_alloc_1group() { c05AllocInode(1, false) }
func VP_C05_inode_alloc_spill()  { c05AllocInode(2, false) }
func VP_C05_inode_alloc_full()   { c05AllocInode(2, true) }

// C05.index_*: the group-index functions are inverse to the per-group numbering.
// inode n = idx + ipg*group + 1 (allocateInode) <-> blockGroupForInode(n) = group;
// block b = firstDataBlock + group*bpg + idx (allocateExtents) <-> blockGroupForBlock(b) = group.
func c05IndexInode(ipg uint32) {
	idx := vp.U32("idx")
	vp.Assume(idx < ipg)
	group := vp.U32("group")
	vp.Assume(group < 1<<16)
	n := int(idx) + int(ipg)*int(group) + 1
	vp.Assert(blockGroupForInode(n, ipg) == int(group), "blockGroupForInode inverts the inode numbering of allocateInode")
	vp.Cover("inode index")
}
func VP_C05_index_inode_32()   { c05IndexInode(32) }
func VP_C05_index_inode_8192() { c05IndexInode(8192) }

func c05IndexBlock(bpg uint32, fdb uint32) {
	idx := vp.U32("idx")
	vp.Assume(idx < bpg)
	group := vp.U32("group")
	vp.Assume(group < 1<<16)
	b := int(fdb) + int(bpg)*int(group) + int(idx)
	vp.AssertUnless("KF-C05-4", fdb == 0 && idx == 0, blockGroupForBlock(b, bpg) == int(group), "blockGroupForBlock inverts the block numbering of allocateExtents")
	vp.Cover("block index")
}
func VP_C05_index_block_1k()     { c05IndexBlock(8192, 1) }
func VP_C05_index_block_1k_256() { c05IndexBlock(256, 1) }
func VP_C05_index_block_4k()     { c05IndexBlock(32768, 0) }
func VP_C05_index_block_2k_256() { c05IndexBlock(256, 0) }

// groupDescriptorInodeTableBlocks / blockGroupCount / backup group list against the format.
func VP_C05_index_itable_blocks() {
	ipg := vp.U32("inodesPerGroup")
	vp.Assume(ipg%8 == 0)
	vp.Assume(ipg >= 8)
	vp.Assume(ipg <= 65536*8)
	const groups = 5 // concrete: inodeCount = inodesPerGroup*groups would be a symbolic product
	idx := vp.U32("index")
	vp.Assume(idx < groups)
	for _, bs := range []uint32{1024, 2048, 4096, 65536} {
		sb := &superblock{inodesPerGroup: ipg, inodeCount: ipg * groups, inodeSize: 256, blockSize: bs}
		got := groupDescriptorInodeTableBlocks(int(idx), sb)
		vp.Assert(got*uint64(bs) >= uint64(ipg)*256, "inode table holds inodesPerGroup inodes")
		vp.Assert((got-1)*uint64(bs) < uint64(ipg)*256, "inode table has no spare block")
	}
	vp.Cover("inode table size")
}

func VP_C05_index_backup_groups() {
	// concrete cross-check of the three places that decide which groups carry backups
	n := vp.Bound("backupgroups", 130, 800)
	list := calculateBackupSuperblockGroups(int64(n))
	inList := map[int64]bool{}
	for _, g := range list {
		inList[g] = true
	}
	for g := 1; g < n; g++ {
		vp.Assert(checkSuperBackup(uint64(g)) == c05HasBackup(g), "checkSuperBackup = groups 0, 1 and powers of 3, 5, 7")
		vp.Assert(inList[int64(g)] == c05HasBackup(g), "calculateBackupSuperblockGroups = the same set")
	}
	bc := vp.U64("blockCount")
	bpg := vp.U32("blocksPerGroup")
	vp.Assume(bpg >= 256)
	vp.Assume(bpg <= 65528)
	for _, k := range []uint64{1, 2, 5, 100} {
		// (k-1)*bpg < bc <= k*bpg  <=>  k groups
		in := vp.IteU64(bc > (k-1)*uint64(bpg), 1, 0) & vp.IteU64(bc <= k*uint64(bpg), 1, 0)
		sb := &superblock{blockCount: bc, blocksPerGroup: bpg}
		cnt := sb.blockGroupCount()
		vp.Assert(vp.IteU64(in == 1, cnt, k) == k, "blockGroupCount = ceil(blockCount/blocksPerGroup)")
	}
	vp.Cover("backup groups")
}

package ext4

import (
	"encoding/binary"
	"os"

	"github.com/diskfs/go-diskfs/filesystem/ext4/crc"
	"github.com/diskfs/go-diskfs/internal/vp"
)

// c20le16/32: little-endian field readers of the reference decoders (written out, no library call).
func c20le16(b []byte, o int) uint16 { return uint16(b[o]) | uint16(b[o+1])<<8 }
func c20le32(b []byte, o int) uint32 {
	return uint32(b[o]) | uint32(b[o+1])<<8 | uint32(b[o+2])<<16 | uint32(b[o+3])<<24
}

// c20InodeCsum: ext4 inode checksum as documented: crc32c(crc32c(crc32c(seed, le32(ino)), le32(gen)), inode
// bytes with both checksum fields zero). The CRC primitive itself is validated in VP_C20_crc32c_*.
func c20InodeCsum(b []byte, seed, ino uint32) uint32 {
	var n, g [4]byte
	binary.LittleEndian.PutUint32(n[:], ino)
	copy(g[:], b[0x64:0x68])
	c := crc.CRC32c(seed, n[:])
	c = crc.CRC32c(c, g[:])
	return crc.CRC32c(c, b)
}

// c20SealInode restricts the (symbolic) inode image to those whose stored checksum
// (i_checksum_lo at 0x7c, i_checksum_hi at 0x82) is the valid one.
func c20SealInode(b []byte, seed, ino uint32) {
	z := make([]byte, len(b))
	copy(z, b)
	z[0x7c], z[0x7d], z[0x82], z[0x83] = 0, 0, 0, 0
	var st [4]byte
	copy(st[0:2], b[0x7c:0x7e])
	copy(st[2:4], b[0x82:0x84])
	vp.Assume(binary.LittleEndian.Uint32(st[:]) == c20InodeCsum(z, seed, ino))
}

func c20SB(inodeSize uint16, blockSize uint32, huge bool) *superblock {
	sb := &superblock{inodeSize: inodeSize, blockSize: blockSize, checksumSeed: vp.U32("csumSeed")}
	sb.features.hugeFile = huge
	sb.features.metadataChecksums = true
	sb.features.extents = true
	return sb
}

// VP_C20_inode_fields: every byte of a 256-byte inode arbitrary (checksum valid): owner, group, size,
// link count, mode and type, times (34-bit seconds + nanoseconds) equal the documented on-disk fields.
func VP_C20_inode_fields() {
	b := vp.Bytes("inode", 256)
	ino := vp.U32("ino")
	sb := c20SB(256, 4096, vp.Bool("hugefile"))
	// not an extent-mapped inode and not a symlink here (VP_C20_inode_extent_root, VP_C20_inode_symlink_*)
	vp.Assume(b[0x22]&0x08 == 0)
	vp.Assume(b[1]&0xf0 != 0xa0)
	c20SealInode(b, sb.checksumSeed, ino)
	ref := make([]byte, 256)
	copy(ref, b)
	vp.NoPanic()
	in, err := inodeFromBytes(b, sb, ino)
	vp.AllowPanic()
	vp.Assert(err == nil, "an inode with a valid checksum decodes")
	if err != nil {
		return
	}
	vp.Cover("inode decoded")
	mode := c20le16(ref, 0)
	vp.Assert(in.number == ino, "inode number")
	vp.Assert(in.owner == uint32(c20le16(ref, 2))|uint32(c20le16(ref, 0x78))<<16, "uid = i_uid | i_uid_high<<16")
	vp.Assert(in.group == uint32(c20le16(ref, 0x18))|uint32(c20le16(ref, 0x7a))<<16, "gid = i_gid | i_gid_high<<16")
	vp.Assert(in.size == uint64(c20le32(ref, 4))|uint64(c20le32(ref, 0x6c))<<32, "size = i_size_lo | i_size_high<<32")
	vp.Assert(in.hardLinks == c20le16(ref, 0x1a), "link count")
	vp.Assert(uint16(in.fileType) == mode&0xf000, "file type = i_mode & 0xF000")
	vp.Assert(in.extendedAttributeBlock == uint64(c20le32(ref, 0x68))|uint64(c20le16(ref, 0x76))<<32, "i_file_acl lo|hi<<32")
	// mode as reported by Stat
	m := in.permissionsToMode()
	vp.Assert(uint16(m.Perm()) == mode&0o777, "permission bits")
	vp.Assert((m&os.ModeSetuid != 0) == (mode&0o4000 != 0), "setuid")
	vp.Assert((m&os.ModeSetgid != 0) == (mode&0o2000 != 0), "setgid")
	vp.Assert((m&os.ModeSticky != 0) == (mode&0o1000 != 0), "sticky")
	vp.Assert((m&os.ModeDir != 0) == (mode&0xf000 == 0x4000), "directory type bit")
	vp.Assert((m&os.ModeSymlink != 0) == (mode&0xf000 == 0xa000), "symlink type bit")
	st := in.stat()
	vp.Assert(st.UID == in.owner, "StatT.UID")
	vp.Assert(st.GID == in.group, "StatT.GID")
	vp.Assert(st.Nlink == in.hardLinks, "StatT.Nlink")
}

package ext4

import (
	"encoding/binary"
	"os"

	"github.com/diskfs/go-diskfs/filesystem/ext4/crc"
	"github.com/diskfs/go-diskfs/internal/vp"
)

// c20b2i: 1 if c else 0, without a branch. Comparisons of many bytes are folded with & into ONE
// obligation ("all bytes equal") instead of one obligation per byte: same claim, fewer solver calls.
func c20b2i(c bool) int { return vp.IteInt(c, 1, 0) }

// c20le16/32: little-endian field readers of the reference decoders (written out, no library call).
func c20le16(b []byte, o int) uint16 { return uint16(b[o]) | uint16(b[o+1])<<8 }
func c20le32(b []byte, o int) uint32 {
	return uint32(b[o]) | uint32(b[o+1])<<8 | uint32(b[o+2])<<16 | uint32(b[o+3])<<24
}

// c20InodeCsum: ext4 inode checksum as documented: crc32c(crc32c(crc32c(seed, le32(ino)), le32(gen)), inode
// bytes with both checksum fields zero). The CRC primitive itself is validated in VP_C20_crc32c_*.
func c20InodeCsum(b []byte, seed, ino uint32) uint32 {
	var n, g [4]byte
	binary.LittleEndian.PutUint32(n[:], ino)
	copy(g[:], b[0x64:0x68])
	c := crc.CRC32c(seed, n[:])
	c = crc.CRC32c(c, g[:])
	return crc.CRC32c(c, b)
}

// c20SealInode stores the valid checksum (i_checksum_lo at 0x7c, i_checksum_hi at 0x82) into the
// (symbolic) inode image.
func c20SealInode(b []byte, seed, ino uint32) {
	b[0x7c], b[0x7d], b[0x82], b[0x83] = 0, 0, 0, 0
	c := c20InodeCsum(b, seed, ino)
	b[0x7c], b[0x7d] = byte(c), byte(c>>8)
	b[0x82], b[0x83] = byte(c>>16), byte(c>>24)
}

func c20SB(inodeSize uint16, blockSize uint32, huge bool) *superblock {
	sb := &superblock{inodeSize: inodeSize, blockSize: blockSize, checksumSeed: vp.U32("csumSeed")}
	sb.features.hugeFile = huge
	sb.features.metadataChecksums = true
	sb.features.extents = true
	return sb
}

// VP_C20_inode_fields: every byte of a 256-byte inode arbitrary (checksum valid): owner, group, size,
// link count, mode and type, times (34-bit seconds + nanoseconds) equal the documented on-disk fields.
func VP_C20_inode_fields() {
	b := vp.Bytes("inode", 256)
	ino := vp.U32("ino")
	sb := c20SB(256, 4096, vp.Bool("hugefile"))
	// not an extent-mapped inode and not a symlink here (VP_C20_inode_extent_root, VP_C20_inode_symlink_*)
	vp.Assume(b[0x22]&0x08 == 0)
	vp.Assume(b[1]&0xf0 != 0xa0)
	c20SealInode(b, sb.checksumSeed, ino)
	ref := make([]byte, 256)
	copy(ref, b)
	vp.NoPanic()
	in, err := inodeFromBytes(b, sb, ino)
	vp.AllowPanic()
	vp.Assert(err == nil, "an inode with a valid checksum decodes")
	if err != nil {
		return
	}
	vp.Cover("inode decoded")
	mode := c20le16(ref, 0)
	vp.Assert(in.number == ino, "inode number")
	vp.Assert(in.owner == uint32(c20le16(ref, 2))|uint32(c20le16(ref, 0x78))<<16, "uid = i_uid | i_uid_high<<16")
	vp.Assert(in.group == uint32(c20le16(ref, 0x18))|uint32(c20le16(ref, 0x7a))<<16, "gid = i_gid | i_gid_high<<16")
	vp.Assert(in.size == uint64(c20le32(ref, 4))|uint64(c20le32(ref, 0x6c))<<32, "size = i_size_lo | i_size_high<<32")
	vp.Assert(in.hardLinks == c20le16(ref, 0x1a), "link count")
	vp.Assert(uint16(in.fileType) == mode&0xf000, "file type = i_mode & 0xF000")
	vp.Assert(in.extendedAttributeBlock == uint64(c20le32(ref, 0x68))|uint64(c20le16(ref, 0x76))<<32, "i_file_acl lo|hi<<32")
	// mode as reported by Stat
	m := in.permissionsToMode()
	vp.Assert(uint16(m.Perm()) == mode&0o777, "permission bits")
	vp.Assert((m&os.ModeSetuid != 0) == (mode&0o4000 != 0), "setuid")
	vp.Assert((m&os.ModeSetgid != 0) == (mode&0o2000 != 0), "setgid")
	vp.Assert((m&os.ModeSticky != 0) == (mode&0o1000 != 0), "sticky")
	vp.Assert((m&os.ModeDir != 0) == (mode&0xf000 == 0x4000), "directory type bit")
	vp.Assert((m&os.ModeSymlink != 0) == (mode&0xf000 == 0xa000), "symlink type bit")
	st := in.stat()
	vp.Assert(st.UID == in.owner, "StatT.UID")
	vp.Assert(st.GID == in.group, "StatT.GID")
	vp.Assert(st.Nlink == in.hardLinks, "StatT.Nlink")
	vp.Assert(st.Ino == ino, "StatT.Ino")
}

// c20RefTime: i_xtime (signed 32 bit) widened by the two epoch bits of i_xtime_extra; nanoseconds in the
// upper 30 bits (layout documentation, "Inode Timestamps").
func c20RefTime(b []byte, lo, extra int) (sec int64, nsec int64) {
	e := c20le32(b, extra)
	return int64(int32(c20le32(b, lo))) + int64(e&3)<<32, int64(e >> 2)
}

// VP_C20_inode_times: a 256-byte inode as mke2fs writes it (i_extra_isize = 32, nanoseconds < 1e9),
// every other byte arbitrary: atime/ctime/mtime/crtime are the 34-bit seconds + nanoseconds on disk.
func VP_C20_inode_times() {
	b := vp.Bytes("inode", 256)
	ino := vp.U32("ino")
	sb := c20SB(256, 4096, false)
	vp.Assume(b[0x22]&0x08 == 0)
	vp.Assume(b[1]&0xf0 != 0xa0)
	vp.Assume(c20le16(b, 0x80) == 32)
	for _, o := range []int{0x84, 0x88, 0x8c, 0x94} {
		vp.Assume(c20le32(b, o)>>2 < 1000000000)
	}
	c20SealInode(b, sb.checksumSeed, ino)
	ref := make([]byte, 256)
	copy(ref, b)
	in, err := inodeFromBytes(b, sb, ino)
	vp.Assert(err == nil, "an inode with a valid checksum decodes")
	if err != nil {
		return
	}
	s, n := c20RefTime(ref, 0x10, 0x88)
	vp.Assert(in.modifyTime.Unix() == s, "mtime seconds = int32(i_mtime) + (i_mtime_extra&3)<<32")
	vp.Assert(int64(in.modifyTime.Nanosecond()) == n, "mtime nanoseconds = i_mtime_extra>>2")
	s, n = c20RefTime(ref, 0x8, 0x8c)
	vp.Assert(in.accessTime.Unix() == s, "atime seconds")
	vp.Assert(int64(in.accessTime.Nanosecond()) == n, "atime nanoseconds")
	s, n = c20RefTime(ref, 0xc, 0x84)
	vp.Assert(in.changeTime.Unix() == s, "ctime seconds")
	vp.Assert(int64(in.changeTime.Nanosecond()) == n, "ctime nanoseconds")
	s, n = c20RefTime(ref, 0x90, 0x94)
	vp.Assert(in.createTime.Unix() == s, "crtime seconds")
	vp.Assert(int64(in.createTime.Nanosecond()) == n, "crtime nanoseconds")
	stt := in.stat()
	vp.Assert(stt.AccessTime.Unix() == in.accessTime.Unix(), "StatT.AccessTime")
	vp.Assert(stt.ChangeTime.Unix() == in.changeTime.Unix(), "StatT.ChangeTime")
	vp.Cover("times decoded")
}

// VP_C20_inode_fast_symlink: symlink with 1 <= i_size < 60: the target is the first i_size bytes of i_block.
func VP_C20_inode_fast_symlink() {
	b := vp.Bytes("inode", 256)
	ino := vp.U32("ino")
	sb := c20SB(256, 1024, false)
	vp.Assume(b[1]&0xf0 == 0xa0)
	size := c20le32(b, 4)
	vp.Assume(size >= 1)
	vp.Assume(size < 60)
	vp.Assume(c20le32(b, 0x6c) == 0)
	vp.Assume(b[0x22]&0x08 == 0) // fast symlinks carry no extent tree
	c20SealInode(b, sb.checksumSeed, ino)
	ref := make([]byte, 256)
	copy(ref, b)
	in, err := inodeFromBytes(b, sb, ino)
	vp.Assert(err == nil, "a fast symlink inode decodes")
	if err != nil {
		return
	}
	vp.Assert(in.fileType == fileTypeSymbolicLink, "type symlink")
	vp.Assert(len(in.linkTarget) == int(size), "target length = i_size")
	ok := 1
	for j := 0; j < 59; j++ {
		if j < int(size) && j < len(in.linkTarget) {
			ok &= c20b2i(in.linkTarget[j] == ref[0x28+j])
		}
	}
	vp.Assert(ok == 1, "target bytes = i_block bytes")
	vp.Assert(in.stat().LinkTarget == in.linkTarget, "StatT.LinkTarget")
	vp.Assert(in.permissionsToMode()&os.ModeSymlink != 0, "mode says symlink")
	vp.Cover("fast symlink decoded")
}

// VP_C20_inode_extent_root: an extent-mapped inode (EXT4_EXTENTS_FL) whose i_block holds a depth-0 root
// with n=0..4 extents: the inode's extent list is the on-disk one.
func VP_C20_inode_extent_root() {
	for n := 0; n <= 4; n++ {
		if !vp.Thorough() && n != 1 && n != 4 {
			continue
		}
		b := vp.Bytes("inode", 256)
		ino := vp.U32("ino")
		sb := c20SB(256, 1024, vp.Bool("hugefile"))
		vp.Assume(b[0x22]&0x08 != 0)
		vp.Assume(b[1]&0xf0 == 0x80) // regular file
		c20SetHeader(b[0x28:0x64], uint16(n), 4, 0)
		c20SealInode(b, sb.checksumSeed, ino)
		ref := make([]byte, 256)
		copy(ref, b)
		in, err := inodeFromBytes(b, sb, ino)
		vp.Assert(err == nil, "an extent-mapped inode decodes")
		if err != nil {
			return
		}
		vp.Assert(in.extents != nil, "extent-mapped inode has an extent tree")
		if in.extents == nil {
			return
		}
		got, err := in.extents.blocks(nil)
		vp.Assert(err == nil, "leaf root needs no device")
		vp.Assert(len(got) == n, "as many extents as eh_entries")
		for i := 0; i < n && i < len(got); i++ {
			fb, ln, st := c20RefLeaf(ref[0x28:0x64], i)
			vp.Assert(c20b2i(got[i].fileBlock == fb)&c20b2i(got[i].count == ln)&c20b2i(got[i].startingBlock == st) == 1,
				"inode root: ee_block, ee_len, ee_start")
		}
	}
	vp.Cover("extent roots in the inode decoded")
}

// VP_C20_inode_128: good-old 128-byte inodes (mke2fs -I 128): either refused, or decoded with the
// 128-byte layout (no extra fields, 32-bit signed seconds).
func VP_C20_inode_128() {
	b := vp.Bytes("inode", 128)
	ino := vp.U32("ino")
	sb := c20SB(128, 1024, false)
	vp.Assume(b[0x22]&0x08 == 0)
	vp.Assume(b[1]&0xf0 != 0xa0)
	ref := make([]byte, 128)
	copy(ref, b)
	vp.NoPanic()
	in, err := inodeFromBytes(b, sb, ino)
	vp.AllowPanic()
	if err != nil {
		vp.Cover("128-byte inode refused")
		return
	}
	vp.Assert(in.modifyTime.Unix() == int64(int32(c20le32(ref, 0x10))), "128-byte inode: mtime = signed i_mtime")
	vp.Assert(in.size == uint64(c20le32(ref, 4))|uint64(c20le32(ref, 0x6c))<<32, "128-byte inode: size")
	vp.Cover("128-byte inode decoded")
}

// VP_C20_readdir_info_mode: ReadDir's entries (directoryEntryInfo) report through Info() the inode's
// size, times and full mode (type and permission bits), like Stat does.
func VP_C20_readdir_info_mode() {
	b := vp.Bytes("inode", 256)
	ino := vp.U32("ino")
	sb := c20SB(256, 4096, false)
	vp.Assume(b[0x22]&0x08 == 0)
	vp.Assume(b[1]&0xf0 == 0x80) // a regular file
	c20SealInode(b, sb.checksumSeed, ino)
	mode := c20le16(b, 0)
	in, err := inodeFromBytes(b, sb, ino)
	if err != nil {
		vp.Assert(false, "inode decodes")
		return
	}
	de := &directoryEntryInfo{inode: in, directoryEntry: &directoryEntry{inode: ino, filename: "f", fileType: dirFileTypeRegular}}
	fi, err := de.Info()
	vp.Assert(err == nil, "Info() succeeds")
	if err != nil {
		return
	}
	vp.Assert(fi.Size() == int64(in.size), "Info().Size() = i_size")
	vp.Assert(fi.ModTime().Unix() == in.modifyTime.Unix(), "Info().ModTime() = mtime")
	vp.Assert(!fi.IsDir(), "regular file is not a directory")
	vp.Assert(fi.Mode()&os.ModeType == 0, "Info().Mode() type bits of a regular file")
	vp.Assert(uint16(fi.Mode().Perm()) == mode&0o777, "Info().Mode() carries the permission bits of i_mode")
	vp.Cover("ReadDir entry info")
}

package ext4

import (
	"os"

	"github.com/diskfs/go-diskfs/internal/vp"
)

// C05.mkdir_dirs_count_group / C05.dir_growth_fifth_extent: directory bookkeeping in states that small
// scenarios never reach:
//   - the inodes of group 0 are used up, so a new directory's inode lies in group 1 while its parent
//     (the root) lies in group 0: bg_used_dirs_count counts the directories whose INODE lies in the
//     group (e2fsck pass 5), so it must go up in group 1 and stay as it is in group 0;
//   - a directory grown block by block while other files take the blocks in between, so that every
//     directory block is an extent of its own: the 5th extent does not fit the 4 slots of the inode.
// Both run the real operations on a volume made by the current tree's Create and check the image with
// the reference checker c05xCheckImage after the steps that matter.

// c05xLookup: inode number stored for `name` in directory dirIno (reference directory reader; 0 = absent).
func c05xLookup(g *c05Geo, dirIno int, name string) int {
	t := c05xInodeTree(g, dirIno)
	limit := g.bs
	if g.csum {
		limit -= 12
	}
	found := 0
	for k := range t.dataStart {
		for j := 0; j < t.dataLen[k]; j++ {
			blk := g.img[(t.dataStart[k]+j)*g.bs : (t.dataStart[k]+j+1)*g.bs]
			pos := 0
			for pos < limit {
				rec := int(c05le16(blk, pos+4))
				nl := int(blk[pos+6])
				if rec < 12 || pos+rec > limit {
					break
				}
				if int(c05le32(blk, pos)) != 0 && nl == len(name) && string(blk[pos+8:pos+8+nl]) == name {
					found = int(c05le32(blk, pos))
				}
				pos += rec
			}
		}
	}
	return found
}

func c05xTouch(fsys *FileSystem, name string) bool {
	vp.NoPanic()
	_, err := fsys.OpenFile(name, os.O_CREATE|os.O_RDWR)
	vp.AllowPanic()
	vp.Assert(err == nil, "a file can be created while inodes are free")
	return err == nil
}

// VP_C05_mkdir_dirs_count_group: 2 groups of 16 inodes; files are created until group 0 has no free
// inode (the last of them gets inode 16 = the last inode of group 0); then Mkdir("d").
func VP_C05_mkdir_dirs_count_group() {
	fsys, dev, seed := c05Create(c05CreateCase{size: 512 * 1024, spb: 2, bpg: 256, features: c05Plain, inodes: 32})
	if fsys == nil {
		return
	}
	g0 := c05ReadGeo(dev.img)
	vp.Assert(g0.groups == 2 && g0.ipg == 16, "fixture: two groups of 16 inodes")
	if g0.groups != 2 || g0.ipg != 16 {
		return
	}
	free := int(c05ZeroBits(dev.img, g0.inodeBitmapLoc(0)*g0.bs, 0, g0.ipg))
	vp.Assert(free >= 1 && free <= 6, "fixture: a few free inodes in group 0 after Create")
	for i := 0; i < free; i++ {
		if !c05xTouch(fsys, "f"+string(rune('0'+i))) {
			return
		}
	}
	g1 := c05ReadGeo(dev.img)
	vp.Assert(c05ZeroBits(dev.img, g1.inodeBitmapLoc(0)*g1.bs, 0, g1.ipg) == 0, "fixture: group 0 has no free inode left")
	vp.Assert(c05xLookup(&g1, 2, "f"+string(rune('0'+free-1))) == 16, "the file created last has the last inode of group 0")
	c05xCheckImage(dev.img, seed, free)
	vp.Cover("group 0 out of inodes, image consistent")
	dirs0, dirs1 := g1.usedDirsGD(0), g1.usedDirsGD(1)

	vp.NoPanic()
	err := fsys.Mkdir("d")
	vp.AllowPanic()
	vp.Assert(err == nil, "a directory can be made while group 1 has free inodes")
	if err != nil {
		return
	}
	g := c05ReadGeo(dev.img)
	ino := c05xLookup(&g, 2, "d")
	vp.Assert(ino > 16 && ino <= 32, "the new directory's inode is a free one, i.e. one of group 1")
	if ino <= 16 || ino > 32 {
		return
	}
	in := g.readInode(ino)
	vp.Assert(in.isDir && in.links == 2, "the new inode is a directory with links . and its name")
	vp.Assert(g.usedDirsGD(1) == dirs1+1, "used-directories count of the group holding the new directory's inode went up by one")
	vp.Assert(g.usedDirsGD(0) == dirs0, "used-directories count of the parent's group is unchanged")
	c05xCheckImage(dev.img, seed, free+1)

	// one level deeper: parent d (group 1), child in group 1 too; and a file in it
	vp.NoPanic()
	err = fsys.Mkdir("d/e")
	vp.AllowPanic()
	vp.Assert(err == nil, "a directory can be made in a directory of group 1")
	if err != nil {
		return
	}
	g = c05ReadGeo(dev.img)
	vp.Assert(g.usedDirsGD(1) == dirs1+2, "second directory counted in group 1")
	vp.Assert(g.usedDirsGD(0) == dirs0, "group 0 still unchanged")
	c05xCheckImage(dev.img, seed, free+1)
	vp.Cover("directory made in another group than its parent, image consistent")
}

func c05xLongName(i int) string {
	b := make([]byte, 250)
	for k := range b {
		b[k] = 'a' + byte(i)
	}
	return string(b)
}

// VP_C05_dir_growth_fifth_extent: directory d receives files with 250-byte names (3 entries per 1 KiB
// block); every file gets one data block at once, so the block after d's last block is always taken
// when d needs its next block: d's blocks are separate extents. After the 12th file d has 4 extents
// (full inode root); the 13th needs a 5th. The image is checked after every step in which d grew.
// What the library does with 5 extents (leaf block + depth 1, or moving the directory to fewer
// extents) is its choice: the checker accepts any well-formed tree and recounts i_blocks, the claims
// on blocks, the bitmaps and the counters.
func VP_C05_dir_growth_fifth_extent() {
	fsys, dev, seed := c05Create(c05CreateCase{size: 512 * 1024, spb: 2, bpg: 256, features: c05Plain})
	if fsys == nil {
		return
	}
	vp.NoPanic()
	err := fsys.Mkdir("d")
	vp.AllowPanic()
	vp.Assert(err == nil, "a directory can be made on a fresh volume")
	if err != nil {
		return
	}
	g := c05ReadGeo(dev.img)
	dIno := c05xLookup(&g, 2, "d")
	vp.Assert(dIno >= 11, "fixture: d has an inode")
	if dIno < 11 {
		return
	}
	data := vp.Bytes("data", 20)
	files := vp.Bound("dirgrowfiles", 13, 16)
	dirBlocks, maxExt := 1, 1
	var fileInos []int
	for i := 0; i < files; i++ {
		name := "d/" + c05xLongName(i)
		vp.NoPanic()
		err := c05WriteFile(fsys, name, data)
		vp.AllowPanic()
		vp.Assert(err == nil, "a file with a long name can be created and written in the directory")
		if err != nil {
			return
		}
		g = c05ReadGeo(dev.img)
		t := c05xInodeTree(&g, dIno)
		nb := 0
		for _, l := range t.dataLen {
			nb += l
		}
		if len(t.dataLen) > maxExt {
			maxExt = len(t.dataLen)
		}
		fi := c05xLookup(&g, dIno, c05xLongName(i))
		vp.Assert(fi >= 11, "the new name is in the directory")
		fileInos = append(fileInos, fi)
		if nb != dirBlocks {
			vp.Assert(nb == dirBlocks+1, "the directory grows by one block when a block is full")
			dirBlocks = nb
			c05xCheckImage(dev.img, seed, 1)
			if dirBlocks == 4 {
				vp.Assert(len(t.dataLen) == 4 && t.depth == 0, "fixture: four separate extents fill the root of the directory's inode")
				vp.Cover("directory with 4 extents in the inode root")
			}
			if dirBlocks == 5 {
				vp.Cover("fifth directory block added")
			}
		}
	}
	vp.Assert(dirBlocks >= 5, "fixture: the directory needed a fifth block")
	vp.Assert(maxExt == 4, "fixture: the directory had 4 extents before the fifth block")
	// every file is still there with its own inode and its bytes (reference reader)
	g = c05ReadGeo(dev.img)
	for i, fi := range fileInos {
		vp.Assert(c05xLookup(&g, dIno, c05xLongName(i)) == fi, "every name still leads to its inode after the directory moved")
		in := g.readInode(fi)
		vp.Assert(in.size == len(data) && in.links == 1, "every file keeps its size")
		if in.size == len(data) {
			got := c05FileData(&g, fi)
			ok := 1
			for k := range data {
				ok &= c20b2i(got[k] == data[k])
			}
			vp.Assert(ok == 1, "every file keeps its bytes (no directory block written over a file block)")
		}
	}
	// and the library lists them
	vp.NoPanic()
	ents, err := fsys.ReadDir("d")
	vp.AllowPanic()
	vp.Assert(err == nil, "the grown directory lists")
	vp.Assert(len(ents) == files, "the listing has every file")
	c05xCheckImage(dev.img, seed, 1)
	vp.Cover("directory grown past four extents, image consistent")
}

package ext4

import (
	"fmt"
	"io"
	"io/fs"
	"os"
	"time"

	"github.com/diskfs/go-diskfs/backend"
	"github.com/diskfs/go-diskfs/internal/vp"
	"github.com/google/uuid"
)

// c04Flat is a flat in-memory backend.Storage (concrete geometry, possibly symbolic bytes).
type c04Flat struct {
	img []byte
	pos int64
}

func (d *c04Flat) ReadAt(p []byte, off int64) (int, error) {
	if off < 0 {
		return 0, fmt.Errorf("c04Flat: negative offset")
	}
	if off >= int64(len(d.img)) {
		return 0, io.EOF
	}
	n := copy(p, d.img[off:])
	if n < len(p) {
		return n, io.EOF
	}
	return n, nil
}

func (d *c04Flat) WriteAt(p []byte, off int64) (int, error) {
	if off < 0 || off+int64(len(p)) > int64(len(d.img)) {
		return 0, fmt.Errorf("c04Flat: write outside device")
	}
	copy(d.img[off:], p)
	return len(p), nil
}
func (d *c04Flat) Read(p []byte) (int, error) {
	n, err := d.ReadAt(p, d.pos)
	d.pos += int64(n)
	return n, err
}
func (d *c04Flat) Seek(offset int64, whence int) (int64, error) {
	switch whence {
	case io.SeekStart:
		d.pos = offset
	case io.SeekCurrent:
		d.pos += offset
	case io.SeekEnd:
		d.pos = int64(len(d.img)) + offset
	}
	return d.pos, nil
}
func (d *c04Flat) Close() error                            { return nil }
func (d *c04Flat) Stat() (fs.FileInfo, error)              { return c04Info{d}, nil }
func (d *c04Flat) Sys() (*os.File, error)                  { return nil, fmt.Errorf("c04Flat: no os.File") }
func (d *c04Flat) Writable() (backend.WritableFile, error) { return d, nil }
func (d *c04Flat) Path() string                            { return "" }

type c04Info struct{ d *c04Flat }

func (i c04Info) Name() string       { return "c04" }
func (i c04Info) Size() int64        { return int64(len(i.d.img)) }
func (i c04Info) Mode() fs.FileMode  { return 0o644 }
func (i c04Info) ModTime() time.Time { return time.Time{} }
func (i c04Info) IsDir() bool        { return false }
func (i c04Info) Sys() interface{}   { return nil }

type c04Rand struct{ n byte }

func (r *c04Rand) Read(p []byte) (int, error) {
	for i := range p {
		r.n++
		p[i] = r.n
	}
	return len(p), nil
}

func VP_C04_probe() {
	size := int64(1 << 20)
	dev := &c04Flat{img: make([]byte, size)}
	uuid.SetRand(&c04Rand{})
	vp.NoPanic()
	fsys, err := Create(dev, size, 0, 512, &Params{SectorsPerBlock: 2, BlocksPerGroup: 256, Features: []FeatureOpt{WithFeatureHasJournal(false), WithFeatureReservedGDTBlocksForExpansion(false)}})
	vp.AllowPanic()
	vp.Assert(err == nil, "create ok")
	vp.Assert(fsys != nil, "fs")
	vp.Cover("created")
}

package ext4

import (
	"github.com/diskfs/go-diskfs/internal/vp"
)

// C05.layout_*: the arithmetic facts about the mkfs-time layout that e2fsck cross-checks, decided over
// buildGroupDescriptorsFromSuperblock for every superblock Create can hand to it.
//
// Symbolic: blockCount, inodesPerGroup, reserved GDT blocks (0 or 256).
// Case-split: block size, blocksPerGroup (symbolic blocksPerGroup makes blockCount/blocksPerGroup a
// symbolic division that the solvers do not finish), flex_bg group size (0 = no flex_bg), descriptor size, group count.
//
// Domain = what Create computes from accepted parameters (ext4.go Create):
//   blocksPerGroup in [256, min(8*blocksize, 65528)], multiple of 8
//   group count (as the library computes it) = ceil(blockCount/blocksPerGroup)
//   inodesPerGroup multiple of 8, inodeCount = inodesPerGroup*groups, inodeSize 256
//   firstDataBlock = 1 iff blocksize == 1024, sparse_super on (default; the code never looks at the flag)

// c05Region is a half-open block range [lo,hi).
type c05Region struct{ lo, hi uint64 }

// c05Overlap = |a ∩ b| computed branch-free.
func c05Overlap(a, b c05Region) uint64 {
	lo := vp.IteU64(a.lo > b.lo, a.lo, b.lo)
	hi := vp.IteU64(a.hi < b.hi, a.hi, b.hi)
	return vp.IteU64(hi > lo, hi-lo, 0)
}

func c05Disjoint(a, b c05Region) bool {
	aBefore := a.hi <= b.lo
	bBefore := b.hi <= a.lo
	return aBefore != bBefore || aBefore
}

// c05HasBackup: sparse_super rule of the on-disk format: groups 0, 1 and powers of 3, 5, 7.
func c05HasBackup(g int) bool {
	if g <= 1 {
		return true
	}
	for _, n := range []int{3, 5, 7} {
		for x := n; x <= g; x *= n {
			if x == g {
				return true
			}
		}
	}
	return false
}

func c05LayoutSB(bs, bpg uint32, flexSize uint64, gdSize uint16, groups int) *superblock {
	maxBPG := bs * 8
	if maxBPG > 65528 {
		maxBPG = 65528
	}
	if bpg < 256 || bpg > maxBPG || bpg%8 != 0 {
		panic("c05: blocksPerGroup outside the range Create accepts")
	}
	bc := vp.U64("blockCount")
	vp.Assume(bc > uint64(groups-1)*uint64(bpg))
	vp.Assume(bc <= uint64(groups)*uint64(bpg))
	ipg := vp.U32("inodesPerGroup")
	vp.Assume(ipg%8 == 0)
	vp.Assume(ipg >= 8)
	vp.Assume(ipg <= 8*bs) // one bitmap block per group; Create accepts more (KF-C05-3, see VP_C05_create_*)
	resv := vp.IteU64(vp.Bool("resizeInode"), 256, 0)
	sb := &superblock{
		blockCount:          bc,
		blocksPerGroup:      bpg,
		clustersPerGroup:    bpg,
		inodesPerGroup:      ipg,
		inodeCount:          ipg * uint32(groups),
		inodeSize:           256,
		blockSize:           bs,
		groupDescriptorSize: gdSize,
		reservedGDTBlocks:   uint16(resv),
		logGroupsPerFlex:    1,
	}
	if bs == 1024 {
		sb.firstDataBlock = 1
	}
	sb.features = defaultFeatureFlags
	sb.features.fs64Bit = gdSize == 64
	sb.features.flexBlockGroups = flexSize != 0
	if flexSize != 0 {
		sb.logGroupsPerFlex = flexSize
	}
	return sb
}

// c05Layout: the library computes `groups` descriptors for this case.
func c05Layout(bs, bpg32 uint32, flexSize uint64, gdSize uint16, groups int) {
	sb := c05LayoutSB(bs, bpg32, flexSize, gdSize, groups)
	vp.Unwind(groups + 2)
	vp.NoPanic()
	gdt := buildGroupDescriptorsFromSuperblock(sb)
	vp.AllowPanic()

	bc, bpg, ipg := sb.blockCount, uint64(sb.blocksPerGroup), uint64(sb.inodesPerGroup)
	fdb := uint64(sb.firstDataBlock)
	vp.Assert(len(gdt.descriptors) == groups, "descriptor count = ceil(blockCount/blocksPerGroup) (library's own count)")
	if len(gdt.descriptors) != groups {
		return
	}

	// (0) the on-disk format defines the group count as ceil((blockCount-firstDataBlock)/blocksPerGroup):
	// e2fsck derives it from the superblock and demands inodeCount = inodesPerGroup*groups.
	// The library's count differs exactly when the last group starts at or after the end.
	lastStart := fdb + uint64(groups-1)*bpg
	emptyTail := lastStart >= bc
	vp.AssertUnless("KF-C05-1", emptyTail, !emptyTail, "group count = ceil((blockCount-firstDataBlock)/blocksPerGroup): the last group is not empty")
	if emptyTail {
		return
	}

	// reference sizes
	itb := (ipg*256 + uint64(bs) - 1) / uint64(bs)
	gdtBlocks := (uint64(groups)*uint64(gdSize) + uint64(bs) - 1) / uint64(bs)
	backupLen := 1 + gdtBlocks + uint64(sb.reservedGDTBlocks)

	// class of inputs Create accepts although no valid layout exists: the fixed part of a group
	// (backup area + 2 bitmaps + inode table, times the flex size for a flex owner) does not fit into
	// the group that has to hold it, or the inode bitmap needs more than one block.
	// KF-C05-2 = the per-group metadata does not fit into the (possibly short last) group.
	var groupReg, backup [8]c05Region
	var bb, ib, it [8]c05Region
	for g := 0; g < groups; g++ {
		gs := fdb + uint64(g)*bpg
		ge := vp.IteU64(gs+bpg < bc, gs+bpg, bc)
		groupReg[g] = c05Region{gs, ge}
		if c05HasBackup(g) {
			backup[g] = c05Region{gs, gs + backupLen}
		}
		d := gdt.descriptors[g]
		bb[g] = c05Region{d.blockBitmapLocation, d.blockBitmapLocation + 1}
		ib[g] = c05Region{d.inodeBitmapLocation, d.inodeBitmapLocation + 1}
		it[g] = c05Region{d.inodeTableLocation, d.inodeTableLocation + itb}
	}

	// does the metadata fit where the format wants it? (independent of the library's placement)
	fits := true
	if flexSize == 0 {
		for g := 0; g < groups; g++ {
			need := 2 + itb
			if c05HasBackup(g) {
				need += backupLen
			}
			if groupReg[g].hi-groupReg[g].lo < need {
				fits = false
			}
		}
	} else {
		for o := 0; o < groups; o += int(flexSize) {
			n := groups - o
			if n > int(flexSize) {
				n = int(flexSize)
			}
			need := uint64(n) * (2 + itb)
			if c05HasBackup(o) {
				need += backupLen
			}
			// the packed metadata of the flex group starts in its first group and must stay inside the filesystem
			// and must not run into the backup area of a later group
			end := groupReg[o].lo + need
			if end > bc {
				fits = false
			}
			for h := o + 1; h < groups; h++ {
				if c05HasBackup(h) {
					if end > groupReg[h].lo {
						fits = false
					}
				}
			}
		}
		// every group that holds a backup must be long enough for it
		for g := 0; g < groups; g++ {
			if c05HasBackup(g) {
				if groupReg[g].hi-groupReg[g].lo < backupLen {
					fits = false
				}
			}
		}
	}
	for g := 0; g < groups; g++ {
		d := gdt.descriptors[g]
		vp.Assert(d.number == uint16(g), "descriptor number")
		vp.Assert(d.size == gdSize, "descriptor size")
		vp.Assert(uint64(d.freeInodes) == ipg, "all inodes of a fresh group are free")
		for _, r := range []c05Region{bb[g], ib[g], it[g]} {
			// (1) inside the filesystem
			vp.AssertUnless("KF-C05-2", !fits, r.lo >= fdb, "bitmaps and inode table not before the first data block")
			vp.AssertUnless("KF-C05-2", !fits, r.hi <= bc, "bitmaps and inode table end inside the filesystem")
			vp.AssertUnless("KF-C05-2", !fits, r.lo < r.hi, "no wrap-around")
			// (2) without flex_bg: inside the own group
			if flexSize == 0 {
				vp.AssertUnless("KF-C05-2", !fits, r.lo >= groupReg[g].lo, "without flex_bg metadata starts in its own group")
				vp.AssertUnless("KF-C05-2", !fits, r.hi <= groupReg[g].hi, "without flex_bg metadata ends in its own group")
			}
			// (4) not on a superblock/GDT backup (of any group)
			for h := 0; h < groups; h++ {
				if c05HasBackup(h) {
					vp.AssertUnless("KF-C05-2", !fits, c05Disjoint(r, backup[h]), "bitmaps and inode table do not cover a superblock/GDT copy")
				}
			}
		}
		// (3) pairwise disjoint
		vp.AssertUnless("KF-C05-2", !fits, c05Disjoint(bb[g], ib[g]), "block bitmap / inode bitmap disjoint")
		vp.AssertUnless("KF-C05-2", !fits, c05Disjoint(bb[g], it[g]), "block bitmap / inode table disjoint")
		vp.AssertUnless("KF-C05-2", !fits, c05Disjoint(ib[g], it[g]), "inode bitmap / inode table disjoint")
		for h := g + 1; h < groups; h++ {
			for _, r := range []c05Region{bb[g], ib[g], it[g]} {
				for _, q := range []c05Region{bb[h], ib[h], it[h]} {
					vp.AssertUnless("KF-C05-2", !fits, c05Disjoint(r, q), "metadata of different groups disjoint")
				}
			}
		}
	}
	// (5) free count = blocks of the group minus the metadata blocks lying in it
	for g := 0; g < groups; g++ {
		d := gdt.descriptors[g]
		used := c05Overlap(backup[g], groupReg[g])
		if flexSize == 0 {
			// own-group placement was asserted above
			used += 2 + itb
		} else {
			for h := 0; h < groups; h++ {
				used += c05Overlap(bb[h], groupReg[g]) + c05Overlap(ib[h], groupReg[g]) + c05Overlap(it[h], groupReg[g])
			}
		}
		vp.AssertUnless("KF-C05-2", !fits, uint64(d.freeBlocks)+used == groupReg[g].hi-groupReg[g].lo,
			"free blocks of the group = its blocks minus the metadata blocks lying in it")
	}
	if fits {
		vp.Cover("geometry with room for the metadata: layout checked")
	}
}

func c05LayoutThorough(bs, bpg uint32, flexSize uint64, gdSize uint16, groups int) {
	if vp.Thorough() {
		c05Layout(bs, bpg, flexSize, gdSize, groups)
	}
}

// 1 KiB blocks (firstDataBlock = 1), smallest and largest group size
func VP_C05_layout_1k_b256_noflex_g1()  { c05Layout(1024, 256, 0, 64, 1) }
func VP_C05_layout_1k_b256_noflex_g2()  { c05Layout(1024, 256, 0, 64, 2) }
func VP_C05_layout_1k_b256_noflex_g3()  { c05Layout(1024, 256, 0, 32, 3) }
func VP_C05_layout_1k_b256_flex8_g2()   { c05Layout(1024, 256, 8, 64, 2) }
func VP_C05_layout_1k_b256_flex2_g3()   { c05Layout(1024, 256, 2, 64, 3) }
func VP_C05_layout_1k_b8192_noflex_g2() { c05Layout(1024, 8192, 0, 64, 2) }
func VP_C05_layout_1k_b8192_flex8_g1()  { c05Layout(1024, 8192, 8, 64, 1) }
func VP_C05_layout_1k_b8192_flex8_g3()  { c05Layout(1024, 8192, 8, 64, 3) }
func VP_C05_layout_1k_b1000_noflex_g2() { c05Layout(1024, 1000, 0, 64, 2) }
func VP_C05_layout_1k_b256_noflex_g4()  { c05LayoutThorough(1024, 256, 0, 64, 4) }
func VP_C05_layout_1k_b8192_flex2_g4()  { c05LayoutThorough(1024, 8192, 2, 64, 4) }
func VP_C05_layout_1k_b4088_flex2_g5()  { c05LayoutThorough(1024, 4088, 2, 64, 5) }
func VP_C05_layout_1k_b256_flex4_g5()   { c05LayoutThorough(1024, 256, 4, 32, 5) }

// larger blocks (firstDataBlock = 0)
func VP_C05_layout_4k_b32768_noflex_g2() { c05Layout(4096, 32768, 0, 64, 2) }
func VP_C05_layout_4k_b32768_flex8_g3()  { c05Layout(4096, 32768, 8, 64, 3) }
func VP_C05_layout_4k_b256_flex2_g3()    { c05Layout(4096, 256, 2, 32, 3) }
func VP_C05_layout_4k_b32768_noflex_g4() { c05LayoutThorough(4096, 32768, 0, 64, 4) }
func VP_C05_layout_2k_b16384_flex4_g4()  { c05LayoutThorough(2048, 16384, 4, 64, 4) }
func VP_C05_layout_64k_b65528_flex8_g2() { c05Layout(65536, 65528, 8, 64, 2) }

package ext4

import (
	"github.com/diskfs/go-diskfs/internal/vp"
	"github.com/diskfs/go-diskfs/internal/vp/vpdev"
)

// C20.inode_location_read*: on an image made by mke2fs, inode n lives at
//   inodeTable((n-1)/ipg)*blockSize + ((n-1)%ipg)*inodeSize
// (the LAST inode of group g, n = (g+1)*ipg, is the last slot of group g's table, not slot ipg-1 of
// the next group's). Fixture: see zz_vp_c04_inodeloc.go (3 groups of 8 inodes, tables at blocks 5, 40, 77).

// VP_C20_inode_location_read: the device content is arbitrary; for any inode number of the filesystem
// readInodeRaw delivers the inodeSize bytes found at the reference location.
func VP_C20_inode_location_read() {
	dev := vpdev.NewMemDev("disk", 128*cilBS)
	dev.UF = true
	dev.NoWrites = true
	fs := cilFS(dev)
	n := cilNumber()
	vp.NoPanic()
	raw, err := fs.readInodeRaw(n)
	vp.AllowPanic()
	vp.Assert(err == nil, "every inode of the filesystem can be read")
	if err != nil {
		return
	}
	vp.Assert(len(raw) == cilISize, "one inode is delivered")
	if len(raw) != cilISize {
		return
	}
	want := cilRefOffset(n)
	ok := 1
	for i := 0; i < cilISize; i++ {
		ok &= c20b2i(raw[i] == dev.ByteAt(want+int64(i)))
	}
	vp.Assert(ok == 1, "inode n = the bytes at inodeTable((n-1)/ipg)*blockSize + ((n-1)%ipg)*inodeSize")
	cilCovers(n)
	vp.Cover("inode bytes read")
}

// cilRegionDev: arbitrary device on which ONE inode slot (at a concrete offset) holds bytes prepared by
// the harness; a read anywhere else in the inode tables is reported.
type cilRegionDev struct {
	vpdev.MemDev
	off int64
	raw []byte
}

func (d *cilRegionDev) ReadAt(p []byte, off int64) (int, error) {
	if off == d.off && len(p) <= len(d.raw) {
		copy(p, d.raw)
		return len(p), nil
	}
	for g := 0; g < cilGroups; g++ {
		lo := int64(cilTables[g]) * cilBS
		if off+int64(len(p)) > lo && off < lo+cilIPG*cilISize {
			vp.Assert(false, "the inode is read from the slot the format assigns to its number")
			return 0, vpdev.ErrOther
		}
	}
	return d.MemDev.ReadAt(p, off)
}

// VP_C20_inode_location_read_decoded: the inode bytes at the reference location are arbitrary and valid
// (checksum sealed for that inode number): readInode(n) decodes exactly them - for the inode numbers at
// and around every group boundary (concrete case split, the location of the prepared slot is concrete).
func VP_C20_inode_location_read_decoded() {
	for _, n := range []uint32{1, 2, cilIPG - 1, cilIPG, cilIPG + 1, 2*cilIPG - 1, 2 * cilIPG, 2*cilIPG + 1, cilIPG * cilGroups} {
		raw := vp.Bytes("inode", cilISize)
		vp.Assume(raw[0x22]&0x08 == 0)  // no extent tree to follow
		vp.Assume(raw[1]&0xf0 != 0xa0) // not a symlink
		dev := &cilRegionDev{}
		dev.Name = "disk"
		dev.Size = 128 * cilBS
		dev.UF = true
		dev.NoWrites = true
		fs := cilFS(&dev.MemDev)
		fs.backend = dev
		g, k := int(n-1)/cilIPG, int(n-1)%cilIPG
		dev.off = int64(cilTables[g])*cilBS + int64(k)*cilISize
		dev.raw = raw
		c20SealInode(raw, fs.superblock.checksumSeed, n)
		vp.NoPanic()
		in, err := fs.readInode(n)
		vp.AllowPanic()
		vp.Assert(err == nil, "a valid inode at its reference location reads")
		if err != nil {
			return
		}
		vp.Assert(in.number == n, "decoded: number")
		vp.Assert(in.owner == uint32(c20le16(raw, 2))|uint32(c20le16(raw, 0x78))<<16, "decoded: uid of the bytes at the reference location")
		vp.Assert(in.hardLinks == c20le16(raw, 0x1a), "decoded: link count of the bytes at the reference location")
		vp.Assert(in.size == uint64(c20le32(raw, 4))|uint64(c20le32(raw, 0x6c))<<32, "decoded: size of the bytes at the reference location")
	}
	vp.Cover("inodes at group boundaries decoded")
}

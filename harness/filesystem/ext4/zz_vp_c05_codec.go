package ext4

import (
	"github.com/diskfs/go-diskfs/filesystem/ext4/crc"
	"github.com/diskfs/go-diskfs/internal/vp"
	"github.com/diskfs/go-diskfs/util/bitmap"
	"github.com/google/uuid"
)

// C05.gd_codec_*, C05.sb_codec_*, C05.bitmap_csum_range, C05.extent_root: what the encoders write is
// what e2fsck (= the documented on-disk format) reads. Every counter/location field is symbolic.

func c05SymGD(size uint16) *groupDescriptor {
	return &groupDescriptor{
		blockBitmapLocation: vp.U64("bbLoc"), inodeBitmapLocation: vp.U64("ibLoc"), inodeTableLocation: vp.U64("itLoc"),
		freeBlocks: vp.U32("freeBlocks"), freeInodes: vp.U32("freeInodes"), usedDirectories: vp.U32("usedDirs"),
		flags:                           blockGroupFlags{inodesUninitialized: vp.Bool("iUninit"), blockBitmapUninitialized: vp.Bool("bUninit"), inodeTableZeroed: vp.Bool("zeroed")},
		snapshotExclusionBitmapLocation: vp.U64("exclLoc"),
		blockBitmapChecksum:             vp.U32("bbCsum"), inodeBitmapChecksum: vp.U32("ibCsum"), unusedInodes: vp.U32("unused"),
		size: size, number: vp.U16("group"),
	}
}

// VP_C05_gd_codec: 64-byte descriptor with metadata_csum, or (symbolic choice) a 32-byte descriptor.
func VP_C05_gd_codec() {
	if vp.Bool("desc32") {
		c05GDCodec32()
		return
	}
	gd := c05SymGD(64)
	seed := vp.U32("csumSeed")
	vp.NoPanic()
	b := gd.toBytes(gdtChecksumMetadata, seed)
	vp.AllowPanic()
	vp.Assert(len(b) == 64, "descriptor is 64 bytes")
	if len(b) != 64 {
		return
	}
	vp.Assert(c05le32(b, 0x0)|c05le32(b, 0x20)<<32 == gd.blockBitmapLocation, "bg_block_bitmap lo@0x00 hi@0x20")
	vp.Assert(c05le32(b, 0x4)|c05le32(b, 0x24)<<32 == gd.inodeBitmapLocation, "bg_inode_bitmap lo@0x04 hi@0x24")
	vp.Assert(c05le32(b, 0x8)|c05le32(b, 0x28)<<32 == gd.inodeTableLocation, "bg_inode_table lo@0x08 hi@0x28")
	vp.Assert(c05le16(b, 0xc)|c05le16(b, 0x2c)<<16 == uint64(gd.freeBlocks), "bg_free_blocks_count lo@0x0c hi@0x2c")
	vp.Assert(c05le16(b, 0xe)|c05le16(b, 0x2e)<<16 == uint64(gd.freeInodes), "bg_free_inodes_count lo@0x0e hi@0x2e")
	vp.Assert(c05le16(b, 0x10)|c05le16(b, 0x30)<<16 == uint64(gd.usedDirectories), "bg_used_dirs_count lo@0x10 hi@0x30")
	vp.Assert(c05le16(b, 0x1c)|c05le16(b, 0x32)<<16 == uint64(gd.unusedInodes), "bg_itable_unused lo@0x1c hi@0x32")
	vp.Assert(c05le16(b, 0x18)|c05le16(b, 0x38)<<16 == uint64(gd.blockBitmapChecksum), "bg_block_bitmap_csum lo@0x18 hi@0x38")
	vp.Assert(c05le16(b, 0x1a)|c05le16(b, 0x3a)<<16 == uint64(gd.inodeBitmapChecksum), "bg_inode_bitmap_csum lo@0x1a hi@0x3a")
	vp.Assert(c05le32(b, 0x14)|c05le32(b, 0x34)<<32 == gd.snapshotExclusionBitmapLocation, "bg_exclude_bitmap lo@0x14 hi@0x34")
	var fl uint64
	if gd.flags.inodesUninitialized {
		fl |= 1
	}
	if gd.flags.blockBitmapUninitialized {
		fl |= 2
	}
	if gd.flags.inodeTableZeroed {
		fl |= 4
	}
	vp.Assert(c05le16(b, 0x12) == fl, "bg_flags@0x12")
	vp.Assert(c05le16(b, 0x1e) == uint64(c05DescCsum(b, seed, int(gd.number))), "bg_checksum@0x1e = crc32c(seed, le32 group, descriptor with zero checksum) & 0xffff")
	vp.Assert(c05le32(b, 0x3c) == 0, "reserved bytes zero")
	// the library's own reader accepts it and returns the same values
	back, err := groupDescriptorFromBytes(b, 64, int(gd.number), gdtChecksumMetadata, seed)
	vp.Assert(err == nil, "the library reads back its own descriptor")
	if err == nil {
		vp.Assert(back.freeBlocks == gd.freeBlocks, "free blocks read back")
		vp.Assert(back.freeInodes == gd.freeInodes, "free inodes read back")
		vp.Assert(back.inodeTableLocation == gd.inodeTableLocation, "inode table read back")
		vp.Assert(back.blockBitmapChecksum == gd.blockBitmapChecksum, "bitmap checksum read back")
		vp.Cover("64-byte descriptor round trip")
	}
}

// c05GDCodec32: 32-byte descriptors (64bit feature off, accepted by Create).
func c05GDCodec32() {
	gd := c05SymGD(32)
	seed := vp.U32("csumSeed")
	vp.KnownPanic("KF-C05-6", "ext4/groupdescriptors.go:264 | slice bounds out of range")
	vp.NoPanic()
	b := gd.toBytes(gdtChecksumNone, seed)
	vp.AllowPanic()
	vp.Assert(len(b) == 32, "descriptor is 32 bytes")
	if len(b) != 32 {
		return
	}
	vp.Assert(c05le32(b, 0x0) == gd.blockBitmapLocation&0xffffffff, "bg_block_bitmap_lo@0x00")
	vp.Assert(c05le32(b, 0x4) == gd.inodeBitmapLocation&0xffffffff, "bg_inode_bitmap_lo@0x04")
	vp.Assert(c05le32(b, 0x8) == gd.inodeTableLocation&0xffffffff, "bg_inode_table_lo@0x08")
	vp.Assert(c05le16(b, 0xc) == uint64(gd.freeBlocks)&0xffff, "bg_free_blocks_count_lo@0x0c")
	vp.Assert(c05le16(b, 0xe) == uint64(gd.freeInodes)&0xffff, "bg_free_inodes_count_lo@0x0e")
	vp.Assert(c05le16(b, 0x10) == uint64(gd.usedDirectories)&0xffff, "bg_used_dirs_count_lo@0x10")
}

// c05SymSB: superblock with every count e2fsck cross-checks symbolic.
func c05SymSB(bs uint32, is64, csum bool) *superblock {
	id := uuid.UUID{1, 2, 3, 4, 5, 6, 7, 8, 9, 10, 11, 12, 13, 14, 15, 16}
	sb := &superblock{
		inodeCount: vp.U32("inodeCount"), blockCount: vp.U64("blockCount"), reservedBlocks: vp.U64("reservedBlocks"),
		freeBlocks: vp.U64("freeBlocks"), freeInodes: vp.U32("freeInodes"), firstDataBlock: vp.U32("firstDataBlock"),
		blockSize: bs, clusterSize: uint64(bs), blocksPerGroup: vp.U32("blocksPerGroup"), clustersPerGroup: vp.U32("clustersPerGroup"),
		inodesPerGroup: vp.U32("inodesPerGroup"), inodeSize: vp.U16("inodeSize"), firstNonReservedInode: vp.U32("firstIno"),
		reservedGDTBlocks: vp.U16("reservedGDT"), groupDescriptorSize: vp.U16("descSize"), journalInode: vp.U32("journalInode"),
		checksumSeed: vp.U32("csumSeed"), uuid: &id, revisionLevel: 1, checksumType: 1,
		volumeLabel: "c05", lastMountedDirectory: "/", hashTreeSeed: []uint32{1, 2, 3, 4},
		logGroupsPerFlex:            1 << (vp.U8("logFlex") & 31),
		backupSuperblockBlockGroups: [2]uint32{vp.U32("backup0"), vp.U32("backup1")},
	}
	sb.features = defaultFeatureFlags
	sb.features.fs64Bit = is64
	if csum {
		sb.features.metadataChecksums = true
		sb.features.metadataChecksumSeedInSuperblock = true
	}
	return sb
}

func c05SBCodec(bs uint32, is64, csum bool) {
	sb := c05SymSB(bs, is64, csum)
	vp.NoPanic()
	b, err := sb.toBytes()
	vp.AllowPanic()
	vp.Assert(err == nil, "a superblock with a valid block size encodes")
	if err != nil {
		return
	}
	vp.Assert(len(b) == 1024, "superblock is 1024 bytes")
	if len(b) != 1024 {
		return
	}
	vp.Assert(c05le16(b, 0x38) == 0xef53, "s_magic@0x38")
	vp.Assert(c05le32(b, 0x0) == uint64(sb.inodeCount), "s_inodes_count@0x00")
	vp.Assert(c05le32(b, 0x4) == sb.blockCount&0xffffffff, "s_blocks_count_lo@0x04")
	vp.Assert(c05le32(b, 0x8) == sb.reservedBlocks&0xffffffff, "s_r_blocks_count_lo@0x08")
	vp.Assert(c05le32(b, 0xc) == sb.freeBlocks&0xffffffff, "s_free_blocks_count_lo@0x0c")
	vp.Assert(c05le32(b, 0x10) == uint64(sb.freeInodes), "s_free_inodes_count@0x10")
	vp.Assert(c05le32(b, 0x14) == uint64(sb.firstDataBlock), "s_first_data_block@0x14")
	vp.Assert(1024<<c05le32(b, 0x18) == uint64(bs), "s_log_block_size@0x18")
	vp.Assert(c05le32(b, 0x1c) == c05le32(b, 0x18), "s_log_cluster_size = s_log_block_size without bigalloc")
	vp.Assert(c05le32(b, 0x20) == uint64(sb.blocksPerGroup), "s_blocks_per_group@0x20")
	vp.Assert(c05le32(b, 0x24) == uint64(sb.blocksPerGroup), "s_clusters_per_group = s_blocks_per_group without bigalloc")
	vp.Assert(c05le32(b, 0x28) == uint64(sb.inodesPerGroup), "s_inodes_per_group@0x28")
	vp.Assert(c05le32(b, 0x4c) == 1, "s_rev_level@0x4c = 1 (dynamic)")
	vp.Assert(c05le32(b, 0x54) == uint64(sb.firstNonReservedInode), "s_first_ino@0x54")
	vp.Assert(c05le16(b, 0x58) == uint64(sb.inodeSize), "s_inode_size@0x58")
	vp.Assert(c05le16(b, 0xce) == uint64(sb.reservedGDTBlocks), "s_reserved_gdt_blocks@0xce")
	vp.Assert(c05le32(b, 0xe0) == uint64(sb.journalInode), "s_journal_inum@0xe0")
	vp.Assert(c05le16(b, 0xfe) == uint64(sb.groupDescriptorSize), "s_desc_size@0xfe")
	vp.Assert(uint64(1)<<b[0x174] == sb.logGroupsPerFlex, "s_log_groups_per_flex@0x174")
	vp.Assert(c05le32(b, 0x24c) == uint64(sb.backupSuperblockBlockGroups[0]), "s_backup_bgs[0]@0x24c")
	vp.Assert(c05le32(b, 0x250) == uint64(sb.backupSuperblockBlockGroups[1]), "s_backup_bgs[1]@0x250")
	vp.Assert(c05le32(b, 0x270) == uint64(sb.checksumSeed), "s_checksum_seed@0x270")
	for i := 0; i < 16; i++ {
		vp.Assert(b[0x68+i] == byte(i+1), "s_uuid@0x68")
	}
	if is64 {
		vp.Assert(c05le32(b, 0x150) == sb.blockCount>>32, "s_blocks_count_hi@0x150")
		vp.Assert(c05le32(b, 0x154) == sb.reservedBlocks>>32, "s_r_blocks_count_hi@0x154")
		vp.Assert(c05le32(b, 0x158) == sb.freeBlocks>>32, "s_free_blocks_count_hi@0x158")
		vp.Assert(c05le32(b, 0x60)&c05Incompat64bit != 0, "64bit feature bit")
	} else {
		vp.Assert(c05le32(b, 0x150)|c05le32(b, 0x154)|c05le32(b, 0x158) == 0, "high halves zero without 64bit")
		vp.Assert(c05le32(b, 0x60)&c05Incompat64bit == 0, "no 64bit feature bit")
	}
	compat, incompat, ro := c05le32(b, 0x5c), c05le32(b, 0x60), c05le32(b, 0x64)
	vp.Assert(compat&c05CompatHasJournal != 0, "has_journal bit (default features)")
	vp.Assert(compat&c05CompatResizeInode != 0, "resize_inode bit (default features)")
	vp.Assert(incompat&c05IncompatFiletype != 0, "filetype bit")
	vp.Assert(incompat&c05IncompatExtents != 0, "extents bit")
	vp.Assert(incompat&c05IncompatFlexBG != 0, "flex_bg bit")
	vp.Assert(ro&c05RoCompatSparseSuper != 0, "sparse_super bit")
	if csum {
		vp.Assert(ro&c05RoCompatMetaCsum != 0, "metadata_csum bit")
		vp.Assert(ro&c05RoCompatGdtCsum == 0, "metadata_csum excludes gdt_csum")
		vp.Assert(b[0x175] == 1, "s_checksum_type@0x175 = crc32c")
		vp.Assert(c05le32(b, 0x3fc) == uint64(crc.CRC32c(0xffffffff, b[0:0x3fc])), "s_checksum@0x3fc = crc32c(~0, first 1020 bytes)")
	} else {
		vp.Assert(ro&c05RoCompatMetaCsum == 0, "no metadata_csum bit")
	}
	back, err := superblockFromBytes(b)
	vp.Assert(err == nil, "the library reads back its own superblock")
	if err == nil {
		vp.Assert(back.blockCount == sb.blockCount || !is64, "block count read back")
		vp.Assert(back.freeBlocks == sb.freeBlocks || !is64, "free blocks read back")
		vp.Assert(back.freeInodes == sb.freeInodes, "free inodes read back")
		vp.Assert(back.inodesPerGroup == sb.inodesPerGroup, "inodes per group read back")
		vp.Cover("superblock round trip")
	}
}

func VP_C05_sb_codec_1k_64_csum() { c05SBCodec(1024, true, true) }
func VP_C05_sb_codec_4k_64()      { c05SBCodec(4096, true, false) }
func VP_C05_sb_codec_4k_32()      { c05SBCodec(4096, false, false) }
func VP_C05_sb_codec_64k_csum()   { c05SBCodec(65536, true, true) }

// VP_C05_bitmap_csum_range: writeBlockBitmap / writeInodeBitmap store the checksum e2fsprogs verifies:
// crc32c(seed) over clustersPerGroup/8 bytes of the block bitmap and inodesPerGroup/8 bytes of the
// inode bitmap (NOT the whole block). Arbitrary bitmap contents; full group vs short group selected
// by a symbolic flag (the short group is the class of KF-C05-5).
func VP_C05_bitmap_csum_range() {
	full := vp.Bool("fullGroup")
	seed := vp.U32("csumSeed")
	dev := &c05Dev{img: make([]byte, 8*1024)}
	sb := &superblock{blockSize: 1024, blocksPerGroup: vp.IteU32(full, 8192, 256), inodesPerGroup: 64, checksumSeed: seed, inodeSize: 256}
	sb.features.metadataChecksums = true
	gdt := groupDescriptors{descriptors: []groupDescriptor{{blockBitmapLocation: 3, inodeBitmapLocation: 4, inodeTableLocation: 5, size: 64}}}
	fsys := &FileSystem{superblock: sb, groupDescriptors: &gdt, backend: dev, blockGroups: 1}
	raw := vp.Bytes("bitmap", 1024)
	// (an all-zero bitmap with seed 0 has checksum 0 over any length: keep the witness away from it)
	vp.Assume(seed != 0)
	vp.Assume(raw[100] != 0)
	bm := bitmap.FromBytes(raw)
	vp.NoPanic()
	err := fsys.writeBlockBitmap(bm, 0)
	vp.AllowPanic()
	vp.Assert(err == nil, "bitmap written")
	for _, i := range []int{0, 31, 32, 1023} {
		vp.Assert(dev.img[3*1024+i] == raw[i], "bitmap bytes on the device")
	}
	want := vp.IteU32(full, crc.CRC32c(seed, raw[:1024]), crc.CRC32c(seed, raw[:32]))
	vp.AssertUnless("KF-C05-5", !full, gdt.descriptors[0].blockBitmapChecksum == want,
		"block bitmap checksum covers blocksPerGroup/8 bytes")
	// inode bitmap: 64 inodes -> 8 bytes
	ibm := bitmap.FromBytes(raw[:8])
	vp.NoPanic()
	err = fsys.writeInodeBitmap(ibm, 0)
	vp.AllowPanic()
	vp.Assert(err == nil, "inode bitmap written")
	vp.Assert(gdt.descriptors[0].inodeBitmapChecksum == crc.CRC32c(seed, raw[:8]), "inode bitmap checksum covers inodesPerGroup/8 bytes")
	vp.Cover("bitmap checksums")
}

// VP_C05_extent_root: the extent tree root stored in i_block for up to 4 extents: header
// (magic 0xF30A, entries, max 4, depth 0) and 12-byte entries (ee_block, ee_len, ee_start_hi, ee_start_lo).
func VP_C05_extent_root() {
	n := vp.Int("entries")
	vp.Assume(n >= 0)
	vp.Assume(n <= 4)
	var es extents
	names := [4][3]string{{"fb0", "st0", "ct0"}, {"fb1", "st1", "ct1"}, {"fb2", "st2", "ct2"}, {"fb3", "st3", "ct3"}}
	for i := 0; i < 4; i++ {
		es = append(es, extent{fileBlock: vp.U32(names[i][0]), startingBlock: vp.U64(names[i][1]) & (1<<48 - 1), count: vp.U16(names[i][2])})
	}
	for k := 0; k <= 4; k++ {
		if n != k {
			continue
		}
		node := extentsBlockFinderFromExtents(es[:k], 1024)
		vp.NoPanic()
		b := node.toBytes()
		vp.AllowPanic()
		vp.Assert(len(b) == 60, "the root node fills i_block (60 bytes)")
		if len(b) != 60 {
			return
		}
		vp.Assert(c05le16(b, 0) == 0xf30a, "eh_magic")
		vp.Assert(c05le16(b, 2) == uint64(k), "eh_entries")
		vp.Assert(c05le16(b, 4) == 4, "eh_max = 4 in the inode")
		vp.Assert(c05le16(b, 6) == 0, "eh_depth = 0 (leaf)")
		for i := 0; i < k; i++ {
			o := 12 + 12*i
			vp.Assert(c05le32(b, o) == uint64(es[i].fileBlock), "ee_block")
			vp.Assert(c05le16(b, o+4) == uint64(es[i].count), "ee_len")
			vp.Assert(c05le16(b, o+6) == es[i].startingBlock>>32, "ee_start_hi")
			vp.Assert(c05le32(b, o+8) == es[i].startingBlock&0xffffffff, "ee_start_lo")
		}
		for i := 12 + 12*k; i < 60; i++ {
			vp.Assert(b[i] == 0, "unused entries are zero")
		}
	}
	vp.Cover("extent root encoded")
}

package ext4

import (
	"github.com/diskfs/go-diskfs/filesystem/ext4/crc"
	"github.com/diskfs/go-diskfs/internal/vp"
	"github.com/google/uuid"
)

// C05.image_*: the whole image after Create (and after one further operation) is checked by a
// reference checker written from the on-disk format (a small e2fsck: passes 1, 2, 4, 5):
//   - group count, descriptor table, bitmaps, free counts, padding            (c05CheckCounts)
//   - every inode with links > 0 is marked in the inode bitmap and vice versa  (pass 1 / 5)
//   - extent trees (root in the inode, depth 0) lie inside the filesystem, no block is claimed
//     twice or by metadata, i_blocks / i_size agree with the extents           (pass 1)
//   - the block bitmap marks exactly: superblock+GDT copies, bitmaps, inode tables, blocks of inodes (pass 5)
//   - directory blocks: rec_len chain fills the block, "." and ".." first, entries point to inodes in
//     use, link counts = number of references                                  (pass 2 / 4)
//   - with metadata_csum: superblock, descriptor, bitmap, inode and directory block checksums
// Create parameters are concrete (Create's loops depend on them); the filesystem UUID is symbolic,
// so all checksum seeds and checksums are decided by the solver; time.Now is arbitrary.

type c05Inode struct {
	raw              []byte
	mode, links      int
	size             int
	iblocks          int
	flags            int
	isDir, usesExt   bool
	extStart, extLen []int
	extFile          []int
}

func (g *c05Geo) inodeBytes(ino int) []byte {
	grp := (ino - 1) / g.ipg
	idx := (ino - 1) % g.ipg
	o := g.inodeTableLoc(grp)*g.bs + idx*g.inodeSize
	return g.img[o : o+g.inodeSize]
}

func (g *c05Geo) readInode(ino int) c05Inode {
	b := g.inodeBytes(ino)
	in := c05Inode{raw: b}
	in.mode = int(c05le16(b, 0))
	in.links = int(c05le16(b, 0x1a))
	in.size = int(c05le32(b, 4)) | int(c05le32(b, 0x6c))<<32
	in.iblocks = int(c05le32(b, 0x1c)) | int(c05le16(b, 0x74))<<32
	in.flags = int(c05le32(b, 0x20))
	in.isDir = in.mode&0xf000 == 0x4000
	in.usesExt = in.flags&0x80000 != 0
	return in
}

// c05InodeCsum = crc32c(crc32c(crc32c(seed, le32 ino), le32 generation), inode with zeroed checksum fields)
func c05InodeCsum(b []byte, seed uint32, ino int) uint32 {
	n := []byte{byte(ino), byte(ino >> 8), byte(ino >> 16), byte(ino >> 24)}
	c := crc.CRC32c(seed, n)
	c = crc.CRC32c(c, b[0x64:0x68])
	z := make([]byte, len(b))
	copy(z, b)
	z[0x7c], z[0x7d], z[0x82], z[0x83] = 0, 0, 0, 0
	return crc.CRC32c(c, z)
}

// c05CheckImage runs the reference checker. wantFiles: number of entries expected in the root
// directory besides "." and ".." (-1 = do not check).
func c05CheckImage(img []byte, seed uint32, wantRootEntries int) {
	g := c05ReadGeo(img)
	s := img[1024:2048]
	vp.Assert(c05le16(s, 0x38) == 0xef53, "superblock magic")
	vp.Assert(g.bpg > 0 && g.ipg > 0, "groups have blocks and inodes")
	if g.bpg <= 0 || g.ipg <= 0 {
		return
	}
	vp.Assert(g.inodes == g.ipg*g.groups, "s_inodes_count = s_inodes_per_group * group count (group count from the block count)")
	vp.Assert(g.ipg <= g.bs*8, "one inode bitmap block per group")
	vp.Assert(g.blocks*g.bs <= len(img), "filesystem not larger than the device")
	if g.inodes != g.ipg*g.groups || g.blocks*g.bs > len(img) {
		return
	}
	if g.csum {
		vp.Assert(c05le32(s, 0x3fc) == uint64(crc.CRC32c(0xffffffff, s[0:0x3fc])), "superblock checksum")
		vp.Assert(c05le32(s, 0x270) == uint64(seed), "s_checksum_seed = crc32c(~0, uuid)")
	}
	c05CheckCounts(&g)
	c05CheckBitmapCsums(&g, seed)

	itb := (g.ipg*g.inodeSize + g.bs - 1) / g.bs
	gdtBlocks := (g.groups*g.descSize + g.bs - 1) / g.bs
	// owner[b]: 0 free, 1 metadata, 2 claimed by an inode
	owner := make([]byte, g.blocks)
	claim := func(b, by int) {
		vp.Assert(b >= g.fdb && b < g.blocks, "block inside the filesystem")
		if b >= g.fdb && b < g.blocks {
			vp.Assert(owner[b] == 0, "block claimed once (not shared with metadata or another inode)")
			owner[b] = byte(by)
		}
	}
	for i := 0; i < g.groups; i++ {
		gs := g.fdb + i*g.bpg
		if c05HasBackup(i) {
			for k := 0; k < 1+gdtBlocks+g.resvGDT; k++ {
				claim(gs+k, 1)
			}
		}
		claim(g.blockBitmapLoc(i), 1)
		claim(g.inodeBitmapLoc(i), 1)
		for k := 0; k < itb; k++ {
			claim(g.inodeTableLoc(i)+k, 1)
		}
	}
	// pass 1: inodes
	refs := make([]int, g.inodes+1)
	isDir := make([]bool, g.inodes+1)
	links := make([]int, g.inodes+1)
	dirsInGroup := make([]int, g.groups)
	var dirs []int
	for ino := 1; ino <= g.inodes; ino++ {
		in := g.readInode(ino)
		grp := (ino - 1) / g.ipg
		bit := c05Bit(img, g.inodeBitmapLoc(grp)*g.bs, (ino-1)%g.ipg)
		inUse := in.links > 0
		if ino < 11 {
			vp.Assert(bit, "reserved inodes are marked in use")
			if ino != 2 && ino != 7 && ino != 8 {
				continue
			}
			if !inUse {
				continue
			}
		} else {
			vp.Assert(bit == inUse, "inode bitmap bit = (link count > 0)")
		}
		if !inUse {
			continue
		}
		links[ino] = in.links
		vp.Assert(in.mode&0xf000 != 0, "an inode in use has a file type")
		vp.Assert(c05le32(in.raw, 0x14) == 0, "an inode in use has no deletion time")
		if g.csum {
			c := c05InodeCsum(in.raw, seed, ino)
			vp.Assert(c05le16(in.raw, 0x7c) == uint64(c&0xffff), "inode checksum low half")
			vp.Assert(c05le16(in.raw, 0x82) == uint64(c>>16), "inode checksum high half")
		}
		if in.isDir {
			isDir[ino] = true
			dirs = append(dirs, ino)
			dirsInGroup[grp]++
		}
		if !in.usesExt {
			// resize inode (block map): its data blocks are the reserved GDT blocks (counted as metadata above),
			// its only own block is the double indirect block i_block[13]
			if ino == 7 {
				dind := int(c05le32(in.raw, 0x28+13*4))
				vp.Assert(dind != 0, "resize inode has a double indirect block")
				claim(dind, 2)
				nBackups := 0
				for i := 1; i < g.groups; i++ {
					if c05HasBackup(i) {
						nBackups++
					}
				}
				apb := g.bs / 4
				need := (12 + apb + (g.resvGDT-1)*apb + nBackups) * g.bs
				flex := 1 << uint(s[0x174])
				vp.AssertUnless("KF-C05-9", (g.bpg*flex+g.resvGDT+12)*g.bs < need, in.size >= need,
					"resize inode: i_size covers its last mapped block")
			}
			continue
		}
		ib := in.raw[0x28:0x64]
		vp.Assert(c05le16(ib, 0) == 0xf30a, "extent header magic")
		n, max, depth := int(c05le16(ib, 2)), int(c05le16(ib, 4)), int(c05le16(ib, 6))
		vp.Assert(max == 4, "extent root: eh_max = 4")
		vp.Assert(n <= max, "extent root: eh_entries <= eh_max")
		vp.Assert(depth == 0, "extent root is a leaf (fixtures are small)")
		if n > 4 || depth != 0 {
			continue
		}
		total, next := 0, 0
		for k := 0; k < n; k++ {
			o := 12 + 12*k
			fb, ln := int(c05le32(ib, o)), int(c05le16(ib, o+4))
			st := int(c05le32(ib, o+8)) | int(c05le16(ib, o+6))<<32
			vp.Assert(ln >= 1 && ln <= 32768, "extent length 1..32768 (initialised)")
			vp.Assert(fb >= next, "extents sorted by file block, not overlapping")
			next = fb + ln
			if ln > 32768 {
				ln = 0
			}
			for j := 0; j < ln; j++ {
				claim(st+j, 2)
			}
			total += ln
		}
		vp.Assert(in.iblocks == total*(g.bs/512), "i_blocks = blocks of the extents in 512-byte units")
		if in.isDir {
			vp.Assert(in.size == next*g.bs, "directory size = its blocks")
			vp.Assert(total == next, "directory has no holes")
		} else {
			vp.Assert(in.size <= next*g.bs || n == 0, "file size within its extents")
		}
	}
	// pass 5: block bitmap = metadata + claimed blocks
	for i := 0; i < g.groups; i++ {
		off := g.blockBitmapLoc(i) * g.bs
		bad := 0
		for k := 0; k < g.blocksInGroup(i); k++ {
			if c05Bit(img, off, k) != (owner[g.fdb+i*g.bpg+k] != 0) {
				bad++
			}
		}
		vp.Assert(bad == 0, "block bitmap marks exactly the metadata and the blocks of inodes in use")
		vp.Assert(int(g.usedDirsGD(i)) == dirsInGroup[i], "descriptor directory count = directories in the group")
	}
	// pass 2: directories
	for _, d := range dirs {
		in := g.readInode(d)
		ib := in.raw[0x28:0x64]
		n := int(c05le16(ib, 2))
		first := true
		for k := 0; k < n && k < 4; k++ {
			o := 12 + 12*k
			ln := int(c05le16(ib, o+4))
			st := int(c05le32(ib, o+8)) | int(c05le16(ib, o+6))<<32
			for j := 0; j < ln && j < 64; j++ {
				blk := img[(st+j)*g.bs : (st+j+1)*g.bs]
				limit := g.bs
				if g.csum {
					limit -= 12
					t := blk[limit:]
					vp.Assert(c05le32(t, 0) == 0 && c05le16(t, 4) == 12 && t[6] == 0 && t[7] == 0xde, "directory block checksum tail")
					gen := in.raw[0x64:0x68]
					nb := []byte{byte(d), byte(d >> 8), byte(d >> 16), byte(d >> 24)}
					c := crc.CRC32c(crc.CRC32c(crc.CRC32c(seed, nb), gen), blk[:limit])
					vp.Assert(c05le32(t, 8) == uint64(c), "directory block checksum")
				}
				pos, idx := 0, 0
				for pos < limit {
					eino := int(c05le32(blk, pos))
					rec := int(c05le16(blk, pos+4))
					nl := int(blk[pos+6])
					vp.Assert(rec >= 12 && rec%4 == 0 && rec >= (8+nl+3)/4*4 && pos+rec <= limit, "directory entry rec_len valid")
					if rec < 12 || pos+rec > limit {
						break
					}
					vp.Assert(eino <= g.inodes, "directory entry inode number within range")
					if first && idx == 0 {
						vp.Assert(nl == 1 && blk[pos+8] == '.' && eino == d, "first entry is '.' -> the directory itself")
					}
					if first && idx == 1 {
						vp.Assert(nl == 2 && blk[pos+8] == '.' && blk[pos+9] == '.', "second entry is '..'")
					}
					if eino != 0 && eino <= g.inodes {
						vp.Assert(links[eino] > 0, "directory entry points to an inode in use")
						refs[eino]++
						if !(first && idx < 2) {
							ft := int(blk[pos+7])
							vp.Assert((ft == 2) == isDir[eino], "directory entry file type matches the inode")
						}
					}
					pos += rec
					idx++
				}
				vp.Assert(pos == limit, "directory entries fill the block exactly")
				if first && d == 2 && wantRootEntries >= 0 {
					vp.Assert(idx == 2+wantRootEntries, "root directory holds the expected entries")
				}
				first = false
			}
		}
	}
	// pass 4: link counts
	for ino := 2; ino <= g.inodes; ino++ {
		if links[ino] == 0 || (ino < 11 && ino != 2) {
			continue
		}
		vp.Assert(links[ino] == refs[ino], "link count = number of directory entries referring to the inode")
	}
}

type c05CreateCase struct {
	logFlex  int
	sparse   uint8
	size     int64
	spb      uint8
	bpg      uint32
	features []FeatureOpt
	inodes   uint32
}

func c05Create(c c05CreateCase) (*FileSystem, *c05Dev, uint32) {
	dev := &c05Dev{img: make([]byte, c.size)}
	uuid.SetRand(&c05Rand{})
	var id uuid.UUID
	copy(id[:], vp.Bytes("uuid", 16))
	seed := crc.CRC32c(0xffffffff, id[:])
	vp.NoPanic()
	fsys, err := Create(dev, c.size, 0, 512, &Params{UUID: &id, SectorsPerBlock: c.spb, BlocksPerGroup: c.bpg, InodeCount: c.inodes, SparseSuperVersion: c.sparse, LogFlexBlockGroups: c.logFlex, Features: c.features})
	vp.AllowPanic()
	if err != nil {
		return nil, dev, seed
	}
	vp.Assert(fsys != nil, "Create returns a filesystem when it reports success")
	return fsys, dev, seed
}

var c05Plain = []FeatureOpt{WithFeatureHasJournal(false), WithFeatureReservedGDTBlocksForExpansion(false)}

// 1 KiB blocks, 2 groups of 256 blocks, flex_bg, 64bit
func VP_C05_image_create_1k_flex() {
	fsys, dev, seed := c05Create(c05CreateCase{size: 512 * 1024, spb: 2, bpg: 256, features: c05Plain})
	if fsys == nil {
		vp.Cover("refused")
		return
	}
	c05CheckImage(dev.img, seed, 0)
	vp.Cover("created and checked")
}

// 1 KiB blocks, 3 groups, no flex_bg, last group short
func VP_C05_image_create_1k_noflex() {
	f := append([]FeatureOpt{WithFeatureFlexBlockGroups(false)}, c05Plain...)
	fsys, dev, seed := c05Create(c05CreateCase{size: 700 * 1024, spb: 2, bpg: 256, features: f})
	if fsys == nil {
		vp.Cover("refused")
		return
	}
	c05CheckImage(dev.img, seed, 0)
	vp.Cover("created and checked")
}

// 2 KiB blocks (firstDataBlock 0), metadata_csum
func VP_C05_image_create_2k_csum() {
	f := append([]FeatureOpt{WithFeatureMetadataChecksums(true)}, c05Plain...)
	fsys, dev, seed := c05Create(c05CreateCase{size: 1024 * 1024, spb: 4, bpg: 256, features: f})
	if fsys == nil {
		vp.Cover("refused")
		return
	}
	c05CheckImage(dev.img, seed, 0)
	vp.Cover("created and checked")
}

// Create + Mkdir: the image after one more operation
func VP_C05_image_mkdir_1k() {
	fsys, dev, seed := c05Create(c05CreateCase{size: 512 * 1024, spb: 2, bpg: 256, features: c05Plain})
	if fsys == nil {
		return
	}
	vp.NoPanic()
	err := fsys.Mkdir("d")
	vp.AllowPanic()
	vp.Assert(err == nil, "a directory can be made on a fresh volume")
	if err == nil {
		c05CheckImage(dev.img, seed, 1)
		vp.Cover("directory made and image checked")
	}
}

// c05FileData returns the bytes of the regular file `ino` as a reader of the image sees them
// (extent root in the inode, depth 0): what debugfs would extract.
func c05FileData(g *c05Geo, ino int) []byte {
	in := g.readInode(ino)
	ib := in.raw[0x28:0x64]
	n := int(c05le16(ib, 2))
	out := make([]byte, in.size)
	for k := 0; k < n && k < 4; k++ {
		o := 12 + 12*k
		fb, ln := int(c05le32(ib, o)), int(c05le16(ib, o+4))
		st := int(c05le32(ib, o+8)) | int(c05le16(ib, o+6))<<32
		for j := 0; j < ln; j++ {
			lo := (fb + j) * g.bs
			if lo >= in.size {
				break
			}
			hi := lo + g.bs
			if hi > in.size {
				hi = in.size
			}
			copy(out[lo:hi], g.img[(st+j)*g.bs:])
		}
	}
	return out
}

// c05WriteFile: OpenFile(O_CREATE) + one Write of n arbitrary bytes.
func c05WriteFile(fsys *FileSystem, name string, data []byte) error {
	fh, err := fsys.OpenFile(name, 0x40|0x2) // os.O_CREATE|os.O_RDWR
	if err != nil {
		return err
	}
	w, err := fh.Write(data)
	if err != nil {
		return err
	}
	vp.Assert(w == len(data), "Write reports all bytes written")
	return nil
}

// Create + write a file with arbitrary contents: image clean, and the file as read from the image
// (by the reference reader) has the bytes written.
func c05ImageWrite(c c05CreateCase, n int) {
	fsys, dev, seed := c05Create(c)
	if fsys == nil {
		return
	}
	data := vp.Bytes("data", n)
	vp.NoPanic()
	err := c05WriteFile(fsys, "f", data)
	vp.AllowPanic()
	vp.Assert(err == nil, "a small file can be written on a fresh volume")
	if err != nil {
		return
	}
	c05CheckImage(dev.img, seed, 1)
	g := c05ReadGeo(dev.img)
	in := g.readInode(11)
	vp.Assert(in.links == 1 && in.mode&0xf000 == 0x8000, "inode 11 is the new regular file")
	vp.Assert(in.size == n, "i_size = bytes written")
	if in.size == n {
		got := c05FileData(&g, 11)
		for i := 0; i < n; i++ {
			vp.Assert(got[i] == data[i], "file contents in the image = bytes written")
		}
		vp.Cover("file written, image checked, contents extracted")
	}
}

func VP_C05_image_write_1k() {
	c05ImageWrite(c05CreateCase{size: 512 * 1024, spb: 2, bpg: 256, features: c05Plain}, vp.Bound("writelen", 1500, 3000))
}
func VP_C05_image_write_2k_csum() {
	f := append([]FeatureOpt{WithFeatureMetadataChecksums(true)}, c05Plain...)
	c05ImageWrite(c05CreateCase{size: 1024 * 1024, spb: 4, bpg: 256, features: f}, vp.Bound("writelen2", 2100, 5000))
}

// Create + write + Remove (the Remove is taken or not by a symbolic flag): after Remove the inode and
// the blocks of the file are free again, nothing else changed, counts agree with the bitmaps.
func VP_C05_image_remove_1k() {
	fsys, dev, _ := c05Create(c05CreateCase{size: 512 * 1024, spb: 2, bpg: 256, features: c05Plain})
	if fsys == nil {
		return
	}
	data := vp.Bytes("data", 1500)
	if c05WriteFile(fsys, "f", data) != nil {
		return
	}
	before := c05Snapshot(dev.img)
	g0 := c05ReadGeo(before)
	in0 := g0.readInode(11)
	ib := in0.raw[0x28:0x64]
	fileStart := int(c05le32(ib, 12+8))
	fileLen := int(c05le16(ib, 12+4))
	vp.Assert(fileLen == 2 && in0.links == 1, "fixture: a two-block file in inode 11")
	if !vp.Bool("doRemove") {
		vp.Cover("file written")
		return
	}
	vp.NoPanic()
	err := fsys.Remove("f")
	vp.AllowPanic()
	vp.Assert(err == nil, "an existing file can be removed")
	if err != nil {
		return
	}
	g := c05ReadGeo(dev.img)
	ibm0, ibm := g0.inodeBitmapLoc(0)*g.bs, g.inodeBitmapLoc(0)*g.bs
	vp.AssertUnless("KF-C05-7", true, !c05Bit(dev.img, ibm, 10), "Remove clears the inode bitmap bit of the removed inode (bit inode-1)")
	var otherI, otherB uint64
	for k := 0; k < g.ipg; k++ {
		if k != 10 && c05Bit(before, ibm0, k) != c05Bit(dev.img, ibm, k) {
			otherI++
		}
	}
	vp.AssertUnless("KF-C05-7", true, otherI == 0, "Remove changes no other inode bit")
	bb := g.blockBitmapLoc(0) * g.bs
	for k := 0; k < g.bpg; k++ {
		blk := g.fdb + k
		isFile := blk >= fileStart && blk < fileStart+fileLen
		if isFile {
			vp.AssertUnless("KF-C05-7", true, !c05Bit(dev.img, bb, k), "Remove frees the blocks of the file")
		} else if c05Bit(before, bb, k) != c05Bit(dev.img, bb, k) {
			otherB++
		}
	}
	vp.AssertUnless("KF-C05-7", true, otherB == 0, "Remove changes no other block bit")
	vp.AssertUnless("KF-C05-7", true, g.freeBlocksGD(0) == c05ZeroBits(dev.img, bb, 0, g.blocksInGroup(0)), "after Remove: descriptor free blocks = clear bits")
	vp.AssertUnless("KF-C05-7", true, g.freeBlocksSB() == g0.freeBlocksSB()+uint64(fileLen), "after Remove: superblock free blocks went up by the blocks of the file")
	vp.AssertUnless("KF-C05-7", true, g.freeInodesGD(0) == c05ZeroBits(dev.img, ibm, 0, g.ipg), "after Remove: descriptor free inodes = clear bits")
	in := g.readInode(11)
	vp.AssertUnless("KF-C05-7", true, in.links == 0, "after Remove: the inode is no longer in use (link count 0)")
}

// c05ImageInodes: Create with an explicit inode count; the number of inodes per group must fit the
// single inode bitmap block of a group (e2fsck: "superblock is corrupt" otherwise).
func c05ImageInodes(count uint32, known bool) {
	fsys, dev, _ := c05Create(c05CreateCase{size: 2304 * 1024, spb: 2, bpg: 2304, features: c05Plain, inodes: count})
	if fsys == nil {
		return
	}
	g := c05ReadGeo(dev.img)
	vp.AssertUnless("KF-C05-3", known, g.ipg <= g.bs*8, "inodes per group fit one inode bitmap block")
	vp.Assert(g.inodes == g.ipg*g.groups, "inode count = inodes per group * groups")
	if !known {
		c05CheckCounts(&g)
		vp.Cover("explicit inode count accepted, image consistent")
	}
}

// 2.25 MiB, 1 KiB blocks, one group of 2304 blocks: 8200 inodes need more than the 8192 bits of one bitmap block
func VP_C05_image_inode_count() {
	if vp.Bool("manyInodes") {
		c05ImageInodes(8200, true)
	} else {
		c05ImageInodes(4000, false)
	}
}

// c05CountsBad = number of deviations found by the pass-5 checks (for use under AssertUnless).
func c05CountsBad(g *c05Geo) uint64 {
	var bad, sumB, sumI uint64
	for i := 0; i < g.groups; i++ {
		bbl, ibl := g.blockBitmapLoc(i), g.inodeBitmapLoc(i)
		if bbl < g.fdb || bbl >= g.blocks || ibl < g.fdb || ibl >= g.blocks {
			bad++
			continue
		}
		nb := g.blocksInGroup(i)
		fb := c05ZeroBits(g.img, bbl*g.bs, 0, nb)
		fi := c05ZeroBits(g.img, ibl*g.bs, 0, g.ipg)
		bad += vp.IteU64(g.freeBlocksGD(i) == fb, 0, 1) + vp.IteU64(g.freeInodesGD(i) == fi, 0, 1)
		bad += c05ZeroBits(g.img, bbl*g.bs, nb, g.bpg)
		sumB += fb
		sumI += fi
	}
	bad += vp.IteU64(g.freeBlocksSB() == sumB, 0, 1) + vp.IteU64(g.freeInodesSB() == sumI, 0, 1)
	return bad
}

// Create on 1 KiB blocks with blockCount = 4*256+1 (one block after the last full group): the library
// builds 5 groups where the format has 4 (KF-C05-1); with 100 blocks in the last group all is well.
func c05ImageTail(blocks int64, known bool) {
	fsys, dev, _ := c05Create(c05CreateCase{size: blocks * 1024, spb: 2, bpg: 256, features: c05Plain})
	if fsys == nil {
		return
	}
	g := c05ReadGeo(dev.img)
	vp.AssertUnless("KF-C05-1", known, g.inodes == g.ipg*g.groups, "s_inodes_count = s_inodes_per_group * group count")
	if !known {
		vp.Assert(c05CountsBad(&g) == 0, "counts agree with the bitmaps")
		vp.Cover("short last group accepted, image consistent")
	}
}
func VP_C05_image_tail_group() {
	if vp.Bool("oneBlockTail") {
		c05ImageTail(4*256+1, true)
	} else {
		c05ImageTail(4*256+100, false)
	}
}

// Create with resize_inode (1 KiB blocks, 256 reserved GDT blocks, 2 groups of 1024 blocks): flex size 64
// (sound) or the default 8 (KF-C05-9: i_size of the resize inode too small), chosen by a symbolic flag.
func c05ImageResize(logFlex int) {
	fsys, dev, seed := c05Create(c05CreateCase{size: 2048 * 1024, spb: 2, bpg: 1024, logFlex: logFlex,
		features: []FeatureOpt{WithFeatureHasJournal(false)}})
	if fsys == nil {
		return
	}
	g := c05ReadGeo(dev.img)
	vp.Assert(g.resvGDT == 256, "fixture: 256 reserved GDT blocks")
	c05CheckImage(dev.img, seed, 0)
	vp.Cover("volume with resize inode created and checked")
}
func VP_C05_image_create_resize() {
	if vp.Bool("defaultFlex") {
		c05ImageResize(0)
	} else {
		c05ImageResize(6)
	}
}

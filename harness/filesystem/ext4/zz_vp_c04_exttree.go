package ext4

import (
	"fmt"

	"github.com/diskfs/go-diskfs/internal/vp"
)

// C04.ext_tree: extendExtentTree (the code that moves a file's extents out of the inode into
// index/leaf blocks) on the fixture volume. The tree is built directly: leaves are written into
// blocks obtained from the library's allocator; their capacity field (eh_max) is set to 4 so that
// a leaf split happens with 5 extents instead of 85 (1 KiB blocks) - the split code is the same.
// Extent payload (disk start, count) is symbolic; file blocks are 10*i.
// Oracle: the flat extent list read back from disk (blocks()) = old extents followed by the
// added one.

func c04TreeExtents(from, n int) extents {
	var es extents
	for i := from; i < from+n; i++ {
		c := vp.U16(fmt.Sprintf("c%d", i))
		vp.Assume(c >= 1)
		es = append(es, extent{fileBlock: uint32(10 * i), count: c, startingBlock: uint64(vp.U32(fmt.Sprintf("s%d", i)))})
	}
	return es
}

// c04WriteLeaf stores a leaf with the given capacity in a freshly allocated block.
func c04WriteLeaf(fsys *FileSystem, es extents, max uint16) uint64 {
	alloc, err := fsys.allocateExtents(uint64(fsys.superblock.blockSize), nil)
	vp.Assume(err == nil)
	blk := (*alloc)[0].startingBlock
	leaf := &extentLeafNode{extentNodeHeader: extentNodeHeader{depth: 0, entries: uint16(len(es)), max: max, blockSize: fsys.superblock.blockSize}, extents: es, diskBlock: blk}
	vp.Assume(writeNodeToBlock(leaf, fsys, blk) == nil)
	return blk
}

func c04CheckFlat(fsys *FileSystem, tree extentBlockFinder, want extents) {
	c04NoPanic()
	got, err := tree.blocks(fsys)
	c04AllowPanic()
	vp.Assert(err == nil, "the extended tree reads back from disk")
	vp.Assert(len(got) == len(want), "no extent lost or invented by extending the tree")
	for i := 0; i < len(want) && i < len(got); i++ {
		vp.Assert(got[i] == want[i], "extents read back in file order with their disk start and count")
	}
	// a second reader: re-parse the root from its serialised form (what goes into the inode)
	c04NoPanic()
	root, err := parseExtents(tree.toBytes(), fsys.superblock.blockSize, 0, want[len(want)-1].fileBlock+uint32(want[len(want)-1].count))
	c04AllowPanic()
	vp.Assert(err == nil, "the root serialised for the inode parses")
	c04NoPanic()
	got2, err := root.blocks(fsys)
	c04AllowPanic()
	vp.Assert(err == nil, "the tree reads back through the serialised root")
	vp.Assert(len(got2) == len(want), "no extent lost through the serialised root")
	for i := 0; i < len(want) && i < len(got2); i++ {
		vp.Assert(got2[i] == want[i], "extents read back through the serialised root")
	}
}

// VP_C04_ext_tree_promote: inode root leaf with 4 extents + 1 -> depth-1 tree with one leaf.
func VP_C04_ext_tree_promote() {
	fsys, _, _ := c04Fixture(c04Cfg{spb: 2})
	old := c04TreeExtents(0, 4)
	add := c04TreeExtents(4, 1)
	root := &extentLeafNode{extentNodeHeader: extentNodeHeader{depth: 0, entries: 4, max: 4, blockSize: 1024}, extents: append(extents{}, old...)}
	c04NoPanic()
	tree, meta, err := extendExtentTree(root, &add, fsys, nil)
	c04AllowPanic()
	vp.Assert(err == nil, "extending a full inode root accepted")
	vp.Assert(meta == 1, "one metadata block reported")
	vp.Assert(tree.getDepth() == 1, "tree has depth 1")
	c04CheckFlat(fsys, tree, append(append(extents{}, old...), add...))
	vp.Cover("promoted")
}

// c04TreeLeafCase: depth-1 root with one on-disk leaf holding `have` extents (capacity max) + 1.
func c04TreeLeafCase(have int, max uint16) {
	fsys, _, _ := c04Fixture(c04Cfg{spb: 2})
	old := c04TreeExtents(0, have)
	add := c04TreeExtents(have, 1)
	blk := c04WriteLeaf(fsys, old, max)
	root := &extentInternalNode{extentNodeHeader: extentNodeHeader{depth: 1, entries: 1, max: 4, blockSize: 1024},
		children: []*extentChildPtr{{fileBlock: 0, count: uint32(have), diskBlock: blk}}}
	c04NoPanic()
	tree, _, err := extendExtentTree(root, &add, fsys, nil)
	c04AllowPanic()
	vp.Assert(err == nil, "extending a depth-1 tree accepted")
	c04CheckFlat(fsys, tree, append(append(extents{}, old...), add...))
	if have+1 > int(max) {
		vp.Cover("leaf split")
	} else {
		vp.Cover("leaf appended in place")
	}
}

func VP_C04_ext_tree_leaf_append()     { c04TreeLeafCase(3, 84) }
func VP_C04_ext_tree_leaf_split_even() { c04TreeLeafCase(3, 3) }
func VP_C04_ext_tree_leaf_split_odd()  { c04TreeLeafCase(4, 4) }

// VP_C04_ext_tree_root_split: depth-1 root with 4 full leaves (capacity 2) + 1: the leaf split
// gives the root a 5th child, which must move the children into two index blocks (depth 2).
func VP_C04_ext_tree_root_split() {
	if !vp.Thorough() {
		return
	}
	fsys, _, _ := c04Fixture(c04Cfg{spb: 2})
	old := c04TreeExtents(0, 8)
	add := c04TreeExtents(8, 1)
	root := &extentInternalNode{extentNodeHeader: extentNodeHeader{depth: 1, entries: 4, max: 4, blockSize: 1024}}
	for l := 0; l < 4; l++ {
		blk := c04WriteLeaf(fsys, old[2*l:2*l+2], 2)
		root.children = append(root.children, &extentChildPtr{fileBlock: old[2*l].fileBlock, count: 2, diskBlock: blk})
	}
	c04NoPanic()
	tree, _, err := extendExtentTree(root, &add, fsys, nil)
	c04AllowPanic()
	vp.Assert(err == nil, "extending a full depth-1 tree accepted")
	vp.Assert(tree.getDepth() == 2, "tree has depth 2")
	c04CheckFlat(fsys, tree, append(append(extents{}, old...), add...))
	vp.Cover("root split")
}

package ext4

import (
	"encoding/binary"

	"github.com/diskfs/go-diskfs/filesystem/ext4/crc"
	"github.com/diskfs/go-diskfs/internal/vp"
)

// Reference walk of a linear directory block (struct ext4_dir_entry_2 of the layout documentation):
//
//	inode u32 | rec_len u16 | name_len u8 | file_type u8 | name[name_len], next entry at +rec_len.
//
// c20DirWalk returns the offsets of up to max entries of region b[0:limit] and how many there are; it
// Assumes the chain is well formed (what mke2fs/the kernel write): rec_len a multiple of 4, at least
// 8+name_len (and at least 12), the chain ends exactly at limit.
func c20DirWalk(b []byte, limit int, max int) (pos [8]int, n int) {
	p := 0
	done := false
	for k := 0; k < max; k++ {
		if !done {
			pos[k] = p
			rl := int(c20le16(b, p+4))
			nl := int(b[p+6])
			vp.Assume(rl%4 == 0)
			vp.Assume(rl >= 12)
			vp.Assume(rl >= 8+nl)
			vp.Assume(p+rl <= limit)
			p += rl
			n = k + 1
			if p == limit {
				done = true
			}
		}
	}
	vp.Assume(done)
	return pos, n
}

// c20CheckEntry compares one library entry with the on-disk entry at offset p of b.
func c20CheckEntry(de *directoryEntry, b []byte, p int, maxName int) {
	nl := int(b[p+6])
	hdr := c20b2i(de.inode == c20le32(b, p)) & c20b2i(uint8(de.fileType) == b[p+7]) & c20b2i(len(de.filename) == nl)
	vp.Assert(hdr == 1, "dirent inode, file_type and name length (= name_len) as on disk")
	ok := 1
	for j := 0; j < maxName; j++ {
		if j < nl && j < len(de.filename) {
			ok &= c20b2i(de.filename[j] == b[p+8+j])
		}
	}
	vp.Assert(ok == 1, "dirent name bytes")
}

// VP_C20_dir_linear: one directory block (no checksum tail) with every byte arbitrary, well-formed
// rec_len chain of 1..4 entries: the library returns exactly the chain's entries, in order, with the
// on-disk inode, type and name.
func VP_C20_dir_linear() {
	bs := vp.Bound("dirblock", 40, 48)
	b := vp.Bytes("block", bs)
	pos, n := c20DirWalk(b, bs, 4)
	vp.Unwind(6)
	vp.NoPanic()
	ents, err := parseDirEntriesLinear(b, false, uint32(bs), 2, 0, 0)
	vp.AllowPanic()
	vp.Assert(err == nil, "a well-formed directory block parses")
	if err != nil {
		return
	}
	vp.Assert(len(ents) == n, "one entry per rec_len link")
	for k := 0; k < 4; k++ {
		if k < n && k < len(ents) {
			c20CheckEntry(ents[k], b, pos[k], 8)
		}
	}
	if n >= 3 {
		vp.Cover("three or more entries in the block")
	}
	vp.Cover("linear block parsed")
}

// c20DirCsum: checksum of a directory leaf block: crc32c(crc32c(crc32c(seed, le32(ino)), le32(gen)),
// block without the 12-byte tail), stored in the last 4 bytes of the block.
func c20DirCsum(seed, ino, gen uint32, data []byte) uint32 {
	var n, g [4]byte
	binary.LittleEndian.PutUint32(n[:], ino)
	binary.LittleEndian.PutUint32(g[:], gen)
	return crc.CRC32c(crc.CRC32c(crc.CRC32c(seed, n[:]), g[:]), data)
}

// VP_C20_dir_linear_csum: two metadata_csum directory blocks (12-byte tail each, valid checksums):
// the entries of both blocks are returned in order, the tails are not.
func VP_C20_dir_linear_csum() {
	bs := 36
	b := vp.Bytes("blocks", 2*bs)
	seed, ino, gen := vp.U32("csumSeed"), vp.U32("ino"), vp.U32("gen")
	var pos [2][8]int
	var n [2]int
	for blk := 0; blk < 2; blk++ {
		blkb := b[blk*bs : (blk+1)*bs]
		pos[blk], n[blk] = c20DirWalk(blkb, bs-12, 2)
		// tail: inode 0, rec_len 12, name_len 0, file_type 0xDE, checksum
		vp.Assume(c20le32(blkb, bs-12) == 0)
		vp.Assume(c20le16(blkb, bs-8) == 12)
		vp.Assume(blkb[bs-6] == 0)
		vp.Assume(blkb[bs-5] == 0xde)
		binary.LittleEndian.PutUint32(blkb[bs-4:], c20DirCsum(seed, ino, gen, blkb[:bs-12]))
	}
	vp.Unwind(6)
	vp.NoPanic()
	ents, err := parseDirEntriesLinear(b, true, uint32(bs), ino, gen, seed)
	vp.AllowPanic()
	vp.Assert(err == nil, "well-formed checksummed directory blocks parse")
	if err != nil {
		return
	}
	vp.Assert(len(ents) == n[0]+n[1], "entries of both blocks, tails excluded")
	for k := 0; k < 4; k++ {
		if k < len(ents) {
			if k < n[0] {
				c20CheckEntry(ents[k], b[0:bs], pos[0][k], 4)
			} else if k-n[0] < n[1] {
				j := k - n[0]
				for jj := 0; jj < 2; jj++ { // concretise j
					if j == jj {
						c20CheckEntry(ents[k], b[bs:2*bs], pos[1][jj], 4)
					}
				}
			}
		}
	}
	vp.Cover("checksummed blocks parsed")
}

// c20HtreeRoot fills block 0 of a hash-indexed directory (struct dx_root of the layout documentation):
// "." entry (rec_len 12), ".." entry (rec_len bs-12), dx_root_info {reserved u32, hash_version u8,
// info_length u8 = 8, indirect_levels u8, unused_flags u8}, then limit u16, count u16, block u32 of the
// first child and count-1 dx_entry {hash u32, block u32}. All other bytes stay arbitrary.
func c20HtreeRoot(b []byte, bs int, levels byte, blocks []uint32) {
	b[4], b[5], b[6], b[7] = 12, 0, 1, 2
	b[8], b[9], b[10], b[11] = '.', 0, 0, 0
	rl := bs - 12
	b[0x10], b[0x11], b[0x12], b[0x13] = byte(rl), byte(rl>>8), 2, 2
	b[0x14], b[0x15], b[0x16], b[0x17] = '.', '.', 0, 0
	b[0x1d], b[0x1e] = 8, levels
	b[0x22], b[0x23] = byte(len(blocks)), 0
	binary.LittleEndian.PutUint32(b[0x24:], blocks[0])
	for i := 1; i < len(blocks); i++ {
		binary.LittleEndian.PutUint32(b[0x28+8*(i-1)+4:], blocks[i])
	}
}

// c20HtreeNode fills an interior dx_node: fake dirent {inode 0, rec_len bs}, limit u16, count u16 at
// 0xa, block u32 at 0xc, then count-1 dx_entry.
func c20HtreeNode(b []byte, bs int, blocks []uint32) {
	b[0], b[1], b[2], b[3] = 0, 0, 0, 0
	b[4], b[5], b[6], b[7] = byte(bs), byte(bs>>8), 0, 0
	b[0xa], b[0xb] = byte(len(blocks)), 0
	binary.LittleEndian.PutUint32(b[0xc:], blocks[0])
	for i := 1; i < len(blocks); i++ {
		binary.LittleEndian.PutUint32(b[0x10+8*(i-1)+4:], blocks[i])
	}
}

// VP_C20_dir_htree: a hash-indexed directory of 3 blocks (root + 2 leaves, either order of the leaf
// pointers), everything that is not structure arbitrary (hash values, hash version, limit, inode numbers,
// names, types): all entries of both leaves are returned, each exactly once, leaf by leaf in index order.
func VP_C20_dir_htree() {
	bs := 48
	orders := [][]uint32{{2, 1}}
	if vp.Thorough() {
		orders = [][]uint32{{1, 2}, {2, 1}}
	}
	for _, order := range orders {
		b := vp.Bytes("dir", 3*bs)
		c20HtreeRoot(b[0:bs], bs, 0, order)
		// the two leaves: well-formed linear blocks
		var pos [3][8]int
		var n [3]int
		for l := 1; l <= 2; l++ {
			pos[l], n[l] = c20DirWalk(b[l*bs:(l+1)*bs], bs, 2)
		}
		vp.Unwind(6)
		vp.NoPanic()
		root, err := parseDirectoryTreeRoot(b[:bs], false)
		vp.AllowPanic()
		vp.Assert(err == nil, "a well-formed dx_root parses")
		if err != nil {
			return
		}
		vp.Assert(root.depth == 0, "indirect_levels")
		vp.Assert(root.dotEntry.inode == c20le32(b, 0), "inode of .")
		vp.Assert(root.dotDotEntry.inode == c20le32(b, 12), "inode of ..")
		vp.NoPanic()
		ents, err := parseDirEntriesHashed(b, root.depth, root, uint32(bs), false, 2, 0, 0)
		vp.AllowPanic()
		vp.Assert(err == nil, "leaves of a well-formed htree parse")
		if err != nil {
			return
		}
		l0, l1 := int(order[0]), int(order[1])
		vp.Assert(len(ents) == n[l0]+n[l1], "entries of every leaf, once")
		for k := 0; k < 4; k++ {
			if k < len(ents) {
				if k < n[l0] {
					c20CheckEntry(ents[k], b[l0*bs:(l0+1)*bs], pos[l0][k], 4)
				} else {
					j := k - n[l0]
					for jj := 0; jj < 2; jj++ {
						if j == jj && jj < n[l1] {
							c20CheckEntry(ents[k], b[l1*bs:(l1+1)*bs], pos[l1][jj], 4)
						}
					}
				}
			}
		}
	}
	vp.Cover("two-leaf htree read")
}

// VP_C20_dir_htree_depth1: root -> one interior dx_node -> two leaves (indirect_levels = 1).
func VP_C20_dir_htree_depth1() {
	if !vp.Thorough() {
		vp.Cover("thorough tier only")
		return
	}
	bs := 48
	b := vp.Bytes("dir", 4*bs)
	c20HtreeRoot(b[0:bs], bs, 1, []uint32{3})
	c20HtreeNode(b[3*bs:4*bs], bs, []uint32{2, 1})
	var pos [3][8]int
	var n [3]int
	for l := 1; l <= 2; l++ {
		pos[l], n[l] = c20DirWalk(b[l*bs:(l+1)*bs], bs, 2)
	}
	vp.Unwind(6)
	root, err := parseDirectoryTreeRoot(b[:bs], false)
	vp.Assert(err == nil, "a well-formed dx_root parses")
	if err != nil {
		return
	}
	vp.Assert(root.depth == 1, "indirect_levels = 1")
	vp.NoPanic()
	ents, err := parseDirEntriesHashed(b, root.depth, root, uint32(bs), false, 2, 0, 0)
	vp.AllowPanic()
	vp.Assert(err == nil, "a two-level htree parses")
	if err != nil {
		return
	}
	vp.Assert(len(ents) == n[2]+n[1], "entries of every leaf, once")
	for k := 0; k < 4; k++ {
		if k < len(ents) {
			if k < n[2] {
				c20CheckEntry(ents[k], b[2*bs:3*bs], pos[2][k], 4)
			} else {
				j := k - n[2]
				for jj := 0; jj < 2; jj++ {
					if j == jj && jj < n[1] {
						c20CheckEntry(ents[k], b[1*bs:2*bs], pos[1][jj], 4)
					}
				}
			}
		}
	}
	vp.Cover("two-level htree read")
}

// VP_C20_dirent_long_name: a single entry with a name of up to 255 bytes (rec_len 264): the whole name
// is reported.
func VP_C20_dirent_long_name() {
	b := vp.Bytes("entry", 264)
	b[4], b[5] = 264&0xff, 264>>8
	nl := int(b[6])
	vp.Assume(nl >= 200)
	vp.Unwind(10)
	vp.NoPanic()
	ents, err := parseDirEntriesLinear(b, false, 264, 2, 0, 0)
	vp.AllowPanic()
	vp.Assert(err == nil, "a block with one long entry parses")
	if err != nil {
		return
	}
	vp.Assert(len(ents) == 1, "one entry")
	if len(ents) != 1 {
		return
	}
	vp.Assert(len(ents[0].filename) == nl, "long name: length = name_len")
	ok := 1
	for _, j := range []int{0, 199, 246, 247, 253, 254} {
		if j < nl && j < len(ents[0].filename) {
			ok &= c20b2i(ents[0].filename[j] == b[8+j])
		}
	}
	vp.Assert(ok == 1, "long name: bytes")
	vp.Cover("255-byte class name")
}

package ext4

import (
	"os"

	"github.com/diskfs/go-diskfs/internal/vp"
)

// C05.exttree_meta_blocks_*: extent-tree metadata accounting. extendExtentTree reports how many
// blocks it allocated for tree nodes; File.Write adds that number to the inode's i_blocks. The
// number reported must be the number of blocks that were newly taken from the block bitmap for
// tree nodes (e2fsck pass 1 recounts i_blocks = data blocks + tree node blocks):
//   root leaf (in the inode) promoted to one on-disk leaf        : 1 new block
//   root leaf split into two on-disk leaves                      : 2 new blocks
//   on-disk leaf split, one half stays in the old block          : 1 new block
//   extent appended to a leaf with room                          : 0
// As in zz_vp_c04_exttree.go leaf capacities are forged small (eh_max of the on-disk leaf, block size
// field of the root header) so that a split needs 5 extents instead of 85; the split code is the same.
// Oracle: image bytes of the block bitmaps and the free counters before/after, and the node blocks
// reachable from the returned root with the reference tree walker (c05xWalk).

func c05xMetaFixture() *c05Fix {
	return c05NewFixture(1024, 256, 512, 32, 0, false, nil, nil)
}

// c05xMetaCheck: after extendExtentTree returned (tree, meta): meta = newly marked blocks = new node
// blocks of the tree; counters consistent.
func c05xMetaCheck(fx *c05Fix, before []byte, oldNodes []int, tree extentBlockFinder, meta uint64, want uint64, wantDepth int) {
	img := fx.dev.img
	g0 := c05ReadGeo(before)
	g := c05ReadGeo(img)
	newly := c05xSetBits(img) - c05xSetBits(before)
	vp.Assert(c05xSetBits(img) >= c05xSetBits(before), "extending a tree frees nothing")
	vp.Assert(meta == newly, "metadata blocks reported = blocks newly marked in the block bitmaps")
	vp.Assert(g0.freeBlocksSB()-g.freeBlocksSB() == meta, "metadata blocks reported = decrease of the superblock free block count")
	vp.Assert(meta == want, "metadata blocks reported = tree nodes that needed a new block")
	c05CheckCounts(&g)
	// node blocks of the tree as stored: root as it goes into the inode + blocks on disk
	t := c05xTree{nodesOnly: true} // extent payload is symbolic here
	root := tree.toBytes()
	vp.Assert(len(root) == 60, "the root fits the inode (60 bytes)")
	if len(root) != 60 {
		return
	}
	c05xWalk(&g, root, -1, &t)
	vp.Assert(t.depth == wantDepth, "depth of the extended tree")
	fresh := 0
	for _, nb := range t.nodes {
		vp.Assert(c05xBlockBit(img, nb), "a block holding a tree node is marked in use")
		old := false
		for _, ob := range oldNodes {
			if ob == nb {
				old = true
			}
		}
		if !old {
			fresh++
			vp.Assert(!c05xBlockBit(before, nb), "a new tree node lives in a block that was free before")
		}
	}
	vp.Assert(uint64(fresh) == meta, "metadata blocks reported = node blocks of the new tree that the old tree did not have")
	for _, ob := range oldNodes {
		found := false
		for _, nb := range t.nodes {
			if ob == nb {
				found = true
			}
		}
		vp.Assert(found, "a node block of the old tree is still part of the tree (nothing leaked)")
	}
}

// root leaf with 4 extents + 1: promoted to one on-disk leaf (capacity 84)
func VP_C05_exttree_meta_blocks_promote() {
	fx := c05xMetaFixture()
	old := c04TreeExtents(0, 4)
	add := c04TreeExtents(4, 1)
	root := &extentLeafNode{extentNodeHeader: extentNodeHeader{depth: 0, entries: 4, max: 4, blockSize: 1024}, extents: append(extents{}, old...)}
	before := c05Snapshot(fx.dev.img)
	vp.NoPanic()
	tree, meta, err := extendExtentTree(root, &add, fx.fs, nil)
	vp.AllowPanic()
	vp.Assert(err == nil, "extending a full inode root accepted")
	if err != nil {
		return
	}
	c05xMetaCheck(fx, before, nil, tree, meta, 1, 1)
	vp.Cover("root leaf promoted")
}

// root leaf with 4 extents + 1 where a block leaf holds only 4 (block size field of the header forged
// to 60): the root leaf is split into two on-disk leaves, both new
func VP_C05_exttree_meta_blocks_root_split() {
	fx := c05xMetaFixture()
	old := c04TreeExtents(0, 4)
	add := c04TreeExtents(4, 1)
	root := &extentLeafNode{extentNodeHeader: extentNodeHeader{depth: 0, entries: 4, max: 4, blockSize: 60}, extents: append(extents{}, old...)}
	before := c05Snapshot(fx.dev.img)
	vp.NoPanic()
	tree, meta, err := extendExtentTree(root, &add, fx.fs, nil)
	vp.AllowPanic()
	vp.Assert(err == nil, "extending a full inode root accepted")
	if err != nil {
		return
	}
	c05xMetaCheck(fx, before, nil, tree, meta, 2, 1)
	vp.Cover("root leaf split into two on-disk leaves")
}

// c05xMetaLeafCase: depth-1 root with one on-disk leaf holding `have` extents (capacity max) + 1.
func c05xMetaLeafCase(have int, max uint16) {
	fx := c05xMetaFixture()
	old := c04TreeExtents(0, have)
	add := c04TreeExtents(have, 1)
	blk := c04WriteLeaf(fx.fs, old, max)
	root := &extentInternalNode{extentNodeHeader: extentNodeHeader{depth: 1, entries: 1, max: 4, blockSize: 1024},
		children: []*extentChildPtr{{fileBlock: 0, count: uint32(have), diskBlock: blk}}}
	before := c05Snapshot(fx.dev.img)
	vp.Assert(c05xBlockBit(before, int(blk)), "fixture: the leaf block is in use")
	vp.NoPanic()
	tree, meta, err := extendExtentTree(root, &add, fx.fs, nil)
	vp.AllowPanic()
	vp.Assert(err == nil, "extending a depth-1 tree accepted")
	if err != nil {
		return
	}
	if have+1 > int(max) {
		c05xMetaCheck(fx, before, []int{int(blk)}, tree, meta, 1, 1)
		vp.Cover("on-disk leaf split, old block reused")
	} else {
		c05xMetaCheck(fx, before, []int{int(blk)}, tree, meta, 0, 1)
		vp.Cover("extent appended in place")
	}
}

func VP_C05_exttree_meta_blocks_leaf_split_odd()  { c05xMetaLeafCase(4, 4) }
func VP_C05_exttree_meta_blocks_leaf_split_even() { c05xMetaLeafCase(3, 3) }
func VP_C05_exttree_meta_blocks_leaf_append()     { c05xMetaLeafCase(3, 84) }

// depth-1 root with 4 full leaves (capacity 2) + 1: the last leaf splits (1 new block) and the root's
// 5 children move into two index blocks (2 new blocks)
func VP_C05_exttree_meta_blocks_index_split() {
	fx := c05xMetaFixture()
	old := c04TreeExtents(0, 8)
	add := c04TreeExtents(8, 1)
	root := &extentInternalNode{extentNodeHeader: extentNodeHeader{depth: 1, entries: 4, max: 4, blockSize: 1024}}
	var oldNodes []int
	for l := 0; l < 4; l++ {
		blk := c04WriteLeaf(fx.fs, old[2*l:2*l+2], 2)
		oldNodes = append(oldNodes, int(blk))
		root.children = append(root.children, &extentChildPtr{fileBlock: old[2*l].fileBlock, count: 2, diskBlock: blk})
	}
	before := c05Snapshot(fx.dev.img)
	vp.NoPanic()
	tree, meta, err := extendExtentTree(root, &add, fx.fs, nil)
	vp.AllowPanic()
	vp.Assert(err == nil, "extending a full depth-1 tree accepted")
	if err != nil {
		return
	}
	c05xMetaCheck(fx, before, oldNodes, tree, meta, 3, 2)
	vp.Cover("leaf split + root index split")
}

// VP_C05_exttree_meta_blocks_write: the same accounting end to end through File.Write: a file grown by
// block-sized appends through fresh O_APPEND handles (every append adds an extent): 4 extents in the
// inode, the 5th promotes them to an on-disk leaf. The capacity of that leaf is then forged to the 5 it
// holds (eh_max in the image), so the 6th append splits the on-disk leaf. After every append the
// reference checker recounts i_blocks = data blocks + tree node blocks and compares the bitmaps.
func VP_C05_exttree_meta_blocks_write() {
	fsys, dev, seed := c05Create(c05CreateCase{size: 512 * 1024, spb: 2, bpg: 256, features: c05Plain})
	if fsys == nil {
		return
	}
	const bs = 1024
	data := vp.Bytes("data", bs)
	if c05WriteFile(fsys, "f", data) != nil {
		vp.Assert(false, "a small file can be written on a fresh volume")
		return
	}
	for k := 2; k <= 6; k++ {
		// another file's block in between, so that the extents of f cannot be merged by anybody
		if c05WriteFile(fsys, string(rune('g'+k)), data[:10]) != nil {
			vp.Assert(false, "a small file can be written")
			return
		}
		vp.NoPanic()
		h, err := fsys.OpenFile("f", os.O_APPEND|os.O_RDWR)
		vp.AllowPanic()
		vp.Assert(err == nil, "open for append accepted")
		if err != nil {
			return
		}
		vp.NoPanic()
		n, err := h.Write(data)
		vp.AllowPanic()
		vp.Assert(err == nil && n == bs, "append accepted")
		if err != nil {
			return
		}
		g := c05ReadGeo(dev.img)
		t := c05xInodeTree(&g, 11)
		in := g.readInode(11)
		total := 0
		for _, l := range t.dataLen {
			total += l
		}
		vp.Assert(total == k, "one more data block per append")
		vp.Assert(in.iblocks == (total+len(t.nodes))*(bs/512), "after the append: i_blocks = data blocks + extent tree blocks")
		c05xCheckImage(dev.img, seed, k)
		if k == 5 {
			vp.Assert(t.depth == 1 && len(t.nodes) == 1, "fixture: 5 extents live in one on-disk leaf")
			if t.depth != 1 || len(t.nodes) != 1 {
				return
			}
			// forge the capacity of the on-disk leaf: eh_max = eh_entries = 5
			o := t.nodes[0] * bs
			vp.Assert(c05le16(dev.img, o+2) == 5, "fixture: the leaf holds 5 extents")
			dev.img[o+4], dev.img[o+5] = 5, 0
			vp.Cover("root promoted to an on-disk leaf")
		}
		if k == 6 {
			vp.Assert(len(t.nodes) == 2, "the full on-disk leaf was split into two leaves")
			vp.Cover("on-disk leaf split through File.Write")
		}
	}
}

package ext4

import (
	"github.com/diskfs/go-diskfs/internal/vp"
	"github.com/diskfs/go-diskfs/internal/vp/vpdev"
)

// Reference decoders for the extent tree, written from the on-disk layout documentation
// (struct ext4_extent_header / ext4_extent / ext4_extent_idx).
//
//	header: eh_magic u16 = 0xF30A | eh_entries u16 | eh_max u16 | eh_depth u16 | eh_generation u32
//	leaf  : ee_block u32 | ee_len u16 | ee_start_hi u16 | ee_start_lo u32
//	index : ei_block u32 | ei_leaf_lo u32 | ei_leaf_hi u16 | ei_unused u16
func c20RefLeaf(b []byte, i int) (fileBlock uint32, length uint16, start uint64) {
	o := 12 + 12*i
	return c20le32(b, o), c20le16(b, o+4), uint64(c20le16(b, o+6))<<32 | uint64(c20le32(b, o+8))
}

func c20RefIdx(b []byte, i int) (fileBlock uint32, child uint64) {
	o := 12 + 12*i
	return c20le32(b, o), uint64(c20le32(b, o+4)) | uint64(c20le16(b, o+8))<<32
}

func c20SetHeader(b []byte, entries, max, depth uint16) {
	b[0], b[1] = 0x0a, 0xf3
	b[2], b[3] = byte(entries), byte(entries>>8)
	b[4], b[5] = byte(max), byte(max>>8)
	b[6], b[7] = byte(depth), byte(depth>>8)
}

// VP_C20_extent_leaf: the 60 bytes of i_block holding a depth-0 root with n = 0..4 extents, every
// other byte arbitrary: the decoded extents are exactly the on-disk (ee_block, ee_len, ee_start).
func VP_C20_extent_leaf() {
	for n := 0; n <= 4; n++ {
		b := vp.Bytes("iblock", 60)
		c20SetHeader(b, uint16(n), 4, 0)
		vp.NoPanic()
		f, err := parseExtents(b, 4096, 0, vp.U32("blocks"))
		vp.AllowPanic()
		vp.Assert(err == nil, "a leaf root with the extent magic parses")
		if err != nil {
			return
		}
		leaf, ok := f.(*extentLeafNode)
		vp.Assert(ok, "depth 0 gives a leaf node")
		if !ok {
			return
		}
		vp.Assert(len(leaf.extents) == n, "as many extents as eh_entries")
		for i := 0; i < n && i < len(leaf.extents); i++ {
			fb, ln, st := c20RefLeaf(b, i)
			x := leaf.extents[i]
			vp.Assert(c20b2i(x.fileBlock == fb)&c20b2i(x.count == ln)&c20b2i(x.startingBlock == st) == 1,
				"ee_block, ee_len, ee_start = ee_start_hi<<32 | ee_start_lo")
		}
		got, err := leaf.blocks(nil)
		vp.Assert(err == nil, "blocks() of a leaf")
		vp.Assert(len(got) == n, "blocks() returns all extents of the leaf")
	}
	vp.Cover("leaf roots with 0..4 extents decoded")
}

// VP_C20_extent_magic: a node without the extent magic is refused.
func VP_C20_extent_magic() {
	b := vp.Bytes("iblock", 60)
	vp.Assume(c20le16(b, 0) != 0xf30a)
	_, err := parseExtents(b, 4096, 0, 0)
	vp.Assert(err != nil, "node without magic 0xF30A is refused")
	vp.Cover("bad magic refused")
}

// VP_C20_extent_index: a depth>0 root with n = 1..4 index entries: child block = ei_leaf_hi<<32|ei_leaf_lo,
// first file block = ei_block.
func VP_C20_extent_index() {
	for n := 1; n <= 4; n++ {
		b := vp.Bytes("iblock", 60)
		depth := vp.U16("depth")
		vp.Assume(depth >= 1)
		vp.Assume(depth <= 5)
		c20SetHeader(b, uint16(n), 4, depth)
		vp.NoPanic()
		f, err := parseExtents(b, 4096, 0, vp.U32("blocks"))
		vp.AllowPanic()
		vp.Assert(err == nil, "an index root with the extent magic parses")
		if err != nil {
			return
		}
		node, ok := f.(*extentInternalNode)
		vp.Assert(ok, "depth > 0 gives an internal node")
		if !ok {
			return
		}
		vp.Assert(len(node.children) == n, "as many children as eh_entries")
		for i := 0; i < n && i < len(node.children); i++ {
			fb, child := c20RefIdx(b, i)
			vp.Assert(c20b2i(node.children[i].fileBlock == fb)&c20b2i(node.children[i].diskBlock == child) == 1,
				"ei_block, ei_leaf = ei_leaf_hi<<32 | ei_leaf_lo")
		}
	}
	vp.Cover("index roots with 1..4 children decoded")
}

// c20Tree: a depth-1 root in the inode with nchild index entries whose leaves live in arbitrary
// blocks of an arbitrary device; each leaf holds up to maxLeaf extents. blocks() must return the
// extents of all leaves, in tree order, exactly as stored on disk.
func c20Tree(bs uint32, nchild int, maxLeaf int) {
	dev := vpdev.NewMemDev("disk", -1)
	dev.UF = true
	dev.NoWrites = true
	fs := &FileSystem{superblock: &superblock{blockSize: bs}, backend: dev}
	root := vp.Bytes("iblock", 60)
	c20SetHeader(root, uint16(nchild), 4, 1)
	var leafOff [4]int64
	var leafN [4]int
	total := 0
	for c := 0; c < nchild; c++ {
		_, child := c20RefIdx(root, c)
		// 48-bit block numbers on a device of at most 2^62 bytes
		vp.Assume(child < 1<<40)
		off := int64(child) * int64(bs)
		leafOff[c] = off
		vp.Assume(dev.ByteAt(off) == 0x0a)
		vp.Assume(dev.ByteAt(off+1) == 0xf3)
		vp.Assume(dev.ByteAt(off+6) == 0)
		vp.Assume(dev.ByteAt(off+7) == 0)
		vp.Assume(dev.ByteAt(off+3) == 0)
		ne := int(dev.ByteAt(off + 2))
		vp.Assume(ne <= maxLeaf)
		leafN[c] = ne
		total += ne
	}
	vp.Unwind(maxLeaf + 2)
	f, err := parseExtents(root, bs, 0, vp.U32("blocks"))
	if err != nil {
		vp.Assert(false, "root parses")
		return
	}
	vp.NoPanic()
	got, err := f.blocks(fs)
	vp.AllowPanic()
	vp.Assert(err == nil, "walking a well-formed depth-1 tree succeeds")
	if err != nil {
		return
	}
	vp.Assert(len(got) == total, "all extents of all leaves are returned")
	k := 0
	for c := 0; c < nchild; c++ {
		for j := 0; j < maxLeaf; j++ {
			if j < leafN[c] {
				if k < len(got) {
					o := leafOff[c] + 12 + 12*int64(j)
					fb := uint32(dev.ByteAt(o)) | uint32(dev.ByteAt(o+1))<<8 | uint32(dev.ByteAt(o+2))<<16 | uint32(dev.ByteAt(o+3))<<24
					ln := uint16(dev.ByteAt(o+4)) | uint16(dev.ByteAt(o+5))<<8
					st := uint64(dev.ByteAt(o+8)) | uint64(dev.ByteAt(o+9))<<8 | uint64(dev.ByteAt(o+10))<<16 | uint64(dev.ByteAt(o+11))<<24 |
						uint64(dev.ByteAt(o+6))<<32 | uint64(dev.ByteAt(o+7))<<40
					x := got[k]
					vp.Assert(c20b2i(x.fileBlock == fb)&c20b2i(x.count == ln)&c20b2i(x.startingBlock == st) == 1,
						"tree walk: the k-th extent in tree order is the on-disk (ee_block, ee_len, ee_start)")
				}
				k++
			}
		}
	}
	vp.Cover("depth-1 extent tree walked")
}

func VP_C20_extent_tree_1k() { c20Tree(1024, 2, vp.Bound("leafextents", 2, 3)) }
func VP_C20_extent_tree_4k() {
	if vp.Thorough() {
		c20Tree(4096, 3, 2)
	}
}
